#!/bin/bash
# Build the framework from files on disk only (offline).
set -e
cd "$(dirname "$0")"
export CARGO_NET_OFFLINE=true
mkdir -p .build/work
(cd harness && cargo build --offline --release 2>&1 | tail -3 && cargo build --offline 2>&1 | tail -3)
.build/cargo/release/harness gen-tables > .build/work/Tables.lean
if ! cmp -s .build/work/Tables.lean lean/Mqtt/Gen/Tables.lean; then cp .build/work/Tables.lean lean/Mqtt/Gen/Tables.lean; fi
(cd lean && lake build 2>&1 | tail -5)
# self-test of the two drivers
printf 'vi 128\npid 65535 1\n' > .build/work/selftest.ops
.build/cargo/release/harness run < .build/work/selftest.ops > .build/work/selftest.impl
lean/.lake/build/bin/mqttmodel < .build/work/selftest.ops > .build/work/selftest.model
cmp .build/work/selftest.impl .build/work/selftest.model
echo "setup ok"
