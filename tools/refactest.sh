#!/bin/bash
# usage: tools/refactest.sh <worktree with patch.diff> <id>
# A behaviour-preserving change must leave every check quiet: applies the patch to /repo, runs all 20
# quick checks, prints every line that is not OK, reverts /repo and rebuilds the harness.
W=$1; ID=$2
cd $W || exit 1
export CARGO_TARGET_DIR=$W/target CARGO_NET_OFFLINE=true
git checkout -q -- src; git apply patch.diff || { echo "patch does not apply"; exit 1; }
echo "== suite with refactor: $(cargo test --offline --lib 2>&1 | grep -E '^test result' | head -1)"
mkdir -p /verif/refactors/$ID && cp patch.diff /verif/refactors/$ID/ && cp meta.txt /verif/refactors/$ID/agent_meta.txt 2>/dev/null
cd /repo && git apply $W/patch.diff || { echo "patch does not apply to /repo"; exit 1; }
cd /verif; unset CARGO_TARGET_DIR
for P in $(python3 -c "from checkcfg import PROPS; print(' '.join(sorted(PROPS)))"); do ./check $P 2>&1 | grep -E "VIOLATION|^OK" | cut -c1-170; done
git -C /repo checkout -- . && (cd /verif/harness && CARGO_TARGET_DIR=/verif/.build/cargo cargo build --offline --release 2>&1 | tail -1) && echo "== reverted /repo: $(git -C /repo status --short | wc -l) changes left"
git -C /verif checkout -- evidence/ 2>/dev/null
