#!/usr/bin/env python3
"""Compare the theorem statements of a stub file and a proved file (text between `theorem` and `:= by`/`:=`)."""
import re, sys
def stmts(path):
    src = open(path).read()
    out = {}
    for m in re.finditer(r"^theorem\s+(\S+)(.*?):=", src, re.S | re.M):
        out[m.group(1)] = re.sub(r"\s+", " ", m.group(2)).strip()
    return out
a, b = stmts(sys.argv[1]), stmts(sys.argv[2])
ok = True
for k in a:
    if k not in b:
        print("MISSING in proved file:", k); ok = False
    elif a[k] != b[k]:
        print("CHANGED:", k, "\n  stub:  ", a[k], "\n  proved:", b[k]); ok = False
for k in b:
    if k not in a:
        print("extra theorem in proved file:", k)
print("statements identical" if ok else "DIFFERENCES")
