#!/usr/bin/env python3
"""Structural assumptions of the model about /repo/src (non-test code).
   scan(root) -> {"unsafe_sites": [...], "global_state": [...]}
   The model renders every decoder/encoder as a PURE function and proves the logical preconditions of a
   fixed set of `unsafe` idioms; this scan is what ties those two assumptions to the source on every run."""
import os, re, json, sys

GLOBAL = [
    (r"\bstatic\s+mut\b", "static mut"),
    (r"\bthread_local\s*!", "thread_local!"),
    (r"\blazy_static\s*!", "lazy_static!"),
    (r"\bstatic\s+\w+\s*:\s*[^=;]*\b(Atomic\w*|Mutex|RwLock|RefCell|Cell|UnsafeCell|OnceLock|OnceCell|LazyLock|Lazy)\b", "static with interior mutability"),
    (r"\b(once_cell|parking_lot|lazy_static)::", "global-state crate"),
]


def strip_tests(src):
    # drop `#[cfg(test)] mod … { … }` blocks (brace matching) so unit tests do not count
    out, i = [], 0
    while True:
        m = re.search(r"#\[cfg\(test\)\]\s*(pub\s+)?mod\s+\w+\s*\{", src[i:])
        if not m:
            out.append(src[i:])
            break
        out.append(src[i:i + m.start()])
        j, depth = i + m.end(), 1
        while j < len(src) and depth:
            depth += {"{": 1, "}": -1}.get(src[j], 0)
            j += 1
        i = j
    return "".join(out)


def scan(root):
    unsafe, glob = [], []
    for d, _, fs in sorted(os.walk(os.path.join(root, "src"))):
        if "/tests" in d:
            continue
        for f in sorted(fs):
            if not f.endswith(".rs"):
                continue
            p = os.path.join(d, f)
            src = strip_tests(open(p).read())
            lines = [re.sub(r"//.*", "", l) for l in src.splitlines()]
            for i, l in enumerate(lines):
                if re.search(r"\bunsafe\b", l):
                    stmt = l.strip()
                    k = i
                    while stmt.count("{") > stmt.count("}") and k + 1 < len(lines) and k < i + 6:
                        k += 1
                        stmt += " " + lines[k].strip()
                    unsafe.append({"file": os.path.relpath(p, root), "code": re.sub(r"\s+", " ", stmt)})
                for pat, what in GLOBAL:
                    if re.search(pat, l):
                        glob.append({"file": os.path.relpath(p, root), "what": what, "code": l.strip()[:200]})
    return {"unsafe_sites": unsafe, "global_state": glob}


if __name__ == "__main__":
    print(json.dumps(scan(sys.argv[1] if len(sys.argv) > 1 else "/repo"), indent=1))
