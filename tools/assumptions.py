#!/usr/bin/env python3
"""Structural assumptions of the model about /repo/src (non-test code).
   scan(root) -> {"unsafe_sites": [...], "global_state": [...], "lossy_tags": [...]}
   The model renders every decoder/encoder as a PURE function and proves the logical preconditions of a
   fixed set of `unsafe` idioms; this scan is what ties those two assumptions to the source on every run."""
import os, re, json, sys

GLOBAL = [
    (r"\bstatic\s+mut\b", "static mut"),
    (r"\bthread_local\s*!", "thread_local!"),
    (r"\blazy_static\s*!", "lazy_static!"),
    (r"\bstatic\s+\w+\s*:\s*[^=;]*\b(Atomic\w*|Mutex|RwLock|RefCell|Cell|UnsafeCell|OnceLock|OnceCell|LazyLock|Lazy)\b", "static with interior mutability"),
    (r"\b(once_cell|parking_lot|lazy_static)::", "global-state crate"),
]


# idioms by which code computes a LOSSY tag (hash, fingerprint, checksum) of a text or byte string: the model
# compares texts and byte strings by value everywhere, so code that treats "equal tag" as "equal value" is outside it
TAGS = [
    (r"\bwrapping_mul\b", "wrapping_mul"),
    (r"\brotate_(left|right)\b", "rotate"),
    (r"\b(Default)?Hasher\b|\bBuildHasher\b|\bRandomState\b|::hash::", "std hashing"),
    (r"\.hash\s*\(|\bhash_one\b", "hash call"),
    (r"(?i)\b\w*(fnv|crc32|crc|adler|murmur|siphash|xxhash|fingerprint|checksum|digest)\w*\b", "hash-like name"),
]


def strip_tests(src):
    # drop `#[cfg(test)] mod … { … }` blocks (brace matching) so unit tests do not count
    out, i = [], 0
    while True:
        m = re.search(r"#\[cfg\(test\)\]\s*(pub\s+)?mod\s+\w+\s*\{", src[i:])
        if not m:
            out.append(src[i:])
            break
        out.append(src[i:i + m.start()])
        j, depth = i + m.end(), 1
        while j < len(src) and depth:
            depth += {"{": 1, "}": -1}.get(src[j], 0)
            j += 1
        i = j
    return "".join(out)


def scan(root):
    unsafe, glob, tags = [], [], []
    for d, _, fs in sorted(os.walk(os.path.join(root, "src"))):
        if "/tests" in d:
            continue
        for f in sorted(fs):
            if not f.endswith(".rs"):
                continue
            p = os.path.join(d, f)
            src = strip_tests(open(p).read())
            lines = [re.sub(r"//.*", "", l) for l in src.splitlines()]
            for i, l in enumerate(lines):
                if re.search(r"\bunsafe\b", l):
                    stmt = l.strip()
                    k = i
                    while stmt.count("{") > stmt.count("}") and k + 1 < len(lines) and k < i + 6:
                        k += 1
                        stmt += " " + lines[k].strip()
                    unsafe.append({"file": os.path.relpath(p, root), "code": re.sub(r"\s+", " ", stmt)})
                for pat, what in GLOBAL:
                    if re.search(pat, l):
                        glob.append({"file": os.path.relpath(p, root), "what": what, "code": l.strip()[:200]})
                for pat, what in TAGS:
                    if re.search(pat, l):
                        tags.append({"file": os.path.relpath(p, root), "what": what, "code": l.strip()[:200]})
                        break
    return {"unsafe_sites": unsafe, "global_state": glob, "lossy_tags": tags}


if __name__ == "__main__":
    print(json.dumps(scan(sys.argv[1] if len(sys.argv) > 1 else "/repo"), indent=1))
