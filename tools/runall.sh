#!/bin/bash
# run every claimed check (quick tier) on the current tree and validate MANIFEST + evidence against the schemas
cd /verif
fail=0
for p in $(python3 -c "import json; print(' '.join(c['property_id'] for c in json.load(open('MANIFEST.json'))['checks']))"); do
  out=$(VERIF_SEED=${VERIF_SEED:-1} ./check $p --tier ${1:-quick} 2>&1 | grep -E "^(OK|VIOLATION)" | tail -1)
  echo "$out"
  case "$out" in OK*) ;; *) fail=1;; esac
done
python3-vt - <<'PY'
import json, jsonschema, glob
jsonschema.validate(json.load(open('/verif/MANIFEST.json')), json.load(open('/root/.vp/MANIFEST.schema.json')))
sch = json.load(open('/root/.vp/EVIDENCE.schema.json'))
for f in sorted(glob.glob('/verif/evidence/C*.json')):
    e = json.load(open(f))
    jsonschema.validate(e, sch)
    c = e['coverage']
    assert c['obligations'] == c['discharged'] >= 1, (f, c['obligations'], c['discharged'])
    assert e.get('violations', 0) == 0, f
print("manifest and", len(glob.glob('/verif/evidence/C*.json')), "evidence files valid")
PY
exit $fail
