#!/bin/bash
# usage: tools/corr.sh <stream> [tier] [seed]   — quick manual correspondence run
B=/verif/.build/cargo/release/harness; M=/verif/lean/.lake/build/bin/mqttmodel; W=/verif/.build/work
s=$1; tier=${2:-quick}; seed=${3:-0}
$B gen $s $tier $seed > $W/$s.ops || exit 1
echo "ops: $(wc -l < $W/$s.ops)"
( time $B run < $W/$s.ops > $W/$s.impl ) 2>&1 | grep real
( time $M < $W/$s.ops > $W/$s.model ) 2>&1 | grep real
python3 - "$W/$s" <<'PY'
import sys
b=sys.argv[1]
ops=open(b+'.ops').read().splitlines(); a=open(b+'.impl').read().splitlines(); m=open(b+'.model').read().splitlines()
bad=[(o,x,y) for o,x,y in zip(ops,a,m) if x!=y]
print("disagreements:",len(bad), "(lines impl/model/ops:",len(a),len(m),len(ops),")")
for o,x,y in bad[:6]:
    print(" op:   ",o[:300]); print("  impl: ",x[:300]); print("  model:",y[:300])
PY
