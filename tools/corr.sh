#!/bin/bash
# usage: tools/corr.sh <stream> [tier] [seed] [--debug]   — quick manual correspondence run
B=/verif/.build/cargo/release/harness; M=/verif/lean/.lake/build/bin/mqttmodel; W=/verif/.build/work
s=$1; tier=${2:-quick}; seed=${3:-0}
$B gen $s $tier $seed > $W/$s.ops || exit 1
echo "ops: $(wc -l < $W/$s.ops)"
( time $B run < $W/$s.ops > $W/$s.impl ) 2>&1 | grep real
( time $M < $W/$s.ops > $W/$s.model ) 2>&1 | grep real
paste -d'|' $W/$s.ops $W/$s.impl $W/$s.model | awk -F'|' '$2!=$3' > $W/$s.diff
echo "disagreements: $(wc -l < $W/$s.diff)"
cut -c1-400 $W/$s.diff | head -${SHOW:-6}
