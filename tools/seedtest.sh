#!/bin/bash
# usage: tools/seedtest.sh <scratch worktree> <seed id> <property> [more properties...]
# 1. confirms in the scratch worktree: suite passes with the patch, demo fails with / passes without
# 2. stores the seed under /verif/seeded/<id>/   3. applies to /repo, runs the checks, reverts
W=$1; ID=$2; shift 2; PROPS="$@"
export CARGO_TARGET_DIR=$W/target CARGO_NET_OFFLINE=true
cd $W || exit 1
[ -f patch.diff ] || { echo "no patch.diff"; exit 1; }
git checkout -q -- src
echo "== without patch: demo"; cargo test --offline --test seed_demo 2>&1 | grep -E "^test result|error" | head -3
git apply patch.diff || { echo "patch does not apply"; exit 1; }
echo "== with patch: existing suite"; cargo test --offline --lib 2>&1 | grep -E "^test result" | head -2
echo "== with patch: demo"; cargo test --offline --test seed_demo 2>&1 | grep -E "^test result|panicked" | head -4
mkdir -p /verif/seeded/$ID && cp patch.diff /verif/seeded/$ID/ && cp tests/seed_demo.rs /verif/seeded/$ID/ && cp meta.txt /verif/seeded/$ID/agent_meta.txt 2>/dev/null
cd /repo && git apply $W/patch.diff || { echo "patch does not apply to /repo"; exit 1; }
cd /verif
unset CARGO_TARGET_DIR
for P in $PROPS; do echo "== check $P with patch"; ./check $P 2>&1 | tail -3; cp evidence/$P.json /tmp/scratch/evidence_$ID_$P.json 2>/dev/null; done
git -C /repo checkout -- . && (cd /verif/harness && CARGO_TARGET_DIR=/verif/.build/cargo cargo build --offline --release 2>&1 | tail -1) && echo "== reverted /repo: $(git -C /repo status --short | wc -l) changes left"
