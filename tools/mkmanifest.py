#!/usr/bin/env python3
"""Regenerate /verif/MANIFEST.json from checkcfg.PROPS (claimed = has a 'level_text')."""
import json, os, sys
V = os.path.dirname(os.path.dirname(os.path.abspath(__file__)))
sys.path.insert(0, V)
from checkcfg import PROPS, HOOK_COMMITS
props = [json.loads(l) for l in open(os.path.join(V, 'properties.jsonl'))]
checks, na = [], []
for p in props:
    i = p['id']
    c = PROPS.get(i)
    if c and c.get('level_text'):
        checks.append({
            "property_id": i,
            "quick_cmd": f"./check {i} --tier quick",
            "thorough_cmd": f"./check {i} --tier thorough",
            "evidence_file": f"/verif/evidence/{i}.json",
            "replay_cmd_template": f"./check {i} --replay {{path}}",
            "engine": "lean4-model-proof",
            "level_claimed": {"category": "proof", "text": c["level_text"], "design_ref": "DESIGN.md §6 " + i},
            "level_note": c.get("level_note", "Trusted: Lean 4.33 kernel; axioms propext/Classical.choice/Quot.sound only (audited per theorem from the compiled environment); the statement files Properties/*.lean and Spec/*.lean; the table extractor (Tie A); the differential harness that ties the hand-written model to /repo (Tie B). Modelled, not verified: see DESIGN.md §7."),
            "technique": c.get("technique", "Lean 4 machine-checked proof over an executable model; model tied to /repo by tables regenerated from the running code and by differential correspondence"),
        })
    else:
        na.append({"property_id": i, "reason": (c or {}).get("na_reason", "not yet claimed: the model/theorems for this property are still being built (DESIGN.md §8 order of work); the technique applies, nothing is claimed until its theorems check")})
m = {
    "version": 1,
    "setup_cmd": "./setup.sh",
    "hooks": {"guard": "mqtt_proto_verif", "enable": "none needed: every observation goes through the crate's public API (RUSTFLAGS='--cfg mqtt_proto_verif' is declared but unused)", "baseline_off_cmd": "cd /repo && cargo test --workspace --no-fail-fast --offline", "source_commits": HOOK_COMMITS, "add_only": True},
    "engines": [{"name": "lean4-model-proof", "path": "/verif/lean", "serves_properties": [c["property_id"] for c in checks], "kind_free_text": "Lean 4 model + theorems (lake project /verif/lean), Rust differential harness (/verif/harness), driver /verif/check"}],
    "checks": checks,
    "not_applicable": na,
    "notes": "All checks go through /verif/check <id> --tier quick|thorough; design, trusted base, findings and seeded-change results are in DESIGN.md.",
}
json.dump(m, open(os.path.join(V, 'MANIFEST.json'), 'w'), indent=1)
print(f"claimed {len(checks)}, not yet claimed {len(na)}")
