/-
  Audit — list every theorem declared in a compiled module with the axioms it
  depends on (what `#print axioms` reports), as one JSON object per line.
  Usage: lake env lean --run Audit.lean Properties.C19
-/
import Lean
open Lean

instance : MonadEnv (StateM Environment) := ⟨get, modify⟩

def jsonStr (s : String) : String := "\"" ++ s ++ "\""

def main (args : List String) : IO UInt32 := do
  let some modStr := args.head? | do IO.eprintln "usage: Audit <module>"; return 2
  let modName := modStr.toName
  initSearchPath (← findSysroot)
  let env ← importModules #[{ module := modName }] {}
  let some idx := env.getModuleIdx? modName | do IO.eprintln "module not found"; return 2
  let names := env.header.moduleData[idx.toNat]!.constNames
  for n in names do
    if n.isInternal then continue
    -- skip compiler-generated equation/unfolding lemmas of definitions in the statement files
    let last := n.getString!
    if last.startsWith "eq_" || last == "eq_def" || last.startsWith "match_" || last == "induct" || last == "induct_unfolding" || last == "fun_cases" || last == "fun_cases_unfolding" || last.startsWith "proof_" || last == "congr_simp" || last.endsWith "_unfold" then continue
    match env.find? n with
    | some (.thmInfo _) =>
      let (arr, _) := ((collectAxioms n : StateM Environment (Array Name))).run env
      let axs := arr.toList.map (fun a => jsonStr a.toString)
      IO.println s!"\{\"theorem\": {jsonStr n.toString}, \"axioms\": [{", ".intercalate axs}]}"
    | _ => pure ()
  return 0
