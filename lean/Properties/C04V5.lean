/-
  C04 (v5 part) — Malformed frames are rejected: acceptance equals the MQTT grammar.

  `Poll.spec (pollFamily debug)` is the strict (poll-based) decoder as a function of the
  stream (C05: every delivery schedule gives exactly this).  `Spec.decodeV5` is the
  independent grammar (with the pinned leniencies of DESIGN.md §4, all named in
  `Spec.Lenient`); `Spec.decodeV5Loose` is the same grammar tolerating non-minimal
  variable byte integers (remaining length, property lengths, subscription identifiers).
-/
import Proofs.V5Spec

namespace C04.V5
open Mqtt Mqtt.V5

/-- COMPLETE: every frame the grammar accepts (and the packet type can represent: see K1
below) is accepted by the strict decoder, with exactly the field values and the frame
size the specification assigns. -/
theorem grammar_accepted_is_accepted (debug : Bool) (bs : Bytes) (p : Packet) (total : Nat)
    (term : Poll.Term) (h : Spec.decodeV5 bs = some (p, total)) :
    ∃ body, (Poll.spec (pollFamily debug) bs term).1 = .ok total body p :=
  spec_to_model5 debug bs term total p h

/-- SOUND: everything the strict decoder accepts is a well-formed packet of the grammar
with the same field values — up to non-minimal encodings of variable byte integers, the
only thing the decoder tolerates beyond the grammar. -/
theorem accepted_is_grammar_loose (debug : Bool) (bs : Bytes) (p : Packet) (total : Nat)
    (body : Bytes) (term : Poll.Term)
    (h : (Poll.spec (pollFamily debug) bs term).1 = .ok total body p) :
    Spec.decodeV5Loose bs = some (p, total) :=
  model_to_spec5 debug bs term total body p h

/-- KNOWN FINDING K1, as a theorem about the model: a PUBLISH that the grammar accepts
with more than one Subscription Identifier (legal per MQTT 5.0 §3.3.2.3.8, not
representable in `PublishProperties`) is refused by the strict decoder with
`DuplicatedProperty(SubscriptionIdentifier)`. -/
theorem multiple_subscription_identifiers_refused (debug : Bool) (bs : Bytes) (sp : Spec.PacketV5)
    (total : Nat) (term : Poll.Term)
    (h : Spec.parseV5 bs = some (sp, total)) (hm : Spec.toModelV5 sp = none) :
    (Poll.spec (pollFamily debug) bs term).1 = .err (.duplicatedProperty 0x0B) :=
  spec_k1 debug bs sp total term h hm

/-- On minimally encoded frames the accepted set IS the grammar (minus K1): the strict
decoder accepts exactly when the specification does, and returns the specification's value. -/
theorem acceptance_equals_grammar (debug : Bool) (bs : Bytes) (p : Packet) (total : Nat)
    (term : Poll.Term) :
    Spec.decodeV5 bs = some (p, total) ↔
      (∃ body, (Poll.spec (pollFamily debug) bs term).1 = .ok total body p) ∧
        Spec.decodeV5 bs = Spec.decodeV5Loose bs := by
  constructor
  · intro h
    obtain ⟨body, hb⟩ := spec_to_model5 debug bs term total p h
    exact ⟨⟨body, hb⟩, by rw [h, model_to_spec5 debug bs term total body p hb]⟩
  · rintro ⟨⟨body, hb⟩, heq⟩
    rw [heq]
    exact model_to_spec5 debug bs term total body p hb

end C04.V5
