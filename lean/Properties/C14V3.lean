/-
  C14 (v3, read side) — Transport failures are surfaced as I/O errors of the same kind.
-/
import Proofs.V3Compose

namespace C14.V3
open Mqtt Mqtt.V3

/-- For every valid packet and every position inside its encoding, a read error of
kind `k` injected at that position makes the async decoder and the poll decoder
(under every delivery schedule) return `IoError(k)` — never a packet, a protocol error
or 'incomplete'; end-of-stream at that position yields an error recognised by is_eof. -/
theorem read_fault_is_io_error (debug : Bool) (p : Packet) (hv : p.valid = true) (k : IoKind) :
    ∃ vb, p.encode debug = .ok vb ∧ ∀ j, j < vb.asRef.length →
      runAsync (decodeAsync debug) (vb.asRef.take j) (.err k) = .err (.ioError k) ∧
      (∀ sched, (Poll.run (pollFamily debug) debug (vb.asRef.take j) sched (.err k)).result
          = .err (.ioError k)) ∧
      (∃ e, runAsync (decodeAsync debug) (vb.asRef.take j) .eof = .err e ∧ e.isEof = true) := by
  obtain ⟨vb, he, -, hasync, hpoll⟩ := encoding_facts debug p hv
  refine ⟨vb, he, fun j hj => ?_⟩
  have hmore := prefix_is_more debug vb.asRef p hasync j hj
  exact ⟨runAsync_of_more hmore (.err k),
    fun sched => prefix_poll debug vb.asRef p hpoll j hj sched (.err k),
    _, runAsync_of_more hmore .eof, rfl⟩

/-- A fault after the complete packet is not seen at all. -/
theorem fault_after_packet_unseen (debug : Bool) (p : Packet) (hv : p.valid = true) (k : IoKind) :
    ∃ vb, p.encode debug = .ok vb ∧
      runAsync (decodeAsync debug) vb.asRef (.err k) = .ok p vb.asRef.length ∧
      (∀ sched, ∃ body, (Poll.run (pollFamily debug) debug vb.asRef sched (.err k)).result
          = .ok vb.asRef.length body p) := by
  obtain ⟨vb, he, -, hasync, hpoll⟩ := encoding_facts debug p hv
  refine ⟨vb, he, ?_, fun sched => ?_⟩
  · have h0 := hasync []
    rw [List.append_nil] at h0
    rw [runAsync_of_ok h0 (.err k), List.length_nil, Nat.sub_zero]
  · obtain ⟨body, h1, -⟩ := whole_poll debug vb.asRef p hpoll [] sched (.err k)
    rw [List.append_nil] at h1
    exact ⟨body, h1⟩

/-- Conversions between the codec's error type and `std::io::Error` preserve the I/O
error kind and map protocol errors to InvalidData. -/
theorem io_conversions (k : IoKind) (e : Error) :
    Error.toIo (Error.fromIo k) = k ∧
    ((∀ k', e ≠ .ioError k') → e.toIo = .invalidData) ∧
    (ErrorV5.fromIo k = .common (.ioError k)) ∧
    ((Error.fromIo k).isEof = true ↔ k = .unexpectedEof) := by
  refine ⟨rfl, ?_, rfl, ?_⟩
  · intro h
    cases e with
    | ioError k' => exact absurd rfl (h k')
    | _ => rfl
  · cases k <;> simp [Error.fromIo, Error.isEof]

end C14.V3
