/-
  C20 — Malformed input is classified with the specific documented error.

  Classification theorems over the model, one per kind of the catalogue, stated at the
  reader where the malformation is detected and quantified over everything around it
  (all other field values, all following bytes).  The catalogue applied to whole valid
  packets at every position — on the implementation and on the model — is the
  correspondence stream `v3cat`/`v5cat` and the oracle; the error ORDER (which check
  wins when several fields are bad) is part of the model and therefore of these theorems.
-/
import Proofs.Classify

namespace C20
open Mqtt

/-! ### fixed header -/

/-- Illegal type/flag nibbles and PUBLISH QoS 3: whatever the first byte's table row
says is the error of all three front-ends, for every (complete) remaining-length field
and everything after it. (v3; v5 below.) -/
theorem v3_header_error_on_all_front_ends (debug : Bool) (cb : UInt8) (lenBytes rest : Bytes)
    (n k : Nat) (e : Error) (term : Poll.Term)
    (hlen : decodeVarInt (lenBytes ++ rest) = .ok (n, k) rest)
    (hrow : V3.Header.newWith cb n = .error e) :
    V3.decodeAsync debug (cb :: (lenBytes ++ rest)) = .err e ∧
    V3.decodeBlocking debug (cb :: (lenBytes ++ rest)) = .err e ∧
    (Poll.spec (V3.pollFamily debug) (cb :: (lenBytes ++ rest)) term).1 = .err e := by
  have hlen' : decodeVarIntAux Error.invalidVarByteInt 0 0 (lenBytes ++ rest) = .ok (n, k) rest := hlen
  have hd : V3.Header.decode (cb :: (lenBytes ++ rest)) = .err e := by
    rw [V3.headerDecode_cons, hlen']
    simp only [hrow]
  have ha : V3.decodeAsync debug (cb :: (lenBytes ++ rest)) = .err e := by
    simp only [V3.decodeAsync, bind, Parser.bind, hd, Res.bind]
  exact ⟨ha, V3.decodeBlocking_of_err ha (V3.noIo_headerNewWith cb n e hrow),
    Poll.spec_header_error (V3.pollFamily debug) cb _ rest n k e term hlen' hrow⟩

theorem v5_header_error_on_all_front_ends (debug : Bool) (cb : UInt8) (lenBytes rest : Bytes)
    (n k : Nat) (e : ErrorV5) (term : Poll.Term)
    (hlen : decodeVarInt (lenBytes ++ rest) = .ok (n, k) rest)
    (hrow : V5.Header.newWith cb n = .error e) :
    V5.decodeAsync debug (cb :: (lenBytes ++ rest)) = .err e ∧
    V5.decodeBlocking debug (cb :: (lenBytes ++ rest)) = .err e ∧
    (Poll.spec (V5.pollFamily debug) (cb :: (lenBytes ++ rest)) term).1 = .err e := by
  have hlen' : decodeVarIntAux (ErrorV5.common .invalidVarByteInt) 0 0 (lenBytes ++ rest)
      = .ok (n, k) rest := by
    rw [V5.decodeVarIntAux_common]
    have : decodeVarIntAux Error.invalidVarByteInt 0 0 (lenBytes ++ rest) = .ok (n, k) rest := hlen
    rw [this]; rfl
  have hd : V5.Header.decode (cb :: (lenBytes ++ rest)) = .err e := by
    rw [V5.headerDecode_cons, hlen']
    simp only [hrow]
  have ha : V5.decodeAsync debug (cb :: (lenBytes ++ rest)) = .err e := by
    simp only [V5.decodeAsync, bind, Parser.bind, hd, Res.bind]
  exact ⟨ha, V5.decodeBlocking_of_err ha (V5.noIo_headerNewWith cb n e hrow _),
    Poll.spec_header_error (V5.pollFamily debug) cb _ rest n k e term hlen' hrow⟩

/-- Which first bytes are refused and how: type nibble 0 (and 15 in v3) and wrong flag
nibbles are `InvalidHeader`; a PUBLISH first byte with QoS bits 11 is `InvalidQos(3)`;
everything else is accepted. -/
theorem header_rows_classified (cb : UInt8) (n : Nat) :
    (V3.Header.newWith cb n = .error .invalidHeader ∨ V3.Header.newWith cb n = .error (.invalidQos 3) ∨
      ∃ h, V3.Header.newWith cb n = .ok h) ∧
    (cb.toNat / 16 = 0 ∨ cb.toNat / 16 = 15 → V3.Header.newWith cb n = .error .invalidHeader) ∧
    (cb.toNat / 16 = 3 ∧ cb.toNat / 2 % 4 = 3 → V3.Header.newWith cb n = .error (.invalidQos 3)) ∧
    (cb.toNat / 16 = 0 → V5.Header.newWith cb n = .error (.common .invalidHeader)) ∧
    (cb.toNat / 16 = 3 ∧ cb.toNat / 2 % 4 = 3 → V5.Header.newWith cb n = .error (.common (.invalidQos 3))) ∧
    (cb.toNat / 16 ≠ 3 → cb.toNat / 16 ≠ 0 →
      cb.toNat % 16 ≠ (if cb.toNat / 16 = 6 ∨ cb.toNat / 16 = 8 ∨ cb.toNat / 16 = 10 then 2 else 0) →
      V3.Header.newWith cb n = .error .invalidHeader ∧ V5.Header.newWith cb n = .error (.common .invalidHeader)) := by
  have hc := header_rows_chk ⟨cb.toNat, cb.toNat_lt⟩
  obtain ⟨v30, v31, v32⟩ := rowClass_v3 cb n
  obtain ⟨v51, v52⟩ := rowClass_v5 cb n
  simp only [rowChk, Bool.and_eq_true, Bool.or_eq_true, Bool.not_eq_true', decide_eq_true_eq,
    decide_eq_false_iff_not, beq_iff_eq] at hc
  obtain ⟨⟨⟨⟨⟨c0, c1⟩, c2⟩, c3⟩, c4⟩, c5⟩ := hc
  refine ⟨?_, ?_, ?_, ?_, ?_, ?_⟩
  · generalize rowClass (Gen.headerV3.getD cb.toNat (.error .invalidHeader)) = c at *
    match c, c0 with
    | 0, _ => exact .inr (.inr (v30 rfl))
    | 1, _ => exact .inl (v31 rfl)
    | 2, _ => exact .inr (.inl (v32 rfl))
  · intro h; exact v31 (c1.resolve_left (fun hn => hn h))
  · intro h; exact v32 (c2.resolve_left (fun hn => hn h))
  · intro h; exact v51 (c3.resolve_left (fun hn => hn h))
  · intro h; exact v52 (c4.resolve_left (fun hn => hn h))
  · intro h3 h0 hf
    rcases c5 with hn | ⟨a, b⟩
    · simp [h3, h0, hf] at hn
    · exact ⟨v31 a, v51 b⟩

/-- An over-long remaining length (four continuation bytes) is `InvalidVarByteInt` on all
front-ends of both families, after exactly five bytes. -/
theorem overlong_remaining_length (debug : Bool) (cb b0 b1 b2 b3 : UInt8) (rest : Bytes) (term : Poll.Term)
    (h0 : 128 ≤ b0.toNat) (h1 : 128 ≤ b1.toNat) (h2 : 128 ≤ b2.toNat) (h3 : 128 ≤ b3.toNat) :
    V3.decodeAsync debug (cb :: b0 :: b1 :: b2 :: b3 :: rest) = .err .invalidVarByteInt ∧
    V5.decodeAsync debug (cb :: b0 :: b1 :: b2 :: b3 :: rest) = .err (.common .invalidVarByteInt) ∧
    (Poll.spec (V3.pollFamily debug) (cb :: b0 :: b1 :: b2 :: b3 :: rest) term) = (.err .invalidVarByteInt, 5) ∧
    (Poll.spec (V5.pollFamily debug) (cb :: b0 :: b1 :: b2 :: b3 :: rest) term) = (.err (.common .invalidVarByteInt), 5) := by
  have e3 := decodeVarIntAux_overlong Error.invalidVarByteInt b0 b1 b2 b3 rest h0 h1 h2 h3
  have e5 := decodeVarIntAux_overlong (ErrorV5.common .invalidVarByteInt) b0 b1 b2 b3 rest h0 h1 h2 h3
  refine ⟨?_, ?_, Poll.spec_length_error (V3.pollFamily debug) cb _ _ term e3,
    Poll.spec_length_error (V5.pollFamily debug) cb _ _ term e5⟩
  · simp only [V3.decodeAsync, bind, Parser.bind, V3.headerDecode_cons, e3, Res.bind]
  · simp only [V5.decodeAsync, bind, Parser.bind, V5.headerDecode_cons, e5, Res.bind]

/-! ### packet identifier, codes, flags -/

/-- A zero packet identifier is `ZeroPid`, wherever a packet identifier is read first. -/
theorem zero_pid (rest : Bytes) :
    readPid (0 :: 0 :: rest) = .err .zeroPid ∧
    (∀ debug h, h.typ.toNat ∈ [4, 5, 6, 7, 8, 9, 10, 11] →
      V3.decodeBody debug h (0 :: 0 :: rest) = .err .zeroPid ∧
      V3.blockDecode debug h (0 :: 0 :: rest) = .err .zeroPid) ∧
    (∀ debug (h : V5.Header), h.typ.toNat ∈ [4, 5, 6, 7, 8, 9, 10, 11] →
      V5.decodeBody debug h (0 :: 0 :: rest) = .err (.common .zeroPid) ∧
      V5.blockDecode debug h (0 :: 0 :: rest) = .err (.common .zeroPid)) := by
  have hp : readPid (0 :: 0 :: rest) = .err .zeroPid := rfl
  have hp5 : V5.liftC readPid (0 :: 0 :: rest) = .err (.common .zeroPid) := rfl
  refine ⟨hp, ?_, ?_⟩
  · intro debug h ht
    simp only [List.mem_cons, List.not_mem_nil, or_false] at ht
    rcases ht with ht | ht | ht | ht | ht | ht | ht | ht <;>
      simp only [V3.decodeBody, V3.blockDecode, ht, V3.Subscribe.decode, V3.Suback.decode,
        V3.Unsubscribe.decode, bind, Parser.bind, hp, Res.bind, and_self]
  · intro debug h ht
    simp only [List.mem_cons, List.not_mem_nil, or_false] at ht
    rcases ht with ht | ht | ht | ht | ht | ht | ht | ht <;>
      simp only [V5.decodeBody, V5.blockDecode, ht, V5.Ack.decode, V5.Subscribe.decode,
        V5.CodesAck.decode, V5.Unsubscribe.decode, bind, Parser.bind, hp5, Res.bind, and_self]

/-- PUBLISH with QoS > 0: a zero packet identifier after any valid topic name is `ZeroPid`
(the topic itself is validated later, so this holds for every UTF-8 topic text). -/
theorem publish_zero_pid (h3 : V3.Header) (h5 : V5.Header) (topic rest : Bytes)
    (ht : topic.length ≤ 65535) (hu : Utf8.valid topic = true)
    (hq3 : h3.qos = 1 ∨ h3.qos = 2) (hq5 : h5.qos = 1 ∨ h5.qos = 2)
    (hr3 : 2 + topic.length + 2 ≤ h3.remainingLen) (hr5 : 2 + topic.length + 2 ≤ h5.remainingLen) :
    V3.Publish.decode h3 (writeBytes topic ++ 0 :: 0 :: rest) = .err .zeroPid ∧
    V5.Publish.decode h5 (writeBytes topic ++ 0 :: 0 :: rest) = .err (.common .zeroPid) := by
  have hs := readString_writeBytes topic (0 :: 0 :: rest) ht hu
  have hp : readPid (0 :: 0 :: rest) = .err .zeroPid := rfl
  have hc3 : 2 + topic.length ≤ h3.remainingLen := by omega
  have hc3' : 2 ≤ h3.remainingLen - (2 + topic.length) := by omega
  have hc5 : 2 + topic.length ≤ h5.remainingLen := by omega
  have hc5' : 2 ≤ h5.remainingLen - (2 + topic.length) := by omega
  constructor
  · rcases hq3 with hq | hq <;>
      simp [V3.Publish.decode, hs, checkedSub, hc3, hc3', hq, hp]
  · rcases hq5 with hq | hq <;>
      simp [V5.Publish.decode, hs, Res.mapErr, checkedSub, hc5, hc5', hq, hp]

/-- CONNACK: flags byte above 1 and return/reason codes outside the table. -/
theorem connack_classified (f c : UInt8) (rest : Bytes) (h5 : V5.Header) :
    (1 < f.toNat → V3.Connack.decode (f :: c :: rest) = .err (.invalidConnackFlags f) ∧
                    V5.Connack.decode h5 (f :: c :: rest) = .err (.common (.invalidConnackFlags f))) ∧
    (f.toNat ≤ 1 → codeOfByte .connectReturnV3 c = none →
        V3.Connack.decode (f :: c :: rest) = .err (.invalidConnectReturnCode c)) ∧
    (f.toNat ≤ 1 → codeOfByte .connectReason c = none →
        V5.Connack.decode h5 (f :: c :: rest) = .err (.invalidReasonCode h5.typ c)) := by
  have ht3 : take (ε := Error) 2 (f :: c :: rest) = .ok [f, c] rest := by simp [take]
  have ht5 : take (ε := ErrorV5) 2 (f :: c :: rest) = .ok [f, c] rest := by simp [take]
  refine ⟨?_, ?_, ?_⟩
  · intro hf
    have hn : ¬ (f = 0 ∨ f = 1) := by
      rintro (h | h) <;> subst h <;> simp at hf
    simp [V3.Connack.decode, V5.Connack.decode, ht3, ht5, hn]
  · intro hf hc
    have hy : f = 0 ∨ f = 1 := by
      have : f.toNat = 0 ∨ f.toNat = 1 := by omega
      rcases this with h | h
      · left; exact UInt8.toNat_inj.mp h
      · right; exact UInt8.toNat_inj.mp h
    simp [V3.Connack.decode, ht3, hy, hc]
  · intro hf hc
    have hy : f = 0 ∨ f = 1 := by
      have : f.toNat = 0 ∨ f.toNat = 1 := by omega
      rcases this with h | h
      · left; exact UInt8.toNat_inj.mp h
      · right; exact UInt8.toNat_inj.mp h
    simp [V5.Connack.decode, ht5, hy, V5.parseReason, hc]

/-- v5 reason codes outside the packet's table are `InvalidReasonCode(type, byte)`:
acknowledgements (long forms), DISCONNECT, AUTH. -/
theorem v5_reason_code_classified (k : Gen.CodeKind) (h : V5.Header) (p0 p1 c : UInt8) (rest : Bytes)
    (hpid : be16 p0 p1 ≠ 0) (hrl : h.remainingLen ≠ 2) (hc : codeOfByte k c = none) :
    V5.Ack.decode k h (p0 :: p1 :: c :: rest) = .err (.invalidReasonCode h.typ c) ∧
    (h.remainingLen ≠ 0 → codeOfByte .disconnectReason c = none →
      V5.Disconnect.decode h (c :: rest) = .err (.invalidReasonCode h.typ c)) ∧
    (h.remainingLen ≠ 0 → codeOfByte .authReason c = none →
      V5.Auth.decode h (c :: rest) = .err (.invalidReasonCode h.typ c)) := by
  have hp : readPid (p0 :: p1 :: c :: rest) = .ok ⟨be16 p0 p1⟩ (c :: rest) := by
    simp [readPid, readU16, Pid.tryFrom, hpid]
  refine ⟨?_, ?_, ?_⟩
  · by_cases h3 : h.remainingLen = 3 <;>
      simp [V5.Ack.decode, hp, hrl, h3, Res.mapErr, V5.parseReason, hc]
  · intro h0 hd
    by_cases h1 : h.remainingLen = 1 <;>
      simp [V5.Disconnect.decode, h0, h1, Res.mapErr, V5.parseReason, hd]
  · intro h0 hd
    simp [V5.Auth.decode, h0, Res.mapErr, V5.parseReason, hd]

/-- CONNECT flags: the reserved bit, and a will QoS without a will flag, are
`InvalidConnectFlags(flags)` in both families (v3: the second only after keep-alive and a
well-formed client identifier have been read; v5: after the properties too). -/
theorem connect_flags_classified (p3 : Protocol) (hp3 : p3 ≠ .v500) (h5 : V5.Header)
    (flags : UInt8) (rest : Bytes) (hres : flags &&& 1 ≠ 0) :
    V3.Connect.decodeWithProtocol p3 (flags :: rest) = .err (.invalidConnectFlags flags) ∧
    V5.Connect.decodeWithProtocol h5 .v500 (flags :: rest) = .err (.common (.invalidConnectFlags flags)) := by
  have hl : ¬ p3.level > 4 := by cases p3 <;> first | decide | exact absurd rfl hp3
  constructor
  · simp [V3.Connect.decodeWithProtocol, hl, hres]
  · simp [V5.Connect.decodeWithProtocol, Res.mapErr, hres]

theorem connect_will_qos_without_will_v3 (p3 : Protocol) (hp3 : p3 ≠ .v500)
    (flags k0 k1 : UInt8) (cid rest : Bytes)
    (hres : flags &&& 1 = 0) (hnowill : flags &&& 0b100 = 0) (hq : flags &&& 0b11000 ≠ 0)
    (hc : cid.length ≤ 65535) (hu : Utf8.valid cid = true) :
    V3.Connect.decodeWithProtocol p3 (flags :: k0 :: k1 :: (writeBytes cid ++ rest))
      = .err (.invalidConnectFlags flags) := by
  have hl : ¬ p3.level > 4 := by cases p3 <;> first | decide | exact absurd rfl hp3
  have hk : readU16 (ε := Error) (k0 :: k1 :: (writeBytes cid ++ rest)) = .ok (be16 k0 k1) (writeBytes cid ++ rest) := rfl
  have hs := readString_writeBytes cid rest hc hu
  simp [V3.Connect.decodeWithProtocol, hl, hres, hk, hs, hnowill, hq]

/-! ### strings, topic names, topic filters -/

/-- A length-prefixed field that is not valid UTF-8 is `InvalidString`, at the reader
every text field goes through (client id, user name, will topic, topic names and
filters, every v5 string property and user property). -/
theorem non_utf8_is_invalid_string (s rest : Bytes) (hl : s.length ≤ 65535)
    (hbad : Utf8.valid s = false) :
    readString (writeBytes s ++ rest) = .err .invalidString := by
  simp [readString, readBytes_writeBytes s rest hl, hbad]

/-- A well-formed UTF-8 text that is not a topic name (contains '+', '#' or U+0000, or is
too long) is `InvalidTopicName(text)`; as a v5 Response Topic it is `InvalidResponseTopic`;
a text that is not a topic filter is `InvalidTopicFilter(text)`. -/
theorem topic_text_classified (debug : Bool) (s : Bytes) (cs : List Char)
    (hd : Utf8.decode s = some cs) (rest : Bytes) (ps : V5.Props) (hfresh : ps.get 0x08 = none)
    (hl : s.length ≤ 65535) :
    (Topic.nameIsInvalid cs = true → topicNameTryFrom s = .error (.invalidTopicName s)) ∧
    (Topic.nameIsInvalid cs = true →
      V5.decodePropValue 0x08 .topic ps (writeBytes s ++ rest) = .err .invalidResponseTopic) ∧
    (Spec.validFilter cs = false →
      topicFilterTryFrom debug s = .err (.invalidTopicFilter s)) := by
  have hu : Utf8.valid s = true := by simp [Utf8.valid, hd]
  have hn : Topic.nameIsInvalid cs = true → topicNameTryFrom s = .error (.invalidTopicName s) := by
    intro hb; simp [topicNameTryFrom, hd, hb]
  refine ⟨hn, ?_, ?_⟩
  · intro hb
    simp [V5.decodePropValue, hfresh, Res.mapErr, readString_writeBytes s rest hl hu, hn hb]
  · intro hv
    simp [topicFilterTryFrom, hd, C16.filter_validation_is_mqtt, hv]

/-- v3 PUBLISH: the topic name is validated after the payload has been read; a complete
frame with a wildcard in the topic is `InvalidTopicName(topic)`. -/
theorem v3_publish_bad_topic (h : V3.Header) (topic payload rest : Bytes) (cs : List Char)
    (hq : h.qos = 0) (hd : Utf8.decode topic = some cs) (hbad : Topic.nameIsInvalid cs = true)
    (hl : topic.length ≤ 65535) (hrl : h.remainingLen = 2 + topic.length + payload.length) :
    V3.Publish.decode h (writeBytes topic ++ payload ++ rest) = .err (.invalidTopicName topic) := by
  have hu : Utf8.valid topic = true := by simp [Utf8.valid, hd]
  have hs := readString_writeBytes topic (payload ++ rest) hl hu
  have hn : topicNameTryFrom topic = .error (.invalidTopicName topic) := by
    simp [topicNameTryFrom, hd, hbad]
  have hsub : h.remainingLen - (2 + topic.length) = payload.length := by omega
  have hle : 2 + topic.length ≤ h.remainingLen := by omega
  rw [List.append_assoc]
  simp only [V3.Publish.decode, bind, Parser.bind, hs, Res.bind, checkedSub, hle, if_true,
    Parser.pure, hq, hsub, pure, gt_iff_lt]
  have ht := takeRest (ε := Error) payload rest
  simp only [pure] at ht
  rw [ht]
  simp only [hn, liftExcept_error]

/-! ### SUBSCRIBE -/

/-- Subscription options: reserved bits 6-7, QoS 3 and Retain Handling 3 are
`InvalidSubscriptionOption(byte)`; a v3 requested QoS above 2 is `InvalidQos(byte)`. -/
theorem subscription_option_classified (b : UInt8) :
    (b &&& 0b11000000 ≠ 0 ∨ b &&& 0b11 = 3 ∨ (b &&& 0b110000) >>> 4 = 3 →
      V5.decodeSubOpts b = .error (.invalidSubscriptionOption b)) ∧
    (2 < b.toNat → qosFromU8 b = .error (.invalidQos b)) := by
  have hb : b = UInt8.ofNat b.toNat := by simp
  have key := subOpts_chk ⟨b.toNat, b.toNat_lt⟩
  simp only [← hb] at key
  exact ⟨fun h => eq_error_of_isErrorWith (key.1 h), fun h => eq_error_of_isErrorWith (key.2 h)⟩

/-- SUBSCRIBE / UNSUBSCRIBE without any topic filter are `EmptySubscription`. -/
theorem empty_subscription (debug : Bool) (p0 p1 : UInt8) (rest : Bytes) (hpid : be16 p0 p1 ≠ 0)
    (h5 : V5.Header) (hr5 : h5.remainingLen = 3) :
    V3.Subscribe.decode debug 2 (p0 :: p1 :: rest) = .err .emptySubscription ∧
    V3.Unsubscribe.decode debug 2 (p0 :: p1 :: rest) = .err .emptySubscription ∧
    V5.Subscribe.decode debug h5 (p0 :: p1 :: 0 :: rest) = .err (.common .emptySubscription) ∧
    V5.Unsubscribe.decode debug h5 (p0 :: p1 :: 0 :: rest) = .err (.common .emptySubscription) := by
  have hp : ∀ t, readPid (p0 :: p1 :: t) = .ok ⟨be16 p0 p1⟩ t := by
    intro t; simp [readPid, readU16, Pid.tryFrom, hpid]
  have hv : decodeVarInt (0 :: rest) = .ok (0, 1) rest := by
    simp [decodeVarInt, decodeVarIntAux]
  have hlen : V5.Props.encodeLen V5.subscribeProps V5.Props.empty = .ok 1 := by rfl
  refine ⟨?_, ?_, ?_, ?_⟩
  · simp [V3.Subscribe.decode, hp, checkedSub]
  · simp [V3.Unsubscribe.decode, hp, checkedSub]
  · simp [V5.Subscribe.decode, hp, Res.mapErr, V5.decodeProps, hv, V5.decodePropsLoop,
      V5.propsEncodeLenP, hlen, hr5, checkedSub]
  · simp [V5.Unsubscribe.decode, hp, Res.mapErr, hv, V5.unsubPropsLoop, hr5, checkedSub]

/-! ### v5 properties (the generic loop: one theorem per kind, for every identifier list) -/

/-- The next property identifier decides: unknown byte → `InvalidPropertyId`; a known
identifier outside the packet's list (and not User Property) → `InvalidProperty(type, id)`
for packets, `InvalidWillProperty(id)` for the will; an identifier already seen →
`DuplicatedProperty(id)`; a Boolean-valued property above 1 → `InvalidByteProperty(id, v)`. -/
theorem property_classified (ctx : V5.PropCtx) (allowed : List UInt8) (propertyLen fuel len : Nat)
    (ps : V5.Props) (idb : UInt8) (rest : Bytes) (hmore : len < propertyLen) :
    (codeOfByte .propertyId idb = none →
      V5.decodePropsLoop ctx allowed propertyLen (fuel + 1) len ps (idb :: rest)
        = .err (.invalidPropertyId idb)) ∧
    (∀ id, codeOfByte .propertyId idb = some id → allowed.contains id = false → id ≠ V5.USER_PROPERTY →
      V5.decodePropsLoop ctx allowed propertyLen (fuel + 1) len ps (idb :: rest) = .err (ctx.reject id)) ∧
    (∀ id k, codeOfByte .propertyId idb = some id → allowed.contains id = true →
      V5.propKind id = some k → (ps.get id).isSome = true →
      V5.decodePropsLoop ctx allowed propertyLen (fuel + 1) len ps (idb :: rest)
        = .err (.duplicatedProperty id)) ∧
    (∀ id v rest', codeOfByte .propertyId idb = some id → allowed.contains id = true →
      (V5.propKind id = some .byte01 ∨ V5.propKind id = some .qos01) → ps.get id = none →
      rest = v :: rest' → 1 < v.toNat →
      V5.decodePropsLoop ctx allowed propertyLen (fuel + 1) len ps (idb :: rest)
        = .err (.invalidByteProperty id v)) := by
  have hgt : propertyLen > len := hmore
  refine ⟨?_, ?_, ?_, ?_⟩
  · intro hc
    simp [V5.decodePropsLoop, hgt, Res.mapErr, hc]
  · intro id hc ha hu
    have ha : id ∉ allowed := by simpa using ha
    simp [V5.decodePropsLoop, hgt, Res.mapErr, hc, ha, hu]
  · intro id k hc ha hk hdup
    have ha : id ∈ allowed := by simpa using ha
    simp [V5.decodePropsLoop, hgt, Res.mapErr, hc, ha, hk, V5.decodePropValue, hdup]
  · intro id v rest' hc ha hk hfresh hrest hv
    subst hrest
    have ha : id ∈ allowed := by simpa using ha
    have hv' : v > 1 := by
      show (1 : UInt8) < v
      exact UInt8.lt_iff_toNat_lt.mpr hv
    rcases hk with hk | hk <;>
      simp [V5.decodePropsLoop, hgt, Res.mapErr, hc, ha, hk, V5.decodePropValue, hfresh, hv']

/-- A property section whose entries do not add up to the declared length is
`InvalidPropertyLength(declared)`. -/
theorem property_length_mismatch (ctx : V5.PropCtx) (allowed : List UInt8) (propertyLen fuel len : Nat)
    (ps : V5.Props) (rest : Bytes) (hover : propertyLen < len) :
    V5.decodePropsLoop ctx allowed propertyLen (fuel + 1) len ps rest
      = .err (.invalidPropertyLength propertyLen) := by
  have h1 : ¬ propertyLen > len := by omega
  have h2 : propertyLen ≠ len := by omega
  simp [V5.decodePropsLoop, h1, h2]

/-! ### remaining length (strict vs lenient) -/

/-- The strict decoder turns "body decoder wants more than the frame holds" and "body
decoder left bytes of the frame unread" into `InvalidRemainingLength`; an inner error
that is not EOF passes through unchanged. -/
theorem strict_framing_errors {H P E : Type} (fam : Poll.Family H P E) (h : H) (total : Nat) (buf : Bytes) :
    (fam.blockDecode h buf = .more →
      Poll.finishBody fam h total buf = .err (fam.ofCommon .invalidRemainingLength)) ∧
    (∀ p rest, fam.blockDecode h buf = .ok p rest → rest ≠ [] →
      Poll.finishBody fam h total buf = .err (fam.ofCommon .invalidRemainingLength)) ∧
    (∀ e, fam.blockDecode h buf = .err e → fam.isEof e = false →
      Poll.finishBody fam h total buf = .err e) := by
  refine ⟨?_, ?_, ?_⟩
  · intro hm; simp only [Poll.finishBody, hm]
  · intro p rest hm hne
    have : rest.isEmpty = false := by cases rest <;> simp_all
    simp [Poll.finishBody, hm, this]
  · intro e hm he
    simp [Poll.finishBody, hm, he]

end C20
