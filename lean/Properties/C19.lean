/-
  C19 — Packet identifiers cycle through 1..=65535 and never become 0.

  Statements only; lemmas live in `Proofs/Pid.lean`.  `Pid.add`/`Pid.sub` return
  `Except String Pid` where `.error` is a Rust panic site, so `= .ok q` also says
  "does not panic in a debug build".
-/
import Proofs.Pid

namespace C19
open Mqtt Mqtt.Pid

/-- Adding any 16-bit amount never panics, never yields 0, and equals stepping that
many times around the cycle 1..65535. -/
theorem add_is_cycle_steps (p : Pid) (u : UInt16) (hp : p.val ≠ 0) :
    ∃ q, p.add u = .ok q ∧ q.val ≠ 0 ∧
      q.val.toNat = Spec.pidSuccN u.toNat p.val.toNat := by
  obtain ⟨q, hq, hv⟩ := add_spec p u hp
  have hp' : p.val.toNat ≠ 0 := fun h => hp (UInt16.toNat_inj.mp (by simpa using h))
  refine ⟨q, hq, ?_, ?_⟩
  · intro h; rw [h] at hv; simp at hv
  · rw [succN_closed _ _ (by omega) (by have := p.val.toNat_lt; omega)]; exact hv

/-- Subtracting any 16-bit amount never panics, never yields 0, and equals stepping
that many times backwards around the cycle. -/
theorem sub_is_cycle_steps (p : Pid) (u : UInt16) (hp : p.val ≠ 0) :
    ∃ q, p.sub u = .ok q ∧ q.val ≠ 0 ∧
      q.val.toNat = Spec.pidPredN u.toNat p.val.toNat := by
  obtain ⟨q, hq, hv⟩ := sub_spec p u hp
  have hp' : p.val.toNat ≠ 0 := fun h => hp (UInt16.toNat_inj.mp (by simpa using h))
  refine ⟨q, hq, ?_, ?_⟩
  · intro h; rw [h] at hv; simp at hv
  · rw [predN_closed _ _ (by omega) (by have := p.val.toNat_lt; omega)]; exact hv

/-- Subtraction undoes addition. -/
theorem sub_add_cancel (p : Pid) (u : UInt16) (hp : p.val ≠ 0) :
    ∃ q, p.add u = .ok q ∧ q.sub u = .ok p := by
  obtain ⟨q, hq, hv⟩ := add_spec p u hp
  have hp' : p.val.toNat ≠ 0 := fun h => hp (UInt16.toNat_inj.mp (by simpa using h))
  have hq0 : q.val ≠ 0 := by intro h; rw [h] at hv; simp at hv
  obtain ⟨r, hr, hrv⟩ := sub_spec q u hq0
  refine ⟨q, hq, ?_⟩
  rw [hr]; congr 1
  have h1 := p.val.toNat_lt
  have h2 := u.toNat_lt
  have : r.val.toNat = p.val.toNat := by rw [hrv, hv]; omega
  cases r; cases p; simp at this ⊢; exact UInt16.toNat_inj.mp this

/-- Addition undoes subtraction. -/
theorem add_sub_cancel (p : Pid) (u : UInt16) (hp : p.val ≠ 0) :
    ∃ q, p.sub u = .ok q ∧ q.add u = .ok p := by
  obtain ⟨q, hq, hv⟩ := sub_spec p u hp
  have hp' : p.val.toNat ≠ 0 := fun h => hp (UInt16.toNat_inj.mp (by simpa using h))
  have hq0 : q.val ≠ 0 := by intro h; rw [h] at hv; simp at hv
  obtain ⟨r, hr, hrv⟩ := add_spec q u hq0
  refine ⟨q, hq, ?_⟩
  rw [hr]; congr 1
  have h1 := p.val.toNat_lt
  have h2 := u.toNat_lt
  have : r.val.toNat = p.val.toNat := by rw [hrv, hv]; omega
  cases r; cases p; simp at this ⊢; exact UInt16.toNat_inj.mp this

/-- The in-place operators agree with the pure ones. -/
theorem assign_eq_pure (p : Pid) (u : UInt16) :
    p.addAssign u = p.add u ∧ p.subAssign u = p.sub u := ⟨rfl, rfl⟩

/-- Construction from a raw integer fails exactly for 0, and keeps the value otherwise. -/
theorem tryFrom_zero_iff (v : UInt16) :
    (Pid.tryFrom v = .error .zeroPid ↔ v = 0) ∧ (v ≠ 0 → Pid.tryFrom v = .ok ⟨v⟩) := by
  unfold Pid.tryFrom
  by_cases h : v = 0 <;> simp [h]

/-- The specification's cycle stays inside 1..65535 (sanity of `Spec`). -/
theorem spec_cycle_closed (p : Nat) (h1 : 1 ≤ p) (h2 : p ≤ 65535) :
    1 ≤ Spec.pidSucc p ∧ Spec.pidSucc p ≤ 65535 ∧ Spec.pidPred (Spec.pidSucc p) = p ∧
    1 ≤ Spec.pidPred p ∧ Spec.pidPred p ≤ 65535 ∧ Spec.pidSucc (Spec.pidPred p) = p := by
  unfold Spec.pidSucc Spec.pidPred
  refine ⟨?_, ?_, ?_, ?_, ?_, ?_⟩ <;> (repeat' split) <;> omega

-- non-vacuity: the hypotheses are satisfiable and the wrap-around cases are real
example : (⟨65535⟩ : Pid).val ≠ 0 ∧ (⟨65535⟩ : Pid).add 1 = .ok ⟨1⟩ := ⟨by decide, rfl⟩
example : (⟨1⟩ : Pid).sub 1 = .ok ⟨65535⟩ ∧ (⟨1⟩ : Pid).sub 65535 = .ok ⟨1⟩ := ⟨rfl, rfl⟩

end C19
