/-
  C02 (v3 part) — Declared lengths always equal the bytes actually written.
-/
import Proofs.V3RoundTrip

namespace C02.V3
open Mqtt Mqtt.V3

/-- Every separately encodable part writes exactly as many bytes as it reports —
for ALL values, valid or not (so the `debug_assert_eq!` in `encode_packet` can never
fire for v3). -/
theorem parts_write_what_they_report :
    (∀ p : Protocol, p.encode.length = p.encodeLen) ∧
    (∀ w : LastWill, w.encode.length = w.encodeLen) ∧
    (∀ c : Connect, c.encode.length = c.encodeLen) ∧
    (∀ p : Publish, p.encode.length = p.encodeLen) ∧
    (∀ s : Subscribe, s.encode.length = s.encodeLen) ∧
    (∀ s : Suback, s.encode.length = s.encodeLen) ∧
    (∀ u : Unsubscribe, u.encode.length = u.encodeLen) :=
  ⟨Protocol.encode_length, LastWill.encode_length, Connect.encode_length, Publish.encode_length,
    Subscribe.encode_length, Suback.encode_length, Unsubscribe.encode_length⟩

/-- For every packet whatsoever: the encoder never panics, its outcome does not
depend on debug assertions, and when it succeeds the output is control byte ++
minimal remaining length ++ body with the remaining length equal to the number of
bytes that follow it, and its size is what `encode_len` reports. -/
theorem encode_shape (debug : Bool) (p : Packet) :
    (∀ site, p.encode debug ≠ .panic site) ∧
    (∀ vb, p.encode debug = .ok vb →
      p.encode (!debug) = .ok vb ∧
      p.encodeLen = .ok vb.asRef.length ∧
      ∃ cb n body, vb.asRef = cb :: (writeVarInt n ++ body) ∧ body.length = n ∧ n < 268435456) := by
  rcases Packet.encode_total p with ⟨vb, cb, n, body, henc, hlen, hb, hl, hn⟩ | ⟨herr, _⟩
  · refine ⟨fun site h => ?_, fun vb' h => ?_⟩
    · rw [henc] at h; cases h
    · rw [henc] at h; cases h
      exact ⟨henc _, hlen, cb, n, body, hb, hl, hn⟩
  · refine ⟨fun site h => ?_, fun vb' h => ?_⟩
    · rw [herr] at h; cases h
    · rw [herr] at h; cases h

/-- A packet too large for the 4-byte remaining length is refused with an error by
both `encode` and `encode_len`, never emitted. -/
theorem too_large_refused (debug : Bool) (p : Packet) (e : Error)
    (h : p.encodeLen = .error e) :
    e = .invalidVarByteInt ∧ p.encode debug = .err .invalidVarByteInt := by
  rcases Packet.encode_total p with ⟨vb, cb, n, body, henc, hlen, hb, hl, hn⟩ | ⟨herr, hlen⟩
  · rw [hlen] at h; cases h
  · rw [hlen] at h; cases h
    exact ⟨rfl, herr debug⟩

/-- Conversely `encode` fails only in that way and exactly when `encode_len` does. -/
theorem encode_err_iff (debug : Bool) (p : Packet) (e : Error) (h : p.encode debug = .err e) :
    e = .invalidVarByteInt ∧ p.encodeLen = .error .invalidVarByteInt := by
  rcases Packet.encode_total p with ⟨vb, cb, n, body, henc, hlen, hb, hl, hn⟩ | ⟨herr, hlen⟩
  · rw [henc] at h; cases h
  · rw [herr] at h; cases h
    exact ⟨rfl, hlen⟩

end C02.V3
