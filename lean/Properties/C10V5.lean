/-
  C10 (v5 part) — Encoder output is a conformant MQTT 5.0 packet per an independent decoder.

  `Spec.decodeV5` is the reference decoder written from the MQTT Version 5.0 OASIS Standard
  by a separate author who never saw the codec or its model (layout-descriptor style:
  split the frame, parse a generic field list incl. the property sections, validate, project).
  The proofs are in Proofs/V5SpecEnc.lean (generic layer: Proofs/SpecFields.lean).
-/
import Proofs.V5SpecEnc

namespace C10.V5
open Mqtt Mqtt.V5 Mqtt.V5.SpecEnc

/-- For every valid v5 packet the emitted bytes are a well-formed MQTT 5.0 control packet
per the independent decoder (written from the OASIS standard by a separate author), which
recovers exactly the original field values — every property, every reason code — and the
exact frame size, also when further bytes follow. -/
theorem spec_decodes_encoder_output (debug : Bool) (p : Packet) (hv : p.valid = true) (hwf : p.wf)
    (hfit : C01.V5.Fits p) (t : Bytes) :
    ∃ vb, p.encode debug = .ok vb ∧ Spec.decodeV5 (vb.asRef ++ t) = some (p, vb.asRef.length) := by
  exact spec_decodes_encoding true debug p hv hwf hfit t

/-- The same with non-minimal Variable Byte Integers tolerated by the reader (a fortiori). -/
theorem loose_spec_decodes_encoder_output (debug : Bool) (p : Packet) (hv : p.valid = true)
    (hwf : p.wf) (hfit : C01.V5.Fits p) (t : Bytes) :
    ∃ vb, p.encode debug = .ok vb ∧
      Spec.decodeV5Loose (vb.asRef ++ t) = some (p, vb.asRef.length) := by
  exact spec_decodes_encoding false debug p hv hwf hfit t

/-- The numeric tables the running code uses (extracted by Tie A) are the ones typed from
the standard: every reason-code table, retain handling, and the set of property identifiers
with their wire types and the packets they may appear in.  (True as originally stated: every
conjunct is checked by evaluation of the 256 byte values.) -/
theorem code_tables_are_spec :
    (∀ kt ∈ [(Gen.CodeKind.connectReason, Spec.PType.connack), (.pubackReason, .puback),
        (.pubrecReason, .pubrec), (.pubrelReason, .pubrel), (.pubcompReason, .pubcomp),
        (.subscribeReason, .suback), (.unsubscribeReason, .unsuback),
        (.disconnectReason, .disconnect), (.authReason, .auth)],
      ∀ b : Fin 256, (Gen.variants kt.1).contains (UInt8.ofNat b.val) = Spec.reasonCodeOk kt.2 (UInt8.ofNat b.val)) ∧
    (Gen.variants .retainHandling = [0, 1, 2]) ∧
    (∀ b : Fin 256, (codeOfByte .propertyId (UInt8.ofNat b.val)).isSome =
        (Spec.propertyWireType (UInt8.ofNat b.val)).isSome) ∧
    (∀ al ∈ [(connectProps, some Spec.PType.connect), (willProps, none), (connackProps, some .connack),
        (disconnectProps, some .disconnect), (authProps, some .auth), (publishProps, some .publish),
        (ackProps, some .puback), (ackProps, some .pubrec), (ackProps, some .pubrel),
        (ackProps, some .pubcomp), (ackProps, some .suback), (ackProps, some .unsuback),
        (subscribeProps, some .subscribe), (unsubscribeProps, some .unsubscribe)],
      ∀ b : Fin 256, UInt8.ofNat b.val ≠ USER_PROPERTY →
        al.1.contains (UInt8.ofNat b.val) = Spec.propertyAllowed al.2 (UInt8.ofNat b.val)) := by
  refine ⟨reasonCodes_agree, by decide, ?_, ?_⟩
  · set_option maxRecDepth 100000 in decide
  · set_option maxRecDepth 100000 in decide

/-- Beyond set membership: the wire type the code's `decode_property!` arm uses for each
identifier it lists is the type of Table 2-4, and the User Property is allowed in every
section (it is handled outside the identifier lists). -/
theorem property_kinds_are_spec :
    (∀ al ∈ [(connectProps, some Spec.PType.connect), (willProps, none), (connackProps, some .connack),
        (disconnectProps, some .disconnect), (authProps, some .auth), (publishProps, some .publish),
        (ackProps, some .puback), (ackProps, some .pubrec), (ackProps, some .pubrel),
        (ackProps, some .pubcomp), (ackProps, some .suback), (ackProps, some .unsuback),
        (subscribeProps, some .subscribe), (unsubscribeProps, some .unsubscribe)],
      (∀ i ∈ al.1, (propKind i).map wireOf = Spec.propertyWireType i) ∧
      Spec.propertyAllowed al.2 USER_PROPERTY = true) := by
  decide

end C10.V5
