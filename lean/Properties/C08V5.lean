/-
  C08 (v5 part) — Back-to-back packets on a stream are framed without loss or overlap.
-/
import Proofs.V5Compose

namespace C08.V5
open Mqtt Mqtt.V5

/-- Encodings of a list of packets (all must encode). -/
def encodeAll (debug : Bool) : List Packet → Option (List Bytes)
  | [] => some []
  | p :: ps =>
    match p.encode debug, encodeAll debug ps with
    | .ok vb, some rest => some (vb.asRef :: rest)
    | _, _ => none

/-- Decode packets one after another with a lenient front-end (async/blocking: the
reader position advances by what was consumed) until the input is exhausted. Returns
each packet with the number of bytes consumed for it. -/
def decodeSeqAsync (debug : Bool) : Nat → Bytes → Option (List (Packet × Nat))
  | 0, _ => none
  | fuel + 1, bs =>
    if bs.isEmpty then some [] else
    match decodeAsync debug bs with
    | .ok p rest => (decodeSeqAsync debug fuel rest).map (fun l => (p, bs.length - rest.length) :: l)
    | _ => none

/-- The same with the poll decoder, advancing by the total it reports. -/
def decodeSeqPoll (debug : Bool) (term : Poll.Term) : Nat → Bytes → Option (List (Packet × Nat))
  | 0, _ => none
  | fuel + 1, bs =>
    if bs.isEmpty then some [] else
    match (Poll.spec (pollFamily debug) bs term).1 with
    | .ok total _ p => (decodeSeqPoll debug term fuel (bs.drop total)).map (fun l => (p, total) :: l)
    | _ => none

/-- For every finite sequence of valid packets, decoding the concatenation of their
encodings one packet at a time returns exactly that sequence in order, each packet
consuming exactly its own encoding (so the byte counts add up to the stream length and
no decoder touches the following packet), and then the input is exhausted at a clean
boundary; for the async/blocking front-ends and for the poll front-end alike. -/
theorem stream_roundtrip (debug : Bool) (ps : List Packet) (hv : ∀ p ∈ ps, p.valid = true ∧ p.wf ∧ C01.V5.Fits p)
    (term : Poll.Term) :
    ∃ encs, encodeAll debug ps = some encs ∧
      decodeSeqAsync debug (ps.length + 1) encs.flatten = some (ps.zip (encs.map List.length)) ∧
      decodeSeqPoll debug term (ps.length + 1) encs.flatten = some (ps.zip (encs.map List.length)) ∧
      (encs.map List.length).sum = encs.flatten.length := by
  have hfa : ∀ fuel bs, decodeSeqAsync debug (fuel + 1) bs =
      if bs.isEmpty then some [] else
      stepCons (decodeSeqAsync debug fuel) (asyncStep debug bs) := by
    intro fuel bs
    simp only [decodeSeqAsync, asyncStep]
    split
    · rfl
    · cases decodeAsync debug bs <;> rfl
  have hfp : ∀ fuel bs, decodeSeqPoll debug term (fuel + 1) bs =
      if bs.isEmpty then some [] else
      stepCons (decodeSeqPoll debug term fuel) (pollStep debug term bs) := by
    intro fuel bs
    simp only [decodeSeqPoll, pollStep]
    split
    · rfl
    · cases (Poll.spec (pollFamily debug) bs term).1 <;> rfl
  have hframed : ∃ encs, encodeAll debug ps = some encs ∧
      Framed (asyncStep debug) ps encs ∧ Framed (pollStep debug term) ps encs := by
    induction ps with
    | nil => exact ⟨[], rfl, .nil, .nil⟩
    | cons p ps ih =>
      obtain ⟨encs, hall, fa, fp⟩ := ih (fun q hq => hv q (List.mem_cons_of_mem p hq))
      obtain ⟨hpv, hpwf, hpfit⟩ := hv p List.mem_cons_self
      obtain ⟨vb, he, hne, hasync, hpoll⟩ := encoding_facts debug p hpv hpwf hpfit
      refine ⟨vb.asRef :: encs, ?_, ?_, ?_⟩
      · simp only [encodeAll, he, hall]
      · exact .cons hne (asyncStep_enc debug vb.asRef p hasync) fa
      · exact .cons hne (pollStep_enc debug term vb.asRef p hpoll) fp
  obtain ⟨encs, hall, fa, fp⟩ := hframed
  exact ⟨encs, hall, stream_generic _ _ hfa ps encs fa, stream_generic _ _ hfp ps encs fp,
    sum_lengths_eq_flatten_length encs⟩

/-- After the last packet every front-end reports end-of-input, not an error or a packet. -/
theorem clean_end (debug : Bool) :
    decodeAsync debug [] = .more ∧ decodeBlocking debug [] = .ok none 0 ∧
    (Poll.spec (pollFamily debug) [] .eof).1 = .err (.common (.ioError .unexpectedEof)) := by
  exact ⟨rfl, rfl, rfl⟩

end C08.V5
