/-
  C11 (v5 part) — Anything a decoder accepts can be re-encoded and decodes to itself.

  Known findings: K3 (the lenient front-ends do not compare self-delimiting bodies with the
  fixed header's remaining length, so a header that understates the length with a shorter
  length field is accepted and the canonical re-encoding is up to 3 bytes longer than what
  was consumed) and K2 (same cause; a body beyond 268,435,455 bytes is accepted and cannot
  be re-encoded — excluded by `hsize`).  The strict poll decoder has neither.

  Status of the statements (all proved, none had to be corrected):
  * `poll_accepted_reencodes` — as stated.
  * `async_accepted_reencodes_partial` — as stated; the constant `+ 3` is the TRUE bound
    (`async_excess_three_attained` exhibits excess exactly 3), refined by
    `async_accepted_reencodes_tied` (excess 0 for the types tied to the remaining length).
  * `async_length_bound_fails` — witness: `10 00` ++ a 145-byte v5 CONNECT body.

  Concrete runs of the model (`#eval`, model = code by Tie B), consumed / re-encoded bytes:
    10 00 ++ 00 04 4D 51 54 54 05 40 00 0A 00 00 00 00 82 ++ 130×00   147 / 148   (K3, +1)
    20 00 00 00 85 01 1F 00 82 ++ 130×61                                139 / 140   (K3, +1)
    40 04 00 01 00 00     (PUBACK long form, Success, no properties)      6 / 4
    40 01 00 01 00 00     (same body behind remaining length 1)           6 / 4
    20 04 00 00 80 00     (CONNACK, property length 0 spelled `80 00`)    6 / 5
-/
import Proofs.V5Accept

namespace C11.V5
open Mqtt Mqtt.V5

/-- Whatever the strict poll decoder accepts lies in the valid domain (decidable part,
property sets confined to their structs, fits the 4-byte remaining length), re-encodes
without error or panic in either profile to at most the reported total, and the
re-encoding decodes to the same packet on every front-end. -/
theorem poll_accepted_reencodes (debug : Bool) (bs : Bytes) (term : Poll.Term)
    (total : Nat) (body : Bytes) (p : Packet)
    (h : (Poll.spec (pollFamily debug) bs term).1 = .ok total body p) :
    p.valid = true ∧ p.wf ∧
    ∃ vb, p.encode debug = .ok vb ∧ vb.asRef.length ≤ total ∧
      (∀ t, decodeAsync debug (vb.asRef ++ t) = .ok p t) ∧
      (∃ n, decodeBlocking debug vb.asRef = .ok (some p) n ∧ n = vb.asRef.length) ∧
      (∀ term', (Poll.spec (pollFamily debug) vb.asRef term').1 =
        .ok vb.asRef.length (vb.asRef.drop (headerLen vb.asRef.length)) p) := by
  obtain ⟨hv, hw, n, hb, hn, hle⟩ := poll_ok_inv h
  obtain ⟨vb, henc, hlen, ha, hbk, hp⟩ := reencode_of_accepted debug p hv hw hb hn
  exact ⟨hv, hw, vb, henc, by rw [hlen]; exact hle, ha, hbk, hp⟩

/-- Whatever the async/blocking decoder accepts (having consumed fewer than 2^28 bytes)
lies in the valid domain, re-encodes and re-decodes likewise, and the re-encoding is at
most 3 bytes longer than the bytes consumed (K3; the strict decoder's bound is exact).

The constant 3 is the true bound: the lenient decoder reads CONNECT, CONNACK, the long
forms of PUBACK/PUBREC/PUBREL/PUBCOMP, DISCONNECT and AUTH as self-delimiting bodies without
comparing them with the fixed header's remaining length, so the header may declare any
remaining length in a ONE-byte length field while the canonical re-encoding of a body of
2,097,152 bytes or more needs a FOUR-byte one; body bytes never grow (every decoder
consumes at least the canonical size of what it returns).  `async_excess_three_attained`
below shows the bound is attained; `async_accepted_reencodes_tied` that it is 0 for the
packet types whose body the decoder does tie to the remaining length. -/
theorem async_accepted_reencodes_partial (debug : Bool) (bs rest : Bytes) (p : Packet)
    (h : decodeAsync debug bs = .ok p rest) (hsize : bs.length - rest.length < 268435456) :
    p.valid = true ∧ p.wf ∧
    ∃ vb, p.encode debug = .ok vb ∧ vb.asRef.length ≤ bs.length - rest.length + 3 ∧
      (∀ t, decodeAsync debug (vb.asRef ++ t) = .ok p t) ∧
      (∃ n, decodeBlocking debug vb.asRef = .ok (some p) n ∧ n = vb.asRef.length) ∧
      (∀ term, (Poll.spec (pollFamily debug) vb.asRef term).1 =
        .ok vb.asRef.length (vb.asRef.drop (headerLen vb.asRef.length)) p) := by
  obtain ⟨hv, hw, n, hb, hle, -⟩ := decodeAsync_ok_inv h
  have hn : n < 268435456 := by omega
  obtain ⟨vb, henc, hlen, ha, hbk, hp⟩ := reencode_of_accepted debug p hv hw hb hn
  have := varIntSize_le n
  exact ⟨hv, hw, vb, henc, by rw [hlen]; omega, ha, hbk, hp⟩

/-- For PUBLISH, SUBSCRIBE, SUBACK, UNSUBSCRIBE, UNSUBACK, PINGREQ and PINGRESP (the types
whose body the lenient decoder ties to the header's remaining length) the bound is exact:
the re-encoding is no longer than the bytes consumed, and `hsize` is not needed. -/
theorem async_accepted_reencodes_tied (debug : Bool) (bs rest : Bytes) (p : Packet)
    (h : decodeAsync debug bs = .ok p rest) (ht : p.tied = true) :
    ∃ vb, p.encode debug = .ok vb ∧ vb.asRef.length ≤ bs.length - rest.length := by
  obtain ⟨hv, hw, n, hb, -, hle⟩ := decodeAsync_ok_inv h
  obtain ⟨hn, hle⟩ := hle ht
  obtain ⟨vb, henc, hlen, -⟩ := reencode_of_accepted debug p hv hw hb hn
  exact ⟨vb, henc, by rw [hlen]; exact hle⟩

/-- K3 as a proved counter-example to the exact bound for the lenient front-end: a v5
CONNECT whose fixed header claims remaining length 0 (one length byte) in front of a
145-byte body is accepted by the async decoder, which consumes 147 bytes; the packet
re-encodes to 148 bytes. -/
theorem async_length_bound_fails (debug : Bool) :
    ∃ (bs rest : Bytes) (p : Packet) (vb : VarBytes),
      decodeAsync debug bs = .ok p rest ∧ bs.length - rest.length < 268435456 ∧
      p.encode debug = .ok vb ∧ ¬ vb.asRef.length ≤ bs.length - rest.length := by
  let c : Connect := ⟨.v500, false, 0, Props.empty, [], none, none, some (List.replicate 130 0)⟩
  obtain ⟨ev, ew, el, -⟩ := Props.empty_facts connectProps
  have hv : (Packet.connect c).valid = true := by
    simp [Packet.valid, c, validText, validBin, utf8_valid_nil, ev]
  have hwf : (Packet.connect c).wf := ⟨ew, trivial⟩
  have hlen : c.encodeLen = .ok 145 := by
    simp [c, Connect.encodeLen, el, Protocol.encodeLen, bind, Except.bind, pure, Except.pure]
  obtain ⟨b, -, hbl, -, hdec⟩ := Connect.roundtrip c hv hwf hlen (by decide)
  obtain ⟨vb, henc, hvl, -⟩ :=
    reencode_of_accepted debug (.connect c) hv hwf (n := 145) hlen (by decide)
  have hdecA : decodeAsync debug (0x10 :: (writeVarInt 0 ++ b)) = .ok (.connect c) [] := by
    rw [decodeAsync_frame debug 0x10 0 (by decide) _ ⟨1, false, 0, false, 0⟩ rfl]
    show (Connect.decode _ >>= fun c => pure (Packet.connect c)) _ = _
    have hd := hdec ⟨1, false, 0, false, 0⟩ []
    rw [List.append_nil] at hd
    rw [Parser.bind_apply, hd]
    rfl
  refine ⟨_, [], .connect c, vb, hdecA, ?_, henc, ?_⟩
  · simp only [List.length_cons, List.length_append, V3.writeVarInt_zero, hbl, List.length_nil]
    decide
  · rw [hvl]
    simp only [List.length_cons, List.length_append, V3.writeVarInt_zero, hbl, List.length_nil,
      Spec.varIntSize]
    decide

/-- Witness construction for `async_excess_three_attained`, with the 65,535-byte string
kept abstract. -/
theorem async_excess_three_aux (debug : Bool) (big : Bytes) (hl : big.length = 65535)
    (hbig : validText big = true) :
    ∃ (bs rest : Bytes) (p : Packet) (vb : VarBytes),
      decodeAsync debug bs = .ok p rest ∧ bs.length - rest.length < 268435456 ∧
      p.encode debug = .ok vb ∧ vb.asRef.length = bs.length - rest.length + 3 := by
  let ps : Props := ⟨fun _ => none, List.replicate 16 (big, big)⟩
  let c : Connack := ⟨false, 0, ps⟩
  have hg : Props.Good connackProps ps := by
    refine ⟨fun _ _ => rfl, fun i v h => (by cases h), fun x hx => ?_⟩
    have := (List.mem_replicate.mp hx).2
    subst this
    exact ⟨hbig, hbig⟩
  have hcl : Props.canonLen connackProps ps = 2097200 := by
    simp only [Props.canonLen, flatMap_emit_nil (ps := ps) (fun _ => rfl), userSize, ps, hl,
      List.length_replicate, List.map_replicate, List.length_nil]
    decide
  have hpl : ps.encodeLen connackProps = .ok 2097204 := by
    rw [Props.encodeLen_of_good hg (by rw [hcl]; decide), hcl]
    rfl
  have hlen : c.encodeLen = .ok 2097206 := by
    simp only [c, Connack.encodeLen, hpl, bind, Except.bind, pure, Except.pure]
  have hr : isVariant .connectReason c.reasonCode = true :=
    show isVariant .connectReason 0 = true by decide
  have hpv : Props.valid connackProps c.properties = true := hg.valid
  have hv : (Packet.connack c).valid = true := by
    show (isVariant .connectReason c.reasonCode && Props.valid connackProps c.properties) = true
    rw [hr, hpv]
    rfl
  have hwf : (Packet.connack c).wf := hg.wf
  obtain ⟨b, -, hbl, -, hdec⟩ := Connack.roundtrip c hr hg.valid hg.wf hlen (by decide)
  obtain ⟨vb, henc, hvl, -⟩ :=
    reencode_of_accepted debug (.connack c) hv hwf (n := 2097206) hlen (by decide)
  have hdecA : decodeAsync debug (0x20 :: (writeVarInt 0 ++ b)) = .ok (.connack c) [] := by
    rw [decodeAsync_frame debug 0x20 0 (by decide) _ ⟨2, false, 0, false, 0⟩ rfl]
    show (Connack.decode _ >>= fun c => pure (Packet.connack c)) _ = _
    have hd := hdec ⟨2, false, 0, false, 0⟩ []
    rw [List.append_nil] at hd
    rw [Parser.bind_apply, hd]
    rfl
  refine ⟨_, [], .connack c, vb, hdecA, ?_, henc, ?_⟩
  · simp only [List.length_cons, List.length_append, V3.writeVarInt_zero, hbl, List.length_nil]
    decide
  · rw [hvl]
    simp only [List.length_cons, List.length_append, V3.writeVarInt_zero, hbl, List.length_nil,
      Spec.varIntSize]
    decide

/-- The constant 3 of `async_accepted_reencodes_partial` is attained: a CONNACK carrying 16
user properties of two 65,535-byte strings each (a 2,097,206-byte body) behind the header
`20 00` (remaining length 0 in ONE length byte) is accepted by the async decoder, which
consumes 2,097,208 bytes; the packet re-encodes (FOUR length bytes) to 2,097,211 bytes. -/
theorem async_excess_three_attained (debug : Bool) :
    ∃ (bs rest : Bytes) (p : Packet) (vb : VarBytes),
      decodeAsync debug bs = .ok p rest ∧ bs.length - rest.length < 268435456 ∧
      p.encode debug = .ok vb ∧ vb.asRef.length = bs.length - rest.length + 3 :=
  async_excess_three_aux debug (List.replicate 65535 97) List.length_replicate
    ((validText_iff _).mpr ⟨Nat.le_of_eq List.length_replicate, utf8_valid_replicate_a _⟩)

end C11.V5
