/-
  C09 — All encoder entry points emit the same bytes.

  `IO.writeAll` / `IO.writePieces` model `write_all` over a scripted sink (MODELLED,
  NOT VERIFIED third-party/std loops; tied by the `enca` ops).  Determinism of
  repeated invocations is definitional in a pure model; its tie is the oracle
  (encode twice, compare).
-/
import Proofs.IO

namespace C09
open Mqtt Mqtt.IO

/-- Under every pattern of partial writes (any accepted sizes ≥ 1) and not-ready
results, `write_all` delivers exactly the buffer, in order, and succeeds; it reports
one Pending per Pending of the sink that it consumed. -/
theorem writeAll_delivers_exactly (buf : Bytes) (script : List SinkItem)
    (h : faultFree script = true) :
    (writeAll buf script).written = buf ∧ (writeAll buf script).result = .ok () ∧
    (writeAll buf script).pendings ≤ (script.filter (· == .pending)).length := by
  obtain ⟨h1, h2, h3, _⟩ := writeAll_faultFree buf script h
  exact ⟨h1, h2, h3⟩

/-- The async encoder writes exactly the bytes of the blocking encoder (v3, v5), for
every such sink behaviour; and fails with the blocking encoder's error otherwise. -/
theorem async_equals_blocking_v3 (debug : Bool) (p : V3.Packet) (script : List SinkItem)
    (h : faultFree script = true) :
    match p.encode debug with
    | .ok vb => ∃ o, v3EncodeAsync debug p script = .wrote o ∧ o.written = vb.asRef ∧ o.result = .ok ()
    | .err e => v3EncodeAsync debug p script = .encodeErr e
    | .panic s => v3EncodeAsync debug p script = .panic s := by
  unfold v3EncodeAsync
  cases he : p.encode debug with
  | ok vb =>
    obtain ⟨h1, h2, _, _⟩ := writeAll_faultFree vb.asRef script h
    exact ⟨_, rfl, h1, h2⟩
  | err e => rfl
  | panic s => rfl

theorem async_equals_blocking_v5 (debug : Bool) (p : V5.Packet) (script : List SinkItem)
    (h : faultFree script = true) :
    match p.encode debug with
    | .ok vb => ∃ o, v5EncodeAsync debug p script = .wrote o ∧ o.written = vb.asRef ∧ o.result = .ok ()
    | .err e => v5EncodeAsync debug p script = .encodeErr e
    | .panic s => v5EncodeAsync debug p script = .panic s := by
  unfold v5EncodeAsync
  cases he : p.encode debug with
  | ok vb =>
    obtain ⟨h1, h2, _, _⟩ := writeAll_faultFree vb.asRef script h
    exact ⟨_, rfl, h1, h2⟩
  | err e => rfl
  | panic s => rfl

/-- The streaming encoder: however the body is cut into `write_all` pieces and
however the sink accepts them, the sink receives exactly the concatenation. -/
theorem streaming_delivers_concatenation (pieces : List Bytes) (script : List SinkItem)
    (h : faultFree script = true) :
    (writePieces pieces script [] 0).written = pieces.flatten ∧
    (writePieces pieces script [] 0).result = .ok () := by
  obtain ⟨h1, h2⟩ := writePieces_faultFree pieces script [] 0 h
  exact ⟨by rw [h1, List.nil_append], h2⟩

/-- The byte container returned by the blocking encoder exposes exactly its bytes:
`Fixed2`/`Fixed4` fast paths are header ++ body like the dynamic ones (v3). -/
theorem container_is_header_then_body_v3 (debug : Bool) (p : V3.Packet) (vb : VarBytes)
    (h : p.encode debug = .ok vb) :
    ∃ cb n body, vb.asRef = cb :: (writeVarInt n ++ body) ∧ body.length = n ∧
      (match vb with
       | .dynamic v => vb.asRef = v
       | .fixed2 a b => vb.asRef = [a, b]
       | .fixed4 a b c d => vb.asRef = [a, b, c, d]) := by
  obtain ⟨cb, n, body, hb, hl, _⟩ := ((C02.V3.encode_shape debug p).2 vb h).2.2
  refine ⟨cb, n, body, hb, hl, ?_⟩
  cases vb <;> rfl

/-- Packet-level encoding equals the fixed header followed by what the body's
streaming encoder writes (v5: every packet with a body). -/
theorem packet_is_header_then_streamed_body_v5 (debug : Bool) (p : V5.Packet) (vb : VarBytes)
    (cb : UInt8) (len : V5.PanicOr Nat) (body : V5.PanicOr Bytes)
    (hparts : p.parts = some (cb, len, body)) (h : p.encode debug = .ok vb) :
    ∃ n b, len = .ok n ∧ body = .ok b ∧ b.length = n ∧ vb.asRef = cb :: (writeVarInt n ++ b) := by
  obtain ⟨he, _⟩ := V5.Packet.encode_eq_parts debug p cb len body hparts
  rw [he] at h
  rcases V5.encodeParts_total cb len body (V5.Packet.parts_partsOk p cb len body hparts) with
    ⟨s, h1, _, _⟩ | ⟨vb', n, b, h1, _, h3, h4, _, h6, h7⟩ | ⟨h1, _⟩
  · rw [h1] at h; cases h
  · rw [h1] at h; cases h
    exact ⟨n, b, h6, h7, h4, h3⟩
  · rw [h1] at h; cases h

end C09
