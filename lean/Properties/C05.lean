/-
  C05 — Poll decoder is schedule-independent and cancellation-safe.

  `Poll.run fam debug s sched term` drives the model of `GenericPollPacket::poll`
  over the stream `s` delivered according to `sched` (chunk sizes, Pending, Pending
  with drop/re-create of the future) and ending in `term`; `Poll.spec fam s term` is
  the outcome as a function of the stream alone.  Generic in the family (v3 and v5
  instantiate `Family`).  Statements only; lemmas in Proofs/Poll.lean.
-/
import Proofs.Poll

namespace C05
open Mqtt Mqtt.Poll

variable {H P E : Type}

/-- Where the current frame ends, as determined by the header bytes of the stream
(one past the last byte the decoder may ever ask for). -/
def frameEnd (fam : Family H P E) (s : Bytes) : Nat :=
  match s with
  | [] => 1
  | cb :: rest =>
    match decodeVarIntAux (fam.ofCommon .invalidVarByteInt) 0 0 rest with
    | .more => s.length + 1
    | .err _ => 5
    | .panic _ => 0
    | .ok (v, k) _ =>
      match finishHeader fam cb (k - 1) v with
      | .inl (.body _ total _ _) => total
      | _ => 1 + k

def isPendingItem : Sched → Bool
  | .chunk _ => false
  | _ => true

/-- Outcome and bytes consumed do not depend on how the transport delivers the
stream: any chunking, any interleaving of Pending, any drop/re-create of the future
give what one uninterrupted read gives, for well-formed and malformed streams and
for streams that end early (EOF or a transport error). -/
theorem schedule_independent (fam : Family H P E) (debug : Bool) (s : Bytes)
    (sched : List Sched) (term : Term) :
    (run fam debug s sched term).result = (spec fam s term).1 ∧
    (run fam debug s sched term).consumed = (spec fam s term).2 := by
  have h := run_out_eq_spec fam debug s sched term
  exact ⟨congrArg Prod.fst h, congrArg Prod.snd h⟩

/-- In particular it equals the run with the empty schedule (one uninterrupted read). -/
theorem same_as_uninterrupted (fam : Family H P E) (debug : Bool) (s : Bytes)
    (sched : List Sched) (term : Term) :
    (run fam debug s sched term).result = (run fam debug s [] term).result ∧
    (run fam debug s sched term).consumed = (run fam debug s [] term).consumed := by
  have h1 := schedule_independent fam debug s sched term
  have h2 := schedule_independent fam debug s [] term
  exact ⟨h1.1.trans h2.1.symm, h1.2.trans h2.2.symm⟩

/-- Not-ready is returned only when the transport said so: one Pending out per
Pending schedule item consumed, never more than the schedule contains. -/
theorem pending_only_from_transport (fam : Family H P E) (debug : Bool) (s : Bytes)
    (sched : List Sched) (term : Term) :
    (run fam debug s sched term).log.pendings ≤ (sched.filter isPendingItem).length ∧
    ((run fam debug s [] term).log.pendings = 0) := by
  have he : isPendingItem = isPend := by funext x; cases x <;> rfl
  rw [he]
  exact ⟨run_pendings fam debug s sched term,
    Nat.le_zero.mp (run_pendings fam debug s [] term)⟩

/-- Every buffer offered to the transport has capacity at least 1 and ends no later
than the end of the current frame. -/
theorem never_reads_past_frame (fam : Family H P E) (debug : Bool) (s : Bytes)
    (sched : List Sched) (term : Term) :
    ∀ pc ∈ (run fam debug s sched term).log.requests,
      1 ≤ pc.2 ∧ pc.1 + pc.2 ≤ frameEnd fam s := by
  have he : frameEnd fam s = frameEnd' fam s := by cases s <;> rfl
  rw [he]
  exact run_requests fam debug s sched term

/-- On success exactly the reported number of bytes has been consumed, and the body
handed back is exactly the bytes of the stream after the header. -/
theorem consumed_is_reported (fam : Family H P E) (debug : Bool) (s : Bytes)
    (sched : List Sched) (term : Term) (total : Nat) (body : Bytes) (p : P)
    (h : (run fam debug s sched term).result = .ok total body p) :
    (run fam debug s sched term).consumed = total ∧ total ≤ s.length ∧
    body = (s.take total).drop (total - body.length) := by
  obtain ⟨h1, h2⟩ := schedule_independent fam debug s sched term
  rw [h2]
  exact spec_ok fam s term total body p (h1.symm.trans h)

/-- The machine itself never panics (fuel suffices, no zero-capacity read, the
`debug_assert!(idx <= buf.len())` holds): a panic can only come from the family's
body decoder, on a header that `newWith` accepted and for which `buildEmpty` is `none`
(the only headers the machine ever passes to `blockDecode`).

(Hypothesis corrected on the coordinator's instruction; the original
`hbody : ∀ h bs site, fam.blockDecode h bs ≠ .panic site` is unusable for the real
families, whose `blockDecode` hits `unreachable!()` on the empty-packet headers; the
original statement is implied by this one.) -/
theorem machine_never_panics (fam : Family H P E) (debug : Bool) (s : Bytes)
    (sched : List Sched) (term : Term)
    (hbody : ∀ cb rl h bs site, fam.newWith cb rl = .ok h → fam.buildEmpty h = none →
      fam.blockDecode h bs ≠ .panic site) :
    ∀ site, (run fam debug s sched term).result ≠ .panic site := by
  intro site hp
  rw [(schedule_independent fam debug s sched term).1] at hp
  obtain ⟨cb, rl, hd, bs, hnw, hbe, hpanic⟩ := spec_panic fam s term site hp
  exact hbody cb rl hd bs site hnw hbe hpanic

end C05
