/-
  C18 — Topic name validation matches the MQTT rule and preserves the text.

  `Topic.nameIsInvalid` models `TopicName::is_invalid` over `value.chars()`;
  `Utf8.byteLen` is `value.len()`.  The packet decode paths (PUBLISH, will,
  response topic) call the same function in the model by construction; for the
  code that is the correspondence check (ops `dec`/`poll`) and the oracle.
-/
import Mqtt.Topic
import Proofs.Utf8

namespace C18
open Mqtt Mqtt.Topic

/-- Accepted exactly when at most 65,535 bytes and free of '+', '#', U+0000. -/
theorem name_accepted_iff (cs : List Char) :
    nameIsInvalid cs = false ↔
      Utf8.byteLen cs ≤ 65535 ∧ ∀ c ∈ cs, c ≠ '+' ∧ c ≠ '#' ∧ c ≠ '\x00' := by
  unfold nameIsInvalid
  by_cases h : Utf8.byteLen cs > 65535
  · simp [h]; omega
  · simp only [h, if_false]
    have : Utf8.byteLen cs ≤ 65535 := by omega
    simp only [this, true_and, MATCH_ONE, MATCH_ALL, List.any_eq_false, Bool.or_eq_true, beq_iff_eq,
      not_or, ne_eq]
    constructor
    · intro h c hc; exact ⟨(h c hc).1.1, (h c hc).1.2, (h c hc).2⟩
    · intro h c hc; exact ⟨⟨(h c hc).1, (h c hc).2.1⟩, (h c hc).2.2⟩

/-- The same statement against the independent specification. -/
theorem name_validation_is_spec (cs : List Char) :
    nameIsInvalid cs = !Spec.validName cs := by
  have h := name_accepted_iff cs
  unfold Spec.validName
  rw [← Utf8.byteLen_eq_spec]
  cases hv : nameIsInvalid cs
  · have := h.mp hv
    have hl : decide (Utf8.byteLen cs ≤ 65535) = true := by simp [this.1]
    have h1 : cs.contains '+' = false := by
      simp only [List.contains_eq_mem, decide_eq_false_iff_not]; intro hm; exact (this.2 _ hm).1 rfl
    have h2 : cs.contains '#' = false := by
      simp only [List.contains_eq_mem, decide_eq_false_iff_not]; intro hm; exact (this.2 _ hm).2.1 rfl
    have h3 : cs.contains '\x00' = false := by
      simp only [List.contains_eq_mem, decide_eq_false_iff_not]; intro hm; exact (this.2 _ hm).2.2 rfl
    rw [hl, h1, h2, h3]; rfl
  · cases hs : (decide (Utf8.byteLen cs ≤ 65535) && !cs.contains '+' && !cs.contains '#' && !cs.contains '\x00')
    · rfl
    · exfalso
      simp only [Bool.and_eq_true, decide_eq_true_eq, Bool.not_eq_true', List.contains_eq_mem,
        decide_eq_false_iff_not] at hs
      have : nameIsInvalid cs = false := h.mpr ⟨hs.1.1.1, fun c hc => ⟨fun e => hs.1.1.2 (e ▸ hc),
        fun e => hs.1.2 (e ▸ hc), fun e => hs.2 (e ▸ hc)⟩⟩
      rw [hv] at this; cases this

/-- The length the validator compares with 65,535 is the encoded size of the text. -/
theorem length_is_byte_length (cs : List Char) : Utf8.byteLen cs = (Utf8.encode cs).length :=
  (Utf8.encode_length cs).symm

/-- Accepted names read back as the original text: the constructor stores the
string unchanged, and text ↔ bytes is a bijection on valid UTF-8. -/
theorem text_preserved (cs : List Char) (bs : Bytes) :
    Utf8.decode (Utf8.encode cs) = some cs ∧ (Utf8.decode bs = some cs → Utf8.encode cs = bs) :=
  ⟨Utf8.decode_encode cs, Utf8.encode_of_decode bs cs⟩

/-- `is_shared` / `is_sys` report exactly the `$share/` / `$SYS/` prefixes. -/
theorem prefix_flags (cs : List Char) :
    (nameIsShared cs = true ↔ ∃ r, cs = "$share/".toList ++ r) ∧
    (nameIsSys cs = true ↔ ∃ r, cs = "$SYS/".toList ++ r) := by
  constructor
  · unfold nameIsShared
    rw [List.isPrefixOf_iff_prefix]
    constructor
    · rintro ⟨r, hr⟩; exact ⟨r, hr.symm⟩
    · rintro ⟨r, hr⟩; exact ⟨r, hr.symm⟩
  · unfold nameIsSys
    rw [List.isPrefixOf_iff_prefix]
    constructor
    · rintro ⟨r, hr⟩; exact ⟨r, hr.symm⟩
    · rintro ⟨r, hr⟩; exact ⟨r, hr.symm⟩

-- non-vacuity
example : nameIsInvalid "a/b".toList = false ∧ nameIsInvalid "a+".toList = true ∧
    nameIsInvalid "".toList = false ∧ nameIsSys "$SYS/x".toList = true := by decide

end C18
