/-
  C17 — Shared-subscription parts and filter comparisons are derived from the text.

  A constructed filter is `⟨Utf8.encode cs, i⟩` where `filterIsInvalid _ cs = .valid i`
  (that is what `TryFrom<String>` stores).  The accessors slice the *bytes* at
  `[7, i)` and `[i+1, len)`; `strSlice` panics off a char boundary like `&s[a..b]`.
-/
import Proofs.Topic
import Proofs.TopicOrd

namespace C17
open Mqtt Mqtt.Topic

/-- For an accepted filter with a non-zero separator index: the text is
`$share/` ++ name ++ `/` ++ filt with a non-empty name free of '/', a non-empty
filt, the index is 7 + the UTF-8 size of name, and the two accessors return
exactly the bytes of name and of filt without panicking (so the slices fall on
character boundaries, also for multi-byte names). -/
theorem shared_accessors_split (debug : Bool) (cs : List Char) (i : Nat)
    (h : filterIsInvalid debug cs = .valid i) (hi : 0 < i) :
    ∃ name filt : List Char,
      cs = SHARED_PREFIX ++ name ++ '/' :: filt ∧
      name ≠ [] ∧ '/' ∉ name ∧ filt ≠ [] ∧ i = 7 + Utf8.byteLen name ∧
      (⟨Utf8.encode cs, i⟩ : TopicFilter).sharedGroupName = .ok (some (Utf8.encode name)) ∧
      (⟨Utf8.encode cs, i⟩ : TopicFilter).sharedFilter = .ok (some (Utf8.encode filt)) := by
  obtain ⟨hv, rfl⟩ := valid_spec debug cs i h
  obtain ⟨name, filt, rfl, hn, hne, hfe, hs⟩ :=
    shared_shape cs hv ((sharedSep_pos_iff cs hv).1 hi)
  refine ⟨name, filt, by simp, hne, hn, hfe, hs, ?_, ?_⟩
  · have := strSlice_encode SHARED_PREFIX name ('/' :: filt)
    have e7 : Utf8.byteLen SHARED_PREFIX = 7 := by decide
    rw [e7] at this
    simp only [TopicFilter.sharedGroupName, TopicFilter.isShared, hs]
    rw [if_pos (by simp; omega)]
    rw [show SHARED_PREFIX ++ (name ++ '/' :: filt) = SHARED_PREFIX ++ name ++ '/' :: filt by simp]
    rw [show 7 + Spec.utf8Len name = 7 + Utf8.byteLen name from rfl, this]
    rfl
  · have := strSlice_encode (SHARED_PREFIX ++ name ++ ['/']) filt []
    have e7 : Utf8.byteLen (SHARED_PREFIX ++ name ++ ['/']) = 7 + Spec.utf8Len name + 1 := by
      have e1 : Spec.utf8Len SHARED_PREFIX = 7 := by decide
      have e2 : Spec.utf8Len ['/'] = 1 := by decide
      rw [Utf8.byteLen_eq_spec, utf8Len_append, utf8Len_append, e1, e2]
    have e8 : SHARED_PREFIX ++ name ++ ['/'] ++ filt ++ [] = SHARED_PREFIX ++ (name ++ '/' :: filt) := by
      simp
    rw [e7, e8] at this
    simp only [TopicFilter.sharedFilter, TopicFilter.isShared, hs]
    rw [if_pos (by simp; omega)]
    have e9 : (Utf8.encode (SHARED_PREFIX ++ (name ++ '/' :: filt))).length =
        7 + Spec.utf8Len name + 1 + Utf8.byteLen filt := by
      rw [Utf8.encode_length, ← e8, List.append_nil, Utf8.byteLen_eq_spec, utf8Len_append,
        ← Utf8.byteLen_eq_spec (SHARED_PREFIX ++ name ++ ['/']), e7]
      rfl
    rw [e9, this]
    rfl

/-- The split is unique. -/
theorem split_unique (n1 f1 n2 f2 : List Char)
    (h : SHARED_PREFIX ++ n1 ++ '/' :: f1 = SHARED_PREFIX ++ n2 ++ '/' :: f2)
    (h1 : '/' ∉ n1) (h2 : '/' ∉ n2) : n1 = n2 ∧ f1 = f2 := by
  rw [List.append_assoc, List.append_assoc] at h
  exact split_unique_aux n1 f1 n2 f2 (List.append_cancel_left h) h1 h2

/-- Non-shared filters report no share, and an accepted filter is shared exactly
when its text starts with `$share/`. -/
theorem shared_iff_prefix (debug : Bool) (cs : List Char) (i : Nat)
    (h : filterIsInvalid debug cs = .valid i) :
    (0 < i ↔ SHARED_PREFIX.isPrefixOf cs = true) ∧
    (i = 0 → (⟨Utf8.encode cs, i⟩ : TopicFilter).sharedGroupName = .ok none ∧
             (⟨Utf8.encode cs, i⟩ : TopicFilter).sharedFilter = .ok none) := by
  obtain ⟨hv, rfl⟩ := valid_spec debug cs i h
  refine ⟨sharedSep_pos_iff cs hv, ?_⟩
  intro h0
  simp [TopicFilter.sharedGroupName, TopicFilter.sharedFilter, TopicFilter.isShared, h0]

/-- Equality of constructed filters is equality of their texts: the cached index is
a function of the text (`Eq`/`Ord`/`Hash` of the Rust type look at the text only;
that part is tied by the harness). -/
theorem eq_iff_text_eq (d1 d2 : Bool) (cs1 cs2 : List Char) (i1 i2 : Nat)
    (h1 : filterIsInvalid d1 cs1 = .valid i1) (h2 : filterIsInvalid d2 cs2 = .valid i2) :
    ((⟨Utf8.encode cs1, i1⟩ : TopicFilter) = ⟨Utf8.encode cs2, i2⟩) ↔ cs1 = cs2 := by
  obtain ⟨_, rfl⟩ := valid_spec d1 cs1 i1 h1
  obtain ⟨_, rfl⟩ := valid_spec d2 cs2 i2 h2
  constructor
  · intro h
    injection h with h _
    exact encode_injective cs1 cs2 h
  · rintro rfl; rfl

/-- `Ord`/`PartialOrd`/`PartialEq` of constructed filters (`TopicFilter.cmp`, the model of the three
hand-written impls, tied by the `tfcmp` stream): the comparison is the byte-wise comparison of the
texts — in particular it never looks at the share name and the filter separately — it is `eq` exactly
for equal filters, antisymmetric and transitive. -/
theorem cmp_is_text_order (a b : TopicFilter) : a.cmp b = lexCmp a.text b.text := rfl

theorem cmp_eq_iff (d1 d2 : Bool) (cs1 cs2 : List Char) (i1 i2 : Nat)
    (h1 : filterIsInvalid d1 cs1 = .valid i1) (h2 : filterIsInvalid d2 cs2 = .valid i2) :
    (TopicFilter.cmp ⟨Utf8.encode cs1, i1⟩ ⟨Utf8.encode cs2, i2⟩ = .eq) ↔
      ((⟨Utf8.encode cs1, i1⟩ : TopicFilter) = ⟨Utf8.encode cs2, i2⟩) := by
  rw [eq_iff_text_eq d1 d2 cs1 cs2 i1 i2 h1 h2]
  simp only [TopicFilter.cmp, lexCmp_eq_iff]
  exact ⟨fun h => encode_injective cs1 cs2 h, fun h => by rw [h]⟩

theorem cmp_swap (a b : TopicFilter) : b.cmp a = (a.cmp b).swap := lexCmp_swap a.text b.text

theorem cmp_lt_trans (a b c : TopicFilter) (h1 : a.cmp b = .lt) (h2 : b.cmp c = .lt) :
    a.cmp c = .lt := lexCmp_lt_trans _ _ _ h1 h2

-- non-vacuity
example : filterIsInvalid true "$share/你好/+".toList = .valid 13 := by decide
-- the pair that separates text order from (share name, filter) order: '-' < '/'
-- ("s/j" vs "s-2" as bytes: a share name that is a prefix of the other, continued by a character below '/')
example : lexCmp [0x73, 0x2f, 0x6a] [0x73, 0x2d, 0x32] = .gt := by decide

end C17
