/-
  C12 (v3 part) — Every decoded packet satisfies the invariants its types promise.
-/
import Proofs.V3Accept

namespace C12.V3
open Mqtt Mqtt.V3

/-- A `String`: valid UTF-8 (this is the logical precondition of the
`String::from_utf8_unchecked` in `read_string`). -/
def TextOk (b : Bytes) : Prop := Utf8.valid b = true
/-- A `TopicName`: valid UTF-8 that passes the library's own predicate. -/
def NameOk (b : Bytes) : Prop :=
  ∃ cs, Utf8.decode b = some cs ∧ Topic.nameIsInvalid cs = false
/-- A `TopicFilter`: valid UTF-8, passes the library's own predicate in either build
profile, its cached index is the one the predicate returns, and the shared-subscription
accessors do not panic on it. -/
def FilterOk (f : Topic.TopicFilter) : Prop :=
  ∃ cs, Utf8.decode f.text = some cs ∧
    (∀ debug, Topic.filterIsInvalid debug cs = .valid f.sharedFilterSep) ∧
    (∃ g, f.sharedGroupName = .ok g) ∧ (∃ s, f.sharedFilter = .ok s)
def PidOk (p : Pid) : Prop := p.val ≠ 0

def Inv : Packet → Prop
  | .connect c => TextOk c.clientId ∧
      (∀ w, c.lastWill = some w → NameOk w.topicName ∧ w.qos ≤ 2) ∧
      (∀ u, c.username = some u → TextOk u)
  | .connack c => c.code ≤ 5
  | .publish p => NameOk p.topicName ∧
      (match p.qosPid with | .level0 => True | .level1 x => PidOk x | .level2 x => PidOk x)
  | .puback x | .pubrec x | .pubrel x | .pubcomp x | .unsuback x => PidOk x
  | .subscribe s => PidOk s.pid ∧ s.topics ≠ [] ∧ ∀ fq ∈ s.topics, FilterOk fq.1 ∧ fq.2 ≤ 2
  | .suback s => PidOk s.pid
  | .unsubscribe u => PidOk u.pid ∧ u.topics ≠ [] ∧ ∀ f ∈ u.topics, FilterOk f
  | .pingreq | .pingresp | .disconnect => True

/-- The invariants are implied by the codec's valid domain (`Packet.valid`, the
hypothesis of the round-trip theorems); the size conjuncts of `valid` are not used. -/
theorem inv_of_valid (p : Packet) (hv : p.valid = true) : Inv p := by
  cases p with
  | connect c =>
    obtain ⟨proto, cs, ka, cid, lw, un, pw⟩ := c
    simp only [Packet.valid, Connect.valid, Bool.and_eq_true] at hv
    obtain ⟨⟨⟨⟨⟨-, hcid⟩, hlw⟩, hun⟩, -⟩, -⟩ := hv
    refine ⟨validText_utf8 hcid, ?_, ?_⟩
    · intro w hw
      simp only at hw
      subst hw
      simp only [LastWill.valid, Bool.and_eq_true] at hlw
      exact ⟨validTopicName_decode hlw.1.2, isVariant_qos_le hlw.1.1⟩
    · intro u hu
      simp only at hu
      subst hu
      exact validText_utf8 hun
  | connack c => exact isVariant_connectReturn_le hv
  | publish p =>
    simp only [Packet.valid, Bool.and_eq_true] at hv
    obtain ⟨⟨hn, hq⟩, -⟩ := hv
    refine ⟨validTopicName_decode hn, ?_⟩
    cases hqp : p.qosPid with
    | level0 => trivial
    | level1 x => rw [hqp] at hq; exact (validPid_iff x).mp hq
    | level2 x => rw [hqp] at hq; exact (validPid_iff x).mp hq
  | puback x => exact (validPid_iff x).mp hv
  | pubrec x => exact (validPid_iff x).mp hv
  | pubrel x => exact (validPid_iff x).mp hv
  | pubcomp x => exact (validPid_iff x).mp hv
  | unsuback x => exact (validPid_iff x).mp hv
  | subscribe s =>
    simp only [Packet.valid, Bool.and_eq_true, List.all_eq_true, Bool.not_eq_true'] at hv
    obtain ⟨⟨⟨hp, hne⟩, hall⟩, -⟩ := hv
    refine ⟨(validPid_iff _).mp hp, ?_, ?_⟩
    · intro he; rw [he] at hne; cases hne
    · intro fq hfq
      obtain ⟨a, b⟩ := hall fq hfq
      exact ⟨validTopicFilter_decode a, isVariant_qos_le b⟩
  | suback s =>
    simp only [Packet.valid, Bool.and_eq_true] at hv
    exact (validPid_iff _).mp hv.1.1
  | unsubscribe u =>
    simp only [Packet.valid, Bool.and_eq_true, List.all_eq_true, Bool.not_eq_true'] at hv
    obtain ⟨⟨⟨hp, hne⟩, hall⟩, -⟩ := hv
    refine ⟨(validPid_iff _).mp hp, ?_, ?_⟩
    · intro he; rw [he] at hne; cases hne
    · intro f hf
      exact validTopicFilter_decode (hall f hf)
  | pingreq => trivial
  | pingresp => trivial
  | disconnect => trivial

/-- Every packet returned by the async decoder (hence by the blocking decoder), for
ANY input, satisfies the invariants. -/
theorem async_decoded_satisfies_invariants (debug : Bool) (bs rest : Bytes) (p : Packet)
    (h : decodeAsync debug bs = .ok p rest) : Inv p :=
  inv_of_valid p (decodeAsync_ok_inv h).1

theorem blocking_decoded_satisfies_invariants (debug : Bool) (bs : Bytes) (p : Packet) (n : Nat)
    (h : decodeBlocking debug bs = .ok (some p) n) : Inv p := by
  unfold decodeBlocking runAsync at h
  cases hd : decodeAsync debug bs with
  | ok q rest =>
    rw [hd] at h
    simp only [Out.ok.injEq, Option.some.injEq] at h
    obtain ⟨rfl, -⟩ := h
    exact async_decoded_satisfies_invariants debug bs rest q hd
  | more => rw [hd] at h; simp only [] at h; split at h <;> cases h
  | err e => rw [hd] at h; simp only [] at h; split at h <;> cases h
  | panic s => rw [hd] at h; cases h

/-- Every packet returned by the poll decoder, for any stream, schedule and terminal event. -/
theorem poll_decoded_satisfies_invariants (debug : Bool) (s : Bytes) (sched : List Poll.Sched)
    (term : Poll.Term) (total : Nat) (body : Bytes) (p : Packet)
    (h : (Poll.run (pollFamily debug) debug s sched term).result = .ok total body p) : Inv p := by
  rw [(C05.schedule_independent (pollFamily debug) debug s sched term).1] at h
  exact inv_of_valid p (poll_ok_inv h).1

end C12.V3
