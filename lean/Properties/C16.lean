/-
  C16 — Topic filter validation matches MQTT 4.7 / 4.8 exactly.

  `Topic.filterIsInvalid` models `TopicFilter::is_invalid` (the single-pass state
  machine over `value.chars().enumerate()`, src/common/types.rs) including its
  `debug_assert!`; `Spec.validFilter` / `Spec.sharedSep` are the declarative
  definition written from the standard.  Statements only; lemmas in Proofs/Topic.lean.
-/
import Proofs.Topic

namespace C16
open Mqtt Mqtt.Topic

/-- For every text: the validator never panics (with or without debug assertions),
accepts exactly the MQTT topic filters, and for an accepted filter returns the byte
index of the '/' that ends the share name (0 if not shared). -/
theorem filter_validation_is_mqtt (debug : Bool) (cs : List Char) :
    filterIsInvalid debug cs =
      if Spec.validFilter cs then .valid (Spec.sharedSep cs) else .invalid :=
  filterIsInvalid_spec debug cs

/-- In particular the debug assertion at types.rs:397 is unreachable. -/
theorem debug_assert_unreachable (cs : List Char) (site : String) :
    filterIsInvalid true cs ≠ .panic site := by
  rw [filter_validation_is_mqtt]
  split <;> simp

/-- And the decision does not depend on the build profile. -/
theorem profile_independent (cs : List Char) :
    filterIsInvalid true cs = filterIsInvalid false cs := by
  rw [filter_validation_is_mqtt, filter_validation_is_mqtt]

-- non-vacuity: both branches are inhabited, including the F3 shapes and a shared filter
example : Spec.validFilter "+x".toList = false ∧ Spec.validFilter "a/+x".toList = false ∧
    Spec.validFilter "sport/+/player1/#".toList = true ∧
    Spec.validFilter "$share/consumer1/sport/#".toList = true ∧
    Spec.sharedSep "$share/consumer1/sport/#".toList = 16 := by decide

end C16
