/-
  C13 — CONNECT of the other protocol family is identified, not misparsed.
-/
import Proofs.CrossFamily

namespace C13
open Mqtt

/-- The v3 CONNECT reader, told that the protocol found is v5.0, refuses at once with
`UnexpectedProtocol(V500)` — whatever follows the protocol level (nothing after the
level byte is looked at). -/
theorem v3_refuses_v5_protocol (rest : Bytes) :
    V3.Connect.decodeWithProtocol .v500 rest = .err (.unexpectedProtocol .v500) := by
  exact V3.Connect.decodeWithProtocol_refuse .v500 (by decide) rest

/-- The v5 CONNECT reader refuses v3.1 and v3.1.1 the same way, naming the version found. -/
theorem v5_refuses_v3_protocol (h : V5.Header) (pr : Protocol) (hpr : pr ≠ .v500) (rest : Bytes) :
    V5.Connect.decodeWithProtocol h pr rest = .err (.common (.unexpectedProtocol pr)) := by
  exact V5.Connect.decodeWithProtocol_refuse h pr hpr rest

/-- Protocol name/level pairs: exactly (MQIsdp,3), (MQTT,4), (MQTT,5) are protocols;
every other pair is rejected as invalid protocol (carrying name and level) when the
name is valid UTF-8 and as an invalid string when it is not — never a packet, never
`UnexpectedProtocol`. -/
theorem protocol_pairs (name : Bytes) (level : UInt8) :
    (Protocol.new name level = .ok .v310 ↔ (name = MQISDP ∧ level = 3)) ∧
    (Protocol.new name level = .ok .v311 ↔ (name = MQTTN ∧ level = 4)) ∧
    (Protocol.new name level = .ok .v500 ↔ (name = MQTTN ∧ level = 5)) ∧
    ((¬ (name = MQISDP ∧ level = 3) ∧ ¬ (name = MQTTN ∧ level = 4) ∧ ¬ (name = MQTTN ∧ level = 5)) →
      Protocol.new name level =
        if Utf8.valid name then .error (.invalidProtocol name level) else .error .invalidString) := by
  exact Protocol.new_pairs name level

/-- A valid v5 CONNECT presented to the v3 decoder: every front-end answers
`UnexpectedProtocol(V500)`; the answer is the same if everything after the protocol
level byte is replaced by arbitrary bytes (so no more than name and level has been
consumed); and continuing on the bytes after the level byte with the v5
known-protocol entry point yields the original CONNECT. -/
theorem v5_connect_into_v3 (debug : Bool) (c : V5.Connect)
    (hv : (V5.Packet.connect c).valid = true) (hwf : (V5.Packet.connect c).wf)
    (hfit : C01.V5.Fits (.connect c)) (t : Bytes) :
    ∃ (n : Nat) (after : Bytes),
      (V5.Packet.connect c).encode debug =
        .ok (.dynamic (0x10 :: (writeVarInt n ++ (Protocol.encode .v500 ++ after)))) ∧
      (∀ garbage : Bytes,
        V3.decodeAsync debug (0x10 :: (writeVarInt n ++ (Protocol.encode .v500 ++ garbage)))
          = .err (.unexpectedProtocol .v500)) ∧
      V3.decodeBlocking debug (0x10 :: (writeVarInt n ++ (Protocol.encode .v500 ++ after)) ++ t)
          = .err (.unexpectedProtocol .v500) ∧
      (∀ term, (Poll.spec (V3.pollFamily debug) (0x10 :: (writeVarInt n ++ (Protocol.encode .v500 ++ after)) ++ t) term).1
          = .err (.unexpectedProtocol .v500)) ∧
      (∀ h : V5.Header, h.typ = 1 →
        V5.Connect.decodeWithProtocol h .v500 (after ++ t) = .ok c t) := by
  obtain ⟨n, after, henc, hn, hlen, hdec⟩ := V5.connect_shape debug c hv hwf hfit
  have hp : Protocol.v500.level > 4 := by decide
  exact ⟨n, after, henc,
    fun g => V3.cross_async debug n hn .v500 hp g,
    V3.cross_blocking debug n hn .v500 hp after t,
    fun term => V3.cross_poll debug n hn .v500 hp after t hlen term,
    fun h _ => hdec h t⟩

/-- Symmetrically, a valid v3.1 / v3.1.1 CONNECT presented to the v5 decoder. -/
theorem v3_connect_into_v5 (debug : Bool) (c : V3.Connect)
    (hv : (V3.Packet.connect c).valid = true) (t : Bytes) :
    ∃ (n : Nat) (after : Bytes),
      (V3.Packet.connect c).encode debug =
        .ok (.dynamic (0x10 :: (writeVarInt n ++ (Protocol.encode c.protocol ++ after)))) ∧
      (∀ garbage : Bytes,
        V5.decodeAsync debug (0x10 :: (writeVarInt n ++ (Protocol.encode c.protocol ++ garbage)))
          = .err (.common (.unexpectedProtocol c.protocol))) ∧
      V5.decodeBlocking debug (0x10 :: (writeVarInt n ++ (Protocol.encode c.protocol ++ after)) ++ t)
          = .err (.common (.unexpectedProtocol c.protocol)) ∧
      (∀ term, (Poll.spec (V5.pollFamily debug) (0x10 :: (writeVarInt n ++ (Protocol.encode c.protocol ++ after)) ++ t) term).1
          = .err (.common (.unexpectedProtocol c.protocol))) ∧
      V3.Connect.decodeWithProtocol c.protocol (after ++ t) = .ok c t := by
  obtain ⟨n, after, henc, hn, hlen, hp, hdec⟩ := V3.connect_shape debug c hv
  exact ⟨n, after, henc,
    fun g => V5.cross_async debug n hn c.protocol hp g,
    V5.cross_blocking debug n hn c.protocol hp after t,
    fun term => V5.cross_poll debug n hn c.protocol hp after t hlen term,
    hdec t⟩

end C13
