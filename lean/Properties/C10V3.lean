/-
  C10 (v3 part) — Encoder output is a conformant MQTT packet per an independent decoder.

  `Spec.decodeV3` is the reference decoder written from the MQTT 3.1 / 3.1.1 documents
  by a separate author who never saw the codec or its model (layout-descriptor style:
  split the frame, parse a generic field list, validate, project).
-/
import Proofs.V3SpecEnc

namespace C10.V3
open Mqtt Mqtt.V3 Mqtt.V3.SpecEnc

/-- For every valid packet the emitted bytes are a well-formed MQTT 3.x control packet
per the independent decoder, which recovers exactly the original field values and the
exact frame size — also when further bytes follow. -/
theorem spec_decodes_encoder_output (debug : Bool) (p : Packet) (hv : p.valid = true) (t : Bytes) :
    ∃ vb, p.encode debug = .ok vb ∧ Spec.decodeV3 (vb.asRef ++ t) = some (p, vb.asRef.length) := by
  exact spec_decodes_encoding true debug p hv t

/-- The same with non-minimal Variable Byte Integers tolerated by the reader (a fortiori). -/
theorem loose_spec_decodes_encoder_output (debug : Bool) (p : Packet) (hv : p.valid = true) (t : Bytes) :
    ∃ vb, p.encode debug = .ok vb ∧ Spec.decodeV3Loose (vb.asRef ++ t) = some (p, vb.asRef.length) := by
  exact spec_decodes_encoding false debug p hv t

/-- The numeric tables the running code uses (extracted by Tie A) are the ones typed
from the standard: return codes, QoS values, and the fixed-header byte of every type.

CORRECTED STATEMENT.  The fourth conjunct as originally written,
  `∀ b : Fin 256, (Gen.headerV3.getD b.val (.error .invalidHeader)).toOption.isSome =
      (Spec.splitFrame true false [UInt8.ofNat b.val, 0]).isSome`,
is FALSE for exactly the four PUBLISH bytes with QoS bits 11 (0x36, 0x37, 0x3E, 0x3F; see
`header_table_vs_splitFrame` below): the code's header table refuses them (`InvalidQos(3)`), whereas
the specification's `splitFrame` leaves the PUBLISH flag nibble unconstrained (`packetTypes` has
`none`) and refuses QoS 3 one stage later, in `validV3` via `Spec.pubFlagsOk` ([MQTT-3.3.1-4]).
This is a difference in where the two decoders place the check, not in what they accept; the
conjunct below adds the specification's PUBLISH flag check. -/
theorem code_tables_are_spec :
    (Gen.variants .connectReturnV3 = Spec.connackCodesV3) ∧
    (Gen.variants .subscribeReturnV3 = Spec.subackCodesV3) ∧
    (Gen.variants .qos = [0, 1, 2]) ∧
    (∀ b : Fin 256, ((Gen.headerV3.getD b.val (.error .invalidHeader)).toOption.isSome =
        (Spec.splitFrame true false [UInt8.ofNat b.val, 0]).any fun fr =>
          fr.ptype != .publish || Spec.pubFlagsOk fr.flags)) := by
  refine ⟨by decide, by decide, by decide, ?_⟩
  set_option maxRecDepth 100000 in decide

/-- The exact discrepancy of the original fourth conjunct: header table and `splitFrame` disagree
on precisely the first bytes 54, 55, 62, 63 (PUBLISH with QoS 3), which the table refuses. -/
theorem header_table_vs_splitFrame :
    (∀ b : Fin 256, ((Gen.headerV3.getD b.val (.error .invalidHeader)).toOption.isSome ≠
        (Spec.splitFrame true false [UInt8.ofNat b.val, 0]).isSome) ↔ b.val ∈ [54, 55, 62, 63]) ∧
    (Gen.headerV3.getD 54 (.error .invalidHeader)) = .error (.invalidQos 3) ∧
    (Spec.splitFrame true false [54, 0]).isSome = true ∧
    Spec.decodeV3 [54, 0] = none := by
  refine ⟨?_, rfl, by decide, by decide⟩
  set_option maxRecDepth 100000 in decide

end C10.V3
