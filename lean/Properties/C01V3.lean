/-
  C01 (v3 part) — Encode then decode is the identity for every valid v3 packet,
  on the async, blocking and poll front-ends, with arbitrary bytes following.
  Statements only; lemmas in Proofs/Fields.lean and Proofs/V3RoundTrip.lean.
-/
import Proofs.V3RoundTrip

namespace C01.V3
open Mqtt Mqtt.V3

/-- Encoding a valid packet succeeds (no error, no panic, in either build profile),
and the async decoder run on the produced bytes followed by anything returns the
original packet and leaves exactly the following bytes unread. -/
theorem roundtrip_async (debug : Bool) (p : Packet) (hv : p.valid = true) (t : Bytes) :
    ∃ vb, p.encode debug = .ok vb ∧ decodeAsync debug (vb.asRef ++ t) = .ok p t := by
  obtain ⟨vb, cb, n, body, h, F⟩ := frame_exists debug p hv
  exact ⟨vb, F.enc, F.roundtrip_async t⟩

/-- The blocking decoder returns `Some(p)` having consumed exactly the encoding. -/
theorem roundtrip_blocking (debug : Bool) (p : Packet) (hv : p.valid = true) (t : Bytes) :
    ∃ vb, p.encode debug = .ok vb ∧
      ∃ n, decodeBlocking debug (vb.asRef ++ t) = .ok (some p) n ∧ n = vb.asRef.length := by
  obtain ⟨vb, cb, n, body, h, F⟩ := frame_exists debug p hv
  exact ⟨vb, F.enc, _, F.roundtrip_blocking t, rfl⟩

/-- The poll decoder (as a function of the stream; C05 lifts this to every delivery
schedule) returns the packet, reports the exact total size and hands back the raw
body bytes unchanged. -/
theorem roundtrip_poll (debug : Bool) (p : Packet) (hv : p.valid = true) (t : Bytes)
    (term : Poll.Term) :
    ∃ vb, p.encode debug = .ok vb ∧
      Poll.spec (pollFamily debug) (vb.asRef ++ t) term =
        (.ok vb.asRef.length (vb.asRef.drop (headerLen vb.asRef.length)) p, vb.asRef.length) := by
  obtain ⟨vb, cb, n, body, h, F⟩ := frame_exists debug p hv
  exact ⟨vb, F.enc, F.roundtrip_poll t term⟩

/-- The wire numbers written for enum fields are read back as the same variant
(the obligation the generated code tables must satisfy; F1 broke it). -/
theorem code_tables_invertible :
    ∀ k ∈ [Gen.CodeKind.qos, .connectReturnV3, .subscribeReturnV3],
      ∀ d ∈ Gen.variants k, codeOfByte k d = some d := by
  intro k _
  exact codeOfByte_of_mem_variants k

-- non-vacuity: valid packets of several types exist, with options present
example : (Packet.publish ⟨true, false, .level2 ⟨7⟩, Utf8.encode "a/b".toList, [1, 2, 3]⟩).valid = true := by
  have hs : "a/b".toList = ['a', '/', 'b'] := by decide
  rw [hs]
  have hd := Utf8.decode_encode ['a', '/', 'b']
  have hn : validTopicName (Utf8.encode ['a', '/', 'b']) = true := by
    have : Topic.nameIsInvalid ['a', '/', 'b'] = false := by decide
    simp [validTopicName, topicNameTryFrom, hd, this]
  have hl : (Utf8.encode ['a', '/', 'b']).length = 3 := by rw [Utf8.encode_length]; decide
  simp [Packet.valid, hn, QosPid.valid, validPid, Publish.encodeLen, hl]
example : (Packet.suback ⟨⟨1⟩, [0, 1, 2, 128]⟩).valid = true := by decide

end C01.V3
