/-
  C06 (v5 part) — Blocking, async and poll decoders agree with each other.
  `Poll.spec` is the poll decoder as a function of the stream (C05 shows every
  delivery schedule gives exactly this).
-/
import Proofs.V5Compose

namespace C06.V5
open Mqtt Mqtt.V5

/-- Whenever the strict decoder accepts, the async and blocking decoders return the
same packet, having consumed exactly the reported total. -/
theorem strict_accepts_then_lenient_same (debug : Bool) (bs : Bytes) (term : Poll.Term)
    (total : Nat) (body : Bytes) (p : Packet)
    (h : (Poll.spec (pollFamily debug) bs term).1 = .ok total body p) :
    decodeAsync debug bs = .ok p (bs.drop total) ∧ total ≤ bs.length ∧
    decodeBlocking debug bs = .ok (some p) total := by
  exact strict_accepts debug bs term total body p h

/-- Whenever the strict decoder rejects a complete frame with an error other than a
remaining-length mismatch (and other than the transport's terminal event, which only
arises when the stream ends inside the frame), the async and blocking decoders return
that same error. -/
theorem strict_rejects_then_lenient_same (debug : Bool) (bs : Bytes) (term : Poll.Term) (e : ErrorV5)
    (h : (Poll.spec (pollFamily debug) bs term).1 = .err e)
    (hne : e ≠ .common .invalidRemainingLength) (hio : ∀ k, e ≠ .common (.ioError k)) :
    decodeAsync debug bs = .err e ∧ decodeBlocking debug bs = .err e := by
  exact strict_rejects debug bs term e h hne hio

/-- The blocking decoder is the async decoder with end-of-input mapped to
'incomplete', for packets and for bare fixed headers. -/
theorem blocking_is_async_with_eof_mapped (debug : Bool) (bs : Bytes) :
    (decodeBlocking debug bs =
      match runAsync (decodeAsync debug) bs .eof with
      | .ok p n => .ok (some p) n
      | .err (.common (.ioError .unexpectedEof)) => .ok none 0
      | .err e => .err e
      | .panic s => .panic s) ∧
    (headerDecodeBlocking bs = runAsync Header.decode bs .eof) ∧
    (∀ e, runAsync (decodeAsync debug) bs .eof = .err e → (e.isEof = true ↔ decodeAsync debug bs = .more)) := by
  exact ⟨decodeBlocking_eq debug bs, rfl, fun e h => isEof_iff_more debug bs e h⟩

end C06.V5
