/-
  C04 (v3 part) — Malformed frames are rejected: acceptance equals the MQTT grammar.

  `Poll.spec (pollFamily debug)` is the strict (poll-based) decoder as a function of the
  stream (C05: every delivery schedule gives exactly this).  `Spec.decodeV3` is the
  independent grammar (with the pinned leniencies of DESIGN.md §4, all named in
  `Spec.Lenient`); `Spec.decodeV3Loose` is the same grammar tolerating non-minimal
  variable byte integers (for v3: only the remaining length).
-/
import Proofs.V3Spec

namespace C04.V3
open Mqtt Mqtt.V3

/-- COMPLETE: every frame the grammar accepts is accepted by the strict decoder, with
exactly the field values and the frame size the specification assigns. -/
theorem grammar_accepted_is_accepted (debug : Bool) (bs : Bytes) (p : Packet) (total : Nat)
    (term : Poll.Term) (h : Spec.decodeV3 bs = some (p, total)) :
    ∃ body, (Poll.spec (pollFamily debug) bs term).1 = .ok total body p := by
  obtain ⟨body, hb, -⟩ := spec_to_model true debug bs term total p h
  exact ⟨body, hb⟩

/-- SOUND: everything the strict decoder accepts is a well-formed packet of the grammar
with the same field values — up to the encoding of the remaining length, the only thing
the decoder tolerates beyond the grammar. -/
theorem accepted_is_grammar_loose (debug : Bool) (bs : Bytes) (p : Packet) (total : Nat)
    (body : Bytes) (term : Poll.Term)
    (h : (Poll.spec (pollFamily debug) bs term).1 = .ok total body p) :
    Spec.decodeV3Loose bs = some (p, total) :=
  model_to_spec false debug bs term total body p h (fun hm => by cases hm)

/-- On frames whose remaining length is minimally encoded the accepted set IS the grammar:
the strict decoder accepts exactly when the specification does, and returns the
specification's value. -/
theorem acceptance_equals_grammar (debug : Bool) (bs : Bytes) (p : Packet) (total : Nat)
    (term : Poll.Term) :
    Spec.decodeV3 bs = some (p, total) ↔
      ∃ body, (Poll.spec (pollFamily debug) bs term).1 = .ok total body p ∧
        total = 1 + Spec.varIntSize body.length + body.length := by
  constructor
  · intro h
    obtain ⟨body, hb, ht⟩ := spec_to_model true debug bs term total p h
    exact ⟨body, hb, ht rfl⟩
  · rintro ⟨body, hb, ht⟩
    exact model_to_spec true debug bs term total body p hb (fun _ => ht)

end C04.V3
