/-
  C01 (v5 part) — Encode then decode is the identity for every valid v5 packet, on
  the async, blocking and poll front-ends, with arbitrary bytes following.
  Valid domain = `Packet.valid` (decidable part) ∧ `Packet.wf` (property sets carry
  nothing outside their struct's identifier list) ∧ `Fits` (total size within the
  4-byte remaining length, i.e. `encode_len` succeeds).
-/
import Proofs.V5RoundTrip

namespace C01.V5
open Mqtt Mqtt.V5

/-- total size within the 4-byte remaining length -/
def Fits (p : Packet) : Prop := ∃ n, p.encodeLen = .ok n

theorem roundtrip_async (debug : Bool) (p : Packet) (hv : p.valid = true) (hwf : p.wf)
    (hfit : Fits p) (t : Bytes) :
    ∃ vb, p.encode debug = .ok vb ∧ decodeAsync debug (vb.asRef ++ t) = .ok p t := by
  obtain ⟨vb, cb, n, body, h, F⟩ := frame_exists debug p hv hwf hfit
  exact ⟨vb, F.enc, F.roundtrip_async t⟩

theorem roundtrip_blocking (debug : Bool) (p : Packet) (hv : p.valid = true) (hwf : p.wf)
    (hfit : Fits p) (t : Bytes) :
    ∃ vb, p.encode debug = .ok vb ∧
      ∃ n, decodeBlocking debug (vb.asRef ++ t) = .ok (some p) n ∧ n = vb.asRef.length := by
  obtain ⟨vb, cb, n, body, h, F⟩ := frame_exists debug p hv hwf hfit
  exact ⟨vb, F.enc, _, F.roundtrip_blocking t, rfl⟩

theorem roundtrip_poll (debug : Bool) (p : Packet) (hv : p.valid = true) (hwf : p.wf)
    (hfit : Fits p) (t : Bytes) (term : Poll.Term) :
    ∃ vb, p.encode debug = .ok vb ∧
      Poll.spec (pollFamily debug) (vb.asRef ++ t) term =
        (.ok vb.asRef.length (vb.asRef.drop (headerLen vb.asRef.length)) p, vb.asRef.length) := by
  obtain ⟨vb, cb, n, body, h, F⟩ := frame_exists debug p hv hwf hfit
  exact ⟨vb, F.enc, F.roundtrip_poll t term⟩

/-- The generic property layer: for every identifier list used by the code, a valid
property set round-trips through `encode_properties!` / `decode_properties!`. -/
theorem props_roundtrip (ctx : PropCtx) (allowed : List UInt8)
    (hal : allowed ∈ [connectProps, willProps, connackProps, disconnectProps, authProps,
      publishProps, ackProps, subscribeProps, unsubscribeProps])
    (ps : Props) (hv : Props.valid allowed ps = true) (hwf : Props.wf allowed ps)
    (n : Nat) (hn : ps.bodyLen allowed = .ok n) (hlt : n < 268435456) (t : Bytes) :
    ∃ enc, ps.encode allowed = .ok enc ∧ decodeProps ctx allowed (enc ++ t) = .ok ps t := by
  refine ⟨writeVarInt n ++ allowed.flatMap ps.emit ++ encodeUser ps.user, ?_, ?_⟩
  · simp only [Props.encode_eq, hn, Except.map]
  · exact Props.decode_encode ctx allowed (goodList_of_mem hal) ps hv hwf n hn hlt t

/-- The wire numbers written for enum fields are read back as the same variant. -/
theorem code_tables_invertible (k : Gen.CodeKind) :
    ∀ d ∈ Gen.variants k, codeOfByte k d = some d :=
  codeOfByte_of_mem_variants k

end C01.V5
