/-
  C14 (v5, read side) — Transport failures are surfaced as I/O errors of the same kind.
-/
import Proofs.V5Compose

namespace C14.V5
open Mqtt Mqtt.V5

/-- For every valid packet and every position inside its encoding, a read error of
kind `k` injected at that position makes the async decoder and the poll decoder
(under every delivery schedule) return `IoError(k)` — never a packet, a protocol error
or 'incomplete'; end-of-stream at that position yields an error recognised by is_eof. -/
theorem read_fault_is_io_error (debug : Bool) (p : Packet) (hv : p.valid = true) (hwf : p.wf) (hfit : C01.V5.Fits p) (k : IoKind) :
    ∃ vb, p.encode debug = .ok vb ∧ ∀ j, j < vb.asRef.length →
      runAsync (decodeAsync debug) (vb.asRef.take j) (.err k) = .err (.common (.ioError k)) ∧
      (∀ sched, (Poll.run (pollFamily debug) debug (vb.asRef.take j) sched (.err k)).result
          = .err (.common (.ioError k))) ∧
      (∃ e, runAsync (decodeAsync debug) (vb.asRef.take j) .eof = .err e ∧ e.isEof = true) := by
  obtain ⟨vb, he, -, hasync, hpoll⟩ := encoding_facts debug p hv hwf hfit
  refine ⟨vb, he, fun j hj => ?_⟩
  have hmore := prefix_is_more debug vb.asRef p hasync j hj
  exact ⟨runAsync_of_more hmore (.err k),
    fun sched => prefix_poll debug vb.asRef p hpoll j hj sched (.err k),
    _, runAsync_of_more hmore .eof, rfl⟩

/-- A fault after the complete packet is not seen at all. -/
theorem fault_after_packet_unseen (debug : Bool) (p : Packet) (hv : p.valid = true) (hwf : p.wf) (hfit : C01.V5.Fits p) (k : IoKind) :
    ∃ vb, p.encode debug = .ok vb ∧
      runAsync (decodeAsync debug) vb.asRef (.err k) = .ok p vb.asRef.length ∧
      (∀ sched, ∃ body, (Poll.run (pollFamily debug) debug vb.asRef sched (.err k)).result
          = .ok vb.asRef.length body p) := by
  obtain ⟨vb, he, -, hasync, hpoll⟩ := encoding_facts debug p hv hwf hfit
  refine ⟨vb, he, ?_, fun sched => ?_⟩
  · have h0 := hasync []
    rw [List.append_nil] at h0
    rw [runAsync_of_ok h0 (.err k), List.length_nil, Nat.sub_zero]
  · obtain ⟨body, h1, -⟩ := whole_poll debug vb.asRef p hpoll [] sched (.err k)
    rw [List.append_nil] at h1
    exact ⟨body, h1⟩

/-- `ErrorV5` conversions: an I/O error of the codec's v5 error type is recognised as
EOF exactly for UnexpectedEof, and protocol errors are never EOF. -/
theorem io_conversions_v5 (k : IoKind) (e : ErrorV5) :
    (ErrorV5.fromIo k = .common (.ioError k)) ∧
    ((ErrorV5.fromIo k).isEof = true ↔ k = .unexpectedEof) ∧
    ((∀ k', e ≠ .common (.ioError k')) → e.isEof = false) := by
  refine ⟨rfl, ?_, isEof_false_of_noIo⟩
  cases k <;> simp [ErrorV5.fromIo, ErrorV5.isEof, Error.isEof]

end C14.V5
