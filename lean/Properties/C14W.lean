/-
  C14 (write side) — A write error or zero-length write at any position makes the
  async and streaming encoders return an I/O error of that kind after writing only a
  prefix of the correct encoding.
-/
import Proofs.IO

namespace C14.W
open Mqtt Mqtt.IO

/-- Whatever the sink does, what it has received is always a prefix of the buffer. -/
theorem written_is_prefix (buf : Bytes) (script : List SinkItem) :
    ∃ rest, buf = (writeAll buf script).written ++ rest := by
  exact writeAll_prefix buf script

/-- Bytes a fault-free script prefix accepts out of `rem` remaining bytes. -/
def accepted : Nat → List SinkItem → Nat
  | _, [] => 0
  | rem, .accept n :: s => min (max n 1) rem + accepted (rem - min (max n 1) rem) s
  | rem, _ :: s => accepted rem s

/-- If a write error (or a zero-length write) is reached after the sink has accepted
`j < buf.length` bytes, `write_all` fails with exactly that kind (`WriteZero` for a
zero-length write) having delivered exactly the first `j` bytes — for every position
`j` and every way of accepting those `j` bytes. -/
theorem fault_surfaces_with_its_kind (buf : Bytes) (pre : List SinkItem) (fault : SinkItem)
    (post : List SinkItem) (hpre : faultFree pre = true)
    (hfault : fault = .zero ∨ ∃ k, fault = .err k)
    (hshort : accepted buf.length pre < buf.length) :
    (writeAll buf (pre ++ fault :: post)).result =
        .error (match fault with | .err k => k | _ => .writeZero) ∧
    (writeAll buf (pre ++ fault :: post)).written = buf.take (accepted buf.length pre) := by
  have hacc : ∀ (s : List SinkItem) (rem : Nat), accepted rem s = acceptedN rem s := by
    intro s
    induction s with
    | nil => intro rem; rfl
    | cons it s ih =>
      intro rem
      cases it <;> simp only [accepted, acceptedN, ih]
  rw [hacc] at hshort ⊢
  rw [writeAll_eq_run]
  have := run_fault pre fault post hfault buf [] 0 hpre hshort
  rw [List.nil_append] at this
  exact this

-- non-vacuity: a fault at byte 3 of a 5-byte buffer after accepts of 1 and 2
example : accepted 5 [.accept 1, .pending, .accept 2] = 3 := by decide

/-- A failing `write_all` never reports success, and a succeeding one delivered everything. -/
theorem ok_iff_complete (buf : Bytes) (script : List SinkItem) :
    (writeAll buf script).result = .ok () → (writeAll buf script).written = buf := by
  exact writeAll_ok_complete buf script

/-- The streaming encoder (one `write_all` per piece): on failure the sink holds a
prefix of the concatenation and the error is the one `write_all` reported. -/
theorem streaming_fault_prefix (pieces : List Bytes) (script : List SinkItem) :
    ∃ rest, pieces.flatten = (writePieces pieces script [] 0).written ++ rest := by
  obtain ⟨w, rest, h1, h2⟩ := writePieces_prefix pieces script [] 0
  rw [h1, List.nil_append]
  exact ⟨rest, h2⟩

end C14.W
