/-
  C15 — Variable-byte-integer and length helpers obey their arithmetic laws.

  `varIntLen/totalLen/headerLen/remainingLen` are lookups in the tables extracted
  from the running code (Tie A); `Spec.varIntSize` is the table of MQTT 1.5.5.
  `writeVarInt`/`decodeVarInt` are the hand-written models of `write_var_int` /
  `decode_var_int` (Tie B, exhaustive over all 2^28 values on the implementation).
-/
import Proofs.VarInt

namespace C15
open Mqtt

/-- The reported size is the size of MQTT's table, and the writer emits exactly that
many bytes, between 1 and 4. -/
theorem writer_length_is_reported (n : Nat) (h : n < 268435456) :
    varIntLen n = .ok (Spec.varIntSize n) ∧
    (writeVarInt n).length = Spec.varIntSize n ∧
    1 ≤ Spec.varIntSize n ∧ Spec.varIntSize n ≤ 4 := by
  refine ⟨by rw [varIntLen_closed]; simp [h], writeVarInt_length n h, ?_, ?_⟩ <;>
    (unfold Spec.varIntSize; repeat' split) <;> omega

/-- The reader inverts the writer, reports the bytes consumed, and does not look at
what follows. -/
theorem reader_inverts_writer (n : Nat) (h : n < 268435456) (t : Bytes) :
    decodeVarInt (writeVarInt n ++ t) = .ok (n, (writeVarInt n).length) t := by
  rw [decodeVarInt_write n h t, writeVarInt_length n h]

/-- The count the reader reports is the number of bytes it consumed, at most four. -/
theorem reader_reports_consumed (bs rest : Bytes) (v c : Nat)
    (h : decodeVarInt bs = .ok (v, c) rest) :
    bs.length = rest.length + c ∧ 1 ≤ c ∧ c ≤ 4 ∧ v < 268435456 := by
  obtain ⟨h1, h2, h3, h4⟩ := decodeAux_bound _ bs 0 0 v c rest (by omega) (by simp) h
  refine ⟨by omega, by omega, h3, ?_⟩
  have : (128:Nat) ^ c ≤ 128 ^ 4 := Nat.pow_le_pow_right (by omega) h3
  have e : (128:Nat) ^ 4 = 268435456 := by decide
  omega

/-- Minimality: no byte string shorter than the writer's output decodes to `n`. -/
theorem writer_is_minimal (bs rest : Bytes) (n c : Nat)
    (h : decodeVarInt bs = .ok (n, c) rest) : (writeVarInt n).length ≤ c := by
  obtain ⟨h1, h2, h3, _⟩ := decodeAux_bound _ bs 0 0 n c rest (by omega) (by simp) h
  have hn : n < 268435456 := (reader_reports_consumed bs rest n c h).2.2.2
  rw [writeVarInt_length n hn]
  unfold Spec.varIntSize
  have c1 : c = 1 ∨ c = 2 ∨ c = 3 ∨ c = 4 := by omega
  rcases c1 with rfl | rfl | rfl | rfl <;> simp at h1 <;> (repeat' split) <;> omega

/-- Shape: continuation bit on every byte but the last. -/
theorem writer_shape (n : Nat) :
    ∃ pre last, writeVarInt n = pre ++ [last] ∧ last.toNat < 128 ∧ ∀ b ∈ pre, 128 ≤ b.toNat :=
  writeVarInt_shape n

/-- total = remaining + 1 + size of the length field; header and remaining length
recovered from a valid total invert that. -/
theorem total_header_remaining (n : Nat) (h : n < 268435456) :
    totalLen n = .ok (n + 1 + Spec.varIntSize n) ∧
    headerLen (n + 1 + Spec.varIntSize n) = 1 + Spec.varIntSize n ∧
    remainingLen (n + 1 + Spec.varIntSize n) = n := by
  refine ⟨by rw [totalLen_closed]; simp [h], ?_, ?_⟩
  · rw [headerLen_closed]; unfold Spec.varIntSize; repeat' split
    all_goals omega
  · rw [remainingLen_closed _ (by unfold Spec.varIntSize; repeat' split
                                  all_goals omega)]
    unfold Spec.varIntSize; repeat' split
    all_goals omega

/-- Values of 268,435,456 and above are rejected by the size and total-length helpers. -/
theorem too_large_rejected (n : Nat) (h : 268435456 ≤ n) :
    varIntLen n = .error .invalidVarByteInt ∧ totalLen n = .error .invalidVarByteInt := by
  rw [varIntLen_closed, totalLen_closed]
  have : ¬ n < 268435456 := by omega
  simp [this]

/-- An encoding longer than four bytes is rejected after exactly four bytes. -/
theorem overlong_rejected (b0 b1 b2 b3 : UInt8) (t : Bytes)
    (h0 : 128 ≤ b0.toNat) (h1 : 128 ≤ b1.toNat) (h2 : 128 ≤ b2.toNat) (h3 : 128 ≤ b3.toNat) :
    decodeVarInt (b0 :: b1 :: b2 :: b3 :: t) = .err .invalidVarByteInt :=
  decodeVarInt_overlong b0 b1 b2 b3 t h0 h1 h2 h3

/-- The thresholds the running code uses are the ones of the MQTT table. -/
theorem thresholds_are_spec :
    Gen.varIntLenSteps = Spec.varIntRanges.map (fun r => (r.2.1, r.1)) ∧
    Gen.varIntLenErrFrom = Spec.varIntMax + 1 ∧ Gen.totalLenErrFrom = Spec.varIntMax + 1 ∧
    Gen.varIntLenErrClosed = true ∧ Gen.totalLenErrClosed = true ∧
    Gen.scanMax ≥ Spec.varIntMax + 1 := by decide

-- non-vacuity / concrete boundary instances
example : writeVarInt 268435455 = [0xff, 0xff, 0xff, 0x7f] := by
  rw [writeVarInt_big _ (by decide), writeVarInt_big _ (by decide), writeVarInt_big _ (by decide),
    writeVarInt_small _ (by decide)]; decide
example : writeVarInt 16384 = [0x80, 0x80, 0x01] := by
  rw [writeVarInt_big _ (by decide), writeVarInt_big _ (by decide), writeVarInt_small _ (by decide)]
  decide
example : decodeVarInt [0x80, 0x80, 0x80, 0x01, 0xaa] = .ok (2097152, 4) [0xaa] := by
  simp [decodeVarInt, decodeVarIntAux]

end C15
