/-
  C11 (v3 part) — Anything a decoder accepts can be re-encoded and decodes to itself.

  Known finding K2: the lenient front-ends ignore the fixed header's remaining length
  for self-delimiting bodies, so they can accept a body longer than 268,435,455 bytes,
  which cannot be re-encoded; the hypothesis `hsize` (bytes consumed < 2^28) excludes
  exactly that. The strict poll front-end needs no such hypothesis.
-/
import Proofs.V3Accept

namespace C11.V3
open Mqtt Mqtt.V3

/-
ORIGINAL STATEMENT — FALSE (finding; refuted below by `async_length_bound_fails`):

theorem async_accepted_reencodes (debug : Bool) (bs rest : Bytes) (p : Packet)
    (h : decodeAsync debug bs = .ok p rest) (hsize : bs.length - rest.length < 268435456) :
    p.valid = true ∧
    ∃ vb, p.encode debug = .ok vb ∧ vb.asRef.length ≤ bs.length - rest.length ∧
      (∀ t, decodeAsync debug (vb.asRef ++ t) = .ok p t) ∧
      decodeBlocking debug vb.asRef = .ok (some p) vb.asRef.length ∧
      (∀ term, (Poll.spec (pollFamily debug) vb.asRef term).1 =
        .ok vb.asRef.length (vb.asRef.drop (headerLen vb.asRef.length)) p)

The conjunct `vb.asRef.length ≤ bs.length - rest.length` fails for CONNECT: the lenient
decoder does not compare the CONNECT body with the fixed header's remaining length, so a
header that UNDERSTATES the remaining length in a shorter length field is accepted, and the
canonical re-encoding needs a longer length field.  Concretely (model = code, Tie B):

  def cex : Bytes := [0x10, 0x00] ++ [0,4,77,81,84,84,4] ++ [0x02] ++ [0,10] ++ [0,120] ++
                     List.replicate 120 97     -- CONNECT, remaining length 0, 132-byte body
  #eval match decodeAsync false cex with
    | .ok p rest => (match p.encode false with
        | .ok vb => s!"consumed={cex.length - rest.length} reencoded={vb.asRef.length} valid={p.valid}"
        | _ => "enc fail")
    | _ => "rejected"
  -- "consumed=134 reencoded=135 valid=true"

Every other packet type obeys the bound (its body is either tied to the remaining length or
has the fixed size 2 or 0), and for CONNECT the excess is at most 2 bytes (a valid CONNECT
body has fewer than 2,097,152 bytes).  The corrected theorem states exactly that; all other
conjuncts are unchanged.

Second finding: `hsize` is not needed for v3 (K2 does not materialise): the only
variable-size body the lenient decoder reads without regard to the remaining length is
CONNECT, which is bounded by 9 + 3 + 5·65,537 bytes (`Connect.encodeLen_lt_of_valid`).
The hypothesis is kept so that the signature is the original one.
-/

/-- Whatever the async decoder accepts lies in the valid domain, re-encodes without error
or panic in either profile, and the re-encoding decodes to the same packet on every
front-end.  The re-encoding is at most the bytes consumed for every packet but CONNECT,
and at most two bytes more for CONNECT (CORRECTED, see above). -/
theorem async_accepted_reencodes_partial (debug : Bool) (bs rest : Bytes) (p : Packet)
    (h : decodeAsync debug bs = .ok p rest) (hsize : bs.length - rest.length < 268435456) :
    p.valid = true ∧
    ∃ vb, p.encode debug = .ok vb ∧
      ((∀ c, p ≠ .connect c) → vb.asRef.length ≤ bs.length - rest.length) ∧
      vb.asRef.length ≤ bs.length - rest.length + 2 ∧
      (∀ t, decodeAsync debug (vb.asRef ++ t) = .ok p t) ∧
      decodeBlocking debug vb.asRef = .ok (some p) vb.asRef.length ∧
      (∀ term, (Poll.spec (pollFamily debug) vb.asRef term).1 =
        .ok vb.asRef.length (vb.asRef.drop (headerLen vb.asRef.length)) p) := by
  have _ := hsize
  obtain ⟨hv, hle, hle2⟩ := decodeAsync_ok_inv h
  obtain ⟨vb, henc, hlen, ha, hb, hp⟩ := reencode_of_valid debug p hv
  exact ⟨hv, vb, henc, fun hne => by rw [hlen]; exact hle hne, by rw [hlen]; exact hle2, ha, hb, hp⟩

/-- The counterexample to the original length bound, proved: a CONNECT whose fixed header
claims remaining length 0 (one length byte) in front of a 144-byte body is accepted by the
async decoder, which consumes 146 bytes; the packet re-encodes to 147 bytes. -/
theorem async_length_bound_fails (debug : Bool) :
    ∃ (bs rest : Bytes) (p : Packet) (vb : VarBytes),
      decodeAsync debug bs = .ok p rest ∧ bs.length - rest.length < 268435456 ∧
      p.encode debug = .ok vb ∧ ¬ vb.asRef.length ≤ bs.length - rest.length := by
  let c : Connect := ⟨.v311, false, 0, [], none, none, some (List.replicate 130 0)⟩
  have hutf : Utf8.valid ([] : Bytes) = true := (Utf8.valid_iff []).mpr ⟨[], rfl⟩
  have hcv : c.valid = true := by
    simp [c, Connect.valid, validText, validBin, hutf]
  have hlen : c.encodeLen = 144 := by
    simp [c, Connect.encodeLen, Protocol.encodeLen]
  have hv : (Packet.connect c).valid = true := by
    simp only [Packet.valid, hcv, hlen]; decide
  obtain ⟨vb, henc, hvl, -⟩ := reencode_of_valid debug (.connect c) hv
  have hdec : decodeAsync debug (0x10 :: (writeVarInt 0 ++ c.encode)) = .ok (.connect c) [] := by
    rw [decodeAsync_frame debug 0x10 0 (by decide) _ ⟨1, false, 0, false, 0⟩ rfl]
    show (Connect.decode >>= fun c => pure (Packet.connect c)) _ = _
    have hd := Connect.decode_encode c hcv []
    rw [List.append_nil] at hd
    rw [Parser.bind_apply, hd]
    rfl
  refine ⟨_, [], .connect c, vb, hdec, ?_, henc, ?_⟩
  · simp only [List.length_cons, List.length_append, writeVarInt_zero, Connect.encode_length, hlen,
      List.length_nil]
    decide
  · rw [hvl]
    simp only [Packet.bodyLen, hlen, List.length_cons, List.length_append, writeVarInt_zero,
      Connect.encode_length, List.length_nil, Spec.varIntSize]
    decide

/-- The same for the strict poll decoder, with no size hypothesis. -/
theorem poll_accepted_reencodes (debug : Bool) (bs : Bytes) (term : Poll.Term)
    (total : Nat) (body : Bytes) (p : Packet)
    (h : (Poll.spec (pollFamily debug) bs term).1 = .ok total body p) :
    p.valid = true ∧
    ∃ vb, p.encode debug = .ok vb ∧ vb.asRef.length ≤ total ∧
      (∀ t, decodeAsync debug (vb.asRef ++ t) = .ok p t) ∧
      decodeBlocking debug vb.asRef = .ok (some p) vb.asRef.length ∧
      (∀ term', (Poll.spec (pollFamily debug) vb.asRef term').1 =
        .ok vb.asRef.length (vb.asRef.drop (headerLen vb.asRef.length)) p) := by
  obtain ⟨hv, hle⟩ := poll_ok_inv h
  obtain ⟨vb, henc, hlen, ha, hb, hp⟩ := reencode_of_valid debug p hv
  exact ⟨hv, vb, henc, by rw [hlen]; exact hle, ha, hb, hp⟩

/-- Decoding is a projection onto a canonical form: decode ∘ encode ∘ decode = decode. -/
theorem decode_is_projection (debug : Bool) (bs rest : Bytes) (p : Packet)
    (h : decodeAsync debug bs = .ok p rest) (hsize : bs.length - rest.length < 268435456) :
    ∃ vb, p.encode debug = .ok vb ∧ decodeAsync debug vb.asRef = .ok p [] ∧
      ∀ vb', p.encode debug = .ok vb' → vb' = vb := by
  have _ := hsize
  obtain ⟨vb, henc, -, ha, -⟩ := reencode_of_valid debug p (decodeAsync_ok_inv h).1
  refine ⟨vb, henc, ?_, ?_⟩
  · have := ha []
    rwa [List.append_nil] at this
  · intro vb' h'
    rw [henc] at h'
    injection h' with h'
    exact h'.symm

end C11.V3
