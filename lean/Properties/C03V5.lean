/-
  C03 (v5 part) — Decoders are total and never panic on arbitrary bytes; plus the
  parser-algebra facts (L1) that C06/C07/C08/C14 rest on.

  Totality/termination: every decoder of the model is a total Lean function accepted
  by the termination checker (the `while remaining_len > 0` loops are well-founded
  recursions on the remaining length), so "terminates" holds by construction; the
  theorems below say the result is never a `panic` — i.e. none of the Rust panic
  sites rendered in the model is reachable, for any input.

  `hdbg` is the statement that the `debug_assert!` in `TopicFilter::is_invalid` is
  unreachable; it is discharged by C16 (`C16.debug_assert_unreachable`).
-/
import Proofs.V5Safety
import Properties.C03V3

namespace C03.V5
open Mqtt Mqtt.V5

abbrev NoDebugPanic := C03.V3.NoDebugPanic

/-- The async decoder never panics, for any byte string. -/
theorem decodeAsync_never_panics (debug : Bool) (hdbg : NoDebugPanic debug) (bs : Bytes) :
    ∀ site, decodeAsync debug bs ≠ .panic site := by
  intro site
  exact (NoPanic.decodeAsync debug hdbg).np bs site

/-- Nor do the blocking decoder and the bare header decoders. -/
theorem blocking_never_panics (debug : Bool) (hdbg : NoDebugPanic debug) (bs : Bytes) :
    (∀ site, decodeBlocking debug bs ≠ .panic site) ∧
    (∀ site, headerDecodeBlocking bs ≠ .panic site) ∧
    (∀ site, Header.decode bs ≠ .panic site) := by
  refine ⟨fun site => decodeBlocking_ne_panic debug hdbg bs site, ?_, ?_⟩
  · intro site
    exact runAsync_ne_panic NoPanic.headerDecode bs .eof site
  · intro site
    exact NoPanic.headerDecode.np bs site

/-- The body decoders the poll machine calls never panic on the headers it can pass
to them (this is the hypothesis of `C05.machine_never_panics`; in particular the
`unreachable!()` arms of `block_decode` are unreachable). -/
theorem blockDecode_never_panics (debug : Bool) (hdbg : NoDebugPanic debug)
    (cb : UInt8) (rl : Nat) (h : Header) (bs : Bytes) (site : String)
    (hh : (pollFamily debug).newWith cb rl = .ok h)
    (he : (pollFamily debug).buildEmpty h = none) :
    (pollFamily debug).blockDecode h bs ≠ .panic site := by
  have hh' : Header.newWith cb rl = .ok h := hh
  have he' : buildEmptyPacket h = none := he
  obtain ⟨hq, h1, h15⟩ := Header.newWith_facts hh'
  exact (NoPanic.blockDecode debug hdbg h hq h1 h15 he').np bs site

/-- Every v5 reader extends (L1). -/
theorem decoders_extend (debug : Bool) :
    Extends (decodeAsync debug) ∧ Extends Header.decode ∧
    (∀ h, Extends (decodeBody debug h)) ∧ (∀ h, Extends (blockDecode debug h)) ∧
    (∀ h p, Extends (Connect.decodeWithProtocol h p)) ∧
    (∀ ctx allowed, Extends (decodeProps ctx allowed)) := by
  exact ⟨Extends.decodeAsync debug, Extends.headerDecode, Extends.decodeBody debug,
    Extends.blockDecode debug, Extends.connectDecodeWithProtocol, Extends.decodeProps⟩

/-- The dispatch tables agree: on a non-empty packet type the strict decoder's body
decoder is the lenient one's. -/
theorem blockDecode_eq_decodeBody (debug : Bool) (h : Header)
    (he : buildEmptyPacket h = none) (ht : 1 ≤ h.typ.toNat ∧ h.typ.toNat ≤ 15) :
    blockDecode debug h = decodeBody debug h := by
  exact Mqtt.V5.blockDecode_eq_decodeBody debug h he ht

end C03.V5
