/-
  C02 (v5 part) — Declared lengths always equal the bytes actually written.
-/
import Proofs.V5RoundTrip

namespace C02.V5
open Mqtt Mqtt.V5

/-- Every property set writes exactly as many bytes as it reports (whenever the
section fits a variable byte integer), for every identifier list and every value. -/
theorem props_write_what_they_report (allowed : List UInt8) (ps : Props) (enc : Bytes) (n : Nat)
    (he : ps.encode allowed = .ok enc) (hn : ps.bodyLen allowed = .ok n) (hlt : n < 268435456) :
    ps.encodeLen allowed = .ok enc.length ∧ enc.length = n + Spec.varIntSize n := by
  exact Props.write_what_they_report allowed ps enc n he hn hlt

/-- For every packet whatsoever: when the encoder succeeds, the output does not
depend on debug assertions, has the size `encode_len` reports, and is control byte ++
minimal remaining length ++ body with the remaining length equal to the number of
bytes that follow it (so the `debug_assert_eq!` in `encode_packet` cannot fire). -/
theorem encode_shape (debug : Bool) (p : Packet) (vb : VarBytes) (h : p.encode debug = .ok vb) :
    p.encode (!debug) = .ok vb ∧
    p.encodeLen = .ok vb.asRef.length ∧
    ∃ cb n body, vb.asRef = cb :: (writeVarInt n ++ body) ∧ body.length = n ∧ n < 268435456 := by
  rcases Packet.encode_total p with ⟨s, hp, _⟩ | ⟨vb', cb, n, body, henc, hlen, hb, hl, hn⟩ | ⟨herr, _⟩
  · rw [hp] at h; cases h
  · rw [henc] at h; cases h
    exact ⟨henc _, hlen, cb, n, body, hb, hl, hn⟩
  · rw [herr] at h; cases h

/-- A valid packet never makes the encoder panic, in either profile. -/
theorem valid_never_panics (debug : Bool) (p : Packet) (hv : p.valid = true) :
    (∀ site, p.encode debug ≠ .panic site) ∧ (∀ site, p.encodeLen ≠ .panic site) := by
  rcases Packet.encode_total p with ⟨s, _, _, cb, body, hparts⟩ | ⟨vb, cb, n, body, henc, hlen, _⟩ | ⟨herr, hlen⟩
  · obtain ⟨n, hn⟩ := Packet.len_ok_of_valid p hv cb _ body hparts
    cases hn
  · exact ⟨fun site h => by (rw [henc] at h; cases h), fun site h => by (rw [hlen] at h; cases h)⟩
  · exact ⟨fun site h => by (rw [herr] at h; cases h), fun site h => by (rw [hlen] at h; cases h)⟩

/-- A packet too large for the 4-byte remaining length is refused with an error by
both `encode` and `encode_len`, never emitted (after fix F6 this includes an oversize
property section). -/
theorem too_large_refused (debug : Bool) (p : Packet) (e : Error)
    (h : p.encodeLen = .err e) :
    e = .invalidVarByteInt ∧ p.encode debug = .err .invalidVarByteInt := by
  rcases Packet.encode_total p with ⟨s, _, hp, _⟩ | ⟨vb, cb, n, body, henc, hlen, hb, hl, hn⟩ | ⟨herr, hlen⟩
  · rw [hp] at h; cases h
  · rw [hlen] at h; cases h
  · rw [hlen] at h; cases h
    exact ⟨rfl, herr debug⟩

theorem encode_err_iff (debug : Bool) (p : Packet) (e : Error) (h : p.encode debug = .err e) :
    e = .invalidVarByteInt ∧ p.encodeLen = .err .invalidVarByteInt := by
  rcases Packet.encode_total p with ⟨s, hp, _⟩ | ⟨vb, cb, n, body, henc, hlen, hb, hl, hn⟩ | ⟨herr, hlen⟩
  · rw [hp] at h; cases h
  · rw [henc] at h; cases h
  · rw [herr] at h; cases h
    exact ⟨rfl, hlen⟩

end C02.V5
