/-
  C03 — Decoders are total and never panic on arbitrary bytes (assembled for both families).

  The conditional theorems of C03V3 (hypothesis: the `debug_assert!` of
  `TopicFilter::is_invalid` is unreachable) are discharged with C16, and the poll
  machine's own safety (C05) is instantiated with the family's body decoders.

  What a theorem about this model cannot exhibit: the memory-level behaviour of the
  two `unsafe` idioms (`from_utf8_unchecked` after validation; the `MaybeUninit` body
  buffer).  Their *logical* preconditions are what is proved: every string returned
  passed validation (C12), and `block_decode` is only ever called on a completely
  filled buffer (`Poll.onData` calls `finishBody` only when `buf'.length = len`, and
  the `debug_assert!(idx <= len)` is unreachable — part of `machine_never_panics`).
-/
import Proofs.NoDebugPanic
import Properties.C05
import Properties.C03V5

namespace C03
open Mqtt

/-- v3: no entry point panics, for any byte string, in either build profile. -/
theorem v3_never_panics (debug : Bool) (bs : Bytes) :
    (∀ site, V3.decodeAsync debug bs ≠ .panic site) ∧
    (∀ site, V3.decodeBlocking debug bs ≠ .panic site) ∧
    (∀ site, V3.headerDecodeBlocking bs ≠ .panic site) ∧
    (∀ site, V3.Header.decode bs ≠ .panic site) := by
  have h := C03.V3.blocking_never_panics debug (noDebugPanic debug) bs
  exact ⟨C03.V3.decodeAsync_never_panics debug (noDebugPanic debug) bs, h.1, h.2.1, h.2.2⟩

/-- v3 poll decoder: no panic for any stream, any delivery schedule, any terminal
event (fuel suffices = it terminates; never a zero-capacity read = it cannot spin;
`idx ≤ len` always; `unreachable!()` unreachable). -/
theorem v3_poll_never_panics (debug : Bool) (s : Bytes) (sched : List Poll.Sched) (term : Poll.Term) :
    ∀ site, (Poll.run (V3.pollFamily debug) debug s sched term).result ≠ .panic site :=
  C05.machine_never_panics (V3.pollFamily debug) debug s sched term
    (fun cb rl h bs site hh he =>
      C03.V3.blockDecode_never_panics debug (noDebugPanic debug) cb rl h bs site hh he)

/-- v5: no entry point panics, for any byte string, in either build profile (this
includes the `expect`s of the property-length macros, the property loop's fuel, the
`0/1 qos` expect and every `unreachable!()`). -/
theorem v5_never_panics (debug : Bool) (bs : Bytes) :
    (∀ site, V5.decodeAsync debug bs ≠ .panic site) ∧
    (∀ site, V5.decodeBlocking debug bs ≠ .panic site) ∧
    (∀ site, V5.headerDecodeBlocking bs ≠ .panic site) ∧
    (∀ site, V5.Header.decode bs ≠ .panic site) := by
  have h := C03.V5.blocking_never_panics debug (noDebugPanic debug) bs
  exact ⟨C03.V5.decodeAsync_never_panics debug (noDebugPanic debug) bs, h.1, h.2.1, h.2.2⟩

/-- v5 poll decoder: no panic for any stream, schedule and terminal event. -/
theorem v5_poll_never_panics (debug : Bool) (s : Bytes) (sched : List Poll.Sched) (term : Poll.Term) :
    ∀ site, (Poll.run (V5.pollFamily debug) debug s sched term).result ≠ .panic site :=
  C05.machine_never_panics (V5.pollFamily debug) debug s sched term
    (fun cb rl h bs site hh he =>
      C03.V5.blockDecode_never_panics debug (noDebugPanic debug) cb rl h bs site hh he)

end C03
