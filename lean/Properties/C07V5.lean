/-
  C07 (v5 part) — Incomplete input is reported as incomplete; trailing bytes are ignored.
-/
import Proofs.V5Compose

namespace C07.V5
open Mqtt Mqtt.V5

/-- Every strict prefix of a valid packet's encoding is 'incomplete' on all three
front-ends: `Ok(None)` for the blocking decoder, an `is_eof()` error for the async
decoder and for the poll decoder under every delivery schedule — never another
error, never a packet. -/
theorem strict_prefix_is_incomplete (debug : Bool) (p : Packet) (hv : p.valid = true) (hwf : p.wf) (hfit : C01.V5.Fits p) :
    ∃ vb, p.encode debug = .ok vb ∧ ∀ k, k < vb.asRef.length →
      decodeBlocking debug (vb.asRef.take k) = .ok none 0 ∧
      (∃ e, runAsync (decodeAsync debug) (vb.asRef.take k) .eof = .err e ∧ e.isEof = true) ∧
      (∀ sched, ∃ e, (Poll.run (pollFamily debug) debug (vb.asRef.take k) sched .eof).result = .err e ∧
        e.isEof = true) := by
  obtain ⟨vb, he, -, hasync, hpoll⟩ := encoding_facts debug p hv hwf hfit
  refine ⟨vb, he, fun k hk => ?_⟩
  have hmore := prefix_is_more debug vb.asRef p hasync k hk
  refine ⟨decodeBlocking_of_more hmore, ⟨_, runAsync_of_more hmore .eof, rfl⟩, fun sched => ?_⟩
  exact ⟨_, prefix_poll debug vb.asRef p hpoll k hk sched .eof, rfl⟩

/-- The encoding followed by arbitrary further bytes decodes to the same packet as the
encoding alone, on all three front-ends (poll: under every schedule and terminal event). -/
theorem trailing_bytes_ignored (debug : Bool) (p : Packet) (hv : p.valid = true) (hwf : p.wf) (hfit : C01.V5.Fits p) (t : Bytes) :
    ∃ vb, p.encode debug = .ok vb ∧
      decodeAsync debug (vb.asRef ++ t) = .ok p t ∧
      decodeBlocking debug (vb.asRef ++ t) = .ok (some p) vb.asRef.length ∧
      (∀ sched term, ∃ body,
        (Poll.run (pollFamily debug) debug (vb.asRef ++ t) sched term).result = .ok vb.asRef.length body p ∧
        (Poll.run (pollFamily debug) debug (vb.asRef ++ t) sched term).consumed = vb.asRef.length) := by
  obtain ⟨vb, he, -, hasync, hpoll⟩ := encoding_facts debug p hv hwf hfit
  refine ⟨vb, he, hasync t, ?_, fun sched term => whole_poll debug vb.asRef p hpoll t sched term⟩
  rw [decodeBlocking_of_ok (hasync t), List.length_append, Nat.add_sub_cancel]

end C07.V5
