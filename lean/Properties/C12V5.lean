/-
  C12 (v5 part) — Every decoded packet satisfies the invariants its types promise.
-/
import Proofs.V5Accept

namespace C12.V5
open Mqtt Mqtt.V5

abbrev TextOk := C12.V3.TextOk
abbrev NameOk := C12.V3.NameOk
abbrev FilterOk := C12.V3.FilterOk
abbrev PidOk := C12.V3.PidOk

/-- Every value stored in a property set has the wire type of its identifier and is in
range: texts are valid UTF-8, the Response Topic is a valid topic name, Boolean-valued
bytes and Maximum QoS are 0/1, every variable byte integer is below 268,435,456; user
properties are pairs of valid UTF-8; nothing is stored outside the struct's identifier list. -/
def PropsOk (allowed : List UInt8) (ps : Props) : Prop :=
  (∀ i, ¬ (i ∈ allowed) → ps.get i = none) ∧
  (∀ i v, ps.get i = some v →
    match propKind i, v with
    | some .byte01, .byte b => b ≤ 1
    | some .qos01, .byte b => b ≤ 1
    | some .u16, .u16 _ => True
    | some .u32, .u32 _ => True
    | some .str, .str s => TextOk s
    | some .topic, .str s => NameOk s
    | some .bin, .bin _ => True
    | some .varint, .varint n => n < 268435456
    | _, _ => False) ∧
  (∀ nv ∈ ps.user, TextOk nv.1 ∧ TextOk nv.2)

/-- A payload flagged as UTF-8 (Payload Format Indicator = 1) is valid UTF-8. -/
def PayloadOk (ps : Props) (payload : Bytes) : Prop :=
  ps.get 0x01 = some (.byte 1) → Utf8.valid payload = true

def Inv : Packet → Prop
  | .connect c => TextOk c.clientId ∧ PropsOk connectProps c.properties ∧
      (∀ w, c.lastWill = some w → NameOk w.topicName ∧ w.qos ≤ 2 ∧ PropsOk willProps w.properties ∧
        PayloadOk w.properties w.payload) ∧
      (∀ u, c.username = some u → TextOk u)
  | .connack c => PropsOk connackProps c.properties
  | .publish p => NameOk p.topicName ∧ PropsOk publishProps p.properties ∧
      PayloadOk p.properties p.payload ∧
      (match p.qosPid with | .level0 => True | .level1 x => PidOk x | .level2 x => PidOk x)
  | .puback a | .pubrec a | .pubrel a | .pubcomp a => PidOk a.pid ∧ PropsOk ackProps a.properties
  | .subscribe s => PidOk s.pid ∧ PropsOk subscribeProps s.properties ∧ s.topics ≠ [] ∧
      ∀ fo ∈ s.topics, FilterOk fo.1 ∧ fo.2.maxQos ≤ 2 ∧ fo.2.retainHandling ≤ 2
  | .suback s | .unsuback s => PidOk s.pid ∧ PropsOk ackProps s.properties
  | .unsubscribe u => PidOk u.pid ∧ PropsOk unsubscribeProps u.properties ∧ u.topics ≠ [] ∧
      ∀ f ∈ u.topics, FilterOk f
  | .pingreq | .pingresp => True
  | .disconnect d => PropsOk disconnectProps d.properties
  | .auth a => PropsOk authProps a.properties

/-- A valid value stored under identifier `i` has the wire type of `i` and is in range. -/
theorem propVal_ok_of_valid (i : UInt8) (v : PropVal) : propValValid i v = true →
    match propKind i, v with
    | some .byte01, .byte b => b ≤ 1
    | some .qos01, .byte b => b ≤ 1
    | some .u16, .u16 _ => True
    | some .u32, .u32 _ => True
    | some .str, .str s => TextOk s
    | some .topic, .str s => NameOk s
    | some .bin, .bin _ => True
    | some .varint, .varint n => n < 268435456
    | _, _ => False := by
  intro hval
  unfold propValValid at hval
  cases hk : propKind i with
  | none => rw [hk] at hval; cases v <;> cases hval
  | some k =>
    rw [hk] at hval
    cases k <;> cases v <;> simp only [] at hval ⊢ <;>
      first
        | (cases hval; done)
        | trivial
        | exact Mqtt.V3.validText_utf8 hval
        | exact Mqtt.V3.validTopicName_decode hval
        | (simp only [Bool.and_eq_true, decide_eq_true_eq] at hval; first | exact hval | exact hval.1)

theorem propsOk_of_valid {allowed : List UInt8} {ps : Props}
    (hv : Props.valid allowed ps = true) (hwf : Props.wf allowed ps) : PropsOk allowed ps := by
  simp only [Props.valid, Bool.and_eq_true, List.all_eq_true] at hv
  obtain ⟨hv1, hv2⟩ := hv
  refine ⟨hwf, fun i v hg => ?_, fun nv hnv => ?_⟩
  · have hmem : i ∈ allowed := by
      by_cases hm : i ∈ allowed
      · exact hm
      · rw [hwf i hm] at hg; cases hg
    have hval : propValValid i v = true := by
      have := hv1 i hmem
      rw [hg] at this
      exact this
    exact propVal_ok_of_valid i v hval
  · have := hv2 nv hnv
    obtain ⟨a, b⟩ := nv
    simp only at this
    exact ⟨Mqtt.V3.validText_utf8 this.1, Mqtt.V3.validText_utf8 this.2⟩

theorem payloadOk_of_valid {ps : Props} {payload : Bytes} (h : payloadOk ps payload = true) :
    PayloadOk ps payload := by
  intro hg
  unfold payloadOk at h
  rw [hg] at h
  simpa using h

theorem isVariant_retainHandling_le {q : UInt8} (h : isVariant .retainHandling q = true) : q ≤ 2 := by
  rcases isVariant_retainHandling h with rfl | rfl | rfl <;> decide

/-- The invariants are implied by the codec's valid domain (`Packet.valid` ∧ `Packet.wf`,
the hypotheses of the round-trip theorems). -/
theorem inv_of_valid (p : Packet) (hv : p.valid = true) (hwf : p.wf) : Inv p := by
  cases p with
  | connect c =>
    obtain ⟨proto, cs, ka, ps, cid, lw, un, pw⟩ := c
    simp only [Packet.valid, Bool.and_eq_true] at hv
    simp only [Packet.wf] at hwf
    obtain ⟨⟨⟨⟨⟨-, hcid⟩, hp⟩, hlw⟩, hun⟩, -⟩ := hv
    obtain ⟨hwf1, hwf2⟩ := hwf
    refine ⟨Mqtt.V3.validText_utf8 hcid, propsOk_of_valid hp hwf1, ?_, ?_⟩
    · intro w hw
      simp only at hw
      subst hw
      simp only [LastWill.valid, Bool.and_eq_true] at hlw
      obtain ⟨⟨⟨⟨hq, hn⟩, -⟩, hwp⟩, hpay⟩ := hlw
      exact ⟨Mqtt.V3.validTopicName_decode hn, Mqtt.V3.isVariant_qos_le hq,
        propsOk_of_valid hwp hwf2, payloadOk_of_valid hpay⟩
    · intro u hu
      simp only at hu
      subst hu
      exact Mqtt.V3.validText_utf8 hun
  | connack c =>
    simp only [Packet.valid, Bool.and_eq_true] at hv
    exact propsOk_of_valid hv.2 hwf
  | publish p =>
    simp only [Packet.valid, Bool.and_eq_true] at hv
    obtain ⟨⟨⟨hn, hq⟩, hp⟩, hpay⟩ := hv
    refine ⟨Mqtt.V3.validTopicName_decode hn, propsOk_of_valid hp hwf, payloadOk_of_valid hpay, ?_⟩
    cases hqp : p.qosPid with
    | level0 => trivial
    | level1 x => rw [hqp] at hq; exact (validPid_iff x).mp hq
    | level2 x => rw [hqp] at hq; exact (validPid_iff x).mp hq
  | puback a =>
    simp only [Packet.valid, Bool.and_eq_true] at hv
    exact ⟨(validPid_iff _).mp hv.1.1, propsOk_of_valid hv.2 hwf⟩
  | pubrec a =>
    simp only [Packet.valid, Bool.and_eq_true] at hv
    exact ⟨(validPid_iff _).mp hv.1.1, propsOk_of_valid hv.2 hwf⟩
  | pubrel a =>
    simp only [Packet.valid, Bool.and_eq_true] at hv
    exact ⟨(validPid_iff _).mp hv.1.1, propsOk_of_valid hv.2 hwf⟩
  | pubcomp a =>
    simp only [Packet.valid, Bool.and_eq_true] at hv
    exact ⟨(validPid_iff _).mp hv.1.1, propsOk_of_valid hv.2 hwf⟩
  | subscribe s =>
    simp only [Packet.valid, Bool.and_eq_true, List.all_eq_true, Bool.not_eq_true'] at hv
    obtain ⟨⟨⟨hp, hps⟩, hne⟩, hall⟩ := hv
    refine ⟨(validPid_iff _).mp hp, propsOk_of_valid hps hwf, ?_, ?_⟩
    · intro he; rw [he] at hne; cases hne
    · intro fo hfo
      obtain ⟨a, b⟩ := hall fo hfo
      simp only [SubOpts.valid, Bool.and_eq_true] at b
      exact ⟨Mqtt.V3.validTopicFilter_decode a, Mqtt.V3.isVariant_qos_le b.1,
        isVariant_retainHandling_le b.2⟩
  | suback s =>
    simp only [Packet.valid, Bool.and_eq_true] at hv
    exact ⟨(validPid_iff _).mp hv.1.1, propsOk_of_valid hv.1.2 hwf⟩
  | unsubscribe u =>
    simp only [Packet.valid, Bool.and_eq_true, List.all_eq_true, Bool.not_eq_true'] at hv
    obtain ⟨⟨⟨hp, hps⟩, hne⟩, hall⟩ := hv
    refine ⟨(validPid_iff _).mp hp, propsOk_of_valid hps hwf, ?_, ?_⟩
    · intro he; rw [he] at hne; cases hne
    · intro f hf
      exact Mqtt.V3.validTopicFilter_decode (hall f hf)
  | unsuback s =>
    simp only [Packet.valid, Bool.and_eq_true] at hv
    exact ⟨(validPid_iff _).mp hv.1.1, propsOk_of_valid hv.1.2 hwf⟩
  | pingreq => trivial
  | pingresp => trivial
  | disconnect d =>
    simp only [Packet.valid, Bool.and_eq_true] at hv
    exact propsOk_of_valid hv.2 hwf
  | auth a =>
    simp only [Packet.valid, Bool.and_eq_true] at hv
    exact propsOk_of_valid hv.2 hwf

/-- Every packet returned by the async decoder (hence by the blocking decoder), for
ANY input, satisfies the invariants. -/
theorem async_decoded_satisfies_invariants (debug : Bool) (bs rest : Bytes) (p : Packet)
    (h : decodeAsync debug bs = .ok p rest) : Inv p :=
  inv_of_valid p (decodeAsync_ok_inv h).1 (decodeAsync_ok_inv h).2.1

theorem blocking_decoded_satisfies_invariants (debug : Bool) (bs : Bytes) (p : Packet) (n : Nat)
    (h : decodeBlocking debug bs = .ok (some p) n) : Inv p := by
  obtain ⟨rest, hd, -⟩ := decodeBlocking_some_inv h
  exact async_decoded_satisfies_invariants debug bs rest p hd

/-- Every packet returned by the poll decoder, for any stream, schedule and terminal event. -/
theorem poll_decoded_satisfies_invariants (debug : Bool) (s : Bytes) (sched : List Poll.Sched)
    (term : Poll.Term) (total : Nat) (body : Bytes) (p : Packet)
    (h : (Poll.run (pollFamily debug) debug s sched term).result = .ok total body p) : Inv p := by
  rw [(C05.schedule_independent (pollFamily debug) debug s sched term).1] at h
  exact inv_of_valid p (poll_ok_inv h).1 (poll_ok_inv h).2.1

end C12.V5
