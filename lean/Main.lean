import Mqtt

partial def loop (h : IO.FS.Stream) (out : IO.FS.Stream) : IO Unit := do
  let line ← h.getLine
  if line.isEmpty then return ()
  if line.trimAscii.toString.isEmpty then loop h out else
  out.putStrLn (Mqtt.Driver.step line)
  loop h out

def main : IO Unit := do
  let stdin ← IO.getStdin
  let stdout ← IO.getStdout
  loop stdin stdout
