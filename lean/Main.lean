import Mqtt

/-- Same rule as `clip` in harness/src/main.rs: very long result lines are printed as a 2,000-character
prefix plus length and FNV-1a hash. -/
def clip (s : String) : String :=
  if s.utf8ByteSize ≤ 100000 then s else
    let h : UInt64 := s.toUTF8.foldl (fun h b => (h ^^^ b.toUInt64) * 0x100000001b3) 0xcbf29ce484222325
    s!"{(s.take 2000).toString} ...clipped len={s.utf8ByteSize} fnv={h}"

partial def loop (debug : Bool) (h : IO.FS.Stream) (out : IO.FS.Stream) : IO Unit := do
  let line ← h.getLine
  if line.isEmpty then return ()
  if line.trimAscii.toString.isEmpty then loop debug h out else
  out.putStrLn (clip (Mqtt.Driver.step debug line))
  loop debug h out

/-- `mqttmodel [--debug]`: `--debug` = model the build with debug assertions on. -/
def main (args : List String) : IO Unit := do
  let stdin ← IO.getStdin
  let stdout ← IO.getStdout
  loop (args.contains "--debug") stdin stdout
