import Mqtt

partial def loop (debug : Bool) (h : IO.FS.Stream) (out : IO.FS.Stream) : IO Unit := do
  let line ← h.getLine
  if line.isEmpty then return ()
  if line.trimAscii.toString.isEmpty then loop debug h out else
  out.putStrLn (Mqtt.Driver.step debug line)
  loop debug h out

/-- `mqttmodel [--debug]`: `--debug` = model the build with debug assertions on. -/
def main (args : List String) : IO Unit := do
  let stdin ← IO.getStdin
  let stdout ← IO.getStdout
  loop (args.contains "--debug") stdin stdout
