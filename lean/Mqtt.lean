import Mqtt.Basic
import Mqtt.Error
import Mqtt.Gen.Kinds
import Mqtt.Gen.Tables
import Mqtt.VarInt
import Mqtt.Pid
import Mqtt.Driver
