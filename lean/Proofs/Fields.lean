/-
  Proofs.Fields — field-level round trips and lengths, shared by the v3 and v5 proofs.

  Normal form of every round-trip lemma:  `reader (writer x ++ t) = .ok x t`
  (the reader consumes exactly what the writer wrote and does not look at what
  follows).  All of them are `@[simp]`; together with the monad-step lemmas
  (`Parser.bind_apply`, `Res.bind_ok`, ...) `simp` runs a `do`-block decoder over
  an encoding written as a right-nested `++`.
-/
import Mqtt.Types
import Mqtt.V3.Valid
import Proofs.VarInt
import Proofs.Utf8

namespace Mqtt

/-! ### the reader monad, step by step -/

@[simp] theorem Res.bind_ok {ε α β} (a : α) (r : Bytes) (f : α → Bytes → Res ε β) :
    (Res.ok a r : Res ε α).bind f = f a r := rfl
@[simp] theorem Res.bind_more {ε α β} (f : α → Bytes → Res ε β) :
    (Res.more : Res ε α).bind f = .more := rfl
@[simp] theorem Res.bind_err {ε α β} (e : ε) (f : α → Bytes → Res ε β) :
    (Res.err e : Res ε α).bind f = .err e := rfl
@[simp] theorem Res.bind_panic {ε α β} (s : String) (f : α → Bytes → Res ε β) :
    (Res.panic s : Res ε α).bind f = .panic s := rfl

@[simp] theorem Parser.bind_apply {ε α β} (p : Parser ε α) (f : α → Parser ε β) (bs : Bytes) :
    (p >>= f) bs = (p bs).bind (fun a rest => f a rest) := rfl
@[simp] theorem Parser.pure_apply {ε α} (a : α) (bs : Bytes) :
    (Pure.pure a : Parser ε α) bs = .ok a bs := rfl
@[simp] theorem Parser.pure_apply' {ε α} (a : α) (bs : Bytes) :
    (Parser.pure a : Parser ε α) bs = .ok a bs := rfl
@[simp] theorem Parser.fail_apply {ε α} (e : ε) (bs : Bytes) :
    (Parser.fail e : Parser ε α) bs = .err e := rfl
@[simp] theorem Parser.panic_apply {ε α} (s : String) (bs : Bytes) :
    (Parser.panic s : Parser ε α) bs = .panic s := rfl

/-- The step used by hand: if `p` reads `x` off the front, `p >>= f` continues with `f x`. -/
theorem Parser.bind_of_ok {ε α β} {p : Parser ε α} {bs rest : Bytes} {x : α}
    (h : p bs = .ok x rest) (f : α → Parser ε β) : (p >>= f) bs = f x rest := by
  simp [h]

@[simp] theorem liftExcept_ok {ε α} (a : α) (bs : Bytes) :
    liftExcept (ε := ε) (.ok a) bs = .ok a bs := rfl
@[simp] theorem liftExcept_error {ε α} (e : ε) (bs : Bytes) :
    liftExcept (α := α) (.error e) bs = .err e := rfl

theorem checkedSub_of_le {ε} {x y : Nat} (e : ε) (h : y ≤ x) (bs : Bytes) :
    checkedSub x y e bs = .ok (x - y) bs := by
  simp [checkedSub, h]

/-- `(k + n).checked_sub(k)` succeeds with `n`. -/
@[simp] theorem checkedSub_add_left {ε} (k n : Nat) (e : ε) (bs : Bytes) :
    checkedSub (k + n) k e bs = .ok n bs := by
  simp [checkedSub]

/-- `x.checked_sub(y)` when `x = y + z`. -/
theorem checkedSub_eq {ε} {x y z : Nat} (e : ε) (h : x = y + z) (bs : Bytes) :
    checkedSub x y e bs = .ok z bs := by
  subst h; simp

/-! ### lengths of what the writers write -/

@[simp] theorem u16be_length (v : UInt16) : (u16be v).length = 2 := rfl
@[simp] theorem u32be_length (v : UInt32) : (u32be v).length = 4 := rfl
@[simp] theorem writeBytes_length (d : Bytes) : (writeBytes d).length = 2 + d.length := by
  simp [writeBytes]

/-! ### u8 -/

@[simp] theorem readU8_cons {ε} (b : UInt8) (t : Bytes) : readU8 (ε := ε) (b :: t) = .ok b t := rfl

/-! ### u16, big-endian -/

theorem be16_u16be (v : UInt16) :
    be16 (UInt8.ofNat (v.toNat / 256)) (UInt8.ofNat (v.toNat % 256)) = v := by
  apply UInt16.toNat_inj.mp
  have := v.toNat_lt
  simp only [be16, UInt16.toNat_ofNat', UInt8.toNat_ofNat']
  omega

@[simp] theorem readU16_u16be {ε} (v : UInt16) (t : Bytes) :
    readU16 (ε := ε) (u16be v ++ t) = .ok v t := by
  simp only [u16be, readU16, List.cons_append, List.nil_append, be16_u16be]

/-- `(v >> 8) as u8, (v & 0xFF) as u8` is the big-endian encoding. -/
theorem shift_mask_eq_u16be (v : UInt16) :
    [(v >>> 8).toUInt8, (v &&& 0xFF).toUInt8] = u16be v := by
  have := v.toNat_lt
  have h255 : v.toNat % 256 &&& 255 = v.toNat % 256 := by
    have := Nat.and_two_pow_sub_one_eq_mod (v.toNat % 256) 8
    simpa using this
  simp only [u16be]
  congr 1
  · apply UInt8.toNat_inj.mp
    simp [UInt16.toNat_shiftRight, Nat.shiftRight_eq_div_pow]
  · congr 1
    apply UInt8.toNat_inj.mp
    simp [h255]

/-! ### u32, big-endian -/

theorem be32_u32be (v : UInt32) :
    be32 (UInt8.ofNat (v.toNat / 16777216)) (UInt8.ofNat (v.toNat / 65536 % 256))
      (UInt8.ofNat (v.toNat / 256 % 256)) (UInt8.ofNat (v.toNat % 256)) = v := by
  apply UInt32.toNat_inj.mp
  have := v.toNat_lt
  simp only [be32, UInt32.toNat_ofNat', UInt8.toNat_ofNat']
  omega

@[simp] theorem readU32_u32be {ε} (v : UInt32) (t : Bytes) :
    readU32 (ε := ε) (u32be v ++ t) = .ok v t := by
  simp only [u32be, readU32, List.cons_append, List.nil_append, be32_u32be]

/-! ### raw bytes -/

@[simp] theorem take_length_append {ε} (xs t : Bytes) :
    take (ε := ε) xs.length (xs ++ t) = .ok xs t := by
  simp [take]

theorem take_of_length_eq {ε} {n : Nat} (xs t : Bytes) (h : n = xs.length) :
    take (ε := ε) n (xs ++ t) = .ok xs t := by
  subst h; simp

/-- The "rest of the packet" read: `if n > 0 { read_exact(n) } else { vec![] }`. -/
@[simp] theorem takeRest {ε} (xs t : Bytes) :
    (if 0 < xs.length then take xs.length else pure [] : Parser ε Bytes) (xs ++ t) = .ok xs t := by
  by_cases h : 0 < xs.length
  · rw [if_pos h]; exact take_length_append xs t
  · have : xs = [] := List.eq_nil_of_length_eq_zero (by omega)
    subst this; simp

theorem toNat_ofNat_length (d : Bytes) (h : d.length ≤ 65535) :
    (UInt16.ofNat d.length).toNat = d.length := by
  simp only [UInt16.toNat_ofNat']; omega

/-- `read_bytes` inverts `write_bytes` on data that fits the 16-bit length prefix. -/
theorem readBytes_writeBytes {ε} (d t : Bytes) (h : d.length ≤ 65535) :
    readBytes (ε := ε) (writeBytes d ++ t) = .ok d t := by
  simp only [writeBytes, readBytes, List.append_assoc, readU16_u16be, toNat_ofNat_length d h,
    take_length_append]

/-! ### the valid domains of fields -/

theorem validBin_iff (b : Bytes) : validBin b = true ↔ b.length ≤ 65535 := by
  simp [validBin]

theorem validText_iff (b : Bytes) :
    validText b = true ↔ b.length ≤ 65535 ∧ Utf8.valid b = true := by
  simp [validText]

@[simp] theorem readBytes_writeBytes_valid {ε} (d t : Bytes) (h : validBin d = true) :
    readBytes (ε := ε) (writeBytes d ++ t) = .ok d t :=
  readBytes_writeBytes d t ((validBin_iff d).mp h)

/-! ### strings -/

theorem readString_writeBytes (d t : Bytes) (hl : d.length ≤ 65535) (hu : Utf8.valid d = true) :
    readString (writeBytes d ++ t) = .ok d t := by
  simp only [readString, readBytes_writeBytes d t hl, hu, if_true]

@[simp] theorem readString_writeBytes_valid (d t : Bytes) (h : validText d = true) :
    readString (writeBytes d ++ t) = .ok d t :=
  readString_writeBytes d t ((validText_iff d).mp h).1 ((validText_iff d).mp h).2

/-! ### packet identifiers -/

theorem validPid_iff (p : Pid) : validPid p = true ↔ p.val ≠ 0 := by
  simp [validPid]

theorem readPid_u16be (p : Pid) (t : Bytes) (h : p.val ≠ 0) :
    readPid (u16be p.val ++ t) = .ok p t := by
  simp only [readPid, readU16_u16be, Pid.tryFrom, h, if_false]

@[simp] theorem readPid_u16be_valid (p : Pid) (t : Bytes) (h : validPid p = true) :
    readPid (u16be p.val ++ t) = .ok p t :=
  readPid_u16be p t ((validPid_iff p).mp h)

/-! ### topic names and filters -/

/-- Bytes that decode as UTF-8 are as long as the `str::len()` of what they decode to. -/
theorem length_of_decode (b : Bytes) (cs : List Char) (h : Utf8.decode b = some cs) :
    b.length = Utf8.byteLen cs := by
  rw [← Utf8.encode_length, Utf8.encode_of_decode b cs h]

/-- What `TopicName::try_from` accepts it returns unchanged; it is valid UTF-8 of at
most 65,535 bytes. -/
theorem topicNameTryFrom_ok {b b' : Bytes} (h : topicNameTryFrom b = .ok b') :
    b' = b ∧ Utf8.valid b = true ∧ b.length ≤ 65535 := by
  unfold topicNameTryFrom at h
  split at h
  · cases h
  · rename_i cs hd
    split at h
    · cases h
    · rename_i hinv
      refine ⟨by cases h; rfl, by simp [Utf8.valid, hd], ?_⟩
      rw [length_of_decode b cs hd]
      unfold Topic.nameIsInvalid at hinv
      split at hinv
      · simp at hinv
      · omega

theorem validTopicName_iff (b : Bytes) : validTopicName b = true ↔ topicNameTryFrom b = .ok b := by
  unfold validTopicName
  constructor
  · intro h
    split at h
    · rename_i b' hb; rw [hb, (topicNameTryFrom_ok hb).1]
    · cases h
  · intro h; rw [h]

theorem validTopicName_text {b : Bytes} (h : validTopicName b = true) : validText b = true := by
  have := topicNameTryFrom_ok ((validTopicName_iff b).mp h)
  exact (validText_iff b).mpr ⟨this.2.2, this.2.1⟩

@[simp] theorem topicNameTryFrom_valid {b : Bytes} (h : validTopicName b = true) :
    topicNameTryFrom b = .ok b := (validTopicName_iff b).mp h

/-- What `TopicFilter::try_from` accepts is valid UTF-8 of at most 65,535 bytes. -/
theorem topicFilterTryFrom_ok {debug : Bool} {b : Bytes} {f : Topic.TopicFilter} {r : Bytes}
    (h : topicFilterTryFrom debug b = .ok f r) :
    f.text = b ∧ r = [] ∧ Utf8.valid b = true ∧ b.length ≤ 65535 := by
  unfold topicFilterTryFrom at h
  split at h
  · cases h
  · rename_i cs hd
    split at h
    · cases h
    · rename_i sep hv
      refine ⟨by cases h; rfl, by cases h; rfl, by simp [Utf8.valid, hd], ?_⟩
      rw [length_of_decode b cs hd]
      unfold Topic.filterIsInvalid at hv
      simp only at hv
      split at hv
      · cases hv
      · omega
    · cases h

/-- A valid `TopicFilter` is what `try_from` rebuilds from its text, in either profile. -/
theorem topicFilterTryFrom_valid {f : Topic.TopicFilter} (h : validTopicFilter f = true)
    (debug : Bool) : topicFilterTryFrom debug f.text = .ok f [] := by
  unfold validTopicFilter at h
  rw [Bool.and_eq_true] at h
  have key : ∀ d, (match topicFilterTryFrom d f.text with
      | .ok g _ => g == f
      | _ => false) = true → topicFilterTryFrom d f.text = .ok f [] := by
    intro d hd
    split at hd
    · rename_i g r hg
      have := topicFilterTryFrom_ok hg
      rw [hg, this.2.1]
      simp at hd; rw [hd]
    · cases hd
  cases debug
  · exact key false h.1
  · exact key true h.2

theorem validTopicFilter_text {f : Topic.TopicFilter} (h : validTopicFilter f = true) :
    validText f.text = true := by
  have := topicFilterTryFrom_ok (topicFilterTryFrom_valid h false)
  exact (validText_iff _).mpr ⟨this.2.2.2, this.2.2.1⟩

/-! ### protocol name and level -/

@[simp] theorem Protocol.encode_length (p : Protocol) : p.encode.length = p.encodeLen := by
  cases p <;> rfl

@[simp] theorem Protocol.decode_encode (p : Protocol) (t : Bytes) :
    Protocol.decode (p.encode ++ t) = .ok p t := by
  cases p <;>
    simp [Protocol.decode, Protocol.encode, Protocol.toPair, Protocol.new, MQISDP, MQTTN,
      readBytes, take]

/-! ### enum codes -/

theorem isVariant_qos {q : UInt8} (h : isVariant .qos q = true) : q = 0 ∨ q = 1 ∨ q = 2 := by
  simpa [isVariant, Gen.variants] using h

theorem qosFromU8_valid {q : UInt8} (h : isVariant .qos q = true) : qosFromU8 q = .ok q := by
  rcases isVariant_qos h with rfl | rfl | rfl <;> rfl

end Mqtt
