import Proofs.V3RoundTrip
import Proofs.V5RoundTrip
import Properties.C01V3
import Properties.C01V5
import Mqtt.V3.Poll
import Mqtt.V5.Poll

/-
  Proofs.CrossFamily — lemmas for C13: a CONNECT of the other protocol family is
  identified by every front-end from the protocol name/level alone.
-/

namespace Mqtt
-- lemmas for C13 (cross-family CONNECT)

/-! ### the known-protocol entry points refuse the other family at once -/

theorem V3.Connect.decodeWithProtocol_refuse (p : Protocol) (hp : p.level > 4) (rest : Bytes) :
    V3.Connect.decodeWithProtocol p rest = .err (.unexpectedProtocol p) := by
  simp only [V3.Connect.decodeWithProtocol, hp, if_true, Parser.fail_apply]

theorem V5.Connect.decodeWithProtocol_refuse (h : V5.Header) (p : Protocol) (hp : p ≠ .v500)
    (rest : Bytes) :
    V5.Connect.decodeWithProtocol h p rest = .err (.common (.unexpectedProtocol p)) := by
  have : (p != Protocol.v500) = true := by simpa using hp
  simp only [V5.Connect.decodeWithProtocol, this, if_true, Parser.fail_apply]

/-! ### `Protocol::new` -/

theorem MQISDP_ne_MQTTN : MQISDP ≠ MQTTN := by decide

theorem Protocol.new_pairs (name : Bytes) (level : UInt8) :
    (Protocol.new name level = .ok .v310 ↔ (name = MQISDP ∧ level = 3)) ∧
    (Protocol.new name level = .ok .v311 ↔ (name = MQTTN ∧ level = 4)) ∧
    (Protocol.new name level = .ok .v500 ↔ (name = MQTTN ∧ level = 5)) ∧
    ((¬ (name = MQISDP ∧ level = 3) ∧ ¬ (name = MQTTN ∧ level = 4) ∧ ¬ (name = MQTTN ∧ level = 5)) →
      Protocol.new name level =
        if Utf8.valid name then .error (.invalidProtocol name level) else .error .invalidString) := by
  have h34 : (3 : UInt8) ≠ 4 := by decide
  have h35 : (3 : UInt8) ≠ 5 := by decide
  have h45 : (4 : UInt8) ≠ 5 := by decide
  have hne := MQISDP_ne_MQTTN
  unfold Protocol.new
  by_cases h1 : name = MQISDP ∧ level = 3
  · obtain ⟨rfl, rfl⟩ := h1
    simp [hne, h34, h35]
  · by_cases h2 : name = MQTTN ∧ level = 4
    · obtain ⟨rfl, rfl⟩ := h2
      simp [hne.symm, h45]
    · by_cases h3 : name = MQTTN ∧ level = 5
      · obtain ⟨rfl, rfl⟩ := h3
        simp [hne.symm, h45.symm]
      · simp only [h1, h2, h3, if_false, not_false_eq_true, and_self, true_implies, iff_false]
        refine ⟨?_, ?_, ?_⟩ <;> split <;> simp

/-! ### `Connect::decode` = `Protocol::decode` then the known-protocol entry point -/

theorem V3.Connect.decode_protocol (p : Protocol) (rest : Bytes) :
    V3.Connect.decode (p.encode ++ rest) = V3.Connect.decodeWithProtocol p rest := by
  simp only [V3.Connect.decode, Parser.bind_apply, Protocol.decode_encode, Res.bind_ok]

theorem V5.Connect.decode_protocol (h : V5.Header) (p : Protocol) (rest : Bytes) :
    V5.Connect.decode h (p.encode ++ rest) = V5.Connect.decodeWithProtocol h p rest := by
  simp only [V5.Connect.decode, Parser.bind_apply, V5.liftC_apply, Protocol.decode_encode,
    V5.Res.mapErr_ok, Res.bind_ok]

/-! ### the protocol prefix is never empty -/

theorem Protocol.encodeLen_pos (p : Protocol) : 7 ≤ p.encodeLen := by
  cases p <;> simp [Protocol.encodeLen]

/-! ### v3 front-ends on a CONNECT frame whose protocol is not a v3 one -/

namespace V3

theorem newWith_connect (n : Nat) : Header.newWith 0x10 n = .ok ⟨1, false, 0, false, n⟩ :=
  Header.newWith_of_row (r := ⟨1, false, 0, false⟩) rfl n

theorem cross_async (debug : Bool) (n : Nat) (hn : n < 268435456) (p : Protocol)
    (hp : p.level > 4) (g : Bytes) :
    decodeAsync debug (0x10 :: (writeVarInt n ++ (p.encode ++ g)))
      = .err (.unexpectedProtocol p) := by
  rw [decodeAsync_frame debug 0x10 n hn _ _ (newWith_connect n)]
  show (Connect.decode >>= fun c => pure (Packet.connect c)) _ = _
  simp only [Parser.bind_apply, Connect.decode_protocol,
    Connect.decodeWithProtocol_refuse p hp, Res.bind_err]

theorem cross_blocking (debug : Bool) (n : Nat) (hn : n < 268435456) (p : Protocol)
    (hp : p.level > 4) (after t : Bytes) :
    decodeBlocking debug (0x10 :: (writeVarInt n ++ (p.encode ++ after)) ++ t)
      = .err (.unexpectedProtocol p) := by
  rw [List.cons_append, List.append_assoc, List.append_assoc]
  simp only [decodeBlocking, runAsync, cross_async debug n hn p hp, Error.isEof]
  rfl

theorem cross_poll (debug : Bool) (n : Nat) (hn : n < 268435456) (p : Protocol)
    (hp : p.level > 4) (after t : Bytes) (hlen : (p.encode ++ after).length = n)
    (term : Poll.Term) :
    (Poll.spec (pollFamily debug) (0x10 :: (writeVarInt n ++ (p.encode ++ after)) ++ t) term).1
      = .err (.unexpectedProtocol p) := by
  have hn0 : n ≠ 0 := by
    have := Protocol.encodeLen_pos p
    rw [List.length_append, Protocol.encode_length] at hlen; omega
  have hvi : decodeVarIntAux ((pollFamily debug).ofCommon .invalidVarByteInt) 0 0
      (writeVarInt n ++ ((p.encode ++ after) ++ t)) = .ok (n, Spec.varIntSize n) ((p.encode ++ after) ++ t) :=
    decodeVarInt_write n hn _
  rw [List.cons_append, List.append_assoc]
  have e1 : (pollFamily debug).newWith = Header.newWith := rfl
  have e2 : (pollFamily debug).buildEmpty = buildEmptyPacket := rfl
  have e3 : (pollFamily debug).remainingLen = fun h => h.remainingLen := rfl
  have e4 : (pollFamily debug).blockDecode = blockDecode debug := rfl
  have e5 : (pollFamily debug).isEof = Error.isEof := rfl
  have hbe : buildEmptyPacket ⟨1, false, 0, false, n⟩ = none := rfl
  have hle : n ≤ ((p.encode ++ after) ++ t).length := by rw [List.length_append, hlen]; omega
  have htake : ((p.encode ++ after) ++ t).take n = p.encode ++ after := by
    rw [← hlen, List.take_left]
  have hbd : blockDecode debug ⟨1, false, 0, false, n⟩ (p.encode ++ after)
      = .err (.unexpectedProtocol p) := by
    show (Connect.decode >>= fun c => pure (Packet.connect c)) _ = _
    simp only [Parser.bind_apply, Connect.decode_protocol,
      Connect.decodeWithProtocol_refuse p hp, Res.bind_err]
  simp only [Poll.spec, hvi, Poll.finishHeader, e1, e2, e3, newWith_connect, hbe, hn0, if_false,
    hle, if_true, htake, Poll.finishBody, e4, e5, hbd, Error.isEof]
  rfl

end V3

/-! ### v5 front-ends on a CONNECT frame whose protocol is not v5.0 -/

namespace V5

theorem newWith_connect (n : Nat) : Header.newWith 0x10 n = .ok ⟨1, false, 0, false, n⟩ :=
  Header.newWith_of_row (r := ⟨1, false, 0, false⟩) rfl n

theorem cross_async (debug : Bool) (n : Nat) (hn : n < 268435456) (p : Protocol)
    (hp : p ≠ .v500) (g : Bytes) :
    decodeAsync debug (0x10 :: (writeVarInt n ++ (p.encode ++ g)))
      = .err (.common (.unexpectedProtocol p)) := by
  rw [decodeAsync_frame debug 0x10 n hn _ _ (newWith_connect n)]
  show (Connect.decode _ >>= fun c => pure (Packet.connect c)) _ = _
  simp only [Parser.bind_apply, Connect.decode_protocol,
    Connect.decodeWithProtocol_refuse _ p hp, Res.bind_err]

theorem cross_blocking (debug : Bool) (n : Nat) (hn : n < 268435456) (p : Protocol)
    (hp : p ≠ .v500) (after t : Bytes) :
    decodeBlocking debug (0x10 :: (writeVarInt n ++ (p.encode ++ after)) ++ t)
      = .err (.common (.unexpectedProtocol p)) := by
  rw [List.cons_append, List.append_assoc, List.append_assoc]
  simp only [decodeBlocking, runAsync, cross_async debug n hn p hp]

theorem cross_poll (debug : Bool) (n : Nat) (hn : n < 268435456) (p : Protocol)
    (hp : p ≠ .v500) (after t : Bytes) (hlen : (p.encode ++ after).length = n)
    (term : Poll.Term) :
    (Poll.spec (pollFamily debug) (0x10 :: (writeVarInt n ++ (p.encode ++ after)) ++ t) term).1
      = .err (.common (.unexpectedProtocol p)) := by
  have hn0 : n ≠ 0 := by
    have := Protocol.encodeLen_pos p
    rw [List.length_append, Protocol.encode_length] at hlen; omega
  have hvi : decodeVarIntAux ((pollFamily debug).ofCommon .invalidVarByteInt) 0 0
      (writeVarInt n ++ ((p.encode ++ after) ++ t))
        = .ok (n, Spec.varIntSize n) ((p.encode ++ after) ++ t) := by
    have hl := writeVarInt_length n hn
    have hle := varIntSize_le n
    rw [decodeAux_write _ n 0 0 _ (by rw [hl]; omega)]
    simp [hl]
  rw [List.cons_append, List.append_assoc]
  have e1 : (pollFamily debug).newWith = Header.newWith := rfl
  have e2 : (pollFamily debug).buildEmpty = buildEmptyPacket := rfl
  have e3 : (pollFamily debug).remainingLen = fun h => h.remainingLen := rfl
  have e4 : (pollFamily debug).blockDecode = blockDecode debug := rfl
  have e5 : (pollFamily debug).isEof = ErrorV5.isEof := rfl
  have hbe : buildEmptyPacket ⟨1, false, 0, false, n⟩ = none := rfl
  have hle : n ≤ ((p.encode ++ after) ++ t).length := by rw [List.length_append, hlen]; omega
  have htake : ((p.encode ++ after) ++ t).take n = p.encode ++ after := by
    rw [← hlen, List.take_left]
  have hbd : blockDecode debug ⟨1, false, 0, false, n⟩ (p.encode ++ after)
      = .err (.common (.unexpectedProtocol p)) := by
    show (Connect.decode _ >>= fun c => pure (Packet.connect c)) _ = _
    simp only [Parser.bind_apply, Connect.decode_protocol,
      Connect.decodeWithProtocol_refuse _ p hp, Res.bind_err]
  simp only [Poll.spec, hvi, Poll.finishHeader, e1, e2, e3, newWith_connect, hbe, hn0, if_false,
    hle, if_true, htake, Poll.finishBody, e4, e5, hbd, ErrorV5.isEof, Error.isEof]
  rfl

/-- The body of a CONNECT starts with the protocol name and level. -/
theorem Connect.encode_prefix (c : Connect) (b : Bytes) (h : c.encode = .ok b) :
    ∃ after, b = c.protocol.encode ++ after := by
  unfold Connect.encode at h
  cases hp : c.properties.encode connectProps with
  | error s => simp [hp, bind, Except.bind] at h
  | ok pb =>
    cases hlw : c.lastWill with
    | none =>
      simp only [hp, hlw, bind, Except.bind, pure, Except.pure, Except.ok.injEq] at h
      subst h
      simp only [List.append_assoc]
      exact ⟨_, rfl⟩
    | some w =>
      cases hw : w.encode with
      | error s => simp [hp, hlw, hw, bind, Except.bind] at h
      | ok wb =>
        simp only [hp, hlw, hw, bind, Except.bind, pure, Except.pure, Except.ok.injEq] at h
        subst h
        simp only [List.append_assoc]
        exact ⟨_, rfl⟩

/-- Everything C13 needs about the encoding of a valid v5 CONNECT. -/
theorem connect_shape (debug : Bool) (c : Connect)
    (hv : (Packet.connect c).valid = true) (hwf : (Packet.connect c).wf)
    (hfit : ∃ n, (Packet.connect c).encodeLen = .ok n) :
    ∃ (n : Nat) (after : Bytes),
      (Packet.connect c).encode debug =
        .ok (.dynamic (0x10 :: (writeVarInt n ++ (Protocol.encode .v500 ++ after)))) ∧
      n < 268435456 ∧ (Protocol.encode .v500 ++ after).length = n ∧
      ∀ (h : Header) (t : Bytes), Connect.decodeWithProtocol h .v500 (after ++ t) = .ok c t := by
  obtain ⟨n, hlen, hn⟩ := Packet.len_of_fits (.connect c) _ _ _ rfl hfit
  obtain ⟨b, hb, hbl, hn0, hdec⟩ := Connect.roundtrip c hv hwf hlen hn
  have hproto : c.protocol = .v500 := by
    simp only [Packet.valid, Bool.and_eq_true, beq_iff_eq] at hv
    exact hv.1.1.1.1.1
  obtain ⟨after, rfl⟩ := Connect.encode_prefix c b hb
  rw [hproto] at hb hbl hdec
  have F := Frame.of_parts debug (.connect c) _ _ _ rfl n _ ⟨1, false, 0, false, n⟩ hlen hn hb hbl
    rfl rfl (fun t => by
      show (Connect.decode _ >>= fun c => pure (Packet.connect c)) _ = _
      rw [Parser.bind_apply, hdec]; rfl) (.inr ⟨hn0, rfl, rfl⟩)
  refine ⟨n, after, F.enc, hn, hbl, fun h t => ?_⟩
  rw [← Connect.decode_protocol, ← List.append_assoc]
  exact hdec h t

end V5

namespace V3

/-- Everything C13 needs about the encoding of a valid v3 CONNECT. -/
theorem connect_shape (debug : Bool) (c : Connect) (hv : (Packet.connect c).valid = true) :
    ∃ (n : Nat) (after : Bytes),
      (Packet.connect c).encode debug =
        .ok (.dynamic (0x10 :: (writeVarInt n ++ (Protocol.encode c.protocol ++ after)))) ∧
      n < 268435456 ∧ (Protocol.encode c.protocol ++ after).length = n ∧
      c.protocol ≠ .v500 ∧
      ∀ t : Bytes, Connect.decodeWithProtocol c.protocol (after ++ t) = .ok c t := by
  simp only [Packet.valid, Bool.and_eq_true, decide_eq_true_eq] at hv
  obtain ⟨hcv, hlt⟩ := hv
  have hproto : c.protocol ≠ .v500 := by
    simp only [Connect.valid, Bool.and_eq_true, bne_iff_ne, ne_eq] at hcv
    exact hcv.1.1.1.1
  obtain ⟨after, hsplit⟩ : ∃ after, c.encode = c.protocol.encode ++ after := by
    refine ⟨List.drop c.protocol.encode.length c.encode, ?_⟩
    simp only [Connect.encode, List.append_assoc, List.drop_left]
  refine ⟨c.encodeLen, after, ?_, hlt, ?_, hproto, fun t => ?_⟩
  · show Packet.encode.dyn (encodePacket debug 0x10 c.encodeLen c.encode) = _
    rw [encodePacket_ok debug _ _ _ c.encode_length hlt, hsplit]
    rfl
  · rw [← hsplit]; exact c.encode_length
  · rw [← Connect.decode_protocol, ← List.append_assoc, ← hsplit]
    exact Connect.decode_encode c hcv t

end V3

end Mqtt
