/-
  Proofs.GenTies — the hand-written identifier lists of the v5 property layer
  (`Mqtt.V5.connectProps` …, the macro argument lists of src/v5/**) against
  `Mqtt.Gen.propAllowed`, which `harness gen-tables` regenerates on every run by
  PROBING the real decoder: one well-formed property of each of the standard's 28
  identifiers inside the smallest frame of each property-carrying position.
  A change to any property list of the code changes the generated table and one of
  these obligations stops checking; the probe frame is then the failing input.
-/
import Mqtt.V5.Decode
import Mqtt.V5.Encode
import Mqtt.Gen.Tables

namespace Mqtt.V5.GenTies
open Mqtt Mqtt.V5

/-- `model` (plus the user property, which every struct carries) and `probed` have the same members. -/
def sameIds (model probed : List UInt8) : Bool :=
  probed.all (fun i => model.contains i || i == USER_PROPERTY) &&
  model.all probed.contains && probed.contains USER_PROPERTY

/-- The model's identifier list at each property-carrying position. -/
def modelList : Gen.PropHost → List UInt8
  | .connect => connectProps | .will => willProps | .connack => connackProps
  | .publish => publishProps
  | .puback | .pubrec | .pubrel | .pubcomp | .suback | .unsuback => ackProps
  | .subscribe => subscribeProps | .unsubscribe => unsubscribeProps
  | .disconnect => disconnectProps | .auth => authProps

def allHosts : List Gen.PropHost :=
  [.connect, .will, .connack, .publish, .puback, .pubrec, .pubrel, .pubcomp,
   .subscribe, .suback, .unsubscribe, .unsuback, .disconnect, .auth]

theorem allHosts_complete (h : Gen.PropHost) : h ∈ allHosts := by
  cases h <;> decide

/-- Every probe frame decodes without a property (so a refusal below is about the property). -/
theorem hosts_decode (h : Gen.PropHost) : Gen.propHostDecodes h = true := by
  cases h <;> decide

/-- At every property-carrying position the real decoder accepts exactly the identifiers of the
model's list (and the user property). -/
theorem lists_agree (h : Gen.PropHost) : sameIds (modelList h) (Gen.propAllowed h) = true := by
  cases h <;> decide

/-- No identifier is listed twice in the model (a `decode_properties!` arm per identifier). -/
theorem lists_nodup (h : Gen.PropHost) : (modelList h).Nodup := by
  cases h <;> decide

/-- Every listed identifier has a wire type and is a variant of the code's `PropertyId`. -/
theorem lists_known (h : Gen.PropHost) :
    (modelList h).all (fun i => (propKind i).isSome && (Gen.variants .propertyId).contains i) = true := by
  cases h <;> decide

/-- What the model says about option byte `b`, in the shape of a row of `Gen.subOptsV5`:
decoded fields and the byte the model's encoder writes back. -/
def modelSubOptsRow (b : UInt8) : Option (UInt8 × Bool × Bool × UInt8 × UInt8) :=
  match decodeSubOpts b with
  | .ok o => some (o.maxQos, o.noLocal, o.retainAsPublished, o.retainHandling, o.toU8)
  | .error _ => none

set_option maxRecDepth 100000 in
/-- All 256 subscription-option bytes: the real decoder (probed inside a one-filter SUBSCRIBE)
accepts exactly the bytes `decodeSubOpts` accepts, with the same four fields, and the real encoder
writes back the byte `SubOpts.toU8` computes. -/
theorem subOpts_table :
    (List.range 256).all (fun n => modelSubOptsRow n.toUInt8 == (Gen.subOptsV5[n]?).join) = true := by
  decide

set_option maxRecDepth 100000 in
theorem subOpts_table_length : Gen.subOptsV5.length = 256 := by decide

/-- The model's row for the v3 requested-QoS byte. -/
def modelSubQosRow (b : UInt8) : Option (UInt8 × UInt8) :=
  match qosFromU8 b with
  | .ok q => some (q, q)
  | .error _ => none

set_option maxRecDepth 100000 in
theorem subQosV3_table :
    (List.range 256).all (fun n => modelSubQosRow n.toUInt8 == (Gen.subQosV3[n]?).join) = true := by
  decide

set_option maxRecDepth 100000 in
theorem subQosV3_table_length : Gen.subQosV3.length = 256 := by decide

end Mqtt.V5.GenTies
