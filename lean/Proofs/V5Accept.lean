/-
  Proofs.V5Accept — the converse of the v5 round trip: what a v5 decoder ACCEPTS lies in
  the valid domain (`Packet.valid`, `Packet.wf`), and its canonical body size is at most the
  number of body bytes consumed.

  Part 1: the generic property layer (`decodeProps`, `unsubPropsLoop`).
  Part 2: per body decoder, then `decodeBody`.
  Part 3: the front-ends.
  Part 4: what validity promises about the fields (for C12).
-/
import Proofs.V3Accept
import Proofs.V5Compose
import Properties.C06V5
import Properties.C12V3

namespace Mqtt.V5
open Mqtt

/-! ## Part 1 — the property layer -/

theorem liftC_ok_inv {α : Type} {p : Parser Error α} {bs rest : Bytes} {a : α}
    (h : liftC p bs = .ok a rest) : p bs = .ok a rest := by
  rw [liftC_apply] at h
  cases hp : p bs with
  | ok a' r => rw [hp, Res.mapErr_ok] at h; cases h; rfl
  | more => rw [hp] at h; cases h
  | err e => rw [hp] at h; cases h
  | panic s => rw [hp] at h; cases h

theorem readU32_ok_length {ε : Type} {bs rest : Bytes} {v : UInt32}
    (h : readU32 (ε := ε) bs = .ok v rest) : bs.length = rest.length + 4 := by
  unfold readU32 at h
  split at h
  · cases h; simp only [List.length_cons]
  · cases h

theorem le_one_cases {v : UInt8} (h : ¬ v > 1) : v = 0 ∨ v = 1 := by
  have h1 : v.toNat ≤ 1 := by
    have : ¬ (1 : UInt8).toNat < v.toNat := fun e => h (UInt8.lt_iff_toNat_lt.mpr e)
    simpa using this
  rcases Nat.le_one_iff_eq_zero_or_eq_one.mp h1 with e | e
  · left; exact UInt8.toNat_inj.mp e
  · right; exact UInt8.toNat_inj.mp e

/-- One `decode_property!` arm: the identifier was not yet present, the value has the wire
type of the identifier and is in range, and its canonical size (identifier included) is at
most one more than the bytes the arm consumed (a subscription identifier may have been
spelled non-minimally). -/
theorem decodePropValue_ok_inv {id : UInt8} {k : PropKind} {ps : Props} {bs rest : Bytes}
    {v : PropVal} (h : decodePropValue id k ps bs = .ok v rest) :
    ps.get id = none ∧ (propKind id = some k → propValValid id v = true) ∧
    ∃ sz, propSize v = .ok sz ∧ rest.length + sz ≤ bs.length + 1 := by
  unfold decodePropValue at h
  split at h
  · cases h
  · rename_i hnone
    have hn : ps.get id = none := by simpa using hnone
    refine ⟨hn, ?_⟩
    cases k with
    | byte01 =>
      simp only at h
      obtain ⟨b, r1, h1, k1⟩ := Parser.bind_ok_inv h
      have l1 := readU8_ok_length (liftC_ok_inv h1)
      split at k1
      · cases k1
      · rename_i hle
        obtain ⟨rfl, rfl⟩ := Parser.pure_ok_inv k1
        refine ⟨fun hk => ?_, 2, rfl, by omega⟩
        simp only [propValValid, hk]
        exact decide_eq_true (UInt8.not_lt.mp hle)
    | qos01 =>
      simp only at h
      obtain ⟨b, r1, h1, k1⟩ := Parser.bind_ok_inv h
      have l1 := readU8_ok_length (liftC_ok_inv h1)
      split at k1
      · cases k1
      · rename_i hle
        cases hd : codeOfByte .qos b with
        | none => rw [hd] at k1; cases k1
        | some d =>
          rw [hd] at k1
          obtain ⟨rfl, rfl⟩ := Parser.pure_ok_inv k1
          refine ⟨fun hk => ?_, 2, rfl, by omega⟩
          simp only [propValValid, hk, codeOfByte_isVariant hd, Bool.and_true]
          rcases le_one_cases hle with rfl | rfl
          · have : d = 0 := by
              have e : codeOfByte .qos 0 = some 0 := by decide
              rw [e] at hd; cases hd; rfl
            subst this; decide
          · have : d = 1 := by
              have e : codeOfByte .qos 1 = some 1 := by decide
              rw [e] at hd; cases hd; rfl
            subst this; decide
    | u16 =>
      simp only at h
      obtain ⟨b, r1, h1, k1⟩ := Parser.bind_ok_inv h
      have l1 := readU16_ok_length (liftC_ok_inv h1)
      obtain ⟨rfl, rfl⟩ := Parser.pure_ok_inv k1
      refine ⟨fun hk => ?_, 3, rfl, by omega⟩
      simp only [propValValid, hk]
    | u32 =>
      simp only at h
      obtain ⟨b, r1, h1, k1⟩ := Parser.bind_ok_inv h
      have l1 := readU32_ok_length (liftC_ok_inv h1)
      obtain ⟨rfl, rfl⟩ := Parser.pure_ok_inv k1
      refine ⟨fun hk => ?_, 5, rfl, by omega⟩
      simp only [propValValid, hk]
    | str =>
      simp only at h
      obtain ⟨b, r1, h1, k1⟩ := Parser.bind_ok_inv h
      have l1 := readString_ok_length (liftC_ok_inv h1)
      have v1 := readString_ok_validText (liftC_ok_inv h1)
      obtain ⟨rfl, rfl⟩ := Parser.pure_ok_inv k1
      refine ⟨fun hk => ?_, _, rfl, by omega⟩
      simp only [propValValid, hk, v1]
    | topic =>
      simp only at h
      obtain ⟨b, r1, h1, k1⟩ := Parser.bind_ok_inv h
      have l1 := readString_ok_length (liftC_ok_inv h1)
      cases ht : topicNameTryFrom b with
      | error e => rw [ht] at k1; cases e <;> cases k1
      | ok t =>
        rw [ht] at k1
        obtain ⟨rfl, rfl⟩ := Parser.pure_ok_inv k1
        obtain ⟨rfl, hv⟩ := topicNameTryFrom_ok_valid ht
        refine ⟨fun hk => ?_, _, rfl, by omega⟩
        simp only [propValValid, hk, hv]
    | bin =>
      simp only at h
      obtain ⟨b, r1, h1, k1⟩ := Parser.bind_ok_inv h
      obtain ⟨l1, v1⟩ := readBytes_ok_length (liftC_ok_inv h1)
      obtain ⟨rfl, rfl⟩ := Parser.pure_ok_inv k1
      refine ⟨fun hk => ?_, _, rfl, by omega⟩
      simp only [propValValid, hk, (validBin_iff _).mpr v1]
    | varint =>
      simp only at h
      obtain ⟨⟨n, c⟩, r1, h1, k1⟩ := Parser.bind_ok_inv h
      obtain ⟨g1, g2, g3⟩ := decodeVarInt_ok_inv (liftC_ok_inv h1)
      simp only at k1
      split at k1
      · rename_i hlt
        obtain ⟨rfl, rfl⟩ := Parser.pure_ok_inv k1
        refine ⟨fun hk => ?_, 1 + Spec.varIntSize n, ?_, by omega⟩
        · simp only [propValValid, hk, hlt, decide_true]
        · simp only [propSize, varIntLen_closed, if_pos hlt]
      · rename_i hnlt; exact absurd g1 hnlt

/-- Canonical size of the body of a property section (what `encode_properties_len!`
computes when every value can be sized). -/
def Props.canonLen (allowed : List UInt8) (ps : Props) : Nat :=
  userSize ps.user + (allowed.flatMap ps.emit).length

/-- The loop invariant of `decode_properties!` on the accumulated set. -/
structure Props.Good (allowed : List UInt8) (ps : Props) : Prop where
  wf : Props.wf allowed ps
  vals : ∀ i v, ps.get i = some v → propValValid i v = true
  user : ∀ x ∈ ps.user, validText x.1 = true ∧ validText x.2 = true

theorem Props.Good.empty (allowed : List UInt8) : Props.Good allowed Props.empty :=
  ⟨fun _ _ => rfl, fun i v h => (by simp only [Props.empty] at h; cases h),
   fun x hx => (by simp only [Props.empty] at hx; cases hx)⟩

theorem Props.Good.set {allowed : List UInt8} {ps : Props} {id : UInt8} {v : PropVal}
    (hg : Props.Good allowed ps) (hmem : id ∈ allowed) (hv : propValValid id v = true) :
    Props.Good allowed (ps.set id v) := by
  refine ⟨fun i hi => ?_, fun i w h => ?_, hg.user⟩
  · have hne : i ≠ id := fun e => hi (e ▸ hmem)
    simp only [Props.set, hne, if_false]
    exact hg.wf i hi
  · simp only [Props.set] at h
    split at h
    · rename_i e; cases h; rw [e]; exact hv
    · exact hg.vals i w h

theorem Props.Good.pushUser {allowed : List UInt8} {ps : Props} (hg : Props.Good allowed ps)
    {n v : Bytes} (hn : validText n = true) (hv : validText v = true) :
    Props.Good allowed (ps.pushUser n v) := by
  refine ⟨hg.wf, hg.vals, fun x hx => ?_⟩
  simp only [Props.pushUser, List.mem_append, List.mem_singleton] at hx
  rcases hx with hx | rfl
  · exact hg.user x hx
  · exact ⟨hn, hv⟩

theorem Props.Good.valid {allowed : List UInt8} {ps : Props} (hg : Props.Good allowed ps) :
    Props.valid allowed ps = true := by
  simp only [Props.valid, Bool.and_eq_true, List.all_eq_true]
  refine ⟨fun i _ => ?_, fun x hx => ?_⟩
  · cases hgi : ps.get i with
    | none => rfl
    | some v => exact hg.vals i v hgi
  · obtain ⟨a, b⟩ := hg.user x hx
    simp [a, b]

theorem userSize_append_one (u : List (Bytes × Bytes)) (n v : Bytes) :
    userSize (u ++ [(n, v)]) = userSize u + (1 + 4 + n.length + v.length) := by
  simp only [userSize, List.length_append, List.map_append, List.sum_append, List.length_cons,
    List.length_nil, List.map_cons, List.map_nil, List.sum_cons, List.sum_nil]
  omega

theorem emit_set_length (ps : Props) (id : UInt8) (v : PropVal) (sz : Nat)
    (hnone : ps.get id = none) (hsz : propSize v = .ok sz) :
    ∀ l : List UInt8, l.Nodup →
      (l.flatMap (ps.set id v).emit).length =
        (l.flatMap ps.emit).length + (if id ∈ l then sz else 0) := by
  intro l
  induction l with
  | nil => intro _; rfl
  | cons j l ih =>
    intro hnd
    obtain ⟨hj, hnd'⟩ := List.nodup_cons.mp hnd
    simp only [List.flatMap_cons, List.length_append, ih hnd']
    by_cases e : j = id
    · subst e
      have e1 : (ps.set j v).emit j = encodeProp j v := by simp [Props.emit, Props.set]
      have e2 : ps.emit j = [] := by simp [Props.emit, hnone]
      rw [e1, e2, propSize_ok_length j v sz hsz]
      simp only [hj, if_false, List.mem_cons, true_or, if_true, List.length_nil]
      omega
    · have e1 : (ps.set id v).emit j = ps.emit j := by simp [Props.emit, Props.set, e]
      have e3 : (id ∈ j :: l) ↔ id ∈ l := by
        simp only [List.mem_cons]
        exact ⟨fun h => h.resolve_left (fun h' => e h'.symm), Or.inr⟩
      rw [e1]
      simp only [e3]
      omega

theorem Props.canonLen_set {allowed : List UInt8} {ps : Props} {id : UInt8} {v : PropVal} {sz : Nat}
    (hnd : allowed.Nodup) (hmem : id ∈ allowed) (hnone : ps.get id = none)
    (hsz : propSize v = .ok sz) :
    Props.canonLen allowed (ps.set id v) = Props.canonLen allowed ps + sz := by
  simp only [Props.canonLen, emit_set_length ps id v sz hnone hsz allowed hnd, hmem, if_true]
  show userSize ps.user + _ = _
  omega

theorem Props.canonLen_pushUser (allowed : List UInt8) (ps : Props) (n v : Bytes) :
    Props.canonLen allowed (ps.pushUser n v) =
      Props.canonLen allowed ps + (1 + 4 + n.length + v.length) := by
  have e : (ps.pushUser n v).emit = ps.emit := rfl
  simp only [Props.canonLen, e]
  show userSize (ps.user ++ [(n, v)]) + _ = _
  rw [userSize_append_one]
  omega

theorem Props.canonLen_empty (allowed : List UInt8) : Props.canonLen allowed Props.empty = 0 := by
  have : allowed.flatMap Props.empty.emit = [] := by
    induction allowed with
    | nil => rfl
    | cons i l ih => rw [List.flatMap_cons, ih]; rfl
  simp only [Props.canonLen, this]
  rfl

/-- The `decode_properties!` loop: what it returns is a good set whose canonical size is the
declared property length, and the loop consumed at least the part of it not yet accounted
for in `len`. -/
theorem decodePropsLoop_ok_inv (ctx : PropCtx) (allowed : List UInt8) (hnd : allowed.Nodup)
    (pl : Nat) :
    ∀ (fuel len : Nat) (acc : Props) (bs rest : Bytes) (ps : Props),
      decodePropsLoop ctx allowed pl fuel len acc bs = .ok ps rest →
      Props.Good allowed acc → len = Props.canonLen allowed acc →
      Props.Good allowed ps ∧ pl = Props.canonLen allowed ps ∧
        rest.length + pl ≤ bs.length + len := by
  intro fuel
  induction fuel with
  | zero => intro len acc bs rest ps h; rw [decodePropsLoop_zero] at h; cases h
  | succ fuel ih =>
    intro len acc bs rest ps h hg hl
    rw [V5.decodePropsLoop] at h
    split at h
    · obtain ⟨idb, r1, h1, k1⟩ := Parser.bind_ok_inv h
      have l1 := readU8_ok_length (liftC_ok_inv h1)
      cases hc : codeOfByte .propertyId idb with
      | none => rw [hc] at k1; cases k1
      | some id =>
        rw [hc] at k1
        simp only at k1
        split at k1
        · rename_i hcont
          have hmem : id ∈ allowed := List.contains_iff_mem.mp hcont
          cases hk : propKind id with
          | none => rw [hk] at k1; cases k1
          | some k =>
            rw [hk] at k1
            simp only at k1
            obtain ⟨v, r2, h2, k2⟩ := Parser.bind_ok_inv k1
            obtain ⟨hnone, hval, sz, hsz, l2⟩ := decodePropValue_ok_inv h2
            rw [hsz] at k2
            simp only at k2
            obtain ⟨g1, g2, g3⟩ := ih _ _ _ _ _ k2 (hg.set hmem (hval hk))
              (by rw [Props.canonLen_set hnd hmem hnone hsz, hl])
            exact ⟨g1, g2, by omega⟩
        · split at k1
          · obtain ⟨n, r2, h2, k2⟩ := Parser.bind_ok_inv k1
            obtain ⟨v, r3, h3, k3⟩ := Parser.bind_ok_inv k2
            have l2 := readString_ok_length (liftC_ok_inv h2)
            have l3 := readString_ok_length (liftC_ok_inv h3)
            have v2 := readString_ok_validText (liftC_ok_inv h2)
            have v3 := readString_ok_validText (liftC_ok_inv h3)
            obtain ⟨g1, g2, g3⟩ := ih _ _ _ _ _ k3 (hg.pushUser v2 v3)
              (by rw [Props.canonLen_pushUser, hl])
            exact ⟨g1, g2, by omega⟩
          · cases k1
    · split at h
      · cases h
      · rename_i hle hne
        obtain ⟨rfl, rfl⟩ := Parser.pure_ok_inv h
        exact ⟨hg, by omega, by omega⟩

theorem Props.encodeLen_of_good {allowed : List UInt8} {ps : Props} (hg : Props.Good allowed ps)
    (hlt : Props.canonLen allowed ps < 268435456) :
    ps.encodeLen allowed =
      .ok (Props.canonLen allowed ps + Spec.varIntSize (Props.canonLen allowed ps)) := by
  obtain ⟨n, hn⟩ : ∃ n, ps.bodyLen allowed = .ok n :=
    bodyLen_fold_ok ps allowed (fun i _ v hgi => propSize_ok_of_valid i v (hg.vals i v hgi)) _
  have e : n = Props.canonLen allowed ps := Props.bodyLen_eq hn
  subst e
  simp only [Props.encodeLen, hn, varIntLen_closed, if_pos hlt, bind, Except.bind, pure,
    Except.pure]

/-- `decode_properties!`: what it accepts is a valid property set of the struct, and its
canonical encoding is no longer than the bytes consumed. -/
theorem decodeProps_ok_inv {ctx : PropCtx} {allowed : List UInt8} (hnd : allowed.Nodup)
    {bs rest : Bytes} {ps : Props} (h : decodeProps ctx allowed bs = .ok ps rest) :
    Props.valid allowed ps = true ∧ Props.wf allowed ps ∧
    ∃ n, ps.encodeLen allowed = .ok n ∧ 1 ≤ n ∧ rest.length + n ≤ bs.length := by
  unfold decodeProps at h
  obtain ⟨⟨pl, c⟩, r1, h1, k1⟩ := Parser.bind_ok_inv h
  obtain ⟨g1, g2, g3⟩ := decodeVarInt_ok_inv (liftC_ok_inv h1)
  simp only at k1
  obtain ⟨hg, hpl, hcons⟩ := decodePropsLoop_ok_inv ctx allowed hnd pl _ _ _ _ _ _ k1
    (Props.Good.empty allowed) (Props.canonLen_empty allowed).symm
  refine ⟨hg.valid, hg.wf, _, Props.encodeLen_of_good hg (by omega), ?_, ?_⟩
  · have := varIntSize_pos (Props.canonLen allowed ps); omega
  · rw [← hpl]; omega

/-- The hand-written user-property loop of `Unsubscribe::decode_async`. -/
theorem unsubPropsLoop_ok_inv (typ : UInt8) (pl : Nat) :
    ∀ (fuel len : Nat) (acc : Props) (bs rest : Bytes) (ps : Props) (n : Nat),
      unsubPropsLoop typ pl fuel len acc bs = .ok (ps, n) rest →
      Props.Good unsubscribeProps acc → len = Props.canonLen unsubscribeProps acc →
      Props.Good unsubscribeProps ps ∧ n = pl ∧ pl = Props.canonLen unsubscribeProps ps ∧
        rest.length + pl ≤ bs.length + len := by
  intro fuel
  induction fuel with
  | zero => intro len acc bs rest ps n h; rw [unsubPropsLoop_zero] at h; cases h
  | succ fuel ih =>
    intro len acc bs rest ps n h hg hl
    rw [V5.unsubPropsLoop] at h
    split at h
    · obtain ⟨idb, r1, h1, k1⟩ := Parser.bind_ok_inv h
      have l1 := readU8_ok_length (liftC_ok_inv h1)
      cases hc : codeOfByte .propertyId idb with
      | none => rw [hc] at k1; cases k1
      | some id =>
        rw [hc] at k1
        simp only at k1
        split at k1
        · obtain ⟨nm, r2, h2, k2⟩ := Parser.bind_ok_inv k1
          obtain ⟨v, r3, h3, k3⟩ := Parser.bind_ok_inv k2
          have l2 := readString_ok_length (liftC_ok_inv h2)
          have l3 := readString_ok_length (liftC_ok_inv h3)
          have v2 := readString_ok_validText (liftC_ok_inv h2)
          have v3 := readString_ok_validText (liftC_ok_inv h3)
          obtain ⟨g1, g2, g3, g4⟩ := ih _ _ _ _ _ _ k3 (hg.pushUser v2 v3)
            (by rw [Props.canonLen_pushUser, hl])
          exact ⟨g1, g2, g3, by omega⟩
        · cases k1
    · split at h
      · cases h
      · rename_i hle hne
        obtain ⟨e1, rfl⟩ := Parser.pure_ok_inv h
        cases e1
        exact ⟨hg, by omega, by omega, by omega⟩

/-! ### small inversions used by the body decoders -/

theorem parseReason_ok_inv {k : Gen.CodeKind} {typ b d : UInt8} {bs rest : Bytes}
    (h : parseReason k typ b bs = .ok d rest) : isVariant k d = true ∧ rest = bs := by
  unfold parseReason at h
  cases hc : codeOfByte k b with
  | none => rw [hc] at h; cases h
  | some d' =>
    rw [hc] at h
    obtain ⟨rfl, rfl⟩ := Parser.pure_ok_inv h
    exact ⟨codeOfByte_isVariant hc, rfl⟩

theorem propsEncodeLenP_ok_inv {allowed : List UInt8} {ps : Props} {m : Nat} {bs rest : Bytes}
    (h : propsEncodeLenP allowed ps bs = .ok m rest) : ps.encodeLen allowed = .ok m ∧ rest = bs := by
  unfold propsEncodeLenP at h
  cases he : ps.encodeLen allowed with
  | error s => rw [he] at h; cases h
  | ok n =>
    rw [he] at h
    obtain ⟨rfl, rfl⟩ := Parser.pure_ok_inv h
    exact ⟨rfl, rfl⟩

/-- The default property set of any struct. -/
theorem Props.empty_facts (allowed : List UInt8) :
    Props.valid allowed Props.empty = true ∧ Props.wf allowed Props.empty ∧
    Props.empty.encodeLen allowed = .ok 1 ∧ Props.empty.isDefault allowed = true := by
  have hg := Props.Good.empty allowed
  refine ⟨hg.valid, hg.wf, ?_, Props.isDefault_empty allowed⟩
  rw [Props.encodeLen_of_good hg (by rw [Props.canonLen_empty]; omega), Props.canonLen_empty]
  rfl

theorem connectProps_nodup : connectProps.Nodup := by decide
theorem willProps_nodup : willProps.Nodup := by decide
theorem connackProps_nodup : connackProps.Nodup := by decide
theorem disconnectProps_nodup : disconnectProps.Nodup := by decide
theorem authProps_nodup : authProps.Nodup := by decide
theorem publishProps_nodup : publishProps.Nodup := by decide
theorem ackProps_nodup : ackProps.Nodup := by decide
theorem subscribeProps_nodup : subscribeProps.Nodup := by decide

theorem utf8_valid_nil : Utf8.valid ([] : Bytes) = true := (Utf8.valid_iff []).mpr ⟨[], rfl⟩

/-- `n` copies of the letter `a` are valid UTF-8 (for witnesses). -/
theorem utf8_valid_replicate_a (n : Nat) : Utf8.valid (List.replicate n 97) = true := by
  rw [Utf8.valid_iff]
  refine ⟨List.replicate n 'a', ?_⟩
  induction n with
  | zero => rfl
  | succ n ih =>
    rw [List.replicate_succ, List.replicate_succ]
    simp only [Utf8.encode, List.flatMap_cons] at ih ⊢
    rw [ih]
    rfl

theorem flatMap_emit_nil {ps : Props} (h : ∀ i, ps.get i = none) (l : List UInt8) :
    l.flatMap ps.emit = [] := by
  induction l with
  | nil => rfl
  | cons i l ih =>
    rw [List.flatMap_cons, ih]
    simp only [Props.emit, h i, List.append_nil]

/-! ## Part 2 — the v5 body decoders -/

theorem Connack.decode_ok_inv {h : Header} {bs rest : Bytes} {c : Connack}
    (hd : Connack.decode h bs = .ok c rest) :
    isVariant .connectReason c.reasonCode = true ∧
    Props.valid connackProps c.properties = true ∧ Props.wf connackProps c.properties ∧
    ∃ n, c.encodeLen = .ok n ∧ rest.length + n ≤ bs.length := by
  unfold Connack.decode at hd
  obtain ⟨payload, r1, h1, k1⟩ := Parser.bind_ok_inv hd
  obtain ⟨hl, hlen⟩ := take_ok_length' h1
  match payload, hlen, k1 with
  | [f, c0], _, k1 =>
    dsimp only at k1
    by_cases hf : f = 0 ∨ f = 1
    · rw [if_pos hf] at k1
      obtain ⟨code, r2, h2, k2⟩ := Parser.bind_ok_inv k1
      obtain ⟨ps, r3, h3, k3⟩ := Parser.bind_ok_inv k2
      obtain ⟨rfl, rfl⟩ := Parser.pure_ok_inv k3
      obtain ⟨hv, rfl⟩ := parseReason_ok_inv h2
      obtain ⟨pv, pw, n, pn, -, pl⟩ := decodeProps_ok_inv connackProps_nodup h3
      refine ⟨hv, pv, pw, 2 + n, ?_, by omega⟩
      simp only [Connack.encodeLen, pn, bind, Except.bind, pure, Except.pure]
    · rw [if_neg hf] at k1; cases k1

theorem Disconnect.encodeLen_le {d : Disconnect} {p : Nat}
    (hp : d.properties.encodeLen disconnectProps = .ok p) (h1 : 1 ≤ p) :
    ∃ n, d.encodeLen = .ok n ∧ n ≤ 1 + p := by
  unfold Disconnect.encodeLen
  split
  · split
    · exact ⟨0, rfl, by omega⟩
    · exact ⟨1, rfl, by omega⟩
  · exact ⟨1 + p, by simp only [hp, bind, Except.bind, pure, Except.pure], Nat.le_refl _⟩

theorem Disconnect.decode_ok_inv {h : Header} {bs rest : Bytes} {d : Disconnect}
    (hd : Disconnect.decode h bs = .ok d rest) :
    isVariant .disconnectReason d.reasonCode = true ∧
    Props.valid disconnectProps d.properties = true ∧ Props.wf disconnectProps d.properties ∧
    ∃ n, d.encodeLen = .ok n ∧ rest.length + n ≤ bs.length := by
  obtain ⟨ev, ew, el, ed⟩ := Props.empty_facts disconnectProps
  unfold Disconnect.decode at hd
  split at hd
  · obtain ⟨rfl, rfl⟩ := Parser.pure_ok_inv hd
    refine ⟨by decide, ev, ew, 0, ?_, by omega⟩
    simp only [Disconnect.encodeLen, ed, if_true, beq_self_eq_true]
    rfl
  · split at hd
    · obtain ⟨b, r1, h1, k1⟩ := Parser.bind_ok_inv hd
      obtain ⟨code, r2, h2, k2⟩ := Parser.bind_ok_inv k1
      obtain ⟨rfl, rfl⟩ := Parser.pure_ok_inv k2
      have l1 := readU8_ok_length (liftC_ok_inv h1)
      obtain ⟨hv, rfl⟩ := parseReason_ok_inv h2
      obtain ⟨n, hn, hle⟩ := Disconnect.encodeLen_le (d := ⟨code, Props.empty⟩) el (by omega)
      have : n ≤ 1 := by
        simp only [Disconnect.encodeLen, ed, if_true] at hn
        split at hn <;> cases hn <;> omega
      exact ⟨hv, ev, ew, n, hn, by omega⟩
    · obtain ⟨b, r1, h1, k1⟩ := Parser.bind_ok_inv hd
      obtain ⟨code, r2, h2, k2⟩ := Parser.bind_ok_inv k1
      obtain ⟨ps, r3, h3, k3⟩ := Parser.bind_ok_inv k2
      obtain ⟨rfl, rfl⟩ := Parser.pure_ok_inv k3
      have l1 := readU8_ok_length (liftC_ok_inv h1)
      obtain ⟨hv, rfl⟩ := parseReason_ok_inv h2
      obtain ⟨pv, pw, p, pn, p1, pl⟩ := decodeProps_ok_inv disconnectProps_nodup h3
      obtain ⟨n, hn, hle⟩ := Disconnect.encodeLen_le (d := ⟨code, ps⟩) pn p1
      exact ⟨hv, pv, pw, n, hn, by omega⟩

theorem Auth.encodeLen_le {a : Auth} {p : Nat}
    (hp : a.properties.encodeLen authProps = .ok p) :
    ∃ n, a.encodeLen = .ok n ∧ n ≤ 1 + p := by
  unfold Auth.encodeLen
  split
  · exact ⟨0, rfl, by omega⟩
  · exact ⟨1 + p, by simp only [hp, bind, Except.bind, pure, Except.pure], Nat.le_refl _⟩

theorem Auth.decode_ok_inv {h : Header} {bs rest : Bytes} {a : Auth}
    (hd : Auth.decode h bs = .ok a rest) :
    isVariant .authReason a.reasonCode = true ∧
    Props.valid authProps a.properties = true ∧ Props.wf authProps a.properties ∧
    ∃ n, a.encodeLen = .ok n ∧ rest.length + n ≤ bs.length := by
  obtain ⟨ev, ew, el, ed⟩ := Props.empty_facts authProps
  unfold Auth.decode at hd
  split at hd
  · obtain ⟨rfl, rfl⟩ := Parser.pure_ok_inv hd
    refine ⟨by decide, ev, ew, 0, ?_, by omega⟩
    simp only [Auth.encodeLen, ed, beq_self_eq_true, Bool.and_self, if_true]
    rfl
  · obtain ⟨b, r1, h1, k1⟩ := Parser.bind_ok_inv hd
    obtain ⟨code, r2, h2, k2⟩ := Parser.bind_ok_inv k1
    obtain ⟨ps, r3, h3, k3⟩ := Parser.bind_ok_inv k2
    obtain ⟨rfl, rfl⟩ := Parser.pure_ok_inv k3
    have l1 := readU8_ok_length (liftC_ok_inv h1)
    obtain ⟨hv, rfl⟩ := parseReason_ok_inv h2
    obtain ⟨pv, pw, p, pn, p1, pl⟩ := decodeProps_ok_inv authProps_nodup h3
    obtain ⟨n, hn, hle⟩ := Auth.encodeLen_le (a := ⟨code, ps⟩) pn
    exact ⟨hv, pv, pw, n, hn, by omega⟩

theorem Ack.encodeLen_le (k : Gen.CodeKind) {a : Ack} {p : Nat}
    (hp : a.properties.encodeLen ackProps = .ok p) (h1 : 1 ≤ p) :
    ∃ n, a.encodeLen k = .ok n ∧ 2 ≤ n ∧ n ≤ 3 + p ∧
      (a.properties.isDefault ackProps = true → n ≤ 3 ∧
        (a.reasonCode = Gen.defaultCode k → n = 2)) := by
  unfold Ack.encodeLen
  split
  · split
    · exact ⟨2, rfl, by omega, by omega, fun _ => ⟨by omega, fun _ => rfl⟩⟩
    · rename_i hne
      refine ⟨3, rfl, by omega, by omega, fun _ => ⟨by omega, fun e => ?_⟩⟩
      rw [e] at hne
      simp at hne
  · rename_i hnd
    refine ⟨3 + p, by simp only [hp, bind, Except.bind, pure, Except.pure], by omega,
      Nat.le_refl _, fun e => absurd e hnd⟩

/-- PUBACK/PUBREC/PUBREL/PUBCOMP (`k` = the reason-code enum, whose default must be one of
its variants). -/
theorem Ack.decode_ok_inv {k : Gen.CodeKind} (hk : isVariant k (Gen.defaultCode k) = true)
    {h : Header} {bs rest : Bytes} {a : Ack} (hd : Ack.decode k h bs = .ok a rest) :
    validPid a.pid = true ∧ isVariant k a.reasonCode = true ∧
    Props.valid ackProps a.properties = true ∧ Props.wf ackProps a.properties ∧
    ∃ n, a.encodeLen k = .ok n ∧ rest.length + n ≤ bs.length := by
  obtain ⟨ev, ew, el, ed⟩ := Props.empty_facts ackProps
  unfold Ack.decode at hd
  obtain ⟨pid, r0, h0, k0⟩ := Parser.bind_ok_inv hd
  obtain ⟨l0, hpid⟩ := readPid_ok_length (liftC_ok_inv h0)
  split at k0
  · obtain ⟨rfl, rfl⟩ := Parser.pure_ok_inv k0
    obtain ⟨n, hn, -, -, hdef⟩ := Ack.encodeLen_le k (a := ⟨pid, Gen.defaultCode k, Props.empty⟩) el
      (by omega)
    have := (hdef ed).2 rfl
    exact ⟨hpid, hk, ev, ew, n, hn, by omega⟩
  · split at k0
    · obtain ⟨b, r1, h1, k1⟩ := Parser.bind_ok_inv k0
      obtain ⟨code, r2, h2, k2⟩ := Parser.bind_ok_inv k1
      obtain ⟨rfl, rfl⟩ := Parser.pure_ok_inv k2
      have l1 := readU8_ok_length (liftC_ok_inv h1)
      obtain ⟨hv, rfl⟩ := parseReason_ok_inv h2
      obtain ⟨n, hn, -, -, hdef⟩ := Ack.encodeLen_le k (a := ⟨pid, code, Props.empty⟩) el (by omega)
      have := (hdef ed).1
      exact ⟨hpid, hv, ev, ew, n, hn, by omega⟩
    · obtain ⟨b, r1, h1, k1⟩ := Parser.bind_ok_inv k0
      obtain ⟨code, r2, h2, k2⟩ := Parser.bind_ok_inv k1
      obtain ⟨ps, r3, h3, k3⟩ := Parser.bind_ok_inv k2
      obtain ⟨rfl, rfl⟩ := Parser.pure_ok_inv k3
      have l1 := readU8_ok_length (liftC_ok_inv h1)
      obtain ⟨hv, rfl⟩ := parseReason_ok_inv h2
      obtain ⟨pv, pw, p, pn, p1, pl⟩ := decodeProps_ok_inv ackProps_nodup h3
      obtain ⟨n, hn, -, hle, -⟩ := Ack.encodeLen_le k (a := ⟨pid, code, ps⟩) pn p1
      exact ⟨hpid, hv, pv, pw, n, hn, by omega⟩

/-- The payload read of PUBLISH. -/
theorem Publish.payload_ok_inv {ps : Props} {rl : Nat} {bs rest payload : Bytes}
    (h : (if rl > 0 then do
        let data ← take rl
        if ps.get 0x01 == some (.byte 1) && !Utf8.valid data then
          Parser.fail .invalidPayloadFormat
        else pure data
      else pure [] : Parser ErrorV5 Bytes) bs = .ok payload rest) :
    payloadOk ps payload = true ∧ payload.length = rl ∧ bs.length = rest.length + rl := by
  split at h
  · obtain ⟨data, r1, h1, k1⟩ := Parser.bind_ok_inv h
    obtain ⟨l1, l2⟩ := take_ok_length' h1
    split at k1
    · cases k1
    · rename_i hbad
      obtain ⟨rfl, rfl⟩ := Parser.pure_ok_inv k1
      refine ⟨?_, l2, l1⟩
      unfold payloadOk
      revert hbad
      cases (ps.get 0x01 == some (PropVal.byte 1)) <;> cases (Utf8.valid payload) <;> simp
  · rename_i hz
    obtain ⟨rfl, rfl⟩ := Parser.pure_ok_inv h
    refine ⟨?_, by simp only [List.length_nil]; omega, by omega⟩
    simp only [payloadOk, utf8_valid_nil, Bool.or_true]

theorem Publish.decode_ok_inv {h : Header} {bs rest : Bytes} {p : Publish}
    (hd : Publish.decode h bs = .ok p rest) :
    validTopicName p.topicName = true ∧ QosPid.valid p.qosPid = true ∧
    Props.valid publishProps p.properties = true ∧ payloadOk p.properties p.payload = true ∧
    Props.wf publishProps p.properties ∧
    p.encodeLen = .ok h.remainingLen ∧ rest.length + h.remainingLen ≤ bs.length := by
  unfold Publish.decode at hd
  obtain ⟨topic, r1, h1, k1⟩ := Parser.bind_ok_inv hd
  obtain ⟨rl, r2, h2, k2⟩ := Parser.bind_ok_inv k1
  obtain ⟨⟨qp, rl'⟩, r3, h3, k3⟩ := Parser.bind_ok_inv k2
  dsimp only at k3
  obtain ⟨ps, r4, h4, k4⟩ := Parser.bind_ok_inv k3
  obtain ⟨plen, r5, h5, k5⟩ := Parser.bind_ok_inv k4
  obtain ⟨rl'', r6, h6, k6⟩ := Parser.bind_ok_inv k5
  obtain ⟨payload, r7, h7, k7⟩ := Parser.bind_ok_inv k6
  obtain ⟨tn, r8, h8, k8⟩ := Parser.bind_ok_inv k7
  obtain ⟨hp, hr⟩ := Parser.pure_ok_inv k8
  clear hd k1 k2 k3 k4 k5 k6 k7 k8
  have l1 := readString_ok_length (liftC_ok_inv h1)
  obtain ⟨l2a, l2b, l2c⟩ := checkedSub_ok_inv h2
  obtain ⟨pv, pw, n, pn, -, pl⟩ := decodeProps_ok_inv publishProps_nodup h4
  obtain ⟨h5', l5⟩ := propsEncodeLenP_ok_inv h5
  obtain ⟨l6a, l6b, l6c⟩ := checkedSub_ok_inv h6
  obtain ⟨hpay, l7a, l7b⟩ := Publish.payload_ok_inv h7
  obtain ⟨h8', l8⟩ := liftExcept_ok_inv h8
  have h8'' : topicNameTryFrom topic = .ok tn := by
    cases ht : topicNameTryFrom topic with
    | ok t => rw [ht] at h8'; simp only [Except.mapError] at h8'; cases h8'; rfl
    | error e => rw [ht] at h8'; simp only [Except.mapError] at h8'; cases h8'
  obtain ⟨htn, hname⟩ := topicNameTryFrom_ok_valid h8''
  rw [pn] at h5'
  cases h5'
  clear h1 h2 h4 h5 h6 h7 h8
  subst hp hr l8 l2c htn l5 l6c l6b
  have pidCase : ∀ {rl0 : Nat} {mk : Pid → QosPid} {r2 r3 : Bytes} {qp : QosPid} {rl' : Nat},
      (do let rl ← checkedSub rl0 2 (ErrorV5.common .invalidRemainingLength)
          let pid ← liftC readPid
          pure (mk pid, rl) : Parser ErrorV5 (QosPid × Nat)) r2 = .ok (qp, rl') r3 →
      ∃ pid, qp = mk pid ∧ validPid pid = true ∧ 2 ≤ rl0 ∧ rl' = rl0 - 2 ∧
        r2.length = r3.length + 2 := by
    intro rl0 mk r2 r3 qp rl' hh
    obtain ⟨rl2, r2', g1, g2⟩ := Parser.bind_ok_inv hh
    obtain ⟨pid, r2'', g3, g4⟩ := Parser.bind_ok_inv g2
    obtain ⟨e, e2⟩ := Parser.pure_ok_inv g4
    obtain ⟨m1, m2, m3⟩ := checkedSub_ok_inv g1
    obtain ⟨m4, m5⟩ := readPid_ok_length (liftC_ok_inv g3)
    cases e; subst e2 m3
    exact ⟨pid, rfl, m5, m1, m2, m4⟩
  simp only [Publish.encodeLen, pn, bind, Except.bind, pure, Except.pure]
  split at h3
  · obtain ⟨e, e2⟩ := Parser.pure_ok_inv h3
    cases e; subst e2
    refine ⟨hname, rfl, pv, hpay, pw, ?_, by omega⟩
    dsimp only; congr 1; omega
  · split at h3
    · obtain ⟨pid, rfl, hv, q1, q2, q3⟩ := pidCase h3
      refine ⟨hname, hv, pv, hpay, pw, ?_, by omega⟩
      dsimp only; congr 1; omega
    · split at h3
      · obtain ⟨pid, rfl, hv, q1, q2, q3⟩ := pidCase h3
        refine ⟨hname, hv, pv, hpay, pw, ?_, by omega⟩
        dsimp only; congr 1; omega
      · cases h3

theorem tfParser_ok_inv {debug : Bool} {s bs rest : Bytes} {f : Topic.TopicFilter}
    (h : tfParser debug s bs = .ok f rest) :
    rest = bs ∧ f.text = s ∧ validTopicFilter f = true :=
  V3.tfParser_ok_inv (liftC_ok_inv h)

theorem decodeSubOpts_ok_valid {b : UInt8} {o : SubOpts} (h : decodeSubOpts b = .ok o) :
    o.valid = true := by
  unfold decodeSubOpts at h
  split at h
  · cases h
  · cases hq : codeOfByte .qos (b &&& 0b11) with
    | none => rw [hq] at h; cases h
    | some q =>
      rw [hq] at h
      simp only at h
      cases hr : codeOfByte .retainHandling ((b &&& 0b110000) >>> 4) with
      | none => rw [hr] at h; cases h
      | some rh =>
        rw [hr] at h
        cases h
        simp only [SubOpts.valid, codeOfByte_isVariant hq, codeOfByte_isVariant hr, Bool.and_self]

/-- The SUBSCRIBE topic loop. -/
theorem subscribeLoop_ok_inv (debug : Bool) :
    ∀ (rl : Nat) (acc : List (Topic.TopicFilter × SubOpts)) (bs rest : Bytes)
      (res : List (Topic.TopicFilter × SubOpts)),
      subscribeLoop debug rl acc bs = .ok res rest →
      ∃ ts, res = acc ++ ts ∧
        (∀ x ∈ ts, validTopicFilter x.1 = true ∧ x.2.valid = true) ∧
        (ts.map (fun (f, _) => 3 + f.text.length)).sum = rl ∧
        bs.length = rest.length + rl := by
  intro rl
  induction rl using Nat.strongRecOn with
  | _ rl ih =>
    intro acc bs rest res h
    rw [subscribeLoop_eq] at h
    split at h
    · rename_i hpos
      obtain ⟨s, r1, h1, k1⟩ := Parser.bind_ok_inv h
      obtain ⟨f, r2, h2, k2⟩ := Parser.bind_ok_inv k1
      obtain ⟨ob, r3, h3, k3⟩ := Parser.bind_ok_inv k2
      obtain ⟨o, r4, h4, k4⟩ := Parser.bind_ok_inv k3
      clear h k1 k2 k3
      have l1 := readString_ok_length (liftC_ok_inv h1)
      obtain ⟨e2, ht, hf⟩ := tfParser_ok_inv h2
      have l3 := readU8_ok_length (liftC_ok_inv h3)
      obtain ⟨ho, e4⟩ := liftExcept_ok_inv h4
      have hov := decodeSubOpts_ok_valid ho
      subst e2 e4
      split at k4
      · rename_i hle
        obtain ⟨ts, g1, g2, g3, g4⟩ := ih _ (by omega) _ _ _ _ k4
        refine ⟨(f, o) :: ts, by rw [g1]; simp, ?_, ?_, ?_⟩
        · intro x hx
          rcases List.mem_cons.mp hx with rfl | hx
          · exact ⟨hf, hov⟩
          · exact g2 x hx
        · simp only [List.map_cons, List.sum_cons, g3]; omega
        · rw [ht] at hle g4; omega
      · cases k4
    · rename_i hz
      obtain ⟨e1, e2⟩ := Parser.pure_ok_inv (ε := ErrorV5) h
      exact ⟨[], by simp [e1], by simp, by simp; omega, by rw [e2]; omega⟩

theorem Subscribe.decode_ok_inv {debug : Bool} {h : Header} {bs rest : Bytes} {s : Subscribe}
    (hd : Subscribe.decode debug h bs = .ok s rest) :
    validPid s.pid = true ∧ Props.valid subscribeProps s.properties = true ∧
    Props.wf subscribeProps s.properties ∧ s.topics.isEmpty = false ∧
    s.topics.all (fun (f, o) => validTopicFilter f && o.valid) = true ∧
    s.encodeLen = .ok h.remainingLen ∧ rest.length + h.remainingLen ≤ bs.length := by
  unfold Subscribe.decode at hd
  obtain ⟨pid, r1, h1, k1⟩ := Parser.bind_ok_inv hd
  obtain ⟨ps, r2, h2, k2⟩ := Parser.bind_ok_inv k1
  obtain ⟨plen, r3, h3, k3⟩ := Parser.bind_ok_inv k2
  obtain ⟨rl, r4, h4, k4⟩ := Parser.bind_ok_inv k3
  clear hd k1 k2 k3
  obtain ⟨l1, hp⟩ := readPid_ok_length (liftC_ok_inv h1)
  obtain ⟨pv, pw, n, pn, -, pl⟩ := decodeProps_ok_inv subscribeProps_nodup h2
  obtain ⟨h3', l3⟩ := propsEncodeLenP_ok_inv h3
  obtain ⟨l4a, l4b, l4c⟩ := checkedSub_ok_inv h4
  rw [pn] at h3'
  cases h3'
  subst l3 l4c l4b
  split at k4
  · cases k4
  · rename_i hne
    obtain ⟨topics, r5, h5, k5⟩ := Parser.bind_ok_inv k4
    obtain ⟨e1, e2⟩ := Parser.pure_ok_inv k5
    subst e1 e2
    obtain ⟨ts, g1, g2, g3, g4⟩ := subscribeLoop_ok_inv debug _ _ _ _ _ h5
    rw [List.nil_append] at g1
    subst g1
    refine ⟨hp, pv, pw, ?_, ?_, ?_, by omega⟩
    · cases topics with
      | nil => simp at g3; omega
      | cons x xs => rfl
    · rw [List.all_eq_true]
      intro x hx
      obtain ⟨a, b⟩ := g2 x hx
      simp [a, b]
    · simp only [Subscribe.encodeLen, pn, bind, Except.bind, pure, Except.pure, g3]
      congr 1; omega

/-- The reason-code loop of SUBACK / UNSUBACK. -/
theorem codesLoop_ok_inv (k : Gen.CodeKind) (typ : UInt8) :
    ∀ (rl : Nat) (acc : List UInt8) (bs rest : Bytes) (res : List UInt8),
      codesLoop k typ rl acc bs = .ok res rest →
      ∃ ts, res = acc ++ ts ∧ (∀ x ∈ ts, isVariant k x = true) ∧
        ts.length = rl ∧ bs.length = rest.length + rl := by
  intro rl
  induction rl with
  | zero =>
    intro acc bs rest res h
    rw [codesLoop_zero] at h
    obtain ⟨e1, e2⟩ := Parser.pure_ok_inv (ε := ErrorV5) h
    exact ⟨[], by simp [e1], by simp, rfl, by rw [e2]; omega⟩
  | succ rl ih =>
    intro acc bs rest res h
    rw [codesLoop_succ] at h
    obtain ⟨v, r1, h1, k1⟩ := Parser.bind_ok_inv h
    have l1 := readU8_ok_length (liftC_ok_inv h1)
    cases hc : codeOfByte k v with
    | none => rw [hc] at k1; cases k1
    | some d =>
      rw [hc] at k1
      obtain ⟨ts, g1, g2, g3, g4⟩ := ih _ _ _ _ k1
      refine ⟨d :: ts, by rw [g1]; simp, ?_, by simp [g3], by omega⟩
      intro x hx
      rcases List.mem_cons.mp hx with rfl | hx
      · exact codeOfByte_isVariant hc
      · exact g2 x hx

theorem CodesAck.decode_ok_inv {k : Gen.CodeKind} {h : Header} {bs rest : Bytes} {s : CodesAck}
    (hd : CodesAck.decode k h bs = .ok s rest) :
    validPid s.pid = true ∧ Props.valid ackProps s.properties = true ∧
    Props.wf ackProps s.properties ∧ s.topics.all (isVariant k) = true ∧
    s.encodeLen = .ok h.remainingLen ∧ rest.length + h.remainingLen ≤ bs.length := by
  unfold CodesAck.decode at hd
  obtain ⟨pid, r1, h1, k1⟩ := Parser.bind_ok_inv hd
  obtain ⟨ps, r2, h2, k2⟩ := Parser.bind_ok_inv k1
  obtain ⟨plen, r3, h3, k3⟩ := Parser.bind_ok_inv k2
  obtain ⟨rl, r4, h4, k4⟩ := Parser.bind_ok_inv k3
  obtain ⟨topics, r5, h5, k5⟩ := Parser.bind_ok_inv k4
  obtain ⟨e1, e2⟩ := Parser.pure_ok_inv k5
  clear hd k1 k2 k3 k4 k5
  obtain ⟨l1, hp⟩ := readPid_ok_length (liftC_ok_inv h1)
  obtain ⟨pv, pw, n, pn, -, pl⟩ := decodeProps_ok_inv ackProps_nodup h2
  obtain ⟨h3', l3⟩ := propsEncodeLenP_ok_inv h3
  obtain ⟨l4a, l4b, l4c⟩ := checkedSub_ok_inv h4
  rw [pn] at h3'
  cases h3'
  subst l3 l4c l4b e1 e2
  obtain ⟨ts, g1, g2, g3, g4⟩ := codesLoop_ok_inv _ _ _ _ _ _ _ h5
  rw [List.nil_append] at g1
  subst g1
  refine ⟨hp, pv, pw, ?_, ?_, by omega⟩
  · rw [List.all_eq_true]; exact g2
  · simp only [CodesAck.encodeLen, pn, bind, Except.bind, pure, Except.pure, g3]
    congr 1; omega

/-- The UNSUBSCRIBE topic loop. -/
theorem unsubscribeLoop_ok_inv (debug : Bool) :
    ∀ (rl : Nat) (acc : List Topic.TopicFilter) (bs rest : Bytes) (res : List Topic.TopicFilter),
      unsubscribeLoop debug rl acc bs = .ok res rest →
      ∃ ts, res = acc ++ ts ∧ (∀ x ∈ ts, validTopicFilter x = true) ∧
        (ts.map (fun f => 2 + f.text.length)).sum = rl ∧
        bs.length = rest.length + rl := by
  intro rl
  induction rl using Nat.strongRecOn with
  | _ rl ih =>
    intro acc bs rest res h
    rw [unsubscribeLoop_eq] at h
    split at h
    · rename_i hpos
      obtain ⟨s, r1, h1, k1⟩ := Parser.bind_ok_inv h
      obtain ⟨f, r2, h2, k2⟩ := Parser.bind_ok_inv k1
      clear h k1
      have l1 := readString_ok_length (liftC_ok_inv h1)
      obtain ⟨e2, ht, hf⟩ := tfParser_ok_inv h2
      subst e2
      split at k2
      · rename_i hle
        obtain ⟨ts, g1, g2, g3, g4⟩ := ih _ (by omega) _ _ _ _ k2
        refine ⟨f :: ts, by rw [g1]; simp, ?_, ?_, ?_⟩
        · intro x hx
          rcases List.mem_cons.mp hx with rfl | hx
          · exact hf
          · exact g2 x hx
        · simp only [List.map_cons, List.sum_cons, g3]; omega
        · rw [ht] at hle g4; omega
      · cases k2
    · rename_i hz
      obtain ⟨e1, e2⟩ := Parser.pure_ok_inv (ε := ErrorV5) h
      exact ⟨[], by simp [e1], by simp, by simp; omega, by rw [e2]; omega⟩

theorem Unsubscribe.decode_ok_inv {debug : Bool} {h : Header} {bs rest : Bytes} {u : Unsubscribe}
    (hd : Unsubscribe.decode debug h bs = .ok u rest) :
    validPid u.pid = true ∧ Props.valid unsubscribeProps u.properties = true ∧
    Props.wf unsubscribeProps u.properties ∧ u.topics.isEmpty = false ∧
    u.topics.all validTopicFilter = true ∧
    ∃ n, u.encodeLen = .ok n ∧ n ≤ h.remainingLen ∧ rest.length + h.remainingLen ≤ bs.length := by
  unfold Unsubscribe.decode at hd
  obtain ⟨pid, r1, h1, k1⟩ := Parser.bind_ok_inv hd
  obtain ⟨⟨pl, lenBytes⟩, r2, h2, k2⟩ := Parser.bind_ok_inv k1
  dsimp only at k2
  obtain ⟨⟨ps, len⟩, r3, h3, k3⟩ := Parser.bind_ok_inv k2
  dsimp only at k3
  obtain ⟨rl, r4, h4, k4⟩ := Parser.bind_ok_inv k3
  clear hd k1 k2 k3
  obtain ⟨l1, hp⟩ := readPid_ok_length (liftC_ok_inv h1)
  obtain ⟨v1, v2, v3⟩ := decodeVarInt_ok_inv (liftC_ok_inv h2)
  obtain ⟨hg, e3, hpl, l3⟩ := unsubPropsLoop_ok_inv _ _ _ _ _ _ _ _ _ h3
    (Props.Good.empty _) (Props.canonLen_empty _).symm
  obtain ⟨l4a, l4b, l4c⟩ := checkedSub_ok_inv h4
  subst e3 l4c l4b
  have pn := Props.encodeLen_of_good hg (by omega)
  rw [← hpl] at pn
  split at k4
  · cases k4
  · rename_i hne
    obtain ⟨topics, r5, h5, k5⟩ := Parser.bind_ok_inv k4
    obtain ⟨e1, e2⟩ := Parser.pure_ok_inv k5
    subst e1 e2
    obtain ⟨ts, g1, g2, g3, g4⟩ := unsubscribeLoop_ok_inv debug _ _ _ _ _ h5
    rw [List.nil_append] at g1
    subst g1
    refine ⟨hp, hg.valid, hg.wf, ?_, ?_,
      2 + (len + Spec.varIntSize len) + (topics.map (fun f => 2 + f.text.length)).sum,
      ?_, ?_, by omega⟩
    · cases topics with
      | nil => simp at g3; omega
      | cons x xs => rfl
    · rw [List.all_eq_true]; exact g2
    · simp only [Unsubscribe.encodeLen, pn, bind, Except.bind, pure, Except.pure]
    · rw [g3]; omega

theorem mapError_ok_inv {ε ε' α : Type} {f : ε → ε'} {x : Except ε α} {a : α}
    (h : x.mapError f = .ok a) : x = .ok a := by
  cases x with
  | ok b => simp only [Except.mapError] at h; cases h; rfl
  | error e => simp only [Except.mapError] at h; cases h

theorem LastWill.decode_ok_inv {qos : UInt8} {retain : Bool} {bs rest : Bytes} {w : LastWill}
    (hd : LastWill.decode qos retain bs = .ok w rest) :
    w.qos = qos ∧ validTopicName w.topicName = true ∧ validBin w.payload = true ∧
    Props.valid willProps w.properties = true ∧ payloadOk w.properties w.payload = true ∧
    Props.wf willProps w.properties ∧
    ∃ n, w.encodeLen = .ok n ∧ rest.length + n ≤ bs.length := by
  unfold LastWill.decode at hd
  obtain ⟨ps, r1, h1, k1⟩ := Parser.bind_ok_inv hd
  obtain ⟨topic, r2, h2, k2⟩ := Parser.bind_ok_inv k1
  obtain ⟨tn, r3, h3, k3⟩ := Parser.bind_ok_inv k2
  obtain ⟨payload, r4, h4, k4⟩ := Parser.bind_ok_inv k3
  clear hd k1 k2 k3
  obtain ⟨pv, pw, n, pn, -, pl⟩ := decodeProps_ok_inv willProps_nodup h1
  have l2 := readString_ok_length (liftC_ok_inv h2)
  obtain ⟨h3', l3⟩ := liftExcept_ok_inv h3
  obtain ⟨htn, hname⟩ := topicNameTryFrom_ok_valid (mapError_ok_inv h3')
  obtain ⟨l4, v4⟩ := readBytes_ok_length (liftC_ok_inv h4)
  subst l3 htn
  split at k4
  · cases k4
  · rename_i hbad
    obtain ⟨rfl, rfl⟩ := Parser.pure_ok_inv k4
    refine ⟨rfl, hname, (validBin_iff _).mpr v4, pv, ?_, pw, n + 4 + tn.length + payload.length,
      ?_, by omega⟩
    · show payloadOk ps payload = true
      unfold payloadOk
      revert hbad
      cases (ps.get 0x01 == some (PropVal.byte 1)) <;> cases (Utf8.valid payload) <;> simp
    · simp only [LastWill.encodeLen, pn, bind, Except.bind, pure, Except.pure]

theorem Connect.will_ok_inv {flags : UInt8} {r3 r4 : Bytes} {lastWill : Option LastWill}
    (h4 : (if flags &&& 0b100 != 0 then do
          let qos ← liftExcept ((qosFromU8 ((flags &&& 0b11000) >>> 3)).mapError ErrorV5.common)
          let retain := (flags &&& 0b00100000) != 0
          let w ← LastWill.decode qos retain
          pure (some w)
        else if flags &&& 0b11000 != 0 then Parser.fail (.common (.invalidConnectFlags flags))
        else pure none : Parser ErrorV5 (Option LastWill)) r3 = .ok lastWill r4) :
    (lastWill = none ∧ r4 = r3) ∨
    (∃ w n, lastWill = some w ∧ w.valid = true ∧ Props.wf willProps w.properties ∧
      w.encodeLen = .ok n ∧ r4.length + n ≤ r3.length) := by
  split at h4
  · obtain ⟨qos, s1, g1, j1⟩ := Parser.bind_ok_inv h4
    dsimp only at j1
    obtain ⟨w, s2, g2, j2⟩ := Parser.bind_ok_inv j1
    obtain ⟨f1, f2⟩ := Parser.pure_ok_inv j2
    obtain ⟨g1', f3⟩ := liftExcept_ok_inv g1
    have hq := qosFromU8_ok_isVariant (mapError_ok_inv g1')
    obtain ⟨wq, wn, wb, wp, wpay, wwf, n, wl, wc⟩ := LastWill.decode_ok_inv g2
    subst f1 f2 f3
    refine .inr ⟨w, n, rfl, ?_, wwf, wl, wc⟩
    simp only [LastWill.valid, wq, hq, wn, wb, wp, wpay, Bool.and_self]
  · split at h4
    · cases h4
    · obtain ⟨f1, f2⟩ := Parser.pure_ok_inv h4
      exact .inl ⟨f1, f2⟩

theorem Connect.username_ok_inv {c : Prop} [Decidable c] {r4 r5 : Bytes} {username : Option Bytes}
    (h5 : (if c then do let u ← liftC readString; pure (some u)
        else pure none : Parser ErrorV5 (Option Bytes)) r4 = .ok username r5) :
    V3.optValid validText username = true ∧
    r4.length = r5.length + V3.optLen (fun u => 2 + u.length) username := by
  split at h5
  · obtain ⟨u, s1, g1, j1⟩ := Parser.bind_ok_inv h5
    obtain ⟨f1, f2⟩ := Parser.pure_ok_inv j1
    subst f1 f2
    exact ⟨readString_ok_validText (liftC_ok_inv g1), readString_ok_length (liftC_ok_inv g1)⟩
  · obtain ⟨f1, f2⟩ := Parser.pure_ok_inv h5
    subst f1 f2
    exact ⟨rfl, rfl⟩

theorem Connect.password_ok_inv {c : Prop} [Decidable c] {r5 r6 : Bytes} {password : Option Bytes}
    (h6 : (if c then do let p ← liftC readBytes; pure (some p)
        else pure none : Parser ErrorV5 (Option Bytes)) r5 = .ok password r6) :
    V3.optValid validBin password = true ∧
    r5.length = r6.length + V3.optLen (fun u => 2 + u.length) password := by
  split at h6
  · obtain ⟨u, s1, g1, j1⟩ := Parser.bind_ok_inv h6
    obtain ⟨f1, f2⟩ := Parser.pure_ok_inv j1
    subst f1 f2
    exact ⟨(validBin_iff _).mpr (readBytes_ok_length (liftC_ok_inv g1)).2,
      (readBytes_ok_length (liftC_ok_inv g1)).1⟩
  · obtain ⟨f1, f2⟩ := Parser.pure_ok_inv h6
    subst f1 f2
    exact ⟨rfl, rfl⟩

theorem Connect.decodeWithProtocol_ok_inv {h : Header} {proto : Protocol} {bs rest : Bytes}
    {c : Connect} (hd : Connect.decodeWithProtocol h proto bs = .ok c rest) :
    (Packet.connect c).valid = true ∧ (Packet.connect c).wf ∧
    ∃ n, c.encodeLen = .ok n ∧ rest.length + n ≤ bs.length + proto.encodeLen := by
  unfold Connect.decodeWithProtocol at hd
  split at hd
  · cases hd
  · rename_i hlevel
    obtain ⟨flags, r1, h1, k1⟩ := Parser.bind_ok_inv hd
    split at k1
    · cases k1
    · obtain ⟨keepAlive, r2, h2, k2⟩ := Parser.bind_ok_inv k1
      obtain ⟨ps, r2', h2', k2'⟩ := Parser.bind_ok_inv k2
      obtain ⟨clientId, r3, h3, k3⟩ := Parser.bind_ok_inv k2'
      obtain ⟨lastWill, r4, h4, k4⟩ := Parser.bind_ok_inv k3
      obtain ⟨username, r5, h5, k5⟩ := Parser.bind_ok_inv k4
      obtain ⟨password, r6, h6, k6⟩ := Parser.bind_ok_inv k5
      dsimp only at k6
      obtain ⟨e1, e2⟩ := Parser.pure_ok_inv k6
      clear hd k1 k2 k2' k3 k4 k5 k6
      have l1 := readU8_ok_length (liftC_ok_inv h1)
      have l2 := readU16_ok_length (liftC_ok_inv h2)
      obtain ⟨pv, pw, n, pn, -, pl⟩ := decodeProps_ok_inv connectProps_nodup h2'
      have l3 := readString_ok_length (liftC_ok_inv h3)
      have v3 := readString_ok_validText (liftC_ok_inv h3)
      have hw := Connect.will_ok_inv h4
      obtain ⟨hu1, hu2⟩ := Connect.username_ok_inv h5
      obtain ⟨hp1, hp2⟩ := Connect.password_ok_inv h6
      clear h1 h2 h2' h3 h4 h5 h6
      subst e1 e2
      have hproto : proto = Protocol.v500 := by
        cases proto
        · exact absurd (by decide) hlevel
        · exact absurd (by decide) hlevel
        · rfl
      subst hproto
      rcases hw with ⟨rfl, rfl⟩ | ⟨w, m, rfl, wv, wwf, wl, wc⟩
      · refine ⟨?_, ⟨pw, trivial⟩, ?_⟩
        · cases username <;> cases password <;>
            simp only [V3.optValid] at hu1 hp1 <;>
            simp only [Packet.valid, v3, pv, hu1, hp1, beq_self_eq_true, Bool.and_self]
        · cases username <;> cases password <;>
            simp only [V3.optLen] at hu2 hp2 <;>
            simp only [Connect.encodeLen, pn, bind, Except.bind, pure, Except.pure,
              Protocol.encodeLen] <;>
            exact ⟨_, rfl, by omega⟩
      · refine ⟨?_, ⟨pw, wwf⟩, ?_⟩
        · cases username <;> cases password <;>
            simp only [V3.optValid] at hu1 hp1 <;>
            simp only [Packet.valid, v3, pv, wv, hu1, hp1, beq_self_eq_true, Bool.and_self]
        · cases username <;> cases password <;>
            simp only [V3.optLen] at hu2 hp2 <;>
            simp only [Connect.encodeLen, pn, wl, bind, Except.bind, pure, Except.pure,
              Protocol.encodeLen] <;>
            exact ⟨_, rfl, by omega⟩

theorem Connect.decode_ok_inv {h : Header} {bs rest : Bytes} {c : Connect}
    (hd : Connect.decode h bs = .ok c rest) :
    (Packet.connect c).valid = true ∧ (Packet.connect c).wf ∧
    ∃ n, c.encodeLen = .ok n ∧ rest.length + n ≤ bs.length := by
  unfold Connect.decode at hd
  obtain ⟨proto, r1, h1, k1⟩ := Parser.bind_ok_inv hd
  have l1 := V3.Protocol.decode_ok_inv (liftC_ok_inv h1)
  obtain ⟨hv, hw, n, hn, hl⟩ := Connect.decodeWithProtocol_ok_inv k1
  exact ⟨hv, hw, n, hn, by omega⟩

/-- `encode_len()` of the body of `p` (0 for the packets without a body). -/
def Packet.bodyLen (p : Packet) : PanicOr Nat :=
  match p.parts with
  | none => .ok 0
  | some (_, len, _) => len

/-- The packet types whose body the decoders tie to the fixed header's remaining length
(all the others are read as self-delimiting by the lenient front-ends). -/
def Packet.tied : Packet → Bool
  | .publish _ | .subscribe _ | .suback _ | .unsubscribe _ | .unsuback _
  | .pingreq | .pingresp => true
  | _ => false

/-- The body dispatch: whatever it accepts is valid, confined to its property structs, and
its canonical body is no longer than the bytes consumed; for the `tied` types it is also no
longer than the header's remaining length. -/
theorem decodeBody_ok_inv {debug : Bool} {h : Header} {bs rest : Bytes} {p : Packet}
    (hd : decodeBody debug h bs = .ok p rest) :
    p.valid = true ∧ p.wf ∧
    ∃ n, p.bodyLen = .ok n ∧ rest.length + n ≤ bs.length ∧
      (p.tied = true → n ≤ h.remainingLen) := by
  have ackCase : ∀ (k : Gen.CodeKind) (mk : Ack → Packet),
      isVariant k (Gen.defaultCode k) = true →
      (∀ a, (mk a).valid =
        (validPid a.pid && isVariant k a.reasonCode && Props.valid ackProps a.properties)) →
      (∀ a, (mk a).wf = Props.wf ackProps a.properties) →
      (∀ a, (mk a).bodyLen = a.encodeLen k) → (∀ a, (mk a).tied = false) →
      (Ack.decode k h >>= fun a => pure (mk a) : Parser ErrorV5 Packet) bs = .ok p rest →
      p.valid = true ∧ p.wf ∧
      ∃ n, p.bodyLen = .ok n ∧ rest.length + n ≤ bs.length ∧
        (p.tied = true → n ≤ h.remainingLen) := by
    intro k mk hk hv hw hb ht hh
    obtain ⟨a, r1, h1, k1⟩ := Parser.bind_ok_inv hh
    obtain ⟨e1, e2⟩ := Parser.pure_ok_inv k1
    obtain ⟨v1, v2, v3, v4, n, hn, hl⟩ := Ack.decode_ok_inv hk h1
    subst e1 e2
    refine ⟨?_, ?_, n, ?_, hl, fun e => ?_⟩
    · rw [hv, v1, v2, v3]; rfl
    · rw [hw]; exact v4
    · rw [hb]; exact hn
    · rw [ht] at e; cases e
  have codesCase : ∀ (k : Gen.CodeKind) (mk : CodesAck → Packet),
      (∀ a, (mk a).valid =
        (validPid a.pid && Props.valid ackProps a.properties && a.topics.all (isVariant k))) →
      (∀ a, (mk a).wf = Props.wf ackProps a.properties) →
      (∀ a, (mk a).bodyLen = a.encodeLen) →
      (CodesAck.decode k h >>= fun a => pure (mk a) : Parser ErrorV5 Packet) bs = .ok p rest →
      p.valid = true ∧ p.wf ∧
      ∃ n, p.bodyLen = .ok n ∧ rest.length + n ≤ bs.length ∧
        (p.tied = true → n ≤ h.remainingLen) := by
    intro k mk hv hw hb hh
    obtain ⟨a, r1, h1, k1⟩ := Parser.bind_ok_inv hh
    obtain ⟨e1, e2⟩ := Parser.pure_ok_inv k1
    obtain ⟨v1, v2, v3, v4, hn, hl⟩ := CodesAck.decode_ok_inv h1
    subst e1 e2
    refine ⟨?_, ?_, h.remainingLen, ?_, hl, fun _ => Nat.le_refl _⟩
    · rw [hv, v1, v2, v4]; rfl
    · rw [hw]; exact v3
    · rw [hb]; exact hn
  generalize hP : decodeBody debug h = P at hd
  unfold decodeBody at hP
  split at hP <;> subst hP
  · obtain ⟨e1, e2⟩ := Parser.pure_ok_inv hd
    subst e1 e2; exact ⟨rfl, trivial, 0, rfl, by omega, fun _ => Nat.zero_le _⟩
  · obtain ⟨e1, e2⟩ := Parser.pure_ok_inv hd
    subst e1 e2; exact ⟨rfl, trivial, 0, rfl, by omega, fun _ => Nat.zero_le _⟩
  · obtain ⟨c, r1, h1, k1⟩ := Parser.bind_ok_inv hd
    obtain ⟨e1, e2⟩ := Parser.pure_ok_inv k1
    obtain ⟨hv, hw, n, hn, hl⟩ := Connect.decode_ok_inv h1
    subst e1 e2
    exact ⟨hv, hw, n, hn, hl, fun e => by cases e⟩
  · obtain ⟨c, r1, h1, k1⟩ := Parser.bind_ok_inv hd
    obtain ⟨e1, e2⟩ := Parser.pure_ok_inv k1
    obtain ⟨v1, v2, v3, n, hn, hl⟩ := Connack.decode_ok_inv h1
    subst e1 e2
    refine ⟨?_, v3, n, hn, hl, fun e => by cases e⟩
    simp only [Packet.valid, v1, v2, Bool.and_self]
  · obtain ⟨c, r1, h1, k1⟩ := Parser.bind_ok_inv hd
    obtain ⟨e1, e2⟩ := Parser.pure_ok_inv k1
    obtain ⟨v1, v2, v3, v4, v5, hn, hl⟩ := Publish.decode_ok_inv h1
    subst e1 e2
    refine ⟨?_, v5, h.remainingLen, hn, hl, fun _ => Nat.le_refl _⟩
    simp only [Packet.valid, v1, v2, v3, v4, Bool.and_self]
  · exact ackCase .pubackReason .puback (by decide) (fun _ => rfl) (fun _ => rfl) (fun _ => rfl)
      (fun _ => rfl) hd
  · exact ackCase .pubrecReason .pubrec (by decide) (fun _ => rfl) (fun _ => rfl) (fun _ => rfl)
      (fun _ => rfl) hd
  · exact ackCase .pubrelReason .pubrel (by decide) (fun _ => rfl) (fun _ => rfl) (fun _ => rfl)
      (fun _ => rfl) hd
  · exact ackCase .pubcompReason .pubcomp (by decide) (fun _ => rfl) (fun _ => rfl) (fun _ => rfl)
      (fun _ => rfl) hd
  · obtain ⟨c, r1, h1, k1⟩ := Parser.bind_ok_inv hd
    obtain ⟨e1, e2⟩ := Parser.pure_ok_inv k1
    obtain ⟨v1, v2, v3, v4, v5, hn, hl⟩ := Subscribe.decode_ok_inv h1
    subst e1 e2
    refine ⟨?_, v3, h.remainingLen, hn, hl, fun _ => Nat.le_refl _⟩
    simp only [Packet.valid, v1, v2, v4, v5, Bool.and_self, Bool.not_false]
  · exact codesCase .subscribeReason .suback (fun _ => rfl) (fun _ => rfl) (fun _ => rfl) hd
  · obtain ⟨c, r1, h1, k1⟩ := Parser.bind_ok_inv hd
    obtain ⟨e1, e2⟩ := Parser.pure_ok_inv k1
    obtain ⟨v1, v2, v3, v4, v5, n, hn, hle, hl⟩ := Unsubscribe.decode_ok_inv h1
    subst e1 e2
    refine ⟨?_, v3, n, hn, by omega, fun _ => hle⟩
    simp only [Packet.valid, v1, v2, v4, v5, Bool.and_self, Bool.not_false]
  · exact codesCase .unsubscribeReason .unsuback (fun _ => rfl) (fun _ => rfl) (fun _ => rfl) hd
  · obtain ⟨c, r1, h1, k1⟩ := Parser.bind_ok_inv hd
    obtain ⟨e1, e2⟩ := Parser.pure_ok_inv k1
    obtain ⟨v1, v2, v3, n, hn, hl⟩ := Disconnect.decode_ok_inv h1
    subst e1 e2
    refine ⟨?_, v3, n, hn, hl, fun e => by cases e⟩
    simp only [Packet.valid, v1, v2, Bool.and_self]
  · obtain ⟨c, r1, h1, k1⟩ := Parser.bind_ok_inv hd
    obtain ⟨e1, e2⟩ := Parser.pure_ok_inv k1
    obtain ⟨v1, v2, v3, n, hn, hl⟩ := Auth.decode_ok_inv h1
    subst e1 e2
    refine ⟨?_, v3, n, hn, hl, fun e => by cases e⟩
    simp only [Packet.valid, v1, v2, Bool.and_self]
  · cases hd

/-! ## Part 3 — the front-ends -/

theorem Header.newWith_remainingLen {cb : UInt8} {n : Nat} {h : Header}
    (hh : Header.newWith cb n = .ok h) : h.remainingLen = n := by
  unfold Header.newWith at hh
  split at hh
  · cases hh; rfl
  · cases hh

/-- An accepted fixed header: remaining length below 2^28, read from a length field at
least as long as the minimal one. -/
theorem Header.decode_ok_inv {bs rest : Bytes} {h : Header} (hd : Header.decode bs = .ok h rest) :
    ∃ k, h.remainingLen < 268435456 ∧ bs.length = rest.length + 1 + k ∧
      Spec.varIntSize h.remainingLen ≤ k := by
  unfold Header.decode at hd
  obtain ⟨⟨cb, n⟩, r1, h1, k1⟩ := Parser.bind_ok_inv hd
  dsimp only at k1
  obtain ⟨h2, e2⟩ := liftExcept_ok_inv k1
  obtain ⟨k, g1, g2, g3⟩ := decodeRawHeader_ok_inv (liftC_ok_inv h1)
  rw [Header.newWith_remainingLen h2]
  subst e2
  exact ⟨k, g1, g2, g3⟩

/-- The total size `encode_len` reports once the body size is known to fit. -/
theorem Packet.encodeLen_of_bodyLen {p : Packet} {n : Nat} (hb : p.bodyLen = .ok n)
    (hn : n < 268435456) : p.encodeLen = .ok (n + 1 + Spec.varIntSize n) := by
  have htl : totalLen n = .ok (n + 1 + Spec.varIntSize n) := by rw [totalLen_closed, if_pos hn]
  cases hparts : p.parts with
  | none =>
    cases p <;> simp only [Packet.parts, reduceCtorEq] at hparts
    · cases hb; rfl
    · cases hb; rfl
  | some x =>
    obtain ⟨cb, len, body⟩ := x
    have e : len = .ok n := by
      simp only [Packet.bodyLen, hparts] at hb
      exact hb
    subst e
    rw [(Packet.encode_eq_parts true p cb _ body hparts).2]
    simp only [encodeLenParts, htl]

/-- A valid, well-formed packet whose body size fits re-encodes, in either profile, to
`body size + 1 + size of the minimal length field` bytes which every front-end decodes back
to the packet. -/
theorem reencode_of_accepted (debug : Bool) (p : Packet) (hv : p.valid = true) (hwf : p.wf)
    {n : Nat} (hb : p.bodyLen = .ok n) (hn : n < 268435456) :
    ∃ vb, p.encode debug = .ok vb ∧
      vb.asRef.length = n + 1 + Spec.varIntSize n ∧
      (∀ t, decodeAsync debug (vb.asRef ++ t) = .ok p t) ∧
      (∃ m, decodeBlocking debug vb.asRef = .ok (some p) m ∧ m = vb.asRef.length) ∧
      (∀ term, (Poll.spec (pollFamily debug) vb.asRef term).1 =
        .ok vb.asRef.length (vb.asRef.drop (headerLen vb.asRef.length)) p) := by
  have hlen := Packet.encodeLen_of_bodyLen hb hn
  obtain ⟨vb, cb, n', body, h, F⟩ := frame_exists debug p hv hwf ⟨_, hlen⟩
  refine ⟨vb, F.enc, ?_, F.roundtrip_async, ⟨_, ?_, rfl⟩, ?_⟩
  · rcases Packet.encode_total p with ⟨s, hp, -⟩ | ⟨vb', _, _, _, henc, hlen', -⟩ | ⟨herr, -⟩
    · have e := (hp debug).symm.trans F.enc
      cases e
    · have e := (henc debug).symm.trans F.enc
      cases e
      rw [hlen] at hlen'
      injection hlen' with hlen'
      exact hlen'.symm
    · have e := (herr debug).symm.trans F.enc
      cases e
  · have := F.roundtrip_blocking []
    rwa [List.append_nil] at this
  · intro term
    have := F.roundtrip_poll [] term
    rw [List.append_nil] at this
    rw [this]

/-- The lenient front-end: what it accepts is valid and well-formed; the canonical body is
at most the bytes consumed minus the two-byte minimum header, and for the `tied` types the
whole canonical encoding is at most the bytes consumed. -/
theorem decodeAsync_ok_inv {debug : Bool} {bs rest : Bytes} {p : Packet}
    (h : decodeAsync debug bs = .ok p rest) :
    p.valid = true ∧ p.wf ∧
    ∃ n, p.bodyLen = .ok n ∧ n + 2 ≤ bs.length - rest.length ∧
      (p.tied = true →
        n < 268435456 ∧ n + 1 + Spec.varIntSize n ≤ bs.length - rest.length) := by
  unfold decodeAsync at h
  obtain ⟨hd, r1, h1, k1⟩ := Parser.bind_ok_inv h
  obtain ⟨k, g1, g2, g3⟩ := Header.decode_ok_inv h1
  obtain ⟨hv, hw, n, hn, hl, ht⟩ := decodeBody_ok_inv k1
  have hpos := varIntSize_pos hd.remainingLen
  refine ⟨hv, hw, n, hn, by omega, fun e => ?_⟩
  have := varIntSize_mono (ht e)
  have := ht e
  exact ⟨by omega, by omega⟩

/-- The blocking front-end returns a packet only when the async reader did. -/
theorem decodeBlocking_some_inv {debug : Bool} {bs : Bytes} {p : Packet} {n : Nat}
    (h : decodeBlocking debug bs = .ok (some p) n) :
    ∃ rest, decodeAsync debug bs = .ok p rest ∧ n = bs.length - rest.length := by
  cases hd : decodeAsync debug bs with
  | ok q rest =>
    rw [decodeBlocking_of_ok hd] at h
    cases h
    exact ⟨rest, rfl, rfl⟩
  | more => rw [decodeBlocking_of_more hd] at h; cases h
  | err e =>
    by_cases he : e = .common (.ioError .unexpectedEof)
    · subst he
      simp only [decodeBlocking, runAsync_of_err hd] at h
      cases h
    · rw [decodeBlocking_of_err hd he] at h; cases h
  | panic s =>
    simp only [decodeBlocking, runAsync, hd] at h
    cases h

/-- The strict poll decoder: what it accepts is valid, well-formed, fits, and re-encodes to
at most the reported total. -/
theorem poll_ok_inv {debug : Bool} {bs : Bytes} {term : Poll.Term} {total : Nat} {body : Bytes}
    {p : Packet} (h : (Poll.spec (pollFamily debug) bs term).1 = .ok total body p) :
    p.valid = true ∧ p.wf ∧
    ∃ n, p.bodyLen = .ok n ∧ n < 268435456 ∧ n + 1 + Spec.varIntSize n ≤ total := by
  cases bs with
  | nil => rw [Poll.spec_nil] at h; cases h
  | cons cb rest =>
    rw [Poll.spec_cons] at h
    have e1 : (pollFamily debug).ofCommon Error.invalidVarByteInt =
        ErrorV5.common Error.invalidVarByteInt := rfl
    rw [e1, decodeVarIntAux_common] at h
    cases hd : decodeVarIntAux Error.invalidVarByteInt 0 0 rest with
    | more => rw [hd] at h; cases h
    | err e => rw [hd] at h; cases h
    | panic q => rw [hd] at h; cases h
    | ok a rest' =>
      obtain ⟨v, k⟩ := a
      obtain ⟨hv, -, hmin⟩ := decodeVarInt_ok_inv (bs := rest) hd
      have hk := varIntSize_pos v
      rw [hd] at h
      simp only [Res.mapErr_ok] at h
      cases hf : Poll.finishHeader (pollFamily debug) cb (k - 1) v with
      | inr r =>
        rw [hf] at h
        simp only [] at h
        subst h
        obtain ⟨hd', hnw, hbe, hrl, rfl, -⟩ := Poll.finishHeader_inr_ok_full _ _ _ _ _ _ _ hf
        have hbe' : buildEmptyPacket hd' = some p := hbe
        have hrl' : hd'.remainingLen = 0 := hrl
        obtain ⟨av, aw, al, ad⟩ := Props.empty_facts authProps
        obtain ⟨dv, dw, dl, dd⟩ := Props.empty_facts disconnectProps
        unfold buildEmptyPacket at hbe'
        split at hbe'
        · cases hbe'; exact ⟨rfl, trivial, 0, rfl, by omega, by simp [Spec.varIntSize]⟩
        · cases hbe'; exact ⟨rfl, trivial, 0, rfl, by omega, by simp [Spec.varIntSize]⟩
        · rw [if_pos hrl'] at hbe'
          cases hbe'
          refine ⟨?_, aw, 0, ?_, by omega, by simp [Spec.varIntSize]⟩
          · simp only [Packet.valid, av, Bool.and_true]; decide
          · show Auth.encodeLen _ = _
            simp only [Auth.encodeLen, ad, beq_self_eq_true, Bool.and_self, if_true]
            rfl
        · rw [if_pos hrl'] at hbe'
          cases hbe'
          refine ⟨?_, dw, 0, ?_, by omega, by simp [Spec.varIntSize]⟩
          · simp only [Packet.valid, dv, Bool.and_true]; decide
          · show Disconnect.encodeLen _ = _
            simp only [Disconnect.encodeLen, dd, beq_self_eq_true, if_true]
            rfl
        · cases hbe'
      | inl st =>
        obtain ⟨hd', hnw, hbe, hne, rfl⟩ := Poll.finishHeader_inl _ _ _ _ _ hf
        rw [hf] at h
        simp only [] at h
        split at h
        · rename_i hle
          obtain ⟨hbd, rfl, -⟩ := Poll.finishBody_ok_full _ _ _ _ _ _ _ h
          have hnw' : Header.newWith cb v = .ok hd' := hnw
          have hrl : hd'.remainingLen = v := Header.newWith_remainingLen hnw'
          have hbd' : blockDecode debug hd' (rest'.take hd'.remainingLen) = .ok p [] := hbd
          rw [blockDecode_eq_decodeBody debug hd' hbe (Header.newWith_facts hnw').2] at hbd'
          obtain ⟨hval, hwf, n, hn, l1, -⟩ := decodeBody_ok_inv hbd'
          have hle' : hd'.remainingLen ≤ rest'.length := hle
          rw [List.length_take, Nat.min_eq_left hle', List.length_nil, Nat.zero_add] at l1
          have hmono := varIntSize_mono l1
          refine ⟨hval, hwf, n, hn, by omega, ?_⟩
          show n + 1 + Spec.varIntSize n ≤ 1 + 1 + (k - 1) + hd'.remainingLen
          rw [hrl] at l1 hmono ⊢
          omega
        · cases h

end Mqtt.V5
