/-
  Proofs.TopicOrd — `lexCmp` (the model of `str::cmp`) is a total order on byte strings whose
  equivalence is equality.
-/
import Mqtt.Topic

namespace Mqtt.Topic

theorem lexCmp_refl (a : Bytes) : lexCmp a a = .eq := by
  induction a with
  | nil => rfl
  | cons x xs ih => simp [lexCmp, ih]

theorem lexCmp_eq_iff (a b : Bytes) : lexCmp a b = .eq ↔ a = b := by
  induction a generalizing b with
  | nil => cases b <;> simp [lexCmp]
  | cons x xs ih =>
    cases b with
    | nil => simp [lexCmp]
    | cons y ys =>
      simp only [lexCmp]
      by_cases h1 : x < y
      · simp [h1]; intro h; subst h; exact absurd h1 (by simp [UInt8.lt_irrefl])
      · by_cases h2 : y < x
        · simp [h1, h2]; intro h; subst h; exact absurd h2 (by simp [UInt8.lt_irrefl])
        · have hxy : x = y := by
            have := UInt8.le_antisymm (UInt8.not_lt.mp h2) (UInt8.not_lt.mp h1)
            exact this
          subst hxy
          simp [h1, ih]

theorem lexCmp_swap (a b : Bytes) : lexCmp b a = (lexCmp a b).swap := by
  induction a generalizing b with
  | nil => cases b <;> simp [lexCmp, Ordering.swap]
  | cons x xs ih =>
    cases b with
    | nil => simp [lexCmp, Ordering.swap]
    | cons y ys =>
      simp only [lexCmp]
      by_cases h1 : x < y
      · have h2 : ¬ y < x := fun h => absurd (UInt8.lt_trans h1 h) (by simp [UInt8.lt_irrefl])
        simp [h1, h2, Ordering.swap]
      · by_cases h2 : y < x
        · simp [h1, h2, Ordering.swap]
        · simp [h1, h2, ih]

theorem lexCmp_lt_trans (a b c : Bytes) (h1 : lexCmp a b = .lt) (h2 : lexCmp b c = .lt) :
    lexCmp a c = .lt := by
  induction a generalizing b c with
  | nil =>
    cases b with
    | nil => simp [lexCmp] at h1
    | cons y ys => cases c with
      | nil => simp [lexCmp] at h2
      | cons z zs => simp [lexCmp]
  | cons x xs ih =>
    cases b with
    | nil => simp [lexCmp] at h1
    | cons y ys =>
      cases c with
      | nil => simp [lexCmp] at h2
      | cons z zs =>
        simp only [lexCmp] at h1 h2 ⊢
        by_cases hxy : x < y
        · by_cases hyz : y < z
          · simp [UInt8.lt_trans hxy hyz]
          · by_cases hzy : z < y
            · simp [hyz, hzy] at h2
            · have : y = z := UInt8.le_antisymm (UInt8.not_lt.mp hzy) (UInt8.not_lt.mp hyz)
              subst this; simp [hxy]
        · by_cases hyx : y < x
          · simp [hxy, hyx] at h1
          · have hxy' : x = y := UInt8.le_antisymm (UInt8.not_lt.mp hyx) (UInt8.not_lt.mp hxy)
            subst hxy'
            simp [hxy] at h1
            by_cases hxz : x < z
            · simp [hxz]
            · by_cases hzx : z < x
              · simp [hxz, hzx] at h2
              · simp [hxz, hzx] at h2 ⊢
                exact ih _ _ h1 h2

end Mqtt.Topic
