import Mqtt.Pid
import Spec.Pid

namespace Mqtt.Pid
open Mqtt

theorem succN_closed (k p : Nat) (h1 : 1 ≤ p) (h2 : p ≤ 65535) :
    Spec.pidSuccN k p = (p - 1 + k) % 65535 + 1 := by
  induction k generalizing p with
  | zero => simp [Spec.pidSuccN]; omega
  | succ k ih =>
    simp only [Spec.pidSuccN]
    by_cases hp : p = 65535
    · subst hp; rw [ih] <;> simp [Spec.pidSucc] <;> omega
    · have : Spec.pidSucc p = p + 1 := by simp [Spec.pidSucc, hp]
      rw [this, ih] <;> omega

theorem predN_closed (k p : Nat) (h1 : 1 ≤ p) (h2 : p ≤ 65535) :
    Spec.pidPredN k p = (p - 1 + (65535 - k % 65535)) % 65535 + 1 := by
  induction k generalizing p with
  | zero => simp [Spec.pidPredN]; omega
  | succ k ih =>
    simp only [Spec.pidPredN]
    by_cases hp : p = 1
    · subst hp; rw [ih] <;> simp [Spec.pidPred] <;> omega
    · have : Spec.pidPred p = p - 1 := by simp [Spec.pidPred, hp]
      rw [this, ih] <;> omega

theorem add_spec (p : Pid) (u : UInt16) (hp : p.val ≠ 0) :
    ∃ q, p.add u = .ok q ∧ q.val.toNat = (p.val.toNat - 1 + u.toNat) % 65535 + 1 := by
  have hp' : p.val.toNat ≠ 0 := by
    intro h; apply hp; exact UInt16.toNat_inj.mp (by simpa using h)
  have h1 := p.val.toNat_lt
  have h2 := u.toNat_lt
  unfold add overflowingAdd
  by_cases ho : p.val.toNat + u.toNat ≥ 65536
  · simp only [ho, decide_true]
    have hn : (p.val + u).toNat = p.val.toNat + u.toNat - 65536 := by
      rw [UInt16.toNat_add]; omega
    have hne : ¬ (p.val + u = 65535) := by
      intro h; have := congrArg UInt16.toNat h; rw [hn] at this; simp at this; omega
    simp only [hne, if_false]
    refine ⟨_, rfl, ?_⟩
    show (p.val + u + 1).toNat = _
    rw [UInt16.toNat_add, hn]; simp; omega
  · simp only [ho, decide_false]
    refine ⟨_, rfl, ?_⟩
    show (p.val + u).toNat = _
    rw [UInt16.toNat_add]; omega

theorem sub_spec (p : Pid) (u : UInt16) (hp : p.val ≠ 0) :
    ∃ q, p.sub u = .ok q ∧
      q.val.toNat = (p.val.toNat - 1 + (65535 - u.toNat % 65535)) % 65535 + 1 := by
  have hp' : p.val.toNat ≠ 0 := by
    intro h; apply hp; exact UInt16.toNat_inj.mp (by simpa using h)
  have h1 := p.val.toNat_lt
  have h2 := u.toNat_lt
  unfold sub overflowingSub
  have hsub : (p.val - u).toNat = (65536 - u.toNat + p.val.toNat) % 65536 := by
    rw [UInt16.toNat_sub]
  by_cases hz : p.val - u = 0
  · simp only [hz, if_true]
    refine ⟨_, rfl, ?_⟩
    have := congrArg UInt16.toNat hz; rw [hsub] at this; simp at this
    show (65535 : UInt16).toNat = _
    simp; omega
  · simp only [hz, if_false]
    have hz' : (p.val - u).toNat ≠ 0 := by
      intro h; apply hz; exact UInt16.toNat_inj.mp (by simpa using h)
    by_cases ho : p.val.toNat < u.toNat
    · simp only [ho, decide_true]
      refine ⟨⟨p.val - u - 1⟩, by simp, ?_⟩
      show (p.val - u - 1).toNat = _
      rw [UInt16.toNat_sub, hsub]; simp; omega
    · simp only [ho, decide_false, if_true]
      refine ⟨_, rfl, ?_⟩
      show (p.val - u).toNat = _
      rw [hsub]; omega

end Mqtt.Pid
