/-
  C04 (v3): the strict (poll) decoder of the model against the independent
  specification decoder `Spec.decodeV3` — assembly of the header, remaining-length and
  body bridges (Proofs/V3SpecBasics, V3SpecBody, V3SpecConnect).
-/
import Spec.DecodeV3
import Proofs.V3Compose
import Proofs.V3RoundTrip
import Properties.C01V3
import Properties.C06V3
import Proofs.V3SpecConnect

set_option linter.unusedSimpArgs false

namespace Mqtt.V3
open Mqtt

/-! ## the specification's frame splitter -/

theorem optGuard (p : Prop) [Decidable p] : (guard p : Option Unit) = if p then some () else none := rfl

theorem splitFrame_cons_iff (m : Bool) (cb : UInt8) (rest : Bytes) (fr : Spec.Frame) :
    Spec.splitFrame m false (cb :: rest) = some fr ↔
      ∃ t flags v k rest', specHdr cb = some (t, flags) ∧
        Spec.varintDigits 4 rest = some (v, k, rest') ∧ (m = true → k = Spec.varIntSize v) ∧
        v ≤ rest'.length ∧ fr = ⟨t, flags, rest'.take v, 1 + k + v⟩ := by
  cases hp : Spec.ptypeOfNibble false (UInt8.ofNat (Spec.bits cb 4 4)) with
  | none => simp [Spec.splitFrame, specHdr, hp]
  | some x =>
    obtain ⟨t, req⟩ := x
    by_cases hreq : Option.all (fun x => x == UInt8.ofNat (Spec.bits cb 0 4)) req = true
    · have hs : specHdr cb = some (t, UInt8.ofNat (Spec.bits cb 0 4)) := by
        simp [specHdr, hp, hreq]
      rw [hs]
      cases hd : Spec.varintDigits 4 rest with
      | none => simp [Spec.splitFrame, hp, hreq, Spec.varintN, hd, optGuard]
      | some y =>
        obtain ⟨v, k, rest'⟩ := y
        by_cases hmin : m = false ∨ k = Spec.varIntSize v
        · have hmin' : m = true → k = Spec.varIntSize v := by
            intro hm; rcases hmin with h | h
            · rw [hm] at h; cases h
            · exact h
          by_cases hle : v ≤ rest'.length
          · simp only [Spec.splitFrame, hp, hreq, Spec.varintN, hd, hmin, hle, optGuard, Option.bind_eq_bind,
              Option.bind_some, if_true, Bool.not_eq_true', Bool.or_eq_true, decide_eq_true_eq,
              Option.some.injEq, Prod.mk.injEq]
            constructor
            · intro h; exact ⟨t, _, v, k, rest', ⟨rfl, rfl⟩, ⟨rfl, rfl, rfl⟩, hmin', hle, h.symm⟩
            · rintro ⟨t', flags', v', k', rest'', ⟨rfl, rfl⟩, ⟨rfl, rfl, rfl⟩, -, -, rfl⟩; rfl
          · simp only [Spec.splitFrame, hp, hreq, Spec.varintN, hd, hmin, hle, optGuard, Option.bind_eq_bind,
              Option.bind_some, if_true, if_false, Option.bind_none, Bool.not_eq_true', Bool.or_eq_true, decide_eq_true_eq,
              Option.some.injEq, Prod.mk.injEq]
            constructor
            · intro h; cases h
            · rintro ⟨t', flags', v', k', rest'', -, ⟨rfl, rfl, rfl⟩, -, h, -⟩; exact absurd h hle
        · simp only [Spec.splitFrame, hp, hreq, Spec.varintN, hd, hmin, optGuard, Option.bind_eq_bind,
              Option.bind_some, if_true, if_false, Option.bind_none, Bool.not_eq_true', Bool.or_eq_true, decide_eq_true_eq,
              Option.some.injEq, Prod.mk.injEq]
          constructor
          · intro h; cases h
          · rintro ⟨t', flags', v', k', rest'', -, ⟨rfl, rfl, rfl⟩, h, -, -⟩
            exfalso; apply hmin
            cases m with
            | false => exact .inl rfl
            | true => exact .inr (h rfl)
    · have hs : specHdr cb = none := by simp [specHdr, hp, hreq]
      simp [Spec.splitFrame, hp, hreq, hs, optGuard]


/-- The specification decoder, frame by frame. -/
theorem decodeV3With_iff (m : Bool) (bs : Bytes) (p : Packet) (total : Nat) :
    Spec.decodeV3With m bs = some (p, total) ↔
      ∃ cb rest t flags v k rest', bs = cb :: rest ∧ specHdr cb = some (t, flags) ∧
        Spec.varintDigits 4 rest = some (v, k, rest') ∧ (m = true → k = Spec.varIntSize v) ∧
        v ≤ rest'.length ∧ total = 1 + k + v ∧ specBody m t flags (rest'.take v) = some p := by
  cases bs with
  | nil => simp [Spec.decodeV3With, Spec.splitFrame]
  | cons cb rest =>
    unfold Spec.decodeV3With
    simp only [Option.bind_eq_bind, Option.bind_eq_some_iff, splitFrame_cons_iff, fieldsV3_eq, optGuard,
      specBody_eq_some_iff]
    constructor
    · rintro ⟨fr, ⟨t, flags, v, k, rest', hs, hd, hm, hle, rfl⟩, fs, hf, u, hg, q, hq, hres⟩
      simp only [Option.some.injEq, Prod.mk.injEq] at hres
      obtain ⟨rfl, rfl⟩ := hres
      have hv : Spec.validV3 t flags fs = true := by
        by_cases hv : Spec.validV3 t flags fs = true
        · exact hv
        · simp [hv] at hg
      exact ⟨cb, rest, t, flags, v, k, rest', rfl, hs, hd, hm, hle, rfl, fs, hf, hv, hq⟩
    · rintro ⟨cb', rest0, t, flags, v, k, rest', heq, hs, hd, hm, hle, rfl, fs, hf, hv, hq⟩
      cases heq
      exact ⟨⟨t, flags, rest'.take v, 1 + k + v⟩, ⟨t, flags, v, k, rest', hs, hd, hm, hle, rfl⟩,
        fs, hf, (), by simp [hv], p, hq, rfl⟩


/-! ## bodies -/

/-- What the strict decoder does after the fixed header, as a condition on the exact body. -/
def ModelBody (debug : Bool) (h : Header) (b : Bytes) (p : Packet) : Prop :=
  (buildEmptyPacket h = some p ∧ b = []) ∨
  (buildEmptyPacket h = none ∧ b ≠ [] ∧ blockDecode debug h b = .ok p [])

theorem close_nonempty {D : Parser Error Packet} {b : Bytes} {p : Packet} {S : Prop}
    (hD : D b = .ok p [] ↔ S) (hnil : D [] = .more) :
    (b ≠ [] ∧ D b = .ok p []) ↔ S := by
  constructor
  · rintro ⟨-, h⟩; exact hD.mp h
  · intro hS
    have h := hD.mpr hS
    refine ⟨?_, h⟩
    rintro rfl
    rw [hnil] at h; cases h

theorem specBody_empty (m : Bool) (t : Spec.PType) (flags : UInt8) (b : Bytes) (p q : Packet)
    (ht : (t = .pingreq ∧ q = .pingreq) ∨ (t = .pingresp ∧ q = .pingresp) ∨
      (t = .disconnect ∧ q = .disconnect)) :
    specBody m t flags b = some p ↔ (q = p ∧ b = []) := by
  rcases ht with ⟨rfl, rfl⟩ | ⟨rfl, rfl⟩ | ⟨rfl, rfl⟩ <;>
  (cases b with
   | nil => simp [specBody, fieldsOf, Spec.fieldsV3, Spec.parseBody, Spec.parseItems, Spec.layoutV3,
       Spec.validV3, Spec.projectV3]
   | cons x xs => simp [specBody, fieldsOf, Spec.fieldsV3, Spec.parseBody, Spec.parseItems, Spec.layoutV3])

theorem body_agree (m debug : Bool) (h : Header) (t : Spec.PType) (flags : UInt8) (b : Bytes)
    (p : Packet) (hrel : HdrRel h b.length t flags) :
    ModelBody debug h b p ↔ specBody m t flags b = some p := by
  obtain ⟨hauth, hpubok, hty, hrl, hpub⟩ := hrel
  unfold ModelBody
  cases t with
  | auth => exact absurd rfl hauth
  | connect =>
    have hty' : h.typ.toNat = 1 := by rw [hty]; rfl
    simp only [buildEmptyPacket, blockDecode, hty']
    simp only [reduceCtorEq, false_and, false_or, true_and]
    exact close_nonempty (connectBody m flags b p) rfl
  | connack =>
    have hty' : h.typ.toNat = 2 := by rw [hty]; rfl
    simp only [buildEmptyPacket, blockDecode, hty']
    simp only [reduceCtorEq, false_and, false_or, true_and]
    exact close_nonempty (connackBody m flags b p) rfl
  | publish =>
    have hty' : h.typ.toNat = 3 := by rw [hty]; rfl
    obtain ⟨hd, hq, hr⟩ := hpub rfl
    simp only [buildEmptyPacket, blockDecode, hty']
    simp only [reduceCtorEq, false_and, false_or, true_and]
    exact close_nonempty (publishBody m flags b p h hrl hd hq hr (hpubok rfl)) rfl
  | puback =>
    have hty' : h.typ.toNat = 4 := by rw [hty]; rfl
    simp only [buildEmptyPacket, blockDecode, hty']
    simp only [reduceCtorEq, false_and, false_or, true_and]
    exact close_nonempty ((pidBody .puback b p).trans (pidSpec m .puback flags b p (by simp)).symm) rfl
  | pubrec =>
    have hty' : h.typ.toNat = 5 := by rw [hty]; rfl
    simp only [buildEmptyPacket, blockDecode, hty']
    simp only [reduceCtorEq, false_and, false_or, true_and]
    exact close_nonempty ((pidBody .pubrec b p).trans (pidSpec m .pubrec flags b p (by simp)).symm) rfl
  | pubrel =>
    have hty' : h.typ.toNat = 6 := by rw [hty]; rfl
    simp only [buildEmptyPacket, blockDecode, hty']
    simp only [reduceCtorEq, false_and, false_or, true_and]
    exact close_nonempty ((pidBody .pubrel b p).trans (pidSpec m .pubrel flags b p (by simp)).symm) rfl
  | pubcomp =>
    have hty' : h.typ.toNat = 7 := by rw [hty]; rfl
    simp only [buildEmptyPacket, blockDecode, hty']
    simp only [reduceCtorEq, false_and, false_or, true_and]
    exact close_nonempty ((pidBody .pubcomp b p).trans (pidSpec m .pubcomp flags b p (by simp)).symm) rfl
  | subscribe =>
    have hty' : h.typ.toNat = 8 := by rw [hty]; rfl
    simp only [buildEmptyPacket, blockDecode, hty', hrl]
    simp only [reduceCtorEq, false_and, false_or, true_and]
    exact close_nonempty (subscribeBody m debug flags b p) rfl
  | suback =>
    have hty' : h.typ.toNat = 9 := by rw [hty]; rfl
    simp only [buildEmptyPacket, blockDecode, hty', hrl]
    simp only [reduceCtorEq, false_and, false_or, true_and]
    exact close_nonempty (subackBody m flags b p) rfl
  | unsubscribe =>
    have hty' : h.typ.toNat = 10 := by rw [hty]; rfl
    simp only [buildEmptyPacket, blockDecode, hty', hrl]
    simp only [reduceCtorEq, false_and, false_or, true_and]
    exact close_nonempty (unsubscribeBody m debug flags b p) rfl
  | unsuback =>
    have hty' : h.typ.toNat = 11 := by rw [hty]; rfl
    simp only [buildEmptyPacket, blockDecode, hty']
    simp only [reduceCtorEq, false_and, false_or, true_and]
    exact close_nonempty ((pidBody .unsuback b p).trans (pidSpec m .unsuback flags b p (by simp)).symm) rfl
  | pingreq =>
    have hty' : h.typ.toNat = 12 := by rw [hty]; rfl
    simp only [buildEmptyPacket, hty']
    rw [specBody_empty m .pingreq flags b p .pingreq (by simp)]
    simp
  | pingresp =>
    have hty' : h.typ.toNat = 13 := by rw [hty]; rfl
    simp only [buildEmptyPacket, hty']
    rw [specBody_empty m .pingresp flags b p .pingresp (by simp)]
    simp
  | disconnect =>
    have hty' : h.typ.toNat = 14 := by rw [hty]; rfl
    simp only [buildEmptyPacket, hty']
    rw [specBody_empty m .disconnect flags b p .disconnect (by simp)]
    simp


/-! ## the strict decoder, frame by frame -/

theorem newWith_remainingLen {cb : UInt8} {n : Nat} {h : Header} (hh : Header.newWith cb n = .ok h) :
    h.remainingLen = n := by
  obtain ⟨t, flags, -, hrel⟩ := newWith_ok_spec hh
  exact hrel.2.2.2.1

theorem take_eq_nil_iff_of_le {v : Nat} {l : Bytes} (h : v ≤ l.length) : l.take v = [] ↔ v = 0 := by
  constructor
  · intro ht
    have := congrArg List.length ht
    rw [List.length_take, Nat.min_eq_left h] at this
    exact this
  · rintro rfl; rfl

theorem model_accepts_iff (debug : Bool) (bs : Bytes) (term : Poll.Term) (total : Nat) (body : Bytes)
    (p : Packet) :
    (Poll.spec (pollFamily debug) bs term).1 = .ok total body p ↔
      ∃ cb rest v k rest' h, bs = cb :: rest ∧ Spec.varintDigits 4 rest = some (v, k, rest') ∧
        v ≤ rest'.length ∧ body = rest'.take v ∧ total = 1 + k + v ∧
        Header.newWith cb v = .ok h ∧ ModelBody debug h (rest'.take v) p := by
  cases bs with
  | nil => rw [Poll.spec_nil]; simp
  | cons cb rest =>
    rw [Poll.spec_cons]
    constructor
    · intro h
      cases hd : decodeVarIntAux ((pollFamily debug).ofCommon .invalidVarByteInt) 0 0 rest with
      | more => rw [hd] at h; cases h
      | err e => rw [hd] at h; cases h
      | panic q => rw [hd] at h; cases h
      | ok a rest' =>
        obtain ⟨v, k⟩ := a
        obtain ⟨hk, -, -⟩ := Poll.decodeVarIntAux_ok _ _ _ _ _ _ _ hd
        have hdig := (decodeVarInt_iff_digits _ rest v k rest').mp hd
        rw [hd] at h
        simp only [] at h
        cases hf : Poll.finishHeader (pollFamily debug) cb (k - 1) v with
        | inr r =>
          rw [hf] at h
          simp only [] at h
          subst h
          obtain ⟨hdr, hnw, hbe, hrl, rfl, rfl⟩ := Poll.finishHeader_inr_ok_full _ _ _ _ _ _ _ hf
          have hnw' : Header.newWith cb v = .ok hdr := hnw
          have hv : v = 0 := by
            rw [← newWith_remainingLen hnw']; exact hrl
          subst hv
          exact ⟨cb, rest, 0, k, rest', hdr, rfl, hdig, Nat.zero_le _, rfl, by omega, hnw',
            .inl ⟨hbe, rfl⟩⟩
        | inl st =>
          obtain ⟨hdr, hnw, hbe, hne, rfl⟩ := Poll.finishHeader_inl _ _ _ _ _ hf
          have hnw' : Header.newWith cb v = .ok hdr := hnw
          have hv : (pollFamily debug).remainingLen hdr = v := newWith_remainingLen hnw'
          rw [hf] at h
          simp only [] at h
          split at h
          · rename_i hle
            obtain ⟨hbd, rfl, rfl⟩ := Poll.finishBody_ok_full _ _ _ _ _ _ _ h
            rw [hv] at hle hbd hne ⊢
            refine ⟨cb, rest, v, k, rest', hdr, rfl, hdig, hle, rfl, by omega, hnw', .inr ⟨hbe, ?_, hbd⟩⟩
            intro hnil
            exact hne ((take_eq_nil_iff_of_le hle).mp hnil)
          · cases h
    · rintro ⟨cb', rest0, v, k, rest', hdr, heq, hdig, hle, rfl, rfl, hnw, hmb⟩
      cases heq
      have hd := (decodeVarInt_iff_digits ((pollFamily debug).ofCommon .invalidVarByteInt)
        rest v k rest').mpr hdig
      obtain ⟨hk, -, -⟩ := Poll.decodeVarIntAux_ok _ _ _ _ _ _ _ hd
      have hrl : hdr.remainingLen = v := newWith_remainingLen hnw
      rw [hd]
      simp only []
      have hnw' : (pollFamily debug).newWith cb v = .ok hdr := hnw
      rcases hmb with ⟨hbe, hnil⟩ | ⟨hbe, hnn, hbd⟩
      · have hv : v = 0 := (take_eq_nil_iff_of_le hle).mp hnil
        subst hv
        have hbe' : (pollFamily debug).buildEmpty hdr = some p := hbe
        have hrl' : (pollFamily debug).remainingLen hdr = 0 := hrl
        have hf : Poll.finishHeader (pollFamily debug) cb (k - 1) 0 =
            .inr (.ok (1 + 1 + (k - 1)) [] p) := by
          unfold Poll.finishHeader
          rw [hnw']; simp only [hbe', hrl']; rfl
        rw [hf]
        simp only [List.take_zero]
        congr 1; omega
      · have hv : v ≠ 0 := fun hv => hnn ((take_eq_nil_iff_of_le hle).mpr hv)
        have hbe' : (pollFamily debug).buildEmpty hdr = none := hbe
        have hrl' : (pollFamily debug).remainingLen hdr = v := hrl
        have hf : Poll.finishHeader (pollFamily debug) cb (k - 1) v =
            .inl (.body hdr (1 + 1 + (k - 1) + v) v []) := by
          unfold Poll.finishHeader
          rw [hnw']; simp only [hbe', hrl', hv, if_false]
        rw [hf]
        simp only [hle, if_true]
        have hbd' : (pollFamily debug).blockDecode hdr (rest'.take v) = .ok p [] := hbd
        unfold Poll.finishBody
        rw [hbd']
        simp only [List.isEmpty_nil, if_true]
        congr 1; omega


/-! ## acceptance and values -/

theorem specBody_publish_flags {m : Bool} {flags : UInt8} {b : Bytes} {p : Packet}
    (h : specBody m .publish flags b = some p) : Spec.pubFlagsOk flags = true := by
  obtain ⟨fs, hf, hv, -⟩ := (specBody_eq_some_iff m .publish flags b p).mp h
  rw [fieldsOf_publish] at hf
  cases hl : Spec.lenPrefixed b with
  | none => rw [hl] at hf; cases hf
  | some x =>
    obtain ⟨topic, r1⟩ := x
    rw [hl] at hf
    simp only [] at hf
    split at hf
    · cases hf
      simp only [Spec.validV3, Bool.and_eq_true] at hv
      exact hv.2.1.1.1
    · split at hf
      · cases hf
        simp only [Spec.validV3, Bool.and_eq_true] at hv
        exact hv.2.1.1.1
      · cases hf

/-- Soundness, for either reading of "minimal": what the strict decoder accepts is a frame of the
grammar, with the same values and size. -/
theorem model_to_spec (m debug : Bool) (bs : Bytes) (term : Poll.Term) (total : Nat) (body : Bytes)
    (p : Packet) (h : (Poll.spec (pollFamily debug) bs term).1 = .ok total body p)
    (hm : m = true → total = 1 + Spec.varIntSize body.length + body.length) :
    Spec.decodeV3With m bs = some (p, total) := by
  obtain ⟨cb, rest, v, k, rest', hdr, rfl, hdig, hle, rfl, rfl, hnw, hmb⟩ :=
    (model_accepts_iff debug bs term total body p).mp h
  obtain ⟨t, flags, hs, hrel⟩ := newWith_ok_spec hnw
  have hlen : (rest'.take v).length = v := by rw [List.length_take, Nat.min_eq_left hle]
  rw [← hlen] at hrel
  have hsb := (body_agree m debug hdr t flags (rest'.take v) p hrel).mp hmb
  refine (decodeV3With_iff m _ p _).mpr ⟨cb, rest, t, flags, v, k, rest', rfl, hs, hdig, ?_, hle, rfl, hsb⟩
  intro hmt
  have := hm hmt
  rw [hlen] at this
  omega

/-- Completeness, for either reading of "minimal": every frame of the grammar is accepted by the
strict decoder, with the same values and size. -/
theorem spec_to_model (m debug : Bool) (bs : Bytes) (term : Poll.Term) (total : Nat)
    (p : Packet) (h : Spec.decodeV3With m bs = some (p, total)) :
    ∃ body, (Poll.spec (pollFamily debug) bs term).1 = .ok total body p ∧
      (m = true → total = 1 + Spec.varIntSize body.length + body.length) := by
  obtain ⟨cb, rest, t, flags, v, k, rest', rfl, hs, hdig, hmin, hle, rfl, hsb⟩ :=
    (decodeV3With_iff m bs p total).mp h
  have hlen : (rest'.take v).length = v := by rw [List.length_take, Nat.min_eq_left hle]
  obtain ⟨hdr, hnw, hrel⟩ := spec_ok_newWith v hs (fun ht => by subst ht; exact specBody_publish_flags hsb)
  have hrel' : HdrRel hdr (rest'.take v).length t flags := by rw [hlen]; exact hrel
  have hmb := (body_agree m debug hdr t flags (rest'.take v) p hrel').mpr hsb
  refine ⟨rest'.take v, (model_accepts_iff debug _ term _ _ p).mpr
    ⟨cb, rest, v, k, rest', hdr, rfl, hdig, hle, rfl, rfl, hnw, hmb⟩, ?_⟩
  intro hmt
  rw [hlen, hmin hmt]

end Mqtt.V3
