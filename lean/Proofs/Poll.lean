import Mqtt.Poll
import Mqtt.VarInt

namespace Mqtt.Poll
open Mqtt

variable {H P E : Type}

/-- The terminal error of the transport, as the machine reports it. -/
def termErr (fam : Family H P E) : Term → E
  | .eof => fam.ofCommon (.ioError .unexpectedEof)
  | .err k => fam.ofCommon (.ioError k)

/-- State invariant: the body buffer is never full while the machine is waiting. -/
def Inv : State H → Prop
  | .header _ => True
  | .body _ _ len buf => buf.length < len

/-- The `deliver` local function of `runAux`, with the already extended log. -/
def deliver (fam : Family H P E) (debug : Bool) (term : Term) (fuel : Nat) (st : State H)
    (rest : Bytes) (pos : Nat) (limit : Nat) (sched' : List Sched) (log : Log) : RunResult P E :=
  if rest.isEmpty then
    match term with
    | .eof => ⟨.err (fam.ofCommon (.ioError .unexpectedEof)), pos, log⟩
    | .err k => ⟨.err (fam.ofCommon (.ioError k)), pos, log⟩
  else
    let n := min (min limit (want st)) rest.length
    if n = 0 then ⟨.panic "zero-capacity read", pos, log⟩ else
    match onData fam debug st (rest.take n) with
    | .inl st' => runAux fam debug term fuel st' (rest.drop n) (pos + n) sched' log
    | .inr r => ⟨r, pos + n, log⟩

def logReq (log : Log) (pos cap : Nat) : Log :=
  { log with requests := log.requests ++ [(pos, cap)] }

theorem runAux_zero (fam : Family H P E) debug term st rest pos sched log :
    runAux fam debug term 0 st rest pos sched log = ⟨.panic "out of fuel", pos, log⟩ := rfl

theorem runAux_pending (fam : Family H P E) debug term fuel st rest pos sched' log :
    runAux fam debug term (fuel + 1) st rest pos (.pending :: sched') log =
      runAux fam debug term fuel st rest pos sched'
        { logReq log pos (want st) with pendings := log.pendings + 1 } := rfl

theorem runAux_pendingDrop (fam : Family H P E) debug term fuel st rest pos sched' log :
    runAux fam debug term (fuel + 1) st rest pos (.pendingDrop :: sched') log =
      runAux fam debug term fuel st rest pos sched'
        { logReq log pos (want st) with pendings := log.pendings + 1, drops := log.drops + 1 } := rfl

theorem runAux_chunk (fam : Family H P E) debug term fuel st rest pos n sched' log :
    runAux fam debug term (fuel + 1) st rest pos (.chunk n :: sched') log =
      deliver fam debug term fuel st rest pos (max n 1) sched' (logReq log pos (want st)) := rfl

theorem runAux_nil (fam : Family H P E) debug term fuel st rest pos log :
    runAux fam debug term (fuel + 1) st rest pos [] log =
      deliver fam debug term fuel st rest pos rest.length [] (logReq log pos (want st)) := rfl

/-- Case analysis of one delivering `poll_read` under the state invariant. -/
theorem deliver_elim {motive : RunResult P E → Prop}
    (fam : Family H P E) (debug : Bool) (term : Term) (fuel : Nat) (st : State H)
    (rest : Bytes) (pos limit : Nat) (sched' : List Sched) (log : Log)
    (hinv : Inv st) (hlim : rest ≠ [] → 1 ≤ limit)
    (hterm : rest = [] → motive ⟨.err (termErr fam term), pos, log⟩)
    (hhdr : ∀ hs b rest', st = .header hs → rest = b :: rest' →
      motive (match headerByte fam hs b with
        | .inl st' => runAux fam debug term fuel st' rest' (pos + 1) sched' log
        | .inr r => ⟨r, pos + 1, log⟩))
    (hbody : ∀ h total len buf n, st = .body h total len buf → 0 < n →
      n ≤ len - buf.length → n ≤ rest.length →
      motive (if buf.length + n = len then
          ⟨finishBody fam h total (buf ++ rest.take n), pos + n, log⟩
        else runAux fam debug term fuel (.body h total len (buf ++ rest.take n))
          (rest.drop n) (pos + n) sched' log)) :
    motive (deliver fam debug term fuel st rest pos limit sched' log) := by
  unfold deliver
  cases rest with
  | nil =>
    have := hterm rfl
    cases term <;> simpa [termErr] using this
  | cons b rest' =>
    have hl := hlim (by simp)
    cases st with
    | header hs =>
      have hn : min (min limit (want (State.header (H := H) hs))) (b :: rest').length = 1 := by
        simp [want]; omega
      have := hhdr hs b rest' rfl rfl
      simp only [List.isEmpty_cons, Bool.false_eq_true, if_false, hn, List.take_succ_cons,
        List.take_zero, List.drop_succ_cons, List.drop_zero, onData]
      simp
      split <;> simp_all
    | body h total len buf =>
      simp only [Inv] at hinv
      generalize hn : min (min limit (want (State.body h total len buf))) (b :: rest').length = n
      have hn0 : 0 < n := by simp [want] at hn; omega
      have hn1 : n ≤ len - buf.length := by simp [want] at hn; omega
      have hn2 : n ≤ (b :: rest').length := by simp [want] at hn ⊢; omega
      have := hbody h total len buf n rfl hn0 hn1 hn2
      have hlen : (buf ++ List.take n (b :: rest')).length = buf.length + n := by
        rw [List.length_append, List.length_take]; omega
      simp only [List.isEmpty_cons, Bool.false_eq_true, if_false, onData, hlen]
      rw [if_neg (by omega)]
      have hdbg : (debug && decide (buf.length + n > len)) = false := by
        simp; intro _; omega
      rw [hdbg]
      simp only [Bool.false_eq_true, if_false]
      split at this
      · rename_i heq; simpa [heq] using this
      · rename_i hne; simpa [hne] using this

/-- What `finishHeader` can return as a next state. -/
theorem finishHeader_inl (fam : Family H P E) (cb : UInt8) (vi v : Nat) (st : State H)
    (h : finishHeader fam cb vi v = .inl st) :
    ∃ hd, fam.newWith cb v = .ok hd ∧ fam.buildEmpty hd = none ∧ fam.remainingLen hd ≠ 0 ∧
      st = .body hd (1 + 1 + vi + fam.remainingLen hd) (fam.remainingLen hd) [] := by
  unfold finishHeader at h
  split at h
  · simp at h
  · rename_i hd hnw
    split at h
    · split at h <;> simp at h
    · rename_i hbe
      split at h
      · simp at h
      · rename_i hne
        refine ⟨hd, hnw, hbe, hne, ?_⟩
        simpa using h.symm

theorem finishHeader_inv (fam : Family H P E) (cb : UInt8) (vi v : Nat) (st : State H)
    (h : finishHeader fam cb vi v = .inl st) : Inv st := by
  obtain ⟨hd, _, _, hne, rfl⟩ := finishHeader_inl fam cb vi v st h
  simp only [Inv, List.length_nil]; omega

theorem headerByte_inv (fam : Family H P E) (hs : HeaderState) (b : UInt8) (st : State H)
    (h : headerByte fam hs b = .inl st) : Inv st := by
  unfold headerByte at h
  split at h
  · simp at h; subst h; trivial
  · simp only at h
    split at h
    · exact finishHeader_inv _ _ _ _ _ h
    · split at h
      · simp at h; subst h; trivial
      · simp at h

/-- Outcome and position from a machine state on the unread stream, as a function of
the stream alone. -/
def specSt (fam : Family H P E) (term : Term) : Bytes → State H → Nat → Ready P E × Nat
  | rest, .body h total len buf, pos =>
    if len - buf.length ≤ rest.length then
      (finishBody fam h total (buf ++ rest.take (len - buf.length)), pos + (len - buf.length))
    else (.err (termErr fam term), pos + rest.length)
  | [], .header _, pos => (.err (termErr fam term), pos)
  | b :: rest, .header hs, pos =>
    match headerByte fam hs b with
    | .inr r => (r, pos + 1)
    | .inl st' => specSt fam term rest st' (pos + 1)

def RunResult.out (r : RunResult P E) : Ready P E × Nat := (r.result, r.consumed)

theorem runAux_specSt (fam : Family H P E) (debug : Bool) (term : Term) :
    ∀ fuel st rest pos sched log, Inv st → rest.length + sched.length + 1 ≤ fuel →
      (runAux fam debug term fuel st rest pos sched log).out = specSt fam term rest st pos := by
  intro fuel
  induction fuel with
  | zero => intro st rest pos sched log _ h; omega
  | succ fuel ih =>
    intro st rest pos sched log hinv hfuel
    have hdel : ∀ limit sched' log', (rest ≠ [] → 1 ≤ limit) →
        rest.length + sched'.length ≤ fuel →
        (deliver fam debug term fuel st rest pos limit sched' log').out =
          specSt fam term rest st pos := by
      intro limit sched' log' hlim hf
      apply deliver_elim (motive := fun r => r.out = specSt fam term rest st pos)
        fam debug term fuel st rest pos limit sched' log' hinv hlim
      · intro hr; subst hr
        cases st <;> simp [specSt, RunResult.out]
        simp [Inv] at hinv; omega
      · intro hs b rest' hst hr; subst hst hr
        simp only [specSt]
        cases heq : headerByte fam hs b with
        | inl st' =>
          simp only []
          rw [ih _ _ _ _ _ (headerByte_inv _ _ _ _ heq) (by simp at hf ⊢; omega)]
        | inr r => rfl
      · intro h total len buf n hst hn0 hn1 hn2; subst hst
        simp only [Inv] at hinv
        split
        · rename_i heq
          have : len - buf.length = n := by omega
          simp [specSt, RunResult.out, this, hn2]
        · rename_i hne
          rw [ih _ _ _ _ _ (by simp only [Inv, List.length_append, List.length_take]; omega)
            (by simp only [List.length_drop]; omega)]
          simp only [specSt, List.length_append, List.length_take, List.length_drop,
            List.append_assoc]
          have h1 : len - (buf.length + min n rest.length) = len - buf.length - n := by omega
          rw [h1]
          by_cases hc : len - buf.length ≤ rest.length
          · rw [if_pos (by omega), if_pos hc]
            have h2 : len - buf.length = n + (len - buf.length - n) := by omega
            have h3 : rest.take n ++ (rest.drop n).take (len - buf.length - n) =
                rest.take (len - buf.length) := by
              conv => rhs; rw [h2, List.take_add]
            rw [h3]
            simp only [Prod.mk.injEq, true_and]; omega
          · rw [if_neg (by omega), if_neg hc]
            simp only [Prod.mk.injEq, true_and]; omega
    cases sched with
    | nil => rw [runAux_nil]; exact hdel _ _ _ (by intro h; cases rest <;> simp_all) (by simp at hfuel ⊢; omega)
    | cons item sched' =>
      simp only [List.length_cons] at hfuel
      cases item with
      | chunk n => rw [runAux_chunk]; exact hdel _ _ _ (by intro _; omega) (by omega)
      | pending => rw [runAux_pending]; exact ih _ _ _ _ _ hinv (by omega)
      | pendingDrop => rw [runAux_pendingDrop]; exact ih _ _ _ _ _ hinv (by omega)

/-! ### the header phase against `decodeVarIntAux` -/

theorem decodeVarIntAux_ok {ε} (inv : ε) : ∀ (rest : Bytes) (i acc v k : Nat) (rest' : Bytes),
    decodeVarIntAux inv i acc rest = .ok (v, k) rest' →
      i < k ∧ rest.length + i = k + rest'.length ∧ rest' = rest.drop (k - i) := by
  intro rest
  induction rest with
  | nil => intro i acc v k rest' h; simp [decodeVarIntAux] at h
  | cons b rest ih =>
    intro i acc v k rest' h
    simp only [decodeVarIntAux] at h
    split at h
    · simp only [Res.ok.injEq, Prod.mk.injEq] at h
      obtain ⟨⟨_, rfl⟩, rfl⟩ := h
      simp; omega
    · split at h
      · obtain ⟨h1, h2, h3⟩ := ih _ _ _ _ _ h
        refine ⟨by omega, by simp only [List.length_cons]; omega, ?_⟩
        have : k - i = (k - (i + 1)) + 1 := by omega
        rw [this, List.drop_succ_cons]; exact h3
      · simp at h

theorem decodeVarIntAux_no_panic {ε} (inv : ε) : ∀ (rest : Bytes) (i acc : Nat) (site : String),
    decodeVarIntAux inv i acc rest ≠ .panic site := by
  intro rest
  induction rest with
  | nil => intro i acc site h; simp [decodeVarIntAux] at h
  | cons b rest ih =>
    intro i acc site h
    simp only [decodeVarIntAux] at h
    split at h
    · simp at h
    · split at h
      · exact ih _ _ _ h
      · simp at h

/-- `spec`, started in the middle of the length bytes. -/
def specHdr (fam : Family H P E) (term : Term) (cb : UInt8) (i acc : Nat) (rest : Bytes)
    (pos : Nat) : Ready P E × Nat :=
  match decodeVarIntAux (fam.ofCommon .invalidVarByteInt) i acc rest with
  | .more => (.err (termErr fam term), pos + rest.length)
  | .err e => (.err e, pos + 4 - i)
  | .panic p => (.panic p, 0)
  | .ok (v, k) rest' =>
    match finishHeader fam cb (k - 1) v with
    | .inr r => (r, pos + k - i)
    | .inl st => specSt fam term rest' st (pos + k - i)

theorem specSt_header (fam : Family H P E) (term : Term) (cb : UInt8) :
    ∀ (rest : Bytes) (i acc pos : Nat), i ≤ 3 →
      specSt fam term rest (.header ⟨some cb, i, acc⟩) pos = specHdr fam term cb i acc rest pos := by
  intro rest
  induction rest with
  | nil => intro i acc pos _; simp [specSt, specHdr, decodeVarIntAux]
  | cons b rest ih =>
    intro i acc pos hi
    simp only [specSt, specHdr, decodeVarIntAux, headerByte]
    by_cases hb : b.toNat < 128
    · simp only [hb, if_true, Nat.add_sub_cancel]
      have : pos + (i + 1) - i = pos + 1 := by omega
      rw [this]
    · simp only [hb, if_false]
      by_cases hi3 : i < 3
      · simp only [hi3, if_true]
        rw [ih _ _ _ (by omega)]
        simp only [specHdr, List.length_cons]
        have e1 : ∀ k, pos + 1 + k - (i + 1) = pos + k - i := by intro k; omega
        have e3 : pos + 1 + rest.length = pos + (rest.length + 1) := by omega
        simp only [e1, e3]
      · simp only [hi3, if_false]
        have : pos + 4 - i = pos + 1 := by omega
        rw [this]

theorem specSt_eq_spec (fam : Family H P E) (term : Term) (s : Bytes) :
    specSt fam term s (.header {}) 0 = spec fam s term := by
  cases s with
  | nil => cases term <;> rfl
  | cons cb rest =>
    simp only [specSt, headerByte, spec]
    rw [specSt_header fam term cb rest 0 0 1 (by omega)]
    simp only [specHdr]
    cases hd : decodeVarIntAux (fam.ofCommon .invalidVarByteInt) 0 0 rest with
    | more => simp only [List.length_cons]; rw [Nat.add_comm]; cases term <;> rfl
    | err e => rfl
    | panic p => rfl
    | ok a rest' =>
      obtain ⟨v, k⟩ := a
      obtain ⟨hk, hlen, -⟩ := decodeVarIntAux_ok _ _ _ _ _ _ _ hd
      simp only [Nat.sub_zero]
      cases hf : finishHeader fam cb (k - 1) v with
      | inr r => rfl
      | inl st =>
        obtain ⟨hd', -, -, -, rfl⟩ := finishHeader_inl _ _ _ _ _ hf
        simp only [specSt, List.length_nil, Nat.sub_zero, List.nil_append, List.length_cons]
        split
        · rfl
        · have : 1 + k + rest'.length = rest.length + 1 := by omega
          rw [this]; cases term <;> rfl

theorem run_out_eq_spec (fam : Family H P E) (debug : Bool) (s : Bytes) (sched : List Sched)
    (term : Term) : (run fam debug s sched term).out = spec fam s term := by
  unfold run
  rw [runAux_specSt fam debug term _ _ _ _ _ _ (show Inv (.header {}) from trivial) (by omega),
    specSt_eq_spec]

/-! ### facts about `spec` -/

theorem finishBody_ok (fam : Family H P E) (h : H) (total : Nat) (buf : Bytes) (t : Nat)
    (b : Bytes) (p : P) (hr : finishBody fam h total buf = .ok t b p) : t = total ∧ b = buf := by
  unfold finishBody at hr
  split at hr
  · split at hr
    · simp only [Ready.ok.injEq] at hr; exact ⟨hr.1.symm, hr.2.1.symm⟩
    · simp at hr
  · simp at hr
  · split at hr <;> simp at hr
  · simp at hr

theorem finishBody_panic (fam : Family H P E) (h : H) (total : Nat) (buf : Bytes) (site : String)
    (hr : finishBody fam h total buf = .panic site) : fam.blockDecode h buf = .panic site := by
  unfold finishBody at hr
  split at hr
  · split at hr <;> simp at hr
  · simp at hr
  · split at hr <;> simp at hr
  · rename_i s hs; simp only [Ready.panic.injEq] at hr; rw [hs, hr]

theorem finishHeader_inr_ok (fam : Family H P E) (cb : UInt8) (vi v : Nat) (t : Nat)
    (b : Bytes) (p : P) (hr : finishHeader fam cb vi v = .inr (.ok t b p)) :
    t = 1 + 1 + vi ∧ b = [] := by
  unfold finishHeader at hr
  split at hr
  · simp at hr
  · split at hr
    · split at hr
      · simp at hr
      · simp only [Sum.inr.injEq, Ready.ok.injEq] at hr; exact ⟨hr.1.symm, hr.2.1.symm⟩
    · split at hr <;> simp at hr

theorem finishHeader_no_panic (fam : Family H P E) (cb : UInt8) (vi v : Nat) (site : String) :
    finishHeader fam cb vi v ≠ .inr (.panic site) := by
  intro hr
  unfold finishHeader at hr
  split at hr
  · simp at hr
  · split at hr
    · split at hr <;> simp at hr
    · split at hr <;> simp at hr

theorem spec_ok (fam : Family H P E) (s : Bytes) (term : Term) (total : Nat) (body : Bytes) (p : P)
    (h : (spec fam s term).1 = .ok total body p) :
    (spec fam s term).2 = total ∧ total ≤ s.length ∧
      body = (s.take total).drop (total - body.length) := by
  cases s with
  | nil => simp [spec] at h
  | cons cb rest =>
    simp only [spec] at h ⊢
    cases hd : decodeVarIntAux (fam.ofCommon .invalidVarByteInt) 0 0 rest with
    | more => simp [hd] at h
    | err e => simp [hd] at h
    | panic q => simp [hd] at h
    | ok a rest' =>
      obtain ⟨v, k⟩ := a
      obtain ⟨hk, hlen, hrest'⟩ := decodeVarIntAux_ok _ _ _ _ _ _ _ hd
      simp only [hd] at h ⊢
      cases hf : finishHeader fam cb (k - 1) v with
      | inr r =>
        simp only [hf] at h ⊢
        subst h
        obtain ⟨rfl, rfl⟩ := finishHeader_inr_ok _ _ _ _ _ _ _ hf
        refine ⟨by omega, by simp only [List.length_cons]; omega, ?_⟩
        simp
      | inl st =>
        obtain ⟨hd', -, -, hne, rfl⟩ := finishHeader_inl _ _ _ _ _ hf
        simp only [hf] at h ⊢
        split at h
        · rename_i hle
          rw [if_pos hle]
          obtain ⟨rfl, rfl⟩ := finishBody_ok _ _ _ _ _ _ _ h
          refine ⟨by omega, by simp only [List.length_cons]; omega, ?_⟩
          have e1 : 1 + 1 + (k - 1) + fam.remainingLen hd' = (k + fam.remainingLen hd') + 1 := by
            omega
          rw [e1, List.take_succ_cons, List.length_take, Nat.min_eq_left hle]
          have e2 : k + fam.remainingLen hd' + 1 - fam.remainingLen hd' = k + 1 := by omega
          rw [e2, List.drop_succ_cons, hrest', Nat.sub_zero, List.drop_take]
          congr 1; omega
        · simp at h

theorem spec_panic (fam : Family H P E) (s : Bytes) (term : Term) (site : String)
    (h : (spec fam s term).1 = .panic site) :
    ∃ cb rl hd bs, fam.newWith cb rl = .ok hd ∧ fam.buildEmpty hd = none ∧
      fam.blockDecode hd bs = .panic site := by
  cases s with
  | nil => simp [spec] at h
  | cons cb rest =>
    simp only [spec] at h
    cases hd : decodeVarIntAux (fam.ofCommon .invalidVarByteInt) 0 0 rest with
    | more => simp [hd] at h
    | err e => simp [hd] at h
    | panic q => exact absurd hd (decodeVarIntAux_no_panic _ _ _ _ _)
    | ok a rest' =>
      obtain ⟨v, k⟩ := a
      simp only [hd] at h
      cases hf : finishHeader fam cb (k - 1) v with
      | inr r =>
        simp only [hf] at h
        subst h
        exact absurd hf (finishHeader_no_panic _ _ _ _ _)
      | inl st =>
        obtain ⟨hd', hnw, hbe, hne, rfl⟩ := finishHeader_inl _ _ _ _ _ hf
        simp only [hf] at h
        split at h
        · exact ⟨cb, v, hd', _, hnw, hbe, finishBody_panic _ _ _ _ _ h⟩
        · simp at h

/-! ### the log -/

def isPend : Sched → Bool
  | .chunk _ => false
  | _ => true

theorem runAux_pendings (fam : Family H P E) (debug : Bool) (term : Term) :
    ∀ fuel st rest pos sched log,
      (runAux fam debug term fuel st rest pos sched log).log.pendings ≤
        log.pendings + (sched.filter isPend).length := by
  intro fuel
  induction fuel with
  | zero => intro st rest pos sched log; simp [runAux_zero]
  | succ fuel ih =>
    intro st rest pos sched log
    have hdel : ∀ limit sched' log',
        (deliver fam debug term fuel st rest pos limit sched' log').log.pendings ≤
          log'.pendings + (sched'.filter isPend).length := by
      intro limit sched' log'
      unfold deliver
      simp only []
      repeat' split
      all_goals first
        | exact ih _ _ _ _ _
        | exact Nat.le_add_right _ _
    cases sched with
    | nil => rw [runAux_nil]; exact hdel _ _ _
    | cons item sched' =>
      cases item with
      | chunk n => rw [runAux_chunk]; simpa [isPend, logReq] using hdel (max n 1) sched' (logReq log pos (want st))
      | pending =>
        rw [runAux_pending]
        refine Nat.le_trans (ih _ _ _ _ _) ?_
        have : (List.filter isPend (.pending :: sched')).length =
            (List.filter isPend sched').length + 1 := by simp [List.filter_cons, isPend]
        simp only [this]; omega
      | pendingDrop =>
        rw [runAux_pendingDrop]
        refine Nat.le_trans (ih _ _ _ _ _) ?_
        have : (List.filter isPend (.pendingDrop :: sched')).length =
            (List.filter isPend sched').length + 1 := by simp [List.filter_cons, isPend]
        simp only [this]; omega

/-- End of the current frame as seen from a machine state on the unread stream. -/
def frameEndSt (fam : Family H P E) : Bytes → State H → Nat → Nat
  | _, .body _ _ len buf, pos => pos + (len - buf.length)
  | [], .header _, pos => pos + 1
  | b :: rest, .header hs, pos =>
    match headerByte fam hs b with
    | .inr _ => pos + 1
    | .inl st' => frameEndSt fam rest st' (pos + 1)

theorem frameEndSt_lb (fam : Family H P E) : ∀ (rest : Bytes) (st : State H) (pos : Nat),
    Inv st → pos + 1 ≤ frameEndSt fam rest st pos := by
  intro rest
  induction rest with
  | nil =>
    intro st pos hinv
    cases st with
    | header hs => simp [frameEndSt]
    | body h total len buf => simp only [Inv] at hinv; simp only [frameEndSt]; omega
  | cons b rest ih =>
    intro st pos hinv
    cases st with
    | header hs =>
      simp only [frameEndSt]
      cases heq : headerByte fam hs b with
      | inr r => simp
      | inl st' =>
        have := ih st' (pos + 1) (headerByte_inv _ _ _ _ heq)
        simp only []; omega
    | body h total len buf => simp only [Inv] at hinv; simp only [frameEndSt]; omega

theorem want_ok (fam : Family H P E) (rest : Bytes) (st : State H) (pos : Nat) (hinv : Inv st) :
    1 ≤ want st ∧ pos + want st ≤ frameEndSt fam rest st pos := by
  cases st with
  | header hs => exact ⟨Nat.le_refl _, frameEndSt_lb fam rest _ pos hinv⟩
  | body h total len buf =>
    simp only [Inv] at hinv
    cases rest <;> simp only [want, frameEndSt] <;> omega

theorem runAux_requests (fam : Family H P E) (debug : Bool) (term : Term) :
    ∀ fuel st rest pos sched log, Inv st →
      ∀ pc ∈ (runAux fam debug term fuel st rest pos sched log).log.requests,
        pc ∈ log.requests ∨ (1 ≤ pc.2 ∧ pc.1 + pc.2 ≤ frameEndSt fam rest st pos) := by
  intro fuel
  induction fuel with
  | zero => intro st rest pos sched log _ pc hpc; exact Or.inl (by simpa [runAux_zero] using hpc)
  | succ fuel ih =>
    intro st rest pos sched log hinv
    have hreq : ∀ pc ∈ (logReq log pos (want st)).requests,
        pc ∈ log.requests ∨ (1 ≤ pc.2 ∧ pc.1 + pc.2 ≤ frameEndSt fam rest st pos) := by
      intro pc hpc
      simp only [logReq, List.mem_append, List.mem_singleton] at hpc
      rcases hpc with h | rfl
      · exact Or.inl h
      · exact Or.inr (want_ok fam rest st pos hinv)
    have hdel : ∀ limit sched', (rest ≠ [] → 1 ≤ limit) →
        ∀ pc ∈ (deliver fam debug term fuel st rest pos limit sched'
            (logReq log pos (want st))).log.requests,
          pc ∈ log.requests ∨ (1 ≤ pc.2 ∧ pc.1 + pc.2 ≤ frameEndSt fam rest st pos) := by
      intro limit sched' hlim
      apply deliver_elim (motive := fun r => ∀ pc ∈ r.log.requests,
          pc ∈ log.requests ∨ (1 ≤ pc.2 ∧ pc.1 + pc.2 ≤ frameEndSt fam rest st pos))
        fam debug term fuel st rest pos limit sched' _ hinv hlim
      · intro _; exact hreq
      · intro hs b rest' hst hr; subst hst hr
        cases heq : headerByte fam hs b with
        | inr r => exact hreq
        | inl st' =>
          intro pc hpc
          rcases ih _ _ _ _ _ (headerByte_inv _ _ _ _ heq) pc hpc with h | h
          · exact hreq pc h
          · right; simpa only [frameEndSt, heq] using h
      · intro h total len buf n hst hn0 hn1 hn2; subst hst
        simp only [Inv] at hinv
        split
        · exact hreq
        · rename_i hne
          intro pc hpc
          rcases ih _ _ _ _ _ (by simp only [Inv, List.length_append, List.length_take]; omega)
            pc hpc with h | h
          · exact hreq pc h
          · right
            refine ⟨h.1, Nat.le_trans h.2 ?_⟩
            cases rest <;> simp only [frameEndSt, List.length_append, List.length_take] <;> omega
    cases sched with
    | nil => rw [runAux_nil]; exact hdel _ _ (by intro h; cases rest <;> simp_all)
    | cons item sched' =>
      cases item with
      | chunk n => rw [runAux_chunk]; exact hdel _ _ (by intro _; omega)
      | pending =>
        rw [runAux_pending]
        intro pc hpc
        rcases ih _ _ _ _ _ hinv pc hpc with h | h
        · exact hreq pc h
        · exact Or.inr h
      | pendingDrop =>
        rw [runAux_pendingDrop]
        intro pc hpc
        rcases ih _ _ _ _ _ hinv pc hpc with h | h
        · exact hreq pc h
        · exact Or.inr h

/-- `frameEnd`, started in the middle of the length bytes. -/
def frameEndHdr (fam : Family H P E) (cb : UInt8) (i acc : Nat) (rest : Bytes) (pos : Nat) : Nat :=
  match decodeVarIntAux (fam.ofCommon .invalidVarByteInt) i acc rest with
  | .more => pos + rest.length + 1
  | .err _ => pos + 4 - i
  | .panic _ => 0
  | .ok (v, k) rest' =>
    match finishHeader fam cb (k - 1) v with
    | .inr _ => pos + k - i
    | .inl st => frameEndSt fam rest' st (pos + k - i)

theorem frameEndSt_header (fam : Family H P E) (cb : UInt8) :
    ∀ (rest : Bytes) (i acc pos : Nat), i ≤ 3 →
      frameEndSt fam rest (.header ⟨some cb, i, acc⟩) pos = frameEndHdr fam cb i acc rest pos := by
  intro rest
  induction rest with
  | nil => intro i acc pos _; simp [frameEndSt, frameEndHdr, decodeVarIntAux]
  | cons b rest ih =>
    intro i acc pos hi
    simp only [frameEndSt, frameEndHdr, decodeVarIntAux, headerByte]
    by_cases hb : b.toNat < 128
    · simp only [hb, if_true, Nat.add_sub_cancel]
      have : pos + (i + 1) - i = pos + 1 := by omega
      rw [this]
    · simp only [hb, if_false]
      by_cases hi3 : i < 3
      · simp only [hi3, if_true]
        rw [ih _ _ _ (by omega)]
        simp only [frameEndHdr, List.length_cons]
        have e1 : ∀ k, pos + 1 + k - (i + 1) = pos + k - i := by intro k; omega
        have e3 : pos + 1 + rest.length + 1 = pos + (rest.length + 1) + 1 := by omega
        simp only [e1, e3]
      · simp only [hi3, if_false]
        have : pos + 4 - i = pos + 1 := by omega
        rw [this]

/-- Copy of `C05.frameEnd` (the property file imports this one). -/
def frameEnd' (fam : Family H P E) (s : Bytes) : Nat :=
  match s with
  | [] => 1
  | cb :: rest =>
    match decodeVarIntAux (fam.ofCommon .invalidVarByteInt) 0 0 rest with
    | .more => s.length + 1
    | .err _ => 5
    | .panic _ => 0
    | .ok (v, k) _ =>
      match finishHeader fam cb (k - 1) v with
      | .inl (.body _ total _ _) => total
      | _ => 1 + k

theorem frameEndSt_eq (fam : Family H P E) (s : Bytes) :
    frameEndSt fam s (.header {}) 0 = frameEnd' fam s := by
  cases s with
  | nil => rfl
  | cons cb rest =>
    simp only [frameEndSt, headerByte, frameEnd']
    rw [frameEndSt_header fam cb rest 0 0 1 (by omega)]
    simp only [frameEndHdr]
    cases hd : decodeVarIntAux (fam.ofCommon .invalidVarByteInt) 0 0 rest with
    | more => simp only [List.length_cons]; omega
    | err e => rfl
    | panic p => rfl
    | ok a rest' =>
      obtain ⟨v, k⟩ := a
      obtain ⟨hk, -, -⟩ := decodeVarIntAux_ok _ _ _ _ _ _ _ hd
      simp only [Nat.sub_zero]
      cases hf : finishHeader fam cb (k - 1) v with
      | inr r => rfl
      | inl st =>
        obtain ⟨hd', -, -, -, rfl⟩ := finishHeader_inl _ _ _ _ _ hf
        cases rest' <;> simp only [frameEndSt, List.length_nil] <;> omega

theorem run_requests (fam : Family H P E) (debug : Bool) (s : Bytes) (sched : List Sched)
    (term : Term) :
    ∀ pc ∈ (run fam debug s sched term).log.requests,
      1 ≤ pc.2 ∧ pc.1 + pc.2 ≤ frameEnd' fam s := by
  intro pc hpc
  rw [← frameEndSt_eq]
  rcases runAux_requests fam debug term _ _ _ _ _ _ (show Inv (.header {}) from trivial) pc hpc
    with h | h
  · simp at h
  · exact h

theorem run_pendings (fam : Family H P E) (debug : Bool) (s : Bytes) (sched : List Sched)
    (term : Term) :
    (run fam debug s sched term).log.pendings ≤ (sched.filter isPend).length := by
  have := runAux_pendings fam debug term (s.length + sched.length + 2) (.header {}) s 0 sched {}
  simpa [run] using this

end Mqtt.Poll
