/-
  Proofs.V3RoundTrip — per-packet-type lengths and round trips for MQTT v3, and the
  "frame" lemma from which the three front-end round trips (async, blocking, poll)
  are derived.
-/
import Proofs.Fields
import Mqtt.V3.Valid
import Mqtt.V3.Decode
import Mqtt.V3.Poll

namespace Mqtt

/-! ### code tables -/

/-- Every discriminant of every wire enum is read back as itself. -/
theorem codeOfByte_of_mem_variants : ∀ k : Gen.CodeKind, ∀ d ∈ Gen.variants k, codeOfByte k d = some d := by
  intro k; cases k <;> decide

theorem codeOfByte_of_isVariant {k : Gen.CodeKind} {d : UInt8} (h : isVariant k d = true) :
    codeOfByte k d = some d :=
  codeOfByte_of_mem_variants k d (by simpa [isVariant] using h)

/-! ### `encode_packet` -/

theorem encodePacket_ok (debug : Bool) (cb : UInt8) (n : Nat) (body : Bytes)
    (hl : body.length = n) (hn : n < 268435456) :
    encodePacket debug cb n body = .ok (cb :: (writeVarInt n ++ body)) := by
  unfold encodePacket
  rw [totalLen_closed, if_pos hn]
  simp only [List.length_cons, List.length_append, writeVarInt_length n hn, hl]
  have : (Spec.varIntSize n + n + 1 != n + 1 + Spec.varIntSize n) = false := by
    simp; omega
  simp [this]

theorem encodePacket_err (debug : Bool) (cb : UInt8) (n : Nat) (body : Bytes)
    (hn : ¬ n < 268435456) :
    encodePacket debug cb n body = .err .invalidVarByteInt := by
  unfold encodePacket
  rw [totalLen_closed, if_neg hn]

namespace V3

/-! ### C02: every part writes as many bytes as it reports -/

@[simp] theorem LastWill.encode_length (w : LastWill) : w.encode.length = w.encodeLen := by
  simp [LastWill.encode, LastWill.encodeLen]; omega

@[simp] theorem Connect.encode_length (c : Connect) : c.encode.length = c.encodeLen := by
  obtain ⟨proto, cs, ka, cid, lw, un, pw⟩ := c
  cases lw <;> cases un <;> cases pw <;>
    simp [Connect.encode, Connect.encodeLen] <;> omega

@[simp] theorem Publish.encode_length (p : Publish) : p.encode.length = p.encodeLen := by
  obtain ⟨dup, retain, qp, topic, payload⟩ := p
  cases qp <;> simp [Publish.encode, Publish.encodeLen, QosPid.pidBytes] <;> omega

theorem subscribeTopics_length (ts : List (Topic.TopicFilter × UInt8)) :
    (ts.flatMap (fun (f, q) => writeBytes f.text ++ [q])).length =
      (ts.map (fun (f, _) => 3 + f.text.length)).sum := by
  induction ts with
  | nil => rfl
  | cons x xs ih =>
    obtain ⟨f, q⟩ := x
    simp only [List.flatMap_cons, List.length_append, List.map_cons, List.sum_cons, ih,
      writeBytes_length, List.length_singleton]
    omega

@[simp] theorem Subscribe.encode_length (s : Subscribe) : s.encode.length = s.encodeLen := by
  simp only [Subscribe.encode, Subscribe.encodeLen, List.length_append, u16be_length,
    subscribeTopics_length]

@[simp] theorem Suback.encode_length (s : Suback) : s.encode.length = s.encodeLen := by
  simp [Suback.encode, Suback.encodeLen]

theorem unsubscribeTopics_length (ts : List Topic.TopicFilter) :
    (ts.flatMap (fun f => writeBytes f.text)).length = (ts.map (fun f => 2 + f.text.length)).sum := by
  induction ts with
  | nil => rfl
  | cons x xs ih =>
    simp only [List.flatMap_cons, List.length_append, List.map_cons, List.sum_cons, ih,
      writeBytes_length]

@[simp] theorem Unsubscribe.encode_length (u : Unsubscribe) : u.encode.length = u.encodeLen := by
  simp only [Unsubscribe.encode, Unsubscribe.encodeLen, List.length_append, u16be_length,
    unsubscribeTopics_length]

/-! ### the fixed header -/

/-- QoS number written in the PUBLISH control byte. -/
def QosPid.qos : QosPid → UInt8
  | .level0 => 0 | .level1 _ => 1 | .level2 _ => 2

theorem Header.newWith_of_row {cb : UInt8} {r : Gen.HeaderRow}
    (h : Gen.headerV3.getD cb.toNat (.error .invalidHeader) = .ok r) (n : Nat) :
    Header.newWith cb n = .ok ⟨r.typ, r.dup, r.qos, r.retain, n⟩ := by
  simp only [Header.newWith, h]

theorem Header.newWith_publish (p : Publish) (n : Nat) :
    Header.newWith p.controlByte n = .ok ⟨3, p.dup, QosPid.qos p.qosPid, p.retain, n⟩ := by
  obtain ⟨dup, retain, qp, topic, payload⟩ := p
  cases dup <;> cases retain <;> cases qp <;> (refine Header.newWith_of_row (r := ⟨3, _, _, _⟩) ?_ n; simp [Publish.controlByte]; rfl)

theorem decodeRawHeader_frame (cb : UInt8) (n : Nat) (hn : n < 268435456) (rest : Bytes) :
    decodeRawHeader (cb :: (writeVarInt n ++ rest)) = .ok (cb, n) rest := by
  simp only [decodeRawHeader, decodeVarInt_write n hn]

theorem Header.decode_frame (cb : UInt8) (n : Nat) (hn : n < 268435456) (rest : Bytes) (h : Header)
    (hh : Header.newWith cb n = .ok h) :
    Header.decode (cb :: (writeVarInt n ++ rest)) = .ok h rest := by
  simp [Header.decode, decodeRawHeader_frame cb n hn, hh]

theorem decodeAsync_frame (debug : Bool) (cb : UInt8) (n : Nat) (hn : n < 268435456) (rest : Bytes)
    (h : Header) (hh : Header.newWith cb n = .ok h) :
    decodeAsync debug (cb :: (writeVarInt n ++ rest)) = decodeBody debug h rest := by
  simp [decodeAsync, Header.decode_frame cb n hn rest h hh]


/-! ### body round trips -/

theorem Connack.decode_encode (c : Connack) (hv : isVariant .connectReturnV3 c.code = true) (t : Bytes) :
    Connack.decode (b2u8 c.sessionPresent :: c.code :: t) = .ok c t := by
  obtain ⟨sp, code⟩ := c
  have hc := codeOfByte_of_isVariant hv
  cases sp <;> simp [Connack.decode, take, b2u8, hc]

theorem Publish.decode_encode (p : Publish) (t : Bytes)
    (hn : validTopicName p.topicName = true) (hq : QosPid.valid p.qosPid = true) :
    Publish.decode ⟨3, p.dup, QosPid.qos p.qosPid, p.retain, p.encodeLen⟩ (p.encode ++ t) = .ok p t := by
  obtain ⟨dup, retain, qp, topic, payload⟩ := p
  simp only at hn hq
  have htext := validTopicName_text hn
  cases qp with
  | level0 =>
    simp [Publish.decode, Publish.encode, Publish.encodeLen, QosPid.pidBytes, htext, QosPid.qos, hn]
  | level1 pid =>
    simp only [QosPid.valid] at hq
    have e1 : ∀ bs, checkedSub (2 + topic.length + 2 + payload.length) (2 + topic.length)
        Error.invalidRemainingLength bs = .ok (2 + payload.length) bs :=
      fun bs => checkedSub_eq _ (by omega) bs
    simp [Publish.decode, Publish.encode, Publish.encodeLen, QosPid.pidBytes, htext, QosPid.qos, hn,
      hq, e1]
  | level2 pid =>
    simp only [QosPid.valid] at hq
    have e1 : ∀ bs, checkedSub (2 + topic.length + 2 + payload.length) (2 + topic.length)
        Error.invalidRemainingLength bs = .ok (2 + payload.length) bs :=
      fun bs => checkedSub_eq _ (by omega) bs
    simp [Publish.decode, Publish.encode, Publish.encodeLen, QosPid.pidBytes, htext, QosPid.qos, hn,
      hq, e1]

theorem subackLoop_encode (codes : List UInt8)
    (hv : ∀ c ∈ codes, isVariant .subscribeReturnV3 c = true) (acc : List UInt8) (t : Bytes) :
    subackLoop codes.length acc (codes ++ t) = .ok (acc ++ codes) t := by
  induction codes generalizing acc with
  | nil => simp [subackLoop]
  | cons c cs ih =>
    have hc := codeOfByte_of_isVariant (hv c (by simp))
    simp only [List.length_cons, List.cons_append, subackLoop, readU8_cons, hc]
    rw [ih (fun c' h' => hv c' (by simp [h']))]
    simp

theorem Suback.decode_encode (s : Suback) (t : Bytes) (hp : validPid s.pid = true)
    (hv : s.topics.all (isVariant .subscribeReturnV3) = true) :
    Suback.decode s.encodeLen (s.encode ++ t) = .ok s t := by
  obtain ⟨pid, codes⟩ := s
  simp only [List.all_eq_true] at hv hp
  simp [Suback.decode, Suback.encode, Suback.encodeLen, hp, subackLoop_encode codes hv]

theorem subscribeLoop_encode (debug : Bool) (ts : List (Topic.TopicFilter × UInt8))
    (hv : ∀ x ∈ ts, validTopicFilter x.1 = true ∧ isVariant .qos x.2 = true)
    (acc : List (Topic.TopicFilter × UInt8)) (t : Bytes) :
    subscribeLoop debug (ts.map (fun (f, _) => 3 + f.text.length)).sum acc
      (ts.flatMap (fun (f, q) => writeBytes f.text ++ [q]) ++ t) = .ok (acc ++ ts) t := by
  induction ts generalizing acc with
  | nil => rw [subscribeLoop]; simp
  | cons x xs ih =>
    obtain ⟨f, q⟩ := x
    obtain ⟨hf, hq⟩ := hv (f, q) (by simp)
    have hpos : 3 + f.text.length + (xs.map (fun (f, _) => 3 + f.text.length)).sum > 0 := by omega
    rw [subscribeLoop]
    simp only [List.map_cons, List.sum_cons, hpos, dite_true, List.flatMap_cons, List.append_assoc,
      readString_writeBytes_valid _ _ (validTopicFilter_text hf), topicFilterTryFrom_valid hf debug,
      List.cons_append, List.nil_append, readU8_cons, qosFromU8_valid hq]
    have hle : 3 + f.text.length ≤ 3 + f.text.length + (xs.map (fun (f, _) => 3 + f.text.length)).sum := by
      omega
    rw [dif_pos hle, Nat.add_sub_cancel_left, ih (fun x hx => hv x (by simp [hx]))]
    simp

theorem Subscribe.decode_encode (debug : Bool) (s : Subscribe) (t : Bytes) (hp : validPid s.pid = true)
    (hne : s.topics.isEmpty = false)
    (hv : s.topics.all (fun (f, q) => validTopicFilter f && isVariant .qos q) = true) :
    Subscribe.decode debug s.encodeLen (s.encode ++ t) = .ok s t := by
  obtain ⟨pid, ts⟩ := s
  simp only [List.all_eq_true, Bool.and_eq_true, Prod.forall] at hv hp hne
  have hv' : ∀ x ∈ ts, validTopicFilter x.1 = true ∧ isVariant .qos x.2 = true :=
    fun x hx => hv x.1 x.2 hx
  have hpos : (ts.map (fun (f, _) => 3 + f.text.length)).sum ≠ 0 := by
    cases ts with
    | nil => simp at hne
    | cons x xs => simp only [List.map_cons, List.sum_cons]; omega
  have := subscribeLoop_encode debug ts hv' [] t
  simp [Subscribe.decode, Subscribe.encode, Subscribe.encodeLen, hp, hpos, this]

theorem unsubscribeLoop_encode (debug : Bool) (ts : List Topic.TopicFilter)
    (hv : ∀ f ∈ ts, validTopicFilter f = true) (acc : List Topic.TopicFilter) (t : Bytes) :
    unsubscribeLoop debug (ts.map (fun f => 2 + f.text.length)).sum acc
      (ts.flatMap (fun f => writeBytes f.text) ++ t) = .ok (acc ++ ts) t := by
  induction ts generalizing acc with
  | nil => rw [unsubscribeLoop]; simp
  | cons f xs ih =>
    have hf := hv f (by simp)
    have hpos : 2 + f.text.length + (xs.map (fun f => 2 + f.text.length)).sum > 0 := by omega
    rw [unsubscribeLoop]
    simp only [List.map_cons, List.sum_cons, hpos, dite_true, List.flatMap_cons, List.append_assoc,
      readString_writeBytes_valid _ _ (validTopicFilter_text hf), topicFilterTryFrom_valid hf debug]
    have hle : 2 + f.text.length ≤ 2 + f.text.length + (xs.map (fun f => 2 + f.text.length)).sum := by
      omega
    rw [dif_pos hle, Nat.add_sub_cancel_left, ih (fun x hx => hv x (by simp [hx]))]
    simp

theorem Unsubscribe.decode_encode (debug : Bool) (u : Unsubscribe) (t : Bytes)
    (hp : validPid u.pid = true) (hne : u.topics.isEmpty = false)
    (hv : u.topics.all validTopicFilter = true) :
    Unsubscribe.decode debug u.encodeLen (u.encode ++ t) = .ok u t := by
  obtain ⟨pid, ts⟩ := u
  simp only [List.all_eq_true] at hv hp hne
  have hpos : (ts.map (fun f => 2 + f.text.length)).sum ≠ 0 := by
    cases ts with
    | nil => simp at hne
    | cons x xs => simp only [List.map_cons, List.sum_cons]; omega
  have := unsubscribeLoop_encode debug ts hv [] t
  simp [Unsubscribe.decode, Unsubscribe.encode, Unsubscribe.encodeLen, hp, hpos, this]



/-- What the decoder's tests on the CONNECT flags byte see. -/
theorem Connect.flags_facts (c : Connect)
    (hq : ∀ w, c.lastWill = some w → isVariant .qos w.qos = true) :
    (c.flags &&& 1 != 0) = false ∧
    (c.flags &&& 0b100 != 0) = c.lastWill.isSome ∧
    (c.flags &&& 0b10000000 != 0) = c.username.isSome ∧
    (c.flags &&& 0b01000000 != 0) = c.password.isSome ∧
    (c.flags &&& 0b10 != 0) = c.cleanSession ∧
    (∀ w, c.lastWill = some w →
      (c.flags &&& 0b11000) >>> 3 = w.qos ∧ (c.flags &&& 0b00100000 != 0) = w.retain) ∧
    (c.lastWill = none → (c.flags &&& 0b11000 != 0) = false) := by
  obtain ⟨proto, cs, ka, cid, lw, un, pw⟩ := c
  cases lw with
  | none =>
    cases cs <;> cases un <;> cases pw <;> (simp [Connect.flags]; try decide)
  | some w =>
    obtain ⟨q, r, tn, m⟩ := w
    have hq' := isVariant_qos (hq _ rfl)
    simp only at hq'
    rcases hq' with rfl | rfl | rfl <;>
    cases cs <;> cases un <;> cases pw <;> cases r <;> (simp [Connect.flags]; try decide)
theorem Connect.decode_encode (c : Connect) (hv : c.valid = true) (t : Bytes) :
    Connect.decode (c.encode ++ t) = .ok c t := by
  have hq : ∀ w, c.lastWill = some w → isVariant .qos w.qos = true := by
    intro w hw
    simp only [Connect.valid, hw, LastWill.valid, Bool.and_eq_true] at hv
    exact hv.1.1.2.1.1
  obtain ⟨f0, fw, fu, fp, fc, fq, fn⟩ := Connect.flags_facts c hq
  obtain ⟨proto, cs, ka, cid, lw, un, pw⟩ := c
  simp only [Connect.valid, Bool.and_eq_true, bne_iff_ne, ne_eq] at hv
  obtain ⟨⟨⟨⟨hp, hcid⟩, hlw⟩, hun⟩, hpw⟩ := hv
  have hlevel : ¬ proto.level > 4 := by cases proto <;> simp_all [Protocol.level]
  simp only [Connect.decode, Connect.encode, List.append_assoc, Parser.bind_apply,
    Protocol.decode_encode, Res.bind_ok, Connect.decodeWithProtocol, hlevel, if_false,
    List.cons_append, List.nil_append, readU8_cons]
  generalize Connect.flags _ = flags at *
  simp only [f0, fw, fu, fp, fc]
  cases lw with
  | none =>
    have fn' := fn rfl
    cases un <;> cases pw <;> simp_all
  | some w =>
    obtain ⟨q, r, tn, m⟩ := w
    obtain ⟨fq1, fq2⟩ := fq _ rfl
    simp only [LastWill.valid, Bool.and_eq_true] at hlw
    obtain ⟨⟨hwq, hwt⟩, hwm⟩ := hlw
    have htext := validTopicName_text hwt
    have hqq := qosFromU8_valid hwq
    cases un <;> cases pw <;> simp_all [LastWill.encode]


/-! ### the frame of a valid packet -/

theorem encodeWithPid_asRef (cb : UInt8) (pid : Pid) :
    (encodeWithPid cb pid).asRef = cb :: (writeVarInt 2 ++ u16be pid.val) := by
  rw [writeVarInt_small 2 (by omega)]
  simp only [encodeWithPid, VarBytes.asRef, List.cons_append, List.nil_append, ← shift_mask_eq_u16be]
  rfl

theorem blockDecode_eq_decodeBody_rt (debug : Bool) (typ : UInt8) (d : Bool) (q : UInt8) (r : Bool) (n : Nat)
    (h : typ ∈ [1, 2, 3, 4, 5, 6, 7, 8, 9, 10, 11]) :
    blockDecode debug ⟨typ, d, q, r, n⟩ = decodeBody debug ⟨typ, d, q, r, n⟩ := by
  simp only [List.mem_cons, List.not_mem_nil, or_false] at h
  rcases h with rfl | rfl | rfl | rfl | rfl | rfl | rfl | rfl | rfl | rfl | rfl <;> rfl

/-- Everything the three front ends need to know about the encoding `vb` of a valid packet `p`:
control byte `cb`, remaining length `n`, body bytes, and the header `h` read back. -/
structure Frame (debug : Bool) (p : Packet) (vb : VarBytes) (cb : UInt8) (n : Nat) (body : Bytes)
    (h : Header) : Prop where
  enc : p.encode debug = .ok vb
  bytes : vb.asRef = cb :: (writeVarInt n ++ body)
  len : body.length = n
  lt : n < 268435456
  hdr : Header.newWith cb n = .ok h
  rl : h.remainingLen = n
  dec : ∀ t, decodeBody debug h (body ++ t) = .ok p t
  poll : (n = 0 ∧ buildEmptyPacket h = some p) ∨
         (n ≠ 0 ∧ buildEmptyPacket h = none ∧ blockDecode debug h = decodeBody debug h)

theorem writeVarInt_zero : writeVarInt 0 = [0] := writeVarInt_small 0 (by omega)

theorem frame_exists (debug : Bool) (p : Packet) (hv : p.valid = true) :
    ∃ vb cb n body h, Frame debug p vb cb n body h := by
  cases p with
  | pingreq =>
    exact ⟨_, 0b11000000, 0, [], _, rfl, by rw [writeVarInt_zero]; rfl, rfl, by omega, rfl, rfl,
      fun t => rfl, .inl ⟨rfl, rfl⟩⟩
  | pingresp =>
    exact ⟨_, 0b11010000, 0, [], _, rfl, by rw [writeVarInt_zero]; rfl, rfl, by omega, rfl, rfl,
      fun t => rfl, .inl ⟨rfl, rfl⟩⟩
  | disconnect =>
    exact ⟨_, 0b11100000, 0, [], _, rfl, by rw [writeVarInt_zero]; rfl, rfl, by omega, rfl, rfl,
      fun t => rfl, .inl ⟨rfl, rfl⟩⟩
  | connack c =>
    simp only [Packet.valid] at hv
    refine ⟨_, 0b00100000, 2, [b2u8 c.sessionPresent, c.code], _, rfl, by rw [writeVarInt_small 2 (by omega)]; rfl,
      rfl, by omega, rfl, rfl, fun t => ?_, .inr ⟨by omega, rfl, rfl⟩⟩
    show (Connack.decode >>= fun c => pure (Packet.connack c)) _ = _
    simp [Connack.decode_encode c hv]
  | puback pid =>
    simp only [Packet.valid] at hv
    refine ⟨_, 0b01000000, 2, u16be pid.val, _, rfl, encodeWithPid_asRef _ _, rfl, by omega, rfl, rfl,
      fun t => ?_, .inr ⟨by omega, rfl, rfl⟩⟩
    show (readPid >>= fun c => pure (Packet.puback c)) _ = _
    simp [hv]
  | pubrec pid =>
    simp only [Packet.valid] at hv
    refine ⟨_, 0b01010000, 2, u16be pid.val, _, rfl, encodeWithPid_asRef _ _, rfl, by omega, rfl, rfl,
      fun t => ?_, .inr ⟨by omega, rfl, rfl⟩⟩
    show (readPid >>= fun c => pure (Packet.pubrec c)) _ = _
    simp [hv]
  | pubrel pid =>
    simp only [Packet.valid] at hv
    refine ⟨_, 0b01100010, 2, u16be pid.val, _, rfl, encodeWithPid_asRef _ _, rfl, by omega, rfl, rfl,
      fun t => ?_, .inr ⟨by omega, rfl, rfl⟩⟩
    show (readPid >>= fun c => pure (Packet.pubrel c)) _ = _
    simp [hv]
  | pubcomp pid =>
    simp only [Packet.valid] at hv
    refine ⟨_, 0b01110000, 2, u16be pid.val, _, rfl, encodeWithPid_asRef _ _, rfl, by omega, rfl, rfl,
      fun t => ?_, .inr ⟨by omega, rfl, rfl⟩⟩
    show (readPid >>= fun c => pure (Packet.pubcomp c)) _ = _
    simp [hv]
  | unsuback pid =>
    simp only [Packet.valid] at hv
    refine ⟨_, 0b10110000, 2, u16be pid.val, _, rfl, encodeWithPid_asRef _ _, rfl, by omega, rfl, rfl,
      fun t => ?_, .inr ⟨by omega, rfl, rfl⟩⟩
    show (readPid >>= fun c => pure (Packet.unsuback c)) _ = _
    simp [hv]
  | connect c =>
    simp only [Packet.valid, Bool.and_eq_true, decide_eq_true_eq] at hv
    obtain ⟨hc, hlt⟩ := hv
    have henc := encodePacket_ok debug 0b00010000 c.encodeLen c.encode c.encode_length hlt
    refine ⟨.dynamic (0b00010000 :: (writeVarInt c.encodeLen ++ c.encode)), 0b00010000, c.encodeLen, c.encode, _, by
      simp only [Packet.encode, henc, Packet.encode.dyn], rfl,
      c.encode_length, hlt, rfl, rfl, fun t => ?_, .inr ⟨?_, rfl, rfl⟩⟩
    · show (Connect.decode >>= fun c => pure (Packet.connect c)) _ = _
      simp [Connect.decode_encode c hc]
    · have := c.protocol.encode_length
      simp only [Connect.encodeLen]; cases c.protocol <;> simp [Protocol.encodeLen] <;> omega
  | publish p =>
    simp only [Packet.valid, Bool.and_eq_true, decide_eq_true_eq] at hv
    obtain ⟨⟨hn, hq⟩, hlt⟩ := hv
    have henc := encodePacket_ok debug p.controlByte p.encodeLen p.encode p.encode_length hlt
    refine ⟨.dynamic (p.controlByte :: (writeVarInt p.encodeLen ++ p.encode)), p.controlByte, p.encodeLen, p.encode, _, by
      simp only [Packet.encode, henc, Packet.encode.dyn], rfl,
      p.encode_length, hlt, Header.newWith_publish p _, rfl, fun t => ?_, .inr ⟨?_, rfl, rfl⟩⟩
    · show (Publish.decode _ >>= fun c => pure (Packet.publish c)) _ = _
      simp [Publish.decode_encode p t hn hq]
    · simp only [Publish.encodeLen]; omega
  | subscribe s =>
    simp only [Packet.valid, Bool.and_eq_true, decide_eq_true_eq, Bool.not_eq_true'] at hv
    obtain ⟨⟨⟨hp, hne⟩, hall⟩, hlt⟩ := hv
    have henc := encodePacket_ok debug 0b10000010 s.encodeLen s.encode s.encode_length hlt
    refine ⟨.dynamic (0b10000010 :: (writeVarInt s.encodeLen ++ s.encode)), 0b10000010, s.encodeLen, s.encode, _, by
      simp only [Packet.encode, henc, Packet.encode.dyn], rfl,
      s.encode_length, hlt, rfl, rfl, fun t => ?_, .inr ⟨?_, rfl, rfl⟩⟩
    · show (Subscribe.decode debug _ >>= fun c => pure (Packet.subscribe c)) _ = _
      simp [Subscribe.decode_encode debug s t hp hne hall]
    · simp only [Subscribe.encodeLen]; omega
  | suback s =>
    simp only [Packet.valid, Bool.and_eq_true, decide_eq_true_eq] at hv
    obtain ⟨⟨hp, hall⟩, hlt⟩ := hv
    have henc := encodePacket_ok debug 0b10010000 s.encodeLen s.encode s.encode_length hlt
    refine ⟨.dynamic (0b10010000 :: (writeVarInt s.encodeLen ++ s.encode)), 0b10010000, s.encodeLen, s.encode, _, by
      simp only [Packet.encode, henc, Packet.encode.dyn], rfl,
      s.encode_length, hlt, rfl, rfl, fun t => ?_, .inr ⟨?_, rfl, rfl⟩⟩
    · show (Suback.decode _ >>= fun c => pure (Packet.suback c)) _ = _
      simp [Suback.decode_encode s t hp hall]
    · simp only [Suback.encodeLen]; omega
  | unsubscribe u =>
    simp only [Packet.valid, Bool.and_eq_true, decide_eq_true_eq, Bool.not_eq_true'] at hv
    obtain ⟨⟨⟨hp, hne⟩, hall⟩, hlt⟩ := hv
    have henc := encodePacket_ok debug 0b10100010 u.encodeLen u.encode u.encode_length hlt
    refine ⟨.dynamic (0b10100010 :: (writeVarInt u.encodeLen ++ u.encode)), 0b10100010, u.encodeLen, u.encode, _, by
      simp only [Packet.encode, henc, Packet.encode.dyn], rfl,
      u.encode_length, hlt, rfl, rfl, fun t => ?_, .inr ⟨?_, rfl, rfl⟩⟩
    · show (Unsubscribe.decode debug _ >>= fun c => pure (Packet.unsubscribe c)) _ = _
      simp [Unsubscribe.decode_encode debug u t hp hne hall]
    · simp only [Unsubscribe.encodeLen]; omega

/-! ### the three front ends, from the frame -/

theorem Frame.roundtrip_async {debug p vb cb n body h} (F : Frame debug p vb cb n body h) (t : Bytes) :
    decodeAsync debug (vb.asRef ++ t) = .ok p t := by
  rw [F.bytes, List.cons_append, List.append_assoc, decodeAsync_frame debug cb n F.lt _ h F.hdr, F.dec]

theorem Frame.length {debug p vb cb n body h} (F : Frame debug p vb cb n body h) :
    vb.asRef.length = n + 1 + Spec.varIntSize n := by
  rw [F.bytes, List.length_cons, List.length_append, writeVarInt_length n F.lt, F.len]; omega

theorem Frame.roundtrip_blocking {debug p vb cb n body h} (F : Frame debug p vb cb n body h) (t : Bytes) :
    decodeBlocking debug (vb.asRef ++ t) = .ok (some p) vb.asRef.length := by
  simp only [decodeBlocking, runAsync, F.roundtrip_async t, List.length_append]
  congr 1; omega

theorem headerLen_total (n : Nat) (hn : n < 268435456) :
    headerLen (n + 1 + Spec.varIntSize n) = 1 + Spec.varIntSize n := by
  rw [headerLen_closed]; unfold Spec.varIntSize
  repeat' split
  all_goals omega

theorem Frame.roundtrip_poll {debug p vb cb n body h} (F : Frame debug p vb cb n body h) (t : Bytes)
    (term : Poll.Term) :
    Poll.spec (pollFamily debug) (vb.asRef ++ t) term =
      (.ok vb.asRef.length (vb.asRef.drop (headerLen vb.asRef.length)) p, vb.asRef.length) := by
  have hdrop : vb.asRef.drop (headerLen vb.asRef.length) = body := by
    rw [F.length, headerLen_total n F.lt, F.bytes, Nat.add_comm 1, List.drop_succ_cons,
      ← writeVarInt_length n F.lt, List.drop_left]
  have hsz : 1 ≤ Spec.varIntSize n := by
    unfold Spec.varIntSize
    repeat' split
    all_goals omega
  have hvi : decodeVarIntAux ((pollFamily debug).ofCommon .invalidVarByteInt) 0 0
      (writeVarInt n ++ (body ++ t)) = .ok (n, Spec.varIntSize n) (body ++ t) :=
    decodeVarInt_write n F.lt (body ++ t)
  rw [hdrop, F.length]
  rw [F.bytes, List.cons_append, List.append_assoc]
  have e1 : (pollFamily debug).newWith = Header.newWith := rfl
  have e2 : (pollFamily debug).buildEmpty = buildEmptyPacket := rfl
  have e3 : (pollFamily debug).remainingLen = fun h => h.remainingLen := rfl
  have e4 : (pollFamily debug).blockDecode = blockDecode debug := rfl
  simp only [Poll.spec, hvi, Poll.finishHeader, e1, e2, e3, F.hdr, F.rl]
  rcases F.poll with ⟨hn0, hbe⟩ | ⟨hn0, hbe, hbd⟩
  · have hb : body = [] := List.eq_nil_of_length_eq_zero (by rw [F.len, hn0])
    subst hn0
    simp [hbe, hb, Spec.varIntSize]
  · have hle : n ≤ (body ++ t).length := by rw [List.length_append, F.len]; omega
    have htake : (body ++ t).take n = body := by rw [← F.len, List.take_left]
    have hdec := F.dec []
    rw [List.append_nil] at hdec
    simp only [hbe, hn0, if_false, hle, if_true, htake, Poll.finishBody, e4, hbd, hdec, List.isEmpty_nil]
    have a1 : 1 + 1 + (Spec.varIntSize n - 1) + n = n + 1 + Spec.varIntSize n := by omega
    have a2 : 1 + Spec.varIntSize n + n = n + 1 + Spec.varIntSize n := by omega
    rw [a1, a2]


/-! ### C02: the encoder on arbitrary packets -/

theorem Packet.encode_dyn_total (cb : UInt8) (n : Nat) (body : Bytes) (hl : body.length = n) :
    (∃ vb, (∀ d, Packet.encode.dyn (encodePacket d cb n body) = .ok vb) ∧
        totalLen n = .ok vb.asRef.length ∧
        vb.asRef = cb :: (writeVarInt n ++ body) ∧ n < 268435456) ∨
    ((∀ d, Packet.encode.dyn (encodePacket d cb n body) = .err .invalidVarByteInt) ∧
        totalLen n = .error .invalidVarByteInt) := by
  by_cases hn : n < 268435456
  · refine .inl ⟨.dynamic (cb :: (writeVarInt n ++ body)), fun d => ?_, ?_, rfl, hn⟩
    · rw [encodePacket_ok d cb n body hl hn]; rfl
    · rw [totalLen_closed, if_pos hn]
      simp only [VarBytes.asRef, List.length_cons, List.length_append, writeVarInt_length n hn, hl]
      congr 1; omega
  · refine .inr ⟨fun d => ?_, ?_⟩
    · rw [encodePacket_err d cb n body hn]; rfl
    · rw [totalLen_closed, if_neg hn]

/-- The encoder, on any packet at all: either it succeeds, identically in both build
profiles, with a well-formed frame of the size `encode_len` reports; or both it and
`encode_len` refuse with `InvalidVarByteInt`. -/
theorem Packet.encode_total (p : Packet) :
    (∃ vb cb n body, (∀ d, p.encode d = .ok vb) ∧ p.encodeLen = .ok vb.asRef.length ∧
        vb.asRef = cb :: (writeVarInt n ++ body) ∧ body.length = n ∧ n < 268435456) ∨
    ((∀ d, p.encode d = .err .invalidVarByteInt) ∧ p.encodeLen = .error .invalidVarByteInt) := by
  have fixed0 : ∀ cb : UInt8, (VarBytes.fixed2 cb 0).asRef = cb :: (writeVarInt 0 ++ []) := by
    intro cb; rw [writeVarInt_zero]; rfl
  have dynCase : ∀ (cb : UInt8) (n : Nat) (body : Bytes), body.length = n →
      (∀ d, p.encode d = Packet.encode.dyn (encodePacket d cb n body)) → p.encodeLen = totalLen n →
      (∃ vb cb n body, (∀ d, p.encode d = .ok vb) ∧ p.encodeLen = .ok vb.asRef.length ∧
        vb.asRef = cb :: (writeVarInt n ++ body) ∧ body.length = n ∧ n < 268435456) ∨
      ((∀ d, p.encode d = .err .invalidVarByteInt) ∧ p.encodeLen = .error .invalidVarByteInt) := by
    intro cb n body hl he hlen
    rcases Packet.encode_dyn_total cb n body hl with ⟨vb, h1, h2, h3, h4⟩ | ⟨h1, h2⟩
    · exact .inl ⟨vb, cb, n, body, fun d => by rw [he, h1], by rw [hlen, h2], h3, hl, h4⟩
    · exact .inr ⟨fun d => by rw [he, h1], by rw [hlen, h2]⟩
  cases p with
  | pingreq => exact .inl ⟨_, _, 0, [], fun _ => rfl, rfl, fixed0 _, rfl, by omega⟩
  | pingresp => exact .inl ⟨_, _, 0, [], fun _ => rfl, rfl, fixed0 _, rfl, by omega⟩
  | disconnect => exact .inl ⟨_, _, 0, [], fun _ => rfl, rfl, fixed0 _, rfl, by omega⟩
  | connack c =>
    exact .inl ⟨_, 0b00100000, 2, [b2u8 c.sessionPresent, c.code], fun _ => rfl, rfl,
      by rw [writeVarInt_small 2 (by omega)]; rfl, rfl, by omega⟩
  | puback pid =>
    exact .inl ⟨_, _, 2, u16be pid.val, fun _ => rfl, rfl, encodeWithPid_asRef _ _, rfl, by omega⟩
  | pubrec pid =>
    exact .inl ⟨_, _, 2, u16be pid.val, fun _ => rfl, rfl, encodeWithPid_asRef _ _, rfl, by omega⟩
  | pubrel pid =>
    exact .inl ⟨_, _, 2, u16be pid.val, fun _ => rfl, rfl, encodeWithPid_asRef _ _, rfl, by omega⟩
  | pubcomp pid =>
    exact .inl ⟨_, _, 2, u16be pid.val, fun _ => rfl, rfl, encodeWithPid_asRef _ _, rfl, by omega⟩
  | unsuback pid =>
    exact .inl ⟨_, _, 2, u16be pid.val, fun _ => rfl, rfl, encodeWithPid_asRef _ _, rfl, by omega⟩
  | connect c => exact dynCase _ _ _ c.encode_length (fun _ => rfl) rfl
  | publish c => exact dynCase _ _ _ c.encode_length (fun _ => rfl) rfl
  | subscribe c => exact dynCase _ _ _ c.encode_length (fun _ => rfl) rfl
  | suback c => exact dynCase _ _ _ c.encode_length (fun _ => rfl) rfl
  | unsubscribe c => exact dynCase _ _ _ c.encode_length (fun _ => rfl) rfl


end V3
end Mqtt
