import Proofs.Parser
import Proofs.V3Safety
import Proofs.VarInt
import Mqtt.V5.Decode
import Mqtt.V5.Poll

/-
  Extends and NoPanic lemmas for the v5 decoders (incl. the generic property loop).
-/

namespace Mqtt

/-! ### more closure lemmas -/

/-- Postcondition on the value a reader returns. -/
structure Post {ε α : Type} (P : Parser ε α) (Q : α → Prop) : Prop where
  post : ∀ bs a r, P bs = .ok a r → Q a

namespace Post
variable {ε ε' α β : Type}

theorem pure {a : α} {Q : α → Prop} (h : Q a) : Post (Parser.pure a : Parser ε α) Q :=
  ⟨by intro bs a' r e; cases e; exact h⟩

theorem pure' {a : α} {Q : α → Prop} (h : Q a) : Post (Pure.pure a : Parser ε α) Q := pure h

theorem fail (e : ε) (Q : α → Prop) : Post (Parser.fail e : Parser ε α) Q :=
  ⟨by intro bs a' r h; cases h⟩

theorem panic (s : String) (Q : α → Prop) : Post (Parser.panic s : Parser ε α) Q :=
  ⟨by intro bs a' r h; cases h⟩

theorem bind_of {p : Parser ε α} {f : α → Parser ε β} {R : α → Prop} {Q : β → Prop}
    (hp : Post p R) (hf : ∀ a, R a → Post (f a) Q) : Post (Parser.bind p f) Q := by
  constructor
  intro bs b r h
  simp only [Parser.bind] at h
  cases hpb : p bs with
  | ok a r' => rw [hpb] at h; exact (hf a (hp.post _ _ _ hpb)).post _ _ _ h
  | more => rw [hpb] at h; cases h
  | err e => rw [hpb] at h; cases h
  | panic s => rw [hpb] at h; cases h

theorem trivial (p : Parser ε α) : Post p (fun _ => True) := ⟨fun _ _ _ _ => True.intro⟩

theorem bind {p : Parser ε α} {f : α → Parser ε β} {Q : β → Prop}
    (hf : ∀ a, Post (f a) Q) : Post (Parser.bind p f) Q :=
  bind_of (trivial p) (fun a _ => hf a)

theorem bind' {p : Parser ε α} {f : α → Parser ε β} {Q : β → Prop}
    (hf : ∀ a, Post (f a) Q) : Post (p >>= f) Q := bind hf

theorem mapErr {p : Parser ε α} {Q : α → Prop} (g : ε → ε') (hp : Post p Q) :
    Post (Parser.mapErr g p) Q := by
  constructor
  intro bs a r h
  simp only [Parser.mapErr] at h
  cases hpb : p bs with
  | ok a' r' => rw [hpb] at h; simp only [Res.mapErr] at h; cases h; exact hp.post _ _ _ hpb
  | more => rw [hpb] at h; cases h
  | err e => rw [hpb] at h; cases h
  | panic s => rw [hpb] at h; cases h

end Post

/-- `bind`, where the continuation only has to be safe on values satisfying a postcondition of `p`. -/
theorem NoPanic.bind_post {ε α β : Type} {p : Parser ε α} {f : α → Parser ε β} {R : α → Prop}
    (hp : NoPanic p) (hR : Post p R) (hf : ∀ a, R a → NoPanic (f a)) :
    NoPanic (Parser.bind p f) :=
  NoPanic.bind_of hp (fun a _ _ h => hf a (hR.post _ _ _ h))

/-- Closes `Post _ Q` goals down to the `Q a` obligations at the `pure` leaves. -/
macro "post_tac" : tactic => `(tactic| repeat' (first
  | exact Post.fail _ _ | exact Post.panic _ _
  | apply Post.bind' | apply Post.bind
  | apply Post.pure' | apply Post.pure
  | intro _ | split))

/-! ### tactics

Same as `extends_tac`/`nopanic_tac` of `Proofs.V3Safety`, but the lemma rules are matched
up to reducible unfolding only (so that a rule for one reader is not tried, by unfolding
both, against every other reader), and with their own rule sets. -/

syntax "ext5_step" : tactic
macro_rules | `(tactic| ext5_step) => `(tactic| assumption)
macro_rules | `(tactic| ext5_step) => `(tactic| exact Extends.decodeVarInt)
macro_rules | `(tactic| ext5_step) => `(tactic| exact Extends.decodeRawHeader)
macro_rules | `(tactic| ext5_step) => `(tactic| exact Extends.readString)
macro_rules | `(tactic| ext5_step) => `(tactic| exact Extends.readPid)
macro_rules | `(tactic| ext5_step) => `(tactic| exact Extends.protocolDecode)
macro "ext5_tac" : tactic => `(tactic| repeat' (first
  | with_reducible ext5_step
  | with_reducible exact Extends.pure _ | with_reducible exact Extends.pure' _
  | with_reducible exact Extends.fail _ | with_reducible exact Extends.panic' _
  | with_reducible exact Extends.take _ | with_reducible exact Extends.readU8
  | with_reducible exact Extends.readU16 | with_reducible exact Extends.readU32
  | with_reducible exact Extends.readBytes | with_reducible exact Extends.liftExcept _
  | with_reducible exact Extends.checkedSub _ _ _
  | with_reducible apply Extends.bind' | with_reducible apply Extends.bind
  | with_reducible apply Extends.mapErr
  | intro _ | split))

syntax "np5_step" : tactic
macro_rules | `(tactic| np5_step) => `(tactic| assumption)
macro_rules | `(tactic| np5_step) => `(tactic| exact NoPanic.decodeVarInt)
macro_rules | `(tactic| np5_step) => `(tactic| exact NoPanic.decodeRawHeader)
macro_rules | `(tactic| np5_step) => `(tactic| exact NoPanic.readString)
macro_rules | `(tactic| np5_step) => `(tactic| exact NoPanic.readPid)
macro_rules | `(tactic| np5_step) => `(tactic| exact NoPanic.protocolDecode)
macro "np5_tac" : tactic => `(tactic| repeat' (first
  | with_reducible np5_step
  | with_reducible exact NoPanic.pure _ | with_reducible exact NoPanic.pure' _
  | with_reducible exact NoPanic.fail _
  | with_reducible exact NoPanic.take _ | with_reducible exact NoPanic.readU8
  | with_reducible exact NoPanic.readU16 | with_reducible exact NoPanic.readU32
  | with_reducible exact NoPanic.readBytes | with_reducible exact NoPanic.liftExcept _
  | with_reducible exact NoPanic.checkedSub _ _ _
  | with_reducible apply NoPanic.bind' | with_reducible apply NoPanic.bind
  | with_reducible apply NoPanic.mapErr
  | intro _ | split))

end Mqtt

namespace Mqtt.V5
open Mqtt

/-! ### `liftC` -/

theorem Extends.liftC {α : Type} {p : Parser Error α} (hp : Extends p) : Extends (liftC p) :=
  Extends.mapErr _ hp

theorem NoPanic.liftC {α : Type} {p : Parser Error α} (hp : NoPanic p) : NoPanic (liftC p) :=
  NoPanic.mapErr _ hp

macro_rules | `(tactic| ext5_step) => `(tactic| apply Extends.liftC)
macro_rules | `(tactic| np5_step) => `(tactic| apply NoPanic.liftC)

/-! ### `Extends` for the property layer -/

theorem Extends.decodePropValue (id : UInt8) (k : PropKind) (ps : Props) :
    Extends (decodePropValue id k ps) := by
  unfold V5.decodePropValue
  ext5_tac

macro_rules | `(tactic| ext5_step) => `(tactic| exact Extends.decodePropValue _ _ _)

theorem decodePropsLoop_zero (ctx : PropCtx) (allowed : List UInt8) (pl len : Nat) (ps : Props) :
    decodePropsLoop ctx allowed pl 0 len ps = Parser.panic "decode_properties: out of fuel" := by
  rw [decodePropsLoop]

theorem Extends.decodePropsLoop (ctx : PropCtx) (allowed : List UInt8) (pl : Nat) :
    ∀ fuel len ps, Extends (decodePropsLoop ctx allowed pl fuel len ps) := by
  intro fuel
  induction fuel with
  | zero => intro len ps; rw [decodePropsLoop_zero]; exact Extends.panic' _
  | succ fuel ih =>
    intro len ps
    rw [V5.decodePropsLoop]
    ext5_tac
    all_goals apply ih

macro_rules | `(tactic| ext5_step) => `(tactic| exact Extends.decodePropsLoop _ _ _ _ _ _)

theorem Extends.decodeProps (ctx : PropCtx) (allowed : List UInt8) :
    Extends (decodeProps ctx allowed) := by
  unfold V5.decodeProps
  ext5_tac

macro_rules | `(tactic| ext5_step) => `(tactic| exact Extends.decodeProps _ _)

/-! ### `Extends` for the body decoders -/

theorem Extends.propsEncodeLenP (allowed : List UInt8) (ps : Props) :
    Extends (propsEncodeLenP allowed ps) := by
  unfold V5.propsEncodeLenP
  ext5_tac

macro_rules | `(tactic| ext5_step) => `(tactic| exact Extends.propsEncodeLenP _ _)

theorem Extends.parseReason (k : Gen.CodeKind) (typ b : UInt8) :
    Extends (parseReason k typ b) := by
  unfold V5.parseReason
  ext5_tac

macro_rules | `(tactic| ext5_step) => `(tactic| exact Extends.parseReason _ _ _)

theorem Extends.lastWillDecode (qos : UInt8) (retain : Bool) :
    Extends (LastWill.decode qos retain) := by
  unfold LastWill.decode
  ext5_tac

macro_rules | `(tactic| ext5_step) => `(tactic| exact Extends.lastWillDecode _ _)

theorem Extends.connectDecodeWithProtocol (h : Header) (p : Protocol) :
    Extends (Connect.decodeWithProtocol h p) := by
  unfold Connect.decodeWithProtocol
  ext5_tac

macro_rules | `(tactic| ext5_step) => `(tactic| exact Extends.connectDecodeWithProtocol _ _)

theorem Extends.connectDecode (h : Header) : Extends (Connect.decode h) := by
  unfold Connect.decode
  ext5_tac

macro_rules | `(tactic| ext5_step) => `(tactic| exact Extends.connectDecode _)

theorem Extends.connackDecode (h : Header) : Extends (Connack.decode h) := by
  unfold Connack.decode
  ext5_tac

macro_rules | `(tactic| ext5_step) => `(tactic| exact Extends.connackDecode _)

theorem Extends.disconnectDecode (h : Header) : Extends (Disconnect.decode h) := by
  unfold Disconnect.decode
  ext5_tac

macro_rules | `(tactic| ext5_step) => `(tactic| exact Extends.disconnectDecode _)

theorem Extends.authDecode (h : Header) : Extends (Auth.decode h) := by
  unfold Auth.decode
  ext5_tac

macro_rules | `(tactic| ext5_step) => `(tactic| exact Extends.authDecode _)

theorem Extends.publishDecode (h : Header) : Extends (Publish.decode h) := by
  unfold Publish.decode
  ext5_tac

macro_rules | `(tactic| ext5_step) => `(tactic| exact Extends.publishDecode _)

theorem Extends.ackDecode (k : Gen.CodeKind) (h : Header) : Extends (Ack.decode k h) := by
  unfold Ack.decode
  ext5_tac

macro_rules | `(tactic| ext5_step) => `(tactic| exact Extends.ackDecode _ _)

/-- `TopicFilter::try_from` with the error lifted, as a reader that consumes nothing. -/
def tfParser (debug : Bool) (s : Bytes) : Parser ErrorV5 Topic.TopicFilter :=
  liftC (V3.tfParser debug s)

theorem Extends.tfParser (debug : Bool) (s : Bytes) : Extends (tfParser debug s) :=
  Extends.liftC (V3.Extends.tfParser debug s)

macro_rules | `(tactic| ext5_step) => `(tactic| exact Extends.tfParser _ _)

theorem subscribeLoop_eq (debug : Bool) (rl : Nat) (acc : List (Topic.TopicFilter × SubOpts)) :
    subscribeLoop debug rl acc =
      if rl > 0 then
        Parser.bind (liftC readString) fun s =>
        Parser.bind (tfParser debug s) fun f =>
        Parser.bind (liftC readU8) fun ob =>
        Parser.bind (liftExcept (decodeSubOpts ob)) fun o =>
          if 3 + f.text.length ≤ rl then
            subscribeLoop debug (rl - (3 + f.text.length)) (acc ++ [(f, o)])
          else Parser.fail (.common .invalidRemainingLength)
      else Parser.pure acc := by
  funext bs
  rw [subscribeLoop]
  split
  · simp only [Parser.bind, tfParser, V3.tfParser, liftC, Parser.mapErr]
    cases readString bs with
    | ok s rest =>
      simp only [Res.bind, Res.mapErr]
      cases topicFilterTryFrom debug s with
      | ok f r =>
        simp only []
        cases readU8 (ε := Error) rest with
        | ok ob rest' =>
          simp only []
          cases decodeSubOpts ob with
          | ok o => simp only [liftExcept]; split <;> rfl
          | error e => rfl
        | _ => rfl
      | _ => rfl
    | _ => rfl
  · rfl

theorem Extends.subscribeLoop (debug : Bool) :
    ∀ rl acc, Extends (subscribeLoop debug rl acc) := by
  intro rl
  induction rl using Nat.strongRecOn with
  | _ rl ih =>
    intro acc
    rw [subscribeLoop_eq]
    ext5_tac
    apply ih
    omega

macro_rules | `(tactic| ext5_step) => `(tactic| exact Extends.subscribeLoop _ _ _)

theorem unsubscribeLoop_eq (debug : Bool) (rl : Nat) (acc : List Topic.TopicFilter) :
    unsubscribeLoop debug rl acc =
      if rl > 0 then
        Parser.bind (liftC readString) fun s =>
        Parser.bind (tfParser debug s) fun f =>
          if 2 + f.text.length ≤ rl then
            unsubscribeLoop debug (rl - (2 + f.text.length)) (acc ++ [f])
          else Parser.fail (.common .invalidRemainingLength)
      else Parser.pure acc := by
  funext bs
  rw [unsubscribeLoop]
  split
  · simp only [Parser.bind, tfParser, V3.tfParser, liftC, Parser.mapErr]
    cases readString bs with
    | ok s rest =>
      simp only [Res.bind, Res.mapErr]
      cases topicFilterTryFrom debug s with
      | ok f r => simp only []; split <;> rfl
      | _ => rfl
    | _ => rfl
  · rfl

theorem Extends.unsubscribeLoop (debug : Bool) :
    ∀ rl acc, Extends (unsubscribeLoop debug rl acc) := by
  intro rl
  induction rl using Nat.strongRecOn with
  | _ rl ih =>
    intro acc
    rw [unsubscribeLoop_eq]
    ext5_tac
    apply ih
    omega

macro_rules | `(tactic| ext5_step) => `(tactic| exact Extends.unsubscribeLoop _ _ _)

theorem codesLoop_succ (k : Gen.CodeKind) (typ : UInt8) (rl : Nat) (acc : List UInt8) :
    codesLoop k typ (rl + 1) acc =
      Parser.bind (liftC readU8) fun v =>
        match codeOfByte k v with
        | some d => codesLoop k typ rl (acc ++ [d])
        | none => Parser.fail (.invalidReasonCode typ v) := by
  funext bs
  simp only [codesLoop, Parser.bind]
  cases liftC (readU8 (ε := Error)) bs with
  | ok v rest => simp only [Res.bind]; cases codeOfByte k v <;> rfl
  | _ => rfl

theorem codesLoop_zero (k : Gen.CodeKind) (typ : UInt8) (acc : List UInt8) :
    codesLoop k typ 0 acc = Parser.pure acc := by
  funext bs; rfl

theorem Extends.codesLoop (k : Gen.CodeKind) (typ : UInt8) :
    ∀ rl acc, Extends (codesLoop k typ rl acc) := by
  intro rl
  induction rl with
  | zero => intro acc; rw [codesLoop_zero]; exact Extends.pure _
  | succ rl ih =>
    intro acc
    rw [codesLoop_succ]
    ext5_tac
    apply ih

macro_rules | `(tactic| ext5_step) => `(tactic| exact Extends.codesLoop _ _ _ _)

theorem unsubPropsLoop_zero (typ : UInt8) (pl len : Nat) (ps : Props) :
    unsubPropsLoop typ pl 0 len ps = Parser.panic "unsubscribe properties: out of fuel" := by
  rw [unsubPropsLoop]

theorem Extends.unsubPropsLoop (typ : UInt8) (pl : Nat) :
    ∀ fuel len ps, Extends (unsubPropsLoop typ pl fuel len ps) := by
  intro fuel
  induction fuel with
  | zero => intro len ps; rw [unsubPropsLoop_zero]; exact Extends.panic' _
  | succ fuel ih =>
    intro len ps
    rw [V5.unsubPropsLoop]
    ext5_tac
    all_goals apply ih

macro_rules | `(tactic| ext5_step) => `(tactic| exact Extends.unsubPropsLoop _ _ _ _ _)

theorem Extends.subscribeDecode (debug : Bool) (h : Header) :
    Extends (Subscribe.decode debug h) := by
  unfold Subscribe.decode
  ext5_tac

macro_rules | `(tactic| ext5_step) => `(tactic| exact Extends.subscribeDecode _ _)

theorem Extends.codesAckDecode (k : Gen.CodeKind) (h : Header) :
    Extends (CodesAck.decode k h) := by
  unfold CodesAck.decode
  ext5_tac

macro_rules | `(tactic| ext5_step) => `(tactic| exact Extends.codesAckDecode _ _)

theorem Extends.unsubscribeDecode (debug : Bool) (h : Header) :
    Extends (Unsubscribe.decode debug h) := by
  unfold Unsubscribe.decode
  ext5_tac

macro_rules | `(tactic| ext5_step) => `(tactic| exact Extends.unsubscribeDecode _ _)

theorem Extends.headerDecode : Extends Header.decode := by
  unfold Header.decode
  ext5_tac

macro_rules | `(tactic| ext5_step) => `(tactic| exact Extends.headerDecode)

theorem Extends.decodeBody (debug : Bool) (h : Header) : Extends (decodeBody debug h) := by
  unfold V5.decodeBody
  ext5_tac

macro_rules | `(tactic| ext5_step) => `(tactic| exact Extends.decodeBody _ _)

theorem Extends.blockDecode (debug : Bool) (h : Header) : Extends (blockDecode debug h) := by
  unfold V5.blockDecode
  ext5_tac

macro_rules | `(tactic| ext5_step) => `(tactic| exact Extends.blockDecode _ _)

theorem Extends.decodeAsync (debug : Bool) : Extends (decodeAsync debug) := by
  unfold V5.decodeAsync
  ext5_tac

macro_rules | `(tactic| ext5_step) => `(tactic| exact Extends.decodeAsync _)

/-! ### facts about the generated tables -/

/-- What every `Ok` row of the v5 header table satisfies. -/
def rowOk : Except Error Gen.HeaderRow → Bool
  | .ok r => decide (r.qos.toNat ≤ 2) && decide (1 ≤ r.typ.toNat) && decide (r.typ.toNat ≤ 15)
  | .error _ => true

set_option maxRecDepth 100000 in
theorem headerV5_rows_ok : Gen.headerV5.all rowOk = true := by decide

/-- Headers produced by `Header::new_with` have qos 0..2 and packet type 1..15. -/
theorem Header.newWith_facts {cb : UInt8} {rl : Nat} {h : Header}
    (hh : Header.newWith cb rl = .ok h) :
    h.qos.toNat ≤ 2 ∧ 1 ≤ h.typ.toNat ∧ h.typ.toNat ≤ 15 := by
  unfold Header.newWith at hh
  rw [List.getD_eq_getElem?_getD] at hh
  cases hrow : Gen.headerV5[cb.toNat]? with
  | none => rw [hrow] at hh; cases hh
  | some row =>
    rw [hrow] at hh
    have hmem : row ∈ Gen.headerV5 := List.mem_of_getElem? hrow
    have hok := List.all_eq_true.mp headerV5_rows_ok row hmem
    cases row with
    | error e => cases hh
    | ok r =>
      simp only [Option.getD] at hh
      cases hh
      simp [rowOk] at hok
      exact ⟨hok.1.1, hok.1.2, hok.2⟩

/-- Every identifier in the lists the decoders use has a `decode_property!` arm. -/
def HasArms (allowed : List UInt8) : Prop := ∀ i ∈ allowed, (propKind i).isSome

theorem connectProps_arms : HasArms connectProps := by unfold HasArms; decide
theorem willProps_arms : HasArms willProps := by unfold HasArms; decide
theorem connackProps_arms : HasArms connackProps := by unfold HasArms; decide
theorem disconnectProps_arms : HasArms disconnectProps := by unfold HasArms; decide
theorem authProps_arms : HasArms authProps := by unfold HasArms; decide
theorem publishProps_arms : HasArms publishProps := by unfold HasArms; decide
theorem ackProps_arms : HasArms ackProps := by unfold HasArms; decide
theorem subscribeProps_arms : HasArms subscribeProps := by unfold HasArms; decide
theorem unsubscribeProps_arms : HasArms unsubscribeProps := by unfold HasArms; decide

/-- `QoS::from_u8(v).expect(..)` after the `v > 1` check cannot fail. -/
theorem qos01_some (v : UInt8) (h : ¬ v > 1) : codeOfByte .qos v ≠ none := by
  have h1 : v.toNat ≤ 1 := by
    have : ¬ (1 : UInt8).toNat < v.toNat := fun e => h (UInt8.lt_iff_toNat_lt.mpr e)
    simpa using this
  have hv : v = 0 ∨ v = 1 := by
    rcases Nat.le_one_iff_eq_zero_or_eq_one.mp h1 with e | e
    · left; exact UInt8.toNat_inj.mp e
    · right; exact UInt8.toNat_inj.mp e
  rcases hv with rfl | rfl <;> decide

/-! ### the property layer never panics -/

/-- Every stored value can be sized (`encode_property_len!` does not hit its `expect`). -/
def Props.Sized (ps : Props) : Prop := ∀ i v, ps.get i = some v → ∃ n, propSize v = .ok n

theorem Props.Sized.empty : Props.empty.Sized := by
  intro i v h; simp only [Props.empty] at h; cases h

theorem Props.Sized.set {ps : Props} {id : UInt8} {v : PropVal} {n : Nat}
    (hs : ps.Sized) (hv : propSize v = .ok n) : (ps.set id v).Sized := by
  intro j w h
  simp only [Props.set] at h
  split at h
  · cases h; exact ⟨n, hv⟩
  · exact hs j w h

theorem Props.Sized.pushUser {ps : Props} (hs : ps.Sized) (n v : Bytes) :
    (ps.pushUser n v).Sized := by
  intro j w h
  exact hs j w h

/-- Values produced by a `decode_property!` arm can be sized, and occupy at least one byte. -/
theorem Post.decodePropValue (id : UInt8) (k : PropKind) (ps : Props) :
    Post (decodePropValue id k ps) (fun v => ∃ n, propSize v = .ok n ∧ 1 ≤ n) := by
  unfold V5.decodePropValue
  post_tac
  all_goals first
    | exact ⟨_, rfl, by omega⟩
    | (rename_i hlt
       simp only [propSize, varIntLen_closed, if_pos hlt]
       exact ⟨_, rfl, by omega⟩)

theorem NoPanic.decodePropValue (id : UInt8) (k : PropKind) (ps : Props) :
    NoPanic (decodePropValue id k ps) := by
  unfold V5.decodePropValue
  np5_tac
  next hle _ hnone => exact absurd hnone (qos01_some _ hle)

theorem NoPanic.decodePropsLoop (ctx : PropCtx) (allowed : List UInt8) (hall : HasArms allowed)
    (pl : Nat) : ∀ fuel len ps, 1 ≤ fuel → pl < len + fuel →
      NoPanic (decodePropsLoop ctx allowed pl fuel len ps) := by
  intro fuel
  induction fuel with
  | zero => intro len ps h1; omega
  | succ fuel ih =>
    intro len ps _ hlt
    rw [V5.decodePropsLoop]
    split
    · apply NoPanic.bind' (NoPanic.liftC NoPanic.readU8)
      intro idb
      split
      · exact NoPanic.fail _
      · rename_i id _
        split
        · rename_i hc
          have hsome := hall id (List.contains_iff_mem.mp hc)
          split
          · rename_i hk; rw [hk] at hsome; cases hsome
          · apply NoPanic.bind_post (NoPanic.decodePropValue _ _ _) (Post.decodePropValue _ _ _)
            intro v hv
            obtain ⟨n, hn, h1⟩ := hv
            rw [hn]
            exact ih _ _ (by omega) (by omega)
        · split
          · apply NoPanic.bind' (NoPanic.liftC NoPanic.readString); intro n
            apply NoPanic.bind' (NoPanic.liftC NoPanic.readString); intro v
            exact ih _ _ (by omega) (by omega)
          · exact NoPanic.fail _
    · np5_tac

theorem Post.decodePropsLoop (ctx : PropCtx) (allowed : List UInt8) (pl : Nat) :
    ∀ fuel len ps, ps.Sized → Post (decodePropsLoop ctx allowed pl fuel len ps) Props.Sized := by
  intro fuel
  induction fuel with
  | zero => intro len ps _; rw [decodePropsLoop_zero]; exact Post.panic _ _
  | succ fuel ih =>
    intro len ps hs
    rw [V5.decodePropsLoop]
    split
    · apply Post.bind'
      intro idb
      split
      · exact Post.fail _ _
      · split
        · split
          · exact Post.panic _ _
          · apply Post.bind_of (Post.decodePropValue _ _ _)
            intro v hv
            obtain ⟨n, hn, h1⟩ := hv
            rw [hn]
            exact ih _ _ (hs.set hn)
        · split
          · apply Post.bind'; intro n
            apply Post.bind'; intro v
            exact ih _ _ (hs.pushUser n v)
          · exact Post.fail _ _
    · split
      · exact Post.fail _ _
      · exact Post.pure' hs

theorem NoPanic.decodeProps (ctx : PropCtx) (allowed : List UInt8) (hall : HasArms allowed) :
    NoPanic (decodeProps ctx allowed) := by
  unfold V5.decodeProps
  apply NoPanic.bind' (NoPanic.liftC NoPanic.decodeVarInt)
  intro x
  obtain ⟨pl, _⟩ := x
  exact NoPanic.decodePropsLoop ctx allowed hall pl _ _ _ (by omega) (by omega)

theorem Post.decodeProps (ctx : PropCtx) (allowed : List UInt8) :
    Post (decodeProps ctx allowed) Props.Sized := by
  unfold V5.decodeProps
  apply Post.bind'
  intro x
  obtain ⟨pl, _⟩ := x
  exact Post.decodePropsLoop ctx allowed pl _ _ _ Props.Sized.empty

/-- `encode_properties_len!` on a property set whose values can all be sized does not fail. -/
theorem Props.bodyLen_ok (allowed : List UInt8) (ps : Props) (hs : ps.Sized) :
    ∃ n, ps.bodyLen allowed = .ok n := by
  unfold Props.bodyLen
  generalize userSize ps.user = acc
  induction allowed generalizing acc with
  | nil => exact ⟨acc, rfl⟩
  | cons i l ih =>
    rw [List.foldlM_cons]
    cases hg : ps.get i with
    | none => exact ih acc
    | some v =>
      obtain ⟨n, hn⟩ := hs i v hg
      simp only [hn]
      exact ih (acc + n)

theorem Props.encodeLen_ok (allowed : List UInt8) (ps : Props) (hs : ps.Sized) :
    ∃ n, ps.encodeLen allowed = .ok n := by
  obtain ⟨n, hn⟩ := Props.bodyLen_ok allowed ps hs
  unfold Props.encodeLen
  rw [hn]
  cases hv : varIntLen n with
  | ok k => exact ⟨n + k, by simp only [bind, Except.bind, hv]; rfl⟩
  | error e => exact ⟨n + 4, by simp only [bind, Except.bind, hv]; rfl⟩

theorem NoPanic.propsEncodeLenP (allowed : List UInt8) (ps : Props) (hs : ps.Sized) :
    NoPanic (propsEncodeLenP allowed ps) := by
  obtain ⟨n, hn⟩ := Props.encodeLen_ok allowed ps hs
  unfold V5.propsEncodeLenP
  rw [hn]
  exact NoPanic.pure' _

macro_rules | `(tactic| np5_step) => `(tactic| exact NoPanic.propsEncodeLenP _ _ (by assumption))

/-- A `decode_properties!` call followed by a continuation that may use `encode_len`. -/
theorem NoPanic.bind_decodeProps {β : Type} {ctx : PropCtx} {allowed : List UInt8}
    {f : Props → Parser ErrorV5 β} (hall : HasArms allowed)
    (hf : ∀ ps, ps.Sized → NoPanic (f ps)) : NoPanic (V5.decodeProps ctx allowed >>= f) :=
  NoPanic.bind_post (NoPanic.decodeProps ctx allowed hall) (Post.decodeProps ctx allowed) hf

macro "arms_tac" : tactic => `(tactic| first
  | exact connectProps_arms | exact willProps_arms | exact connackProps_arms
  | exact disconnectProps_arms | exact authProps_arms | exact publishProps_arms
  | exact ackProps_arms | exact subscribeProps_arms | exact unsubscribeProps_arms)

macro_rules | `(tactic| np5_step) => `(tactic| refine NoPanic.bind_decodeProps (by arms_tac) ?_)

/-! ### no-panic lemmas for the body decoders -/

theorem NoPanic.parseReason (k : Gen.CodeKind) (typ b : UInt8) :
    NoPanic (parseReason k typ b) := by
  unfold V5.parseReason
  np5_tac

macro_rules | `(tactic| np5_step) => `(tactic| exact NoPanic.parseReason _ _ _)

theorem NoPanic.lastWillDecode (qos : UInt8) (retain : Bool) :
    NoPanic (LastWill.decode qos retain) := by
  unfold LastWill.decode
  np5_tac

macro_rules | `(tactic| np5_step) => `(tactic| exact NoPanic.lastWillDecode _ _)

theorem NoPanic.connectDecodeWithProtocol (h : Header) (p : Protocol) :
    NoPanic (Connect.decodeWithProtocol h p) := by
  unfold Connect.decodeWithProtocol
  np5_tac

macro_rules | `(tactic| np5_step) => `(tactic| exact NoPanic.connectDecodeWithProtocol _ _)

theorem NoPanic.connectDecode (h : Header) : NoPanic (Connect.decode h) := by
  unfold Connect.decode
  np5_tac

macro_rules | `(tactic| np5_step) => `(tactic| exact NoPanic.connectDecode _)

/-- The `expect` on the two-byte payload is unreachable: `take 2` returns two bytes. -/
theorem NoPanic.connackDecode (h : Header) : NoPanic (Connack.decode h) := by
  unfold Connack.decode
  apply NoPanic.bind_of (NoPanic.take 2)
  intro payload bs r hp
  have hlen := take_ok_length hp
  match payload, hlen with
  | [f, c], _ => np5_tac

macro_rules | `(tactic| np5_step) => `(tactic| exact NoPanic.connackDecode _)

theorem NoPanic.disconnectDecode (h : Header) : NoPanic (Disconnect.decode h) := by
  unfold Disconnect.decode
  np5_tac

macro_rules | `(tactic| np5_step) => `(tactic| exact NoPanic.disconnectDecode _)

theorem NoPanic.authDecode (h : Header) : NoPanic (Auth.decode h) := by
  unfold Auth.decode
  np5_tac

macro_rules | `(tactic| np5_step) => `(tactic| exact NoPanic.authDecode _)

/-- `Publish::decode_async` is safe on headers whose qos is 0, 1 or 2. -/
theorem NoPanic.publishDecode (h : Header) (hq : h.qos.toNat ≤ 2) : NoPanic (Publish.decode h) := by
  unfold Publish.decode
  np5_tac
  next h0 h1 h2 =>
    exfalso
    have e0 : h.qos.toNat ≠ 0 := fun e => h0 (UInt8.toNat_inj.mp e)
    have e1 : h.qos.toNat ≠ 1 := fun e => h1 (UInt8.toNat_inj.mp e)
    have e2 : h.qos.toNat ≠ 2 := fun e => h2 (UInt8.toNat_inj.mp e)
    omega

theorem NoPanic.ackDecode (k : Gen.CodeKind) (h : Header) : NoPanic (Ack.decode k h) := by
  unfold Ack.decode
  np5_tac

macro_rules | `(tactic| np5_step) => `(tactic| exact NoPanic.ackDecode _ _)

theorem NoPanic.tfParser (debug : Bool)
    (hdbg : ∀ cs site, Topic.filterIsInvalid debug cs ≠ .panic site) (s : Bytes) :
    NoPanic (tfParser debug s) :=
  NoPanic.liftC (V3.NoPanic.tfParser debug hdbg s)

theorem NoPanic.subscribeLoop (debug : Bool)
    (hdbg : ∀ cs site, Topic.filterIsInvalid debug cs ≠ .panic site) :
    ∀ rl acc, NoPanic (subscribeLoop debug rl acc) := by
  intro rl
  induction rl using Nat.strongRecOn with
  | _ rl ih =>
    intro acc
    have := NoPanic.tfParser debug hdbg
    rw [subscribeLoop_eq]
    np5_tac
    · apply this
    · apply ih; omega

theorem NoPanic.unsubscribeLoop (debug : Bool)
    (hdbg : ∀ cs site, Topic.filterIsInvalid debug cs ≠ .panic site) :
    ∀ rl acc, NoPanic (unsubscribeLoop debug rl acc) := by
  intro rl
  induction rl using Nat.strongRecOn with
  | _ rl ih =>
    intro acc
    have := NoPanic.tfParser debug hdbg
    rw [unsubscribeLoop_eq]
    np5_tac
    · apply this
    · apply ih; omega

theorem NoPanic.codesLoop (k : Gen.CodeKind) (typ : UInt8) :
    ∀ rl acc, NoPanic (codesLoop k typ rl acc) := by
  intro rl
  induction rl with
  | zero => intro acc; rw [codesLoop_zero]; exact NoPanic.pure _
  | succ rl ih =>
    intro acc
    rw [codesLoop_succ]
    np5_tac
    apply ih

macro_rules | `(tactic| np5_step) => `(tactic| exact NoPanic.codesLoop _ _ _ _)

/-- The hand-written loop of `Unsubscribe` has enough fuel: each user property adds at
least five to `len`. -/
theorem NoPanic.unsubPropsLoop (typ : UInt8) (pl : Nat) :
    ∀ fuel len ps, 1 ≤ fuel → pl < len + fuel → NoPanic (unsubPropsLoop typ pl fuel len ps) := by
  intro fuel
  induction fuel with
  | zero => intro len ps h1; omega
  | succ fuel ih =>
    intro len ps _ hlt
    rw [V5.unsubPropsLoop]
    split
    · apply NoPanic.bind' (NoPanic.liftC NoPanic.readU8)
      intro idb
      split
      · exact NoPanic.fail _
      · split
        · apply NoPanic.bind' (NoPanic.liftC NoPanic.readString); intro n
          apply NoPanic.bind' (NoPanic.liftC NoPanic.readString); intro v
          exact ih _ _ (by omega) (by omega)
        · exact NoPanic.fail _
    · np5_tac

theorem NoPanic.subscribeDecode (debug : Bool)
    (hdbg : ∀ cs site, Topic.filterIsInvalid debug cs ≠ .panic site) (h : Header) :
    NoPanic (Subscribe.decode debug h) := by
  have := NoPanic.subscribeLoop debug hdbg
  unfold Subscribe.decode
  np5_tac
  apply this

theorem NoPanic.codesAckDecode (k : Gen.CodeKind) (h : Header) :
    NoPanic (CodesAck.decode k h) := by
  unfold CodesAck.decode
  np5_tac

macro_rules | `(tactic| np5_step) => `(tactic| exact NoPanic.codesAckDecode _ _)

theorem NoPanic.unsubscribeDecode (debug : Bool)
    (hdbg : ∀ cs site, Topic.filterIsInvalid debug cs ≠ .panic site) (h : Header) :
    NoPanic (Unsubscribe.decode debug h) := by
  have hl := NoPanic.unsubscribeLoop debug hdbg
  unfold Unsubscribe.decode
  apply NoPanic.bind' (NoPanic.liftC NoPanic.readPid); intro pid
  apply NoPanic.bind' (NoPanic.liftC NoPanic.decodeVarInt); intro x
  obtain ⟨pl, lenBytes⟩ := x
  apply NoPanic.bind' (NoPanic.unsubPropsLoop h.typ pl _ _ _ (by omega) (by omega)); intro y
  np5_tac
  apply hl

theorem NoPanic.headerDecode : NoPanic Header.decode := by
  unfold Header.decode
  np5_tac

macro_rules | `(tactic| np5_step) => `(tactic| exact NoPanic.headerDecode)

/-- `Header::decode_async` only returns headers built by `Header::new_with`. -/
theorem Header.decode_ok_newWith {bs r : Bytes} {h : Header} (hd : Header.decode bs = .ok h r) :
    ∃ cb rl, Header.newWith cb rl = .ok h := by
  simp only [Header.decode, bind, Parser.bind, liftC, Parser.mapErr] at hd
  cases hraw : decodeRawHeader bs with
  | ok x rest =>
    obtain ⟨typ, rl⟩ := x
    rw [hraw] at hd
    simp only [Res.bind, Res.mapErr] at hd
    cases hn : Header.newWith typ rl with
    | ok h' => rw [hn] at hd; simp only [liftExcept] at hd; cases hd; exact ⟨typ, rl, hn⟩
    | error e => rw [hn] at hd; cases hd
  | more => rw [hraw] at hd; cases hd
  | err e => rw [hraw] at hd; cases hd
  | panic s => rw [hraw] at hd; cases hd

/-- The lenient body dispatch is safe on headers with qos 0..2 and type 1..15. -/
theorem NoPanic.decodeBody (debug : Bool)
    (hdbg : ∀ cs site, Topic.filterIsInvalid debug cs ≠ .panic site) (h : Header)
    (hq : h.qos.toNat ≤ 2) (h1 : 1 ≤ h.typ.toNat) (h15 : h.typ.toNat ≤ 15) :
    NoPanic (decodeBody debug h) := by
  have := NoPanic.publishDecode h hq
  have := NoPanic.subscribeDecode debug hdbg h
  have := NoPanic.unsubscribeDecode debug hdbg h
  unfold V5.decodeBody
  np5_tac
  exfalso
  simp only [imp_false] at *; omega

/-- The strict body dispatch is safe on such headers when the packet is not an empty one. -/
theorem NoPanic.blockDecode (debug : Bool)
    (hdbg : ∀ cs site, Topic.filterIsInvalid debug cs ≠ .panic site) (h : Header)
    (hq : h.qos.toNat ≤ 2) (h1 : 1 ≤ h.typ.toNat) (h15 : h.typ.toNat ≤ 15)
    (he : buildEmptyPacket h = none) :
    NoPanic (blockDecode debug h) := by
  have := NoPanic.publishDecode h hq
  have := NoPanic.subscribeDecode debug hdbg h
  have := NoPanic.unsubscribeDecode debug hdbg h
  have h12 : h.typ.toNat ≠ 12 := by
    intro e; simp only [buildEmptyPacket, e] at he; cases he
  have h13 : h.typ.toNat ≠ 13 := by
    intro e; simp only [buildEmptyPacket, e] at he; cases he
  unfold V5.blockDecode
  np5_tac
  all_goals (exfalso; first | omega | (simp only [imp_false] at *; omega))

theorem NoPanic.decodeAsync (debug : Bool)
    (hdbg : ∀ cs site, Topic.filterIsInvalid debug cs ≠ .panic site) :
    NoPanic (decodeAsync debug) := by
  unfold V5.decodeAsync
  apply NoPanic.bind_of NoPanic.headerDecode
  intro h bs r hd
  obtain ⟨cb, rl, hn⟩ := Header.decode_ok_newWith hd
  obtain ⟨hq, h1, h15⟩ := Header.newWith_facts hn
  exact NoPanic.decodeBody debug hdbg h hq h1 h15

/-- `runAsync` passes panics through unchanged, so a safe reader gives a safe front-end. -/
theorem runAsync_ne_panic {α : Type} {p : Parser ErrorV5 α} (hp : NoPanic p) (bs : Bytes)
    (term : Term) (site : String) : runAsync p bs term ≠ .panic site := by
  intro h
  simp only [runAsync] at h
  cases hpb : p bs with
  | ok a r => rw [hpb] at h; cases h
  | more => rw [hpb] at h; cases h
  | err e => rw [hpb] at h; cases h
  | panic s => exact hp.np bs s hpb

theorem decodeBlocking_ne_panic (debug : Bool)
    (hdbg : ∀ cs site, Topic.filterIsInvalid debug cs ≠ .panic site) (bs : Bytes) (site : String) :
    decodeBlocking debug bs ≠ .panic site := by
  intro h
  simp only [decodeBlocking] at h
  cases hr : runAsync (decodeAsync debug) bs .eof with
  | ok p n => rw [hr] at h; cases h
  | err e => rw [hr] at h; split at h <;> first | (cases h; done) | (rename_i heq; cases heq)
  | panic s => exact runAsync_ne_panic (NoPanic.decodeAsync debug hdbg) bs .eof s hr

/-! ### the two dispatch tables agree -/

theorem blockDecode_eq_decodeBody (debug : Bool) (h : Header)
    (he : buildEmptyPacket h = none) (ht : 1 ≤ h.typ.toNat ∧ h.typ.toNat ≤ 15) :
    blockDecode debug h = decodeBody debug h := by
  have h12 : h.typ.toNat ≠ 12 := by
    intro e; simp only [buildEmptyPacket, e] at he; cases he
  have h13 : h.typ.toNat ≠ 13 := by
    intro e; simp only [buildEmptyPacket, e] at he; cases he
  obtain ⟨hlo, hhi⟩ := ht
  have hcases : h.typ.toNat = 1 ∨ h.typ.toNat = 2 ∨ h.typ.toNat = 3 ∨ h.typ.toNat = 4 ∨
      h.typ.toNat = 5 ∨ h.typ.toNat = 6 ∨ h.typ.toNat = 7 ∨ h.typ.toNat = 8 ∨
      h.typ.toNat = 9 ∨ h.typ.toNat = 10 ∨ h.typ.toNat = 11 ∨ h.typ.toNat = 14 ∨
      h.typ.toNat = 15 := by omega
  unfold V5.blockDecode V5.decodeBody
  rcases hcases with e | e | e | e | e | e | e | e | e | e | e | e | e <;> simp only [e]

end Mqtt.V5
