/-
  C04 (v3): the model's body decoders against the specification's
  parse ▸ validate ▸ project, on an exact body.
-/
import Proofs.V3SpecBasics

set_option linter.unusedSimpArgs false

namespace Mqtt.V3
open Mqtt

/-- The fields of a body (`Spec.fieldsV3` only looks at type, flags and body of the frame). -/
def fieldsOf (m : Bool) (t : Spec.PType) (flags : UInt8) (b : Bytes) : Option (List Spec.Field) :=
  Spec.fieldsV3 m ⟨t, flags, b, 0⟩

theorem fieldsV3_eq (m : Bool) (fr : Spec.Frame) :
    Spec.fieldsV3 m fr = fieldsOf m fr.ptype fr.flags fr.body := rfl

/-- parse ▸ validate ▸ project on an exact body. -/
def specBody (m : Bool) (t : Spec.PType) (flags : UInt8) (b : Bytes) : Option Packet :=
  (fieldsOf m t flags b).bind fun fs =>
    if Spec.validV3 t flags fs then Spec.projectV3 t flags fs else none

/-! ## packets that are a packet identifier -/

theorem pidBody (mk : Pid → Packet) (b : Bytes) (p : Packet) :
    (do let x ← readPid; pure (mk x) : Parser Error Packet) b = .ok p [] ↔
      ∃ a c, b = [a, c] ∧ be16 a c ≠ 0 ∧ p = mk ⟨be16 a c⟩ := by
  match b with
  | [] => simp [readPid_nil]
  | [a] => simp [readPid_one]
  | a :: c :: r =>
    simp only [Parser.bind_apply, readPid_cons2]
    by_cases hz : be16 a c = 0
    · simp [hz]
    · simp only [hz, if_false, Res.bind_ok, Parser.pure_apply, Res.ok.injEq, List.cons.injEq]
      constructor
      · rintro ⟨rfl, rfl⟩; exact ⟨a, c, ⟨rfl, rfl, rfl⟩, hz, rfl⟩
      · rintro ⟨a', c', ⟨rfl, rfl, rfl⟩, _, rfl⟩; exact ⟨rfl, rfl⟩

/-- The packet a pid-only type projects to. -/
def pidPacket : Spec.PType → Pid → Packet
  | .puback => .puback | .pubrec => .pubrec | .pubrel => .pubrel | .pubcomp => .pubcomp
  | _ => .unsuback

theorem pidSpec (m : Bool) (t : Spec.PType) (flags : UInt8) (b : Bytes) (p : Packet)
    (ht : t = .puback ∨ t = .pubrec ∨ t = .pubrel ∨ t = .pubcomp ∨ t = .unsuback) :
    specBody m t flags b = some p ↔
      ∃ a c, b = [a, c] ∧ be16 a c ≠ 0 ∧ p = pidPacket t ⟨be16 a c⟩ := by
  rcases ht with rfl | rfl | rfl | rfl | rfl <;>
  (match b with
  | [] => simp [specBody, fieldsOf, Spec.fieldsV3, Spec.parseBody, Spec.parseItems, Spec.layoutV3,
      parseWire_u16_nil]
  | [a] => simp [specBody, fieldsOf, Spec.fieldsV3, Spec.parseBody, Spec.parseItems, Spec.layoutV3,
      parseWire_u16_one]
  | a :: c :: r =>
    cases r with
    | nil =>
      by_cases hz : be16 a c = 0
      · simp [specBody, fieldsOf, Spec.fieldsV3, Spec.parseBody, Spec.parseItems, Spec.layoutV3,
          parseWire_u16, Spec.validV3, Spec.Field.pidOk, hz]
      · simp [specBody, fieldsOf, Spec.fieldsV3, Spec.parseBody, Spec.parseItems, Spec.layoutV3,
          parseWire_u16, Spec.validV3, Spec.projectV3, Spec.Field.pidOk, Spec.Field.textOk,
          Spec.Scalar.textOk, pidPacket, hz]
        constructor
        · rintro rfl; exact ⟨a, c, ⟨rfl, rfl⟩, hz, rfl⟩
        · rintro ⟨_, _, ⟨rfl, rfl⟩, _, rfl⟩; rfl
    | cons d r =>
      simp [specBody, fieldsOf, Spec.fieldsV3, Spec.parseBody, Spec.parseItems, Spec.layoutV3,
        parseWire_u16])


/-! ## CONNACK -/

set_option maxRecDepth 100000 in
theorem connack_codes (c : UInt8) :
    codeOfByte .connectReturnV3 c = if Spec.connackCodesV3.contains c then some c else none := by
  have := forall_uint8 (fun c => codeOfByte .connectReturnV3 c ==
    if Spec.connackCodesV3.contains c then some c else none) (by decide) c
  simpa using this

set_option maxRecDepth 100000 in
theorem connack_ack (a : UInt8) : a ≤ 1 ↔ (a = 0 ∨ a = 1) := by
  have := forall_uint8 (fun a => decide (a ≤ 1) == (a == 0 || a == 1)) (by decide) a
  simp only [beq_iff_eq] at this
  rw [← decide_eq_true_iff (p := a ≤ 1), this]
  simp

theorem connackBody (m : Bool) (flags : UInt8) (b : Bytes) (p : Packet) :
    (do let c ← Connack.decode; pure (.connack c) : Parser Error Packet) b = .ok p [] ↔
      specBody m .connack flags b = some p := by
  match b with
  | [] => simp [Connack.decode, take, specBody, fieldsOf, Spec.fieldsV3, Spec.parseBody, Spec.parseItems, Spec.layoutV3, parseWire_byte_nil]
  | [a] => simp [Connack.decode, take, specBody, fieldsOf, Spec.fieldsV3, Spec.parseBody, Spec.parseItems, Spec.layoutV3, parseWire_byte, parseWire_byte_nil]
  | [a, c] =>
    simp [Connack.decode, take, specBody, fieldsOf, Spec.fieldsV3, Spec.parseBody, Spec.parseItems, Spec.layoutV3, parseWire_byte, Spec.validV3, Spec.projectV3, connack_codes]
    by_cases ha : a = 0 ∨ a = 1
    · have hb : Spec.bit a 0 = decide (a = 1) := by rcases ha with rfl | rfl <;> decide
      by_cases hc : c ∈ Spec.connackCodesV3
      · simp [ha, hc, connack_ack, hb, Spec.Field.textOk, Spec.Scalar.textOk]
      · simp [ha, hc, connack_ack]
    · simp [ha, connack_ack]
  | a :: c :: d :: r =>
    simp [Connack.decode, take, specBody, fieldsOf, Spec.fieldsV3, Spec.parseBody, Spec.parseItems, Spec.layoutV3, parseWire_byte, Spec.validV3, Spec.projectV3, connack_codes]
    by_cases ha : a = 0 ∨ a = 1
    · by_cases hc : c ∈ Spec.connackCodesV3
      · simp [ha, hc]
      · simp [ha, hc]
    · simp [ha]


/-! ## PUBLISH -/

theorem payloadRead (r : Bytes) :
    (if r.length > 0 then take r.length else pure [] : Parser Error Bytes) r = .ok r [] := by
  cases r with
  | nil => rfl
  | cons x r => simp [take]

theorem checkedSub_lt {ε} {x y : Nat} (e : ε) (h : x < y) (bs : Bytes) :
    checkedSub x y e bs = .err e := by
  simp [checkedSub, Nat.not_le.mpr h]

theorem checkedSub_apply {ε} (x y : Nat) (e : ε) (bs : Bytes) :
    checkedSub x y e bs = if y ≤ x then .ok (x - y) bs else .err e := by
  unfold checkedSub; split <;> rfl

theorem pubQos_lt (flags : UInt8) : Spec.pubQos flags < 4 := by
  unfold Spec.pubQos Spec.bits; omega

theorem fieldsOf_publish (m : Bool) (flags : UInt8) (b : Bytes) :
    fieldsOf m .publish flags b =
      match Spec.lenPrefixed b with
      | none => none
      | some (topic, r1) =>
        if Spec.pubQos flags = 0 then some [.val (.str topic), .absent, .rest r1]
        else match r1 with
          | a :: c :: r2 => some [.val (.str topic), .val (.u16 (be16 a c)), .rest r2]
          | _ => none := by
  cases hl : Spec.lenPrefixed b with
  | none =>
    simp [hl, fieldsOf, Spec.fieldsV3, Spec.parseBody, Spec.parseItems, Spec.layoutV3, parseWire_str]
  | some x =>
    obtain ⟨topic, r1⟩ := x
    by_cases hq0 : Spec.pubQos flags = 0
    · simp [hl, hq0, fieldsOf, Spec.fieldsV3, Spec.parseBody, Spec.parseItems, Spec.layoutV3, parseWire_str]
    · match r1 with
      | [] => simp [hl, hq0, fieldsOf, Spec.fieldsV3, Spec.parseBody, Spec.parseItems, Spec.layoutV3, parseWire_str, parseWire_u16_nil]
      | [a] => simp [hl, hq0, fieldsOf, Spec.fieldsV3, Spec.parseBody, Spec.parseItems, Spec.layoutV3, parseWire_str, parseWire_u16_one]
      | a :: c :: r2 => simp [hl, hq0, fieldsOf, Spec.fieldsV3, Spec.parseBody, Spec.parseItems, Spec.layoutV3, parseWire_str, parseWire_u16]

theorem publishBody (m : Bool) (flags : UInt8) (b : Bytes) (p : Packet) (h : Header)
    (hrl : h.remainingLen = b.length) (hd : h.dup = Spec.pubDup flags)
    (hq : h.qos.toNat = Spec.pubQos flags) (hr : h.retain = Spec.pubRetain flags)
    (hok : Spec.pubFlagsOk flags = true) :
    (do let x ← Publish.decode h; pure (.publish x) : Parser Error Packet) b = .ok p [] ↔
      specBody m .publish flags b = some p := by
  have hq3 : Spec.pubQos flags ≠ 3 := by
    simp [Spec.pubFlagsOk] at hok; exact hok.1
  have hlt := pubQos_lt flags
  unfold specBody
  rw [fieldsOf_publish]
  cases hl : Spec.lenPrefixed b with
  | none => simp [Publish.decode, readString_eq, hl]
  | some x =>
    obtain ⟨topic, r1⟩ := x
    have hlen := lenPrefixed_length hl
    have hcs : h.remainingLen = 2 + topic.length + r1.length := by omega
    by_cases hq0 : Spec.pubQos flags = 0
    · have hq0' : h.qos = 0 := by apply UInt8.toNat_inj.mp; rw [hq, hq0]; rfl
      by_cases hv : Utf8.valid topic = true
      · by_cases hn : Spec.isTopicName topic = true
        · simp [Publish.decode, readString_eq, hl, hv, hq0, hq0', hcs, checkedSub_apply, payloadRead, topicNameTryFrom_eq, hn,
            Spec.validV3, Spec.projectV3, Spec.Field.textOk, Spec.Scalar.textOk, isText_eq_valid, hok,
            Spec.Lenient.emptyTopicName, Spec.Field.pidOk, hd, hr]
        · simp [Publish.decode, readString_eq, hl, hv, hq0, hq0', hcs, checkedSub_apply, payloadRead, topicNameTryFrom_eq, hn,
            Spec.validV3, Spec.projectV3, Spec.Field.textOk, Spec.Scalar.textOk, isText_eq_valid, hok,
            Spec.Lenient.emptyTopicName, Spec.Field.pidOk, hd, hr]
      · simp [Publish.decode, readString_eq, hl, hv, hq0,
            Spec.validV3, Spec.projectV3, Spec.Field.textOk, Spec.Scalar.textOk, isText_eq_valid]
    · have hq12 : Spec.pubQos flags = 1 ∨ Spec.pubQos flags = 2 := by omega
      have hqne : h.qos ≠ 0 := by
        intro h0; rw [h0] at hq; exact hq0 hq.symm
      have hqq : (h.qos = 1 ∧ Spec.pubQos flags = 1) ∨ (h.qos ≠ 1 ∧ h.qos = 2 ∧ Spec.pubQos flags = 2) := by
        rcases hq12 with h1 | h2
        · left; exact ⟨by apply UInt8.toNat_inj.mp; rw [hq, h1]; rfl, h1⟩
        · right
          have : h.qos = 2 := by apply UInt8.toNat_inj.mp; rw [hq, h2]; rfl
          exact ⟨by rw [this]; decide, this, h2⟩
      by_cases hv : Utf8.valid topic = true
      · match r1 with
        | [] =>
          rcases hqq with ⟨h1, h1'⟩ | ⟨h1, h2, h2'⟩
          · simp [Publish.decode, readString_eq, hl, hv, hq0, hqne, h1, hcs, checkedSub_apply]
          · simp [Publish.decode, readString_eq, hl, hv, hq0, hqne, h1, h2, hcs, checkedSub_apply]
        | [a] =>
          rcases hqq with ⟨h1, h1'⟩ | ⟨h1, h2, h2'⟩
          · simp [Publish.decode, readString_eq, hl, hv, hq0, hqne, h1, hcs, checkedSub_apply]
          · simp [Publish.decode, readString_eq, hl, hv, hq0, hqne, h1, h2, hcs, checkedSub_apply]
        | a :: c :: r2 =>
          by_cases hz : be16 a c = 0
          · rcases hqq with ⟨h1, h1'⟩ | ⟨h1, h2, h2'⟩
            · simp [Publish.decode, readString_eq, hl, hv, hq0, hqne, h1, hcs, checkedSub_apply, readPid_cons2, hz,
                Spec.validV3, Spec.Field.pidOk]
            · simp [Publish.decode, readString_eq, hl, hv, hq0, hqne, h1, h2, hcs, checkedSub_apply, readPid_cons2, hz,
                Spec.validV3, Spec.Field.pidOk]
          · by_cases hn : Spec.isTopicName topic = true
            · rcases hqq with ⟨h1, h1'⟩ | ⟨h1, h2, h2'⟩
              · simp [Publish.decode, readString_eq, hl, hv, hq0, hqne, h1, h1', hcs, checkedSub_apply, readPid_cons2, hz,
                  payloadRead, topicNameTryFrom_eq, hn,
                  Spec.validV3, Spec.projectV3, Spec.Field.textOk, Spec.Scalar.textOk, isText_eq_valid, hok,
                  Spec.Lenient.emptyTopicName, Spec.Field.pidOk, hd, hr, Spec.Field.u16?]
              · simp [Publish.decode, readString_eq, hl, hv, hq0, hqne, h1, h2, h2', hcs, checkedSub_apply, readPid_cons2, hz,
                  payloadRead, topicNameTryFrom_eq, hn,
                  Spec.validV3, Spec.projectV3, Spec.Field.textOk, Spec.Scalar.textOk, isText_eq_valid, hok,
                  Spec.Lenient.emptyTopicName, Spec.Field.pidOk, hd, hr, Spec.Field.u16?]
            · rcases hqq with ⟨h1, h1'⟩ | ⟨h1, h2, h2'⟩
              · simp [Publish.decode, readString_eq, hl, hv, hq0, hqne, h1, h1', hcs, checkedSub_apply, readPid_cons2, hz,
                  payloadRead, topicNameTryFrom_eq, hn, Spec.validV3]
              · simp [Publish.decode, readString_eq, hl, hv, hq0, hqne, h1, h2, h2', hcs, checkedSub_apply, readPid_cons2, hz,
                  payloadRead, topicNameTryFrom_eq, hn, Spec.validV3]
      · match r1 with
        | [] => simp [Publish.decode, readString_eq, hl, hv, hq0]
        | [a] => simp [Publish.decode, readString_eq, hl, hv, hq0]
        | a :: c :: r2 =>
          simp [Publish.decode, readString_eq, hl, hv, hq0,
            Spec.validV3, Spec.projectV3, Spec.Field.textOk, Spec.Scalar.textOk, isText_eq_valid]


/-! ## SUBACK -/

set_option maxRecDepth 100000 in
theorem suback_codes (c : UInt8) :
    codeOfByte .subscribeReturnV3 c = if Spec.subackCodesV3.contains c then some c else none := by
  have := forall_uint8 (fun c => codeOfByte .subscribeReturnV3 c ==
    if Spec.subackCodesV3.contains c then some c else none) (by decide) c
  simpa using this

theorem parseRows_byte (m : Bool) : ∀ (r : Bytes) (fuel : Nat), r.length ≤ fuel →
    Spec.parseRows m [.byte] fuel r = some (r.map fun x => [.byte x]) := by
  intro r
  induction r with
  | nil => intro fuel _; cases fuel <;> rfl
  | cons x r ih =>
    intro fuel hf
    cases fuel with
    | zero => simp at hf
    | succ f =>
      simp only [List.length_cons, Nat.add_le_add_iff_right] at hf
      simp [Spec.parseRows, Spec.parseRow, parseWire_byte, ih f hf]

theorem rowBytes_map (r : Bytes) : Spec.rowBytes (r.map fun x => [Spec.Scalar.byte x]) = r := by
  induction r with
  | nil => rfl
  | cons x r ih =>
    unfold Spec.rowBytes at ih ⊢
    simp only [List.map_cons, List.filterMap_cons, ih]

theorem byteRows_textOk (r : Bytes) :
    (r.map fun x => [Spec.Scalar.byte x]).all (fun vs => vs.all Spec.Scalar.textOk) = true := by
  induction r with
  | nil => rfl
  | cons x r ih => simp [Spec.Scalar.textOk]

theorem subackLoop_iff : ∀ (r : Bytes) (acc ts : List UInt8),
    subackLoop r.length acc r = .ok ts [] ↔
      (∀ x ∈ r, x ∈ Spec.subackCodesV3) ∧ ts = acc ++ r := by
  intro r
  induction r with
  | nil => intro acc ts; simp [subackLoop]; exact eq_comm
  | cons x r ih =>
    intro acc ts
    simp only [List.length_cons, subackLoop, readU8_cons, suback_codes, List.contains_eq_mem,
      decide_eq_true_eq]
    by_cases hx : x ∈ Spec.subackCodesV3
    · simp only [hx, if_true, ih, List.mem_cons, forall_eq_or_imp, true_and, List.append_assoc,
        List.singleton_append]
    · simp [hx]

theorem subackBody (m : Bool) (flags : UInt8) (b : Bytes) (p : Packet) :
    (do let x ← Suback.decode b.length; pure (.suback x) : Parser Error Packet) b = .ok p [] ↔
      specBody m .suback flags b = some p := by
  match b with
  | [] => simp [Suback.decode, readPid_nil, specBody, fieldsOf, Spec.fieldsV3, Spec.parseBody, Spec.parseItems, Spec.layoutV3, parseWire_u16_nil]
  | [a] => simp [Suback.decode, readPid_one, specBody, fieldsOf, Spec.fieldsV3, Spec.parseBody, Spec.parseItems, Spec.layoutV3, parseWire_u16_one]
  | a :: c :: r =>
    by_cases hz : be16 a c = 0
    · simp [Suback.decode, readPid_cons2, hz, specBody, fieldsOf, Spec.fieldsV3, Spec.parseBody, Spec.parseItems,
        Spec.layoutV3, parseWire_u16, parseRows_byte, Spec.validV3, Spec.Field.pidOk]
    · simp [Suback.decode, readPid_cons2, hz, specBody, fieldsOf, Spec.fieldsV3, Spec.parseBody, Spec.parseItems,
        Spec.layoutV3, parseWire_u16, parseRows_byte, Spec.validV3, Spec.Field.pidOk, checkedSub_apply,
        Spec.projectV3, Spec.Field.textOk, Spec.Scalar.textOk, rowBytes_map, Spec.Lenient.emptyCodeList]
      by_cases hall : ∀ x ∈ r, x ∈ Spec.subackCodesV3
      · have := (subackLoop_iff r [] r).mpr ⟨hall, rfl⟩
        simp only [this, Res.bind_ok, Res.ok.injEq, and_true]
        exact ⟨fun hp => ⟨hall, hp⟩, fun hp => hp.2⟩
      · cases hloop : subackLoop r.length [] r with
        | ok ts rest =>
          simp only [Res.bind_ok, Res.ok.injEq, hall, false_and, iff_false, not_and]
          rintro - rfl
          exact hall ((subackLoop_iff r [] ts).mp hloop).1
        | _ => simp [hall]


/-! ## SUBSCRIBE -/

set_option maxRecDepth 100000 in
theorem qosFromU8_eq (q : UInt8) :
    qosFromU8 q = if q ≤ 2 then .ok q else .error (.invalidQos q) := by
  have := forall_uint8 (fun q => match qosFromU8 q with
    | .ok d => d == q && decide (q ≤ 2)
    | .error e => e == .invalidQos q && !decide (q ≤ 2)) (by decide) q
  cases hq : qosFromU8 q with
  | ok d =>
    rw [hq] at this
    simp only [Bool.and_eq_true, beq_iff_eq, decide_eq_true_eq] at this
    rw [if_pos this.2, this.1]
  | error e =>
    rw [hq] at this
    simp only [Bool.and_eq_true, beq_iff_eq, Bool.not_eq_true', decide_eq_false_iff_not] at this
    rw [if_neg this.2, this.1]

/-- One turn of the SUBSCRIBE loop on an exact, non-empty rest of the body. -/
theorem subscribeLoop_step (debug : Bool) (bs : Bytes) (acc : List (Topic.TopicFilter × UInt8))
    (hne : bs ≠ []) :
    subscribeLoop debug bs.length acc bs =
      match Spec.lenPrefixed bs with
      | none => .more
      | some (s, r) =>
        if Utf8.valid s = false then .err .invalidString
        else if Spec.isTopicFilter s = false then .err (.invalidTopicFilter s)
        else match r with
          | [] => .more
          | q :: r' =>
            if q ≤ 2 then subscribeLoop debug r'.length (acc ++ [(Spec.topicFilterOf s, q)]) r'
            else .err (.invalidQos q) := by
  have hpos : bs.length > 0 := List.length_pos_iff.mpr hne
  rw [subscribeLoop_eq, if_pos hpos]
  simp only [Parser.bind, readString_eq]
  cases hl : Spec.lenPrefixed bs with
  | none => rfl
  | some x =>
    obtain ⟨s, r⟩ := x
    have hlen := lenPrefixed_length hl
    simp only []
    by_cases hv : Utf8.valid s = true
    · simp only [hv, if_true, Res.bind_ok, tfParser, topicFilterTryFrom_eq, Bool.true_eq_false, if_false]
      by_cases hf : Spec.isTopicFilter s = true
      · simp only [hf, if_true, Bool.true_eq_false, if_false]
        cases r with
        | nil => rfl
        | cons q r' =>
          simp only [readU8_cons, Res.bind_ok, qosFromU8_eq]
          by_cases hq : q ≤ 2
          · simp only [hq, if_true, liftExcept_ok, Res.bind_ok]
            simp only [List.length_cons] at hlen
            have h3 : 3 + (Spec.topicFilterOf s).text.length ≤ bs.length := by
              show 3 + s.length ≤ _; omega
            have : bs.length - (3 + (Spec.topicFilterOf s).text.length) = r'.length := by
              show _ - (3 + s.length) = _; omega
            simp only [h3, if_true, this]
          · simp only [hq, if_false, liftExcept_error, Res.bind_err]
      · simp only [hf, if_false, Bool.false_eq_true, hv, if_true, Res.bind_err]
    · simp only [hv, if_false, Res.bind_err]
      simp [hv]


/-- The (filter, byte) rows of a SUBSCRIBE payload, as plain pairs. -/
def subPairs : Nat → Bytes → Option (List (Bytes × UInt8))
  | _, [] => some []
  | 0, _ :: _ => none
  | f + 1, x :: bs =>
    match Spec.lenPrefixed (x :: bs) with
    | some (s, q :: r) => (subPairs f r).map ((s, q) :: ·)
    | _ => none

def subRow (x : Bytes × UInt8) : List Spec.Scalar := [.str x.1, .byte x.2]

theorem parseRows_sub (m : Bool) : ∀ (fuel : Nat) (bs : Bytes),
    Spec.parseRows m [.str, .byte] fuel bs = (subPairs fuel bs).map (·.map subRow) := by
  intro fuel
  induction fuel with
  | zero => intro bs; cases bs <;> rfl
  | succ f ih =>
    intro bs
    cases bs with
    | nil => rfl
    | cons x bs =>
      simp only [Spec.parseRows, subPairs, Spec.parseRow, parseWire_str]
      cases hl : Spec.lenPrefixed (x :: bs) with
      | none => rfl
      | some y =>
        obtain ⟨s, r⟩ := y
        cases r with
        | nil => simp [parseWire_byte_nil]
        | cons q r' =>
          simp [parseWire_byte, ih r', subRow]
          cases subPairs f r' <;> rfl

theorem subscribeLoop_iff (debug : Bool) : ∀ (fuel : Nat) (bs : Bytes)
    (acc ts : List (Topic.TopicFilter × UInt8)), bs.length ≤ fuel →
    (subscribeLoop debug bs.length acc bs = .ok ts [] ↔
      ∃ pairs, subPairs fuel bs = some pairs ∧
        (∀ x ∈ pairs, Spec.isTopicFilter x.1 = true ∧ x.2 ≤ 2) ∧
        ts = acc ++ pairs.map fun x => (Spec.topicFilterOf x.1, x.2)) := by
  intro fuel
  induction fuel with
  | zero =>
    intro bs acc ts hf
    have : bs = [] := List.length_eq_zero_iff.mp (by omega)
    subst this
    rw [subscribeLoop]
    simp [subPairs]
    exact eq_comm
  | succ f ih =>
    intro bs acc ts hf
    cases bs with
    | nil => rw [subscribeLoop]; simp [subPairs]; exact eq_comm
    | cons x bs =>
      rw [subscribeLoop_step debug (x :: bs) acc (by simp)]
      simp only [subPairs]
      cases hl : Spec.lenPrefixed (x :: bs) with
      | none => simp
      | some y =>
        obtain ⟨s, r⟩ := y
        have hlen := lenPrefixed_length hl
        simp only []
        cases r with
        | nil => by_cases hv : Utf8.valid s = true <;> by_cases hfl : Spec.isTopicFilter s = true <;> simp [hv, hfl]
        | cons q r' =>
          simp only [List.length_cons] at hlen hf
          have hhead : ∀ pairs, Option.map (fun x => (s, q) :: x) (subPairs f r') = some pairs →
              (∀ x ∈ pairs, Spec.isTopicFilter x.1 = true ∧ x.2 ≤ 2) →
              Spec.isTopicFilter s = true ∧ q ≤ 2 := by
            intro pairs hp hall
            cases hp' : subPairs f r' with
            | none => simp [hp'] at hp
            | some ps =>
              simp only [hp', Option.map_some, Option.some.injEq] at hp
              subst hp
              exact hall (s, q) (List.mem_cons_self)
          by_cases hfl : Spec.isTopicFilter s = true
          · have hv := isTopicFilter_valid hfl
            by_cases hq : q ≤ 2
            · simp only [hv, hfl, hq, Bool.true_eq_false, if_false, if_true]
              rw [ih r' _ ts (by omega)]
              constructor
              · rintro ⟨pairs, hp, hall, rfl⟩
                refine ⟨(s, q) :: pairs, by simp [hp], ?_, by simp⟩
                intro y hy
                rcases List.mem_cons.mp hy with rfl | hy
                · exact ⟨hfl, hq⟩
                · exact hall y hy
              · rintro ⟨pairs, hp, hall, rfl⟩
                cases hp' : subPairs f r' with
                | none => simp [hp'] at hp
                | some ps =>
                  simp only [hp', Option.map_some, Option.some.injEq] at hp
                  subst hp
                  exact ⟨ps, rfl, fun y hy => hall y (List.mem_cons_of_mem _ hy), by simp⟩
            · simp only [hv, hfl, hq, Bool.true_eq_false, if_false]
              constructor
              · intro h; cases h
              · rintro ⟨pairs, hp, hall, -⟩
                exact absurd (hhead pairs hp hall).2 hq
          · constructor
            · intro h
              by_cases hv : Utf8.valid s = true <;> simp [hv, hfl] at h
            · rintro ⟨pairs, hp, hall, -⟩
              exact absurd (hhead pairs hp hall).1 hfl


theorem filterMap_comp_some {α β γ : Type} (g : β → Option γ) (k : α → β) (f : α → γ)
    (h : ∀ x, g (k x) = some (f x)) (l : List α) : l.filterMap (g ∘ k) = l.map f := by
  induction l with
  | nil => rfl
  | cons x l ih => simp [List.filterMap_cons, h, ih]

theorem subPairs_ne_nil {fuel : Nat} {r : Bytes} {pairs : List (Bytes × UInt8)}
    (hp : subPairs fuel r = some pairs) (hr : r ≠ []) : pairs ≠ [] := by
  cases r with
  | nil => exact absurd rfl hr
  | cons x bs =>
    cases fuel with
    | zero => simp [subPairs] at hp
    | succ f =>
      simp only [subPairs] at hp
      split at hp
      · simp only [Option.map_eq_some_iff] at hp
        obtain ⟨ps, -, rfl⟩ := hp
        simp
      · cases hp

theorem subscribeBody (m debug : Bool) (flags : UInt8) (b : Bytes) (p : Packet) :
    (do let x ← Subscribe.decode debug b.length; pure (.subscribe x) : Parser Error Packet) b = .ok p [] ↔
      specBody m .subscribe flags b = some p := by
  match b with
  | [] => simp [Subscribe.decode, readPid_nil, specBody, fieldsOf, Spec.fieldsV3, Spec.parseBody, Spec.parseItems, Spec.layoutV3, parseWire_u16_nil]
  | [a] => simp [Subscribe.decode, readPid_one, specBody, fieldsOf, Spec.fieldsV3, Spec.parseBody, Spec.parseItems, Spec.layoutV3, parseWire_u16_one]
  | a :: c :: r =>
    cases hp : subPairs r.length r with
    | none =>
      have hloop : ∀ ts, subscribeLoop debug r.length [] r ≠ .ok ts [] := by
        intro ts h
        obtain ⟨pairs, hp', -⟩ := (subscribeLoop_iff debug r.length r [] ts (Nat.le_refl _)).mp h
        rw [hp] at hp'; cases hp'
      by_cases hz : be16 a c = 0
      · simp [Subscribe.decode, readPid_cons2, hz, specBody, fieldsOf, Spec.fieldsV3, Spec.parseBody, Spec.parseItems,
          Spec.layoutV3, parseWire_u16, parseRows_sub, hp]
      · simp [Subscribe.decode, readPid_cons2, hz, specBody, fieldsOf, Spec.fieldsV3, Spec.parseBody, Spec.parseItems,
          Spec.layoutV3, parseWire_u16, parseRows_sub, hp, checkedSub_apply]
        by_cases hr : r = []
        · simp [hr]
        · simp only [hr, if_false, Parser.bind_apply]
          cases hl : subscribeLoop debug r.length [] r with
          | ok ts rest =>
            simp only [Res.bind_ok, Parser.pure_apply, Res.ok.injEq, not_and]
            rintro - rfl
            exact hloop ts hl
          | _ => simp
    | some pairs =>
      by_cases hz : be16 a c = 0
      · simp [Subscribe.decode, readPid_cons2, hz, specBody, fieldsOf, Spec.fieldsV3, Spec.parseBody, Spec.parseItems,
          Spec.layoutV3, parseWire_u16, parseRows_sub, hp, Spec.validV3, Spec.Field.pidOk]
      · simp [Subscribe.decode, readPid_cons2, hz, specBody, fieldsOf, Spec.fieldsV3, Spec.parseBody, Spec.parseItems,
          Spec.layoutV3, parseWire_u16, parseRows_sub, hp, Spec.validV3, Spec.Field.pidOk, checkedSub_apply,
          Spec.projectV3, Spec.Field.textOk, Spec.Scalar.textOk, List.filterMap_map, subRow]
        have hfm : ∀ (g : List Spec.Scalar → Option (Topic.TopicFilter × UInt8)),
            (∀ x, g (subRow x) = some (Spec.topicFilterOf x.1, x.2)) →
            List.filterMap (g ∘ subRow) pairs = pairs.map (fun x => (Spec.topicFilterOf x.1, x.2)) :=
          fun g hg => filterMap_comp_some g subRow _ hg pairs
        rw [hfm _ (fun x => rfl)]
        by_cases hr : r = []
        · subst hr
          simp [subPairs] at hp
          simp [hp]
        · have hne := subPairs_ne_nil hp hr
          simp only [hr, if_false, Parser.bind_apply, hne, not_false_eq_true, true_and]
          by_cases hall : ∀ x ∈ pairs, Spec.isTopicFilter x.1 = true ∧ x.2 ≤ 2
          · have hl := (subscribeLoop_iff debug r.length r [] _ (Nat.le_refl _)).mpr ⟨pairs, hp, hall, rfl⟩
            simp only [hl, Res.bind_ok, Parser.pure_apply, List.nil_append, Res.ok.injEq, and_true]
            constructor
            · intro h
              refine ⟨⟨?_, fun a b hab => hall (a, b) hab⟩, h⟩
              intro a b hab
              rw [isText_eq_valid]
              exact isTopicFilter_valid (hall (a, b) hab).1
            · intro h; exact h.2
          · cases hl : subscribeLoop debug r.length [] r with
            | ok ts rest =>
              simp only [Res.bind_ok, Parser.pure_apply, Res.ok.injEq]
              constructor
              · rintro ⟨-, rfl⟩
                obtain ⟨pairs', hp', hall', -⟩ :=
                  (subscribeLoop_iff debug r.length r [] ts (Nat.le_refl _)).mp hl
                rw [hp] at hp'; cases hp'
                exact absurd hall' hall
              · rintro ⟨⟨-, h2⟩, -⟩
                exact absurd (fun (x : Bytes × UInt8) hx => h2 x.1 x.2 hx) hall
            | _ =>
              simp only [Res.bind_more, Res.bind_err, Res.bind_panic]
              constructor
              · intro h; cases h
              · rintro ⟨⟨-, h2⟩, -⟩
                exact absurd (fun (x : Bytes × UInt8) hx => h2 x.1 x.2 hx) hall


/-! ## UNSUBSCRIBE -/

/-- One turn of the UNSUBSCRIBE loop on an exact, non-empty rest of the body. -/
theorem unsubscribeLoop_step (debug : Bool) (bs : Bytes) (acc : List Topic.TopicFilter)
    (hne : bs ≠ []) :
    unsubscribeLoop debug bs.length acc bs =
      match Spec.lenPrefixed bs with
      | none => .more
      | some (s, r) =>
        if Utf8.valid s = false then .err .invalidString
        else if Spec.isTopicFilter s = false then .err (.invalidTopicFilter s)
        else unsubscribeLoop debug r.length (acc ++ [Spec.topicFilterOf s]) r := by
  have hpos : bs.length > 0 := List.length_pos_iff.mpr hne
  rw [unsubscribeLoop_eq, if_pos hpos]
  simp only [Parser.bind, readString_eq]
  cases hl : Spec.lenPrefixed bs with
  | none => rfl
  | some x =>
    obtain ⟨s, r⟩ := x
    have hlen := lenPrefixed_length hl
    simp only []
    by_cases hv : Utf8.valid s = true
    · simp only [hv, if_true, Res.bind_ok, tfParser, topicFilterTryFrom_eq, Bool.true_eq_false, if_false]
      by_cases hf : Spec.isTopicFilter s = true
      · simp only [hf, if_true, Bool.true_eq_false, if_false]
        have h3 : 2 + (Spec.topicFilterOf s).text.length ≤ bs.length := by
          show 2 + s.length ≤ _; omega
        have : bs.length - (2 + (Spec.topicFilterOf s).text.length) = r.length := by
          show _ - (2 + s.length) = _; omega
        simp only [Res.bind_ok, h3, if_true, this]
      · simp only [hf, if_false, Bool.false_eq_true, hv, if_true, Res.bind_err]
    · simp only [hv, if_false, Res.bind_err]
      simp [hv]

/-- The filters of an UNSUBSCRIBE payload. -/
def unsubPairs : Nat → Bytes → Option (List Bytes)
  | _, [] => some []
  | 0, _ :: _ => none
  | f + 1, x :: bs =>
    match Spec.lenPrefixed (x :: bs) with
    | some (s, r) => (unsubPairs f r).map (s :: ·)
    | none => none

def unsubRow (x : Bytes) : List Spec.Scalar := [.str x]

theorem parseRows_unsub (m : Bool) : ∀ (fuel : Nat) (bs : Bytes),
    Spec.parseRows m [.str] fuel bs = (unsubPairs fuel bs).map (·.map unsubRow) := by
  intro fuel
  induction fuel with
  | zero => intro bs; cases bs <;> rfl
  | succ f ih =>
    intro bs
    cases bs with
    | nil => rfl
    | cons x bs =>
      simp only [Spec.parseRows, unsubPairs, Spec.parseRow, parseWire_str]
      cases hl : Spec.lenPrefixed (x :: bs) with
      | none => rfl
      | some y =>
        obtain ⟨s, r⟩ := y
        simp [ih r, unsubRow]
        cases unsubPairs f r <;> rfl

theorem unsubscribeLoop_iff (debug : Bool) : ∀ (fuel : Nat) (bs : Bytes)
    (acc ts : List Topic.TopicFilter), bs.length ≤ fuel →
    (unsubscribeLoop debug bs.length acc bs = .ok ts [] ↔
      ∃ pairs, unsubPairs fuel bs = some pairs ∧
        (∀ x ∈ pairs, Spec.isTopicFilter x = true) ∧
        ts = acc ++ pairs.map Spec.topicFilterOf) := by
  intro fuel
  induction fuel with
  | zero =>
    intro bs acc ts hf
    have : bs = [] := List.length_eq_zero_iff.mp (by omega)
    subst this
    rw [unsubscribeLoop]
    simp [unsubPairs]
    exact eq_comm
  | succ f ih =>
    intro bs acc ts hf
    cases bs with
    | nil => rw [unsubscribeLoop]; simp [unsubPairs]; exact eq_comm
    | cons x bs =>
      rw [unsubscribeLoop_step debug (x :: bs) acc (by simp)]
      simp only [unsubPairs]
      cases hl : Spec.lenPrefixed (x :: bs) with
      | none => simp
      | some y =>
        obtain ⟨s, r⟩ := y
        have hlen := lenPrefixed_length hl
        simp only [List.length_cons] at hlen hf
        simp only []
        have hhead : ∀ pairs, Option.map (fun x => s :: x) (unsubPairs f r) = some pairs →
            (∀ x ∈ pairs, Spec.isTopicFilter x = true) → Spec.isTopicFilter s = true := by
          intro pairs hp hall
          simp only [Option.map_eq_some_iff] at hp
          obtain ⟨ps, -, rfl⟩ := hp
          exact hall s (List.mem_cons_self)
        by_cases hfl : Spec.isTopicFilter s = true
        · have hv := isTopicFilter_valid hfl
          simp only [hv, hfl, Bool.true_eq_false, if_false]
          rw [ih r _ ts (by omega)]
          constructor
          · rintro ⟨pairs, hp, hall, rfl⟩
            refine ⟨s :: pairs, by simp [hp], ?_, by simp⟩
            intro y hy
            rcases List.mem_cons.mp hy with rfl | hy
            · exact hfl
            · exact hall y hy
          · rintro ⟨pairs, hp, hall, rfl⟩
            simp only [Option.map_eq_some_iff] at hp
            obtain ⟨ps, hps, rfl⟩ := hp
            exact ⟨ps, hps, fun y hy => hall y (List.mem_cons_of_mem _ hy), by simp⟩
        · constructor
          · intro h
            by_cases hv : Utf8.valid s = true <;> simp [hv, hfl] at h
          · rintro ⟨pairs, hp, hall, -⟩
            exact absurd (hhead pairs hp hall) hfl

theorem unsubPairs_ne_nil {fuel : Nat} {r : Bytes} {pairs : List Bytes}
    (hp : unsubPairs fuel r = some pairs) (hr : r ≠ []) : pairs ≠ [] := by
  cases r with
  | nil => exact absurd rfl hr
  | cons x bs =>
    cases fuel with
    | zero => simp [unsubPairs] at hp
    | succ f =>
      simp only [unsubPairs] at hp
      split at hp
      · simp only [Option.map_eq_some_iff] at hp
        obtain ⟨ps, -, rfl⟩ := hp
        simp
      · cases hp

theorem unsubscribeBody (m debug : Bool) (flags : UInt8) (b : Bytes) (p : Packet) :
    (do let x ← Unsubscribe.decode debug b.length; pure (.unsubscribe x) : Parser Error Packet) b = .ok p [] ↔
      specBody m .unsubscribe flags b = some p := by
  match b with
  | [] => simp [Unsubscribe.decode, readPid_nil, specBody, fieldsOf, Spec.fieldsV3, Spec.parseBody, Spec.parseItems, Spec.layoutV3, parseWire_u16_nil]
  | [a] => simp [Unsubscribe.decode, readPid_one, specBody, fieldsOf, Spec.fieldsV3, Spec.parseBody, Spec.parseItems, Spec.layoutV3, parseWire_u16_one]
  | a :: c :: r =>
    cases hp : unsubPairs r.length r with
    | none =>
      have hloop : ∀ ts, unsubscribeLoop debug r.length [] r ≠ .ok ts [] := by
        intro ts h
        obtain ⟨pairs, hp', -⟩ := (unsubscribeLoop_iff debug r.length r [] ts (Nat.le_refl _)).mp h
        rw [hp] at hp'; cases hp'
      by_cases hz : be16 a c = 0
      · simp [Unsubscribe.decode, readPid_cons2, hz, specBody, fieldsOf, Spec.fieldsV3, Spec.parseBody, Spec.parseItems,
          Spec.layoutV3, parseWire_u16, parseRows_unsub, hp]
      · simp [Unsubscribe.decode, readPid_cons2, hz, specBody, fieldsOf, Spec.fieldsV3, Spec.parseBody, Spec.parseItems,
          Spec.layoutV3, parseWire_u16, parseRows_unsub, hp, checkedSub_apply]
        by_cases hr : r = []
        · simp [hr]
        · simp only [hr, if_false, Parser.bind_apply]
          cases hl : unsubscribeLoop debug r.length [] r with
          | ok ts rest =>
            simp only [Res.bind_ok, Parser.pure_apply, Res.ok.injEq, not_and]
            rintro - rfl
            exact hloop ts hl
          | _ => simp
    | some pairs =>
      by_cases hz : be16 a c = 0
      · simp [Unsubscribe.decode, readPid_cons2, hz, specBody, fieldsOf, Spec.fieldsV3, Spec.parseBody, Spec.parseItems,
          Spec.layoutV3, parseWire_u16, parseRows_unsub, hp, Spec.validV3, Spec.Field.pidOk]
      · simp [Unsubscribe.decode, readPid_cons2, hz, specBody, fieldsOf, Spec.fieldsV3, Spec.parseBody, Spec.parseItems,
          Spec.layoutV3, parseWire_u16, parseRows_unsub, hp, Spec.validV3, Spec.Field.pidOk, checkedSub_apply,
          Spec.projectV3, Spec.Field.textOk, Spec.Scalar.textOk, List.filterMap_map, unsubRow]
        have hfm : ∀ (g : List Spec.Scalar → Option Topic.TopicFilter),
            (∀ x, g (unsubRow x) = some (Spec.topicFilterOf x)) →
            List.filterMap (g ∘ unsubRow) pairs = pairs.map Spec.topicFilterOf :=
          fun g hg => filterMap_comp_some g unsubRow _ hg pairs
        rw [hfm _ (fun x => rfl)]
        by_cases hr : r = []
        · subst hr
          simp [unsubPairs] at hp
          simp [hp]
        · have hne := unsubPairs_ne_nil hp hr
          simp only [hr, if_false, Parser.bind_apply, hne, not_false_eq_true, true_and]
          by_cases hall : ∀ x ∈ pairs, Spec.isTopicFilter x = true
          · have hl := (unsubscribeLoop_iff debug r.length r [] _ (Nat.le_refl _)).mpr ⟨pairs, hp, hall, rfl⟩
            simp only [hl, Res.bind_ok, Parser.pure_apply, List.nil_append, Res.ok.injEq, and_true]
            constructor
            · intro h
              refine ⟨⟨?_, hall⟩, h⟩
              intro a hab
              rw [isText_eq_valid]
              exact isTopicFilter_valid (hall a hab)
            · intro h; exact h.2
          · cases hl : unsubscribeLoop debug r.length [] r with
            | ok ts rest =>
              simp only [Res.bind_ok, Parser.pure_apply, Res.ok.injEq]
              constructor
              · rintro ⟨-, rfl⟩
                obtain ⟨pairs', hp', hall', -⟩ :=
                  (unsubscribeLoop_iff debug r.length r [] ts (Nat.le_refl _)).mp hl
                rw [hp] at hp'; cases hp'
                exact absurd hall' hall
              · rintro ⟨⟨-, h2⟩, -⟩
                exact absurd h2 hall
            | _ =>
              simp only [Res.bind_more, Res.bind_err, Res.bind_panic]
              constructor
              · intro h; cases h
              · rintro ⟨⟨-, h2⟩, -⟩
                exact absurd h2 hall

end Mqtt.V3
