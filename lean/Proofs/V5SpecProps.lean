/-
  C04 (v5): the property section.  The model reads identifier / value pairs from the main
  stream while the declared length exceeds the CANONICAL size of what it has read; the
  specification cuts exactly the declared number of bytes and parses them with the
  identifier → wire type table, then validates and projects.
-/
import Proofs.V5SpecTables

set_option linter.unusedSimpArgs false
set_option linter.unusedVariables false

namespace Mqtt.V5
open Mqtt

/-! ## single values of the specification -/

theorem lenPrefixed_uniform {bs s r : Bytes} (h : Spec.lenPrefixed bs = some (s, r)) :
    ∃ c, bs = c ++ r ∧ c.length = 2 + s.length ∧ ∀ x, Spec.lenPrefixed (c ++ x) = some (s, x) := by
  match bs, h with
  | hi :: lo :: rr, h =>
    simp only [Spec.lenPrefixed] at h
    split at h
    · rename_i hle
      simp only [Option.some.injEq, Prod.mk.injEq] at h
      obtain ⟨rfl, rfl⟩ := h
      have hl : (List.take (hi.toNat * 256 + lo.toNat) rr).length = hi.toNat * 256 + lo.toNat := by
        rw [List.length_take]; omega
      refine ⟨hi :: lo :: rr.take (hi.toNat * 256 + lo.toNat), ?_, ?_, ?_⟩
      · simp
      · simp only [List.length_cons, hl]; omega
      · intro x
        simp only [List.cons_append, Spec.lenPrefixed, List.length_append, hl]
        rw [if_pos (by omega), List.take_left' hl, List.drop_left' hl]
    · cases h

theorem varintDigits_uniform : ∀ (k : Nat) (bs : Bytes) (v n : Nat) (r : Bytes),
    Spec.varintDigits k bs = some (v, n, r) →
    ∃ c, bs = c ++ r ∧ c.length = n ∧ ∀ x, Spec.varintDigits k (c ++ x) = some (v, n, x) := by
  intro k
  induction k with
  | zero => intro bs v n r h; simp [Spec.varintDigits] at h
  | succ k ih =>
    intro bs v n r h
    cases bs with
    | nil => simp [Spec.varintDigits] at h
    | cons b rest =>
      simp only [Spec.varintDigits] at h
      by_cases hb : b.toNat < 128
      · simp only [hb, if_true, Option.some.injEq, Prod.mk.injEq] at h
        obtain ⟨rfl, rfl, rfl⟩ := h
        exact ⟨[b], rfl, rfl, fun x => by simp [Spec.varintDigits, hb]⟩
      · simp only [hb, if_false, Option.map_eq_some_iff] at h
        obtain ⟨⟨v1, n1, r1⟩, hd, heq⟩ := h
        simp only [Prod.mk.injEq] at heq
        obtain ⟨rfl, rfl, rfl⟩ := heq
        obtain ⟨c, rfl, hcl, hx⟩ := ih rest v1 n1 r1 hd
        refine ⟨b :: c, rfl, by simp [hcl], fun x => ?_⟩
        simp [Spec.varintDigits, hb, hx x]

theorem varintDigits4_facts {bs : Bytes} {v n : Nat} {r : Bytes}
    (h : Spec.varintDigits 4 bs = some (v, n, r)) :
    v < 268435456 ∧ bs.length = r.length + n ∧ Spec.varIntSize v ≤ n :=
  decodeVarInt_ok_inv ((V3.decodeVarInt_iff_digits Error.invalidVarByteInt bs v n r).mpr h)

theorem parseWire_byte_iff (m : Bool) (r0 : Bytes) (vs : List Spec.Scalar) (r1 : Bytes) :
    Spec.parseWire m .byte r0 = some (vs, r1) ↔ ∃ b, r0 = b :: r1 ∧ vs = [.byte b] := by
  cases r0 with
  | nil => simp [Spec.parseWire]
  | cons b r =>
    simp only [Spec.parseWire, Option.some.injEq, Prod.mk.injEq, List.cons.injEq]
    constructor
    · rintro ⟨rfl, rfl⟩; exact ⟨b, ⟨rfl, rfl⟩, rfl⟩
    · rintro ⟨b', ⟨rfl, rfl⟩, rfl⟩; exact ⟨rfl, rfl⟩

theorem parseWire_u16_iff (m : Bool) (r0 : Bytes) (vs : List Spec.Scalar) (r1 : Bytes) :
    Spec.parseWire m .u16 r0 = some (vs, r1) ↔ ∃ a c, r0 = a :: c :: r1 ∧ vs = [.u16 (be16 a c)] := by
  match r0 with
  | [] => simp [Spec.parseWire]
  | [_] => simp [Spec.parseWire]
  | a :: c :: r =>
    rw [V3.parseWire_u16]
    simp only [Option.some.injEq, Prod.mk.injEq, List.cons.injEq]
    constructor
    · rintro ⟨rfl, rfl⟩; exact ⟨a, c, ⟨rfl, rfl, rfl⟩, rfl⟩
    · rintro ⟨a', c', ⟨rfl, rfl, rfl⟩, rfl⟩; exact ⟨rfl, rfl⟩

theorem parseWire_u32_iff (m : Bool) (r0 : Bytes) (vs : List Spec.Scalar) (r1 : Bytes) :
    Spec.parseWire m .u32 r0 = some (vs, r1) ↔
      ∃ a b c d, r0 = a :: b :: c :: d :: r1 ∧ vs = [.u32 (be32 a b c d)] := by
  match r0 with
  | [] => simp [Spec.parseWire]
  | [_] => simp [Spec.parseWire]
  | [_, _] => simp [Spec.parseWire]
  | [_, _, _] => simp [Spec.parseWire]
  | a :: b :: c :: d :: r =>
    simp only [Spec.parseWire, Option.some.injEq, Prod.mk.injEq, List.cons.injEq]
    constructor
    · rintro ⟨rfl, rfl⟩; exact ⟨a, b, c, d, ⟨rfl, rfl, rfl, rfl, rfl⟩, rfl⟩
    · rintro ⟨a', b', c', d', ⟨rfl, rfl, rfl, rfl, rfl⟩, rfl⟩; exact ⟨rfl, rfl⟩

theorem parseWire_varint_iff (m : Bool) (r0 : Bytes) (vs : List Spec.Scalar) (r1 : Bytes) :
    Spec.parseWire m .varint r0 = some (vs, r1) ↔
      ∃ v k, Spec.varintDigits 4 r0 = some (v, k, r1) ∧ (m = true → k = Spec.varIntSize v) ∧
        vs = [.varint v] := by
  have hpw : Spec.parseWire m .varint r0 =
      (Spec.varint m r0).map fun (n, r) => ([Spec.Scalar.varint n], r) := by
    unfold Spec.parseWire; rfl
  rw [hpw]
  unfold Spec.varint
  cases hd : Spec.varintDigits 4 r0 with
  | none => simp
  | some x =>
    obtain ⟨v, k, r⟩ := x
    simp only [Option.bind_some]
    by_cases hc : (!m || decide (k = Spec.varIntSize v)) = true
    · have hc' : m = true → k = Spec.varIntSize v := by
        intro hm; subst hm; simpa using hc
      simp only [hc, if_true, Option.map_some, Option.some.injEq, Prod.mk.injEq]
      constructor
      · rintro ⟨rfl, rfl⟩; exact ⟨v, k, ⟨rfl, rfl, rfl⟩, hc', rfl⟩
      · rintro ⟨v', k', ⟨rfl, rfl, rfl⟩, -, rfl⟩; exact ⟨rfl, rfl⟩
    · simp only [hc, if_false, Option.map_none, Option.some.injEq, Prod.mk.injEq, reduceCtorEq, false_iff]
      rintro ⟨v', k', ⟨rfl, rfl, rfl⟩, hm, -⟩
      apply hc
      cases m with
      | false => rfl
      | true => simp [hm rfl]

theorem parseWire_str_iff (m : Bool) (r0 : Bytes) (vs : List Spec.Scalar) (r1 : Bytes) :
    Spec.parseWire m .str r0 = some (vs, r1) ↔
      ∃ s, Spec.lenPrefixed r0 = some (s, r1) ∧ vs = [.str s] := by
  rw [V3.parseWire_str]
  simp only [Option.map_eq_some_iff, Prod.mk.injEq]
  constructor
  · rintro ⟨⟨s, r⟩, hl, rfl, rfl⟩; exact ⟨s, hl, rfl⟩
  · rintro ⟨s, hl, rfl⟩; exact ⟨(s, r1), hl, rfl, rfl⟩

theorem parseWire_bin_iff (m : Bool) (r0 : Bytes) (vs : List Spec.Scalar) (r1 : Bytes) :
    Spec.parseWire m .bin r0 = some (vs, r1) ↔
      ∃ s, Spec.lenPrefixed r0 = some (s, r1) ∧ vs = [.bin s] := by
  rw [V3.parseWire_bin]
  simp only [Option.map_eq_some_iff, Prod.mk.injEq]
  constructor
  · rintro ⟨⟨s, r⟩, hl, rfl, rfl⟩; exact ⟨s, hl, rfl⟩
  · rintro ⟨s, hl, rfl⟩; exact ⟨(s, r1), hl, rfl, rfl⟩

theorem parseWire_strPair_iff (m : Bool) (r0 : Bytes) (vs : List Spec.Scalar) (r1 : Bytes) :
    Spec.parseWire m .strPair r0 = some (vs, r1) ↔
      ∃ k v r, Spec.lenPrefixed r0 = some (k, r) ∧ Spec.lenPrefixed r = some (v, r1) ∧
        vs = [.str k, .str v] := by
  have hpw : Spec.parseWire m .strPair r0 =
      (Spec.lenPrefixed r0).bind fun x => (Spec.lenPrefixed x.2).bind fun y =>
        some ([Spec.Scalar.str x.1, .str y.1], y.2) := by
    unfold Spec.parseWire; rfl
  rw [hpw]
  simp only [Option.bind_eq_some_iff, Option.some.injEq, Prod.mk.injEq]
  constructor
  · rintro ⟨⟨k, r⟩, hl1, ⟨v, r'⟩, hl2, rfl, rfl⟩; exact ⟨k, v, r, hl1, hl2, rfl⟩
  · rintro ⟨k, v, r, hl1, hl2, rfl⟩; exact ⟨(k, r), hl1, (v, r1), hl2, rfl, rfl⟩

/-- The strict reading of a value is also a tolerant reading. -/
theorem parseWire_loose {w : Spec.WireType} {r0 : Bytes} {vs : List Spec.Scalar} {r1 : Bytes}
    (h : Spec.parseWire true w r0 = some (vs, r1)) : Spec.parseWire false w r0 = some (vs, r1) := by
  cases w with
  | varint =>
    rw [parseWire_varint_iff] at h ⊢
    obtain ⟨v, k, hd, -, rfl⟩ := h
    exact ⟨v, k, hd, (fun hm => by cases hm), rfl⟩
  | byte => rw [parseWire_byte_iff] at h ⊢; exact h
  | u16 => rw [parseWire_u16_iff] at h ⊢; exact h
  | u32 => rw [parseWire_u32_iff] at h ⊢; exact h
  | str => rw [parseWire_str_iff] at h ⊢; exact h
  | bin => rw [parseWire_bin_iff] at h ⊢; exact h
  | strPair => rw [parseWire_strPair_iff] at h ⊢; exact h

/-- Canonical size of a value (a Variable Byte Integer counts its minimal encoding). -/
def scalarSize : Spec.Scalar → Nat
  | .byte _ => 1 | .u16 _ => 2 | .u32 _ => 4 | .varint n => Spec.varIntSize n
  | .str s => 2 + s.length | .bin s => 2 + s.length

/-- Canonical size of a property, identifier included. -/
def rawSize (x : Spec.RawProp) : Nat := 1 + (x.2.map scalarSize).sum

def canon (raw : List Spec.RawProp) : Nat := (raw.map rawSize).sum

/-- A value is read from a prefix of the input that determines it, of at least its canonical
size (exactly that, unless it is a non-minimal Variable Byte Integer). -/
theorem parseWire_uniform {m : Bool} {w : Spec.WireType} {r0 : Bytes} {vs : List Spec.Scalar}
    {r1 : Bytes} (h : Spec.parseWire m w r0 = some (vs, r1)) :
    ∃ c, r0 = c ++ r1 ∧ (∀ x, Spec.parseWire m w (c ++ x) = some (vs, x)) ∧
      (vs.map scalarSize).sum ≤ c.length ∧
      ((m = true ∨ w ≠ .varint) → (vs.map scalarSize).sum = c.length) := by
  cases w with
  | byte =>
    rw [parseWire_byte_iff] at h
    obtain ⟨b, rfl, rfl⟩ := h
    exact ⟨[b], rfl, fun x => (parseWire_byte_iff _ _ _ _).mpr ⟨b, rfl, rfl⟩, by simp [scalarSize],
      fun _ => by simp [scalarSize]⟩
  | u16 =>
    rw [parseWire_u16_iff] at h
    obtain ⟨a, c, rfl, rfl⟩ := h
    exact ⟨[a, c], rfl, fun x => (parseWire_u16_iff _ _ _ _).mpr ⟨a, c, rfl, rfl⟩, by simp [scalarSize],
      fun _ => by simp [scalarSize]⟩
  | u32 =>
    rw [parseWire_u32_iff] at h
    obtain ⟨a, b, c, d, rfl, rfl⟩ := h
    exact ⟨[a, b, c, d], rfl, fun x => (parseWire_u32_iff _ _ _ _).mpr ⟨a, b, c, d, rfl, rfl⟩,
      by simp [scalarSize], fun _ => by simp [scalarSize]⟩
  | varint =>
    rw [parseWire_varint_iff] at h
    obtain ⟨v, k, hd, hm, rfl⟩ := h
    obtain ⟨-, -, hsz⟩ := varintDigits4_facts hd
    obtain ⟨c, rfl, hcl, hx⟩ := varintDigits_uniform 4 r0 v k r1 hd
    refine ⟨c, rfl, fun x => (parseWire_varint_iff _ _ _ _).mpr ⟨v, k, hx x, hm, rfl⟩, ?_, ?_⟩
    · simp only [List.map_cons, List.map_nil, List.sum_cons, List.sum_nil, scalarSize]; omega
    · intro hmw
      rcases hmw with hmt | hne
      · simp only [List.map_cons, List.map_nil, List.sum_cons, List.sum_nil, scalarSize]
        have := hm hmt; omega
      · exact absurd rfl hne
  | str =>
    rw [parseWire_str_iff] at h
    obtain ⟨s, hl, rfl⟩ := h
    obtain ⟨c, rfl, hcl, hx⟩ := lenPrefixed_uniform hl
    exact ⟨c, rfl, fun x => (parseWire_str_iff _ _ _ _).mpr ⟨s, hx x, rfl⟩,
      by simp [scalarSize, hcl], fun _ => by simp [scalarSize, hcl]⟩
  | bin =>
    rw [parseWire_bin_iff] at h
    obtain ⟨s, hl, rfl⟩ := h
    obtain ⟨c, rfl, hcl, hx⟩ := lenPrefixed_uniform hl
    exact ⟨c, rfl, fun x => (parseWire_bin_iff _ _ _ _).mpr ⟨s, hx x, rfl⟩,
      by simp [scalarSize, hcl], fun _ => by simp [scalarSize, hcl]⟩
  | strPair =>
    rw [parseWire_strPair_iff] at h
    obtain ⟨k, v, r, hl1, hl2, rfl⟩ := h
    obtain ⟨c2, rfl, hcl2, hx2⟩ := lenPrefixed_uniform hl2
    obtain ⟨c1, rfl, hcl1, hx1⟩ := lenPrefixed_uniform hl1
    refine ⟨c1 ++ c2, by simp, fun x => ?_, ?_, fun _ => ?_⟩
    · rw [parseWire_strPair_iff]
      exact ⟨k, v, c2 ++ x, by rw [List.append_assoc]; exact hx1 _, hx2 x, rfl⟩
    · simp [scalarSize, hcl1, hcl2]
    · simp [scalarSize, hcl1, hcl2]

/-! ## one property value of the model -/

theorem u8_gt_one (a : UInt8) : a > 1 ↔ ¬ a ≤ 1 := by
  rw [gt_iff_lt, UInt8.lt_iff_toNat_lt, UInt8.le_iff_toNat_le]
  omega

set_option maxRecDepth 100000 in
theorem qos_le_one (a : UInt8) (h : a ≤ 1) : codeOfByte .qos a = some a := by
  have := V3.forall_uint8 (fun a => !(decide (a ≤ 1)) || codeOfByte .qos a == some a) (by decide) a
  simpa [h] using this

theorem propValueOk_byte (id a : UInt8) : Spec.propValueOk id (.byte a) = decide (a ≤ 1) := rfl
theorem propValueOk_u16 (id : UInt8) (x : UInt16) : Spec.propValueOk id (.u16 x) = true := by
  simp [Spec.propValueOk, Spec.Lenient.zeroReceiveMaximum, Spec.Lenient.zeroTopicAlias]
theorem propValueOk_u32 (id : UInt8) (x : UInt32) : Spec.propValueOk id (.u32 x) = true := by
  simp [Spec.propValueOk, Spec.Lenient.zeroMaximumPacketSize]
theorem propValueOk_varint (id : UInt8) (n : Nat) : Spec.propValueOk id (.varint n) = true := by
  simp [Spec.propValueOk, Spec.Lenient.zeroSubscriptionIdentifier]
theorem propValueOk_bin (id : UInt8) (s : Bytes) : Spec.propValueOk id (.bin s) = true := rfl
theorem propValueOk_str (id : UInt8) (s : Bytes) (h : id ≠ 0x08) :
    Spec.propValueOk id (.str s) = true := by
  simp [Spec.propValueOk, h]
theorem propValueOk_topic (s : Bytes) :
    Spec.propValueOk 0x08 (.str s) = Spec.isTopicName s := by
  simp [Spec.propValueOk]

theorem textOk_str (s : Bytes) : (Spec.Scalar.str s).textOk = Utf8.valid s := by
  simp [Spec.Scalar.textOk, V3.isText_eq_valid]

/-- One `decode_property!` arm accepts exactly a value of the identifier's wire type (any
spelling of a Variable Byte Integer) that the specification's value rules allow. -/
theorem decodePropValue_ok_iff (id : UInt8) (k : PropKind) (ps : Props) (r0 : Bytes)
    (v : PropVal) (r1 : Bytes) (htop : k = .topic ↔ id = 0x08) :
    decodePropValue id k ps r0 = .ok v r1 ↔
      ps.get id = none ∧ ∃ s, Spec.parseWire false (kindWire k) r0 = some ([s], r1) ∧
        Spec.propValueOk id s = true ∧ s.textOk = true ∧ v = Spec.propVal s := by
  unfold decodePropValue
  cases hg : ps.get id with
  | some x => simp
  | none =>
    simp only [Option.isSome_none, Bool.false_eq_true, if_false, true_and]
    cases k with
    | byte01 =>
      simp only [bind_ok_iff, readU8_ok_iff, kindWire, parseWire_byte_iff]
      constructor
      · rintro ⟨a, r, rfl, h⟩
        by_cases ha : a > 1
        · simp [ha] at h
        · simp only [ha, if_false, pure_ok_iff] at h
          obtain ⟨rfl, rfl⟩ := h
          have hle : a ≤ 1 := by
            rw [u8_gt_one] at ha; exact Decidable.of_not_not ha
          exact ⟨.byte a, ⟨a, rfl, rfl⟩, by simp [propValueOk_byte, hle], rfl, rfl⟩
      · rintro ⟨s, ⟨b, rfl, hs⟩, hok, -, rfl⟩
        cases hs
        have hle : b ≤ 1 := by simpa [propValueOk_byte] using hok
        have hb : ¬ b > 1 := by rw [u8_gt_one]; exact fun h => h hle
        exact ⟨b, r1, rfl, by simp [hb, Spec.propVal]⟩
    | qos01 =>
      simp only [bind_ok_iff, readU8_ok_iff, kindWire, parseWire_byte_iff]
      constructor
      · rintro ⟨a, r, rfl, h⟩
        by_cases ha : a > 1
        · simp [ha] at h
        · have hle : a ≤ 1 := by
            rw [u8_gt_one] at ha; exact Decidable.of_not_not ha
          simp only [ha, if_false, qos_le_one a hle, pure_ok_iff] at h
          obtain ⟨rfl, rfl⟩ := h
          exact ⟨.byte a, ⟨a, rfl, rfl⟩, by simp [propValueOk_byte, hle], rfl, rfl⟩
      · rintro ⟨s, ⟨b, rfl, hs⟩, hok, -, rfl⟩
        cases hs
        have hle : b ≤ 1 := by simpa [propValueOk_byte] using hok
        have hb : ¬ b > 1 := by rw [u8_gt_one]; exact fun h => h hle
        exact ⟨b, r1, rfl, by simp [hb, Spec.propVal, qos_le_one b hle]⟩
    | u16 =>
      simp only [bind_ok_iff, readU16_ok_iff, kindWire, parseWire_u16_iff, pure_ok_iff]
      constructor
      · rintro ⟨x, r, ⟨a, c, rfl, rfl⟩, rfl, rfl⟩
        exact ⟨.u16 (be16 a c), ⟨a, c, rfl, rfl⟩, propValueOk_u16 _ _, rfl, rfl⟩
      · rintro ⟨s, ⟨a, c, rfl, hs⟩, -, -, rfl⟩
        cases hs
        exact ⟨_, _, ⟨a, c, rfl, rfl⟩, rfl, rfl⟩
    | u32 =>
      simp only [bind_ok_iff, readU32_ok_iff, kindWire, parseWire_u32_iff, pure_ok_iff]
      constructor
      · rintro ⟨x, r, ⟨a, b, c, d, rfl, rfl⟩, rfl, rfl⟩
        exact ⟨.u32 (be32 a b c d), ⟨a, b, c, d, rfl, rfl⟩, propValueOk_u32 _ _, rfl, rfl⟩
      · rintro ⟨s, ⟨a, b, c, d, rfl, hs⟩, -, -, rfl⟩
        cases hs
        exact ⟨_, _, ⟨a, b, c, d, rfl, rfl⟩, rfl, rfl⟩
    | str =>
      have hid : id ≠ 0x08 := fun h => by cases htop.mpr h
      simp only [bind_ok_iff, readString_ok_iff, kindWire, parseWire_str_iff, pure_ok_iff]
      constructor
      · rintro ⟨x, r, ⟨hl, hv⟩, rfl, rfl⟩
        exact ⟨.str x, ⟨x, hl, rfl⟩, propValueOk_str _ _ hid, by rw [textOk_str]; exact hv, rfl⟩
      · rintro ⟨s, ⟨x, hl, hs⟩, -, htx, rfl⟩
        cases hs
        rw [textOk_str] at htx
        exact ⟨x, _, ⟨hl, htx⟩, rfl, rfl⟩
    | topic =>
      have hid : id = 0x08 := htop.mp rfl
      subst hid
      simp only [bind_ok_iff, readString_ok_iff, kindWire, parseWire_str_iff, V3.topicNameTryFrom_eq]
      constructor
      · rintro ⟨x, r, ⟨hl, hv⟩, h⟩
        by_cases hn : Spec.isTopicName x = true
        · simp only [hn, if_true, pure_ok_iff] at h
          obtain ⟨rfl, rfl⟩ := h
          exact ⟨.str x, ⟨x, hl, rfl⟩, by rw [propValueOk_topic]; exact hn,
            by rw [textOk_str]; exact hv, rfl⟩
        · simp only [hn, if_false, hv, if_true, Bool.false_eq_true] at h
          simp at h
      · rintro ⟨s, ⟨x, hl, hs⟩, hok, htx, rfl⟩
        cases hs
        rw [textOk_str] at htx
        rw [propValueOk_topic] at hok
        exact ⟨x, _, ⟨hl, htx⟩, by simp [hok, Spec.propVal]⟩
    | bin =>
      simp only [bind_ok_iff, readBytes_ok_iff, kindWire, parseWire_bin_iff, pure_ok_iff]
      constructor
      · rintro ⟨x, r, hl, rfl, rfl⟩
        exact ⟨.bin x, ⟨x, hl, rfl⟩, rfl, rfl, rfl⟩
      · rintro ⟨s, ⟨x, hl, hs⟩, -, -, rfl⟩
        cases hs
        exact ⟨x, _, hl, rfl, rfl⟩
    | varint =>
      simp only [bind_ok_iff, kindWire, parseWire_varint_iff]
      constructor
      · rintro ⟨⟨n, c⟩, r, hd, h⟩
        rw [decodeVarInt_ok_iff] at hd
        obtain ⟨hlt, -, -⟩ := varintDigits4_facts hd
        simp only [hlt, if_true, pure_ok_iff] at h
        obtain ⟨rfl, rfl⟩ := h
        exact ⟨.varint n, ⟨n, c, hd, (fun hm => by cases hm), rfl⟩, propValueOk_varint _ _, rfl, rfl⟩
      · rintro ⟨s, ⟨n, c, hd, -, hs⟩, -, -, rfl⟩
        cases hs
        obtain ⟨hlt, -, -⟩ := varintDigits4_facts hd
        exact ⟨(n, c), r1, (decodeVarInt_ok_iff _ _ _ _).mpr hd, by simp [hlt, Spec.propVal]⟩

/-! ## one iteration of the model's loop -/

/-- The step of `Spec.toProps`. -/
def pstep (acc : Props) (x : Spec.RawProp) : Props :=
  match x.2 with
  | [.str k, .str v] => acc.pushUser k v
  | [v] => if (acc.get x.1).isSome then acc else acc.set x.1 (Spec.propVal v)
  | _ => acc

theorem toProps_eq (raw : List Spec.RawProp) : Spec.toProps raw = raw.foldl pstep Props.empty := by
  unfold Spec.toProps
  congr 1

/-- What the specification asks of one property of packet `owner`. -/
def tlvOk (owner : Option Spec.PType) (x : Spec.RawProp) : Bool :=
  Spec.propertyAllowed owner x.1 && x.2.all (Spec.propValueOk x.1) && x.2.all Spec.Scalar.textOk

/-- One turn of `decodePropsLoop`: the new property set and the size added to `len`. -/
def readProp (ctx : PropCtx) (allowed : List UInt8) (ps : Props) : Parser ErrorV5 (Props × Nat) := do
  let idb ← liftC readU8
  match codeOfByte .propertyId idb with
  | none => Parser.fail (.invalidPropertyId idb)
  | some id =>
    if allowed.contains id then
      match propKind id with
      | none => Parser.panic "property without a decode arm"
      | some k => do
        let v ← decodePropValue id k ps
        match propSize v with
        | .ok sz => pure (ps.set id v, sz)
        | .error s => Parser.panic s
    else if id = USER_PROPERTY then do
      let n ← liftC readString
      let v ← liftC readString
      pure (ps.pushUser n v, 1 + 4 + n.length + v.length)
    else Parser.fail (ctx.reject id)

theorem loop_succ (ctx : PropCtx) (allowed : List UInt8) (N fuel len : Nat) (ps : Props) (bs : Bytes) :
    decodePropsLoop ctx allowed N (fuel + 1) len ps bs =
      if N > len then
        (readProp ctx allowed ps bs).bind fun x r => decodePropsLoop ctx allowed N fuel (len + x.2) x.1 r
      else if N ≠ len then .err (.invalidPropertyLength N)
      else .ok ps bs := by
  rw [decodePropsLoop]
  by_cases hN : N > len
  · simp only [hN, if_true, readProp, Parser.bind_apply]
    cases h1 : liftC readU8 bs with
    | ok idb r =>
      simp only [Res.bind_ok]
      cases h2 : codeOfByte .propertyId idb with
      | none => rfl
      | some id =>
        simp only []
        by_cases hc : allowed.contains id = true
        · simp only [hc, if_true]
          cases h3 : propKind id with
          | none => rfl
          | some k =>
            simp only [Parser.bind_apply]
            cases h4 : decodePropValue id k ps r with
            | ok v r' =>
              simp only [Res.bind_ok]
              cases h5 : propSize v with
              | ok sz => rfl
              | error e => rfl
            | _ => rfl
        · simp only [hc, if_false, Bool.false_eq_true]
          by_cases hu : id = USER_PROPERTY
          · simp only [hu, if_true, Parser.bind_apply]
            cases h6 : liftC readString r with
            | ok n r' =>
              simp only [Res.bind_ok]
              cases h7 : liftC readString r' with
              | ok v r'' => rfl
              | _ => rfl
            | _ => rfl
          · simp only [hu, if_false]
            rfl
    | _ => rfl
  · simp only [hN, if_false]
    by_cases hne : N ≠ len
    · simp only [hne, if_true, ne_eq, not_false_eq_true]; rfl
    · simp only [hne, if_false]; rfl

theorem propSize_propVal (s : Spec.Scalar) (h : ∀ n, s = .varint n → n < 268435456) :
    propSize (Spec.propVal s) = .ok (1 + scalarSize s) := by
  cases s with
  | varint n =>
    simp only [Spec.propVal, propSize, varIntLen_closed, h n rfl, if_true, scalarSize]
  | str s => simp only [Spec.propVal, propSize, scalarSize, Nat.add_assoc]
  | bin s => simp only [Spec.propVal, propSize, scalarSize, Nat.add_assoc]
  | _ => rfl

theorem parseWire_varint_lt {m : Bool} {w : Spec.WireType} {r0 : Bytes} {vs : List Spec.Scalar}
    {r1 : Bytes} (h : Spec.parseWire m w r0 = some (vs, r1)) :
    ∀ s ∈ vs, ∀ n, s = .varint n → n < 268435456 := by
  intro s hs n hn
  subst hn
  cases w with
  | varint =>
    rw [parseWire_varint_iff] at h
    obtain ⟨v, k, hd, -, rfl⟩ := h
    simp only [List.mem_singleton, Spec.Scalar.varint.injEq] at hs
    subst hs
    exact (varintDigits4_facts hd).1
  | byte => rw [parseWire_byte_iff] at h; obtain ⟨b, -, rfl⟩ := h; simp at hs
  | u16 => rw [parseWire_u16_iff] at h; obtain ⟨a, c, -, rfl⟩ := h; simp at hs
  | u32 => rw [parseWire_u32_iff] at h; obtain ⟨a, b, c, d, -, rfl⟩ := h; simp at hs
  | str => rw [parseWire_str_iff] at h; obtain ⟨x, -, rfl⟩ := h; simp at hs
  | bin => rw [parseWire_bin_iff] at h; obtain ⟨x, -, rfl⟩ := h; simp at hs
  | strPair => rw [parseWire_strPair_iff] at h; obtain ⟨k, v, r, -, -, rfl⟩ := h; simp at hs

/-- A single-valued wire type yields one value. -/
theorem parseWire_kind_single {m : Bool} {k : PropKind} {r0 : Bytes} {vs : List Spec.Scalar}
    {r1 : Bytes} (h : Spec.parseWire m (kindWire k) r0 = some (vs, r1)) : ∃ s, vs = [s] := by
  cases k <;> simp only [kindWire] at h
  case byte01 => rw [parseWire_byte_iff] at h; obtain ⟨b, -, rfl⟩ := h; exact ⟨_, rfl⟩
  case qos01 => rw [parseWire_byte_iff] at h; obtain ⟨b, -, rfl⟩ := h; exact ⟨_, rfl⟩
  case u16 => rw [parseWire_u16_iff] at h; obtain ⟨a, c, -, rfl⟩ := h; exact ⟨_, rfl⟩
  case u32 => rw [parseWire_u32_iff] at h; obtain ⟨a, b, c, d, -, rfl⟩ := h; exact ⟨_, rfl⟩
  case str => rw [parseWire_str_iff] at h; obtain ⟨x, -, rfl⟩ := h; exact ⟨_, rfl⟩
  case topic => rw [parseWire_str_iff] at h; obtain ⟨x, -, rfl⟩ := h; exact ⟨_, rfl⟩
  case bin => rw [parseWire_bin_iff] at h; obtain ⟨x, -, rfl⟩ := h; exact ⟨_, rfl⟩
  case varint => rw [parseWire_varint_iff] at h; obtain ⟨v, c, -, -, rfl⟩ := h; exact ⟨_, rfl⟩

theorem pstep_single (ps : Props) (id : UInt8) (s : Spec.Scalar) (h : ps.get id = none) :
    pstep ps (id, [s]) = ps.set id (Spec.propVal s) := by
  simp only [pstep, h, Option.isSome_none, Bool.false_eq_true, if_false]

theorem pstep_pair (ps : Props) (id : UInt8) (k v : Bytes) :
    pstep ps (id, [.str k, .str v]) = ps.pushUser k v := rfl

/-- One turn of the loop succeeds exactly on a property the specification accepts for this
packet (in any spelling of a Variable Byte Integer) whose identifier has not been seen. -/
theorem readProp_ok_iff {owner : Option Spec.PType} {allowed : List UInt8} (htbl : Tbl owner allowed)
    (harms : HasArms allowed) (ctx : PropCtx) (ps : Props) (bs : Bytes) (ps' : Props) (sz : Nat)
    (r1 : Bytes) :
    readProp ctx allowed ps bs = .ok (ps', sz) r1 ↔
      ∃ id r0 w vs, bs = id :: r0 ∧ Spec.propertyWireType id = some w ∧
        Spec.parseWire false w r0 = some (vs, r1) ∧ tlvOk owner (id, vs) = true ∧
        (id = 0x26 ∨ ps.get id = none) ∧ ps' = pstep ps (id, vs) ∧ sz = rawSize (id, vs) := by
  unfold readProp
  simp only [bind_ok_iff, readU8_ok_iff]
  constructor
  · rintro ⟨idb, r0, rfl, h⟩
    rw [codeOfByte_propertyId] at h
    cases hw : Spec.propertyWireType idb with
    | none => simp [hw] at h
    | some w =>
      simp only [hw, Option.isSome_some, if_true] at h
      by_cases hc : allowed.contains idb = true
      · simp only [hc, if_true] at h
        obtain ⟨k, hk⟩ := Option.isSome_iff_exists.mp (harms idb (List.contains_iff_mem.mp hc))
        obtain ⟨hwk, htop, hne, -⟩ := propKind_wire hk
        rw [hw] at hwk
        cases hwk
        simp only [hk, bind_ok_iff] at h
        obtain ⟨v, r, hv, h⟩ := h
        rw [decodePropValue_ok_iff _ _ _ _ _ _ htop] at hv
        obtain ⟨hg, s, hpw, hok, htx, rfl⟩ := hv
        have hlt := parseWire_varint_lt hpw s (by simp)
        rw [propSize_propVal s hlt] at h
        simp only [pure_ok_iff, Prod.mk.injEq] at h
        obtain ⟨⟨rfl, rfl⟩, rfl⟩ := h
        refine ⟨idb, r0, _, [s], rfl, hw, hpw, ?_, .inr hg, (pstep_single _ _ _ hg).symm, ?_⟩
        · simp [tlvOk, htbl idb, List.contains_iff_mem.mp hc, hok, htx]
        · simp [rawSize]
      · simp only [hc, if_false, Bool.false_eq_true] at h
        by_cases hu : idb = USER_PROPERTY
        · subst hu
          rw [show Spec.propertyWireType USER_PROPERTY = some .strPair from wire_user] at hw
          cases hw
          simp only [if_true, bind_ok_iff, readString_ok_iff, pure_ok_iff, Prod.mk.injEq] at h
          obtain ⟨n, ra, ⟨hl1, hv1⟩, v, rb, ⟨hl2, hv2⟩, ⟨rfl, rfl⟩, rfl⟩ := h
          refine ⟨USER_PROPERTY, r0, .strPair, [.str n, .str v], rfl, wire_user,
            (parseWire_strPair_iff _ _ _ _).mpr ⟨n, v, ra, hl1, hl2, rfl⟩, ?_, .inl rfl, rfl, ?_⟩
          · have h26 : Spec.propertyAllowed owner 38 = true := by
              rw [htbl]; simp
            simp [tlvOk, h26, textOk_str, hv1, hv2, propValueOk_str, USER_PROPERTY]
          · simp [rawSize, scalarSize]; omega
        · simp [hu] at h
  · rintro ⟨id, r0, w, vs, rfl, hw, hpw, hok, hfresh, rfl, rfl⟩
    refine ⟨id, r0, rfl, ?_⟩
    rw [codeOfByte_propertyId]
    simp only [hw, Option.isSome_some, if_true]
    simp only [tlvOk, Bool.and_eq_true] at hok
    obtain ⟨⟨hal, hvok⟩, htx⟩ := hok
    rw [htbl] at hal
    by_cases hc : allowed.contains id = true
    · simp only [hc, if_true]
      obtain ⟨k, hk⟩ := Option.isSome_iff_exists.mp (harms id (List.contains_iff_mem.mp hc))
      obtain ⟨hwk, htop, hne, -⟩ := propKind_wire hk
      rw [hw] at hwk
      cases hwk
      obtain ⟨s, rfl⟩ := parseWire_kind_single hpw
      have hg : ps.get id = none := by
        rcases hfresh with h | h
        · exact absurd h hne
        · exact h
      simp only [hk, bind_ok_iff]
      refine ⟨Spec.propVal s, r1, (decodePropValue_ok_iff _ _ _ _ _ _ htop).mpr
        ⟨hg, s, hpw, by simpa using hvok, by simpa using htx, rfl⟩, ?_⟩
      have hlt := parseWire_varint_lt hpw s (by simp)
      rw [propSize_propVal s hlt]
      simp only [pure_ok_iff, Prod.mk.injEq]
      exact ⟨⟨(pstep_single _ _ _ hg).symm, by simp [rawSize]⟩, trivial⟩
    · have hid : id = USER_PROPERTY := by
        simp only [hc, Bool.false_or, beq_iff_eq] at hal
        exact hal
      subst hid
      rw [show Spec.propertyWireType USER_PROPERTY = some .strPair from wire_user] at hw
      cases hw
      rw [parseWire_strPair_iff] at hpw
      obtain ⟨n, v, ra, hl1, hl2, rfl⟩ := hpw
      simp only [List.all_cons, List.all_nil, Bool.and_true, Bool.and_eq_true, textOk_str] at htx
      simp only [hc, if_false, Bool.false_eq_true, if_true, bind_ok_iff, readString_ok_iff,
        pure_ok_iff, Prod.mk.injEq]
      refine ⟨n, ra, ⟨hl1, htx.1⟩, v, r1, ⟨hl2, htx.2⟩, ⟨rfl, ?_⟩, rfl⟩
      simp [rawSize, scalarSize]; omega

/-- The second occurrence of a listed identifier is refused as a duplicate. -/
theorem readProp_dup {allowed : List UInt8} (harms : HasArms allowed) (ctx : PropCtx) (ps : Props)
    (id : UInt8) (r0 : Bytes) (hw : (Spec.propertyWireType id).isSome = true)
    (hc : allowed.contains id = true) (hs : (ps.get id).isSome = true) :
    readProp ctx allowed ps (id :: r0) = .err (.duplicatedProperty id) := by
  obtain ⟨k, hk⟩ := Option.isSome_iff_exists.mp (harms id (List.contains_iff_mem.mp hc))
  unfold readProp
  simp only [Parser.bind_apply, liftC_apply, readU8_cons, Res.mapErr_ok, Res.bind_ok,
    codeOfByte_propertyId, hw, if_true, hc, hk]
  unfold decodePropValue
  simp only [hs, if_true, Parser.fail_apply]
  rfl

/-! ## the specification's TLV parser -/

theorem parseTLVs_nil (m : Bool) (f : Nat) : Spec.parseTLVs m f [] = some [] := by
  cases f <;> rfl

theorem parseTLVs_cons_iff (m : Bool) (f : Nat) (id : UInt8) (r : Bytes) (raw : List Spec.RawProp) :
    Spec.parseTLVs m (f + 1) (id :: r) = some raw ↔
      ∃ w vs r' raw', Spec.propertyWireType id = some w ∧ Spec.parseWire m w r = some (vs, r') ∧
        Spec.parseTLVs m f r' = some raw' ∧ raw = (id, vs) :: raw' := by
  have h : Spec.parseTLVs m (f + 1) (id :: r) =
      (Spec.propertyWireType id).bind fun w => (Spec.parseWire m w r).bind fun x =>
        (Spec.parseTLVs m f x.2).map fun t => (id, x.1) :: t := by
    rw [Spec.parseTLVs]; rfl
  rw [h]
  simp only [Option.bind_eq_some_iff, Option.map_eq_some_iff]
  constructor
  · rintro ⟨w, hw, ⟨vs, r'⟩, hpw, raw', ht, rfl⟩
    exact ⟨w, vs, r', raw', hw, hpw, ht, rfl⟩
  · rintro ⟨w, vs, r', raw', hw, hpw, ht, rfl⟩
    exact ⟨w, hw, (vs, r'), hpw, raw', ht, rfl⟩

theorem parseTLVs_zero_cons (m : Bool) (id : UInt8) (r : Bytes) :
    Spec.parseTLVs m 0 (id :: r) = none := rfl

theorem parseTLVs_mono (m : Bool) : ∀ (f f' : Nat) (bs : Bytes) (raw : List Spec.RawProp),
    Spec.parseTLVs m f bs = some raw → f ≤ f' → Spec.parseTLVs m f' bs = some raw := by
  intro f
  induction f with
  | zero =>
    intro f' bs raw h _
    cases bs with
    | nil => rw [parseTLVs_nil] at h ⊢; exact h
    | cons id r => rw [parseTLVs_zero_cons] at h; cases h
  | succ f ih =>
    intro f' bs raw h hle
    cases bs with
    | nil => rw [parseTLVs_nil] at h ⊢; exact h
    | cons id r =>
      obtain ⟨g, rfl⟩ : ∃ g, f' = g + 1 := ⟨f' - 1, by omega⟩
      rw [parseTLVs_cons_iff] at h ⊢
      obtain ⟨w, vs, r', raw', hw, hpw, ht, rfl⟩ := h
      exact ⟨w, vs, r', raw', hw, hpw, ih g r' raw' ht (by omega), rfl⟩

theorem parseProps_iff (m : Bool) (bs : Bytes) (raw : List Spec.RawProp) (rest : Bytes) :
    Spec.parseProps m bs = some (raw, rest) ↔
      ∃ N k r, Spec.varintDigits 4 bs = some (N, k, r) ∧ (m = true → k = Spec.varIntSize N) ∧
        N ≤ r.length ∧ Spec.parseTLVs m N (r.take N) = some raw ∧ rest = r.drop N := by
  have h : Spec.parseProps m bs =
      (Spec.varint m bs).bind fun x => (if x.1 ≤ x.2.length then some () else none).bind fun _ =>
        (Spec.parseTLVs m x.1 (x.2.take x.1)).bind fun ps => some (ps, x.2.drop x.1) := by
    unfold Spec.parseProps; rfl
  rw [h]
  unfold Spec.varint
  cases hd : Spec.varintDigits 4 bs with
  | none => simp
  | some x =>
    obtain ⟨N, k, r⟩ := x
    simp only [Option.bind_some]
    by_cases hc : (!m || decide (k = Spec.varIntSize N)) = true
    · have hc' : m = true → k = Spec.varIntSize N := by
        intro hm; subst hm; simpa using hc
      simp only [hc, if_true, Option.bind_some]
      by_cases hle : N ≤ r.length
      · simp only [hle, if_true, Option.bind_some, Option.bind_eq_some_iff, Option.some.injEq,
          Prod.mk.injEq]
        constructor
        · rintro ⟨ps, ht, rfl, rfl⟩; exact ⟨N, k, r, ⟨rfl, rfl, rfl⟩, hc', hle, ht, rfl⟩
        · rintro ⟨N', k', r', ⟨rfl, rfl, rfl⟩, -, -, ht, rfl⟩; exact ⟨raw, ht, rfl, rfl⟩
      · simp only [hle, if_false, Option.bind_none, Option.some.injEq, Prod.mk.injEq, reduceCtorEq,
          false_iff]
        rintro ⟨N', k', r', ⟨rfl, rfl, rfl⟩, -, h, -⟩; exact hle h
    · simp only [hc, if_false, Option.bind_none, Option.some.injEq, Prod.mk.injEq, reduceCtorEq,
        false_iff]
      rintro ⟨N', k', r', ⟨rfl, rfl, rfl⟩, hm, -⟩
      apply hc
      cases m with
      | false => rfl
      | true => simp [hm rfl]

/-! ## repetitions -/

/-- No identifier other than the User Property occurs twice. -/
def StrictNR : List UInt8 → Prop
  | [] => True
  | id :: ids => (id = 0x26 ∨ id ∉ ids) ∧ StrictNR ids

/-- No identifier of the list (other than the User Property) has a value yet. -/
def IdsFresh (ps : Props) (ids : List UInt8) : Prop := ∀ i ∈ ids, i ≠ 0x26 → ps.get i = none

theorem nr_of_strict (owner : Option Spec.PType) : ∀ ids, StrictNR ids → Spec.noRepeats owner ids = true := by
  intro ids
  induction ids with
  | nil => intro _; rfl
  | cons id ids ih =>
    rintro ⟨h1, h2⟩
    simp only [Spec.noRepeats, Bool.and_eq_true, Bool.or_eq_true, ih h2, and_true]
    rcases h1 with rfl | h1
    · left; simp [Spec.repeatable]
    · right; simpa using h1

theorem strict_of_nr (owner : Option Spec.PType) : ∀ ids, Spec.noRepeats owner ids = true →
    (owner = some .publish → ids.count 0x0B ≤ 1) → StrictNR ids := by
  intro ids
  induction ids with
  | nil => intro _ _; trivial
  | cons id ids ih =>
    intro h hc
    simp only [Spec.noRepeats, Bool.and_eq_true, Bool.or_eq_true] at h
    obtain ⟨h1, h2⟩ := h
    refine ⟨?_, ih h2 (fun ho => ?_)⟩
    · rcases h1 with h1 | h1
      · simp only [Spec.repeatable, Bool.or_eq_true, beq_iff_eq, Bool.and_eq_true] at h1
        rcases h1 with h1 | ⟨h1, ho⟩
        · exact .inl h1
        · subst h1
          right
          have := hc ho
          rw [List.count_cons_self] at this
          intro hmem
          have : 0 < List.count (11 : UInt8) ids := List.count_pos_iff.mpr hmem
          omega
      · right; simpa using h1
    · have := hc ho
      have hle : List.count (11 : UInt8) ids ≤ List.count 11 (id :: ids) := by
        rw [List.count_cons]; omega
      omega

theorem strict_count : ∀ ids, StrictNR ids → ids.count 0x0B ≤ 1 := by
  intro ids
  induction ids with
  | nil => intro _; simp
  | cons id ids ih =>
    rintro ⟨h1, h2⟩
    have := ih h2
    by_cases hid : id = 0x0B
    · subst hid
      rcases h1 with h1 | h1
      · exact absurd h1 (by decide)
      · rw [List.count_cons_self, List.count_eq_zero_of_not_mem h1]; omega
    · rw [List.count_cons_of_ne hid]; exact this

theorem pstep_get_ne (ps : Props) (id i : UInt8) (vs : List Spec.Scalar) (h : i ≠ id) :
    (pstep ps (id, vs)).get i = ps.get i := by
  unfold pstep
  split
  · rfl
  · split
    · rfl
    · simp [Props.set, h]
  · rfl

/-! ## sizes -/

/-- What `encode_properties_len!` computes, as a plain number. -/
def emitLen (allowed : List UInt8) (ps : Props) : Nat :=
  userSize ps.user + (allowed.flatMap ps.emit).length

theorem emitLen_empty (allowed : List UInt8) : emitLen allowed Props.empty = 0 := by
  unfold emitLen
  have : allowed.flatMap Props.empty.emit = [] := by
    induction allowed with
    | nil => rfl
    | cons i l ih => simp [List.flatMap_cons, ih, Props.emit, Props.empty]
  rw [this]; rfl

theorem bodyLen_sized (allowed : List UInt8) (ps : Props) (hs : ps.Sized) :
    ps.bodyLen allowed = .ok (emitLen allowed ps) := by
  obtain ⟨n, hn⟩ := Props.bodyLen_ok allowed ps hs
  rw [hn, Props.bodyLen_eq hn]; rfl

theorem userSize_append (u : List (Bytes × Bytes)) (n v : Bytes) :
    userSize (u ++ [(n, v)]) = userSize u + (1 + 4 + n.length + v.length) := by
  induction u with
  | nil => simp [userSize]; omega
  | cons x xs ih =>
    obtain ⟨a, b⟩ := x
    rw [List.cons_append, userSize_cons, userSize_cons, ih]; omega

theorem flatMap_emit_set (ps : Props) (id : UInt8) (v : PropVal) (hg : ps.get id = none) :
    ∀ (l : List UInt8), l.Nodup →
      (l.flatMap (ps.set id v).emit).length =
        (l.flatMap ps.emit).length + (if id ∈ l then (encodeProp id v).length else 0) := by
  intro l
  induction l with
  | nil => intro _; simp
  | cons i l ih =>
    intro hnd
    obtain ⟨hni, hnd'⟩ := List.nodup_cons.mp hnd
    simp only [List.flatMap_cons, List.length_append, ih hnd']
    by_cases hi : i = id
    · subst hi
      have h1 : (ps.set i v).emit i = encodeProp i v := by simp [Props.emit, Props.set]
      have h2 : ps.emit i = [] := by simp [Props.emit, hg]
      simp [h1, h2, hni]
      omega
    · have h1 : (ps.set id v).emit i = ps.emit i := by simp [Props.emit, Props.set, hi]
      have hm : (id ∈ i :: l) ↔ id ∈ l := by simp [Ne.symm hi]
      simp only [h1, hm]
      omega

/-- A step of the projection adds the canonical size of the property to the encoded length. -/
theorem emitLen_pstep {allowed : List UInt8} (hgood : GoodList allowed) (ps : Props) (id : UInt8)
    (vs : List Spec.Scalar) {m : Bool} {w : Spec.WireType} {r0 r1 : Bytes}
    (hw : Spec.propertyWireType id = some w) (hpw : Spec.parseWire m w r0 = some (vs, r1))
    (hal : allowed.contains id = true ∨ id = 0x26) (hfresh : id = 0x26 ∨ ps.get id = none) :
    emitLen allowed (pstep ps (id, vs)) = emitLen allowed ps + rawSize (id, vs) := by
  have h26 : ¬ allowed.contains (0x26 : UInt8) = true := by
    have := hgood.nouser; simp only [USER_PROPERTY] at this; rw [this]; simp
  by_cases hid : id = 0x26
  · subst hid
    rw [wire_user] at hw
    cases hw
    rw [parseWire_strPair_iff] at hpw
    obtain ⟨k, v, r, -, -, rfl⟩ := hpw
    rw [pstep_pair]
    simp only [emitLen, Props.pushUser, userSize_append, rawSize, List.map_cons, List.map_nil,
      List.sum_cons, List.sum_nil, scalarSize]
    have : (allowed.flatMap (Props.emit { get := ps.get, user := ps.user ++ [(k, v)] })) =
        allowed.flatMap ps.emit := rfl
    rw [this]; omega
  · have hc : allowed.contains id = true := by
      rcases hal with h | h
      · exact h
      · exact absurd h hid
    have hg : ps.get id = none := by
      rcases hfresh with h | h
      · exact absurd h hid
      · exact h
    have hmem : id ∈ allowed := List.contains_iff_mem.mp hc
    obtain ⟨k, hk⟩ := Option.isSome_iff_exists.mp (hgood.info id hmem).1
    obtain ⟨hwk, -, -, -⟩ := propKind_wire hk
    rw [hw] at hwk
    cases hwk
    obtain ⟨s, rfl⟩ := parseWire_kind_single hpw
    have hlt := parseWire_varint_lt hpw s (by simp)
    rw [pstep_single _ _ _ hg]
    simp only [emitLen, Props.set, rawSize, List.map_cons, List.map_nil, List.sum_cons, List.sum_nil]
    have := flatMap_emit_set ps id (Spec.propVal s) hg allowed hgood.nodup
    simp only [Props.set, hmem, if_true] at this
    rw [this, propSize_ok_length id _ _ (propSize_propVal s hlt)]
    omega

/-- A listed identifier has a single value, which the projection stores. -/
theorem pstep_get_self {allowed : List UInt8} (hgood : GoodList allowed) (ps : Props) (id : UInt8)
    (vs : List Spec.Scalar) {m : Bool} {w : Spec.WireType} {r0 r1 : Bytes}
    (hw : Spec.propertyWireType id = some w) (hpw : Spec.parseWire m w r0 = some (vs, r1))
    (hid : id ≠ 0x26) : ((pstep ps (id, vs)).get id).isSome = true := by
  cases hk : propKind id with
  | none => exact absurd (propKind_none_wire hk hw).2 hid
  | some k =>
    obtain ⟨hwk, -, -, -⟩ := propKind_wire hk
    rw [hw] at hwk
    cases hwk
    obtain ⟨s, rfl⟩ := parseWire_kind_single hpw
    simp only [pstep]
    split
    · assumption
    · simp [Props.set]

set_option maxRecDepth 100000 in
theorem wire_varint_id (id : UInt8) (h : Spec.propertyWireType id = some .varint) : id = 0x0B := by
  have := V3.forall_uint8 (fun id => !(Spec.propertyWireType id == some .varint) || id == 0x0B)
    (by decide) id
  simpa [h] using this

/-! ## the loop -/

/-- The identifier list `allowed` of the code is row `owner` of Table 2-4. -/
structure PropList (owner : Option Spec.PType) (allowed : List UInt8) : Prop where
  tbl : Tbl owner allowed
  good : GoodList allowed

theorem PropList.arms {owner : Option Spec.PType} {allowed : List UInt8} (hl : PropList owner allowed) :
    HasArms allowed := fun i hi => (hl.good.info i hi).1

theorem tlvOk_allowed {owner : Option Spec.PType} {allowed : List UInt8} (hl : PropList owner allowed)
    {x : Spec.RawProp} (h : tlvOk owner x = true) : allowed.contains x.1 = true ∨ x.1 = 0x26 := by
  simp only [tlvOk, Bool.and_eq_true] at h
  have := h.1.1
  rw [hl.tbl] at this
  simpa using this

theorem readProp_of_spec {owner : Option Spec.PType} {allowed : List UInt8} (hl : PropList owner allowed)
    (ctx : PropCtx) (ps : Props) (id : UInt8) (w : Spec.WireType) (c r' : Bytes)
    (vs : List Spec.Scalar) (hw : Spec.propertyWireType id = some w)
    (hpw : Spec.parseWire false w (c ++ r') = some (vs, r')) (hok : tlvOk owner (id, vs) = true)
    (hfresh : id = 0x26 ∨ ps.get id = none) :
    readProp ctx allowed ps (id :: (c ++ r')) = .ok (pstep ps (id, vs), rawSize (id, vs)) r' :=
  (readProp_ok_iff hl.tbl hl.arms ctx ps _ _ _ _).mpr ⟨id, _, w, vs, rfl, hw, hpw, hok, hfresh, rfl, rfl⟩

/-- Completeness of the loop: on a section the specification parses (minimal integers) and
accepts, without a repeated identifier, the model's loop returns the specification's property
set and stops exactly at the end of the section. -/
theorem loop_forward {owner : Option Spec.PType} {allowed : List UInt8} (hl : PropList owner allowed)
    (ctx : PropCtx) (N : Nat) :
    ∀ (f : Nat) (sec : Bytes) (raw : List Spec.RawProp) (tail : Bytes) (fuel len : Nat) (ps : Props),
      Spec.parseTLVs true f sec = some raw → (∀ x ∈ raw, tlvOk owner x = true) →
      StrictNR (raw.map (·.1)) → IdsFresh ps (raw.map (·.1)) →
      len + sec.length = N → N + 1 ≤ fuel + len →
      decodePropsLoop ctx allowed N fuel len ps (sec ++ tail) = .ok (raw.foldl pstep ps) tail ∧
        emitLen allowed (raw.foldl pstep ps) = emitLen allowed ps + sec.length := by
  have hnil : ∀ (tail : Bytes) (fuel len : Nat) (ps : Props), len + 0 = N → N + 1 ≤ fuel + len →
      decodePropsLoop ctx allowed N fuel len ps ([] ++ tail) = .ok ps tail := by
    intro tail fuel len ps hlen hfuel
    obtain ⟨g, rfl⟩ : ∃ g, fuel = g + 1 := ⟨fuel - 1, by omega⟩
    rw [loop_succ]
    have h1 : ¬ N > len := by omega
    have h2 : ¬ N ≠ len := by omega
    simp [h1, h2]
  intro f
  induction f with
  | zero =>
    intro sec raw tail fuel len ps hp _ _ _ hlen hfuel
    cases sec with
    | nil =>
      rw [parseTLVs_nil] at hp
      cases hp
      exact ⟨hnil tail fuel len ps hlen hfuel, rfl⟩
    | cons id r => rw [parseTLVs_zero_cons] at hp; cases hp
  | succ f ih =>
    intro sec raw tail fuel len ps hp hok hnr hfr hlen hfuel
    cases sec with
    | nil =>
      rw [parseTLVs_nil] at hp
      cases hp
      exact ⟨hnil tail fuel len ps hlen hfuel, rfl⟩
    | cons id r =>
      rw [parseTLVs_cons_iff] at hp
      obtain ⟨w, vs, r', raw', hw, hpw, ht, rfl⟩ := hp
      obtain ⟨c, rfl, huni, -, hsz⟩ := parseWire_uniform hpw
      have hsz' := hsz (.inl rfl)
      simp only [List.map_cons] at hnr hfr
      obtain ⟨hnr1, hnr2⟩ := hnr
      have hok1 := hok (id, vs) (by simp)
      have hfresh : id = 0x26 ∨ ps.get id = none := by
        by_cases hid : id = 0x26
        · exact .inl hid
        · exact .inr (hfr id (by simp) hid)
      simp only [List.length_cons, List.length_append] at hlen
      obtain ⟨g, rfl⟩ : ∃ g, fuel = g + 1 := ⟨fuel - 1, by omega⟩
      have hN : N > len := by omega
      have hrp := readProp_of_spec hl ctx ps id w c (r' ++ tail) vs hw (parseWire_loose (huni _)) hok1 hfresh
      have hrs : rawSize (id, vs) = 1 + c.length := by simp only [rawSize]; omega
      have hfr' : IdsFresh (pstep ps (id, vs)) (raw'.map (·.1)) := by
        intro i hi hne
        by_cases hii : i = id
        · subst hii
          rcases hnr1 with h | h
          · exact absurd h hne
          · exact absurd hi h
        · rw [pstep_get_ne _ _ _ _ hii]
          exact hfr i (by simp [hi]) hne
      obtain ⟨ih1, ih2⟩ := ih r' raw' tail g (len + rawSize (id, vs)) (pstep ps (id, vs)) ht
        (fun x hx => hok x (by simp [hx])) hnr2 hfr' (by omega) (by omega)
      refine ⟨?_, ?_⟩
      · rw [List.cons_append, List.append_assoc, loop_succ]
        simp only [hN, if_true, hrp, Res.bind_ok, List.foldl_cons]
        exact ih1
      · rw [List.foldl_cons, ih2,
          emitLen_pstep hl.good ps id vs hw hpw (tlvOk_allowed hl hok1) hfresh]
        simp only [List.length_cons, List.length_append]; omega

/-- Soundness of the loop: what it accepts is a sequence of properties the specification parses
(tolerating non-minimal integers) and accepts, each identifier at most once; the declared length
is their CANONICAL size, which the bytes consumed can only exceed through a non-minimal
Subscription Identifier. -/
theorem loop_backward {owner : Option Spec.PType} {allowed : List UInt8} (hl : PropList owner allowed)
    (ctx : PropCtx) (N : Nat) :
    ∀ (fuel len : Nat) (ps : Props) (bs : Bytes) (ps' : Props) (rest : Bytes),
      decodePropsLoop ctx allowed N fuel len ps bs = .ok ps' rest →
      ∃ cs raw, bs = cs ++ rest ∧ Spec.parseTLVs false cs.length cs = some raw ∧
        (∀ x ∈ raw, tlvOk owner x = true) ∧ StrictNR (raw.map (·.1)) ∧
        IdsFresh ps (raw.map (·.1)) ∧ ps' = raw.foldl pstep ps ∧ len + canon raw = N ∧
        canon raw ≤ cs.length ∧ ((∀ x ∈ raw, x.1 ≠ 0x0B) → canon raw = cs.length) ∧
        emitLen allowed ps' = emitLen allowed ps + canon raw := by
  intro fuel
  induction fuel with
  | zero =>
    intro len ps bs ps' rest h
    rw [decodePropsLoop_zero] at h
    cases h
  | succ fuel ih =>
    intro len ps bs ps' rest h
    rw [loop_succ] at h
    by_cases hN : N > len
    · simp only [hN, if_true] at h
      cases hrp : readProp ctx allowed ps bs with
      | ok x r1 =>
        obtain ⟨ps1, sz⟩ := x
        rw [hrp] at h
        simp only [Res.bind_ok] at h
        obtain ⟨id, r0, w, vs, rfl, hw, hpw, hok1, hfresh, rfl, rfl⟩ :=
          (readProp_ok_iff hl.tbl hl.arms ctx ps _ _ _ _).mp hrp
        obtain ⟨cs1, raw1, rfl, ht1, hok, hnr, hfr, rfl, hlen, hle, heq, hem⟩ := ih _ _ _ _ _ h
        obtain ⟨c, rfl, huni, hsz, hszeq⟩ := parseWire_uniform hpw
        have hself : id ≠ 0x26 → ((pstep ps (id, vs)).get id).isSome = true :=
          fun hid => pstep_get_self hl.good ps id vs hw hpw hid
        refine ⟨id :: (c ++ cs1), (id, vs) :: raw1, by simp, ?_, ?_, ?_, ?_, rfl, ?_, ?_, ?_, ?_⟩
        · have : (id :: (c ++ cs1)).length = (c.length + cs1.length) + 1 := by
            simp only [List.length_cons, List.length_append]
          rw [this, parseTLVs_cons_iff]
          exact ⟨w, vs, cs1, raw1, hw, huni cs1, parseTLVs_mono _ _ _ _ _ ht1 (by omega), rfl⟩
        · intro x hx
          rcases List.mem_cons.mp hx with rfl | hx
          · exact hok1
          · exact hok x hx
        · refine ⟨?_, hnr⟩
          by_cases hid : id = 0x26
          · exact .inl hid
          · right
            intro hmem
            have := hfr id hmem hid
            rw [this] at hself
            exact absurd (hself hid) (by simp)
        · intro i hi hne
          simp only [List.map_cons, List.mem_cons] at hi
          rcases hi with rfl | hi
          · rcases hfresh with h | h
            · exact absurd h hne
            · exact h
          · have h1 := hfr i hi hne
            by_cases hii : i = id
            · subst hii
              rw [h1] at hself
              exact absurd (hself hne) (by simp)
            · rw [pstep_get_ne _ _ _ _ hii] at h1; exact h1
        · simp only [canon, List.map_cons, List.sum_cons] at hlen ⊢; omega
        · simp only [canon, List.map_cons, List.sum_cons, rawSize, List.length_cons,
            List.length_append] at hle ⊢
          omega
        · intro hno
          have h1 := heq (fun x hx => hno x (List.mem_cons_of_mem _ hx))
          have hidne : id ≠ 0x0B := hno (id, vs) (by simp)
          have hwne : w ≠ .varint := by
            intro hwv; subst hwv; exact hidne (wire_varint_id id hw)
          have h2 := hszeq (.inr hwne)
          simp only [canon, List.map_cons, List.sum_cons, rawSize, List.length_cons,
            List.length_append] at h1 ⊢
          omega
        · rw [hem, emitLen_pstep hl.good ps id vs hw hpw (tlvOk_allowed hl hok1) hfresh]
          simp only [canon, List.map_cons, List.sum_cons]; omega
      | more => rw [hrp] at h; cases h
      | err e => rw [hrp] at h; cases h
      | panic e => rw [hrp] at h; cases h
    · simp only [hN, if_false] at h
      by_cases hne : N ≠ len
      · simp [hne] at h
      · simp only [hne, if_false, Res.ok.injEq] at h
        obtain ⟨rfl, rfl⟩ := h
        refine ⟨[], [], rfl, parseTLVs_nil _ _, by simp, trivial, by intro i hi; simp at hi, rfl,
          ?_, by simp [canon], fun _ => by simp [canon], by simp [canon]⟩
        simp only [canon, List.map_nil, List.sum_nil]; omega

/-- K1 at the level of the loop: a PUBLISH section the specification accepts with a second
Subscription Identifier stops the model's loop with `DuplicatedProperty(0x0B)`. -/
theorem loop_k1 (hl : PropList (some .publish) publishProps) (ctx : PropCtx) (N : Nat) :
    ∀ (f : Nat) (sec : Bytes) (raw : List Spec.RawProp) (tail : Bytes) (fuel len : Nat) (ps : Props),
      Spec.parseTLVs true f sec = some raw → (∀ x ∈ raw, tlvOk (some .publish) x = true) →
      Spec.noRepeats (some .publish) (raw.map (·.1)) = true →
      (∀ i ∈ raw.map (·.1), i ≠ 0x26 → i ≠ 0x0B → ps.get i = none) →
      len + sec.length = N → N + 1 ≤ fuel + len →
      2 ≤ (if (ps.get 0x0B).isSome then 1 else 0) + (raw.map (·.1)).count 0x0B →
      decodePropsLoop ctx publishProps N fuel len ps (sec ++ tail) =
        .err (.duplicatedProperty 0x0B) := by
  intro f
  induction f with
  | zero =>
    intro sec raw tail fuel len ps hp _ _ _ hlen hfuel hcnt
    cases sec with
    | nil =>
      rw [parseTLVs_nil] at hp
      cases hp
      simp only [List.map_nil, List.count_nil] at hcnt
      split at hcnt <;> omega
    | cons id r => rw [parseTLVs_zero_cons] at hp; cases hp
  | succ f ih =>
    intro sec raw tail fuel len ps hp hok hnr hfr hlen hfuel hcnt
    cases sec with
    | nil =>
      rw [parseTLVs_nil] at hp
      cases hp
      simp only [List.map_nil, List.count_nil] at hcnt
      split at hcnt <;> omega
    | cons id r =>
      rw [parseTLVs_cons_iff] at hp
      obtain ⟨w, vs, r', raw', hw, hpw, ht, rfl⟩ := hp
      obtain ⟨c, rfl, huni, -, hsz⟩ := parseWire_uniform hpw
      have hsz' := hsz (.inl rfl)
      simp only [List.map_cons] at hnr hfr hcnt
      simp only [Spec.noRepeats, Bool.and_eq_true, Bool.or_eq_true] at hnr
      obtain ⟨hnr1, hnr2⟩ := hnr
      have hok1 := hok (id, vs) (by simp)
      simp only [List.length_cons, List.length_append] at hlen
      obtain ⟨g, rfl⟩ : ∃ g, fuel = g + 1 := ⟨fuel - 1, by omega⟩
      have hN : N > len := by omega
      rw [List.cons_append, List.append_assoc, loop_succ]
      simp only [hN, if_true]
      by_cases hdup : id = 0x0B ∧ (ps.get 0x0B).isSome = true
      · obtain ⟨rfl, hsome⟩ := hdup
        rw [readProp_dup hl.arms ctx ps 0x0B _ (by rw [hw]; rfl) (by decide) hsome]
        rfl
      · have hfresh : id = 0x26 ∨ ps.get id = none := by
          by_cases hid : id = 0x26
          · exact .inl hid
          · right
            by_cases hb : id = 0x0B
            · subst hb
              cases hg : ps.get 0x0B with
              | none => rfl
              | some v => exact absurd ⟨rfl, by rw [hg]; rfl⟩ hdup
            · exact hfr id (by simp) hid hb
        have hrp := readProp_of_spec hl ctx ps id w c (r' ++ tail) vs hw (parseWire_loose (huni _)) hok1 hfresh
        have hrs : rawSize (id, vs) = 1 + c.length := by simp only [rawSize]; omega
        rw [hrp]
        simp only [Res.bind_ok]
        refine ih r' raw' tail g _ _ ht (fun x hx => hok x (by simp [hx])) hnr2 ?_ (by omega) (by omega) ?_
        · intro i hi hne hne'
          by_cases hii : i = id
          · subst hii
            rcases hnr1 with h | h
            · simp only [Spec.repeatable, Bool.or_eq_true, beq_iff_eq, Bool.and_eq_true] at h
              rcases h with h | ⟨h, -⟩
              · exact absurd h hne
              · exact absurd h hne'
            · simp only [Bool.not_eq_true', List.contains_eq_mem, decide_eq_false_iff_not] at h
              exact absurd hi h
          · rw [pstep_get_ne _ _ _ _ hii]
            exact hfr i (by simp [hi]) hne hne'
        · by_cases hb : id = 0x0B
          · subst hb
            have hself := pstep_get_self hl.good ps 0x0B vs hw hpw (by decide)
            rw [List.count_cons_self] at hcnt
            have hnone : ¬ (ps.get 0x0B).isSome = true := fun h => hdup ⟨rfl, h⟩
            simp only [hself, if_true]
            simp only [hnone, Bool.false_eq_true, if_false] at hcnt
            omega
          · rw [List.count_cons_of_ne hb] at hcnt
            rw [pstep_get_ne _ _ _ _ (Ne.symm hb)]
            exact hcnt

/-! ## the property section -/

theorem propsOk_iff (owner : Option Spec.PType) (raw : List Spec.RawProp) :
    (Spec.propsOk owner raw = true ∧ (Spec.Field.props raw).textOk = true) ↔
      (∀ x ∈ raw, tlvOk owner x = true) ∧ Spec.noRepeats owner (raw.map (·.1)) = true := by
  simp only [Spec.propsOk, Spec.Field.textOk, tlvOk, Bool.and_eq_true, List.all_eq_true, Prod.forall]
  constructor
  · rintro ⟨⟨h1, h2⟩, h3⟩
    exact ⟨fun a b hab => ⟨h1 a b hab, h3 a b hab⟩, h2⟩
  · rintro ⟨h1, h2⟩
    exact ⟨⟨fun a b hab => (h1 a b hab).1, h2⟩, fun a b hab => (h1 a b hab).2⟩

theorem encodeLen_sized (allowed : List UInt8) (ps : Props) (hs : ps.Sized)
    (hlt : emitLen allowed ps < 268435456) :
    ps.encodeLen allowed = .ok (emitLen allowed ps + Spec.varIntSize (emitLen allowed ps)) := by
  simp only [Props.encodeLen, bodyLen_sized allowed ps hs, varIntLen_closed, hlt, if_true, bind,
    Except.bind, pure, Except.pure]

/-- Completeness of `decode_properties!`. -/
theorem decodeProps_forward {owner : Option Spec.PType} {allowed : List UInt8}
    (hl : PropList owner allowed) (ctx : PropCtx) (bs : Bytes) (raw : List Spec.RawProp) (rest : Bytes)
    (hp : Spec.parseProps true bs = some (raw, rest)) (hok : ∀ x ∈ raw, tlvOk owner x = true)
    (hnr : StrictNR (raw.map (·.1))) :
    decodeProps ctx allowed bs = .ok (Spec.toProps raw) rest ∧
      (Spec.toProps raw).encodeLen allowed = .ok (bs.length - rest.length) ∧
      rest.length ≤ bs.length := by
  obtain ⟨N, k, r, hd, hm, hle, ht, rfl⟩ := (parseProps_iff _ _ _ _).mp hp
  obtain ⟨hlt, hlen, -⟩ := varintDigits4_facts hd
  have htl : (r.take N).length = N := by rw [List.length_take]; omega
  obtain ⟨h1, h2⟩ := loop_forward hl ctx N N (r.take N) raw (r.drop N) (N + 1) 0 Props.empty ht hok hnr
    (fun i _ _ => rfl) (by omega) (by omega)
  rw [List.take_append_drop] at h1
  have hdec : decodeProps ctx allowed bs = .ok (Spec.toProps raw) (r.drop N) := by
    unfold decodeProps
    rw [Parser.bind_apply, (decodeVarInt_ok_iff bs N k r).mpr hd, toProps_eq]
    simp only [Res.bind_ok]
    exact h1
  refine ⟨hdec, ?_, by rw [List.length_drop]; omega⟩
  have hs : (Spec.toProps raw).Sized := (Post.decodeProps ctx allowed).post _ _ _ hdec
  rw [emitLen_empty, htl, Nat.zero_add, ← toProps_eq] at h2
  rw [encodeLen_sized allowed _ hs (by omega), h2, List.length_drop, hlen, hm rfl]
  congr 1; omega

/-- Soundness of `decode_properties!`. -/
theorem decodeProps_backward {owner : Option Spec.PType} {allowed : List UInt8}
    (hl : PropList owner allowed) (ctx : PropCtx) (bs : Bytes) (ps : Props) (rest : Bytes)
    (h : decodeProps ctx allowed bs = .ok ps rest) :
    ∃ N k r cs raw, Spec.varintDigits 4 bs = some (N, k, r) ∧ r = cs ++ rest ∧
      Spec.parseTLVs false cs.length cs = some raw ∧ (∀ x ∈ raw, tlvOk owner x = true) ∧
      StrictNR (raw.map (·.1)) ∧ ps = Spec.toProps raw ∧ N ≤ cs.length ∧
      ((∀ x ∈ raw, x.1 ≠ 0x0B) → N = cs.length) ∧
      ps.encodeLen allowed = .ok (N + Spec.varIntSize N) := by
  have hs : ps.Sized := (Post.decodeProps ctx allowed).post _ _ _ h
  unfold decodeProps at h
  rw [bind_ok_iff] at h
  obtain ⟨⟨N, k⟩, r, hd, h⟩ := h
  rw [decodeVarInt_ok_iff] at hd
  obtain ⟨hlt, hlen, -⟩ := varintDigits4_facts hd
  simp only [] at h
  obtain ⟨cs, raw, rfl, ht, hok, hnr, -, rfl, hlen', hle, heq, hem⟩ := loop_backward hl ctx N _ _ _ _ _ _ h
  rw [emitLen_empty] at hem
  have hc : canon raw = N := by omega
  refine ⟨N, k, _, cs, raw, hd, rfl, ht, hok, hnr, (toProps_eq raw).symm, by omega,
    fun hno => by rw [← hc]; exact heq hno, ?_⟩
  rw [encodeLen_sized allowed _ hs (by omega), hem, hc, Nat.zero_add]

/-- Soundness of `decode_properties!`, when the bytes it consumed are those the code accounts
for (always so for an identifier list without the Subscription Identifier): the tolerant
specification parses the same section to the same properties. -/
theorem decodeProps_sound {owner : Option Spec.PType} {allowed : List UInt8}
    (hl : PropList owner allowed) (ctx : PropCtx) (bs : Bytes) (ps : Props) (rest : Bytes)
    (h : decodeProps ctx allowed bs = .ok ps rest)
    (hsync : allowed.contains 0x0B = false ∨ ps.encodeLen allowed = .ok (bs.length - rest.length)) :
    ∃ raw, Spec.parseProps false bs = some (raw, rest) ∧ (∀ x ∈ raw, tlvOk owner x = true) ∧
      StrictNR (raw.map (·.1)) ∧ ps = Spec.toProps raw := by
  obtain ⟨N, k, r, cs, raw, hd, rfl, ht, hok, hnr, rfl, hle, heq, hel⟩ := decodeProps_backward hl ctx bs ps rest h
  obtain ⟨hlt, hlen, hvs⟩ := varintDigits4_facts hd
  have hN : N = cs.length := by
    rcases hsync with h0 | h1
    · apply heq
      intro x hx hx0
      rcases tlvOk_allowed hl (hok x hx) with hc | hc
      · rw [hx0, h0] at hc; cases hc
      · rw [hx0] at hc; revert hc; decide
    · rw [hel] at h1
      simp only [Except.ok.injEq, List.length_append] at h1 hlen
      omega
  refine ⟨raw, (parseProps_iff _ _ _ _).mpr ⟨N, k, cs ++ rest, hd, (fun hm => by cases hm), ?_, ?_, ?_⟩,
    hok, hnr, rfl⟩
  · rw [List.length_append]; omega
  · rw [List.take_left' hN.symm, hN]; exact ht
  · rw [List.drop_left' hN.symm]

/-- K1 for `decode_properties!`. -/
theorem decodeProps_k1 (hl : PropList (some .publish) publishProps) (ctx : PropCtx) (bs : Bytes)
    (raw : List Spec.RawProp) (rest : Bytes)
    (hp : Spec.parseProps true bs = some (raw, rest))
    (hok : ∀ x ∈ raw, tlvOk (some .publish) x = true)
    (hnr : Spec.noRepeats (some .publish) (raw.map (·.1)) = true)
    (hc : 2 ≤ (raw.map (·.1)).count 0x0B) :
    decodeProps ctx publishProps bs = .err (.duplicatedProperty 0x0B) := by
  obtain ⟨N, k, r, hd, hm, hle, ht, rfl⟩ := (parseProps_iff _ _ _ _).mp hp
  have htl : (r.take N).length = N := by rw [List.length_take]; omega
  have h1 := loop_k1 hl ctx N N (r.take N) raw (r.drop N) (N + 1) 0 Props.empty ht hok hnr
    (fun i _ _ _ => rfl) (by omega) (by omega) (by simp [Props.empty]; exact hc)
  rw [List.take_append_drop] at h1
  unfold decodeProps
  rw [Parser.bind_apply, (decodeVarInt_ok_iff bs N k r).mpr hd]
  simp only [Res.bind_ok]
  exact h1

/-! ## the identifier lists of the code -/

theorem pl_connect : PropList (some .connect) connectProps := ⟨tbl_connect, goodList_of_mem (by simp)⟩
theorem pl_will : PropList none willProps := ⟨tbl_will, goodList_of_mem (by simp)⟩
theorem pl_connack : PropList (some .connack) connackProps := ⟨tbl_connack, goodList_of_mem (by simp)⟩
theorem pl_disconnect : PropList (some .disconnect) disconnectProps :=
  ⟨tbl_disconnect, goodList_of_mem (by simp)⟩
theorem pl_auth : PropList (some .auth) authProps := ⟨tbl_auth, goodList_of_mem (by simp)⟩
theorem pl_publish : PropList (some .publish) publishProps := ⟨tbl_publish, goodList_of_mem (by simp)⟩
theorem pl_puback : PropList (some .puback) ackProps := ⟨tbl_puback, goodList_of_mem (by simp)⟩
theorem pl_pubrec : PropList (some .pubrec) ackProps := ⟨tbl_pubrec, goodList_of_mem (by simp)⟩
theorem pl_pubrel : PropList (some .pubrel) ackProps := ⟨tbl_pubrel, goodList_of_mem (by simp)⟩
theorem pl_pubcomp : PropList (some .pubcomp) ackProps := ⟨tbl_pubcomp, goodList_of_mem (by simp)⟩
theorem pl_suback : PropList (some .suback) ackProps := ⟨tbl_suback, goodList_of_mem (by simp)⟩
theorem pl_unsuback : PropList (some .unsuback) ackProps := ⟨tbl_unsuback, goodList_of_mem (by simp)⟩
theorem pl_subscribe : PropList (some .subscribe) subscribeProps :=
  ⟨tbl_subscribe, goodList_of_mem (by simp)⟩
theorem pl_unsubscribe : PropList (some .unsubscribe) unsubscribeProps :=
  ⟨tbl_unsubscribe, goodList_of_mem (by simp)⟩

end Mqtt.V5
