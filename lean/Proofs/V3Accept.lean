/-
  Proofs.V3Accept — the converse of the round trip: what a decoder ACCEPTS lies in the
  valid domain and re-encodes to as many bytes as the body decoder consumed.

  Part 1 (namespace `Mqtt`): "inversion" lemmas for the shared readers, family
  independent (reusable for v5).
  Part 2 (namespace `Mqtt.V3`): per body decoder, then the three front-ends.
-/
import Proofs.V3Compose
import Properties.C06V3
import Properties.C15
import Properties.C17

namespace Mqtt

/-! ## Part 1 — inversion of the shared readers -/

/-- A successful `p >>= f` is a successful `p` followed by a successful `f`. -/
theorem Parser.bind_ok_inv {ε α β : Type} {p : Parser ε α} {f : α → Parser ε β}
    {bs rest : Bytes} {y : β} (h : (p >>= f) bs = .ok y rest) :
    ∃ a mid, p bs = .ok a mid ∧ f a mid = .ok y rest := by
  rw [Parser.bind_apply] at h
  cases hp : p bs with
  | ok a mid => rw [hp] at h; exact ⟨a, mid, rfl, h⟩
  | more => rw [hp] at h; cases h
  | err e => rw [hp] at h; cases h
  | panic s => rw [hp] at h; cases h

theorem Parser.pure_ok_inv {ε α : Type} {a y : α} {bs rest : Bytes}
    (h : (Pure.pure a : Parser ε α) bs = .ok y rest) : y = a ∧ rest = bs := by
  rw [Parser.pure_apply] at h; cases h; exact ⟨rfl, rfl⟩

theorem liftExcept_ok_inv {ε α : Type} {x : Except ε α} {y : α} {bs rest : Bytes}
    (h : liftExcept x bs = .ok y rest) : x = .ok y ∧ rest = bs := by
  cases x with
  | ok a => rw [liftExcept_ok] at h; cases h; exact ⟨rfl, rfl⟩
  | error e => rw [liftExcept_error] at h; cases h

theorem checkedSub_ok_inv {ε : Type} {x y z : Nat} {e : ε} {bs rest : Bytes}
    (h : checkedSub x y e bs = .ok z rest) : y ≤ x ∧ z = x - y ∧ rest = bs := by
  unfold checkedSub at h
  split at h
  · rename_i hle; rw [Parser.pure_apply'] at h; cases h; exact ⟨hle, rfl, rfl⟩
  · rw [Parser.fail_apply] at h; cases h

theorem take_ok_inv {ε : Type} {n : Nat} {bs d rest : Bytes}
    (h : take (ε := ε) n bs = .ok d rest) : bs = d ++ rest ∧ d.length = n := by
  have hl := take_ok_length h
  simp only [take] at h
  split at h
  · cases h; exact ⟨(List.take_append_drop n bs).symm, hl⟩
  · cases h

theorem readU8_ok_inv {ε : Type} {bs rest : Bytes} {b : UInt8}
    (h : readU8 (ε := ε) bs = .ok b rest) : bs = b :: rest := by
  cases bs with
  | nil => cases h
  | cons x xs => rw [readU8_cons] at h; cases h; rfl

theorem u16be_be16 (hi lo : UInt8) : u16be (be16 hi lo) = [hi, lo] := by
  have h1 := hi.toNat_lt
  have h2 := lo.toNat_lt
  simp only [u16be, be16, UInt16.toNat_ofNat']
  congr 1
  · apply UInt8.toNat_inj.mp
    simp only [UInt8.toNat_ofNat']
    omega
  · congr 1
    apply UInt8.toNat_inj.mp
    simp only [UInt8.toNat_ofNat']
    omega

theorem readU16_ok_inv {ε : Type} {bs rest : Bytes} {v : UInt16}
    (h : readU16 (ε := ε) bs = .ok v rest) : bs = u16be v ++ rest := by
  unfold readU16 at h
  split at h
  · cases h; rw [u16be_be16]; rfl
  · cases h

theorem ofNat_toNat_u16 (n : UInt16) : UInt16.ofNat n.toNat = n := by
  apply UInt16.toNat_inj.mp
  have := n.toNat_lt
  simp only [UInt16.toNat_ofNat']
  omega

theorem readBytes_ok_inv {ε : Type} {bs d rest : Bytes}
    (h : readBytes (ε := ε) bs = .ok d rest) : bs = writeBytes d ++ rest ∧ d.length ≤ 65535 := by
  unfold readBytes at h
  split at h
  · rename_i n r1 hn
    obtain ⟨h1, h2⟩ := take_ok_inv h
    have := n.toNat_lt
    refine ⟨?_, by omega⟩
    rw [readU16_ok_inv hn, h1, writeBytes, h2, ofNat_toNat_u16, List.append_assoc]
  · cases h
  · cases h
  · cases h

theorem readString_ok_inv {bs s rest : Bytes} (h : readString bs = .ok s rest) :
    bs = writeBytes s ++ rest ∧ s.length ≤ 65535 ∧ Utf8.valid s = true := by
  unfold readString at h
  split at h
  · rename_i d r1 hd
    split at h
    · rename_i hv; cases h
      exact ⟨(readBytes_ok_inv hd).1, (readBytes_ok_inv hd).2, hv⟩
    · cases h
  · cases h
  · cases h
  · cases h

theorem readString_ok_validText {bs s rest : Bytes} (h : readString bs = .ok s rest) :
    validText s = true :=
  (validText_iff s).mpr ⟨(readString_ok_inv h).2.1, (readString_ok_inv h).2.2⟩

theorem readPid_ok_inv {bs rest : Bytes} {p : Pid} (h : readPid bs = .ok p rest) :
    bs = u16be p.val ++ rest ∧ p.val ≠ 0 := by
  unfold readPid at h
  split at h
  · rename_i v r1 hv
    by_cases hz : v = 0
    · simp [Pid.tryFrom, hz] at h
    · simp only [Pid.tryFrom, hz, if_false] at h
      cases h; exact ⟨readU16_ok_inv hv, hz⟩
  · cases h
  · cases h
  · cases h

/-! ### lengths (what the per-decoder proofs use) -/

theorem readU8_ok_length {ε : Type} {bs rest : Bytes} {b : UInt8}
    (h : readU8 (ε := ε) bs = .ok b rest) : bs.length = rest.length + 1 := by
  rw [readU8_ok_inv h]; rfl

theorem readU16_ok_length {ε : Type} {bs rest : Bytes} {v : UInt16}
    (h : readU16 (ε := ε) bs = .ok v rest) : bs.length = rest.length + 2 := by
  rw [readU16_ok_inv h, List.length_append, u16be_length]; omega

theorem take_ok_length' {ε : Type} {n : Nat} {bs d rest : Bytes}
    (h : take (ε := ε) n bs = .ok d rest) : bs.length = rest.length + n ∧ d.length = n := by
  obtain ⟨h1, h2⟩ := take_ok_inv h
  rw [h1, List.length_append, h2]; exact ⟨by omega, rfl⟩

theorem readBytes_ok_length {ε : Type} {bs d rest : Bytes}
    (h : readBytes (ε := ε) bs = .ok d rest) :
    bs.length = rest.length + (2 + d.length) ∧ d.length ≤ 65535 := by
  obtain ⟨h1, h2⟩ := readBytes_ok_inv h
  refine ⟨?_, h2⟩
  rw [h1, List.length_append, writeBytes_length]; omega

theorem readString_ok_length {bs s rest : Bytes} (h : readString bs = .ok s rest) :
    bs.length = rest.length + (2 + s.length) := by
  rw [(readString_ok_inv h).1, List.length_append, writeBytes_length]; omega

theorem readPid_ok_length {bs rest : Bytes} {p : Pid} (h : readPid bs = .ok p rest) :
    bs.length = rest.length + 2 ∧ validPid p = true := by
  obtain ⟨h1, h2⟩ := readPid_ok_inv h
  refine ⟨?_, (validPid_iff p).mpr h2⟩
  rw [h1, List.length_append, u16be_length]; omega

/-! ### topic names and filters -/

theorem topicNameTryFrom_ok_valid {s t : Bytes} (h : topicNameTryFrom s = .ok t) :
    t = s ∧ validTopicName s = true := by
  have h1 := (topicNameTryFrom_ok h).1
  subst h1
  exact ⟨rfl, (validTopicName_iff _).mpr h⟩

/-- What `TopicFilter::try_from` accepts in one build profile it accepts in both, with
the same cached index and without reaching the debug assertion. -/
theorem topicFilterTryFrom_ok_both {debug : Bool} {s : Bytes} {f : Topic.TopicFilter} {r : Bytes}
    (h : topicFilterTryFrom debug s = .ok f r) (d : Bool) : topicFilterTryFrom d s = .ok f [] := by
  unfold topicFilterTryFrom at h ⊢
  cases hd : Utf8.decode s with
  | none => rw [hd] at h; cases h
  | some cs =>
    rw [hd] at h
    simp only [] at h ⊢
    have hprof : Topic.filterIsInvalid d cs = Topic.filterIsInvalid debug cs := by
      cases d <;> cases debug <;>
        first | rfl | exact C16.profile_independent cs | exact (C16.profile_independent cs).symm
    rw [hprof]
    cases hf : Topic.filterIsInvalid debug cs with
    | invalid => rw [hf] at h; cases h
    | valid sep => rw [hf] at h; cases h; rfl
    | panic site => rw [hf] at h; cases h

theorem topicFilterTryFrom_ok_valid {debug : Bool} {s : Bytes} {f : Topic.TopicFilter} {r : Bytes}
    (h : topicFilterTryFrom debug s = .ok f r) : f.text = s ∧ validTopicFilter f = true := by
  have ht := (topicFilterTryFrom_ok h).1
  refine ⟨ht, ?_⟩
  unfold validTopicFilter
  rw [ht, topicFilterTryFrom_ok_both h false, topicFilterTryFrom_ok_both h true]
  simp

/-! ### enum codes -/

theorem codeTable_isVariant : ∀ k : Gen.CodeKind,
    (Gen.codeTable k).all (fun x => isVariant k x.2) = true := by
  intro k; cases k <;> decide

theorem lookup_mem {α β : Type} [BEq α] [LawfulBEq α] (a : α) (b : β) :
    ∀ l : List (α × β), l.lookup a = some b → (a, b) ∈ l := by
  intro l
  induction l with
  | nil => intro h; cases h
  | cons x xs ih =>
    intro h
    obtain ⟨x1, x2⟩ := x
    rw [List.lookup_cons] at h
    split at h
    · rename_i heq
      cases h
      have : a = x1 := by simpa using heq
      subst this
      exact List.mem_cons_self
    · exact List.mem_cons_of_mem _ (ih h)

/-- `X::from_u8` only returns discriminants of `X`. -/
theorem codeOfByte_isVariant {k : Gen.CodeKind} {b d : UInt8} (h : codeOfByte k b = some d) :
    isVariant k d = true := by
  have hm := lookup_mem b d _ h
  exact List.all_eq_true.mp (codeTable_isVariant k) (b, d) hm

theorem qosFromU8_ok_isVariant {b q : UInt8} (h : qosFromU8 b = .ok q) :
    isVariant .qos q = true := by
  unfold qosFromU8 at h
  split at h
  · rename_i d hd; cases h; exact codeOfByte_isVariant hd
  · cases h

/-! ### variable byte integers and the raw fixed header -/

/-- Size of the minimal encoding is monotone. -/
theorem varIntSize_mono {a b : Nat} (h : a ≤ b) : Spec.varIntSize a ≤ Spec.varIntSize b := by
  unfold Spec.varIntSize
  repeat' split
  all_goals omega

theorem decodeVarInt_ok_inv {bs rest : Bytes} {n k : Nat} (h : decodeVarInt bs = .ok (n, k) rest) :
    n < 268435456 ∧ bs.length = rest.length + k ∧ Spec.varIntSize n ≤ k := by
  obtain ⟨h1, _, _, h4⟩ := C15.reader_reports_consumed bs rest n k h
  have := C15.writer_is_minimal bs rest n k h
  rw [writeVarInt_length n h4] at this
  exact ⟨h4, h1, this⟩

theorem decodeRawHeader_ok_inv {bs rest : Bytes} {cb : UInt8} {n : Nat}
    (h : decodeRawHeader bs = .ok (cb, n) rest) :
    ∃ k, n < 268435456 ∧ bs.length = rest.length + 1 + k ∧ Spec.varIntSize n ≤ k := by
  unfold decodeRawHeader at h
  split at h
  · cases h
  · rename_i t r1
    split at h
    · rename_i n' k r2 hv
      cases h
      obtain ⟨h1, h2, h3⟩ := decodeVarInt_ok_inv hv
      exact ⟨k, h1, by simp only [List.length_cons]; omega, h3⟩
    · cases h
    · cases h
    · cases h

end Mqtt

namespace Mqtt.V3
open Mqtt

/-! ## Part 2 — the v3 body decoders -/

/-- Number of bytes that follow the fixed header in the encoding of `p`. -/
def Packet.bodyLen : Packet → Nat
  | .pingreq | .pingresp | .disconnect => 0
  | .connack _ | .puback _ | .pubrec _ | .pubrel _ | .pubcomp _ | .unsuback _ => 2
  | .connect c => c.encodeLen
  | .publish p => p.encodeLen
  | .subscribe s => s.encodeLen
  | .suback s => s.encodeLen
  | .unsubscribe u => u.encodeLen

theorem Connack.decode_ok_inv {bs rest : Bytes} {c : Connack} (h : Connack.decode bs = .ok c rest) :
    isVariant .connectReturnV3 c.code = true ∧ bs.length = rest.length + 2 := by
  unfold Connack.decode at h
  obtain ⟨payload, r1, h1, h⟩ := Parser.bind_ok_inv h
  obtain ⟨hl, hlen⟩ := take_ok_length' h1
  match payload, hlen, h with
  | [f, c0], _, h =>
    dsimp only at h
    by_cases hf : f = 0 ∨ f = 1
    · rw [if_pos hf] at h
      cases hc : codeOfByte .connectReturnV3 c0 with
      | none => rw [hc] at h; cases h
      | some d =>
        rw [hc] at h
        obtain ⟨rfl, rfl⟩ := Parser.pure_ok_inv h
        exact ⟨codeOfByte_isVariant hc, hl⟩
    · rw [if_neg hf] at h; cases h

theorem Publish.decode_ok_inv {hd : Header} {bs rest : Bytes} {p : Publish}
    (h : Publish.decode hd bs = .ok p rest) :
    validTopicName p.topicName = true ∧ QosPid.valid p.qosPid = true ∧
    p.encodeLen = hd.remainingLen ∧ bs.length = rest.length + hd.remainingLen := by
  unfold Publish.decode at h
  obtain ⟨topic, r1, h1, k1⟩ := Parser.bind_ok_inv h
  obtain ⟨rl, r2, h2, k2⟩ := Parser.bind_ok_inv k1
  obtain ⟨⟨qp, rl'⟩, r3, h3, k3⟩ := Parser.bind_ok_inv k2
  dsimp only at k3
  obtain ⟨payload, r4, h4, k4⟩ := Parser.bind_ok_inv k3
  obtain ⟨tn, r5, h5, k5⟩ := Parser.bind_ok_inv k4
  obtain ⟨hp, hr⟩ := Parser.pure_ok_inv k5
  clear h k1 k2 k3 k4 k5
  have l1 := readString_ok_length h1
  obtain ⟨l2a, l2b, l2c⟩ := checkedSub_ok_inv h2
  obtain ⟨h5', l5⟩ := liftExcept_ok_inv h5
  obtain ⟨htn, hname⟩ := topicNameTryFrom_ok_valid h5'
  have l4 : r3.length = r4.length + rl' ∧ payload.length = rl' := by
    split at h4
    · exact take_ok_length' h4
    · obtain ⟨e1, e2⟩ := Parser.pure_ok_inv h4
      subst e1 e2
      exact ⟨by omega, by simp; omega⟩
  clear h1 h2 h4 h5
  subst hp hr l5 l2c htn
  obtain ⟨l4a, l4b⟩ := l4
  have pidCase : ∀ {rl0 : Nat} {mk : Pid → QosPid} {r2 r3 : Bytes} {qp : QosPid} {rl' : Nat},
      (do let rl ← checkedSub rl0 2 Error.invalidRemainingLength
          let pid ← readPid
          pure (mk pid, rl) : Parser Error (QosPid × Nat)) r2 = .ok (qp, rl') r3 →
      ∃ pid, qp = mk pid ∧ validPid pid = true ∧ 2 ≤ rl0 ∧ rl' = rl0 - 2 ∧
        r2.length = r3.length + 2 := by
    intro rl0 mk r2 r3 qp rl' hh
    obtain ⟨rl2, r2', g1, g2⟩ := Parser.bind_ok_inv hh
    obtain ⟨pid, r2'', g3, g4⟩ := Parser.bind_ok_inv g2
    obtain ⟨e, e2⟩ := Parser.pure_ok_inv g4
    obtain ⟨m1, m2, m3⟩ := checkedSub_ok_inv g1
    obtain ⟨m4, m5⟩ := readPid_ok_length g3
    cases e; subst e2 m3
    exact ⟨pid, rfl, m5, m1, m2, m4⟩
  simp only [Publish.encodeLen]
  split at h3
  · obtain ⟨e, e2⟩ := Parser.pure_ok_inv h3
    cases e; subst e2
    exact ⟨hname, rfl, by dsimp only; omega, by omega⟩
  · split at h3
    · obtain ⟨pid, rfl, hv, q1, q2, q3⟩ := pidCase h3
      exact ⟨hname, hv, by dsimp only; omega, by omega⟩
    · split at h3
      · obtain ⟨pid, rfl, hv, q1, q2, q3⟩ := pidCase h3
        exact ⟨hname, hv, by dsimp only; omega, by omega⟩
      · cases h3

theorem tfParser_ok_inv {debug : Bool} {s bs rest : Bytes} {f : Topic.TopicFilter}
    (h : tfParser debug s bs = .ok f rest) :
    rest = bs ∧ f.text = s ∧ validTopicFilter f = true := by
  unfold tfParser at h
  split at h
  · rename_i g r hg
    cases h
    exact ⟨rfl, topicFilterTryFrom_ok_valid hg⟩
  · cases h
  · cases h
  · cases h

/-- The SUBSCRIBE loop: the topics appended are valid, and their encoded sizes add up to
the remaining length it was started with, which is also the number of bytes consumed. -/
theorem subscribeLoop_ok_inv (debug : Bool) :
    ∀ (rl : Nat) (acc : List (Topic.TopicFilter × UInt8)) (bs rest : Bytes)
      (res : List (Topic.TopicFilter × UInt8)),
      subscribeLoop debug rl acc bs = .ok res rest →
      ∃ ts, res = acc ++ ts ∧
        (∀ x ∈ ts, validTopicFilter x.1 = true ∧ isVariant .qos x.2 = true) ∧
        (ts.map (fun (f, _) => 3 + f.text.length)).sum = rl ∧
        bs.length = rest.length + rl := by
  intro rl
  induction rl using Nat.strongRecOn with
  | _ rl ih =>
    intro acc bs rest res h
    rw [subscribeLoop_eq] at h
    split at h
    · rename_i hpos
      obtain ⟨s, r1, h1, k1⟩ := Parser.bind_ok_inv h
      obtain ⟨f, r2, h2, k2⟩ := Parser.bind_ok_inv k1
      obtain ⟨qb, r3, h3, k3⟩ := Parser.bind_ok_inv k2
      obtain ⟨q, r4, h4, k4⟩ := Parser.bind_ok_inv k3
      clear h k1 k2 k3
      have l1 := readString_ok_length h1
      obtain ⟨e2, ht, hf⟩ := tfParser_ok_inv h2
      have l3 := readU8_ok_length h3
      obtain ⟨hq, e4⟩ := liftExcept_ok_inv h4
      have hqv := qosFromU8_ok_isVariant hq
      subst e2 e4
      split at k4
      · rename_i hle
        obtain ⟨ts, g1, g2, g3, g4⟩ := ih _ (by omega) _ _ _ _ k4
        refine ⟨(f, q) :: ts, by rw [g1]; simp, ?_, ?_, ?_⟩
        · intro x hx
          rcases List.mem_cons.mp hx with rfl | hx
          · exact ⟨hf, hqv⟩
          · exact g2 x hx
        · simp only [List.map_cons, List.sum_cons, g3]; omega
        · rw [ht] at hle g4; omega
      · cases k4
    · rename_i hz
      obtain ⟨e1, e2⟩ := Parser.pure_ok_inv (ε := Error) h
      exact ⟨[], by simp [e1], by simp, by simp; omega, by rw [e2]; omega⟩

theorem Subscribe.decode_ok_inv {debug : Bool} {rl0 : Nat} {bs rest : Bytes} {s : Subscribe}
    (h : Subscribe.decode debug rl0 bs = .ok s rest) :
    validPid s.pid = true ∧ s.topics.isEmpty = false ∧
    s.topics.all (fun (f, q) => validTopicFilter f && isVariant .qos q) = true ∧
    s.encodeLen = rl0 ∧ bs.length = rest.length + rl0 := by
  unfold Subscribe.decode at h
  obtain ⟨pid, r1, h1, k1⟩ := Parser.bind_ok_inv h
  obtain ⟨rl, r2, h2, k2⟩ := Parser.bind_ok_inv k1
  clear h k1
  obtain ⟨l1, hp⟩ := readPid_ok_length h1
  obtain ⟨l2a, l2b, l2c⟩ := checkedSub_ok_inv h2
  subst l2c
  split at k2
  · cases k2
  · rename_i hne
    obtain ⟨topics, r3, h3, k3⟩ := Parser.bind_ok_inv k2
    obtain ⟨e1, e2⟩ := Parser.pure_ok_inv k3
    subst e1 e2
    obtain ⟨ts, g1, g2, g3, g4⟩ := subscribeLoop_ok_inv debug _ _ _ _ _ h3
    rw [List.nil_append] at g1
    subst g1
    refine ⟨hp, ?_, ?_, ?_, by omega⟩
    · cases topics with
      | nil => simp at g3; omega
      | cons x xs => rfl
    · rw [List.all_eq_true]
      intro x hx
      obtain ⟨a, b⟩ := g2 x hx
      simp [a, b]
    · simp only [Subscribe.encodeLen, g3]; omega

/-- The UNSUBSCRIBE loop. -/
theorem unsubscribeLoop_ok_inv (debug : Bool) :
    ∀ (rl : Nat) (acc : List Topic.TopicFilter) (bs rest : Bytes) (res : List Topic.TopicFilter),
      unsubscribeLoop debug rl acc bs = .ok res rest →
      ∃ ts, res = acc ++ ts ∧ (∀ x ∈ ts, validTopicFilter x = true) ∧
        (ts.map (fun f => 2 + f.text.length)).sum = rl ∧
        bs.length = rest.length + rl := by
  intro rl
  induction rl using Nat.strongRecOn with
  | _ rl ih =>
    intro acc bs rest res h
    rw [unsubscribeLoop_eq] at h
    split at h
    · rename_i hpos
      obtain ⟨s, r1, h1, k1⟩ := Parser.bind_ok_inv h
      obtain ⟨f, r2, h2, k2⟩ := Parser.bind_ok_inv k1
      clear h k1
      have l1 := readString_ok_length h1
      obtain ⟨e2, ht, hf⟩ := tfParser_ok_inv h2
      subst e2
      split at k2
      · rename_i hle
        obtain ⟨ts, g1, g2, g3, g4⟩ := ih _ (by omega) _ _ _ _ k2
        refine ⟨f :: ts, by rw [g1]; simp, ?_, ?_, ?_⟩
        · intro x hx
          rcases List.mem_cons.mp hx with rfl | hx
          · exact hf
          · exact g2 x hx
        · simp only [List.map_cons, List.sum_cons, g3]; omega
        · rw [ht] at hle g4; omega
      · cases k2
    · rename_i hz
      obtain ⟨e1, e2⟩ := Parser.pure_ok_inv (ε := Error) h
      exact ⟨[], by simp [e1], by simp, by simp; omega, by rw [e2]; omega⟩

theorem Unsubscribe.decode_ok_inv {debug : Bool} {rl0 : Nat} {bs rest : Bytes} {u : Unsubscribe}
    (h : Unsubscribe.decode debug rl0 bs = .ok u rest) :
    validPid u.pid = true ∧ u.topics.isEmpty = false ∧
    u.topics.all validTopicFilter = true ∧
    u.encodeLen = rl0 ∧ bs.length = rest.length + rl0 := by
  unfold Unsubscribe.decode at h
  obtain ⟨pid, r1, h1, k1⟩ := Parser.bind_ok_inv h
  obtain ⟨rl, r2, h2, k2⟩ := Parser.bind_ok_inv k1
  clear h k1
  obtain ⟨l1, hp⟩ := readPid_ok_length h1
  obtain ⟨l2a, l2b, l2c⟩ := checkedSub_ok_inv h2
  subst l2c
  split at k2
  · cases k2
  · rename_i hne
    obtain ⟨topics, r3, h3, k3⟩ := Parser.bind_ok_inv k2
    obtain ⟨e1, e2⟩ := Parser.pure_ok_inv k3
    subst e1 e2
    obtain ⟨ts, g1, g2, g3, g4⟩ := unsubscribeLoop_ok_inv debug _ _ _ _ _ h3
    rw [List.nil_append] at g1
    subst g1
    refine ⟨hp, ?_, ?_, ?_, by omega⟩
    · cases topics with
      | nil => simp at g3; omega
      | cons x xs => rfl
    · rw [List.all_eq_true]
      exact g2
    · simp only [Unsubscribe.encodeLen, g3]; omega

/-- The SUBACK loop. -/
theorem subackLoop_ok_inv : ∀ (rl : Nat) (acc : List UInt8) (bs rest : Bytes) (res : List UInt8),
    subackLoop rl acc bs = .ok res rest →
    ∃ ts, res = acc ++ ts ∧ (∀ x ∈ ts, isVariant .subscribeReturnV3 x = true) ∧
      ts.length = rl ∧ bs.length = rest.length + rl := by
  intro rl
  induction rl with
  | zero =>
    intro acc bs rest res h
    rw [subackLoop_zero] at h
    obtain ⟨e1, e2⟩ := Parser.pure_ok_inv (ε := Error) h
    exact ⟨[], by simp [e1], by simp, rfl, by rw [e2]; omega⟩
  | succ rl ih =>
    intro acc bs rest res h
    rw [subackLoop_succ] at h
    obtain ⟨v, r1, h1, k1⟩ := Parser.bind_ok_inv h
    have l1 := readU8_ok_length h1
    cases hc : codeOfByte .subscribeReturnV3 v with
    | none => rw [hc] at k1; cases k1
    | some d =>
      rw [hc] at k1
      obtain ⟨ts, g1, g2, g3, g4⟩ := ih _ _ _ _ k1
      refine ⟨d :: ts, by rw [g1]; simp, ?_, by simp [g3], by omega⟩
      intro x hx
      rcases List.mem_cons.mp hx with rfl | hx
      · exact codeOfByte_isVariant hc
      · exact g2 x hx

theorem Suback.decode_ok_inv {rl0 : Nat} {bs rest : Bytes} {s : Suback}
    (h : Suback.decode rl0 bs = .ok s rest) :
    validPid s.pid = true ∧ s.topics.all (isVariant .subscribeReturnV3) = true ∧
    s.encodeLen = rl0 ∧ bs.length = rest.length + rl0 := by
  unfold Suback.decode at h
  obtain ⟨pid, r1, h1, k1⟩ := Parser.bind_ok_inv h
  obtain ⟨rl, r2, h2, k2⟩ := Parser.bind_ok_inv k1
  obtain ⟨topics, r3, h3, k3⟩ := Parser.bind_ok_inv k2
  obtain ⟨e1, e2⟩ := Parser.pure_ok_inv k3
  clear h k1 k2 k3
  obtain ⟨l1, hp⟩ := readPid_ok_length h1
  obtain ⟨l2a, l2b, l2c⟩ := checkedSub_ok_inv h2
  subst l2c e1 e2
  obtain ⟨ts, g1, g2, g3, g4⟩ := subackLoop_ok_inv _ _ _ _ _ h3
  rw [List.nil_append] at g1
  subst g1
  refine ⟨hp, ?_, ?_, by omega⟩
  · rw [List.all_eq_true]; exact g2
  · simp only [Suback.encodeLen, g3]; omega

theorem Protocol.new_ok_len {name : Bytes} {level : UInt8} {p : Protocol}
    (h : Protocol.new name level = .ok p) : p.encodeLen = 2 + name.length + 1 := by
  unfold Protocol.new at h
  split at h
  · rename_i hc; cases h; rw [hc.1]; rfl
  · split at h
    · rename_i hc; cases h; rw [hc.1]; rfl
    · split at h
      · rename_i hc; cases h; rw [hc.1]; rfl
      · split at h <;> cases h

theorem Protocol.decode_ok_inv {bs rest : Bytes} {p : Protocol} (h : Protocol.decode bs = .ok p rest) :
    bs.length = rest.length + p.encodeLen := by
  rw [Protocol.decode_eq_bind] at h
  obtain ⟨name, r1, h1, k1⟩ := Parser.bind_ok_inv h
  obtain ⟨level, r2, h2, k2⟩ := Parser.bind_ok_inv k1
  obtain ⟨h3, e3⟩ := liftExcept_ok_inv k2
  have l1 := (readBytes_ok_length h1).1
  have l2 := readU8_ok_length h2
  rw [Protocol.new_ok_len h3]
  subst e3; omega

/-- `true` on `none` (an absent optional field is valid). -/
def optValid {α : Type} (f : α → Bool) : Option α → Bool
  | some a => f a
  | none => true
/-- `0` on `none` (an absent optional field is not written). -/
def optLen {α : Type} (f : α → Nat) : Option α → Nat
  | some a => f a
  | none => 0

theorem Connect.will_ok_inv {flags : UInt8} {r3 r4 : Bytes} {lastWill : Option LastWill}
    (h4 : (if flags &&& 0b100 != 0 then do
          let topic ← readString
          let message ← readBytes
          let qos ← liftExcept (qosFromU8 ((flags &&& 0b11000) >>> 3))
          let retain := (flags &&& 0b00100000) != 0
          let tn ← liftExcept (topicNameTryFrom topic)
          pure (some { qos := qos, retain := retain, topicName := tn, message := message : LastWill })
        else if flags &&& 0b11000 != 0 then Parser.fail (.invalidConnectFlags flags)
        else pure none : Parser Error (Option LastWill)) r3 = .ok lastWill r4) :
    optValid LastWill.valid lastWill = true ∧
    r3.length = r4.length + optLen LastWill.encodeLen lastWill := by
  split at h4
  · obtain ⟨topic, s1, g1, j1⟩ := Parser.bind_ok_inv h4
    obtain ⟨message, s2, g2, j2⟩ := Parser.bind_ok_inv j1
    obtain ⟨qos, s3, g3, j3⟩ := Parser.bind_ok_inv j2
    dsimp only at j3
    obtain ⟨tn, s4, g4, j4⟩ := Parser.bind_ok_inv j3
    obtain ⟨f1, f2⟩ := Parser.pure_ok_inv j4
    obtain ⟨g3', f3⟩ := liftExcept_ok_inv g3
    obtain ⟨g4', f4⟩ := liftExcept_ok_inv g4
    obtain ⟨f5, hname⟩ := topicNameTryFrom_ok_valid g4'
    have m1 := readString_ok_length g1
    obtain ⟨m2, m2'⟩ := readBytes_ok_length g2
    subst f1 f2 f3 f4 f5
    refine ⟨?_, ?_⟩
    · simp only [optValid, LastWill.valid, qosFromU8_ok_isVariant g3', hname,
        (validBin_iff _).mpr m2', Bool.and_self]
    · simp only [optLen, LastWill.encodeLen]; omega
  · split at h4
    · cases h4
    · obtain ⟨f1, f2⟩ := Parser.pure_ok_inv h4
      subst f1 f2
      exact ⟨rfl, rfl⟩

theorem Connect.username_ok_inv {c : Prop} [Decidable c] {r4 r5 : Bytes} {username : Option Bytes}
    (h5 : (if c then do let u ← readString; pure (some u)
        else pure none : Parser Error (Option Bytes)) r4 = .ok username r5) :
    optValid validText username = true ∧
    r4.length = r5.length + optLen (fun u => 2 + u.length) username := by
  split at h5
  · obtain ⟨u, s1, g1, j1⟩ := Parser.bind_ok_inv h5
    obtain ⟨f1, f2⟩ := Parser.pure_ok_inv j1
    subst f1 f2
    exact ⟨readString_ok_validText g1, readString_ok_length g1⟩
  · obtain ⟨f1, f2⟩ := Parser.pure_ok_inv h5
    subst f1 f2
    exact ⟨rfl, rfl⟩

theorem Connect.password_ok_inv {c : Prop} [Decidable c] {r5 r6 : Bytes} {password : Option Bytes}
    (h6 : (if c then do let p ← readBytes (ε := Error); pure (some p)
        else pure none : Parser Error (Option Bytes)) r5 = .ok password r6) :
    optValid validBin password = true ∧
    r5.length = r6.length + optLen (fun u => 2 + u.length) password := by
  split at h6
  · obtain ⟨u, s1, g1, j1⟩ := Parser.bind_ok_inv h6
    obtain ⟨f1, f2⟩ := Parser.pure_ok_inv j1
    subst f1 f2
    exact ⟨(validBin_iff _).mpr (readBytes_ok_length g1).2, (readBytes_ok_length g1).1⟩
  · obtain ⟨f1, f2⟩ := Parser.pure_ok_inv h6
    subst f1 f2
    exact ⟨rfl, rfl⟩

theorem Connect.decodeWithProtocol_ok_inv {proto : Protocol} {bs rest : Bytes} {c : Connect}
    (h : Connect.decodeWithProtocol proto bs = .ok c rest) :
    c.protocol = proto ∧ c.valid = true ∧
    bs.length + proto.encodeLen = rest.length + c.encodeLen := by
  unfold Connect.decodeWithProtocol at h
  split at h
  · cases h
  · rename_i hlevel
    obtain ⟨flags, r1, h1, k1⟩ := Parser.bind_ok_inv h
    split at k1
    · cases k1
    · obtain ⟨keepAlive, r2, h2, k2⟩ := Parser.bind_ok_inv k1
      obtain ⟨clientId, r3, h3, k3⟩ := Parser.bind_ok_inv k2
      obtain ⟨lastWill, r4, h4, k4⟩ := Parser.bind_ok_inv k3
      obtain ⟨username, r5, h5, k5⟩ := Parser.bind_ok_inv k4
      obtain ⟨password, r6, h6, k6⟩ := Parser.bind_ok_inv k5
      dsimp only at k6
      obtain ⟨e1, e2⟩ := Parser.pure_ok_inv k6
      clear h k1 k2 k3 k4 k5 k6
      have l1 := readU8_ok_length h1
      have l2 := readU16_ok_length h2
      have l3 := readString_ok_length h3
      have v3 := readString_ok_validText h3
      obtain ⟨hw1, hw2⟩ := Connect.will_ok_inv h4
      obtain ⟨hu1, hu2⟩ := Connect.username_ok_inv h5
      obtain ⟨hp1, hp2⟩ := Connect.password_ok_inv h6
      clear h1 h2 h3 h4 h5 h6
      subst e1 e2
      have hproto : (proto != Protocol.v500) = true := by
        cases proto
        · rfl
        · rfl
        · exact absurd (by decide) hlevel
      refine ⟨rfl, ?_, ?_⟩
      · cases lastWill <;> cases username <;> cases password <;>
          simp only [optValid] at hw1 hu1 hp1 <;>
          simp only [Connect.valid, hproto, v3, hw1, hu1, hp1, Bool.and_self]
      · cases lastWill <;> cases username <;> cases password <;>
          simp only [optLen] at hw2 hu2 hp2 <;>
          simp only [Connect.encodeLen] <;> omega

theorem Connect.decode_ok_inv {bs rest : Bytes} {c : Connect} (h : Connect.decode bs = .ok c rest) :
    c.valid = true ∧ bs.length = rest.length + c.encodeLen := by
  unfold Connect.decode at h
  obtain ⟨proto, r1, h1, k1⟩ := Parser.bind_ok_inv h
  have l1 := Protocol.decode_ok_inv h1
  obtain ⟨-, hv, l2⟩ := Connect.decodeWithProtocol_ok_inv k1
  exact ⟨hv, by omega⟩

/-- A valid CONNECT body has at most 9 + 3 + 5·65,537 bytes: it always fits a 3-byte
remaining length, so the size conjunct of `Packet.valid` is automatic for CONNECT. -/
theorem Connect.encodeLen_lt_of_valid {c : Connect} (h : c.valid = true) : c.encodeLen < 2097152 := by
  obtain ⟨proto, cs, ka, cid, lw, un, pw⟩ := c
  simp only [Connect.valid, Bool.and_eq_true] at h
  obtain ⟨⟨⟨⟨-, hcid⟩, hlw⟩, hun⟩, hpw⟩ := h
  have b1 := ((validText_iff _).mp hcid).1
  have b0 : proto.encodeLen ≤ 9 := by cases proto <;> simp [Protocol.encodeLen]
  have b2 : (match lw with | some w => w.encodeLen | none => 0) ≤ 4 + 65535 + 65535 := by
    cases lw with
    | none => simp
    | some w =>
      simp only [LastWill.valid, Bool.and_eq_true] at hlw
      have := ((validText_iff _).mp (validTopicName_text hlw.1.2)).1
      have := (validBin_iff _).mp hlw.2
      simp only [LastWill.encodeLen]; omega
  have b3 : (match un with | some u => 2 + u.length | none => 0) ≤ 2 + 65535 := by
    cases un with
    | none => simp
    | some u => have := ((validText_iff _).mp hun).1; simp only []; omega
  have b4 : (match pw with | some u => 2 + u.length | none => 0) ≤ 2 + 65535 := by
    cases pw with
    | none => simp
    | some u => have := (validBin_iff _).mp hpw; simp only []; omega
  cases lw <;> cases un <;> cases pw <;> simp only [Connect.encodeLen] at b2 b3 b4 ⊢ <;> omega

/-- The body dispatch: whatever it accepts is valid, and re-encodes to a body of exactly the
number of bytes consumed.  Except for CONNECT, CONNACK, the acknowledgements (fixed two bytes)
and the empty packets, that number is the header's remaining length. -/
theorem decodeBody_ok_inv {debug : Bool} {h : Header} {bs rest : Bytes} {p : Packet}
    (hrl : h.remainingLen < 268435456) (hd : decodeBody debug h bs = .ok p rest) :
    p.valid = true ∧ bs.length = rest.length + p.bodyLen ∧
    (p.bodyLen = h.remainingLen ∨ p.bodyLen ≤ 2 ∨ ∃ c, p = .connect c) := by
  have pidCase : ∀ (mk : Pid → Packet), (∀ x, (mk x).valid = validPid x) → (∀ x, (mk x).bodyLen = 2) →
      (readPid >>= fun x => pure (mk x) : Parser Error Packet) bs = .ok p rest →
      p.valid = true ∧ bs.length = rest.length + p.bodyLen ∧
      (p.bodyLen = h.remainingLen ∨ p.bodyLen ≤ 2 ∨ ∃ c, p = .connect c) := by
    intro mk hv hb hh
    obtain ⟨x, r1, h1, k1⟩ := Parser.bind_ok_inv hh
    obtain ⟨e1, e2⟩ := Parser.pure_ok_inv k1
    obtain ⟨l1, v1⟩ := readPid_ok_length h1
    subst e1 e2
    rw [hv, hb]
    exact ⟨v1, l1, .inr (.inl (Nat.le_refl _))⟩
  generalize hP : decodeBody debug h = P at hd
  unfold decodeBody at hP
  split at hP <;> subst hP
  · obtain ⟨e1, e2⟩ := Parser.pure_ok_inv hd
    subst e1 e2; exact ⟨rfl, rfl, .inr (.inl (by decide))⟩
  · obtain ⟨e1, e2⟩ := Parser.pure_ok_inv hd
    subst e1 e2; exact ⟨rfl, rfl, .inr (.inl (by decide))⟩
  · obtain ⟨e1, e2⟩ := Parser.pure_ok_inv hd
    subst e1 e2; exact ⟨rfl, rfl, .inr (.inl (by decide))⟩
  · obtain ⟨c, r1, h1, k1⟩ := Parser.bind_ok_inv hd
    obtain ⟨e1, e2⟩ := Parser.pure_ok_inv k1
    obtain ⟨hv, l1⟩ := Connect.decode_ok_inv h1
    subst e1 e2
    have := Connect.encodeLen_lt_of_valid hv
    refine ⟨?_, l1, .inr (.inr ⟨c, rfl⟩)⟩
    simp only [Packet.valid, hv, Bool.true_and, decide_eq_true_eq]; omega
  · obtain ⟨c, r1, h1, k1⟩ := Parser.bind_ok_inv hd
    obtain ⟨e1, e2⟩ := Parser.pure_ok_inv k1
    obtain ⟨hv, l1⟩ := Connack.decode_ok_inv h1
    subst e1 e2
    exact ⟨hv, l1, .inr (.inl (Nat.le_refl _))⟩
  · obtain ⟨c, r1, h1, k1⟩ := Parser.bind_ok_inv hd
    obtain ⟨e1, e2⟩ := Parser.pure_ok_inv k1
    obtain ⟨hv1, hv2, hl, l1⟩ := Publish.decode_ok_inv h1
    subst e1 e2
    refine ⟨?_, by simp only [Packet.bodyLen, hl]; exact l1, .inl hl⟩
    simp only [Packet.valid, hv1, hv2, Bool.true_and, decide_eq_true_eq, hl]; exact hrl
  · exact pidCase .puback (fun _ => rfl) (fun _ => rfl) hd
  · exact pidCase .pubrec (fun _ => rfl) (fun _ => rfl) hd
  · exact pidCase .pubrel (fun _ => rfl) (fun _ => rfl) hd
  · exact pidCase .pubcomp (fun _ => rfl) (fun _ => rfl) hd
  · obtain ⟨c, r1, h1, k1⟩ := Parser.bind_ok_inv hd
    obtain ⟨e1, e2⟩ := Parser.pure_ok_inv k1
    obtain ⟨hv1, hv2, hv3, hl, l1⟩ := Subscribe.decode_ok_inv h1
    subst e1 e2
    refine ⟨?_, by simp only [Packet.bodyLen, hl]; exact l1, .inl hl⟩
    simp only [Packet.valid, hv1, hv2, hv3, Bool.true_and, decide_eq_true_eq, hl, Bool.not_false]
    exact hrl
  · obtain ⟨c, r1, h1, k1⟩ := Parser.bind_ok_inv hd
    obtain ⟨e1, e2⟩ := Parser.pure_ok_inv k1
    obtain ⟨hv1, hv2, hl, l1⟩ := Suback.decode_ok_inv h1
    subst e1 e2
    refine ⟨?_, by simp only [Packet.bodyLen, hl]; exact l1, .inl hl⟩
    simp only [Packet.valid, hv1, hv2, Bool.true_and, decide_eq_true_eq, hl]; exact hrl
  · obtain ⟨c, r1, h1, k1⟩ := Parser.bind_ok_inv hd
    obtain ⟨e1, e2⟩ := Parser.pure_ok_inv k1
    obtain ⟨hv1, hv2, hv3, hl, l1⟩ := Unsubscribe.decode_ok_inv h1
    subst e1 e2
    refine ⟨?_, by simp only [Packet.bodyLen, hl]; exact l1, .inl hl⟩
    simp only [Packet.valid, hv1, hv2, hv3, Bool.true_and, decide_eq_true_eq, hl, Bool.not_false]
    exact hrl
  · exact pidCase .unsuback (fun _ => rfl) (fun _ => rfl) hd
  · cases hd

/-! ## Part 3 — the front-ends -/

theorem Header.newWith_remainingLen {cb : UInt8} {n : Nat} {h : Header}
    (hh : Header.newWith cb n = .ok h) : h.remainingLen = n := by
  unfold Header.newWith at hh
  split at hh
  · cases hh; rfl
  · cases hh

/-- An accepted fixed header: remaining length below 2^28, read from a length field at
least as long as the minimal one. -/
theorem Header.decode_ok_inv {bs rest : Bytes} {h : Header} (hd : Header.decode bs = .ok h rest) :
    ∃ k, h.remainingLen < 268435456 ∧ bs.length = rest.length + 1 + k ∧
      Spec.varIntSize h.remainingLen ≤ k := by
  unfold Header.decode at hd
  obtain ⟨⟨cb, n⟩, r1, h1, k1⟩ := Parser.bind_ok_inv hd
  dsimp only at k1
  obtain ⟨h2, e2⟩ := liftExcept_ok_inv k1
  obtain ⟨k, g1, g2, g3⟩ := decodeRawHeader_ok_inv h1
  rw [Header.newWith_remainingLen h2]
  subst e2
  exact ⟨k, g1, g2, g3⟩

theorem Packet.encodeLen_eq_totalLen (p : Packet) : p.encodeLen = totalLen p.bodyLen := by
  cases p <;> rfl

theorem Packet.bodyLen_lt_of_valid {p : Packet} (hv : p.valid = true) : p.bodyLen < 268435456 := by
  cases p <;> simp only [Packet.valid, Bool.and_eq_true, decide_eq_true_eq] at hv <;>
    simp only [Packet.bodyLen] <;> omega

theorem varIntSize_pos (n : Nat) : 1 ≤ Spec.varIntSize n := by
  unfold Spec.varIntSize
  repeat' split
  all_goals omega

/-- The async decoder: what it accepts is valid (no size hypothesis needed), and the
re-encoding is no longer than what was consumed — except for CONNECT, whose body the
lenient decoder does not compare with the header's remaining length: there the
re-encoding can be up to two bytes longer (a longer length field). -/
theorem decodeAsync_ok_inv {debug : Bool} {bs rest : Bytes} {p : Packet}
    (h : decodeAsync debug bs = .ok p rest) :
    p.valid = true ∧
    ((∀ c, p ≠ .connect c) →
      p.bodyLen + 1 + Spec.varIntSize p.bodyLen ≤ bs.length - rest.length) ∧
    p.bodyLen + 1 + Spec.varIntSize p.bodyLen ≤ bs.length - rest.length + 2 := by
  unfold decodeAsync at h
  obtain ⟨hd, r1, h1, k1⟩ := Parser.bind_ok_inv h
  obtain ⟨k, g1, g2, g3⟩ := Header.decode_ok_inv h1
  obtain ⟨hv, l1, hc⟩ := decodeBody_ok_inv g1 k1
  have hpos := varIntSize_pos hd.remainingLen
  refine ⟨hv, ?_, ?_⟩
  · intro hne
    rcases hc with hc | hc | ⟨c, rfl⟩
    · rw [hc]; omega
    · have : Spec.varIntSize p.bodyLen = 1 := by unfold Spec.varIntSize; rw [if_pos (by omega)]
      omega
    · exact absurd rfl (hne c)
  · rcases hc with hc | hc | ⟨c, rfl⟩
    · rw [hc]; omega
    · have : Spec.varIntSize p.bodyLen = 1 := by unfold Spec.varIntSize; rw [if_pos (by omega)]
      omega
    · simp only [Packet.valid, Bool.and_eq_true] at hv
      have hlt := Connect.encodeLen_lt_of_valid hv.1
      have : Spec.varIntSize c.encodeLen ≤ 3 := by
        unfold Spec.varIntSize; repeat' split
        all_goals omega
      simp only [Packet.bodyLen] at l1 ⊢
      omega

/-- The strict poll decoder: what it accepts is valid and re-encodes to at most the
reported total. -/
theorem poll_ok_inv {debug : Bool} {bs : Bytes} {term : Poll.Term} {total : Nat} {body : Bytes}
    {p : Packet} (h : (Poll.spec (pollFamily debug) bs term).1 = .ok total body p) :
    p.valid = true ∧ p.bodyLen + 1 + Spec.varIntSize p.bodyLen ≤ total := by
  cases bs with
  | nil => rw [Poll.spec_nil] at h; cases h
  | cons cb rest =>
    rw [Poll.spec_cons] at h
    have e1 : (pollFamily debug).ofCommon Error.invalidVarByteInt = Error.invalidVarByteInt := rfl
    rw [e1] at h
    cases hd : decodeVarIntAux Error.invalidVarByteInt 0 0 rest with
    | more => rw [hd] at h; cases h
    | err e => rw [hd] at h; cases h
    | panic q => rw [hd] at h; cases h
    | ok a rest' =>
      obtain ⟨v, k⟩ := a
      obtain ⟨hv, -, hmin⟩ := decodeVarInt_ok_inv (bs := rest) hd
      have hk := varIntSize_pos v
      rw [hd] at h
      simp only [] at h
      cases hf : Poll.finishHeader (pollFamily debug) cb (k - 1) v with
      | inr r =>
        rw [hf] at h
        simp only [] at h
        subst h
        obtain ⟨hd', hnw, hbe, hrl, rfl, -⟩ := Poll.finishHeader_inr_ok_full _ _ _ _ _ _ _ hf
        have hbe' : buildEmptyPacket hd' = some p := hbe
        unfold buildEmptyPacket at hbe'
        split at hbe'
        · cases hbe'; exact ⟨rfl, by simp [Packet.bodyLen, Spec.varIntSize]⟩
        · cases hbe'; exact ⟨rfl, by simp [Packet.bodyLen, Spec.varIntSize]⟩
        · cases hbe'; exact ⟨rfl, by simp [Packet.bodyLen, Spec.varIntSize]⟩
        · cases hbe'
      | inl st =>
        obtain ⟨hd', hnw, hbe, hne, rfl⟩ := Poll.finishHeader_inl _ _ _ _ _ hf
        rw [hf] at h
        simp only [] at h
        split at h
        · rename_i hle
          obtain ⟨hbd, rfl, -⟩ := Poll.finishBody_ok_full _ _ _ _ _ _ _ h
          have hnw' : Header.newWith cb v = .ok hd' := hnw
          have hrl : hd'.remainingLen = v := Header.newWith_remainingLen hnw'
          have hbd' : blockDecode debug hd' (rest'.take hd'.remainingLen) = .ok p [] := hbd
          rw [blockDecode_eq_decodeBody debug hd' hbe (Header.newWith_facts hnw').2] at hbd'
          obtain ⟨hval, l1, -⟩ := decodeBody_ok_inv (by rw [hrl]; exact hv) hbd'
          have hle' : hd'.remainingLen ≤ rest'.length := hle
          rw [List.length_take, Nat.min_eq_left hle', List.length_nil, Nat.zero_add] at l1
          refine ⟨hval, ?_⟩
          show p.bodyLen + 1 + Spec.varIntSize p.bodyLen ≤ 1 + 1 + (k - 1) + hd'.remainingLen
          rw [← l1, hrl]; omega
        · cases h

/-- A valid packet re-encodes, in either profile, to `body length + 1 + size of the minimal
length field` bytes which every front-end decodes back to the packet. -/
theorem reencode_of_valid (debug : Bool) (p : Packet) (hv : p.valid = true) :
    ∃ vb, p.encode debug = .ok vb ∧
      vb.asRef.length = p.bodyLen + 1 + Spec.varIntSize p.bodyLen ∧
      (∀ t, decodeAsync debug (vb.asRef ++ t) = .ok p t) ∧
      decodeBlocking debug vb.asRef = .ok (some p) vb.asRef.length ∧
      (∀ term, (Poll.spec (pollFamily debug) vb.asRef term).1 =
        .ok vb.asRef.length (vb.asRef.drop (headerLen vb.asRef.length)) p) := by
  obtain ⟨vb, cb, n, body, h, F⟩ := frame_exists debug p hv
  refine ⟨vb, F.enc, ?_, F.roundtrip_async, ?_, ?_⟩
  · rcases Packet.encode_total p with ⟨vb', _, _, _, henc, hlen, -⟩ | ⟨herr, -⟩
    · have e := (henc debug).symm.trans F.enc
      cases e
      rw [Packet.encodeLen_eq_totalLen, totalLen_closed, if_pos (Packet.bodyLen_lt_of_valid hv)] at hlen
      injection hlen with hlen
      exact hlen.symm
    · have e := (herr debug).symm.trans F.enc
      cases e
  · have := F.roundtrip_blocking []
    rwa [List.append_nil] at this
  · intro term
    have := F.roundtrip_poll [] term
    rw [List.append_nil] at this
    rw [this]

/-! ## Part 4 — what validity promises about the fields (for C12) -/

theorem isVariant_qos_le {q : UInt8} (h : isVariant .qos q = true) : q ≤ 2 := by
  rcases isVariant_qos h with rfl | rfl | rfl <;> decide

theorem isVariant_connectReturn_le {c : UInt8} (h : isVariant .connectReturnV3 c = true) : c ≤ 5 := by
  have : c = 0 ∨ c = 1 ∨ c = 2 ∨ c = 3 ∨ c = 4 ∨ c = 5 := by
    simpa [isVariant, Gen.variants] using h
  rcases this with rfl | rfl | rfl | rfl | rfl | rfl <;> decide

theorem validText_utf8 {b : Bytes} (h : validText b = true) : Utf8.valid b = true :=
  ((validText_iff b).mp h).2

/-- A valid topic name passes the library's own predicate. -/
theorem validTopicName_decode {b : Bytes} (h : validTopicName b = true) :
    ∃ cs, Utf8.decode b = some cs ∧ Topic.nameIsInvalid cs = false := by
  have h' := (validTopicName_iff b).mp h
  unfold topicNameTryFrom at h'
  split at h'
  · cases h'
  · rename_i cs hd
    split at h'
    · cases h'
    · rename_i hinv
      exact ⟨cs, hd, by simpa using hinv⟩

/-- A valid topic filter passes the library's own predicate in either profile, with the
cached index the predicate returns, and its shared-subscription accessors do not panic. -/
theorem validTopicFilter_decode {f : Topic.TopicFilter} (h : validTopicFilter f = true) :
    ∃ cs, Utf8.decode f.text = some cs ∧
      (∀ debug, Topic.filterIsInvalid debug cs = .valid f.sharedFilterSep) ∧
      (∃ g, f.sharedGroupName = .ok g) ∧ (∃ s, f.sharedFilter = .ok s) := by
  have h' := topicFilterTryFrom_valid h false
  unfold topicFilterTryFrom at h'
  cases hd : Utf8.decode f.text with
  | none => rw [hd] at h'; cases h'
  | some cs =>
    rw [hd] at h'
    simp only [] at h'
    cases hf : Topic.filterIsInvalid false cs with
    | invalid => rw [hf] at h'; cases h'
    | panic site => rw [hf] at h'; cases h'
    | valid sep =>
      rw [hf] at h'
      simp only [Res.ok.injEq, and_true] at h'
      have hsep : sep = f.sharedFilterSep := by rw [← h']
      subst hsep
      have henc : Utf8.encode cs = f.text := Utf8.encode_of_decode _ _ hd
      have hf' : f = ⟨Utf8.encode cs, f.sharedFilterSep⟩ := by rw [henc]
      refine ⟨cs, rfl, ?_, ?_⟩
      · intro debug
        cases debug
        · exact hf
        · rw [C16.profile_independent]; exact hf
      · by_cases hi : 0 < f.sharedFilterSep
        · obtain ⟨name, filt, -, -, -, -, -, hg, hs⟩ :=
            C17.shared_accessors_split false cs _ hf hi
          rw [hf']
          exact ⟨⟨_, hg⟩, ⟨_, hs⟩⟩
        · obtain ⟨hg, hs⟩ := (C17.shared_iff_prefix false cs _ hf).2 (by omega)
          rw [hf']
          exact ⟨⟨_, hg⟩, ⟨_, hs⟩⟩

end Mqtt.V3
