/-
  C04 (v5): the identifier tables of the property layer of the model (`propKind`,
  `codeOfByte .propertyId`, the per-packet identifier lists) against Table 2-4 of the
  specification (`Spec.propertyWireType`, `Spec.propertyAllowed`), row by row.
-/
import Proofs.V5SpecBasics

set_option linter.unusedSimpArgs false

namespace Mqtt.V5
open Mqtt

/-! ## identifier tables -/

def kindWire : PropKind → Spec.WireType
  | .byte01 => .byte | .qos01 => .byte | .u16 => .u16 | .u32 => .u32
  | .str => .str | .topic => .str | .bin => .bin | .varint => .varint

/-- Row `id` of the model's identifier tables against Table 2-4 of the specification. -/
def idAgree (id : UInt8) : Bool :=
  (codeOfByte .propertyId id == if (Spec.propertyWireType id).isSome then some id else none) &&
  (match propKind id, Spec.propertyWireType id with
   | some k, some w => kindWire k == w && (decide (k = .topic) == (id == 0x08)) && (id != 0x26) &&
       (decide (k = .varint) == (id == 0x0B))
   | none, some w => w == .strPair && id == 0x26
   | none, none => true
   | some _, none => false)

set_option maxRecDepth 100000 in
theorem idAgree_all (id : UInt8) : idAgree id = true := V3.forall_uint8 idAgree (by decide) id

theorem codeOfByte_propertyId (id : UInt8) :
    codeOfByte .propertyId id = if (Spec.propertyWireType id).isSome then some id else none := by
  have := idAgree_all id
  simp only [idAgree, Bool.and_eq_true, beq_iff_eq] at this
  exact this.1

theorem propKind_wire {id : UInt8} {k : PropKind} (hk : propKind id = some k) :
    Spec.propertyWireType id = some (kindWire k) ∧ (k = .topic ↔ id = 0x08) ∧ id ≠ 0x26 ∧
      (k = .varint ↔ id = 0x0B) := by
  have := idAgree_all id
  simp only [idAgree, Bool.and_eq_true, beq_iff_eq, hk] at this
  obtain ⟨-, h2⟩ := this
  cases hw : Spec.propertyWireType id with
  | none => rw [hw] at h2; cases h2
  | some w =>
    rw [hw] at h2
    simp only [Bool.and_eq_true, beq_iff_eq, bne_iff_ne, ne_eq] at h2
    obtain ⟨⟨⟨h1, h3⟩, h4⟩, h5⟩ := h2
    refine ⟨by rw [h1], ?_, h4, ?_⟩
    · constructor
      · intro hkt
        have : decide (k = PropKind.topic) = true := by simp [hkt]
        rw [this] at h3
        exact beq_iff_eq.mp h3.symm
      · intro hid
        have : (id == 0x08) = true := by simp [hid]
        rw [this] at h3
        exact of_decide_eq_true h3
    · constructor
      · intro hkt
        have : decide (k = PropKind.varint) = true := by simp [hkt]
        rw [this] at h5
        exact beq_iff_eq.mp h5.symm
      · intro hid
        have : (id == 0x0B) = true := by simp [hid]
        rw [this] at h5
        exact of_decide_eq_true h5

theorem propKind_none_wire {id : UInt8} {w : Spec.WireType} (hk : propKind id = none)
    (hw : Spec.propertyWireType id = some w) : w = .strPair ∧ id = 0x26 := by
  have := idAgree_all id
  simp only [idAgree, Bool.and_eq_true, beq_iff_eq, hk, hw] at this
  exact this.2

theorem wire_user : Spec.propertyWireType 0x26 = some .strPair := by decide
theorem propKind_user : propKind 0x26 = none := by decide

/-- The identifier list of a property struct of the code is row `owner` of Table 2-4
(the User Property, allowed everywhere, is not listed). -/
def Tbl (owner : Option Spec.PType) (allowed : List UInt8) : Prop :=
  ∀ id, Spec.propertyAllowed owner id = (allowed.contains id || id == 0x26)

def tblB (owner : Option Spec.PType) (allowed : List UInt8) (id : UInt8) : Bool :=
  Spec.propertyAllowed owner id == (allowed.contains id || id == 0x26)

theorem tbl_of {owner : Option Spec.PType} {allowed : List UInt8}
    (h : ∀ id, tblB owner allowed id = true) : Tbl owner allowed :=
  fun id => beq_iff_eq.mp (h id)

set_option maxRecDepth 100000 in
theorem tbl_connect : Tbl (some .connect) connectProps :=
  tbl_of (V3.forall_uint8 _ (by decide))
set_option maxRecDepth 100000 in
theorem tbl_will : Tbl none willProps :=
  tbl_of (V3.forall_uint8 _ (by decide))
set_option maxRecDepth 100000 in
theorem tbl_connack : Tbl (some .connack) connackProps :=
  tbl_of (V3.forall_uint8 _ (by decide))
set_option maxRecDepth 100000 in
theorem tbl_disconnect : Tbl (some .disconnect) disconnectProps :=
  tbl_of (V3.forall_uint8 _ (by decide))
set_option maxRecDepth 100000 in
theorem tbl_auth : Tbl (some .auth) authProps :=
  tbl_of (V3.forall_uint8 _ (by decide))
set_option maxRecDepth 100000 in
theorem tbl_publish : Tbl (some .publish) publishProps :=
  tbl_of (V3.forall_uint8 _ (by decide))
set_option maxRecDepth 100000 in
theorem tbl_puback : Tbl (some .puback) ackProps :=
  tbl_of (V3.forall_uint8 _ (by decide))
set_option maxRecDepth 100000 in
theorem tbl_pubrec : Tbl (some .pubrec) ackProps :=
  tbl_of (V3.forall_uint8 _ (by decide))
set_option maxRecDepth 100000 in
theorem tbl_pubrel : Tbl (some .pubrel) ackProps :=
  tbl_of (V3.forall_uint8 _ (by decide))
set_option maxRecDepth 100000 in
theorem tbl_pubcomp : Tbl (some .pubcomp) ackProps :=
  tbl_of (V3.forall_uint8 _ (by decide))
set_option maxRecDepth 100000 in
theorem tbl_suback : Tbl (some .suback) ackProps :=
  tbl_of (V3.forall_uint8 _ (by decide))
set_option maxRecDepth 100000 in
theorem tbl_unsuback : Tbl (some .unsuback) ackProps :=
  tbl_of (V3.forall_uint8 _ (by decide))
set_option maxRecDepth 100000 in
theorem tbl_subscribe : Tbl (some .subscribe) subscribeProps :=
  tbl_of (V3.forall_uint8 _ (by decide))
set_option maxRecDepth 100000 in
theorem tbl_unsubscribe : Tbl (some .unsubscribe) unsubscribeProps :=
  tbl_of (V3.forall_uint8 _ (by decide))

end Mqtt.V5
