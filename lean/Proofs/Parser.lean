/-
  L1 — parser algebra.  A reader "extends" if its outcome on `bs` is unaffected by
  bytes appended after `bs`: results carry the extra bytes along unread, errors and
  panics stay what they are, and what it returns unread is a suffix of its input.
-/
import Mqtt.Basic

namespace Mqtt

structure Extends {ε α : Type} (P : Parser ε α) : Prop where
  ok : ∀ bs a r t, P bs = .ok a r → P (bs ++ t) = .ok a (r ++ t)
  err : ∀ bs e t, P bs = .err e → P (bs ++ t) = .err e
  panic : ∀ bs s t, P bs = .panic s → P (bs ++ t) = .panic s
  suffix : ∀ bs a r, P bs = .ok a r → ∃ c, bs = c ++ r

/-! ### closure lemmas for `Extends` -/

namespace Extends
variable {ε ε' α β : Type}

theorem pure (a : α) : Extends (Parser.pure a : Parser ε α) where
  ok := by intro bs a' r t h; simp only [Parser.pure] at h ⊢; cases h; rfl
  err := by intro bs e t h; simp only [Parser.pure] at h; cases h
  panic := by intro bs s t h; simp only [Parser.pure] at h; cases h
  suffix := by intro bs a' r h; simp only [Parser.pure] at h; cases h; exact ⟨[], rfl⟩

theorem pure' (a : α) : Extends (Pure.pure a : Parser ε α) := pure a

theorem fail (e : ε) : Extends (Parser.fail e : Parser ε α) where
  ok := by intro bs a' r t h; simp only [Parser.fail] at h; cases h
  err := by intro bs e t h; simp only [Parser.fail] at h ⊢; exact h
  panic := by intro bs s t h; simp only [Parser.fail] at h; cases h
  suffix := by intro bs a' r h; simp only [Parser.fail] at h; cases h

theorem panic' (s : String) : Extends (Parser.panic s : Parser ε α) where
  ok := by intro bs a' r t h; simp only [Parser.panic] at h; cases h
  err := by intro bs e t h; simp only [Parser.panic] at h; cases h
  panic := by intro bs s t h; simp only [Parser.panic] at h ⊢; exact h
  suffix := by intro bs a' r h; simp only [Parser.panic] at h; cases h

theorem bind {p : Parser ε α} {f : α → Parser ε β} (hp : Extends p) (hf : ∀ a, Extends (f a)) :
    Extends (Parser.bind p f) where
  ok := by
    intro bs b r t h
    simp only [Parser.bind] at h ⊢
    cases hpb : p bs with
    | ok a r' =>
      rw [hpb] at h; rw [hp.ok _ _ _ t hpb]
      simp only [Res.bind] at h ⊢
      exact (hf a).ok _ _ _ t h
    | more => rw [hpb] at h; cases h
    | err e => rw [hpb] at h; cases h
    | panic s => rw [hpb] at h; cases h
  err := by
    intro bs e t h
    simp only [Parser.bind] at h ⊢
    cases hpb : p bs with
    | ok a r' =>
      rw [hpb] at h; rw [hp.ok _ _ _ t hpb]
      simp only [Res.bind] at h ⊢
      exact (hf a).err _ _ t h
    | more => rw [hpb] at h; cases h
    | err e' => rw [hpb] at h; rw [hp.err _ _ t hpb]; exact h
    | panic s => rw [hpb] at h; cases h
  panic := by
    intro bs s t h
    simp only [Parser.bind] at h ⊢
    cases hpb : p bs with
    | ok a r' =>
      rw [hpb] at h; rw [hp.ok _ _ _ t hpb]
      simp only [Res.bind] at h ⊢
      exact (hf a).panic _ _ t h
    | more => rw [hpb] at h; cases h
    | err e' => rw [hpb] at h; cases h
    | panic s' => rw [hpb] at h; rw [hp.panic _ _ t hpb]; exact h
  suffix := by
    intro bs b r h
    simp only [Parser.bind] at h
    cases hpb : p bs with
    | ok a r' =>
      rw [hpb] at h
      simp only [Res.bind] at h
      obtain ⟨c, hc⟩ := hp.suffix _ _ _ hpb
      obtain ⟨c', hc'⟩ := (hf a).suffix _ _ _ h
      exact ⟨c ++ c', by rw [hc, hc', List.append_assoc]⟩
    | more => rw [hpb] at h; cases h
    | err e' => rw [hpb] at h; cases h
    | panic s' => rw [hpb] at h; cases h

theorem bind' {p : Parser ε α} {f : α → Parser ε β} (hp : Extends p) (hf : ∀ a, Extends (f a)) :
    Extends (p >>= f) := bind hp hf

theorem mapErr {p : Parser ε α} (g : ε → ε') (hp : Extends p) : Extends (Parser.mapErr g p) where
  ok := by
    intro bs a r t h
    simp only [Parser.mapErr] at h ⊢
    cases hpb : p bs with
    | ok a' r' => rw [hpb] at h; rw [hp.ok _ _ _ t hpb]; simp only [Res.mapErr] at h ⊢; cases h; rfl
    | more => rw [hpb] at h; cases h
    | err e' => rw [hpb] at h; cases h
    | panic s' => rw [hpb] at h; cases h
  err := by
    intro bs e t h
    simp only [Parser.mapErr] at h ⊢
    cases hpb : p bs with
    | ok a' r' => rw [hpb] at h; cases h
    | more => rw [hpb] at h; cases h
    | err e' => rw [hpb] at h; rw [hp.err _ _ t hpb]; exact h
    | panic s' => rw [hpb] at h; cases h
  panic := by
    intro bs s t h
    simp only [Parser.mapErr] at h ⊢
    cases hpb : p bs with
    | ok a' r' => rw [hpb] at h; cases h
    | more => rw [hpb] at h; cases h
    | err e' => rw [hpb] at h; cases h
    | panic s' => rw [hpb] at h; rw [hp.panic _ _ t hpb]; exact h
  suffix := by
    intro bs a r h
    simp only [Parser.mapErr] at h
    cases hpb : p bs with
    | ok a' r' => rw [hpb] at h; simp only [Res.mapErr] at h; cases h; exact hp.suffix _ _ _ hpb
    | more => rw [hpb] at h; cases h
    | err e' => rw [hpb] at h; cases h
    | panic s' => rw [hpb] at h; cases h

theorem ite {c : Prop} [Decidable c] {p q : Parser ε α} (hp : Extends p) (hq : Extends q) :
    Extends (if c then p else q) := by
  split <;> assumption

theorem dite {c : Prop} [Decidable c] {p : c → Parser ε α} {q : ¬c → Parser ε α}
    (hp : ∀ h, Extends (p h)) (hq : ∀ h, Extends (q h)) :
    Extends (if h : c then p h else q h) := by
  split
  · exact hp _
  · exact hq _

theorem take (n : Nat) : Extends (Mqtt.take n : Parser ε Bytes) where
  ok := by
    intro bs a r t h
    simp only [Mqtt.take] at h ⊢
    split at h
    · rename_i hle
      cases h
      have : n ≤ (bs ++ t).length := by rw [List.length_append]; omega
      rw [if_pos this, List.take_append_of_le_length hle, List.drop_append_of_le_length hle]
    · cases h
  err := by intro bs e t h; simp only [Mqtt.take] at h; split at h <;> cases h
  panic := by intro bs e t h; simp only [Mqtt.take] at h; split at h <;> cases h
  suffix := by
    intro bs a r h
    simp only [Mqtt.take] at h
    split at h
    · cases h; exact ⟨_, (List.take_append_drop n bs).symm⟩
    · cases h

theorem readU8 : Extends (Mqtt.readU8 : Parser ε UInt8) where
  ok := by
    intro bs a r t h
    cases bs with
    | nil => cases h
    | cons b rest => simp only [Mqtt.readU8] at h; cases h; rfl
  err := by intro bs e t h; cases bs <;> cases h
  panic := by intro bs e t h; cases bs <;> cases h
  suffix := by
    intro bs a r h
    cases bs with
    | nil => cases h
    | cons b rest => simp only [Mqtt.readU8] at h; cases h; exact ⟨[_], rfl⟩

theorem readU16 : Extends (Mqtt.readU16 : Parser ε UInt16) where
  ok := by
    intro bs a r t h
    match bs, h with
    | hi :: lo :: rest, h => simp only [Mqtt.readU16] at h; cases h; rfl
    | [], h => cases h
    | [_], h => cases h
  err := by
    intro bs e t h
    match bs, h with
    | _ :: _ :: _, h => cases h
    | [], h => cases h
    | [_], h => cases h
  panic := by
    intro bs e t h
    match bs, h with
    | _ :: _ :: _, h => cases h
    | [], h => cases h
    | [_], h => cases h
  suffix := by
    intro bs a r h
    match bs, h with
    | hi :: lo :: rest, h => simp only [Mqtt.readU16] at h; cases h; exact ⟨[hi, lo], rfl⟩
    | [], h => cases h
    | [_], h => cases h

theorem readU32 : Extends (Mqtt.readU32 : Parser ε UInt32) where
  ok := by
    intro bs a r t h
    match bs, h with
    | _ :: _ :: _ :: _ :: rest, h => simp only [Mqtt.readU32] at h; cases h; rfl
    | [], h => cases h
    | [_], h => cases h
    | [_, _], h => cases h
    | [_, _, _], h => cases h
  err := by
    intro bs e t h
    match bs, h with
    | _ :: _ :: _ :: _ :: _, h => cases h
    | [], h => cases h
    | [_], h => cases h
    | [_, _], h => cases h
    | [_, _, _], h => cases h
  panic := by
    intro bs e t h
    match bs, h with
    | _ :: _ :: _ :: _ :: _, h => cases h
    | [], h => cases h
    | [_], h => cases h
    | [_, _], h => cases h
    | [_, _, _], h => cases h
  suffix := by
    intro bs a r h
    match bs, h with
    | b0 :: b1 :: b2 :: b3 :: rest, h =>
      simp only [Mqtt.readU32] at h; cases h; exact ⟨[b0, b1, b2, b3], rfl⟩
    | [], h => cases h
    | [_], h => cases h
    | [_, _], h => cases h
    | [_, _, _], h => cases h

end Extends

/-- A `match` on a `Res` that only propagates the non-`ok` outcomes is a `bind`. -/
theorem Res.match_eq_bind {ε α β : Type} (r : Res ε α) (f : α → Bytes → Res ε β) :
    (match r with
      | .ok a rest => f a rest
      | .more => .more
      | .err e => .err e
      | .panic s => .panic s) = r.bind f := by
  cases r <;> rfl

theorem readBytes_eq_bind {ε : Type} :
    (readBytes : Parser ε Bytes) = Parser.bind readU16 (fun n => take n.toNat) := by
  funext bs
  simp only [readBytes, Parser.bind]
  cases readU16 (ε := ε) bs <;> rfl

namespace Extends
variable {ε ε' α β : Type}

theorem readBytes : Extends (Mqtt.readBytes : Parser ε Bytes) := by
  rw [readBytes_eq_bind]
  exact bind readU16 (fun _ => take _)

theorem liftExcept (x : Except ε α) : Extends (Mqtt.liftExcept x) := by
  cases x with
  | ok a => exact pure a
  | error e => exact fail e

theorem checkedSub (x y : Nat) (e : ε) : Extends (Mqtt.checkedSub x y e) := by
  unfold Mqtt.checkedSub
  exact ite (pure _) (fail _)

/-- A parser given pointwise as a bind. -/
theorem of_eq {p q : Parser ε α} (h : p = q) (hq : Extends q) : Extends p := h ▸ hq

end Extends

/-! ### the prefix lemma and suffix independence -/

theorem Extends.ignores_suffix {ε α : Type} {P : Parser ε α} (hP : Extends P)
    (bs t : Bytes) (a : α) (h : P bs = .ok a []) : P (bs ++ t) = .ok a t := by
  simpa using hP.ok bs a [] t h

theorem Extends.strict_prefix_is_more {ε α : Type} {P : Parser ε α} (hP : Extends P)
    (bs : Bytes) (a : α) (h : P bs = .ok a []) (k : Nat) (hk : k < bs.length) :
    P (bs.take k) = .more := by
  have hbs : bs.take k ++ bs.drop k = bs := List.take_append_drop k bs
  cases hpk : P (bs.take k) with
  | more => rfl
  | ok a' r' =>
    have h2 := hP.ok _ _ _ (bs.drop k) hpk
    rw [hbs, h] at h2
    injection h2 with _ hr
    have hlen : (r' ++ bs.drop k).length = 0 := by rw [← hr]; rfl
    rw [List.length_append, List.length_drop] at hlen
    omega
  | err e =>
    have h2 := hP.err _ _ (bs.drop k) hpk
    rw [hbs, h] at h2
    cases h2
  | panic s =>
    have h2 := hP.panic _ _ (bs.drop k) hpk
    rw [hbs, h] at h2
    cases h2

/-! ### no-panic algebra -/

/-- The reader never panics. -/
structure NoPanic {ε α : Type} (P : Parser ε α) : Prop where
  np : ∀ bs site, P bs ≠ .panic site

namespace NoPanic
variable {ε ε' α β : Type}

theorem pure (a : α) : NoPanic (Parser.pure a : Parser ε α) :=
  ⟨by intro bs s h; cases h⟩

theorem pure' (a : α) : NoPanic (Pure.pure a : Parser ε α) := pure a

theorem fail (e : ε) : NoPanic (Parser.fail e : Parser ε α) :=
  ⟨by intro bs s h; cases h⟩

/-- `bind`, where the continuation only has to be safe on values `p` can return. -/
theorem bind_of {p : Parser ε α} {f : α → Parser ε β} (hp : NoPanic p)
    (hf : ∀ a bs r, p bs = .ok a r → NoPanic (f a)) : NoPanic (Parser.bind p f) := by
  constructor
  intro bs s h
  simp only [Parser.bind] at h
  cases hpb : p bs with
  | ok a r => rw [hpb] at h; exact (hf a bs r hpb).np r s h
  | more => rw [hpb] at h; cases h
  | err e => rw [hpb] at h; cases h
  | panic s' => exact hp.np bs s' hpb

theorem bind {p : Parser ε α} {f : α → Parser ε β} (hp : NoPanic p) (hf : ∀ a, NoPanic (f a)) :
    NoPanic (Parser.bind p f) := bind_of hp (fun a _ _ _ => hf a)

theorem bind' {p : Parser ε α} {f : α → Parser ε β} (hp : NoPanic p) (hf : ∀ a, NoPanic (f a)) :
    NoPanic (p >>= f) := bind hp hf

theorem mapErr {p : Parser ε α} (g : ε → ε') (hp : NoPanic p) : NoPanic (Parser.mapErr g p) := by
  constructor
  intro bs s h
  simp only [Parser.mapErr] at h
  cases hpb : p bs with
  | ok a r => rw [hpb] at h; cases h
  | more => rw [hpb] at h; cases h
  | err e => rw [hpb] at h; cases h
  | panic s' => exact hp.np bs s' hpb

theorem ite {c : Prop} [Decidable c] {p q : Parser ε α} (hp : NoPanic p) (hq : NoPanic q) :
    NoPanic (if c then p else q) := by
  split <;> assumption

theorem take (n : Nat) : NoPanic (Mqtt.take n : Parser ε Bytes) :=
  ⟨by intro bs s h; simp only [Mqtt.take] at h; split at h <;> cases h⟩

theorem readU8 : NoPanic (Mqtt.readU8 : Parser ε UInt8) :=
  ⟨by intro bs s h; cases bs <;> cases h⟩

theorem readU16 : NoPanic (Mqtt.readU16 : Parser ε UInt16) := by
  constructor
  intro bs s h
  match bs, h with
  | _ :: _ :: _, h => cases h
  | [], h => cases h
  | [_], h => cases h

theorem readU32 : NoPanic (Mqtt.readU32 : Parser ε UInt32) := by
  constructor
  intro bs s h
  match bs, h with
  | _ :: _ :: _ :: _ :: _, h => cases h
  | [], h => cases h
  | [_], h => cases h
  | [_, _], h => cases h
  | [_, _, _], h => cases h

theorem readBytes : NoPanic (Mqtt.readBytes : Parser ε Bytes) := by
  rw [readBytes_eq_bind]
  exact bind readU16 (fun _ => take _)

theorem liftExcept (x : Except ε α) : NoPanic (Mqtt.liftExcept x) := by
  cases x with
  | ok a => exact pure a
  | error e => exact fail e

theorem checkedSub (x y : Nat) (e : ε) : NoPanic (Mqtt.checkedSub x y e) := by
  unfold Mqtt.checkedSub
  exact ite (pure _) (fail _)

end NoPanic

/-- `take n` returns exactly `n` bytes. -/
theorem take_ok_length {ε : Type} {n : Nat} {bs l r : Bytes}
    (h : (take n : Parser ε Bytes) bs = .ok l r) : l.length = n := by
  simp only [take] at h
  split at h
  · cases h; rw [List.length_take]; omega
  · cases h

end Mqtt

