/-
  C04 (v5): the model's body decoders against the specification's
  parse ▸ validate ▸ project, on an exact body.

  Every packet type gets a "shape": the cut of the body into its fields, with the property
  section abstracted as a relation `R bs ps rest` ("the section at the head of `bs` has the
  property set `ps` and is followed by `rest`").  The model's decoder is that shape with
  `R` = `decodeProps … = .ok ps rest`; the specification is that shape with `R` = parse,
  validate, project; the two readings of `R` are related by Proofs/V5SpecProps.
-/
import Proofs.V5SpecProps

set_option linter.unusedSimpArgs false
set_option linter.unusedVariables false

namespace Mqtt.V5
open Mqtt

/-! ## the specification's body parser -/

/-- The fields of a body (`Spec.fieldsV5` only looks at type, flags and body of the frame). -/
def fieldsOf5 (m : Bool) (t : Spec.PType) (flags : UInt8) (b : Bytes) : Option (List Spec.Field) :=
  Spec.fieldsV5 m ⟨t, flags, b, 0⟩

theorem fieldsV5_eq (m : Bool) (fr : Spec.Frame) :
    Spec.fieldsV5 m fr = fieldsOf5 m fr.ptype fr.flags fr.body := rfl

/-- parse ▸ validate ▸ project on an exact body. -/
def specBody5 (m : Bool) (t : Spec.PType) (flags : UInt8) (b : Bytes) : Option Spec.PacketV5 :=
  (fieldsOf5 m t flags b).bind fun fs =>
    if Spec.validV5 t flags fs then Spec.projectV5 t flags fs else none

theorem specBody5_eq_some_iff (m : Bool) (t : Spec.PType) (flags : UInt8) (b : Bytes)
    (sp : Spec.PacketV5) :
    specBody5 m t flags b = some sp ↔
      ∃ fs, fieldsOf5 m t flags b = some fs ∧ Spec.validV5 t flags fs = true ∧
        Spec.projectV5 t flags fs = some sp := by
  unfold specBody5
  simp only [Option.bind_eq_some_iff]
  constructor
  · rintro ⟨fs, hf, h⟩
    by_cases hv : Spec.validV5 t flags fs = true
    · rw [if_pos hv] at h; exact ⟨fs, hf, hv, h⟩
    · rw [if_neg hv] at h; cases h
  · rintro ⟨fs, hf, hv, h⟩
    exact ⟨fs, hf, by rw [if_pos hv]; exact h⟩

theorem fieldsOf5_eq (m : Bool) (t : Spec.PType) (flags : UInt8) (b : Bytes) (ht : t ≠ .connect) :
    fieldsOf5 m t flags b = Spec.parseBody m (Spec.layoutV5 t flags b.length) b := by
  unfold fieldsOf5 Spec.fieldsV5
  simp only []
  cases Spec.parseBody m (Spec.layoutV5 t flags b.length) b with
  | none => rfl
  | some fs =>
    cases t <;> first | exact absurd rfl ht | rfl

theorem parseBody_iff (m : Bool) (layout : List Spec.Item) (b : Bytes) (fs : List Spec.Field) :
    Spec.parseBody m layout b = some fs ↔ Spec.parseItems m layout b = some (fs, []) := by
  unfold Spec.parseBody
  cases Spec.parseItems m layout b with
  | none => simp
  | some x =>
    obtain ⟨fs', left⟩ := x
    cases left with
    | nil => simp
    | cons y ys => simp

theorem parseItems_props (m : Bool) (is : List Spec.Item) (bs : Bytes) :
    Spec.parseItems m (.props :: is) bs =
      (Spec.parseProps m bs).bind fun x =>
        (Spec.parseItems m is x.2).bind fun y => some (.props x.1 :: y.1, y.2) := by
  rw [Spec.parseItems]; rfl

theorem parseItems_rest (m : Bool) (is : List Spec.Item) (bs : Bytes) :
    Spec.parseItems m (.rest :: is) bs =
      (Spec.parseItems m is []).bind fun y => some (.rest bs :: y.1, y.2) := by
  rw [Spec.parseItems]; rfl

theorem parseItems_many (m : Bool) (row : List Spec.WireType) (is : List Spec.Item) (bs : Bytes) :
    Spec.parseItems m (.many row :: is) bs =
      (Spec.parseRows m row bs.length bs).bind fun rows =>
        (Spec.parseItems m is []).bind fun y => some (.many rows :: y.1, y.2) := by
  rw [Spec.parseItems]; rfl

theorem parseItems_props_last (m : Bool) (bs : Bytes) (x : List Spec.Field × Bytes) :
    Spec.parseItems m [.props] bs = some x ↔
      ∃ raw, Spec.parseProps m bs = some (raw, x.2) ∧ x.1 = [.props raw] := by
  obtain ⟨fs, t⟩ := x
  rw [parseItems_props]
  simp only [V3.parseItems_nil, Option.bind_some, Option.bind_eq_some_iff, Option.some.injEq,
    Prod.mk.injEq]
  constructor
  · rintro ⟨⟨raw, r⟩, hp, rfl, rfl⟩; exact ⟨raw, hp, rfl⟩
  · rintro ⟨raw, hp, rfl⟩; exact ⟨(raw, t), hp, rfl, rfl⟩

/-! ## relations for the property section -/

abbrev PRel := Bytes → Props → Bytes → Prop

/-- The model: `decode_properties!` accepts. -/
def ModelR (ctx : PropCtx) (allowed : List UInt8) : PRel :=
  fun bs ps rest => decodeProps ctx allowed bs = .ok ps rest

/-- The model, where the enclosing decoder goes on with `remaining − properties.encode_len()`
and comes out even: the bytes consumed are those accounted for. -/
def ModelRA (ctx : PropCtx) (allowed : List UInt8) : PRel :=
  fun bs ps rest => decodeProps ctx allowed bs = .ok ps rest ∧
    ps.encodeLen allowed = .ok (bs.length - rest.length) ∧ rest.length ≤ bs.length

/-- The specification: parse (minimal integers iff `m`), validate, project. -/
def SpecR (m : Bool) (owner : Option Spec.PType) : PRel :=
  fun bs ps rest => ∃ raw, Spec.parseProps m bs = some (raw, rest) ∧
    (∀ x ∈ raw, tlvOk owner x = true) ∧ StrictNR (raw.map (·.1)) ∧ ps = Spec.toProps raw

theorem specR_modelRA {owner : Option Spec.PType} {allowed : List UInt8} (hl : PropList owner allowed)
    (ctx : PropCtx) {bs : Bytes} {ps : Props} {rest : Bytes} (h : SpecR true owner bs ps rest) :
    ModelRA ctx allowed bs ps rest := by
  obtain ⟨raw, hp, hok, hnr, rfl⟩ := h
  exact decodeProps_forward hl ctx bs raw rest hp hok hnr

theorem specR_modelR {owner : Option Spec.PType} {allowed : List UInt8} (hl : PropList owner allowed)
    (ctx : PropCtx) {bs : Bytes} {ps : Props} {rest : Bytes} (h : SpecR true owner bs ps rest) :
    ModelR ctx allowed bs ps rest := (specR_modelRA hl ctx h).1

theorem modelRA_specR {owner : Option Spec.PType} {allowed : List UInt8} (hl : PropList owner allowed)
    (ctx : PropCtx) {bs : Bytes} {ps : Props} {rest : Bytes} (h : ModelRA ctx allowed bs ps rest) :
    SpecR false owner bs ps rest :=
  decodeProps_sound hl ctx bs ps rest h.1 (.inr h.2.1)

theorem modelR_specR {owner : Option Spec.PType} {allowed : List UInt8} (hl : PropList owner allowed)
    (h0 : allowed.contains 0x0B = false)
    (ctx : PropCtx) {bs : Bytes} {ps : Props} {rest : Bytes} (h : ModelR ctx allowed bs ps rest) :
    SpecR false owner bs ps rest :=
  decodeProps_sound hl ctx bs ps rest h (.inl h0)

/-- Validation of a property section of a packet other than PUBLISH. -/
theorem specR_valid (owner : Option Spec.PType) (ho : owner ≠ some .publish) (raw : List Spec.RawProp) :
    ((Spec.Field.props raw).propsOk owner = true ∧ (Spec.Field.props raw).textOk = true) ↔
      ((∀ x ∈ raw, tlvOk owner x = true) ∧ StrictNR (raw.map (·.1))) := by
  have h := propsOk_iff owner raw
  simp only [Spec.Field.propsOk]
  rw [h]
  constructor
  · rintro ⟨h1, h2⟩; exact ⟨h1, strict_of_nr owner _ h2 (fun e => absurd e ho)⟩
  · rintro ⟨h1, h2⟩; exact ⟨h1, nr_of_strict owner _ h2⟩

theorem toProps_nil : Spec.toProps [] = Props.empty := rfl

theorem defaultCode_zero (k : Gen.CodeKind) : Gen.defaultCode k = 0 := by cases k <;> rfl

/-! ## PUBACK, PUBREC, PUBREL, PUBCOMP -/

def IsAck (t : Spec.PType) : Prop := t = .puback ∨ t = .pubrec ∨ t = .pubrel ∨ t = .pubcomp

def mkAck : Spec.PType → Ack → Packet
  | .puback => .puback | .pubrec => .pubrec | .pubrel => .pubrel | _ => .pubcomp

/-- Remaining length 2: packet identifier; 3: and reason code; ≥ 4: and properties. -/
def AckShape (R : PRel) (t : Spec.PType) (b : Bytes) (x : Ack) : Prop :=
  (∃ a c, b = [a, c] ∧ be16 a c ≠ 0 ∧ x = ⟨⟨be16 a c⟩, 0, Props.empty⟩) ∨
  (∃ a c d, b = [a, c, d] ∧ be16 a c ≠ 0 ∧ Spec.reasonCodeOk t d = true ∧
    x = ⟨⟨be16 a c⟩, d, Props.empty⟩) ∨
  (∃ a c d e r ps, b = a :: c :: d :: e :: r ∧ be16 a c ≠ 0 ∧ Spec.reasonCodeOk t d = true ∧
    R (e :: r) ps [] ∧ x = ⟨⟨be16 a c⟩, d, ps⟩)

theorem AckShape.mono {R R' : PRel} (h : ∀ bs ps rest, R bs ps rest → R' bs ps rest)
    {t : Spec.PType} {b : Bytes} {x : Ack} (hs : AckShape R t b x) : AckShape R' t b x := by
  rcases hs with h1 | h2 | ⟨a, c, d, e, r, ps, hb, hz, hc, hr, hx⟩
  · exact .inl h1
  · exact .inr (.inl h2)
  · exact .inr (.inr ⟨a, c, d, e, r, ps, hb, hz, hc, h _ _ _ hr, hx⟩)

theorem ackModel {k : Gen.CodeKind} {t : Spec.PType} (hp : ReasonPair k t) (h : Header) (b : Bytes)
    (hrl : h.remainingLen = b.length) (x : Ack) :
    Ack.decode k h b = .ok x [] ↔ AckShape (ModelR (.packet h.typ) ackProps) t b x := by
  unfold Ack.decode AckShape ModelR
  simp only [bind_ok_iff, readPid_ok_iff, defaultCode_zero]
  constructor
  · rintro ⟨pid, r, ⟨a, c, rfl, hz, rfl⟩, h2⟩
    simp only [List.length_cons] at hrl
    by_cases h2l : h.remainingLen = 2
    · simp only [h2l, if_true, pure_ok_iff] at h2
      obtain ⟨rfl, rfl⟩ := h2
      exact .inl ⟨a, c, rfl, hz, rfl⟩
    · by_cases h3l : h.remainingLen = 3
      · rw [if_neg h2l, if_pos h3l] at h2
        simp only [bind_ok_iff, readU8_ok_iff, parseReason_ok_iff hp, pure_ok_iff] at h2
        obtain ⟨d, r', rfl, code, r'', ⟨hc, rfl, rfl⟩, rfl, rfl⟩ := h2
        exact .inr (.inl ⟨a, c, d, rfl, hz, hc, rfl⟩)
      · rw [if_neg h2l, if_neg h3l] at h2
        simp only [bind_ok_iff, readU8_ok_iff, parseReason_ok_iff hp, pure_ok_iff] at h2
        obtain ⟨d, r', rfl, code, r'', ⟨hc, rfl, rfl⟩, ps, r3, hd, rfl, rfl⟩ := h2
        cases r' with
        | nil => simp only [List.length_cons, List.length_nil] at hrl; omega
        | cons e r4 => exact .inr (.inr ⟨a, c, d, e, r4, ps, rfl, hz, hc, hd, rfl⟩)
  · rintro (⟨a, c, rfl, hz, rfl⟩ | ⟨a, c, d, rfl, hz, hc, rfl⟩ | ⟨a, c, d, e, r, ps, rfl, hz, hc, hd, rfl⟩)
    · refine ⟨⟨be16 a c⟩, [], ⟨a, c, rfl, hz, rfl⟩, ?_⟩
      have : h.remainingLen = 2 := hrl
      simp [this]
    · refine ⟨⟨be16 a c⟩, [d], ⟨a, c, rfl, hz, rfl⟩, ?_⟩
      have h3 : h.remainingLen = 3 := hrl
      have h2 : ¬ h.remainingLen = 2 := by omega
      rw [if_neg h2, if_pos h3]
      simp only [bind_ok_iff, readU8_ok_iff, parseReason_ok_iff hp, pure_ok_iff]
      exact ⟨d, [], rfl, d, [], ⟨hc, rfl, rfl⟩, rfl, rfl⟩
    · refine ⟨⟨be16 a c⟩, d :: e :: r, ⟨a, c, rfl, hz, rfl⟩, ?_⟩
      simp only [List.length_cons] at hrl
      have h3 : ¬ h.remainingLen = 3 := by omega
      have h2 : ¬ h.remainingLen = 2 := by omega
      rw [if_neg h2, if_neg h3]
      simp only [bind_ok_iff, readU8_ok_iff, parseReason_ok_iff hp, pure_ok_iff]
      exact ⟨d, e :: r, rfl, d, e :: r, ⟨hc, rfl, rfl⟩, ps, [], hd, rfl, rfl⟩

theorem validV5_ack {t : Spec.PType} (ht : IsAck t) (flags : UInt8) (pid code props : Spec.Field) :
    Spec.validV5 t flags [pid, code, props] =
      ([pid, code, props].all Spec.Field.textOk &&
        (pid.pidOk && code.reasonOk t && props.propsOk (some t))) := by
  rcases ht with rfl | rfl | rfl | rfl <;> rfl

theorem projectV5_ack {t : Spec.PType} (ht : IsAck t) (flags : UInt8) (v : UInt16)
    (code props : Spec.Field) :
    Spec.projectV5 t flags [.val (.u16 v), code, props] =
      some ⟨mkAck t ⟨⟨v⟩, code.byte?.getD 0, props.toProps⟩, []⟩ := by
  rcases ht with rfl | rfl | rfl | rfl <;> rfl

theorem layoutV5_ack {t : Spec.PType} (ht : IsAck t) (flags : UInt8) (len : Nat) :
    Spec.layoutV5 t flags len =
      [.val .u16, if len < 3 then .absent else .val .byte, if len < 4 then .absent else .props] := by
  rcases ht with rfl | rfl | rfl | rfl <;> rfl

theorem isAck_ne_connect {t : Spec.PType} (ht : IsAck t) : t ≠ .connect := by
  rcases ht with rfl | rfl | rfl | rfl <;> simp

theorem isAck_ne_publish {t : Spec.PType} (ht : IsAck t) : some t ≠ some Spec.PType.publish := by
  rcases ht with rfl | rfl | rfl | rfl <;> simp

theorem textOk_u16 (v : UInt16) : (Spec.Field.val (.u16 v)).textOk = true := rfl
theorem textOk_byte (v : UInt8) : (Spec.Field.val (.byte v)).textOk = true := rfl
theorem textOk_absent : Spec.Field.absent.textOk = true := rfl
theorem pidOk_u16 (v : UInt16) : (Spec.Field.val (.u16 v)).pidOk = decide (v ≠ 0) := rfl

theorem ackSpec (m : Bool) {t : Spec.PType} (ht : IsAck t) (flags : UInt8) (b : Bytes)
    (sp : Spec.PacketV5) :
    specBody5 m t flags b = some sp ↔
      ∃ x, AckShape (SpecR m (some t)) t b x ∧ sp = ⟨mkAck t x, []⟩ := by
  rw [specBody5_eq_some_iff]
  simp only [fieldsOf5_eq m t flags b (isAck_ne_connect ht), layoutV5_ack ht, parseBody_iff]
  unfold AckShape
  match b with
  | [] => simp [V3.parseItems_val, V3.parseWire_u16_nil]
  | [a] => simp [V3.parseItems_val, V3.parseWire_u16_one]
  | [a, c] =>
    simp only [List.length_cons, List.length_nil, V3.parseItems_val, V3.parseWire_u16,
      V3.parseItems_absent, V3.parseItems_nil, Option.bind_some, List.map_cons, List.map_nil,
      List.cons_append, List.nil_append, Option.some.injEq, Prod.mk.injEq, and_true,
      Nat.reduceLT, Nat.reduceAdd, if_true]
    constructor
    · rintro ⟨fs, rfl, hv, hpj⟩
      rw [validV5_ack ht] at hv
      rw [projectV5_ack ht] at hpj
      simp only [List.all_cons, List.all_nil, textOk_u16, textOk_absent, Bool.and_true,
        Bool.true_and, pidOk_u16, Spec.Field.reasonOk, Spec.Field.propsOk, Bool.and_eq_true,
        decide_eq_true_eq] at hv
      cases hpj
      exact ⟨_, .inl ⟨a, c, rfl, hv, rfl⟩, rfl⟩
    · rintro ⟨x, (⟨a', c', hb, hz, rfl⟩ | ⟨a', c', d, hb, -⟩ | ⟨a', c', d, e, r, ps, hb, -⟩), rfl⟩
      · simp only [List.cons.injEq, and_true] at hb
        obtain ⟨rfl, rfl⟩ := hb
        refine ⟨_, rfl, ?_, ?_⟩
        · rw [validV5_ack ht]
          simp [textOk_u16, textOk_absent, pidOk_u16, Spec.Field.reasonOk, Spec.Field.propsOk, hz]
        · rw [projectV5_ack ht]; rfl
      · simp at hb
      · simp at hb
  | [a, c, d] =>
    simp only [List.length_cons, List.length_nil, V3.parseItems_val, V3.parseWire_u16,
      V3.parseWire_byte, V3.parseItems_absent, V3.parseItems_nil, Option.bind_some, List.map_cons,
      List.map_nil, List.cons_append, List.nil_append, Option.some.injEq, Prod.mk.injEq, and_true,
      Nat.reduceLT, Nat.reduceAdd, if_true, if_false, Nat.lt_irrefl]
    constructor
    · rintro ⟨fs, rfl, hv, hpj⟩
      rw [validV5_ack ht] at hv
      rw [projectV5_ack ht] at hpj
      simp only [List.all_cons, List.all_nil, textOk_u16, textOk_absent, textOk_byte, Bool.and_true,
        Bool.true_and, pidOk_u16, Spec.Field.reasonOk, Spec.Field.propsOk, Bool.and_eq_true,
        decide_eq_true_eq] at hv
      cases hpj
      exact ⟨_, .inr (.inl ⟨a, c, d, rfl, hv.1, hv.2, rfl⟩), rfl⟩
    · rintro ⟨x, (⟨a', c', hb, -⟩ | ⟨a', c', d', hb, hz, hc, rfl⟩ | ⟨a', c', d', e, r, ps, hb, -⟩), rfl⟩
      · simp at hb
      · simp only [List.cons.injEq, and_true] at hb
        obtain ⟨rfl, rfl, rfl⟩ := hb
        refine ⟨_, rfl, ?_, ?_⟩
        · rw [validV5_ack ht]
          simp [textOk_u16, textOk_absent, textOk_byte, pidOk_u16, Spec.Field.reasonOk,
            Spec.Field.propsOk, hz, hc]
        · rw [projectV5_ack ht]; rfl
      · simp at hb
  | a :: c :: d :: e :: r =>
    have hl3 : ¬ (r.length + 1 + 1 + 1 + 1 < 3) := by omega
    have hl4 : ¬ (r.length + 1 + 1 + 1 + 1 < 4) := by omega
    simp only [List.length_cons, hl3, hl4, if_false, V3.parseItems_val, V3.parseWire_u16,
      V3.parseWire_byte, Option.bind_some, List.map_cons, List.map_nil, List.cons_append,
      List.nil_append, Option.bind_eq_some_iff, Option.some.injEq, Prod.mk.injEq,
      parseItems_props_last]
    constructor
    · rintro ⟨fs, ⟨a1, ⟨⟨fs2, t2⟩, ⟨raw, hpp, hfs2⟩, rfl⟩, rfl, ht2⟩, hv, hpj⟩
      simp only [] at hfs2 hpp ht2
      subst hfs2 ht2
      rw [validV5_ack ht] at hv
      rw [projectV5_ack ht] at hpj
      simp only [List.all_cons, List.all_nil, textOk_u16, textOk_byte, Bool.and_true,
        Bool.true_and, pidOk_u16, Spec.Field.reasonOk, Bool.and_eq_true,
        decide_eq_true_eq] at hv
      obtain ⟨htx, ⟨hz, hc⟩, hpo⟩ := hv
      obtain ⟨hok, hnr⟩ := (specR_valid (some t) (isAck_ne_publish ht) raw).mp ⟨hpo, htx⟩
      cases hpj
      exact ⟨_, .inr (.inr ⟨a, c, d, e, r, _, rfl, hz, hc, ⟨raw, hpp, hok, hnr, rfl⟩, rfl⟩), rfl⟩
    · rintro ⟨x, (⟨a', c', hb, -⟩ | ⟨a', c', d', hb, -⟩ |
        ⟨a', c', d', e', r', ps, hb, hz, hc, ⟨raw, hpp, hok, hnr, rfl⟩, rfl⟩), rfl⟩
      · simp at hb
      · simp at hb
      · simp only [List.cons.injEq] at hb
        obtain ⟨rfl, rfl, rfl, rfl, rfl⟩ := hb
        obtain ⟨hpo, htx⟩ := (specR_valid (some t) (isAck_ne_publish ht) raw).mpr ⟨hok, hnr⟩
        refine ⟨_, ⟨_, ⟨(_, []), ⟨raw, hpp, rfl⟩, rfl⟩, rfl, rfl⟩, ?_, ?_⟩
        · rw [validV5_ack ht]
          simp [textOk_u16, textOk_byte, pidOk_u16, Spec.Field.reasonOk, hz, hc, hpo, htx]
        · rw [projectV5_ack ht]; rfl

/-! ## what the strict decoder does after the fixed header -/

def ModelBody5 (debug : Bool) (h : Header) (b : Bytes) (p : Packet) : Prop :=
  (buildEmptyPacket h = some p ∧ b = []) ∨
  (buildEmptyPacket h = none ∧ b ≠ [] ∧ blockDecode debug h b = .ok p [])

theorem wrap_ok_iff {α : Type} (D : Parser ErrorV5 α) (mk : α → Packet) (b : Bytes) (p : Packet) :
    (do let x ← D; pure (mk x) : Parser ErrorV5 Packet) b = .ok p [] ↔
      ∃ x, D b = .ok x [] ∧ p = mk x := by
  simp only [bind_ok_iff, pure_ok_iff]
  constructor
  · rintro ⟨x, r, hd, rfl, rfl⟩; exact ⟨x, hd, rfl⟩
  · rintro ⟨x, hd, rfl⟩; exact ⟨x, [], hd, rfl, rfl⟩

/-! ## CONNACK -/

def ConnackShape (R : PRel) (b : Bytes) (x : Connack) : Prop :=
  ∃ f c r ps, b = f :: c :: r ∧ (f = 0 ∨ f = 1) ∧ Spec.reasonCodeOk .connack c = true ∧
    R r ps [] ∧ x = ⟨decide (f = 1), c, ps⟩

theorem ConnackShape.mono {R R' : PRel} (h : ∀ bs ps rest, R bs ps rest → R' bs ps rest)
    {b : Bytes} {x : Connack} (hs : ConnackShape R b x) : ConnackShape R' b x := by
  obtain ⟨f, c, r, ps, hb, hf, hc, hr, hx⟩ := hs
  exact ⟨f, c, r, ps, hb, hf, hc, h _ _ _ hr, hx⟩

theorem connackModel (h : Header) (b : Bytes) (x : Connack) :
    Connack.decode h b = .ok x [] ↔ ConnackShape (ModelR (.packet h.typ) connackProps) b x := by
  unfold ConnackShape ModelR
  match b with
  | [] => simp [Connack.decode, take]
  | [f] => simp [Connack.decode, take]
  | f :: c :: r =>
    have htk : take (ε := ErrorV5) 2 (f :: c :: r) = .ok [f, c] r := by simp [take]
    unfold Connack.decode
    rw [Parser.bind_apply, htk]
    simp only [Res.bind_ok]
    by_cases hf : f = 0 ∨ f = 1
    · rw [if_pos hf]
      simp only [bind_ok_iff, parseReason_ok_iff reason_connack, pure_ok_iff]
      constructor
      · rintro ⟨code, r', ⟨hc, rfl, rfl⟩, ps, r2, hd, rfl, rfl⟩
        exact ⟨f, c, r, ps, rfl, hf, hc, hd, rfl⟩
      · rintro ⟨f', c', r', ps, hb, -, hc, hd, rfl⟩
        simp only [List.cons.injEq] at hb
        obtain ⟨rfl, rfl, rfl⟩ := hb
        exact ⟨c, r, ⟨hc, rfl, rfl⟩, ps, [], hd, rfl, rfl⟩
    · rw [if_neg hf]
      simp only [Parser.fail_apply, reduceCtorEq, false_iff]
      rintro ⟨f', c', r', ps, hb, hf', -⟩
      simp only [List.cons.injEq] at hb
      obtain ⟨rfl, rfl, rfl⟩ := hb
      exact hf hf'

theorem connackSpec (m : Bool) (flags : UInt8) (b : Bytes) (sp : Spec.PacketV5) :
    specBody5 m .connack flags b = some sp ↔
      ∃ x, ConnackShape (SpecR m (some .connack)) b x ∧ sp = ⟨.connack x, []⟩ := by
  rw [specBody5_eq_some_iff]
  simp only [fieldsOf5_eq m .connack flags b (by simp), Spec.layoutV5, parseBody_iff]
  unfold ConnackShape
  match b with
  | [] => simp [V3.parseItems_val, V3.parseWire_byte_nil]
  | [f] => simp [V3.parseItems_val, V3.parseWire_byte, V3.parseWire_byte_nil]
  | f :: c :: r =>
    simp only [V3.parseItems_val, V3.parseWire_byte, Option.bind_some, List.map_cons, List.map_nil,
      List.cons_append, List.nil_append, Option.bind_eq_some_iff, Option.some.injEq, Prod.mk.injEq,
      parseItems_props_last]
    constructor
    · rintro ⟨fs, ⟨a1, ⟨⟨fs2, t2⟩, ⟨raw, hpp, hfs2⟩, rfl⟩, rfl, ht2⟩, hv, hpj⟩
      simp only [] at hfs2 hpp ht2
      subst hfs2 ht2
      simp only [Spec.validV5, List.all_cons, List.all_nil, textOk_byte, Bool.and_true,
        Bool.true_and, Bool.and_eq_true, decide_eq_true_eq] at hv
      obtain ⟨htx, ⟨hf, hc⟩, hpo⟩ := hv
      obtain ⟨hok, hnr⟩ := (specR_valid (some .connack) (by simp) raw).mp ⟨hpo, htx⟩
      simp only [Spec.projectV5, Option.some.injEq] at hpj
      have hf' := (V3.connack_ack f).mp hf
      have hb : Spec.bit f 0 = decide (f = 1) := by rcases hf' with rfl | rfl <;> decide
      subst hpj
      exact ⟨_, ⟨f, c, r, _, rfl, hf', hc, ⟨raw, hpp, hok, hnr, rfl⟩, rfl⟩, by rw [hb]; rfl⟩
    · rintro ⟨x, ⟨f', c', r', ps, hb, hf, hc, ⟨raw, hpp, hok, hnr, rfl⟩, rfl⟩, rfl⟩
      simp only [List.cons.injEq] at hb
      obtain ⟨rfl, rfl, rfl⟩ := hb
      obtain ⟨hpo, htx⟩ := (specR_valid (some .connack) (by simp) raw).mpr ⟨hok, hnr⟩
      have hb : Spec.bit f 0 = decide (f = 1) := by rcases hf with rfl | rfl <;> decide
      refine ⟨_, ⟨_, ⟨(_, []), ⟨raw, hpp, rfl⟩, rfl⟩, rfl, rfl⟩, ?_, ?_⟩
      · simp [Spec.validV5, textOk_byte, (V3.connack_ack f).mpr hf, hc, hpo, htx]
      · simp only [Spec.projectV5, hb]; rfl

/-! ## DISCONNECT -/

/-- Remaining length 0: reason 0x00; 1: reason code; ≥ 2: and properties. -/
def DisconnectShape (R : PRel) (b : Bytes) (x : Disconnect) : Prop :=
  (b = [] ∧ x = ⟨0, Props.empty⟩) ∨
  (∃ d, b = [d] ∧ Spec.reasonCodeOk .disconnect d = true ∧ x = ⟨d, Props.empty⟩) ∨
  (∃ d e r ps, b = d :: e :: r ∧ Spec.reasonCodeOk .disconnect d = true ∧ R (e :: r) ps [] ∧
    x = ⟨d, ps⟩)

theorem DisconnectShape.mono {R R' : PRel} (h : ∀ bs ps rest, R bs ps rest → R' bs ps rest)
    {b : Bytes} {x : Disconnect} (hs : DisconnectShape R b x) : DisconnectShape R' b x := by
  rcases hs with h1 | h2 | ⟨d, e, r, ps, hb, hc, hr, hx⟩
  · exact .inl h1
  · exact .inr (.inl h2)
  · exact .inr (.inr ⟨d, e, r, ps, hb, hc, h _ _ _ hr, hx⟩)

theorem modelBody_nonempty (debug : Bool) (h : Header) (b : Bytes) (p : Packet)
    (hbe : buildEmptyPacket h = none) :
    ModelBody5 debug h b p ↔ b ≠ [] ∧ blockDecode debug h b = .ok p [] := by
  unfold ModelBody5; rw [hbe]; simp

theorem modelBody_buildEmpty (debug : Bool) (h : Header) (b : Bytes) (p q : Packet)
    (hbe : buildEmptyPacket h = some q) :
    ModelBody5 debug h b p ↔ q = p ∧ b = [] := by
  unfold ModelBody5; rw [hbe]; simp

theorem disconnectDecode (h : Header) (b : Bytes) (hrl : h.remainingLen = b.length) (hne : b ≠ [])
    (x : Disconnect) :
    Disconnect.decode h b = .ok x [] ↔
      DisconnectShape (ModelR (.packet h.typ) disconnectProps) b x := by
  unfold DisconnectShape ModelR
  have h0 : ¬ h.remainingLen = 0 := by
    rw [hrl]; intro h0; exact hne (List.length_eq_zero_iff.mp h0)
  unfold Disconnect.decode
  rw [if_neg h0]
  constructor
  · intro hd
    by_cases h1 : h.remainingLen = 1
    · rw [if_pos h1] at hd
      simp only [bind_ok_iff, readU8_ok_iff, parseReason_ok_iff reason_disconnect, pure_ok_iff] at hd
      obtain ⟨d, r', rfl, code, r'', ⟨hc, rfl, rfl⟩, rfl, rfl⟩ := hd
      exact .inr (.inl ⟨d, rfl, hc, rfl⟩)
    · rw [if_neg h1] at hd
      simp only [bind_ok_iff, readU8_ok_iff, parseReason_ok_iff reason_disconnect, pure_ok_iff] at hd
      obtain ⟨d, r', rfl, code, r'', ⟨hc, rfl, rfl⟩, ps, r3, hdp, rfl, rfl⟩ := hd
      cases r' with
      | nil => exact absurd hrl h1
      | cons e r4 => exact .inr (.inr ⟨d, e, r4, ps, rfl, hc, hdp, rfl⟩)
  · rintro (⟨rfl, -⟩ | ⟨d, rfl, hc, rfl⟩ | ⟨d, e, r, ps, rfl, hc, hdp, rfl⟩)
    · exact absurd rfl hne
    · have h1 : h.remainingLen = 1 := hrl
      rw [if_pos h1]
      simp only [bind_ok_iff, readU8_ok_iff, parseReason_ok_iff reason_disconnect, pure_ok_iff]
      exact ⟨d, [], rfl, d, [], ⟨hc, rfl, rfl⟩, rfl, rfl⟩
    · have h1 : ¬ h.remainingLen = 1 := by rw [hrl]; simp
      rw [if_neg h1]
      simp only [bind_ok_iff, readU8_ok_iff, parseReason_ok_iff reason_disconnect, pure_ok_iff]
      exact ⟨d, e :: r, rfl, d, e :: r, ⟨hc, rfl, rfl⟩, ps, [], hdp, rfl, rfl⟩

theorem disconnectModel (debug : Bool) (h : Header) (b : Bytes) (p : Packet)
    (hty : h.typ.toNat = 14) (hrl : h.remainingLen = b.length) :
    ModelBody5 debug h b p ↔
      ∃ x, DisconnectShape (ModelR (.packet h.typ) disconnectProps) b x ∧ p = .disconnect x := by
  cases b with
  | nil =>
    have h0 : h.remainingLen = 0 := hrl
    have hbe : buildEmptyPacket h = some (.disconnect ⟨0, Props.empty⟩) := by
      simp [buildEmptyPacket, hty, h0, defaultCode_zero]
    rw [modelBody_buildEmpty debug h [] p _ hbe]
    constructor
    · rintro ⟨rfl, -⟩; exact ⟨_, .inl ⟨rfl, rfl⟩, rfl⟩
    · rintro ⟨x, (⟨-, rfl⟩ | ⟨d, hb, -⟩ | ⟨d, e, r, ps, hb, -⟩), rfl⟩
      · exact ⟨rfl, rfl⟩
      · cases hb
      · cases hb
  | cons d r =>
    have h0 : ¬ h.remainingLen = 0 := by rw [hrl]; simp
    have hbe : buildEmptyPacket h = none := by simp [buildEmptyPacket, hty, h0]
    have hbd : blockDecode debug h =
        (do let d ← Disconnect.decode h; pure (.disconnect d) : Parser ErrorV5 Packet) := by
      simp [blockDecode, hty]
    rw [modelBody_nonempty debug h _ p hbe, hbd, wrap_ok_iff]
    constructor
    · rintro ⟨-, x, hd, rfl⟩
      exact ⟨x, (disconnectDecode h _ hrl (by simp) x).mp hd, rfl⟩
    · rintro ⟨x, hs, rfl⟩
      exact ⟨by simp, x, (disconnectDecode h _ hrl (by simp) x).mpr hs, rfl⟩

theorem disconnectSpec (m : Bool) (flags : UInt8) (b : Bytes) (sp : Spec.PacketV5) :
    specBody5 m .disconnect flags b = some sp ↔
      ∃ x, DisconnectShape (SpecR m (some .disconnect)) b x ∧ sp = ⟨.disconnect x, []⟩ := by
  rw [specBody5_eq_some_iff]
  simp only [fieldsOf5_eq m .disconnect flags b (by simp), Spec.layoutV5, parseBody_iff]
  unfold DisconnectShape
  match b with
  | [] =>
    simp only [List.length_nil, Nat.lt_add_one, Nat.zero_lt_succ, if_true, V3.parseItems_absent,
      V3.parseItems_nil, Option.bind_some, Option.some.injEq, Prod.mk.injEq, and_true,
      Nat.reduceLT]
    constructor
    · rintro ⟨fs, rfl, hv, hpj⟩
      simp only [Spec.projectV5, Option.some.injEq] at hpj
      subst hpj
      exact ⟨_, .inl ⟨trivial, rfl⟩, rfl⟩
    · rintro ⟨x, (⟨-, rfl⟩ | ⟨d, hb, -⟩ | ⟨d, e, r, ps, hb, -⟩), rfl⟩
      · exact ⟨_, rfl, by simp [Spec.validV5, textOk_absent, Spec.Field.reasonOk, Spec.Field.propsOk], rfl⟩
      · simp at hb
      · simp at hb
  | [d] =>
    simp only [List.length_cons, List.length_nil, Nat.reduceAdd, Nat.lt_irrefl, if_false,
      Nat.reduceLT, if_true, V3.parseItems_val, V3.parseWire_byte, V3.parseItems_absent,
      V3.parseItems_nil, Option.bind_some, List.map_cons, List.map_nil, List.cons_append,
      List.nil_append, Option.some.injEq, Prod.mk.injEq, and_true]
    constructor
    · rintro ⟨fs, rfl, hv, hpj⟩
      simp only [Spec.validV5, List.all_cons, List.all_nil, textOk_byte, textOk_absent,
        Bool.and_true, Bool.true_and, Spec.Field.reasonOk, Spec.Field.propsOk] at hv
      simp only [Spec.projectV5, Option.some.injEq] at hpj
      subst hpj
      exact ⟨_, .inr (.inl ⟨d, rfl, hv, rfl⟩), rfl⟩
    · rintro ⟨x, (⟨hb, -⟩ | ⟨d', hb, hc, rfl⟩ | ⟨d', e, r, ps, hb, -⟩), rfl⟩
      · simp at hb
      · simp only [List.cons.injEq, and_true] at hb
        subst hb
        refine ⟨_, rfl, ?_, rfl⟩
        simp [Spec.validV5, textOk_byte, textOk_absent, Spec.Field.reasonOk, Spec.Field.propsOk, hc]
      · simp at hb
  | d :: e :: r =>
    have hl1 : ¬ (r.length + 1 + 1 < 1) := by omega
    have hl2 : ¬ (r.length + 1 + 1 < 2) := by omega
    simp only [List.length_cons, hl1, hl2, if_false, V3.parseItems_val, V3.parseWire_byte,
      Option.bind_some, List.map_cons, List.map_nil, List.cons_append, List.nil_append,
      Option.bind_eq_some_iff, Option.some.injEq, Prod.mk.injEq, parseItems_props_last]
    constructor
    · rintro ⟨fs, ⟨⟨fs2, t2⟩, ⟨raw, hpp, hfs2⟩, rfl, ht2⟩, hv, hpj⟩
      simp only [] at hfs2 hpp ht2
      subst hfs2 ht2
      simp only [Spec.validV5, List.all_cons, List.all_nil, textOk_byte, Bool.and_true,
        Bool.true_and, Bool.and_eq_true, Spec.Field.reasonOk] at hv
      obtain ⟨htx, hc, hpo⟩ := hv
      obtain ⟨hok, hnr⟩ := (specR_valid (some .disconnect) (by simp) raw).mp ⟨hpo, htx⟩
      simp only [Spec.projectV5, Option.some.injEq] at hpj
      subst hpj
      exact ⟨_, .inr (.inr ⟨d, e, r, _, rfl, hc, ⟨raw, hpp, hok, hnr, rfl⟩, rfl⟩), rfl⟩
    · rintro ⟨x, (⟨hb, -⟩ | ⟨d', hb, -⟩ | ⟨d', e', r', ps, hb, hc, ⟨raw, hpp, hok, hnr, rfl⟩, rfl⟩), rfl⟩
      · simp at hb
      · simp at hb
      · simp only [List.cons.injEq] at hb
        obtain ⟨rfl, rfl, rfl⟩ := hb
        obtain ⟨hpo, htx⟩ := (specR_valid (some .disconnect) (by simp) raw).mpr ⟨hok, hnr⟩
        refine ⟨_, ⟨(_, []), ⟨raw, hpp, rfl⟩, rfl, rfl⟩, ?_, rfl⟩
        simp [Spec.validV5, textOk_byte, Spec.Field.reasonOk, hc, hpo, htx]

/-! ## AUTH -/

/-- Remaining length 0: reason 0x00, no properties; otherwise both are required. -/
def AuthShape (R : PRel) (b : Bytes) (x : Auth) : Prop :=
  (b = [] ∧ x = ⟨0, Props.empty⟩) ∨
  (∃ d r ps, b = d :: r ∧ Spec.reasonCodeOk .auth d = true ∧ R r ps [] ∧ x = ⟨d, ps⟩)

theorem AuthShape.mono {R R' : PRel} (h : ∀ bs ps rest, R bs ps rest → R' bs ps rest)
    {b : Bytes} {x : Auth} (hs : AuthShape R b x) : AuthShape R' b x := by
  rcases hs with h1 | ⟨d, r, ps, hb, hc, hr, hx⟩
  · exact .inl h1
  · exact .inr ⟨d, r, ps, hb, hc, h _ _ _ hr, hx⟩

theorem authDecode (h : Header) (b : Bytes) (hrl : h.remainingLen = b.length) (hne : b ≠ [])
    (x : Auth) :
    Auth.decode h b = .ok x [] ↔ AuthShape (ModelR (.packet h.typ) authProps) b x := by
  unfold AuthShape ModelR
  have h0 : ¬ h.remainingLen = 0 := by
    rw [hrl]; intro h0; exact hne (List.length_eq_zero_iff.mp h0)
  unfold Auth.decode
  rw [if_neg h0]
  simp only [bind_ok_iff, readU8_ok_iff, parseReason_ok_iff reason_auth, pure_ok_iff]
  constructor
  · rintro ⟨d, r', rfl, code, r'', ⟨hc, rfl, rfl⟩, ps, r3, hdp, rfl, rfl⟩
    exact .inr ⟨d, r', ps, rfl, hc, hdp, rfl⟩
  · rintro (⟨rfl, -⟩ | ⟨d, r, ps, rfl, hc, hdp, rfl⟩)
    · exact absurd rfl hne
    · exact ⟨d, r, rfl, d, r, ⟨hc, rfl, rfl⟩, ps, [], hdp, rfl, rfl⟩

theorem authModel (debug : Bool) (h : Header) (b : Bytes) (p : Packet)
    (hty : h.typ.toNat = 15) (hrl : h.remainingLen = b.length) :
    ModelBody5 debug h b p ↔
      ∃ x, AuthShape (ModelR (.packet h.typ) authProps) b x ∧ p = .auth x := by
  cases b with
  | nil =>
    have h0 : h.remainingLen = 0 := hrl
    have hbe : buildEmptyPacket h = some (.auth ⟨0, Props.empty⟩) := by
      simp [buildEmptyPacket, hty, h0, defaultCode_zero]
    rw [modelBody_buildEmpty debug h [] p _ hbe]
    constructor
    · rintro ⟨rfl, -⟩; exact ⟨_, .inl ⟨rfl, rfl⟩, rfl⟩
    · rintro ⟨x, (⟨-, rfl⟩ | ⟨d, r, ps, hb, -⟩), rfl⟩
      · exact ⟨rfl, rfl⟩
      · cases hb
  | cons d r =>
    have h0 : ¬ h.remainingLen = 0 := by rw [hrl]; simp
    have hbe : buildEmptyPacket h = none := by simp [buildEmptyPacket, hty, h0]
    have hbd : blockDecode debug h =
        (do let d ← Auth.decode h; pure (.auth d) : Parser ErrorV5 Packet) := by
      simp [blockDecode, hty]
    rw [modelBody_nonempty debug h _ p hbe, hbd, wrap_ok_iff]
    constructor
    · rintro ⟨-, x, hd, rfl⟩
      exact ⟨x, (authDecode h _ hrl (by simp) x).mp hd, rfl⟩
    · rintro ⟨x, hs, rfl⟩
      exact ⟨by simp, x, (authDecode h _ hrl (by simp) x).mpr hs, rfl⟩

theorem authSpec (m : Bool) (flags : UInt8) (b : Bytes) (sp : Spec.PacketV5) :
    specBody5 m .auth flags b = some sp ↔
      ∃ x, AuthShape (SpecR m (some .auth)) b x ∧ sp = ⟨.auth x, []⟩ := by
  rw [specBody5_eq_some_iff]
  simp only [fieldsOf5_eq m .auth flags b (by simp), Spec.layoutV5, parseBody_iff]
  unfold AuthShape
  match b with
  | [] =>
    simp only [List.length_nil, if_true, V3.parseItems_absent, V3.parseItems_nil, Option.bind_some,
      Option.some.injEq, Prod.mk.injEq, and_true]
    constructor
    · rintro ⟨fs, rfl, hv, hpj⟩
      simp only [Spec.projectV5, Option.some.injEq] at hpj
      subst hpj
      exact ⟨_, .inl ⟨trivial, rfl⟩, rfl⟩
    · rintro ⟨x, (⟨-, rfl⟩ | ⟨d, r, ps, hb, -⟩), rfl⟩
      · exact ⟨_, rfl, by simp [Spec.validV5, textOk_absent, Spec.Field.reasonOk, Spec.Field.propsOk], rfl⟩
      · simp at hb
  | d :: r =>
    have hl0 : ¬ (r.length + 1 = 0) := by omega
    simp only [List.length_cons, hl0, if_false, V3.parseItems_val, V3.parseWire_byte,
      Option.bind_some, List.map_cons, List.map_nil, List.cons_append, List.nil_append,
      Option.bind_eq_some_iff, Option.some.injEq, Prod.mk.injEq, parseItems_props_last]
    constructor
    · rintro ⟨fs, ⟨⟨fs2, t2⟩, ⟨raw, hpp, hfs2⟩, rfl, ht2⟩, hv, hpj⟩
      simp only [] at hfs2 hpp ht2
      subst hfs2 ht2
      simp only [Spec.validV5, List.all_cons, List.all_nil, textOk_byte, Bool.and_true,
        Bool.true_and, Bool.and_eq_true, Spec.Field.reasonOk] at hv
      obtain ⟨htx, hc, hpo⟩ := hv
      obtain ⟨hok, hnr⟩ := (specR_valid (some .auth) (by simp) raw).mp ⟨hpo, htx⟩
      simp only [Spec.projectV5, Option.some.injEq] at hpj
      subst hpj
      exact ⟨_, .inr ⟨d, r, _, rfl, hc, ⟨raw, hpp, hok, hnr, rfl⟩, rfl⟩, rfl⟩
    · rintro ⟨x, (⟨hb, -⟩ | ⟨d', r', ps, hb, hc, ⟨raw, hpp, hok, hnr, rfl⟩, rfl⟩), rfl⟩
      · simp at hb
      · simp only [List.cons.injEq] at hb
        obtain ⟨rfl, rfl⟩ := hb
        obtain ⟨hpo, htx⟩ := (specR_valid (some .auth) (by simp) raw).mpr ⟨hok, hnr⟩
        refine ⟨_, ⟨(_, []), ⟨raw, hpp, rfl⟩, rfl, rfl⟩, ?_, rfl⟩
        simp [Spec.validV5, textOk_byte, Spec.Field.reasonOk, hc, hpo, htx]

/-! ## PINGREQ, PINGRESP -/

theorem pingSpec (m : Bool) (t : Spec.PType) (q : Packet)
    (ht : (t = .pingreq ∧ q = .pingreq) ∨ (t = .pingresp ∧ q = .pingresp))
    (flags : UInt8) (b : Bytes) (sp : Spec.PacketV5) :
    specBody5 m t flags b = some sp ↔ b = [] ∧ sp = ⟨q, []⟩ := by
  rw [specBody5_eq_some_iff]
  rcases ht with ⟨rfl, rfl⟩ | ⟨rfl, rfl⟩
  · simp only [fieldsOf5_eq m .pingreq flags b (by simp), Spec.layoutV5, parseBody_iff,
      V3.parseItems_nil, Option.some.injEq, Prod.mk.injEq]
    constructor
    · rintro ⟨fs, ⟨rfl, rfl⟩, hv, hpj⟩
      simp only [Spec.projectV5, Option.some.injEq] at hpj
      exact ⟨rfl, hpj.symm⟩
    · rintro ⟨rfl, rfl⟩
      exact ⟨[], ⟨rfl, rfl⟩, rfl, rfl⟩
  · simp only [fieldsOf5_eq m .pingresp flags b (by simp), Spec.layoutV5, parseBody_iff,
      V3.parseItems_nil, Option.some.injEq, Prod.mk.injEq]
    constructor
    · rintro ⟨fs, ⟨rfl, rfl⟩, hv, hpj⟩
      simp only [Spec.projectV5, Option.some.injEq] at hpj
      exact ⟨rfl, hpj.symm⟩
    · rintro ⟨rfl, rfl⟩
      exact ⟨[], ⟨rfl, rfl⟩, rfl, rfl⟩

theorem pingModel (debug : Bool) (h : Header) (b : Bytes) (p q : Packet)
    (hty : (h.typ.toNat = 12 ∧ q = .pingreq) ∨ (h.typ.toNat = 13 ∧ q = .pingresp)) :
    ModelBody5 debug h b p ↔ b = [] ∧ p = q := by
  have hbe : buildEmptyPacket h = some q := by
    rcases hty with ⟨hty, rfl⟩ | ⟨hty, rfl⟩ <;> simp [buildEmptyPacket, hty]
  rw [modelBody_buildEmpty debug h b p q hbe]
  constructor
  · rintro ⟨rfl, rfl⟩; exact ⟨rfl, rfl⟩
  · rintro ⟨rfl, rfl⟩; exact ⟨rfl, rfl⟩

/-! ## SUBACK, UNSUBACK -/

def IsCodes (t : Spec.PType) : Prop := t = .suback ∨ t = .unsuback

def mkCodes : Spec.PType → CodesAck → Packet
  | .suback => .suback | _ => .unsuback

def CodesShape (R : PRel) (t : Spec.PType) (b : Bytes) (x : CodesAck) : Prop :=
  ∃ a c r ps r2, b = a :: c :: r ∧ be16 a c ≠ 0 ∧ R r ps r2 ∧
    (∀ y ∈ r2, Spec.reasonCodeOk t y = true) ∧ x = ⟨⟨be16 a c⟩, ps, r2⟩

theorem CodesShape.mono {R R' : PRel} (h : ∀ bs ps rest, R bs ps rest → R' bs ps rest)
    {t : Spec.PType} {b : Bytes} {x : CodesAck} (hs : CodesShape R t b x) : CodesShape R' t b x := by
  obtain ⟨a, c, r, ps, r2, hb, hz, hr, hc, hx⟩ := hs
  exact ⟨a, c, r, ps, r2, hb, hz, h _ _ _ hr, hc, hx⟩

theorem codesLoop_ok_iff {k : Gen.CodeKind} {t : Spec.PType} (hp : ReasonPair k t) (typ : UInt8) :
    ∀ (rl : Nat) (acc : List UInt8) (bs : Bytes) (ts : List UInt8) (rest : Bytes),
      codesLoop k typ rl acc bs = .ok ts rest ↔
        rl ≤ bs.length ∧ (∀ y ∈ bs.take rl, Spec.reasonCodeOk t y = true) ∧
          ts = acc ++ bs.take rl ∧ rest = bs.drop rl := by
  intro rl
  induction rl with
  | zero =>
    intro acc bs ts rest
    rw [codesLoop_zero]
    simp only [ppure_ok_iff, List.take_zero, List.drop_zero, List.append_nil, Nat.zero_le, true_and,
      List.not_mem_nil, false_imp_iff, implies_true]
    constructor
    · rintro ⟨rfl, rfl⟩; exact ⟨rfl, rfl⟩
    · rintro ⟨rfl, rfl⟩; exact ⟨rfl, rfl⟩
  | succ rl ih =>
    intro acc bs ts rest
    rw [codesLoop_succ, pbind_ok_iff]
    simp only [readU8_ok_iff]
    constructor
    · rintro ⟨v, r, rfl, h⟩
      have := hp v
      simp only [reasonAgree, beq_iff_eq] at this
      rw [this] at h
      by_cases hc : Spec.reasonCodeOk t v = true
      · simp only [hc, if_true] at h
        obtain ⟨h1, h2, rfl, rfl⟩ := (ih _ _ _ _).mp h
        refine ⟨by simp only [List.length_cons]; omega, ?_, by simp, by simp⟩
        intro y hy
        simp only [List.take_succ_cons, List.mem_cons] at hy
        rcases hy with rfl | hy
        · exact hc
        · exact h2 y hy
      · simp [hc] at h
    · rintro ⟨h1, h2, rfl, rfl⟩
      cases bs with
      | nil => simp at h1
      | cons v r =>
        refine ⟨v, r, rfl, ?_⟩
        have := hp v
        simp only [reasonAgree, beq_iff_eq] at this
        rw [this]
        have hc : Spec.reasonCodeOk t v = true := h2 v (by simp)
        simp only [hc, if_true]
        refine (ih _ _ _ _).mpr ⟨by simp only [List.length_cons] at h1; omega, ?_, by simp, by simp⟩
        intro y hy
        exact h2 y (by simp [hy])

theorem propsEncodeLenP_ok_iff (allowed : List UInt8) (ps : Props) (bs : Bytes) (n : Nat) (r : Bytes) :
    propsEncodeLenP allowed ps bs = .ok n r ↔ ps.encodeLen allowed = .ok n ∧ bs = r := by
  unfold propsEncodeLenP
  cases ps.encodeLen allowed with
  | ok k => simp
  | error e => simp [Parser.panic]

theorem codesModel {k : Gen.CodeKind} {t : Spec.PType} (hp : ReasonPair k t) (h : Header) (b : Bytes)
    (hrl : h.remainingLen = b.length) (x : CodesAck) :
    CodesAck.decode k h b = .ok x [] ↔ CodesShape (ModelRA (.packet h.typ) ackProps) t b x := by
  unfold CodesAck.decode CodesShape ModelRA
  simp only [bind_ok_iff, readPid_ok_iff, propsEncodeLenP_ok_iff, checkedSub_ok_iff, pure_ok_iff,
    codesLoop_ok_iff hp]
  constructor
  · rintro ⟨pid, r, ⟨a, c, rfl, hz, rfl⟩, ps, r2, hdp, plen, r3, ⟨hel, rfl⟩, rl, r4, ⟨hle, rfl, rfl⟩,
      ts, r5, ⟨hle2, hall, rfl, hr5⟩, rfl, rfl⟩
    simp only [List.length_cons] at hrl
    have hlen : h.remainingLen - (2 + plen) = r2.length := by
      have := congrArg List.length hr5
      simp only [List.length_nil, List.length_drop] at this
      omega
    rw [hlen, List.take_length] at hall
    rw [hlen, List.take_length, List.nil_append]
    refine ⟨a, c, r, ps, r2, rfl, hz, ⟨hdp, ?_, by omega⟩, hall, rfl⟩
    rw [hel]; congr 1; omega
  · rintro ⟨a, c, r, ps, r2, rfl, hz, ⟨hdp, hel, hle⟩, hall, rfl⟩
    simp only [List.length_cons] at hrl
    have hlen : h.remainingLen - (2 + (r.length - r2.length)) = r2.length := by omega
    refine ⟨⟨be16 a c⟩, r, ⟨a, c, rfl, hz, rfl⟩, ps, r2, hdp, r.length - r2.length, r2, ⟨hel, rfl⟩,
      _, r2, ⟨by omega, rfl, rfl⟩, r2, [], ⟨?_, ?_, ?_, ?_⟩, rfl, rfl⟩
    · omega
    · rw [hlen, List.take_length]; exact hall
    · rw [hlen, List.take_length]; rfl
    · rw [hlen, List.drop_length]

theorem validV5_codes {t : Spec.PType} (ht : IsCodes t) (flags : UInt8) (pid props : Spec.Field)
    (rows : List (List Spec.Scalar)) :
    Spec.validV5 t flags [pid, props, .many rows] =
      ([pid, props, .many rows].all Spec.Field.textOk &&
        (pid.pidOk && props.propsOk (some t) && (Spec.Lenient.emptyCodeList || !rows.isEmpty) &&
          (Spec.rowBytes rows).all (Spec.reasonCodeOk t))) := by
  rcases ht with rfl | rfl <;> rfl

theorem projectV5_codes {t : Spec.PType} (ht : IsCodes t) (flags : UInt8) (v : UInt16)
    (props : Spec.Field) (rows : List (List Spec.Scalar)) :
    Spec.projectV5 t flags [.val (.u16 v), props, .many rows] =
      some ⟨mkCodes t ⟨⟨v⟩, props.toProps, Spec.rowBytes rows⟩, []⟩ := by
  rcases ht with rfl | rfl <;> rfl

theorem layoutV5_codes {t : Spec.PType} (ht : IsCodes t) (flags : UInt8) (len : Nat) :
    Spec.layoutV5 t flags len = [.val .u16, .props, .many [.byte]] := by
  rcases ht with rfl | rfl <;> rfl

theorem textOk_many_bytes (r : Bytes) :
    (Spec.Field.many (r.map fun x => [Spec.Scalar.byte x])).textOk = true := by
  simp only [Spec.Field.textOk]
  exact V3.byteRows_textOk r

theorem codesSpec (m : Bool) {t : Spec.PType} (ht : IsCodes t) (flags : UInt8) (b : Bytes)
    (sp : Spec.PacketV5) :
    specBody5 m t flags b = some sp ↔
      ∃ x, CodesShape (SpecR m (some t)) t b x ∧ sp = ⟨mkCodes t x, []⟩ := by
  have hne : t ≠ .connect := by rcases ht with rfl | rfl <;> simp
  have hnp : some t ≠ some Spec.PType.publish := by rcases ht with rfl | rfl <;> simp
  rw [specBody5_eq_some_iff]
  simp only [fieldsOf5_eq m t flags b hne, layoutV5_codes ht, parseBody_iff]
  unfold CodesShape
  match b with
  | [] => simp [V3.parseItems_val, V3.parseWire_u16_nil]
  | [a] => simp [V3.parseItems_val, V3.parseWire_u16_one]
  | a :: c :: r =>
    simp only [V3.parseItems_val, V3.parseWire_u16, Option.bind_some, List.map_cons, List.map_nil,
      List.cons_append, List.nil_append, parseItems_props, parseItems_many, V3.parseItems_nil,
      V3.parseRows_byte m _ _ (Nat.le_refl _), Option.bind_eq_some_iff, Option.some.injEq,
      Prod.mk.injEq]
    constructor
    · rintro ⟨fs, ⟨a1, ⟨⟨raw, r2⟩, hpp, rfl⟩, rfl, -⟩, hv, hpj⟩
      rw [validV5_codes ht] at hv
      rw [projectV5_codes ht] at hpj
      simp only [List.all_cons, List.all_nil, textOk_u16, textOk_many_bytes, Bool.and_true,
        Bool.true_and, pidOk_u16, Bool.and_eq_true, decide_eq_true_eq, V3.rowBytes_map,
        Spec.Lenient.emptyCodeList, Bool.true_or, and_true, List.all_eq_true] at hv
      obtain ⟨htx, ⟨hz, hpo⟩, hall⟩ := hv
      obtain ⟨hok, hnr⟩ := (specR_valid (some t) hnp raw).mp ⟨hpo, htx⟩
      cases hpj
      refine ⟨_, ⟨a, c, r, _, r2, rfl, hz, ⟨raw, hpp, hok, hnr, rfl⟩, hall, rfl⟩, ?_⟩
      simp only [V3.rowBytes_map]; rfl
    · rintro ⟨x, ⟨a', c', r', ps, r2, hb, hz, ⟨raw, hpp, hok, hnr, rfl⟩, hall, rfl⟩, rfl⟩
      simp only [List.cons.injEq] at hb
      obtain ⟨rfl, rfl, rfl⟩ := hb
      obtain ⟨hpo, htx⟩ := (specR_valid (some t) hnp raw).mpr ⟨hok, hnr⟩
      refine ⟨_, ⟨_, ⟨(raw, r2), hpp, rfl⟩, rfl, rfl⟩, ?_, ?_⟩
      · rw [validV5_codes ht]
        simp only [List.all_cons, List.all_nil, textOk_u16, textOk_many_bytes, Bool.and_true,
          Bool.true_and, pidOk_u16, Bool.and_eq_true, decide_eq_true_eq, V3.rowBytes_map,
          Spec.Lenient.emptyCodeList, Bool.true_or, and_true, List.all_eq_true]
        exact ⟨htx, ⟨hz, hpo⟩, hall⟩
      · rw [projectV5_codes ht]
        simp only [V3.rowBytes_map]; rfl

end Mqtt.V5
