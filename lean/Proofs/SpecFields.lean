/-
  Proofs.SpecFields — the version-independent part of "the independent specification decoder
  reads back what the model's writers wrote": Variable Byte Integer, fixed header / frame,
  single values, rows, text / topic checks.  Used by Proofs/V3Spec.lean (C10, v3) and
  reusable for the v5 version.

  Normal form:  `Spec.reader m (writer x ++ r) = some (x, r)`, for every value of the
  `minimal` flag `m` (the specification proper is `m = true`).
-/
import Spec.Layout
import Proofs.Fields
import Proofs.VarInt
import Proofs.Topic
import Properties.C18

namespace Spec
open Mqtt

/-! ### Variable Byte Integer -/

theorem varintDigits_write (n : Nat) : ∀ (k : Nat) (t : Bytes), (writeVarInt n).length ≤ k →
    varintDigits k (writeVarInt n ++ t) = some (n, (writeVarInt n).length, t) := by
  induction n using Nat.strongRecOn with
  | _ n ih =>
    intro k t hk
    by_cases h1 : n < 128
    · rw [writeVarInt_small n h1] at hk ⊢
      obtain ⟨k, rfl⟩ : ∃ k', k = k' + 1 := ⟨k - 1, by simp at hk; omega⟩
      simp only [List.singleton_append, varintDigits, ofNat_toNat_lt n (by omega), h1, if_true,
        List.length_singleton]
    · have hb : 128 ≤ n := by omega
      rw [writeVarInt_big n hb] at hk ⊢
      simp only [List.length_cons] at hk
      obtain ⟨k, rfl⟩ : ∃ k', k = k' + 1 := ⟨k - 1, by omega⟩
      have hbyte : (UInt8.ofNat (n % 128 + 128)).toNat = n % 128 + 128 :=
        ofNat_toNat_lt _ (by omega)
      have hnot : ¬ (n % 128 + 128 < 128) := by omega
      simp only [List.cons_append, varintDigits, hbyte, hnot, if_false,
        ih (n / 128) (by omega) k t (by omega), Option.map_some, List.length_cons]
      congr 2
      omega

theorem writeVarInt_length_le (n : Nat) (h : n < 268435456) : (writeVarInt n).length ≤ 4 := by
  rw [writeVarInt_length n h]; unfold varIntSize
  repeat' split
  all_goals omega

/-- The Remaining Length / any Variable Byte Integer the model writes is read back, with the
size of Table "Size of Variable Byte Integer" — so it is minimally encoded. -/
theorem varintN_write (m : Bool) (n : Nat) (h : n < 268435456) (t : Bytes) :
    varintN m (writeVarInt n ++ t) = some (n, varIntSize n, t) := by
  simp [varintN, varintDigits_write n 4 t (writeVarInt_length_le n h), writeVarInt_length n h]

theorem varint_write (m : Bool) (n : Nat) (h : n < 268435456) (t : Bytes) :
    varint m (writeVarInt n ++ t) = some (n, t) := by
  simp [varint, varintDigits_write n 4 t (writeVarInt_length_le n h), writeVarInt_length n h]

/-! ### the frame -/

/-- Control byte, Remaining Length as the model writes it, a body of exactly that length and
anything after it: the specification splits off exactly this frame. -/
theorem splitFrame_write (m v5 : Bool) (cb : UInt8) (n : Nat) (body t : Bytes) (ty : PType)
    (req : Option UInt8) (hn : n < 268435456) (hl : body.length = n)
    (hp : ptypeOfNibble v5 (UInt8.ofNat (bits cb 4 4)) = some (ty, req))
    (hf : req.all (· == UInt8.ofNat (bits cb 0 4)) = true) :
    splitFrame m v5 (cb :: (writeVarInt n ++ body) ++ t) =
      some ⟨ty, UInt8.ofNat (bits cb 0 4), body, 1 + varIntSize n + n⟩ := by
  have hle : n ≤ (body ++ t).length := by rw [List.length_append, hl]; omega
  have htake : (body ++ t).take n = body := by rw [← hl, List.take_left]
  simp only [List.cons_append, List.append_assoc, splitFrame, hp, bind, Option.bind, hf, guard,
    if_true, pure, varintN_write m n hn, hle, htake]

/-! ### single values -/

@[simp] theorem parseWire_byte (m : Bool) (b : UInt8) (r : Bytes) :
    parseWire m .byte (b :: r) = some ([.byte b], r) := rfl

/-- `u16be v` written out (the form `simp` leaves after unfolding `u16be`). -/
@[simp] theorem parseWire_u16 (m : Bool) (v : UInt16) (r : Bytes) :
    parseWire m .u16 (UInt8.ofNat (v.toNat / 256) :: UInt8.ofNat (v.toNat % 256) :: r) =
      some ([.u16 v], r) := by
  have := be16_u16be v
  simp only [be16] at this
  simp only [parseWire, this]

theorem parseWire_u16be (m : Bool) (v : UInt16) (r : Bytes) :
    parseWire m .u16 (u16be v ++ r) = some ([.u16 v], r) := parseWire_u16 m v r

@[simp] theorem parseWire_u32 (m : Bool) (v : UInt32) (r : Bytes) :
    parseWire m .u32 (UInt8.ofNat (v.toNat / 16777216) :: UInt8.ofNat (v.toNat / 65536 % 256) ::
      UInt8.ofNat (v.toNat / 256 % 256) :: UInt8.ofNat (v.toNat % 256) :: r) = some ([.u32 v], r) := by
  have := be32_u32be v
  simp only [be32] at this
  simp only [parseWire, this]

theorem parseWire_varint (m : Bool) (n : Nat) (h : n < 268435456) (r : Bytes) :
    parseWire m .varint (writeVarInt n ++ r) = some ([.varint n], r) := by
  simp [parseWire, varint_write m n h]

theorem lenPrefixed_writeBytes (d r : Bytes) (h : d.length ≤ 65535) :
    lenPrefixed (writeBytes d ++ r) = some (d, r) := by
  have h1 : (UInt8.ofNat (d.length / 256)).toNat * 256 + (UInt8.ofNat (d.length % 256)).toNat
      = d.length := by
    simp only [UInt8.toNat_ofNat']; omega
  simp only [writeBytes, u16be, toNat_ofNat_length d h, List.cons_append, List.nil_append,
    lenPrefixed, h1, List.length_append, Nat.le_add_right, if_true, List.take_left', List.drop_left']

theorem lenPrefixed_writeBytes_nil (d : Bytes) (h : d.length ≤ 65535) :
    lenPrefixed (writeBytes d) = some (d, []) := by
  have := lenPrefixed_writeBytes d [] h
  rwa [List.append_nil] at this

theorem parseWire_str (m : Bool) (d r : Bytes) (h : d.length ≤ 65535) :
    parseWire m .str (writeBytes d ++ r) = some ([.str d], r) := by
  simp [parseWire, lenPrefixed_writeBytes d r h]

theorem parseWire_bin (m : Bool) (d r : Bytes) (h : d.length ≤ 65535) :
    parseWire m .bin (writeBytes d ++ r) = some ([.bin d], r) := by
  simp [parseWire, lenPrefixed_writeBytes d r h]

theorem parseWire_str_nil (m : Bool) (d : Bytes) (h : d.length ≤ 65535) :
    parseWire m .str (writeBytes d) = some ([.str d], []) := by
  simp [parseWire, lenPrefixed_writeBytes_nil d h]

theorem parseWire_bin_nil (m : Bool) (d : Bytes) (h : d.length ≤ 65535) :
    parseWire m .bin (writeBytes d) = some ([.bin d], []) := by
  simp [parseWire, lenPrefixed_writeBytes_nil d h]

theorem parseWire_strPair (m : Bool) (k v r : Bytes) (hk : k.length ≤ 65535) (hv : v.length ≤ 65535) :
    parseWire m .strPair (writeBytes k ++ (writeBytes v ++ r)) = some ([.str k, .str v], r) := by
  simp [parseWire, lenPrefixed_writeBytes k _ hk, lenPrefixed_writeBytes v r hv]

/-! ### rows and items -/

theorem parseRow_nil (m : Bool) (bs : Bytes) : parseRow m [] bs = some ([], bs) := rfl

theorem parseRow_cons (m : Bool) (w : WireType) (ws : List WireType) (bs r r' : Bytes)
    (v vs : List Scalar) (h1 : parseWire m w bs = some (v, r)) (h2 : parseRow m ws r = some (vs, r')) :
    parseRow m (w :: ws) bs = some (v ++ vs, r') := by
  simp only [parseRow, h1, h2, bind, Option.bind]

/-- Rows until the end of the input, on the concatenation of encoded rows: any fuel at least
the number of input bytes suffices, because an encoded row is never empty. -/
theorem parseRows_flatMap {α : Type} (m : Bool) (row : List WireType) (enc : α → Bytes)
    (val : α → List Scalar) (xs : List α)
    (h : ∀ x ∈ xs, ∀ r, parseRow m row (enc x ++ r) = some (val x, r))
    (hpos : ∀ x ∈ xs, enc x ≠ []) :
    ∀ fuel, (xs.flatMap enc).length ≤ fuel →
      parseRows m row fuel (xs.flatMap enc) = some (xs.map val) := by
  induction xs with
  | nil => intro fuel _; cases fuel <;> rfl
  | cons x xs ih =>
    intro fuel hf
    have hx := h x (by simp)
    have hne := hpos x (by simp)
    simp only [List.flatMap_cons, List.length_append] at hf ⊢
    have hlen : 1 ≤ (enc x).length := by
      cases he : enc x with
      | nil => exact absurd he hne
      | cons _ _ => simp
    obtain ⟨f, rfl⟩ : ∃ f, fuel = f + 1 := ⟨fuel - 1, by omega⟩
    cases hin : enc x ++ xs.flatMap enc with
    | nil =>
      have := congrArg List.length hin
      simp only [List.length_append, List.length_nil] at this
      omega
    | cons b bs =>
      rw [← hin]
      have step : parseRows m row (f + 1) (enc x ++ xs.flatMap enc) =
          (parseRow m row (enc x ++ xs.flatMap enc)).bind fun (vs, r) =>
            (vs :: ·) <$> parseRows m row f r := by
        rw [hin]; rfl
      rw [step, hx, Option.bind_some]
      simp only []
      rw [ih (fun y hy => h y (by simp [hy])) (fun y hy => hpos y (by simp [hy])) f (by omega)]
      rfl

theorem parseItems_nil (m : Bool) (bs : Bytes) : parseItems m [] bs = some ([], bs) := rfl

theorem parseItems_val (m : Bool) (w : WireType) (is : List Item) (bs r r' : Bytes)
    (vs : List Scalar) (fs : List Field)
    (h1 : parseWire m w bs = some (vs, r)) (h2 : parseItems m is r = some (fs, r')) :
    parseItems m (.val w :: is) bs = some (vs.map .val ++ fs, r') := by
  simp only [parseItems, h1, h2, bind, Option.bind]

theorem parseItems_absent (m : Bool) (is : List Item) (bs r' : Bytes) (fs : List Field)
    (h2 : parseItems m is bs = some (fs, r')) :
    parseItems m (.absent :: is) bs = some (.absent :: fs, r') := by
  simp only [parseItems, h2, bind, Option.bind]

theorem parseItems_rest (m : Bool) (bs : Bytes) :
    parseItems m [.rest] bs = some ([.rest bs], []) := rfl

theorem parseItems_many (m : Bool) (row : List WireType) (bs : Bytes) (rows : List (List Scalar))
    (h : parseRows m row bs.length bs = some rows) :
    parseItems m [.many row] bs = some ([.many rows], []) := by
  simp only [parseItems, h, bind, Option.bind]

theorem parseBody_of_items (m : Bool) (layout : List Item) (body : Bytes) (fs : List Field)
    (h : parseItems m layout body = some (fs, [])) : parseBody m layout body = some fs := by
  simp [parseBody, h]

/-! ### text and topics -/

theorem isText_of_valid {s : Bytes} (h : Utf8.valid s = true) : isText s = true := by
  unfold Utf8.valid at h
  unfold isText
  cases hd : Utf8.decode s with
  | none => simp [hd] at h
  | some cs => simp [Lenient.nulInText]

theorem isText_of_validText {s : Bytes} (h : validText s = true) : isText s = true :=
  isText_of_valid ((validText_iff s).mp h).2

/-- What the code accepts as a `TopicName` is a Topic Name of the standard. -/
theorem isTopicName_of_valid {s : Bytes} (h : validTopicName s = true) : isTopicName s = true := by
  have h' := (validTopicName_iff s).mp h
  unfold topicNameTryFrom at h'
  unfold isTopicName
  cases hd : Utf8.decode s with
  | none => simp [hd] at h'
  | some cs =>
    simp only [hd] at h' ⊢
    split at h'
    · cases h'
    · rename_i hinv
      rw [C18.name_validation_is_spec] at hinv
      simpa using hinv

/-- What the code holds as a `TopicFilter` is a Topic Filter of the standard, and the cached
index is the position of the '/' ending the share name. -/
theorem validTopicFilter_spec {f : Topic.TopicFilter} (h : validTopicFilter f = true) :
    ∃ cs, Utf8.decode f.text = some cs ∧ validFilter cs = true ∧ f.sharedFilterSep = sharedSep cs := by
  have h' := topicFilterTryFrom_valid h false
  unfold topicFilterTryFrom at h'
  cases hd : Utf8.decode f.text with
  | none => simp [hd] at h'
  | some cs =>
    simp only [hd] at h'
    refine ⟨cs, rfl, ?_⟩
    split at h'
    · cases h'
    · rename_i sep hv
      obtain ⟨h1, h2⟩ := Topic.valid_spec false cs sep hv
      refine ⟨h1, ?_⟩
      injection h' with h' _
      rw [← h', h2]
    · cases h'

theorem isTopicFilter_of_valid {f : Topic.TopicFilter} (h : validTopicFilter f = true) :
    isTopicFilter f.text = true := by
  obtain ⟨cs, hd, hv, _⟩ := validTopicFilter_spec h
  simp [isTopicFilter, hd, hv]

theorem topicFilterOf_of_valid {f : Topic.TopicFilter} (h : validTopicFilter f = true) :
    topicFilterOf f.text = f := by
  obtain ⟨cs, hd, _, hs⟩ := validTopicFilter_spec h
  obtain ⟨text, sep⟩ := f
  simp only at hd hs
  simp [topicFilterOf, hd, hs]

theorem isText_of_validTopicFilter {f : Topic.TopicFilter} (h : validTopicFilter f = true) :
    isText f.text = true := isText_of_validText (validTopicFilter_text h)

theorem length_of_validTopicFilter {f : Topic.TopicFilter} (h : validTopicFilter f = true) :
    f.text.length ≤ 65535 := ((validText_iff _).mp (validTopicFilter_text h)).1

end Spec
