/-
  Proofs.V5SpecEnc — the independent specification decoder `Spec.decodeV5` reads back every
  valid v5 packet from what the model's encoder wrote (C10, v5 part).  The version-independent
  lemmas (varint, frame, values, rows, text / topics) are in Proofs/SpecFields.lean.
-/
import Spec.DecodeV5
import Proofs.SpecFields
import Proofs.V3SpecEnc
import Proofs.V5RoundTrip
import Properties.C01V5
import Properties.C02V5

namespace Mqtt.V5
namespace SpecEnc
open Spec

/-! ## the property section -/

/-- The specification's representation of a property kind of the model. -/
def wireOf : PropKind → WireType
  | .byte01 => .byte | .qos01 => .byte | .u16 => .u16 | .u32 => .u32
  | .str => .str | .topic => .str | .bin => .bin | .varint => .varint

def scalarOf : PropVal → Scalar
  | .byte b => .byte b | .u16 v => .u16 v | .u32 v => .u32 v
  | .varint n => .varint n | .str s => .str s | .bin s => .bin s

@[simp] theorem propVal_scalarOf (v : PropVal) : propVal (scalarOf v) = v := by cases v <;> rfl

theorem scalarOf_inj {a b : PropVal} (h : scalarOf a = scalarOf b) : a = b := by
  have := congrArg propVal h
  simpa using this

/-- The raw property a listed identifier contributes (nothing when it is not set). -/
def listedRaw (ps : Props) (i : UInt8) : Option RawProp := (ps.get i).map fun v => (i, [scalarOf v])

def userRaw (x : Bytes × Bytes) : RawProp := (0x26, [.str x.1, .str x.2])

/-- What the specification's parser returns on the model's property section. -/
def rawOf (allowed : List UInt8) (ps : Props) : List RawProp :=
  allowed.filterMap (listedRaw ps) ++ ps.user.map userRaw

/-- What C10 needs from an identifier list of the code, against the standard's Table 2-4 for
property section `owner`. -/
structure SpecList (owner : Option PType) (allowed : List UInt8) : Prop where
  good : GoodList allowed
  wire : ∀ i ∈ allowed, (propKind i).map wireOf = propertyWireType i
  allow : ∀ i ∈ allowed, propertyAllowed owner i = true
  user : propertyAllowed owner 0x26 = true

theorem specList_connect : SpecList (some .connect) connectProps :=
  ⟨goodList_of_mem (by simp), by decide, by decide, by decide⟩
theorem specList_will : SpecList none willProps :=
  ⟨goodList_of_mem (by simp), by decide, by decide, by decide⟩
theorem specList_connack : SpecList (some .connack) connackProps :=
  ⟨goodList_of_mem (by simp), by decide, by decide, by decide⟩
theorem specList_disconnect : SpecList (some .disconnect) disconnectProps :=
  ⟨goodList_of_mem (by simp), by decide, by decide, by decide⟩
theorem specList_auth : SpecList (some .auth) authProps :=
  ⟨goodList_of_mem (by simp), by decide, by decide, by decide⟩
theorem specList_publish : SpecList (some .publish) publishProps :=
  ⟨goodList_of_mem (by simp), by decide, by decide, by decide⟩
theorem specList_ack (t : PType) (ht : t ∈ [PType.puback, .pubrec, .pubrel, .pubcomp, .suback, .unsuback]) :
    SpecList (some t) ackProps := by
  simp only [List.mem_cons, List.not_mem_nil, or_false] at ht
  rcases ht with rfl | rfl | rfl | rfl | rfl | rfl <;>
    exact ⟨goodList_of_mem (by simp), by decide, by decide, by decide⟩
theorem specList_subscribe : SpecList (some .subscribe) subscribeProps :=
  ⟨goodList_of_mem (by simp), by decide, by decide, by decide⟩
theorem specList_unsubscribe : SpecList (some .unsubscribe) unsubscribeProps :=
  ⟨goodList_of_mem (by simp), by decide, by decide, by decide⟩

/-! ### parsing -/

theorem parseTLVs_cons (m : Bool) (id : UInt8) (w : WireType) (bs rest : Bytes) (vs : List Scalar)
    (raws : List RawProp) (fuel : Nat) (hw : propertyWireType id = some w)
    (hv : parseWire m w bs = some (vs, rest)) (hr : parseTLVs m fuel rest = some raws) :
    parseTLVs m (fuel + 1) (id :: bs) = some ((id, vs) :: raws) := by
  simp only [parseTLVs, hw, hv, hr, bind, Option.bind, Functor.map, Option.map]

/-- One property value as the model writes it, read with the specification's wire type. -/
theorem parseWire_propValue (m : Bool) (id : UInt8) (k : PropKind) (v : PropVal) (r : Bytes)
    (hk : propKind id = some k) (hv : propValValid id v = true) :
    ∃ body, encodeProp id v = id :: body ∧
      parseWire m (wireOf k) (body ++ r) = some ([scalarOf v], r) := by
  simp only [propValValid, hk] at hv
  cases k <;> cases v <;> simp only [Bool.false_eq_true] at hv
  case byte01.byte b => exact ⟨[b], rfl, rfl⟩
  case qos01.byte b => exact ⟨[b], rfl, rfl⟩
  case u16.u16 x => exact ⟨u16be x, rfl, parseWire_u16be m x r⟩
  case u32.u32 x => exact ⟨u32be x, rfl, parseWire_u32 m x r⟩
  case str.str s => exact ⟨writeBytes s, rfl, parseWire_str m s r ((validText_iff _).mp hv).1⟩
  case topic.str s =>
    exact ⟨writeBytes s, rfl, parseWire_str m s r ((validText_iff _).mp (validTopicName_text hv)).1⟩
  case bin.bin s => exact ⟨writeBytes s, rfl, parseWire_bin m s r ((validBin_iff _).mp hv)⟩
  case varint.varint n =>
    exact ⟨writeVarInt n, rfl, parseWire_varint m n (by simpa using hv) r⟩

theorem parseTLVs_user (m : Bool) (u : List (Bytes × Bytes))
    (hu : ∀ x ∈ u, validText x.1 = true ∧ validText x.2 = true) :
    ∀ fuel, (encodeUser u).length ≤ fuel → parseTLVs m fuel (encodeUser u) = some (u.map userRaw) := by
  induction u with
  | nil => intro fuel _; cases fuel <;> rfl
  | cons x xs ih =>
    intro fuel hf
    obtain ⟨n, v⟩ := x
    obtain ⟨hn, hv⟩ := hu (n, v) (by simp)
    have hrest : encodeUser ((n, v) :: xs) = USER_PROPERTY :: (writeBytes n ++ (writeBytes v ++ encodeUser xs)) := by
      simp [encodeUser]
    rw [hrest] at hf ⊢
    simp only [List.length_cons, List.length_append] at hf
    obtain ⟨f, rfl⟩ : ∃ f, fuel = f + 1 := ⟨fuel - 1, by omega⟩
    exact parseTLVs_cons m _ .strPair _ _ _ _ f (by decide)
      (parseWire_strPair m n v _ ((validText_iff _).mp hn).1 ((validText_iff _).mp hv).1)
      (ih (fun y hy => hu y (by simp [hy])) f (by omega))

theorem parseTLVs_listed (m : Bool) (ps : Props) (allowed : List UInt8)
    (hw : ∀ i ∈ allowed, (propKind i).map wireOf = propertyWireType i)
    (hinfo : ∀ i ∈ allowed, (propKind i).isSome = true)
    (hvalid : ∀ i ∈ allowed, ∀ v, ps.get i = some v → propValValid i v = true)
    (hu : ∀ x ∈ ps.user, validText x.1 = true ∧ validText x.2 = true) :
    ∀ (todo : List UInt8), (∀ i ∈ todo, i ∈ allowed) → ∀ fuel,
      (todo.flatMap ps.emit ++ encodeUser ps.user).length ≤ fuel →
      parseTLVs m fuel (todo.flatMap ps.emit ++ encodeUser ps.user) =
        some (todo.filterMap (listedRaw ps) ++ ps.user.map userRaw) := by
  intro todo
  induction todo with
  | nil =>
    intro _ fuel hf
    simpa using parseTLVs_user m ps.user hu fuel (by simpa using hf)
  | cons i rest ih =>
    intro hsub fuel hf
    have ih' := ih (fun j hj => hsub j (by simp [hj]))
    have hi := hsub i (by simp)
    cases hg : ps.get i with
    | none =>
      have hemit : ps.emit i = [] := by simp [Props.emit, hg]
      have hraw : listedRaw ps i = none := by simp [listedRaw, hg]
      simp only [List.flatMap_cons, hemit, List.nil_append, List.filterMap_cons, hraw] at hf ⊢
      exact ih' fuel hf
    | some v =>
      obtain ⟨k, hk⟩ := Option.isSome_iff_exists.mp (hinfo i hi)
      obtain ⟨body, hbody, hparse⟩ := parseWire_propValue m i k v
        (rest.flatMap ps.emit ++ encodeUser ps.user) hk (hvalid i hi v hg)
      have hemit : ps.emit i = i :: body := by simp [Props.emit, hg, hbody]
      have hraw : listedRaw ps i = some (i, [scalarOf v]) := by simp [listedRaw, hg]
      have hwt : propertyWireType i = some (wireOf k) := by rw [← hw i hi, hk]; rfl
      simp only [List.flatMap_cons, hemit, List.cons_append, List.append_assoc, List.length_cons,
        List.length_append, List.filterMap_cons, hraw] at hf ⊢
      obtain ⟨f, rfl⟩ : ∃ f, fuel = f + 1 := ⟨fuel - 1, by omega⟩
      exact parseTLVs_cons m i _ _ _ _ _ f hwt hparse
        (ih' f (by simp only [List.length_append]; omega))

theorem valid_parts {allowed : List UInt8} {ps : Props} (hv : Props.valid allowed ps = true) :
    (∀ i ∈ allowed, ∀ v, ps.get i = some v → propValValid i v = true) ∧
    (∀ x ∈ ps.user, validText x.1 = true ∧ validText x.2 = true) := by
  simp only [Props.valid, Bool.and_eq_true, List.all_eq_true] at hv
  refine ⟨fun i hi v hg => ?_, fun x hx => ?_⟩
  · have := hv.1 i hi
    simpa [hg] using this
  · have := hv.2 x hx
    simpa using this

/-- §2.2.2 on the model's property section: the specification reads the Property Length (it is
minimally encoded), exactly that many bytes, and in them the present listed properties in list
order followed by the user properties. -/
theorem parseProps_wire (m : Bool) {owner : Option PType} {allowed : List UInt8}
    (hs : SpecList owner allowed) {ps : Props} (hv : Props.valid allowed ps = true) {n : Nat}
    (hn : ps.bodyLen allowed = .ok n) (hlt : n < 268435456) (r : Bytes) :
    parseProps m (ps.wire allowed n ++ r) = some (rawOf allowed ps, r) := by
  obtain ⟨hvalid, hu⟩ := valid_parts hv
  have hb := Props.bodyLen_eq hn
  have hlen : (allowed.flatMap ps.emit ++ encodeUser ps.user).length = n := by
    rw [List.length_append, encodeUser_length]; omega
  have htlv := parseTLVs_listed m ps allowed hs.wire (fun i hi => (hs.good.info i hi).1) hvalid hu
    allowed (fun _ h => h) n (by omega)
  have hle : n ≤ (allowed.flatMap ps.emit ++ encodeUser ps.user ++ r).length := by
    rw [List.length_append]; omega
  have htake : (allowed.flatMap ps.emit ++ encodeUser ps.user ++ r).take n =
      allowed.flatMap ps.emit ++ encodeUser ps.user := by rw [← hlen, List.take_left]
  have hdrop : (allowed.flatMap ps.emit ++ encodeUser ps.user ++ r).drop n = r := by
    rw [← hlen, List.drop_left]
  have hassoc : ps.wire allowed n ++ r =
      writeVarInt n ++ (allowed.flatMap ps.emit ++ encodeUser ps.user ++ r) := by
    simp [Props.wire]
  rw [hassoc]
  simp only [parseProps, varint_write m n hlt, bind, Option.bind, guard, hle, if_true, pure, htake,
    htlv, hdrop, rawOf]

/-! ### validation -/

theorem listedRaw_mem {ps : Props} {allowed : List UInt8} {x : RawProp}
    (h : x ∈ allowed.filterMap (listedRaw ps)) :
    ∃ i v, i ∈ allowed ∧ ps.get i = some v ∧ x = (i, [scalarOf v]) := by
  simp only [List.mem_filterMap, listedRaw, Option.map_eq_some_iff] at h
  obtain ⟨i, hi, v, hg, rfl⟩ := h
  exact ⟨i, v, hi, hg, rfl⟩

theorem rawOf_mem {ps : Props} {allowed : List UInt8} {x : RawProp} (h : x ∈ rawOf allowed ps) :
    (∃ i v, i ∈ allowed ∧ ps.get i = some v ∧ x = (i, [scalarOf v])) ∨
    (∃ y ∈ ps.user, x = userRaw y) := by
  simp only [rawOf, List.mem_append, List.mem_map] at h
  rcases h with h | ⟨y, hy, rfl⟩
  · exact .inl (listedRaw_mem h)
  · exact .inr ⟨y, hy, rfl⟩

theorem propKind_topic_of_8 {id : UInt8} {k : PropKind} (hk : propKind id = some k) :
    id = 0x08 → k = .topic := by
  intro h; subst h
  have : propKind 0x08 = some .topic := by decide
  rw [this] at hk; cases hk; rfl

/-- A valid model value satisfies the value rules of the standard. -/
theorem propValueOk_of_valid {id : UInt8} {v : PropVal} (hk : (propKind id).isSome = true)
    (hv : propValValid id v = true) :
    propValueOk id (scalarOf v) = true ∧ (scalarOf v).textOk = true := by
  obtain ⟨k, hk⟩ := Option.isSome_iff_exists.mp hk
  have h8 := propKind_topic_of_8 hk
  simp only [propValValid, hk] at hv
  cases k <;> cases v <;> simp only [Bool.false_eq_true] at hv
  case byte01.byte b => exact ⟨by simpa [propValueOk, scalarOf] using hv, rfl⟩
  case qos01.byte b =>
    simp only [Bool.and_eq_true, decide_eq_true_eq] at hv
    exact ⟨by simpa [propValueOk, scalarOf] using hv.1, rfl⟩
  case u16.u16 x =>
    exact ⟨by simp [propValueOk, scalarOf, Lenient.zeroReceiveMaximum, Lenient.zeroTopicAlias], rfl⟩
  case u32.u32 x => exact ⟨by simp [propValueOk, scalarOf, Lenient.zeroMaximumPacketSize], rfl⟩
  case str.str s =>
    refine ⟨?_, isText_of_validText hv⟩
    have : id ≠ 0x08 := fun h => by cases h8 h
    simp [propValueOk, scalarOf, this]
  case topic.str s =>
    exact ⟨by simp [propValueOk, scalarOf, isTopicName_of_valid hv],
      isText_of_validText (validTopicName_text hv)⟩
  case bin.bin s => exact ⟨rfl, rfl⟩
  case varint.varint n =>
    exact ⟨by simp [propValueOk, scalarOf, Lenient.zeroSubscriptionIdentifier], rfl⟩

theorem noRepeats_user (owner : Option PType) (k : Nat) :
    noRepeats owner (List.replicate k 0x26) = true := by
  induction k with
  | zero => rfl
  | succ k ih => simp [List.replicate_succ, noRepeats, repeatable, ih]

theorem noRepeats_append (owner : Option PType) (l : List UInt8) (k : Nat) (hnd : l.Nodup)
    (hnu : (0x26 : UInt8) ∉ l) : noRepeats owner (l ++ List.replicate k 0x26) = true := by
  induction l with
  | nil => simpa using noRepeats_user owner k
  | cons a l ih =>
    obtain ⟨h1, h2⟩ := List.nodup_cons.mp hnd
    have ha : a ≠ 0x26 := fun h => hnu (by simp [h])
    have hnotin : (l ++ List.replicate k 0x26).contains a = false := by
      simp only [List.contains_eq_mem, List.mem_append, List.mem_replicate, decide_eq_false_iff_not,
        not_or]
      exact ⟨h1, fun h => ha h.2⟩
    simp only [List.cons_append, noRepeats, hnotin, Bool.not_false, Bool.or_true, Bool.true_and]
    exact ih h2 (fun h => hnu (by simp [h]))

theorem rawOf_ids (allowed : List UInt8) (ps : Props) :
    (rawOf allowed ps).map (·.1) =
      allowed.filter (fun i => (ps.get i).isSome) ++ List.replicate ps.user.length 0x26 := by
  have h1 : (allowed.filterMap (listedRaw ps)).map (·.1) = allowed.filter (fun i => (ps.get i).isSome) := by
    induction allowed with
    | nil => rfl
    | cons i rest ih =>
      cases hg : ps.get i <;> simp [listedRaw, hg, ih]
  have h2 : (ps.user.map userRaw).map (·.1) = List.replicate ps.user.length 0x26 := by
    induction ps.user with
    | nil => rfl
    | cons x xs ih => simp [userRaw, List.replicate_succ, ih]
  simp only [rawOf, List.map_append, h1, h2]

theorem propsOk_rawOf {owner : Option PType} {allowed : List UInt8} (hs : SpecList owner allowed)
    {ps : Props} (hv : Props.valid allowed ps = true) :
    Spec.propsOk owner (rawOf allowed ps) = true ∧
    Field.textOk (.props (rawOf allowed ps)) = true := by
  obtain ⟨hvalid, hu⟩ := valid_parts hv
  refine ⟨?_, ?_⟩
  · simp only [Spec.propsOk, Bool.and_eq_true, List.all_eq_true]
    refine ⟨fun x hx => ?_, ?_⟩
    · rcases rawOf_mem hx with ⟨i, v, hi, hg, rfl⟩ | ⟨y, hy, rfl⟩
      · have := (propValueOk_of_valid (hs.good.info i hi).1 (hvalid i hi v hg)).1
        simp [hs.allow i hi, this]
      · simp only [userRaw, hs.user]
        refine ⟨trivial, fun x hx => ?_⟩
        simp only [List.mem_cons, List.not_mem_nil, or_false] at hx
        rcases hx with rfl | rfl <;> exact (by decide : ((0x26 : UInt8) != 0x08) = true) ▸ rfl
    · rw [rawOf_ids]
      refine noRepeats_append owner _ _ (hs.good.nodup.filter _) ?_
      intro h
      have := (List.mem_filter.mp h).1
      have hnu := hs.good.nouser
      simp only [List.contains_eq_mem, decide_eq_false_iff_not] at hnu
      exact hnu this
  · simp only [Field.textOk, List.all_eq_true]
    intro x hx
    rcases rawOf_mem hx with ⟨i, v, hi, hg, rfl⟩ | ⟨y, hy, rfl⟩
    · have := (propValueOk_of_valid (hs.good.info i hi).1 (hvalid i hi v hg)).2
      simp [this]
    · obtain ⟨h1, h2⟩ := hu y hy
      simp [userRaw, Scalar.textOk, isText_of_validText h1, isText_of_validText h2]

/-- Payload Format Indicator: the specification's test sees what the model's test sees. -/
theorem pfi_rawOf {allowed : List UInt8} {ps : Props}
    (h : (rawOf allowed ps).contains (0x01, [.byte 1]) = true) : ps.get 0x01 = some (.byte 1) := by
  simp only [List.contains_eq_mem, decide_eq_true_eq] at h
  rcases rawOf_mem h with ⟨i, v, hi, hg, hx⟩ | ⟨y, hy, hx⟩
  · simp only [Prod.mk.injEq, List.cons.injEq, and_true] at hx
    obtain ⟨rfl, hx⟩ := hx
    cases v <;> simp only [scalarOf, Scalar.byte.injEq, reduceCtorEq] at hx
    subst hx; exact hg
  · simp only [userRaw, Prod.mk.injEq] at hx
    exact absurd hx.1 (by decide)

theorem payloadOk_rawOf {allowed : List UInt8} {ps : Props} {payload : Bytes}
    (h : Mqtt.V5.payloadOk ps payload = true) :
    Spec.payloadOk (.props (rawOf allowed ps)) payload = true := by
  simp only [Spec.payloadOk, Field.props?, Option.getD_some, Bool.or_eq_true, Bool.not_eq_true']
  cases hc : (rawOf allowed ps).contains (0x01, [Scalar.byte 1]) with
  | false => exact .inl rfl
  | true =>
    have := pfi_rawOf hc
    simp only [Mqtt.V5.payloadOk, this, beq_self_eq_true, Bool.not_true, Bool.false_or] at h
    exact .inr h

/-! ### projection -/

/-- The step of `Spec.toProps`. -/
def tpStep (acc : Props) (x : RawProp) : Props :=
  match x.2 with
  | [.str k, .str v] => acc.pushUser k v
  | [v] => if (acc.get x.1).isSome then acc else acc.set x.1 (propVal v)
  | _ => acc

theorem toProps_eq (raws : List RawProp) : Spec.toProps raws = raws.foldl tpStep Props.empty := by
  unfold Spec.toProps
  congr 1

theorem tpStep_listed (acc : Props) (i : UInt8) (v : PropVal) (h : acc.get i = none) :
    tpStep acc (i, [scalarOf v]) = acc.set i v := by
  cases v <;> simp [tpStep, scalarOf, h, propVal]

theorem tpStep_user (acc : Props) (x : Bytes × Bytes) :
    tpStep acc (userRaw x) = acc.pushUser x.1 x.2 := rfl

theorem foldl_user (u : List (Bytes × Bytes)) : ∀ acc : Props,
    (u.map userRaw).foldl tpStep acc = ⟨acc.get, acc.user ++ u⟩ := by
  induction u with
  | nil => intro acc; simp
  | cons x xs ih =>
    intro acc
    simp only [List.map_cons, List.foldl_cons, tpStep_user, ih, Props.pushUser, List.append_assoc,
      List.singleton_append]

theorem foldl_listed (ps : Props) : ∀ (todo : List UInt8) (acc : Props), todo.Nodup →
    (∀ i ∈ todo, acc.get i = none) →
    (todo.filterMap (listedRaw ps)).foldl tpStep acc =
      ⟨fun j => if j ∈ todo then ps.get j else acc.get j, acc.user⟩ := by
  intro todo
  induction todo with
  | nil => intro acc _ _; simp
  | cons i rest ih =>
    intro acc hnd hnone
    obtain ⟨h1, h2⟩ := List.nodup_cons.mp hnd
    cases hg : ps.get i with
    | none =>
      have hraw : listedRaw ps i = none := by simp [listedRaw, hg]
      rw [List.filterMap_cons, hraw]
      simp only []
      rw [ih acc h2 (fun j hj => hnone j (by simp [hj]))]
      refine Props.ext' (fun j => ?_) rfl
      by_cases hji : j = i
      · subst hji; simp [h1, hg, hnone j (by simp)]
      · simp [hji]
    | some v =>
      have hraw : listedRaw ps i = some (i, [scalarOf v]) := by simp [listedRaw, hg]
      rw [List.filterMap_cons, hraw]
      simp only [List.foldl_cons]
      rw [tpStep_listed acc i v (hnone i (by simp)), ih (acc.set i v) h2 ?_]
      · refine Props.ext' (fun j => ?_) rfl
        by_cases hji : j = i
        · subst hji; simp [h1, hg, Props.set]
        · simp [hji, Props.set]
      · intro j hj
        have hji : j ≠ i := fun h => h1 (h ▸ hj)
        simp only [Props.set, hji, if_false]
        exact hnone j (by simp [hj])

/-- The specification's projection of the section is the property set that was written. -/
theorem toProps_rawOf {allowed : List UInt8} (hnd : allowed.Nodup) {ps : Props}
    (hwf : Props.wf allowed ps) : Spec.toProps (rawOf allowed ps) = ps := by
  rw [toProps_eq, rawOf, List.foldl_append, foldl_listed ps allowed Props.empty hnd (fun _ _ => rfl),
    foldl_user]
  apply Props.ext'
  · intro j
    by_cases hj : j ∈ allowed
    · simp [hj]
    · simp [hj, Props.empty, hwf j hj]
  · simp [Props.empty]

/-! ### Subscription Identifiers of a PUBLISH -/

/-- The selector in `projectV5`. -/
def subIdOf : RawProp → Option Nat
  | (0x0B, [.varint n]) => some n
  | _ => none

theorem subIdOf_some {x : RawProp} {n : Nat} (h : subIdOf x = some n) : x.1 = 0x0B := by
  unfold subIdOf at h
  split at h
  · rfl
  · cases h

theorem subIds_le_count (l : List RawProp) :
    (l.filterMap subIdOf).length ≤ (l.map (·.1)).count 0x0B := by
  induction l with
  | nil => simp
  | cons x xs ih =>
    cases hx : subIdOf x with
    | none =>
      simp only [List.filterMap_cons, hx, List.map_cons, List.count_cons]
      omega
    | some n =>
      have := subIdOf_some hx
      simp only [List.filterMap_cons, hx, List.map_cons, List.count_cons, this, List.length_cons,
        beq_self_eq_true, if_true]
      omega

theorem subIds_rawOf {allowed : List UInt8} (hnd : allowed.Nodup) (ps : Props) :
    ((rawOf allowed ps).filterMap subIdOf).length ≤ 1 := by
  refine Nat.le_trans (subIds_le_count _) ?_
  rw [rawOf_ids, List.count_append]
  have h1 : (allowed.filter (fun i => (ps.get i).isSome)).count 0x0B ≤ 1 :=
    List.nodup_iff_count.mp (hnd.filter _) _
  have h2 : (List.replicate ps.user.length (0x26 : UInt8)).count 0x0B = 0 := by
    rw [List.count_replicate]; simp
  omega

/-! ### the package -/

/-- Everything a packet proof needs about the property section `enc` of `ps`. -/
structure PropsSpec (m : Bool) (owner : Option PType) (allowed : List UInt8) (ps : Props)
    (enc : Bytes) : Prop where
  parse : ∀ r, parseProps m (enc ++ r) = some (rawOf allowed ps, r)
  ok : Spec.propsOk owner (rawOf allowed ps) = true
  text : Field.textOk (.props (rawOf allowed ps)) = true
  proj : Spec.toProps (rawOf allowed ps) = ps
  pos : 1 ≤ enc.length

theorem propsSpec_of_encode (m : Bool) {owner : Option PType} {allowed : List UInt8}
    (hs : SpecList owner allowed) {ps : Props} (hv : Props.valid allowed ps = true)
    (hwf : Props.wf allowed ps) {enc : Bytes} (he : ps.encode allowed = .ok enc)
    (hlt : enc.length < 268435456) : PropsSpec m owner allowed ps enc := by
  rcases Props.encode_cases allowed ps with ⟨s, _, h1⟩ | ⟨m', n, _, hb, he', _, _, _⟩
  · rw [h1] at he; cases he
  · rw [he'] at he; cases he
    have hb' := Props.bodyLen_eq hb
    have hn : n < 268435456 := by
      have : (ps.wire allowed n).length = (writeVarInt n).length + n := by
        simp only [Props.wire, List.length_append, encodeUser_length]; omega
      omega
    have hvl := writeVarInt_ne_nil n
    have hpos : 1 ≤ (ps.wire allowed n).length := by
      simp only [Props.wire, List.length_append]
      cases hw : writeVarInt n with
      | nil => exact absurd hw hvl
      | cons _ _ => simp; omega
    obtain ⟨h1, h2⟩ := propsOk_rawOf hs hv
    exact ⟨parseProps_wire m hs hv hb hn, h1, h2, toProps_rawOf hs.good.nodup hwf, hpos⟩

theorem parseItems_props (m : Bool) (is : List Item) (bs r r' : Bytes) (ps : List RawProp)
    (fs : List Field) (h1 : parseProps m bs = some (ps, r)) (h2 : parseItems m is r = some (fs, r')) :
    parseItems m (.props :: is) bs = some (.props ps :: fs, r') := by
  simp only [parseItems, h1, h2, bind, Option.bind]

/-! ## the numeric tables -/

set_option maxRecDepth 100000 in
/-- Every reason-code table of the running code is the table of the standard. -/
theorem reasonCodes_agree :
    ∀ kt ∈ [(Gen.CodeKind.connectReason, Spec.PType.connack), (.pubackReason, .puback),
        (.pubrecReason, .pubrec), (.pubrelReason, .pubrel), (.pubcompReason, .pubcomp),
        (.subscribeReason, .suback), (.unsubscribeReason, .unsuback),
        (.disconnectReason, .disconnect), (.authReason, .auth)],
      ∀ b : Fin 256, (Gen.variants kt.1).contains (UInt8.ofNat b.val) =
        Spec.reasonCodeOk kt.2 (UInt8.ofNat b.val) := by decide

theorem reasonCodeOk_of_isVariant {k : Gen.CodeKind} {t : PType}
    (h : (k, t) ∈ [(Gen.CodeKind.connectReason, Spec.PType.connack), (.pubackReason, .puback),
        (.pubrecReason, .pubrec), (.pubrelReason, .pubrel), (.pubcompReason, .pubcomp),
        (.subscribeReason, .suback), (.unsubscribeReason, .unsuback),
        (.disconnectReason, .disconnect), (.authReason, .auth)])
    {c : UInt8} (hv : isVariant k c = true) : reasonCodeOk t c = true := by
  have := reasonCodes_agree (k, t) h ⟨c.toNat, c.toNat_lt⟩
  simp only [UInt8.ofNat_toNat] at this
  rw [← this]; exact hv

/-! ## assembly: frame ▸ fields ▸ valid ▸ project ▸ model packet -/

/-- `Spec.decodeV5` (`m = true`) and `Spec.decodeV5Loose` (`m = false`). -/
def decodeV5With (m : Bool) (bs : Bytes) : Option (Packet × Nat) :=
  (parseV5With m bs).bind fun (p, n) => (toModelV5 p).map (·, n)

theorem decodeV5_eq : Spec.decodeV5 = decodeV5With true := rfl
theorem decodeV5Loose_eq : Spec.decodeV5Loose = decodeV5With false := rfl

theorem decodeV5With_of (m : Bool) (cb : UInt8) (body t : Bytes) (ty : PType)
    (req : Option UInt8) (fs : List Field) (p : Packet) (subIds : List Nat)
    (hn : body.length < 268435456)
    (hp : ptypeOfNibble true (UInt8.ofNat (bits cb 4 4)) = some (ty, req))
    (hf : req.all (· == UInt8.ofNat (bits cb 0 4)) = true)
    (hfs : ∀ total, fieldsV5 m ⟨ty, UInt8.ofNat (bits cb 0 4), body, total⟩ = some fs)
    (hv : validV5 ty (UInt8.ofNat (bits cb 0 4)) fs = true)
    (hpr : projectV5 ty (UInt8.ofNat (bits cb 0 4)) fs = some ⟨p, subIds⟩)
    (hs : subIds.length ≤ 1) :
    decodeV5With m (cb :: (writeVarInt body.length ++ body) ++ t) =
      some (p, 1 + varIntSize body.length + body.length) := by
  have hs' : ¬ subIds.length > 1 := by omega
  simp only [decodeV5With, parseV5With,
    splitFrame_write m true cb body.length body t ty req hn rfl hp hf, bind,
    Option.bind, hfs, hv, guard, if_true, pure, hpr, toModelV5, hs', if_false, Option.map]

theorem fieldsV5_of_body (m : Bool) (fr : Spec.Frame) (fs : List Field) (hne : fr.ptype ≠ .connect)
    (h : parseBody m (layoutV5 fr.ptype fr.flags fr.body.length) fr.body = some fs) :
    fieldsV5 m fr = some fs := by
  simp only [fieldsV5, h, bind, Option.bind]
  split
  · rename_i hc; exact absurd hc hne
  · rfl

/-- The encoder's output on a packet with a body whose size fits. -/
theorem encode_of_fits (debug : Bool) (p : Packet) (cb : UInt8) (len : PanicOr Nat)
    (body : PanicOr Bytes) (hparts : p.parts = some (cb, len, body))
    (hfit : ∃ n, p.encodeLen = .ok n) :
    ∃ b, body = .ok b ∧ b.length < 268435456 ∧
      p.encode debug = .ok (.dynamic (cb :: (writeVarInt b.length ++ b))) := by
  obtain ⟨n, hlen, hn⟩ := Packet.len_of_fits p cb len body hparts hfit
  obtain ⟨b, hb, hbl⟩ := Packet.parts_partsOk p cb len body hparts n hlen
  have hbl := hbl hn
  refine ⟨b, hb, by omega, ?_⟩
  rw [(Packet.encode_eq_parts debug p cb len body hparts).1]
  subst hlen hb
  have htl : totalLen n = .ok (n + 1 + Spec.varIntSize n) := by rw [totalLen_closed, if_pos hn]
  have hlen : (cb :: (writeVarInt n ++ b)).length = n + 1 + Spec.varIntSize n := by
    simp only [List.length_cons, List.length_append, writeVarInt_length n hn, hbl]; omega
  simp only [encodeParts, htl, hlen, bne_self_eq_false, Bool.and_false, Bool.false_eq_true,
    if_false, hbl]

/-- From the per-type statement to the statement of C10. -/
theorem spec_of_fits (m debug : Bool) (p : Packet) (cb : UInt8) (len : PanicOr Nat)
    (body : PanicOr Bytes) (t : Bytes) (hparts : p.parts = some (cb, len, body))
    (hfit : ∃ n, p.encodeLen = .ok n)
    (hdec : ∀ b, body = .ok b → b.length < 268435456 →
      decodeV5With m (cb :: (writeVarInt b.length ++ b) ++ t) =
        some (p, 1 + varIntSize b.length + b.length)) :
    ∃ vb, p.encode debug = .ok vb ∧ decodeV5With m (vb.asRef ++ t) = some (p, vb.asRef.length) := by
  obtain ⟨b, hb, hbl, henc⟩ := encode_of_fits debug p cb len body hparts hfit
  refine ⟨_, henc, ?_⟩
  simp only [VarBytes.asRef]
  rw [hdec b hb hbl, List.length_cons, List.length_append, writeVarInt_length _ hbl]
  congr 2; omega

/-! ## per packet type -/

theorem spec_empty (m : Bool) (cb : UInt8) (ty : PType) (p : Packet) (t : Bytes)
    (hp : ptypeOfNibble true (UInt8.ofNat (bits cb 4 4)) = some (ty, some 0))
    (hf : UInt8.ofNat (bits cb 0 4) = 0) (hne : ty ≠ .connect)
    (hl : layoutV5 ty 0 0 = [])
    (hv : validV5 ty 0 [] = true) (hpr : projectV5 ty 0 [] = some ⟨p, []⟩) :
    decodeV5With m (cb :: (writeVarInt 0 ++ []) ++ t) = some (p, 1 + varIntSize 0 + 0) := by
  refine decodeV5With_of m cb [] t ty (some 0) [] p [] (by simp) hp (by simp [hf])
    (fun total => fieldsV5_of_body m _ _ hne ?_) (by rw [hf]; exact hv) (by rw [hf]; exact hpr)
    (by simp)
  simp only [hf, List.length_nil, hl]; rfl

theorem bit_b2u8 (b : Bool) : bit (b2u8 b) 0 = b ∧ b2u8 b ≤ 1 := by
  cases b <;> exact ⟨by decide, by decide⟩

theorem spec_connack (m : Bool) (c : Connack) (t : Bytes)
    (hr : isVariant .connectReason c.reasonCode = true)
    (hp : Props.valid connackProps c.properties = true) (hwf : Props.wf connackProps c.properties)
    (b : Bytes) (hb : c.encode = .ok b) (hbl : b.length < 268435456) :
    decodeV5With m (0b00100000 :: (writeVarInt b.length ++ b) ++ t) =
      some (.connack c, 1 + varIntSize b.length + b.length) := by
  obtain ⟨sp, rc, ps⟩ := c
  simp only at hr hp hwf
  unfold Connack.encode at hb
  cases he : ps.encode connackProps with
  | error s => simp [he, bind, Except.bind] at hb
  | ok enc =>
    simp only [he, bind, Except.bind, pure, Except.pure, Except.ok.injEq] at hb
    subst hb
    have P := propsSpec_of_encode m specList_connack hp hwf he (by simp at hbl; omega)
    obtain ⟨hb0, hb1⟩ := bit_b2u8 sp
    refine decodeV5With_of m _ _ t .connack (some 0)
      [.val (.byte (b2u8 sp)), .val (.byte rc), .props (rawOf connackProps ps)] _ [] hbl
      (by decide) (by decide) (fun total => fieldsV5_of_body m _ _ (by simp) ?_) ?_ ?_ (by simp)
    · apply parseBody_of_items
      have := P.parse []
      rw [List.append_nil] at this
      exact parseItems_val m .byte _ _ _ _ _ _ (parseWire_byte m _ _)
        (parseItems_val m .byte _ _ _ _ _ _ (parseWire_byte m _ _)
          (parseItems_props m _ _ _ _ _ _ this (parseItems_nil m [])))
    · have hrc := reasonCodeOk_of_isVariant (t := .connack) (by simp) hr
      have e2 : ∀ b, Field.textOk (.val (.byte b)) = true := fun _ => rfl
      simp only [validV5, List.all_cons, List.all_nil, e2, P.text, Bool.and_true, Bool.true_and,
        hrc, Field.propsOk, P.ok, decide_eq_true_eq]
      exact hb1
    · simp only [projectV5, hb0, Field.toProps, Field.props?, Option.getD_some, P.proj]

theorem textOk_u16 (v : UInt16) : Field.textOk (.val (.u16 v)) = true := rfl
theorem textOk_byte (b : UInt8) : Field.textOk (.val (.byte b)) = true := rfl
theorem textOk_absent : Field.textOk .absent = true := rfl
theorem toProps_nil : Spec.toProps [] = Props.empty := rfl

theorem pidOk_of_valid {pid : Pid} (h : validPid pid = true) :
    Field.pidOk (.val (.u16 pid.val)) = true := by
  have := (validPid_iff pid).mp h
  simpa [Field.pidOk] using this

theorem spec_ack (m : Bool) (cb : UInt8) (ty : PType) (k : Gen.CodeKind) (mk : Ack → Packet)
    (a : Ack) (t : Bytes) (req : Option UInt8)
    (hp : ptypeOfNibble true (UInt8.ofNat (bits cb 4 4)) = some (ty, req))
    (hf : req.all (· == UInt8.ofNat (bits cb 0 4)) = true) (hne : ty ≠ .connect)
    (hl : ∀ flags len, layoutV5 ty flags len =
      [.val .u16, if len < 3 then .absent else .val .byte, if len < 4 then .absent else .props])
    (hval : ∀ flags pid code props, validV5 ty flags [pid, code, props] =
      ([pid, code, props].all Field.textOk &&
        (pid.pidOk && code.reasonOk ty && props.propsOk (some ty))))
    (hproj : ∀ flags v code props, projectV5 ty flags [.val (.u16 v), code, props] =
      some ⟨mk ⟨⟨v⟩, code.byte?.getD 0, props.toProps⟩, []⟩)
    (hkt : (k, ty) ∈ [(Gen.CodeKind.connectReason, Spec.PType.connack), (.pubackReason, .puback),
        (.pubrecReason, .pubrec), (.pubrelReason, .pubrel), (.pubcompReason, .pubcomp),
        (.subscribeReason, .suback), (.unsubscribeReason, .unsuback),
        (.disconnectReason, .disconnect), (.authReason, .auth)])
    (hsl : SpecList (some ty) ackProps) (hdef : Gen.defaultCode k = 0)
    (hpid : validPid a.pid = true) (hr : isVariant k a.reasonCode = true)
    (hpv : Props.valid ackProps a.properties = true) (hwf : Props.wf ackProps a.properties)
    (b : Bytes) (hb : a.encode k = .ok b) (hbl : b.length < 268435456) :
    decodeV5With m (cb :: (writeVarInt b.length ++ b) ++ t) =
      some (mk a, 1 + varIntSize b.length + b.length) := by
  obtain ⟨pid, rc, ps⟩ := a
  simp only at hpid hr hpv hwf
  have hpidOk := pidOk_of_valid hpid
  have hrc := reasonCodeOk_of_isVariant hkt hr
  unfold Ack.encode at hb
  by_cases hd : ps.isDefault ackProps = true
  · have hps := Props.eq_empty_of_isDefault hd hwf
    subst hps
    by_cases hrc0 : rc = Gen.defaultCode k
    · subst hrc0
      simp [hd, pure, Except.pure] at hb
      subst hb
      refine decodeV5With_of m cb _ t ty req [.val (.u16 pid.val), .absent, .absent] _ [] hbl hp hf
        (fun total => fieldsV5_of_body m _ _ hne ?_) ?_ ?_ (by simp)
      · simp only [hl, u16be_length, Nat.lt_add_one, if_true, (by omega : 2 < 4)]
        apply parseBody_of_items
        have := parseWire_u16be m pid.val []
        rw [List.append_nil] at this
        exact parseItems_val m .u16 _ _ _ _ _ _ this
          (parseItems_absent m _ _ _ _ (parseItems_absent m _ _ _ _ (parseItems_nil m [])))
      · simp only [hval, List.all_cons, List.all_nil, textOk_u16, textOk_absent, hpidOk,
          Field.reasonOk, Field.propsOk, Bool.and_self]
      · simp only [hproj, Field.byte?, Option.getD_none, Field.toProps, Field.props?, toProps_nil, hdef]
    · simp [hd, hrc0, pure, Except.pure] at hb
      subst hb
      refine decodeV5With_of m cb _ t ty req [.val (.u16 pid.val), .val (.byte rc), .absent] _ [] hbl hp hf
        (fun total => fieldsV5_of_body m _ _ hne ?_) ?_ ?_ (by simp)
      · simp only [hl, List.length_append, u16be_length, List.length_singleton, Nat.lt_irrefl, if_false,
          (by omega : 2 + 1 < 4), if_true]
        apply parseBody_of_items
        exact parseItems_val m .u16 _ _ _ _ _ _ (parseWire_u16be m pid.val _)
          (parseItems_val m .byte _ _ _ _ _ _ (parseWire_byte m rc [])
            (parseItems_absent m _ _ _ _ (parseItems_nil m [])))
      · simp only [hval, List.all_cons, List.all_nil, textOk_u16, textOk_absent, textOk_byte, hpidOk,
          Field.reasonOk, hrc, Field.propsOk, Bool.and_self]
      · simp only [hproj, Field.byte?, Option.getD_some, Field.toProps, Field.props?,
          Option.getD_none, toProps_nil]
  · cases he : ps.encode ackProps with
    | error s => simp [hd, he, bind, Except.bind] at hb
    | ok enc =>
      simp [hd, he, bind, Except.bind, pure, Except.pure] at hb
      subst hb
      have P := propsSpec_of_encode m hsl hpv hwf he (by simp at hbl; omega)
      have hpos := P.pos
      refine decodeV5With_of m cb _ t ty req
        [.val (.u16 pid.val), .val (.byte rc), .props (rawOf ackProps ps)] _ [] hbl hp hf
        (fun total => fieldsV5_of_body m _ _ hne ?_) ?_ ?_ (by simp)
      · have h3 : ¬ (u16be pid.val ++ rc :: enc).length < 3 := by simp; omega
        have h4 : ¬ (u16be pid.val ++ rc :: enc).length < 4 := by simp; omega
        simp only [hl, h3, h4, if_false]
        apply parseBody_of_items
        have := P.parse []
        rw [List.append_nil] at this
        exact parseItems_val m .u16 _ _ _ _ _ _ (parseWire_u16be m pid.val _)
          (parseItems_val m .byte _ _ _ _ _ _ (parseWire_byte m rc _)
            (parseItems_props m _ _ _ _ _ _ this (parseItems_nil m [])))
      · simp only [hval, List.all_cons, List.all_nil, textOk_u16, P.text, textOk_byte, hpidOk,
          Field.reasonOk, hrc, Field.propsOk, P.ok, Bool.and_self]
      · simp only [hproj, Field.byte?, Option.getD_some, Field.toProps, Field.props?, P.proj]

theorem spec_disconnect (m : Bool) (d : Disconnect) (t : Bytes)
    (hr : isVariant .disconnectReason d.reasonCode = true)
    (hpv : Props.valid disconnectProps d.properties = true)
    (hwf : Props.wf disconnectProps d.properties)
    (b : Bytes) (hb : d.encode = .ok b) (hbl : b.length < 268435456) :
    decodeV5With m (0b11100000 :: (writeVarInt b.length ++ b) ++ t) =
      some (.disconnect d, 1 + varIntSize b.length + b.length) := by
  obtain ⟨rc, ps⟩ := d
  simp only at hr hpv hwf
  have hrc := reasonCodeOk_of_isVariant (t := .disconnect) (by simp) hr
  unfold Disconnect.encode at hb
  by_cases hd : ps.isDefault disconnectProps = true
  · have hps := Props.eq_empty_of_isDefault hd hwf
    subst hps
    by_cases hrc0 : rc = Gen.defaultCode .disconnectReason
    · subst hrc0
      simp [hd, pure, Except.pure] at hb
      subst hb
      exact decodeV5With_of m _ _ t .disconnect (some 0) [.absent, .absent] _ [] hbl
        (by decide) (by decide) (fun total => fieldsV5_of_body m _ _ (by simp) rfl) rfl rfl (by simp)
    · simp [hd, hrc0, pure, Except.pure] at hb
      subst hb
      refine decodeV5With_of m _ _ t .disconnect (some 0) [.val (.byte rc), .absent] _ [] hbl
        (by decide) (by decide) (fun total => fieldsV5_of_body m _ _ (by simp) rfl) ?_ rfl (by simp)
      simp only [validV5, List.all_cons, List.all_nil, textOk_absent, textOk_byte,
        Field.reasonOk, hrc, Field.propsOk, Bool.and_self]
  · cases he : ps.encode disconnectProps with
    | error s => simp [hd, he, bind, Except.bind] at hb
    | ok enc =>
      simp [hd, he, bind, Except.bind, pure, Except.pure] at hb
      subst hb
      have P := propsSpec_of_encode m specList_disconnect hpv hwf he (by simp at hbl; omega)
      have hpos := P.pos
      refine decodeV5With_of m _ _ t .disconnect (some 0)
        [.val (.byte rc), .props (rawOf disconnectProps ps)] _ [] hbl (by decide) (by decide)
        (fun total => fieldsV5_of_body m _ _ (by simp) ?_) ?_ ?_ (by simp)
      · have h1 : ¬ (rc :: enc).length < 1 := by simp
        have h2 : ¬ (rc :: enc).length < 2 := by simp; omega
        simp only [layoutV5, h1, h2, if_false]
        apply parseBody_of_items
        have := P.parse []
        rw [List.append_nil] at this
        exact parseItems_val m .byte _ _ _ _ _ _ (parseWire_byte m rc _)
            (parseItems_props m _ _ _ _ _ _ this (parseItems_nil m []))
      · simp only [validV5, List.all_cons, List.all_nil, P.text, textOk_byte,
          Field.reasonOk, hrc, Field.propsOk, P.ok, Bool.and_self]
      · simp only [projectV5, Field.byte?, Option.getD_some, Field.toProps, Field.props?, P.proj]

theorem spec_auth (m : Bool) (a : Auth) (t : Bytes)
    (hr : isVariant .authReason a.reasonCode = true)
    (hpv : Props.valid authProps a.properties = true)
    (hwf : Props.wf authProps a.properties)
    (b : Bytes) (hb : a.encode = .ok b) (hbl : b.length < 268435456) :
    decodeV5With m (0b11110000 :: (writeVarInt b.length ++ b) ++ t) =
      some (.auth a, 1 + varIntSize b.length + b.length) := by
  obtain ⟨rc, ps⟩ := a
  simp only at hr hpv hwf
  have hrc := reasonCodeOk_of_isVariant (t := .auth) (by simp) hr
  unfold Auth.encode at hb
  by_cases hc : rc = Gen.defaultCode .authReason ∧ ps.isDefault authProps = true
  · obtain ⟨hrc0, hd⟩ := hc
    have hps := Props.eq_empty_of_isDefault hd hwf
    subst hps hrc0
    simp [hd, pure, Except.pure] at hb
    subst hb
    exact decodeV5With_of m _ _ t .auth (some 0) [.absent, .absent] _ [] hbl
      (by decide) (by decide) (fun total => fieldsV5_of_body m _ _ (by simp) rfl) rfl rfl (by simp)
  · have hc2 : (rc != Gen.defaultCode .authReason || !(ps.isDefault authProps)) = true := by
      by_cases hrc0 : rc = Gen.defaultCode .authReason
      · simp [hrc0] at hc ⊢; exact hc
      · simp [hrc0]
    cases he : ps.encode authProps with
    | error s => simp [hc2, he, bind, Except.bind] at hb
    | ok enc =>
      simp only [hc2, if_true, he, bind, Except.bind, pure, Except.pure, Except.ok.injEq] at hb
      subst hb
      have P := propsSpec_of_encode m specList_auth hpv hwf he (by simp at hbl; omega)
      refine decodeV5With_of m _ _ t .auth (some 0)
        [.val (.byte rc), .props (rawOf authProps ps)] _ [] hbl (by decide) (by decide)
        (fun total => fieldsV5_of_body m _ _ (by simp) ?_) ?_ ?_ (by simp)
      · have h1 : ¬ (rc :: enc).length = 0 := by simp
        simp only [layoutV5, h1, if_false]
        apply parseBody_of_items
        have := P.parse []
        rw [List.append_nil] at this
        exact parseItems_val m .byte _ _ _ _ _ _ (parseWire_byte m rc _)
            (parseItems_props m _ _ _ _ _ _ this (parseItems_nil m []))
      · simp only [validV5, List.all_cons, List.all_nil, P.text, textOk_byte,
          Field.reasonOk, hrc, Field.propsOk, P.ok, Bool.and_self]
      · simp only [projectV5, Field.byte?, Option.getD_some, Field.toProps, Field.props?, P.proj]

theorem parseBody_pid_props_many {α : Type} (m : Bool) (v : UInt16) (enc : Bytes)
    (raws : List RawProp) (hP : ∀ r, parseProps m (enc ++ r) = some (raws, r))
    (row : List WireType) (encx : α → Bytes) (val : α → List Scalar) (xs : List α)
    (h : ∀ x ∈ xs, ∀ r, parseRow m row (encx x ++ r) = some (val x, r))
    (hpos : ∀ x ∈ xs, encx x ≠ []) :
    parseBody m [.val .u16, .props, .many row] (u16be v ++ enc ++ xs.flatMap encx) =
      some [.val (.u16 v), .props raws, .many (xs.map val)] := by
  apply parseBody_of_items
  rw [List.append_assoc]
  exact parseItems_val m .u16 _ _ _ _ _ _ (parseWire_u16be m v _)
    (parseItems_props m _ _ _ _ _ _ (hP _)
      (parseItems_many m row _ _ (parseRows_flatMap m row encx val xs h hpos _ (Nat.le_refl _))))

theorem textOk_many_bytes (codes : List UInt8) :
    Field.textOk (.many (codes.map fun c => [Scalar.byte c])) = true := by
  simp [Field.textOk, Scalar.textOk]

theorem spec_codesAck (m : Bool) (cb : UInt8) (ty : PType) (k : Gen.CodeKind)
    (mk : CodesAck → Packet) (s : CodesAck) (t : Bytes) (req : Option UInt8)
    (hp : ptypeOfNibble true (UInt8.ofNat (bits cb 4 4)) = some (ty, req))
    (hf : req.all (· == UInt8.ofNat (bits cb 0 4)) = true) (hne : ty ≠ .connect)
    (hl : ∀ flags len, layoutV5 ty flags len = [.val .u16, .props, .many [.byte]])
    (hval : ∀ flags pid props rows, validV5 ty flags [pid, props, .many rows] =
      ([pid, props, .many rows].all Field.textOk &&
        (pid.pidOk && props.propsOk (some ty) && (Lenient.emptyCodeList || !rows.isEmpty) &&
          (rowBytes rows).all (reasonCodeOk ty))))
    (hproj : ∀ flags v props rows, projectV5 ty flags [.val (.u16 v), props, .many rows] =
      some ⟨mk ⟨⟨v⟩, props.toProps, rowBytes rows⟩, []⟩)
    (hkt : (k, ty) ∈ [(Gen.CodeKind.connectReason, Spec.PType.connack), (.pubackReason, .puback),
        (.pubrecReason, .pubrec), (.pubrelReason, .pubrel), (.pubcompReason, .pubcomp),
        (.subscribeReason, .suback), (.unsubscribeReason, .unsuback),
        (.disconnectReason, .disconnect), (.authReason, .auth)])
    (hsl : SpecList (some ty) ackProps)
    (hpid : validPid s.pid = true) (hpv : Props.valid ackProps s.properties = true)
    (hwf : Props.wf ackProps s.properties) (hall : s.topics.all (isVariant k) = true)
    (b : Bytes) (hb : s.encode = .ok b) (hbl : b.length < 268435456) :
    decodeV5With m (cb :: (writeVarInt b.length ++ b) ++ t) =
      some (mk s, 1 + varIntSize b.length + b.length) := by
  obtain ⟨pid, ps, codes⟩ := s
  simp only [List.all_eq_true] at hpid hpv hwf hall
  have hpidOk := pidOk_of_valid hpid
  unfold CodesAck.encode at hb
  cases he : ps.encode ackProps with
  | error s => simp [he, bind, Except.bind] at hb
  | ok enc =>
    simp only [he, bind, Except.bind, pure, Except.pure, Except.ok.injEq] at hb
    subst hb
    have P := propsSpec_of_encode m hsl hpv hwf he (by simp at hbl; omega)
    let val : UInt8 → List Scalar := fun c => [.byte c]
    have hrb : rowBytes (codes.map val) = codes :=
      V3.SpecEnc.filterMap_map_id _ val codes (fun c _ => rfl)
    have hflat : codes.flatMap (fun c => [c]) = codes := by
      induction codes with
      | nil => rfl
      | cons c cs ih => simp
    refine decodeV5With_of m cb _ t ty req
      [.val (.u16 pid.val), .props (rawOf ackProps ps), .many (codes.map val)] _ [] hbl hp hf
      (fun total => fieldsV5_of_body m _ _ hne ?_) ?_ ?_ (by simp)
    · simp only [hl]
      have := parseBody_pid_props_many m pid.val enc _ P.parse [.byte] (fun c => [c]) val codes
        (fun c _ r => parseRow_cons m .byte _ _ _ _ _ _ (parseWire_byte m c r) (parseRow_nil m r))
        (fun c _ => by simp)
      rwa [hflat] at this
    · simp only [hval, hrb, List.all_cons, List.all_nil, textOk_u16, P.text, textOk_many_bytes, val,
        hpidOk, Field.propsOk, P.ok, Lenient.emptyCodeList, Bool.true_or, Bool.and_true,
        Bool.true_and, List.all_eq_true]
      exact fun c hc => reasonCodeOk_of_isVariant hkt (hall c hc)
    · simp only [hproj, hrb, Field.toProps, Field.props?, Option.getD_some, P.proj]

/-- §3.8.3.1: the options byte the encoder writes, read with the bit positions of the standard. -/
theorem subOpts_toU8 (o : SubOpts) (hv : o.valid = true) :
    subOpts o.toU8 = o ∧ ∀ f, subOptsOk f o.toU8 = true := by
  obtain ⟨q, nl, rap, rh⟩ := o
  simp only [SubOpts.valid, Bool.and_eq_true] at hv
  have key : subOpts (SubOpts.toU8 ⟨q, nl, rap, rh⟩) = ⟨q, nl, rap, rh⟩ ∧
      bits (SubOpts.toU8 ⟨q, nl, rap, rh⟩) 0 2 ≠ 3 ∧ bits (SubOpts.toU8 ⟨q, nl, rap, rh⟩) 4 2 ≠ 3 ∧
      bits (SubOpts.toU8 ⟨q, nl, rap, rh⟩) 6 2 = 0 := by
    rcases isVariant_qos hv.1 with rfl | rfl | rfl <;>
      rcases isVariant_retainHandling hv.2 with rfl | rfl | rfl <;>
      cases nl <;> cases rap <;> decide
  refine ⟨key.1, fun f => ?_⟩
  simp [subOptsOk, key.2.1, key.2.2.1, key.2.2.2, Lenient.noLocalOnShared]

theorem spec_subscribe (m : Bool) (s : Subscribe) (t : Bytes) (hpid : validPid s.pid = true)
    (hpv : Props.valid subscribeProps s.properties = true)
    (hwf : Props.wf subscribeProps s.properties) (hne : s.topics.isEmpty = false)
    (hall : s.topics.all (fun (f, o) => validTopicFilter f && o.valid) = true)
    (b : Bytes) (hb : s.encode = .ok b) (hbl : b.length < 268435456) :
    decodeV5With m (0b10000010 :: (writeVarInt b.length ++ b) ++ t) =
      some (.subscribe s, 1 + varIntSize b.length + b.length) := by
  obtain ⟨pid, ps, ts⟩ := s
  simp only [List.all_eq_true, Bool.and_eq_true, Prod.forall] at hpid hpv hwf hall hne
  have hpidOk := pidOk_of_valid hpid
  unfold Subscribe.encode at hb
  cases he : ps.encode subscribeProps with
  | error s => simp [he, bind, Except.bind] at hb
  | ok enc =>
    simp only [he, bind, Except.bind, pure, Except.pure, Except.ok.injEq] at hb
    subst hb
    have P := propsSpec_of_encode m specList_subscribe hpv hwf he (by simp at hbl; omega)
    let val : Topic.TopicFilter × SubOpts → List Scalar := fun x => [.str x.1.text, .byte x.2.toU8]
    refine decodeV5With_of m _ _ t .subscribe (some 2)
      [.val (.u16 pid.val), .props (rawOf subscribeProps ps), .many (ts.map val)] _ [] hbl
      (by decide) (by decide) (fun total => fieldsV5_of_body m _ _ (by simp) ?_) ?_ ?_ (by simp)
    · simp only [layoutV5]
      refine parseBody_pid_props_many m pid.val enc _ P.parse _ _ val ts ?_ ?_
      · rintro ⟨f, o⟩ hx r
        have hl := length_of_validTopicFilter (hall f o hx).1
        simp only [List.append_assoc]
        exact parseRow_cons m .str _ _ _ _ _ _ (parseWire_str m f.text _ hl)
          (parseRow_cons m .byte _ _ _ _ _ _ (parseWire_byte m o.toU8 r) (parseRow_nil m r))
      · rintro ⟨f, o⟩ _; simp
    · have htm : Field.textOk (.many (ts.map val)) = true := by
        simp only [Field.textOk, List.all_map, List.all_eq_true, Function.comp_apply]
        rintro ⟨f, o⟩ hx
        simp [val, Scalar.textOk, isText_of_validTopicFilter (hall f o hx).1]
      simp only [validV5, List.all_cons, List.all_nil, textOk_u16, P.text, htm, hpidOk, Field.propsOk,
        P.ok, List.all_map, Bool.and_true, Bool.true_and, List.all_eq_true,
        Function.comp_apply, List.isEmpty_map, hne, Bool.not_false]
      rintro ⟨f, o⟩ hx
      simp [val, isTopicFilter_of_valid (hall f o hx).1, (subOpts_toU8 o (hall f o hx).2).2]
    · simp only [projectV5, Field.toProps, Field.props?, Option.getD_some, P.proj]
      congr 4
      refine V3.SpecEnc.filterMap_map_id _ val ts ?_
      rintro ⟨f, o⟩ hx
      simp [val, topicFilterOf_of_valid (hall f o hx).1, (subOpts_toU8 o (hall f o hx).2).1]

theorem spec_unsubscribe (m : Bool) (u : Unsubscribe) (t : Bytes) (hpid : validPid u.pid = true)
    (hpv : Props.valid unsubscribeProps u.properties = true)
    (hwf : Props.wf unsubscribeProps u.properties) (hne : u.topics.isEmpty = false)
    (hall : u.topics.all validTopicFilter = true)
    (b : Bytes) (hb : u.encode = .ok b) (hbl : b.length < 268435456) :
    decodeV5With m (0b10100010 :: (writeVarInt b.length ++ b) ++ t) =
      some (.unsubscribe u, 1 + varIntSize b.length + b.length) := by
  obtain ⟨pid, ps, ts⟩ := u
  simp only [List.all_eq_true] at hpid hpv hwf hall hne
  have hpidOk := pidOk_of_valid hpid
  unfold Unsubscribe.encode at hb
  cases he : ps.encode unsubscribeProps with
  | error s => simp [he, bind, Except.bind] at hb
  | ok enc =>
    simp only [he, bind, Except.bind, pure, Except.pure, Except.ok.injEq] at hb
    subst hb
    have P := propsSpec_of_encode m specList_unsubscribe hpv hwf he (by simp at hbl; omega)
    let val : Topic.TopicFilter → List Scalar := fun f => [.str f.text]
    refine decodeV5With_of m _ _ t .unsubscribe (some 2)
      [.val (.u16 pid.val), .props (rawOf unsubscribeProps ps), .many (ts.map val)] _ [] hbl
      (by decide) (by decide) (fun total => fieldsV5_of_body m _ _ (by simp) ?_) ?_ ?_ (by simp)
    · simp only [layoutV5]
      refine parseBody_pid_props_many m pid.val enc _ P.parse _ _ val ts ?_ ?_
      · intro f hx r
        have hl := length_of_validTopicFilter (hall f hx)
        exact parseRow_cons m .str _ _ _ _ _ _ (parseWire_str m f.text _ hl) (parseRow_nil m r)
      · intro f _; simp [writeBytes, u16be]
    · have htm : Field.textOk (.many (ts.map val)) = true := by
        simp only [Field.textOk, List.all_map, List.all_eq_true, Function.comp_apply]
        intro f hx
        simp [val, Scalar.textOk, isText_of_validTopicFilter (hall f hx)]
      simp only [validV5, List.all_cons, List.all_nil, textOk_u16, P.text, htm, hpidOk, Field.propsOk,
        P.ok, List.all_map, Bool.and_true, Bool.true_and, List.all_eq_true,
        Function.comp_apply, List.isEmpty_map, hne, Bool.not_false]
      intro f hx
      simp [val, isTopicFilter_of_valid (hall f hx)]
    · simp only [projectV5, Field.toProps, Field.props?, Option.getD_some, P.proj]
      congr 4
      refine V3.SpecEnc.filterMap_map_id _ val ts ?_
      intro f hx
      simp [val, topicFilterOf_of_valid (hall f hx)]

/-! ### PUBLISH -/

theorem Publish.controlByte_spec (p : Publish) :
    ptypeOfNibble true (UInt8.ofNat (bits p.controlByte 4 4)) = some (.publish, none) ∧
    pubQos (UInt8.ofNat (bits p.controlByte 0 4)) = (qosNum p.qosPid).toNat ∧
    pubDup (UInt8.ofNat (bits p.controlByte 0 4)) = p.dup ∧
    pubRetain (UInt8.ofNat (bits p.controlByte 0 4)) = p.retain := by
  obtain ⟨dup, retain, qp, topic, payload, ps⟩ := p
  cases dup <;> cases retain <;> cases qp <;> (simp [Publish.controlByte, qosNum]; try decide)

/-- The Packet Identifier field of a PUBLISH as the specification's parser returns it. -/
def pidField : QosPid → Field
  | .level0 => .absent
  | .level1 p => .val (.u16 p.val)
  | .level2 p => .val (.u16 p.val)

theorem parseItems_pid (m : Bool) (qp : QosPid) (n : Nat) (hq : n = (qosNum qp).toNat)
    (is : List Item) (r r' : Bytes) (fs : List Field) (h2 : parseItems m is r = some (fs, r')) :
    parseItems m ((if n = 0 then Item.absent else .val .u16) :: is) (pidBytes qp ++ r) =
      some (pidField qp :: fs, r') := by
  subst hq
  cases qp with
  | level0 => exact parseItems_absent m is r r' fs h2
  | level1 p => exact parseItems_val m .u16 is _ r r' _ fs (parseWire_u16be m p.val r) h2
  | level2 p => exact parseItems_val m .u16 is _ r r' _ fs (parseWire_u16be m p.val r) h2

theorem pidField_spec (qp : QosPid) (hq : QosPid.valid qp = true) :
    (pidField qp).pidOk = true ∧ (pidField qp).textOk = true ∧ (qosNum qp).toNat ≠ 3 ∧
    (match (qosNum qp).toNat, (pidField qp).u16? with
      | 1, some v => QosPid.level1 ⟨v⟩
      | 2, some v => .level2 ⟨v⟩
      | _, _ => .level0) = qp := by
  cases qp with
  | level0 => exact ⟨rfl, rfl, by decide, rfl⟩
  | level1 p => exact ⟨pidOk_of_valid hq, rfl, by simp only [qosNum]; decide, rfl⟩
  | level2 p => exact ⟨pidOk_of_valid hq, rfl, by simp only [qosNum]; decide, rfl⟩

theorem projectV5_publish (flags : UInt8) (topic : Bytes) (pid : Field) (raws : List RawProp)
    (payload : Bytes) :
    projectV5 .publish flags [.val (.str topic), pid, .props raws, .rest payload] =
      some ⟨.publish { dup := pubDup flags, retain := pubRetain flags,
                       qosPid := (match pubQos flags, pid.u16? with
                         | 1, some v => QosPid.level1 ⟨v⟩
                         | 2, some v => .level2 ⟨v⟩
                         | _, _ => .level0),
                       topicName := topic, payload := payload, properties := Spec.toProps raws },
            raws.filterMap subIdOf⟩ := by
  simp only [projectV5, Field.toProps, Field.props?, Option.getD_some]
  congr 3

theorem spec_publish (m : Bool) (p : Publish) (t : Bytes)
    (hn : validTopicName p.topicName = true) (hq : QosPid.valid p.qosPid = true)
    (hpv : Props.valid publishProps p.properties = true)
    (hpay : Mqtt.V5.payloadOk p.properties p.payload = true)
    (hwf : Props.wf publishProps p.properties)
    (b : Bytes) (hb : p.encode = .ok b) (hbl : b.length < 268435456) :
    decodeV5With m (p.controlByte :: (writeVarInt b.length ++ b) ++ t) =
      some (.publish p, 1 + varIntSize b.length + b.length) := by
  obtain ⟨hty, hqos, hdup, hret⟩ := Publish.controlByte_spec p
  have htext := (validText_iff _).mp (validTopicName_text hn)
  have hT := isText_of_valid htext.2
  have hN := isTopicName_of_valid hn
  obtain ⟨dup, retain, qp, topic, payload, ps⟩ := p
  simp only at hn hq hpv hpay hwf htext hT hN hqos hdup hret
  generalize hfl : UInt8.ofNat (bits (Publish.controlByte _) 0 4) = flags at hqos hdup hret
  obtain ⟨hpidOk, hpidT, hq3, hqp⟩ := pidField_spec qp hq
  rw [← hqos] at hq3 hqp
  unfold Publish.encode at hb
  cases he : ps.encode publishProps with
  | error s => simp [he, bind, Except.bind] at hb
  | ok enc =>
    simp only [he, bind, Except.bind, pure, Except.pure, Except.ok.injEq] at hb
    subst hb
    have P := propsSpec_of_encode m specList_publish hpv hwf he (by simp at hbl; omega)
    refine decodeV5With_of m _ _ t .publish none
      [.val (.str topic), pidField qp, .props (rawOf publishProps ps), .rest payload] _
      ((rawOf publishProps ps).filterMap subIdOf) hbl hty rfl
      (fun total => fieldsV5_of_body m _ _ (by simp) ?_) ?_ ?_
      (subIds_rawOf specList_publish.good.nodup ps)
    · rw [hfl]
      simp only [layoutV5, List.append_assoc]
      apply parseBody_of_items
      exact parseItems_val m .str _ _ _ _ _ _ (parseWire_str m topic _ htext.1)
        (parseItems_pid m qp _ hqos _ _ _ _
          (parseItems_props m _ _ _ _ _ _ (P.parse payload) (parseItems_rest m payload)))
    · rw [hfl]
      have e1 : ∀ s, Field.textOk (.val (.str s)) = isText s := fun _ => rfl
      have e2 : ∀ bs, Field.textOk (.rest bs) = true := fun _ => rfl
      simp only [validV5, List.all_cons, List.all_nil, e1, e2, hT, hpidT, P.text, pubFlagsOk, hq3,
        ne_eq, not_false_eq_true, decide_true, Lenient.dupWithQos0, Bool.true_or, hN, hpidOk,
        Field.propsOk, P.ok, Lenient.emptyTopicName, Bool.or_true, payloadOk_rawOf hpay,
        Bool.and_self]
    · rw [hfl, projectV5_publish, hdup, hret, hqp, P.proj]

/-! ### CONNECT -/

open V3.SpecEnc (wbOpt strField binField strField_str? binField_bin? binField_textOk strField_textOk
  parseItems_optStr parseItems_optBin)

/-- The Connect Flags byte the encoder writes, read with the bit positions of §3.1.2.3. -/
theorem Connect.flags_bits (c : Connect)
    (hq : ∀ w, c.lastWill = some w → isVariant .qos w.qos = true) :
    bit c.flags 0 = false ∧ bit c.flags 1 = c.cleanStart ∧ bit c.flags 2 = c.lastWill.isSome ∧
    bit c.flags 6 = c.password.isSome ∧ bit c.flags 7 = c.username.isSome ∧
    (c.lastWill = none → bits c.flags 3 2 = 0) ∧
    (∀ w, c.lastWill = some w →
      bits c.flags 3 2 = w.qos.toNat ∧ bits c.flags 3 2 ≠ 3 ∧ bit c.flags 5 = w.retain) := by
  obtain ⟨proto, cs, ka, ps, cid, lw, un, pw⟩ := c
  cases lw with
  | none =>
    cases cs <;> cases un <;> cases pw <;> (simp [Connect.flags]; try decide)
  | some w =>
    obtain ⟨q, r, tn, msg, wp⟩ := w
    have hq' := isVariant_qos (hq _ rfl)
    simp only at hq'
    rcases hq' with rfl | rfl | rfl <;>
    cases cs <;> cases un <;> cases pw <;> cases r <;> (simp [Connect.flags]; try decide)

theorem Connect.connectFlags_spec (c : Connect)
    (hq : ∀ w, c.lastWill = some w → isVariant .qos w.qos = true) :
    connectFlags? c.flags = some ⟨c.username.isSome, c.password.isSome, bit c.flags 5,
      bits c.flags 3 2, c.lastWill.isSome, c.cleanStart⟩ := by
  obtain ⟨h0, h1, h2, h6, h7, hnone, hsome⟩ := Connect.flags_bits c hq
  unfold connectFlags?
  simp only [h0, h1, h2, h6, h7]
  cases hl : c.lastWill with
  | none => simp [hnone hl, Lenient.willRetainWithoutWill]
  | some w => simp [(hsome w hl).2.1]

theorem fieldsV5_connect (m : Bool) (fr : Spec.Frame) (name : Bytes) (level cf : UInt8)
    (ka : UInt16) (raws : List RawProp) (payload : Bytes) (f : ConnectFlags) (ps : List Field)
    (hty : fr.ptype = .connect)
    (h1 : parseBody m (layoutV5 .connect fr.flags fr.body.length) fr.body = some [.val (.str name),
      .val (.byte level), .val (.byte cf), .val (.u16 ka), .props raws, .rest payload])
    (h2 : connectFlags? cf = some f) (h3 : parseBody m (connectPayloadV5 f) payload = some ps) :
    fieldsV5 m fr = some ([.val (.str name), .val (.byte level), .val (.byte cf),
      .val (.u16 ka), .props raws] ++ ps) := by
  simp only [fieldsV5, hty, h1, bind, Option.bind, h2, h3]

/-- The Will Properties field. -/
def willField : Option LastWill → Field
  | some w => .props (rawOf willProps w.properties)
  | none => .absent

/-- The bytes of the Will Properties section (`[]` without a will) are read back. -/
def WillParse (m : Bool) (lw : Option LastWill) (wenc : Bytes) : Prop :=
  match lw with
  | some w => ∀ r, parseProps m (wenc ++ r) = some (rawOf willProps w.properties, r)
  | none => wenc = []

theorem parseItems_optProps (m : Bool) (lw : Option LastWill) (wenc : Bytes) (b : Bool)
    (is : List Item) (r r' : Bytes) (fs : List Field) (hb : b = lw.isSome)
    (hP : WillParse m lw wenc) (h2 : parseItems m is r = some (fs, r')) :
    parseItems m ((if b then Item.props else .absent) :: is) (wenc ++ r) =
      some (willField lw :: fs, r') := by
  subst hb
  cases lw with
  | none =>
    simp only [WillParse] at hP
    subst hP
    exact parseItems_absent m is r r' fs h2
  | some w => exact parseItems_props m is _ r r' _ fs (hP r) h2

theorem Connect.encode_shape (c : Connect) (hproto : c.protocol = .v500) (b : Bytes)
    (hb : c.encode = .ok b) :
    ∃ penc wenc, c.properties.encode connectProps = .ok penc ∧
      (match c.lastWill with
        | some w => w.properties.encode willProps = .ok wenc
        | none => wenc = []) ∧
      b = writeBytes MQTTN ++ (5 :: c.flags :: (u16be c.keepAlive ++ (penc ++
        (writeBytes c.clientId ++ (wenc ++ (wbOpt (c.lastWill.map (·.topicName)) ++
        (wbOpt (c.lastWill.map (·.payload)) ++ (wbOpt c.username ++ (wbOpt c.password ++ []))))))))) := by
  obtain ⟨proto, cs, ka, ps, cid, lw, un, pw⟩ := c
  simp only at hproto
  subst hproto
  have hpe : Protocol.encode .v500 = writeBytes MQTTN ++ [5] := rfl
  unfold Connect.encode at hb
  simp only [hpe] at hb ⊢
  generalize Connect.flags _ = flags at hb ⊢
  cases he : ps.encode connectProps with
  | error s => simp [he, bind, Except.bind] at hb
  | ok penc =>
    cases lw with
    | none =>
      simp only [he, bind, Except.bind, pure, Except.pure, Except.ok.injEq] at hb
      subst hb
      refine ⟨penc, [], rfl, rfl, ?_⟩
      cases un <;> cases pw <;> simp [wbOpt]
    | some w =>
      simp only [he, bind, Except.bind, pure, Except.pure, LastWill.encode] at hb
      cases hw : w.properties.encode willProps with
      | error s => simp [hw] at hb
      | ok wenc =>
        simp only [hw, Except.ok.injEq] at hb
        subst hb
        refine ⟨penc, wenc, rfl, hw, ?_⟩
        cases un <;> cases pw <;> simp [wbOpt]

theorem connect_stage1 (m : Bool) (flags : UInt8) (len : Nat) (name : Bytes) (level cf : UInt8)
    (ka : UInt16) (penc : Bytes) (raws : List RawProp) (payload : Bytes)
    (hname : name.length ≤ 65535) (hP : ∀ r, parseProps m (penc ++ r) = some (raws, r)) :
    parseBody m (layoutV5 .connect flags len)
        (writeBytes name ++ (level :: cf :: (u16be ka ++ (penc ++ payload)))) =
      some [.val (.str name), .val (.byte level), .val (.byte cf), .val (.u16 ka), .props raws,
        .rest payload] := by
  apply parseBody_of_items
  exact parseItems_val m .str _ _ _ _ _ _ (parseWire_str m name _ hname)
    (parseItems_val m .byte _ _ _ _ _ _ (parseWire_byte m level _)
      (parseItems_val m .byte _ _ _ _ _ _ (parseWire_byte m cf _)
        (parseItems_val m .u16 _ _ _ _ _ _ (parseWire_u16be m ka _)
          (parseItems_props m _ _ _ _ _ _ (hP payload) (parseItems_rest m payload)))))

theorem isText_MQTTN : isText MQTTN = true :=
  isText_of_valid ((Utf8.valid_iff _).mpr ⟨['M', 'Q', 'T', 'T'], by decide⟩)

theorem spec_connect (m : Bool) (c : Connect) (t : Bytes) (hv : (Packet.connect c).valid = true)
    (hwf : (Packet.connect c).wf)
    (b : Bytes) (hb : c.encode = .ok b) (hbl : b.length < 268435456) :
    decodeV5With m (0b00010000 :: (writeVarInt b.length ++ b) ++ t) =
      some (.connect c, 1 + varIntSize b.length + b.length) := by
  have hq : ∀ w, c.lastWill = some w → isVariant .qos w.qos = true := by
    intro w hw
    simp only [Packet.valid, hw, LastWill.valid, Bool.and_eq_true] at hv
    exact hv.1.1.2.1.1.1.1
  have hcf := Connect.connectFlags_spec c hq
  obtain ⟨-, b1, -, -, -, -, hsome⟩ := Connect.flags_bits c hq
  simp only [Packet.valid, Packet.wf, Bool.and_eq_true, beq_iff_eq] at hv hwf
  obtain ⟨⟨⟨⟨⟨hproto, hcid⟩, hp⟩, hlw⟩, hun⟩, hpw⟩ := hv
  obtain ⟨hwf1, hwf2⟩ := hwf
  obtain ⟨penc, wenc, hpe, hwe, hshape⟩ := Connect.encode_shape c hproto b hb
  obtain ⟨proto, cs, ka, ps, cid, lw, un, pw⟩ := c
  simp only at hproto hcid hp hlw hun hpw hwf1 hwf2 hpe hwe hshape hcf b1 hsome hq
  subst hproto
  generalize Connect.flags _ = cf at hcf b1 hsome hshape
  subst hshape
  have hcid' := (validText_iff _).mp hcid
  have hcidT := isText_of_valid hcid'.2
  have P := propsSpec_of_encode m specList_connect hp hwf1 hpe
    (by simp only [List.length_append, List.length_cons] at hbl; omega)
  -- the will
  have hWP : WillParse m lw wenc ∧ (willField lw).propsOk none = true ∧
      (willField lw).textOk = true ∧
      (willField lw).toProps = (lw.map (·.properties)).getD Props.empty ∧
      Spec.payloadOk (willField lw) ((binField (lw.map (·.payload))).bin?.getD []) = true := by
    cases lw with
    | none => exact ⟨hwe, rfl, rfl, rfl, rfl⟩
    | some w =>
      simp only [LastWill.valid, Bool.and_eq_true] at hlw
      have W := propsSpec_of_encode m specList_will hlw.1.2 hwf2 hwe
        (by simp only [List.length_append, List.length_cons] at hbl; omega)
      exact ⟨W.parse, W.ok, W.text, W.proj, payloadOk_rawOf hlw.2⟩
  obtain ⟨hWparse, hWok, hWtext, hWproj, hWpay⟩ := hWP
  have hwt : ∀ s, lw.map (·.topicName) = some s → validTopicName s = true := by
    intro s hs
    cases lw with
    | none => cases hs
    | some w =>
      simp only [LastWill.valid, Bool.and_eq_true] at hlw
      cases hs; exact hlw.1.1.1.2
  have hwm : ∀ s, lw.map (·.payload) = some s → s.length ≤ 65535 := by
    intro s hs
    cases lw with
    | none => cases hs
    | some w =>
      simp only [LastWill.valid, Bool.and_eq_true] at hlw
      cases hs; exact (validBin_iff _).mp hlw.1.1.2
  have hun' : ∀ s, un = some s → validText s = true := by
    intro s hs; subst hs; exact hun
  have hpw' : ∀ s, pw = some s → s.length ≤ 65535 := by
    intro s hs; subst hs; exact (validBin_iff _).mp hpw
  refine decodeV5With_of m _ _ t .connect (some 0)
    ([.val (.str MQTTN), .val (.byte 5), .val (.byte cf), .val (.u16 ka),
        .props (rawOf connectProps ps)] ++
      [.val (.str cid), willField lw, strField (lw.map (·.topicName)),
        binField (lw.map (·.payload)), strField un, binField pw]) _ [] hbl (by decide) (by decide)
    (fun total => fieldsV5_connect m _ MQTTN 5 cf ka _ (writeBytes cid ++ (wenc ++
      (wbOpt (lw.map (·.topicName)) ++ (wbOpt (lw.map (·.payload)) ++
      (wbOpt un ++ (wbOpt pw ++ [])))))) _ _ rfl ?_ hcf ?_) ?_ ?_ (by simp)
  · exact connect_stage1 m _ _ MQTTN 5 cf ka penc _ _ (by decide) P.parse
  · apply parseBody_of_items
    exact parseItems_val m .str _ _ _ _ _ _ (parseWire_str m cid _ hcid'.1)
      (parseItems_optProps m lw wenc _ _ _ _ _ rfl hWparse
        (parseItems_optStr m _ _ _ _ _ _ (by simp)
          (fun s hs => ((validText_iff _).mp (validTopicName_text (hwt s hs))).1)
          (parseItems_optBin m _ _ _ _ _ _ (by simp) hwm
            (parseItems_optStr m _ _ _ _ _ _ rfl (fun s hs => ((validText_iff _).mp (hun' s hs)).1)
              (parseItems_optBin m _ _ _ _ _ _ rfl hpw' (parseItems_nil m []))))))
  · have t1 := strField_textOk (lw.map (·.topicName))
      (fun s hs => isText_of_validText (validTopicName_text (hwt s hs)))
    have t2 := strField_textOk un (fun s hs => isText_of_validText (hun' s hs))
    have hwtn : (lw.map (·.topicName)).all isTopicName = true := by
      cases lw with
      | none => rfl
      | some w => exact isTopicName_of_valid (hwt _ rfl)
    have hany : (protocols.any fun (n, l, p) => n == MQTTN && l == 5 && p == .v500) = true := by
      decide
    have e1 : ∀ s, Field.textOk (.val (.str s)) = isText s := fun _ => rfl
    have hPok : Field.propsOk (some .connect) (.props (rawOf connectProps ps)) = true := P.ok
    simp only [List.cons_append, List.nil_append, validV5, List.all_cons, List.all_nil,
      e1, textOk_byte, textOk_u16, isText_MQTTN, hcidT, t1, t2, binField_textOk, P.text, hWtext,
      hany, hPok, hWok, strField_str?, hwtn, hWpay, Bool.and_self]
  · have hPproj : Field.toProps (.props (rawOf connectProps ps)) = ps := P.proj
    simp only [List.cons_append, List.nil_append, projectV5, bind, Option.bind,
      strField_str?, binField_bin?, b1, hPproj, hWproj]
    cases lw with
    | none => rfl
    | some w =>
      obtain ⟨hq1, -, hr⟩ := hsome w rfl
      obtain ⟨q, r, tn, msg, wps⟩ := w
      simp only at hq1 hr
      simp [hq1, hr]

/-! ## every valid packet -/

/-- C10 (v5), for either setting of the `minimal` flag of the specification. -/
theorem spec_decodes_encoding (m debug : Bool) (p : Packet) (hv : p.valid = true) (hwf : p.wf)
    (hfit : ∃ n, p.encodeLen = .ok n) (t : Bytes) :
    ∃ vb, p.encode debug = .ok vb ∧ decodeV5With m (vb.asRef ++ t) = some (p, vb.asRef.length) := by
  have fixed0 : ∀ cb : UInt8, (VarBytes.fixed2 cb 0).asRef = cb :: (writeVarInt 0 ++ []) := by
    intro cb; rw [V3.writeVarInt_zero]; rfl
  cases p with
  | pingreq =>
    refine ⟨_, rfl, ?_⟩
    rw [fixed0, spec_empty m _ .pingreq _ t (by decide) (by decide) (by decide) rfl rfl rfl,
      V3.writeVarInt_zero]; rfl
  | pingresp =>
    refine ⟨_, rfl, ?_⟩
    rw [fixed0, spec_empty m _ .pingresp _ t (by decide) (by decide) (by decide) rfl rfl rfl,
      V3.writeVarInt_zero]; rfl
  | connect c =>
    exact spec_of_fits m debug _ _ _ _ t rfl hfit (fun b hb hbl => spec_connect m c t hv hwf b hb hbl)
  | connack c =>
    simp only [Packet.valid, Bool.and_eq_true] at hv
    exact spec_of_fits m debug _ _ _ _ t rfl hfit
      (fun b hb hbl => spec_connack m c t hv.1 hv.2 hwf b hb hbl)
  | publish c =>
    simp only [Packet.valid, Bool.and_eq_true] at hv
    exact spec_of_fits m debug _ _ _ _ t rfl hfit
      (fun b hb hbl => spec_publish m c t hv.1.1.1 hv.1.1.2 hv.1.2 hv.2 hwf b hb hbl)
  | puback a =>
    simp only [Packet.valid, Bool.and_eq_true] at hv
    exact spec_of_fits m debug _ _ _ _ t rfl hfit
      (fun b hb hbl => spec_ack m _ .puback .pubackReason .puback a t (some 0) (by decide) (by decide)
        (by decide) (fun _ _ => rfl) (fun _ _ _ _ => rfl) (fun _ _ _ _ => rfl) (by simp)
        (specList_ack _ (by simp)) rfl hv.1.1 hv.1.2 hv.2 hwf b hb hbl)
  | pubrec a =>
    simp only [Packet.valid, Bool.and_eq_true] at hv
    exact spec_of_fits m debug _ _ _ _ t rfl hfit
      (fun b hb hbl => spec_ack m _ .pubrec .pubrecReason .pubrec a t (some 0) (by decide) (by decide)
        (by decide) (fun _ _ => rfl) (fun _ _ _ _ => rfl) (fun _ _ _ _ => rfl) (by simp)
        (specList_ack _ (by simp)) rfl hv.1.1 hv.1.2 hv.2 hwf b hb hbl)
  | pubrel a =>
    simp only [Packet.valid, Bool.and_eq_true] at hv
    exact spec_of_fits m debug _ _ _ _ t rfl hfit
      (fun b hb hbl => spec_ack m _ .pubrel .pubrelReason .pubrel a t (some 2) (by decide) (by decide)
        (by decide) (fun _ _ => rfl) (fun _ _ _ _ => rfl) (fun _ _ _ _ => rfl) (by simp)
        (specList_ack _ (by simp)) rfl hv.1.1 hv.1.2 hv.2 hwf b hb hbl)
  | pubcomp a =>
    simp only [Packet.valid, Bool.and_eq_true] at hv
    exact spec_of_fits m debug _ _ _ _ t rfl hfit
      (fun b hb hbl => spec_ack m _ .pubcomp .pubcompReason .pubcomp a t (some 0) (by decide) (by decide)
        (by decide) (fun _ _ => rfl) (fun _ _ _ _ => rfl) (fun _ _ _ _ => rfl) (by simp)
        (specList_ack _ (by simp)) rfl hv.1.1 hv.1.2 hv.2 hwf b hb hbl)
  | subscribe c =>
    simp only [Packet.valid, Bool.and_eq_true, Bool.not_eq_true'] at hv
    exact spec_of_fits m debug _ _ _ _ t rfl hfit
      (fun b hb hbl => spec_subscribe m c t hv.1.1.1 hv.1.1.2 hwf hv.1.2 hv.2 b hb hbl)
  | suback c =>
    simp only [Packet.valid, Bool.and_eq_true] at hv
    exact spec_of_fits m debug _ _ _ _ t rfl hfit
      (fun b hb hbl => spec_codesAck m _ .suback .subscribeReason .suback c t (some 0) (by decide)
        (by decide) (by decide) (fun _ _ => rfl) (fun _ _ _ _ => rfl) (fun _ _ _ _ => rfl) (by simp)
        (specList_ack _ (by simp)) hv.1.1 hv.1.2 hwf hv.2 b hb hbl)
  | unsubscribe c =>
    simp only [Packet.valid, Bool.and_eq_true, Bool.not_eq_true'] at hv
    exact spec_of_fits m debug _ _ _ _ t rfl hfit
      (fun b hb hbl => spec_unsubscribe m c t hv.1.1.1 hv.1.1.2 hwf hv.1.2 hv.2 b hb hbl)
  | unsuback c =>
    simp only [Packet.valid, Bool.and_eq_true] at hv
    exact spec_of_fits m debug _ _ _ _ t rfl hfit
      (fun b hb hbl => spec_codesAck m _ .unsuback .unsubscribeReason .unsuback c t (some 0) (by decide)
        (by decide) (by decide) (fun _ _ => rfl) (fun _ _ _ _ => rfl) (fun _ _ _ _ => rfl) (by simp)
        (specList_ack _ (by simp)) hv.1.1 hv.1.2 hwf hv.2 b hb hbl)
  | disconnect c =>
    simp only [Packet.valid, Bool.and_eq_true] at hv
    exact spec_of_fits m debug _ _ _ _ t rfl hfit
      (fun b hb hbl => spec_disconnect m c t hv.1 hv.2 hwf b hb hbl)
  | auth c =>
    simp only [Packet.valid, Bool.and_eq_true] at hv
    exact spec_of_fits m debug _ _ _ _ t rfl hfit
      (fun b hb hbl => spec_auth m c t hv.1 hv.2 hwf b hb hbl)

end SpecEnc
end Mqtt.V5
