/-
  Basic bridges between the model of the v3 codec and the independent specification
  decoder (C04, v3): bytes quantifier by enumeration, bit facts, variable byte integer,
  fixed-header agreement, length-prefixed data, text and topic checks.
-/
import Spec.DecodeV3
import Proofs.V3Compose
import Proofs.V3RoundTrip
import Properties.C16
import Properties.C18

namespace Mqtt.V3
open Mqtt

/-! ## quantifying over a byte by enumeration -/

theorem forall_uint8 (p : UInt8 → Bool)
    (h : (List.range 256).all (fun n => p (UInt8.ofNat n)) = true) : ∀ b, p b = true := by
  intro b
  have hb : b.toNat < 256 := b.toNat_lt
  have := List.all_eq_true.mp h b.toNat (List.mem_range.mpr hb)
  simpa using this

/-! ## variable byte integer -/

theorem decodeVarIntAux_iff {ε} (inv : ε) : ∀ (rest : Bytes) (i acc v n : Nat) (r : Bytes), i ≤ 3 →
    (decodeVarIntAux inv i acc rest = .ok (v, n) r ↔
      ∃ v0 n0, Spec.varintDigits (4 - i) rest = some (v0, n0, r) ∧ v = acc + v0 * 128 ^ i ∧
        n = i + n0) := by
  intro rest
  induction rest with
  | nil =>
    intro i acc v n r hi
    have : 4 - i = (3 - i) + 1 := by omega
    simp [decodeVarIntAux, this, Spec.varintDigits]
  | cons b rest ih =>
    intro i acc v n r hi
    have e : 4 - i = (3 - i) + 1 := by omega
    rw [e]
    simp only [decodeVarIntAux, Spec.varintDigits]
    by_cases hb : b.toNat < 128
    · simp only [hb, if_true, Res.ok.injEq, Prod.mk.injEq, Option.some.injEq]
      have hm : b.toNat % 128 = b.toNat := Nat.mod_eq_of_lt hb
      constructor
      · rintro ⟨⟨rfl, rfl⟩, rfl⟩
        exact ⟨b.toNat, 1, ⟨rfl, rfl, rfl⟩, by rw [hm], rfl⟩
      · rintro ⟨v0, n0, ⟨rfl, rfl, rfl⟩, rfl, rfl⟩
        exact ⟨⟨by rw [hm], rfl⟩, rfl⟩
    · simp only [hb, if_false]
      by_cases hi3 : i < 3
      · simp only [hi3, if_true]
        rw [ih (i + 1) _ v n r (by omega)]
        have e2 : 4 - (i + 1) = 3 - i := by omega
        rw [e2]
        constructor
        · rintro ⟨v1, n1, hd, rfl, rfl⟩
          refine ⟨b.toNat % 128 + 128 * v1, n1 + 1, by simp [hd], ?_, by omega⟩
          rw [Nat.pow_succ, Nat.add_mul, Nat.add_assoc]
          congr 1; congr 1
          rw [Nat.mul_comm 128 v1, Nat.mul_assoc, Nat.mul_comm 128]
        · rintro ⟨v0, n0, hd, rfl, rfl⟩
          cases hd' : Spec.varintDigits (3 - i) rest with
          | none => simp [hd'] at hd
          | some x =>
            obtain ⟨v1, n1, r1⟩ := x
            simp only [hd', Option.map_some, Option.some.injEq, Prod.mk.injEq] at hd
            obtain ⟨rfl, rfl, rfl⟩ := hd
            refine ⟨v1, n1, rfl, ?_, by omega⟩
            rw [Nat.pow_succ, Nat.add_mul, Nat.add_assoc]
            congr 1; congr 1
            rw [Nat.mul_comm 128 v1, Nat.mul_assoc, Nat.mul_comm 128]
      · have hi3' : i = 3 := by omega
        subst hi3'
        simp [Spec.varintDigits]

/-- The model's remaining-length reader and the specification's digits reader are the same. -/
theorem decodeVarInt_iff_digits {ε} (inv : ε) (rest : Bytes) (v n : Nat) (r : Bytes) :
    decodeVarIntAux inv 0 0 rest = .ok (v, n) r ↔ Spec.varintDigits 4 rest = some (v, n, r) := by
  rw [decodeVarIntAux_iff inv rest 0 0 v n r (by omega)]
  constructor
  · rintro ⟨v0, n0, hd, rfl, rfl⟩; simpa using hd
  · intro hd; exact ⟨v, n, hd, by simp, by simp⟩


/-! ## fixed header, first byte -/

/-- The specification's reading of byte 1: type (of MQTT 3.x) and flag nibble, flags as required. -/
def specHdr (cb : UInt8) : Option (Spec.PType × UInt8) :=
  (Spec.ptypeOfNibble false (UInt8.ofNat (Spec.bits cb 4 4))).bind fun (t, required) =>
    if required.all (· == UInt8.ofNat (Spec.bits cb 0 4)) then
      some (t, UInt8.ofNat (Spec.bits cb 0 4)) else none

def ptypeNum : Spec.PType → UInt8
  | .connect => 1 | .connack => 2 | .publish => 3 | .puback => 4 | .pubrec => 5 | .pubrel => 6
  | .pubcomp => 7 | .subscribe => 8 | .suback => 9 | .unsubscribe => 10 | .unsuback => 11
  | .pingreq => 12 | .pingresp => 13 | .disconnect => 14 | .auth => 15

/-- Row `n` of the generated header table against the specification's tables. -/
def hdrAgree (n : Nat) : Bool :=
  match Gen.headerV3.getD n (.error .invalidHeader), specHdr (UInt8.ofNat n) with
  | .ok r, some (t, flags) =>
    r.typ == ptypeNum t && t != .auth &&
      (t != .publish || (Spec.pubFlagsOk flags && r.dup == Spec.pubDup flags &&
        r.qos.toNat == Spec.pubQos flags && r.retain == Spec.pubRetain flags))
  | .error _, some (t, flags) => t == .publish && !Spec.pubFlagsOk flags
  | .error _, none => true
  | .ok _, none => false

set_option maxRecDepth 100000 in
theorem hdrAgree_all : (List.range 256).all hdrAgree = true := by decide

theorem hdrAgree_byte (cb : UInt8) : hdrAgree cb.toNat = true :=
  List.all_eq_true.mp hdrAgree_all cb.toNat (List.mem_range.mpr cb.toNat_lt)

/-- What relates a model header to the specification's type and flags. -/
def HdrRel (h : Header) (n : Nat) (t : Spec.PType) (flags : UInt8) : Prop :=
  t ≠ .auth ∧ (t = .publish → Spec.pubFlagsOk flags = true) ∧
    h.typ = ptypeNum t ∧ h.remainingLen = n ∧
    (t = .publish → h.dup = Spec.pubDup flags ∧ h.qos.toNat = Spec.pubQos flags ∧
      h.retain = Spec.pubRetain flags)

/-- Every first byte the model accepts, the specification accepts, with the same type and flags. -/
theorem newWith_ok_spec {cb : UInt8} {n : Nat} {h : Header} (hh : Header.newWith cb n = .ok h) :
    ∃ t flags, specHdr cb = some (t, flags) ∧ HdrRel h n t flags := by
  have ha := hdrAgree_byte cb
  unfold hdrAgree at ha
  have e : UInt8.ofNat cb.toNat = cb := by simp
  rw [e] at ha
  unfold Header.newWith at hh
  cases hrow : Gen.headerV3.getD cb.toNat (.error .invalidHeader) with
  | error er => rw [hrow] at hh; cases hh
  | ok r =>
    rw [hrow] at ha hh
    simp only [] at hh
    cases hs : specHdr cb with
    | none => rw [hs] at ha; simp at ha
    | some x =>
      obtain ⟨t, flags⟩ := x
      rw [hs] at ha
      simp only [Bool.and_eq_true, beq_iff_eq, Bool.or_eq_true, bne_iff_ne, ne_eq] at ha
      obtain ⟨⟨h1, h2⟩, h3⟩ := ha
      cases hh
      refine ⟨t, flags, rfl, h2, ?_, h1, rfl, ?_⟩
      · intro ht; rcases h3 with h3 | h3
        · exact absurd ht h3
        · exact h3.1.1.1
      · intro ht; rcases h3 with h3 | h3
        · exact absurd ht h3
        · exact ⟨h3.1.1.2, h3.1.2, h3.2⟩

/-- Every first byte the specification accepts (for PUBLISH: with QoS bits other than 11, which
the specification checks when validating), the model accepts. -/
theorem spec_ok_newWith {cb : UInt8} {t : Spec.PType} {flags : UInt8} (n : Nat)
    (hs : specHdr cb = some (t, flags)) (hp : t = .publish → Spec.pubFlagsOk flags = true) :
    ∃ h, Header.newWith cb n = .ok h ∧ HdrRel h n t flags := by
  have ha := hdrAgree_byte cb
  unfold hdrAgree at ha
  have e : UInt8.ofNat cb.toNat = cb := by simp
  rw [e, hs] at ha
  cases hrow : Header.newWith cb n with
  | ok h =>
    obtain ⟨t', flags', hs', hrel⟩ := newWith_ok_spec hrow
    rw [hs] at hs'
    cases hs'
    exact ⟨h, rfl, hrel⟩
  | error er =>
    exfalso
    unfold Header.newWith at hrow
    cases hrow' : Gen.headerV3.getD cb.toNat (.error .invalidHeader) with
    | ok r => rw [hrow'] at hrow; cases hrow
    | error er' =>
      rw [hrow'] at ha
      simp only [Bool.and_eq_true, beq_iff_eq, Bool.not_eq_true'] at ha
      rw [hp ha.1] at ha
      exact absurd ha.2 (by simp)


/-! ## length-prefixed data, integers -/

theorem be16_toNat (a c : UInt8) : (be16 a c).toNat = a.toNat * 256 + c.toNat := by
  have ha := a.toNat_lt
  have hc := c.toNat_lt
  simp only [be16, UInt16.toNat_ofNat']
  omega

/-- `read_bytes` is the specification's length-prefixed reader. -/
theorem readBytes_eq {ε} (bs : Bytes) :
    readBytes (ε := ε) bs =
      match Spec.lenPrefixed bs with
      | some (d, r) => .ok d r
      | none => .more := by
  match bs with
  | [] => rfl
  | [_] => rfl
  | a :: c :: r =>
    simp only [readBytes, readU16, Spec.lenPrefixed, take, be16_toNat]
    split <;> rfl

theorem readString_eq (bs : Bytes) :
    readString bs =
      match Spec.lenPrefixed bs with
      | some (d, r) => if Utf8.valid d then .ok d r else .err .invalidString
      | none => .more := by
  unfold readString
  rw [readBytes_eq]
  cases Spec.lenPrefixed bs with
  | none => rfl
  | some x => rfl

theorem lenPrefixed_length {bs d r : Bytes} (h : Spec.lenPrefixed bs = some (d, r)) :
    bs.length = 2 + d.length + r.length := by
  match bs, h with
  | a :: c :: rr, h =>
    simp only [Spec.lenPrefixed] at h
    split at h
    · simp only [Option.some.injEq, Prod.mk.injEq] at h
      obtain ⟨rfl, rfl⟩ := h
      simp only [List.length_cons, List.length_take, List.length_drop]
      omega
    · cases h

theorem readPid_cons2 (a c : UInt8) (r : Bytes) :
    readPid (a :: c :: r) = if be16 a c = 0 then .err .zeroPid else .ok ⟨be16 a c⟩ r := by
  simp only [readPid, readU16, Pid.tryFrom]
  by_cases h : be16 a c = 0 <;> simp [h]

theorem readPid_nil : readPid [] = .more := rfl
theorem readPid_one (a : UInt8) : readPid [a] = .more := rfl

theorem parseWire_u16 (m : Bool) (a c : UInt8) (r : Bytes) :
    Spec.parseWire m .u16 (a :: c :: r) = some ([.u16 (be16 a c)], r) := rfl
theorem parseWire_u16_nil (m : Bool) : Spec.parseWire m .u16 [] = none := rfl
theorem parseWire_u16_one (m : Bool) (a : UInt8) : Spec.parseWire m .u16 [a] = none := rfl
theorem parseWire_byte (m : Bool) (a : UInt8) (r : Bytes) :
    Spec.parseWire m .byte (a :: r) = some ([.byte a], r) := rfl
theorem parseWire_byte_nil (m : Bool) : Spec.parseWire m .byte [] = none := rfl
theorem parseWire_str (m : Bool) (bs : Bytes) :
    Spec.parseWire m .str bs = (Spec.lenPrefixed bs).map fun (s, r) => ([.str s], r) := by
  unfold Spec.parseWire; rfl
theorem parseWire_bin (m : Bool) (bs : Bytes) :
    Spec.parseWire m .bin bs = (Spec.lenPrefixed bs).map fun (s, r) => ([.bin s], r) := by
  unfold Spec.parseWire; rfl

/-! ## text and topics -/

theorem isText_eq_valid (s : Bytes) : Spec.isText s = Utf8.valid s := by
  unfold Spec.isText Utf8.valid
  cases Utf8.decode s <;> rfl

theorem isTopicName_valid {s : Bytes} (h : Spec.isTopicName s = true) : Utf8.valid s = true := by
  unfold Spec.isTopicName at h
  unfold Utf8.valid
  cases hd : Utf8.decode s with
  | none => rw [hd] at h; cases h
  | some cs => rfl

theorem isTopicFilter_valid {s : Bytes} (h : Spec.isTopicFilter s = true) : Utf8.valid s = true := by
  unfold Spec.isTopicFilter at h
  unfold Utf8.valid
  cases hd : Utf8.decode s with
  | none => rw [hd] at h; cases h
  | some cs => rfl

/-- `TopicName::try_from` accepts exactly the specification's topic names, unchanged. -/
theorem topicNameTryFrom_eq (s : Bytes) :
    topicNameTryFrom s =
      if Spec.isTopicName s then .ok s
      else .error (if Utf8.valid s then .invalidTopicName s else .invalidString) := by
  unfold topicNameTryFrom Spec.isTopicName Utf8.valid
  cases Utf8.decode s with
  | none => rfl
  | some cs =>
    simp only [C18.name_validation_is_spec, Option.isSome_some, if_true]
    cases Spec.validName cs <;> rfl

/-- `TopicFilter::try_from` accepts exactly the specification's topic filters, and caches the
specification's separator index; in either build profile. -/
theorem topicFilterTryFrom_eq (debug : Bool) (s : Bytes) :
    topicFilterTryFrom debug s =
      if Spec.isTopicFilter s then .ok (Spec.topicFilterOf s) []
      else .err (if Utf8.valid s then .invalidTopicFilter s else .invalidString) := by
  unfold topicFilterTryFrom Spec.isTopicFilter Spec.topicFilterOf Utf8.valid
  cases Utf8.decode s with
  | none => rfl
  | some cs =>
    simp only [C16.filter_validation_is_mqtt, Option.isSome_some, if_true, Option.getD_some]
    cases Spec.validFilter cs <;> rfl

theorem topicFilterOf_text (s : Bytes) : (Spec.topicFilterOf s).text = s := rfl

end Mqtt.V3
