import Mqtt.VarInt
import Spec.Tables

namespace Mqtt
open Mqtt

/-! ### the generated tables, as closed forms (re-proved against the tables of this run) -/

theorem varIntLen_closed (n : Nat) :
    varIntLen n = if n < 268435456 then .ok (Spec.varIntSize n) else .error .invalidVarByteInt := by
  unfold varIntLen Spec.varIntSize
  simp only [Gen.varIntLenErrFrom, Gen.varIntLenSteps, lookupStep]
  repeat' split
  all_goals first | rfl | omega | (exfalso; omega)

theorem totalLen_closed (n : Nat) :
    totalLen n = if n < 268435456 then .ok (n + 1 + Spec.varIntSize n) else .error .invalidVarByteInt := by
  unfold totalLen Spec.varIntSize
  simp only [Gen.totalLenErrFrom, Gen.totalLenSteps, lookupStep]
  repeat' split
  all_goals first | rfl | (congr 1; omega) | omega | (exfalso; omega)

theorem headerLen_closed (t : Nat) :
    headerLen t = if t < 130 then 2 else if t < 16387 then 3 else if t < 2097156 then 4 else 5 := by
  unfold headerLen
  simp only [Gen.headerLenSteps, lookupStep]
  repeat' split
  all_goals first | rfl | omega | (exfalso; omega)

theorem remainingLen_closed (t : Nat) (h : 2 ≤ t) :
    remainingLen t = t - (if t < 130 then 2 else if t < 16387 then 3 else if t < 2097156 then 4 else 5) := by
  unfold remainingLen
  simp only [Gen.remainingLenSteps, lookupStep]
  repeat' split
  all_goals first | rfl | omega | (exfalso; omega)

/-! ### writer -/

theorem writeVarInt_small (n : Nat) (h : n < 128) : writeVarInt n = [UInt8.ofNat n] := by
  rw [writeVarInt]
  have : ¬ (n / 128 > 0) := by omega
  simp [this, Nat.mod_eq_of_lt h]

theorem writeVarInt_big (n : Nat) (h : 128 ≤ n) :
    writeVarInt n = UInt8.ofNat (n % 128 + 128) :: writeVarInt (n / 128) := by
  rw [writeVarInt]
  have : n / 128 > 0 := by omega
  simp [this]

theorem writeVarInt_length (n : Nat) (h : n < 268435456) :
    (writeVarInt n).length = Spec.varIntSize n := by
  unfold Spec.varIntSize
  by_cases h1 : n < 128
  · rw [writeVarInt_small n h1]; simp; omega
  · rw [writeVarInt_big n (by omega)]
    by_cases h2 : n / 128 < 128
    · rw [writeVarInt_small _ h2]; simp; split <;> (try split) <;> omega
    · rw [writeVarInt_big _ (by omega)]
      by_cases h3 : n / 128 / 128 < 128
      · rw [writeVarInt_small _ h3]; simp; repeat' split
        all_goals omega
      · rw [writeVarInt_big _ (by omega)]
        have h4 : n / 128 / 128 / 128 < 128 := by omega
        rw [writeVarInt_small _ h4]; simp; repeat' split
        all_goals omega

theorem writeVarInt_ne_nil (n : Nat) : writeVarInt n ≠ [] := by
  rw [writeVarInt]; split <;> simp

/-! ### reader inverts writer -/

theorem ofNat_toNat_lt (k : Nat) (h : k < 256) : (UInt8.ofNat k).toNat = k := by
  simp [Nat.mod_eq_of_lt h]

theorem decodeAux_write {ε} (inv : ε) (n : Nat) : ∀ (i acc : Nat) (t : Bytes),
    i + (writeVarInt n).length ≤ 4 →
    decodeVarIntAux inv i acc (writeVarInt n ++ t)
      = .ok (acc + n * 128 ^ i, i + (writeVarInt n).length) t := by
  induction n using Nat.strongRecOn with
  | _ n ih =>
    intro i acc t hlen
    by_cases h1 : n < 128
    · rw [writeVarInt_small n h1]
      simp only [List.singleton_append, decodeVarIntAux, List.length_singleton]
      have : (UInt8.ofNat n).toNat = n := ofNat_toNat_lt n (by omega)
      simp [this, h1, Nat.mod_eq_of_lt h1]
    · have hb : 128 ≤ n := by omega
      rw [writeVarInt_big n hb] at hlen ⊢
      simp only [List.cons_append, decodeVarIntAux, List.length_cons]
      have hbyte : (UInt8.ofNat (n % 128 + 128)).toNat = n % 128 + 128 :=
        ofNat_toNat_lt _ (by omega)
      have hnz := writeVarInt_ne_nil (n / 128)
      have hl1 : 1 ≤ (writeVarInt (n / 128)).length := by
        cases h : writeVarInt (n / 128) with
        | nil => exact absurd h hnz
        | cons _ _ => simp
      simp only [List.length_cons] at hlen
      have hi : i < 3 := by omega
      have hnot : ¬ (n % 128 + 128 < 128) := by omega
      simp only [hbyte, hnot, if_false, hi, if_true]
      rw [ih (n / 128) (by omega) (i + 1) _ t (by omega)]
      have e1 : (n % 128 + 128) % 128 = n % 128 := by omega
      rw [e1]
      congr 2
      · rw [Nat.pow_succ]
        have := Nat.div_add_mod n 128
        calc acc + n % 128 * 128 ^ i + n / 128 * (128 ^ i * 128)
            = acc + (n % 128 + 128 * (n / 128)) * 128 ^ i := by
              rw [Nat.add_mul, Nat.mul_comm (128 ^ i) 128, ← Nat.mul_assoc, Nat.mul_comm (n / 128) 128]
              omega
          _ = acc + n * 128 ^ i := by rw [Nat.add_comm (n % 128), this]
      · omega

theorem decodeVarInt_write (n : Nat) (h : n < 268435456) (t : Bytes) :
    decodeVarInt (writeVarInt n ++ t) = .ok (n, Spec.varIntSize n) t := by
  unfold decodeVarInt
  have hl := writeVarInt_length n h
  rw [decodeAux_write _ n 0 0 t (by rw [hl]; unfold Spec.varIntSize; repeat' split
                                    all_goals omega)]
  simp [hl]

/-! ### shape of the written bytes -/

theorem writeVarInt_shape (n : Nat) :
    ∃ pre last, writeVarInt n = pre ++ [last] ∧ last.toNat < 128 ∧ ∀ b ∈ pre, 128 ≤ b.toNat := by
  induction n using Nat.strongRecOn with
  | _ n ih =>
    by_cases h1 : n < 128
    · refine ⟨[], UInt8.ofNat n, ?_, ?_, ?_⟩
      · rw [writeVarInt_small n h1]; rfl
      · rw [ofNat_toNat_lt n (by omega)]; exact h1
      · intro b hb; cases hb
    · obtain ⟨pre, last, hw, hl, hp⟩ := ih (n / 128) (by omega)
      refine ⟨UInt8.ofNat (n % 128 + 128) :: pre, last, ?_, hl, ?_⟩
      · rw [writeVarInt_big n (by omega), hw]; rfl
      · intro b hb
        cases hb with
        | head => rw [ofNat_toNat_lt _ (by omega)]; omega
        | tail _ hb => exact hp b hb

/-! ### reader: generic facts -/

/-- What the reader returns bounds the value by the number of bytes it consumed. -/
theorem decodeAux_bound {ε} (inv : ε) : ∀ (bs : Bytes) (i acc : Nat) (v c : Nat) (rest : Bytes),
    i ≤ 3 → acc < 128 ^ i →
    decodeVarIntAux inv i acc bs = .ok (v, c) rest →
    v < 128 ^ c ∧ i + 1 ≤ c ∧ c ≤ 4 ∧ bs.length = rest.length + (c - i) := by
  intro bs
  induction bs with
  | nil => intro i acc v c rest _ _ h; simp [decodeVarIntAux] at h
  | cons b bs ih =>
    intro i acc v c rest hi hacc h
    simp only [decodeVarIntAux] at h
    have hpow : 128 ^ (i + 1) = 128 ^ i * 128 := Nat.pow_succ _ _
    have hm : b.toNat % 128 < 128 := Nat.mod_lt _ (by omega)
    have hacc' : acc + b.toNat % 128 * 128 ^ i < 128 ^ (i + 1) := by
      rw [hpow]
      calc acc + b.toNat % 128 * 128 ^ i < 128 ^ i + b.toNat % 128 * 128 ^ i := by omega
        _ = (b.toNat % 128 + 1) * 128 ^ i := by rw [Nat.add_mul]; omega
        _ ≤ 128 * 128 ^ i := Nat.mul_le_mul_right _ (by omega)
        _ = 128 ^ i * 128 := Nat.mul_comm _ _
    split at h
    · simp only [Res.ok.injEq, Prod.mk.injEq] at h
      obtain ⟨⟨hv, hc⟩, hr⟩ := h
      subst hv hc hr
      refine ⟨hacc', by omega, by omega, by simp⟩
    · split at h
      · obtain ⟨h1, h2, h3, h4⟩ := ih (i + 1) _ v c rest (by omega) hacc' h
        refine ⟨h1, by omega, h3, ?_⟩
        simp only [List.length_cons]; omega
      · simp at h

/-- Four continuation bytes are refused after exactly four bytes, whatever follows. -/
theorem decodeVarInt_overlong (b0 b1 b2 b3 : UInt8) (t : Bytes)
    (h0 : 128 ≤ b0.toNat) (h1 : 128 ≤ b1.toNat) (h2 : 128 ≤ b2.toNat) (h3 : 128 ≤ b3.toNat) :
    decodeVarInt (b0 :: b1 :: b2 :: b3 :: t) = .err .invalidVarByteInt := by
  have n0 : ¬ b0.toNat < 128 := by omega
  have n1 : ¬ b1.toNat < 128 := by omega
  have n2 : ¬ b2.toNat < 128 := by omega
  have n3 : ¬ b3.toNat < 128 := by omega
  simp [decodeVarInt, decodeVarIntAux, n0, n1, n2, n3]

end Mqtt
