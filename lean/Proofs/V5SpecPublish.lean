/-
  C04 (v5): PUBLISH — properties with the Subscription Identifier (K1, canonical
  accounting), payload format check.
-/
import Proofs.V5SpecBody

set_option linter.unusedSimpArgs false
set_option linter.unusedVariables false

namespace Mqtt.V5
open Mqtt

/-! ## more on projected property sets -/

/-- Every parsed property has the value shape of its wire type. -/
theorem parseTLVs_wt (m : Bool) : ∀ (f : Nat) (cs : Bytes) (raw : List Spec.RawProp),
    Spec.parseTLVs m f cs = some raw →
    ∀ x ∈ raw, ∃ w r0 r1, Spec.propertyWireType x.1 = some w ∧
      Spec.parseWire m w r0 = some (x.2, r1) := by
  intro f
  induction f with
  | zero =>
    intro cs raw h x hx
    cases cs with
    | nil => rw [parseTLVs_nil] at h; cases h; simp at hx
    | cons id r => rw [parseTLVs_zero_cons] at h; cases h
  | succ f ih =>
    intro cs raw h x hx
    cases cs with
    | nil => rw [parseTLVs_nil] at h; cases h; simp at hx
    | cons id r =>
      rw [parseTLVs_cons_iff] at h
      obtain ⟨w, vs, r', raw', hw, hpw, ht, rfl⟩ := h
      rcases List.mem_cons.mp hx with rfl | hx
      · exact ⟨w, r, r', hw, hpw⟩
      · exact ih r' raw' ht x hx

theorem wire_pfi : Spec.propertyWireType 0x01 = some .byte := by decide
theorem wire_subid : Spec.propertyWireType 0x0B = some .varint := by decide

theorem foldl_pstep_get (i : UInt8) : ∀ (raw : List Spec.RawProp) (ps : Props),
    (∀ x ∈ raw, x.1 ≠ i) → (raw.foldl pstep ps).get i = ps.get i := by
  intro raw
  induction raw with
  | nil => intro ps _; rfl
  | cons x raw ih =>
    intro ps h
    obtain ⟨id, vs⟩ := x
    rw [List.foldl_cons, ih _ (fun y hy => h y (List.mem_cons_of_mem _ hy))]
    exact pstep_get_ne ps id i vs (Ne.symm (h (id, vs) (by simp)))

/-- The Payload Format Indicator of the projected property set is the one on the wire. -/
theorem toProps_get_pfi {m : Bool} {f : Nat} {cs : Bytes} {raw : List Spec.RawProp}
    (hp : Spec.parseTLVs m f cs = some raw) (hnr : StrictNR (raw.map (·.1))) :
    (Spec.toProps raw).get 0x01 = some (.byte 1) ↔ ((0x01 : UInt8), [Spec.Scalar.byte 1]) ∈ raw := by
  have hwt : ∀ vs, ((0x01 : UInt8), vs) ∈ raw → ∃ b, vs = [Spec.Scalar.byte b] := by
    intro vs hx
    obtain ⟨w, r0, r1, hw, hpw⟩ := parseTLVs_wt m f cs raw hp _ hx
    rw [wire_pfi] at hw
    cases hw
    obtain ⟨b, -, hvs⟩ := (parseWire_byte_iff _ _ _ _).mp hpw
    exact ⟨b, hvs⟩
  rw [toProps_eq]
  have key : ∀ (raw : List Spec.RawProp) (ps : Props),
      (∀ vs, ((0x01 : UInt8), vs) ∈ raw → ∃ b, vs = [Spec.Scalar.byte b]) →
      StrictNR (raw.map (·.1)) → ps.get 0x01 = none →
      ((raw.foldl pstep ps).get 0x01 = some (.byte 1) ↔
        ((0x01 : UInt8), [Spec.Scalar.byte 1]) ∈ raw) := by
    intro raw
    induction raw with
    | nil => intro ps _ _ hg; simp [hg]
    | cons x raw ih =>
      intro ps hwt hnr hg
      obtain ⟨id, vs⟩ := x
      simp only [List.map_cons] at hnr
      obtain ⟨hnr1, hnr2⟩ := hnr
      rw [List.foldl_cons]
      by_cases hid : id = 0x01
      · subst hid
        obtain ⟨b, rfl⟩ := hwt vs (by simp)
        have hnot : (1 : UInt8) ∉ raw.map (·.1) := by
          rcases hnr1 with h | h
          · exact absurd h (by decide)
          · exact h
        have hne : ∀ x ∈ raw, x.1 ≠ 1 := fun x hx h1 =>
          hnot (List.mem_map.mpr ⟨x, hx, h1⟩)
        rw [foldl_pstep_get 1 raw _ hne, pstep_single _ _ _ hg]
        simp only [Props.set, if_true, Spec.propVal, Option.some.injEq, PropVal.byte.injEq,
          List.mem_cons, Prod.mk.injEq, true_and, List.cons.injEq, Spec.Scalar.byte.injEq, and_true]
        constructor
        · intro h; exact .inl h.symm
        · rintro (h | h)
          · exact h.symm
          · exact absurd rfl (hne _ h)
      · rw [ih _ (fun vs hx => hwt vs (List.mem_cons_of_mem _ hx)) hnr2
          (by rw [pstep_get_ne _ _ _ _ (Ne.symm hid)]; exact hg)]
        simp only [List.mem_cons, Prod.mk.injEq]
        constructor
        · intro h; exact .inr h
        · rintro (⟨h, -⟩ | h)
          · exact absurd h.symm hid
          · exact h
  exact key raw Props.empty hwt hnr rfl

/-- The Subscription Identifiers the specification collects are the properties 0x0B. -/
theorem filterMap_subIds {m : Bool} {f : Nat} {cs : Bytes} {raw : List Spec.RawProp}
    (hp : Spec.parseTLVs m f cs = some raw) (F : Spec.RawProp → Option Nat)
    (hF1 : ∀ n, F (0x0B, [.varint n]) = some n) (hF2 : ∀ id vs, id ≠ 0x0B → F (id, vs) = none) :
    (raw.filterMap F).length = (raw.map (·.1)).count 0x0B := by
  have hwt : ∀ vs, ((0x0B : UInt8), vs) ∈ raw → ∃ n, vs = [Spec.Scalar.varint n] := by
    intro vs hx
    obtain ⟨w, r0, r1, hw, hpw⟩ := parseTLVs_wt m f cs raw hp _ hx
    rw [wire_subid] at hw
    cases hw
    obtain ⟨v, k, -, -, hvs⟩ := (parseWire_varint_iff _ _ _ _).mp hpw
    exact ⟨v, hvs⟩
  clear hp
  induction raw with
  | nil => rfl
  | cons x raw ih =>
    obtain ⟨id, vs⟩ := x
    have ih' := ih (fun vs hx => hwt vs (List.mem_cons_of_mem _ hx))
    by_cases hid : id = 0x0B
    · subst hid
      obtain ⟨n, rfl⟩ := hwt vs (by simp)
      simp only [List.filterMap_cons, hF1, List.length_cons, List.map_cons, List.count_cons_self, ih']
    · simp only [List.filterMap_cons, hF2 id vs hid, List.map_cons, List.count_cons_of_ne hid, ih']

/-! ## PUBLISH -/

/-- The packet identifier field: absent for QoS 0. -/
def PidPart (flags : UInt8) (r1 : Bytes) (qp : QosPid) (r2 : Bytes) : Prop :=
  (Spec.pubQos flags = 0 ∧ r2 = r1 ∧ qp = .level0) ∨
  (Spec.pubQos flags = 1 ∧ ∃ a c, r1 = a :: c :: r2 ∧ be16 a c ≠ 0 ∧ qp = .level1 ⟨be16 a c⟩) ∨
  (Spec.pubQos flags = 2 ∧ ∃ a c, r1 = a :: c :: r2 ∧ be16 a c ≠ 0 ∧ qp = .level2 ⟨be16 a c⟩)

def mkPublish (flags : UInt8) (qp : QosPid) (topic payload : Bytes) (ps : Props) : Publish :=
  { dup := Spec.pubDup flags, retain := Spec.pubRetain flags, qosPid := qp, topicName := topic,
    payload := payload, properties := ps }

def PublishShape (R : PRel) (flags : UInt8) (b : Bytes) (x : Publish) : Prop :=
  ∃ topic r1 qp r2 ps payload, Spec.lenPrefixed b = some (topic, r1) ∧
    Spec.isTopicName topic = true ∧ PidPart flags r1 qp r2 ∧ R r2 ps payload ∧
    (ps.get 0x01 = some (.byte 1) → Utf8.valid payload = true) ∧
    x = mkPublish flags qp topic payload ps

theorem PidPart.length {flags : UInt8} {r1 : Bytes} {qp : QosPid} {r2 : Bytes}
    (h : PidPart flags r1 qp r2) : r2.length ≤ r1.length := by
  rcases h with ⟨-, rfl, -⟩ | ⟨-, a, c, rfl, -⟩ | ⟨-, a, c, rfl, -⟩ <;> simp <;> omega

/-- The QoS / packet identifier block of `Publish::decode_async`. -/
def pubPidBlock (h : Header) (rl : Nat) : Parser ErrorV5 (QosPid × Nat) :=
  if h.qos = 0 then pure (QosPid.level0, rl)
  else if h.qos = 1 then do
    let rl ← checkedSub rl 2 (.common .invalidRemainingLength)
    let pid ← liftC readPid
    pure (QosPid.level1 pid, rl)
  else if h.qos = 2 then do
    let rl ← checkedSub rl 2 (.common .invalidRemainingLength)
    let pid ← liftC readPid
    pure (QosPid.level2 pid, rl)
  else Parser.panic "header qos outside 0..2"

/-- The payload block of `Publish::decode_async`. -/
def pubPayloadBlock (properties : Props) (rl : Nat) : Parser ErrorV5 Bytes :=
  if rl > 0 then do
    let data ← take rl
    if properties.get 0x01 == some (.byte 1) && !Utf8.valid data then
      Parser.fail .invalidPayloadFormat
    else pure data
  else pure []

theorem publishDecode_eq (h : Header) :
    Publish.decode h = (do
      let topic ← liftC readString
      let rl ← checkedSub h.remainingLen (2 + topic.length) (.common .invalidRemainingLength)
      let (qosPid, rl) ← pubPidBlock h rl
      let properties ← decodeProps (.packet h.typ) publishProps
      let plen ← propsEncodeLenP publishProps properties
      let rl ← checkedSub rl plen (.common .invalidRemainingLength)
      let payload ← pubPayloadBlock properties rl
      let tn ← liftExcept ((topicNameTryFrom topic).mapError ErrorV5.common)
      pure { dup := h.dup, retain := h.retain, qosPid := qosPid, topicName := tn,
             payload := payload, properties := properties }) := rfl

theorem pubPidBlock_ok_iff (h : Header) (flags : UInt8) (hq : h.qos.toNat = Spec.pubQos flags)
    (hq3 : Spec.pubQos flags ≠ 3) (rl : Nat) (r1 : Bytes) (qp : QosPid) (rl' : Nat) (r2 : Bytes) :
    pubPidBlock h rl r1 = .ok (qp, rl') r2 ↔
      PidPart flags r1 qp r2 ∧ rl' + r1.length = rl + r2.length ∧ r1.length - r2.length ≤ rl := by
  have hlt := V3.pubQos_lt flags
  unfold pubPidBlock PidPart
  by_cases hq0 : Spec.pubQos flags = 0
  · have hq0' : h.qos = 0 := by apply UInt8.toNat_inj.mp; rw [hq, hq0]; rfl
    rw [if_pos hq0']
    simp only [pure_ok_iff, Prod.mk.injEq]
    constructor
    · rintro ⟨⟨rfl, rfl⟩, rfl⟩
      exact ⟨.inl ⟨hq0, rfl, rfl⟩, rfl, by omega⟩
    · rintro ⟨(⟨-, rfl, rfl⟩ | ⟨h1, -⟩ | ⟨h1, -⟩), h2, -⟩
      · exact ⟨⟨rfl, by omega⟩, rfl⟩
      · omega
      · omega
  · have hqne : h.qos ≠ 0 := by
      intro h0; rw [h0] at hq; exact hq0 hq.symm
    rw [if_neg hqne]
    by_cases hq1 : Spec.pubQos flags = 1
    · have hq1' : h.qos = 1 := by apply UInt8.toNat_inj.mp; rw [hq, hq1]; rfl
      rw [if_pos hq1']
      simp only [bind_ok_iff, checkedSub_ok_iff, readPid_ok_iff, pure_ok_iff, Prod.mk.injEq]
      constructor
      · rintro ⟨x, r, ⟨hle, rfl, rfl⟩, pid, r', ⟨a, c, rfl, hz, rfl⟩, ⟨rfl, rfl⟩, rfl⟩
        refine ⟨.inr (.inl ⟨hq1, a, c, rfl, hz, rfl⟩), ?_, ?_⟩
        · simp only [List.length_cons]; omega
        · simp only [List.length_cons]; omega
      · rintro ⟨(⟨h1, -⟩ | ⟨-, a, c, rfl, hz, rfl⟩ | ⟨h1, -⟩), h2, h3⟩
        · omega
        · simp only [List.length_cons] at h2 h3
          exact ⟨rl - 2, _, ⟨by omega, rfl, rfl⟩, ⟨be16 a c⟩, r2, ⟨a, c, rfl, hz, rfl⟩,
            ⟨rfl, by omega⟩, rfl⟩
        · omega
    · have hq2 : Spec.pubQos flags = 2 := by omega
      have hq1' : h.qos ≠ 1 := by
        intro h1; rw [h1] at hq; exact hq1 hq.symm
      have hq2' : h.qos = 2 := by apply UInt8.toNat_inj.mp; rw [hq, hq2]; rfl
      rw [if_neg hq1', if_pos hq2']
      simp only [bind_ok_iff, checkedSub_ok_iff, readPid_ok_iff, pure_ok_iff, Prod.mk.injEq]
      constructor
      · rintro ⟨x, r, ⟨hle, rfl, rfl⟩, pid, r', ⟨a, c, rfl, hz, rfl⟩, ⟨rfl, rfl⟩, rfl⟩
        refine ⟨.inr (.inr ⟨hq2, a, c, rfl, hz, rfl⟩), ?_, ?_⟩
        · simp only [List.length_cons]; omega
        · simp only [List.length_cons]; omega
      · rintro ⟨(⟨h1, -⟩ | ⟨h1, -⟩ | ⟨-, a, c, rfl, hz, rfl⟩), h2, h3⟩
        · omega
        · omega
        · simp only [List.length_cons] at h2 h3
          exact ⟨rl - 2, _, ⟨by omega, rfl, rfl⟩, ⟨be16 a c⟩, r2, ⟨a, c, rfl, hz, rfl⟩,
            ⟨rfl, by omega⟩, rfl⟩

theorem utf8_valid_nil : Utf8.valid [] = true := by decide

theorem pubPayloadBlock_ok_iff (ps : Props) (rl : Nat) (r3 payload : Bytes) :
    pubPayloadBlock ps rl r3 = .ok payload [] ↔
      rl = r3.length ∧ payload = r3 ∧ (ps.get 0x01 = some (.byte 1) → Utf8.valid r3 = true) := by
  unfold pubPayloadBlock
  by_cases hrl : rl > 0
  · rw [if_pos hrl]
    simp only [bind_ok_iff, take_ok_iff]
    constructor
    · rintro ⟨data, r, ⟨hle, rfl, rfl⟩, h⟩
      by_cases hc : (ps.get 0x01 == some (.byte 1) && !Utf8.valid (List.take rl r3)) = true
      · rw [if_pos hc] at h; simp at h
      · rw [if_neg hc] at h
        simp only [pure_ok_iff] at h
        obtain ⟨rfl, hd⟩ := h
        have hlen : rl = r3.length := by
          have := congrArg List.length hd
          simp only [List.length_drop, List.length_nil] at this
          omega
        subst hlen
        rw [List.take_length] at hc ⊢
        refine ⟨rfl, rfl, fun hg => ?_⟩
        simp only [hg, beq_self_eq_true, Bool.true_and, Bool.not_eq_true', Bool.not_eq_false] at hc
        exact hc
    · rintro ⟨rfl, rfl, hv⟩
      refine ⟨payload, [], ⟨Nat.le_refl _, by simp, by simp⟩, ?_⟩
      have hc : ¬ ((ps.get 0x01 == some (.byte 1) && !Utf8.valid payload) = true) := by
        simp only [Bool.and_eq_true, beq_iff_eq, Bool.not_eq_true', not_and, Bool.not_eq_false]
        exact hv
      rw [if_neg hc]
      simp
  · rw [if_neg hrl]
    have h0 : rl = 0 := by omega
    subst h0
    simp only [pure_ok_iff]
    constructor
    · rintro ⟨rfl, rfl⟩
      exact ⟨rfl, rfl, fun _ => utf8_valid_nil⟩
    · rintro ⟨hl, rfl, -⟩
      have : payload = [] := List.length_eq_zero_iff.mp hl.symm
      subst this
      exact ⟨rfl, rfl⟩

theorem publishModel (h : Header) (flags : UInt8) (b : Bytes) (hrl : h.remainingLen = b.length)
    (hd : h.dup = Spec.pubDup flags) (hq : h.qos.toNat = Spec.pubQos flags)
    (hr : h.retain = Spec.pubRetain flags) (hok : Spec.pubFlagsOk flags = true) (x : Publish) :
    Publish.decode h b = .ok x [] ↔ PublishShape (ModelRA (.packet h.typ) publishProps) flags b x := by
  have hq3 : Spec.pubQos flags ≠ 3 := by
    simp [Spec.pubFlagsOk] at hok; exact hok.1
  rw [publishDecode_eq]
  unfold PublishShape ModelRA
  simp only [bind_ok_iff, readString_ok_iff, checkedSub_ok_iff, propsEncodeLenP_ok_iff,
    liftExcept_ok_iff, topicNameTryFrom_ok_iff, pure_ok_iff]
  constructor
  · rintro ⟨topic, r1, ⟨hl, hv⟩, rl1, r1', ⟨hle1, rfl, rfl⟩, ⟨qp, rl2⟩, r2, hpid, ps, r3, hdp,
      plen, r3', ⟨hel, rfl⟩, rl3, r3'', ⟨hle3, rfl, rfl⟩, payload, r4, hpay, tn, r5,
      ⟨⟨htn, rfl⟩, rfl⟩, rfl, rfl⟩
    have hlen := V3.lenPrefixed_length hl
    obtain ⟨hpp, hrl2, -⟩ := (pubPidBlock_ok_iff h flags hq hq3 _ _ _ _ _).mp hpid
    obtain ⟨hrl3, rfl, hutf⟩ := (pubPayloadBlock_ok_iff _ _ _ _).mp hpay
    have hl21 := hpp.length
    refine ⟨topic, r1, qp, r2, ps, payload, hl, htn, hpp, ⟨hdp, ?_, by omega⟩, hutf, ?_⟩
    · rw [hel]; congr 1; omega
    · simp only [mkPublish, hd, hr]
  · rintro ⟨topic, r1, qp, r2, ps, payload, hl, htn, hpp, ⟨hdp, hel, hle⟩, hutf, rfl⟩
    have hlen := V3.lenPrefixed_length hl
    have hl21 := hpp.length
    refine ⟨topic, r1, ⟨hl, V3.isTopicName_valid htn⟩, _, r1, ⟨by omega, rfl, rfl⟩,
      (qp, r2.length), r2, ?_, ps, payload, hdp, r2.length - payload.length, payload, ⟨hel, rfl⟩,
      payload.length, payload, ⟨by omega, by omega, rfl⟩, payload, [], ?_, topic, [],
      ⟨⟨htn, rfl⟩, rfl⟩, ?_, rfl⟩
    · exact (pubPidBlock_ok_iff h flags hq hq3 _ _ _ _ _).mpr ⟨hpp, by omega, by omega⟩
    · exact (pubPayloadBlock_ok_iff _ _ _ _).mpr ⟨rfl, rfl, hutf⟩
    · simp only [mkPublish, hd, hr]

/-! ### the specification's PUBLISH -/

def pidField (flags : UInt8) (r1 : Bytes) : Option (Spec.Field × Bytes) :=
  if Spec.pubQos flags = 0 then some (.absent, r1)
  else match r1 with
    | a :: c :: r2 => some (.val (.u16 (be16 a c)), r2)
    | _ => none

theorem fieldsOf5_publish (m : Bool) (flags : UInt8) (b : Bytes) :
    fieldsOf5 m .publish flags b =
      (Spec.lenPrefixed b).bind fun x => (pidField flags x.2).bind fun y =>
        (Spec.parseProps m y.2).bind fun z =>
          some [.val (.str x.1), y.1, .props z.1, .rest z.2] := by
  rw [fieldsOf5_eq m .publish flags b (by simp)]
  unfold Spec.parseBody
  simp only [Spec.layoutV5, V3.parseItems_val, V3.parseWire_str]
  cases hl : Spec.lenPrefixed b with
  | none => rfl
  | some x =>
    obtain ⟨topic, r1⟩ := x
    simp only [Option.map_some, Option.bind_some]
    by_cases hq0 : Spec.pubQos flags = 0
    · simp only [hq0, if_true, pidField, V3.parseItems_absent, parseItems_props, parseItems_rest,
        V3.parseItems_nil, Option.bind_some]
      cases Spec.parseProps m r1 with
      | none => rfl
      | some z => rfl
    · simp only [hq0, if_false, pidField]
      match r1 with
      | [] => simp [V3.parseItems_val, V3.parseWire_u16_nil]
      | [a] => simp [V3.parseItems_val, V3.parseWire_u16_one]
      | a :: c :: r2 =>
        simp only [V3.parseItems_val, V3.parseWire_u16, parseItems_props, parseItems_rest,
          V3.parseItems_nil, Option.bind_some]
        cases Spec.parseProps m r2 with
        | none => rfl
        | some z => rfl

/-- The Subscription Identifiers of a PUBLISH, as the specification's projection collects them. -/
def subIdsOf (raw : List Spec.RawProp) : List Nat :=
  ((Spec.projectV5 .publish 0 [.val (.str []), .absent, .props raw, .rest []]).map (·.subIds)).getD []

theorem subIdsOf_length {m : Bool} {f : Nat} {cs : Bytes} {raw : List Spec.RawProp}
    (hp : Spec.parseTLVs m f cs = some raw) :
    (subIdsOf raw).length = (raw.map (·.1)).count 0x0B := by
  unfold subIdsOf
  simp only [Spec.projectV5, Option.map_some, Option.getD_some, Spec.Field.props?]
  apply filterMap_subIds hp
  · intro n; rfl
  · intro id vs hne
    split
    · rename_i heq
      simp only [Prod.mk.injEq] at heq
      exact absurd heq.1 hne
    · rfl

/-- The QoS / packet identifier of the specification's projection. -/
def specQosPid (flags : UInt8) (pf : Spec.Field) : QosPid :=
  match (Spec.projectV5 .publish flags [.val (.str []), pf, .absent, .rest []]).map
      (fun sp => sp.packet) with
  | some (Packet.publish x) => x.qosPid
  | _ => QosPid.level0

theorem projectV5_publish (flags : UInt8) (topic : Bytes) (pf : Spec.Field) (raw : List Spec.RawProp)
    (payload : Bytes) :
    Spec.projectV5 .publish flags [.val (.str topic), pf, .props raw, .rest payload] =
      some ⟨.publish (mkPublish flags (specQosPid flags pf) topic payload (Spec.toProps raw)),
        subIdsOf raw⟩ := rfl

theorem pidField_iff (flags : UInt8) (hq3 : Spec.pubQos flags ≠ 3) (r1 : Bytes) (qp : QosPid)
    (r2 : Bytes) :
    (∃ pf, pidField flags r1 = some (pf, r2) ∧ pf.pidOk = true ∧ pf.textOk = true ∧
      qp = specQosPid flags pf) ↔ PidPart flags r1 qp r2 := by
  have hlt := V3.pubQos_lt flags
  unfold PidPart pidField
  by_cases hq0 : Spec.pubQos flags = 0
  · simp only [hq0, if_true, Option.some.injEq, Prod.mk.injEq]
    constructor
    · rintro ⟨pf, ⟨rfl, rfl⟩, -, -, rfl⟩
      refine .inl ⟨trivial, rfl, ?_⟩
      simp only [specQosPid, Spec.projectV5, hq0, Option.map_some, Spec.Field.u16?]
    · rintro (⟨-, rfl, rfl⟩ | ⟨h1, -⟩ | ⟨h1, -⟩)
      · refine ⟨.absent, ⟨rfl, rfl⟩, rfl, rfl, ?_⟩
        simp only [specQosPid, Spec.projectV5, hq0, Option.map_some, Spec.Field.u16?]
      · cases h1
      · cases h1
  · simp only [hq0, if_false, false_and, false_or]
    match r1 with
    | [] => simp
    | [a] => simp
    | a :: c :: r =>
      simp only [Option.some.injEq, Prod.mk.injEq, List.cons.injEq]
      have hq12 : Spec.pubQos flags = 1 ∨ Spec.pubQos flags = 2 := by omega
      constructor
      · rintro ⟨pf, ⟨rfl, rfl⟩, hz, -, rfl⟩
        have hz' : be16 a c ≠ 0 := by simpa [Spec.Field.pidOk] using hz
        rcases hq12 with h1 | h2
        · refine .inl ⟨h1, a, c, ⟨rfl, rfl, rfl⟩, hz', ?_⟩
          simp only [specQosPid, Spec.projectV5, h1, Option.map_some, Spec.Field.u16?]
        · refine .inr ⟨h2, a, c, ⟨rfl, rfl, rfl⟩, hz', ?_⟩
          simp only [specQosPid, Spec.projectV5, h2, Option.map_some, Spec.Field.u16?]
      · rintro (⟨h1, a', c', ⟨rfl, rfl, rfl⟩, hz, rfl⟩ | ⟨h2, a', c', ⟨rfl, rfl, rfl⟩, hz, rfl⟩)
        · refine ⟨_, ⟨rfl, rfl⟩, by simp [Spec.Field.pidOk, hz], rfl, ?_⟩
          simp only [specQosPid, Spec.projectV5, h1, Option.map_some, Spec.Field.u16?]
        · refine ⟨_, ⟨rfl, rfl⟩, by simp [Spec.Field.pidOk, hz], rfl, ?_⟩
          simp only [specQosPid, Spec.projectV5, h2, Option.map_some, Spec.Field.u16?]

theorem textOk_str_field (s : Bytes) : (Spec.Field.val (.str s)).textOk = Utf8.valid s := by
  simp [Spec.Field.textOk, Spec.Scalar.textOk, V3.isText_eq_valid]

/-- The specification's PUBLISH body, field by field. -/
theorem publishSpec (m : Bool) (flags : UInt8) (b : Bytes) (sp : Spec.PacketV5)
    (hok : Spec.pubFlagsOk flags = true) :
    specBody5 m .publish flags b = some sp ↔
      ∃ topic r1 qp r2 raw payload, Spec.lenPrefixed b = some (topic, r1) ∧
        Spec.isTopicName topic = true ∧ PidPart flags r1 qp r2 ∧
        Spec.parseProps m r2 = some (raw, payload) ∧
        (∀ x ∈ raw, tlvOk (some .publish) x = true) ∧
        Spec.noRepeats (some .publish) (raw.map (·.1)) = true ∧
        (((0x01 : UInt8), [Spec.Scalar.byte 1]) ∈ raw → Utf8.valid payload = true) ∧
        sp = ⟨.publish (mkPublish flags qp topic payload (Spec.toProps raw)), subIdsOf raw⟩ := by
  have hq3 : Spec.pubQos flags ≠ 3 := by
    simp [Spec.pubFlagsOk] at hok; exact hok.1
  rw [specBody5_eq_some_iff]
  simp only [fieldsOf5_publish, Option.bind_eq_some_iff, Option.some.injEq]
  constructor
  · rintro ⟨fs, ⟨⟨topic, r1⟩, hl, ⟨pf, r2⟩, hpf, ⟨raw, payload⟩, hpp, rfl⟩, hv, hpj⟩
    simp only [] at hpf hpp hpj hv
    rw [projectV5_publish] at hpj
    simp only [Spec.validV5, List.all_cons, List.all_nil, Bool.and_true, Bool.and_eq_true, hok,
      true_and, Spec.Lenient.emptyTopicName, Bool.or_true, and_true, Spec.payloadOk,
      Spec.Field.props?, Option.getD_some, Bool.or_eq_true, Bool.not_eq_true',
      textOk_str_field] at hv
    obtain ⟨⟨htv, hpftx, hptx, -⟩, ⟨⟨htn, hpid⟩, hpo⟩, hpay⟩ := hv
    obtain ⟨hok', hnr⟩ := (propsOk_iff (some .publish) raw).mp ⟨hpo, hptx⟩
    refine ⟨topic, r1, specQosPid flags pf, r2, raw, payload, hl, htn,
      (pidField_iff flags hq3 r1 _ r2).mp ⟨pf, hpf, hpid, hpftx, rfl⟩, hpp, hok', hnr, ?_,
      (Option.some.inj hpj).symm⟩
    intro hmem
    rcases hpay with h | h
    · have : raw.contains ((1 : UInt8), [Spec.Scalar.byte 1]) = true := by
        simpa using hmem
      rw [this] at h; cases h
    · exact h
  · rintro ⟨topic, r1, qp, r2, raw, payload, hl, htn, hpp', hpp, hok', hnr, hpay, rfl⟩
    obtain ⟨pf, hpf, hpid, hpftx, rfl⟩ := (pidField_iff flags hq3 r1 qp r2).mpr hpp'
    obtain ⟨hpo, hptx⟩ := (propsOk_iff (some .publish) raw).mpr ⟨hok', hnr⟩
    refine ⟨_, ⟨(topic, r1), hl, (pf, r2), hpf, (raw, payload), hpp, rfl⟩, ?_, projectV5_publish ..⟩
    simp only [Spec.validV5, List.all_cons, List.all_nil, Bool.and_true, Bool.and_eq_true, hok,
      true_and, Spec.Lenient.emptyTopicName, Bool.or_true, and_true, Spec.payloadOk,
      Spec.Field.props?, Option.getD_some, Bool.or_eq_true, Bool.not_eq_true',
      textOk_str_field]
    refine ⟨⟨V3.isTopicName_valid htn, hpftx, hptx, rfl⟩, ⟨⟨htn, hpid⟩, hpo⟩, ?_⟩
    by_cases hmem : ((1 : UInt8), [Spec.Scalar.byte 1]) ∈ raw
    · exact .inr (hpay hmem)
    · left
      simpa using hmem

end Mqtt.V5
