/-
  Proofs.V3Spec — the independent specification decoder `Spec.decodeV3` reads back every valid
  v3 packet from what the model's encoder wrote (C10, v3 part).  The version-independent
  lemmas (varint, frame, values, rows, text / topics) are in Proofs/SpecFields.lean.
-/
import Spec.DecodeV3
import Proofs.SpecFields
import Proofs.V3Compose
import Proofs.V3RoundTrip
import Properties.C01V3
import Properties.C06V3

namespace Mqtt.V3
namespace SpecEnc
open Spec

/-! ### assembly: frame ▸ fields ▸ valid ▸ project -/

theorem decodeV3With_of (m : Bool) (cb : UInt8) (n : Nat) (body t : Bytes) (ty : PType)
    (req : Option UInt8) (fs : List Field) (p : Packet)
    (hn : n < 268435456) (hl : body.length = n)
    (hp : ptypeOfNibble false (UInt8.ofNat (bits cb 4 4)) = some (ty, req))
    (hf : req.all (· == UInt8.ofNat (bits cb 0 4)) = true)
    (hfs : ∀ total, fieldsV3 m ⟨ty, UInt8.ofNat (bits cb 0 4), body, total⟩ = some fs)
    (hv : validV3 ty (UInt8.ofNat (bits cb 0 4)) fs = true)
    (hpr : projectV3 ty (UInt8.ofNat (bits cb 0 4)) fs = some p) :
    decodeV3With m (cb :: (writeVarInt n ++ body) ++ t) = some (p, 1 + varIntSize n + n) := by
  simp only [decodeV3With, splitFrame_write m false cb n body t ty req hn hl hp hf, bind,
    Option.bind, hfs, hv, guard, if_true, pure, hpr]

/-- From the shape of an encoding to the statement of C10. -/
theorem spec_of_shape (m : Bool) (debug : Bool) (p : Packet) (vb : VarBytes) (cb : UInt8) (n : Nat)
    (body t : Bytes) (henc : p.encode debug = .ok vb)
    (hb : vb.asRef = cb :: (writeVarInt n ++ body))
    (hdec : decodeV3With m (cb :: (writeVarInt n ++ body) ++ t) = some (p, 1 + varIntSize n + n))
    (hn : n < 268435456) (hl : body.length = n) :
    ∃ vb, p.encode debug = .ok vb ∧ decodeV3With m (vb.asRef ++ t) = some (p, vb.asRef.length) := by
  refine ⟨vb, henc, ?_⟩
  rw [hb, hdec, List.length_cons, List.length_append, writeVarInt_length n hn, hl]
  congr 2; omega

theorem fieldsV3_of_body (m : Bool) (fr : Spec.Frame) (fs : List Field) (hne : fr.ptype ≠ .connect)
    (h : parseBody m (layoutV3 fr.ptype fr.flags) fr.body = some fs) : fieldsV3 m fr = some fs := by
  simp only [fieldsV3, h, bind, Option.bind]
  split
  · rename_i hc; exact absurd hc hne
  · rfl

/-! ### bodies -/

theorem parseBody_u16 (m : Bool) (v : UInt16) :
    parseBody m [.val .u16] (u16be v) = some [.val (.u16 v)] := by
  simp [parseBody, parseItems, u16be, bind, Option.bind]

theorem parseBody_pid_many {α : Type} (m : Bool) (v : UInt16) (row : List WireType)
    (enc : α → Bytes) (val : α → List Scalar) (xs : List α)
    (h : ∀ x ∈ xs, ∀ r, parseRow m row (enc x ++ r) = some (val x, r))
    (hpos : ∀ x ∈ xs, enc x ≠ []) :
    parseBody m [.val .u16, .many row] (u16be v ++ xs.flatMap enc) =
      some [.val (.u16 v), .many (xs.map val)] := by
  apply parseBody_of_items
  exact parseItems_val m .u16 _ _ _ _ _ _ (parseWire_u16be m v _)
    (parseItems_many m row _ _ (parseRows_flatMap m row enc val xs h hpos _ (Nat.le_refl _)))

/-! ### control bytes -/

theorem Publish.controlByte_spec (p : Publish) :
    ptypeOfNibble false (UInt8.ofNat (bits p.controlByte 4 4)) = some (.publish, none) ∧
    pubQos (UInt8.ofNat (bits p.controlByte 0 4)) = (QosPid.qos p.qosPid).toNat ∧
    pubDup (UInt8.ofNat (bits p.controlByte 0 4)) = p.dup ∧
    pubRetain (UInt8.ofNat (bits p.controlByte 0 4)) = p.retain := by
  obtain ⟨dup, retain, qp, topic, payload⟩ := p
  cases dup <;> cases retain <;> cases qp <;> (simp [Publish.controlByte, QosPid.qos]; try decide)

/-- The Connect Flags byte the encoder writes, read with the bit positions of §3.1.2.3. -/
theorem Connect.flags_bits (c : Connect)
    (hq : ∀ w, c.lastWill = some w → isVariant .qos w.qos = true) :
    bit c.flags 0 = false ∧ bit c.flags 1 = c.cleanSession ∧ bit c.flags 2 = c.lastWill.isSome ∧
    bit c.flags 6 = c.password.isSome ∧ bit c.flags 7 = c.username.isSome ∧
    (c.lastWill = none → bits c.flags 3 2 = 0) ∧
    (∀ w, c.lastWill = some w →
      bits c.flags 3 2 = w.qos.toNat ∧ bits c.flags 3 2 ≠ 3 ∧ bit c.flags 5 = w.retain) := by
  obtain ⟨proto, cs, ka, cid, lw, un, pw⟩ := c
  cases lw with
  | none =>
    cases cs <;> cases un <;> cases pw <;> (simp [Connect.flags]; try decide)
  | some w =>
    obtain ⟨q, r, tn, msg⟩ := w
    have hq' := isVariant_qos (hq _ rfl)
    simp only at hq'
    rcases hq' with rfl | rfl | rfl <;>
    cases cs <;> cases un <;> cases pw <;> cases r <;> (simp [Connect.flags]; try decide)

/-! ### per packet type -/

theorem variants_connectReturnV3 : Gen.variants .connectReturnV3 = connackCodesV3 := by decide
theorem variants_subscribeReturnV3 : Gen.variants .subscribeReturnV3 = subackCodesV3 := by decide

theorem spec_empty (m : Bool) (cb : UInt8) (ty : PType) (p : Packet) (t : Bytes)
    (hp : ptypeOfNibble false (UInt8.ofNat (bits cb 4 4)) = some (ty, some 0))
    (hf : UInt8.ofNat (bits cb 0 4) = 0) (hne : ty ≠ .connect)
    (hl : layoutV3 ty 0 = [])
    (hv : validV3 ty 0 [] = true) (hpr : projectV3 ty 0 [] = some p) :
    decodeV3With m (cb :: (writeVarInt 0 ++ []) ++ t) = some (p, 1 + varIntSize 0 + 0) := by
  refine decodeV3With_of m cb 0 [] t ty (some 0) [] p (by omega) rfl hp (by simp [hf])
    (fun total => fieldsV3_of_body m _ _ hne ?_) (by rw [hf]; exact hv) (by rw [hf]; exact hpr)
  simp only [hf, hl]; rfl

theorem spec_pid (m : Bool) (cb : UInt8) (ty : PType) (pid : Pid) (p : Packet) (t : Bytes)
    (req : Option UInt8)
    (hp : ptypeOfNibble false (UInt8.ofNat (bits cb 4 4)) = some (ty, req))
    (hf : req.all (· == UInt8.ofNat (bits cb 0 4)) = true) (hne : ty ≠ .connect)
    (hl : ∀ flags, layoutV3 ty flags = [.val .u16])
    (hv : ∀ flags, validV3 ty flags [.val (.u16 pid.val)] = Field.pidOk (.val (.u16 pid.val)))
    (hpr : ∀ flags, projectV3 ty flags [.val (.u16 pid.val)] = some p)
    (hpid : validPid pid = true) :
    decodeV3With m (cb :: (writeVarInt 2 ++ u16be pid.val) ++ t) = some (p, 1 + varIntSize 2 + 2) := by
  refine decodeV3With_of m cb 2 (u16be pid.val) t ty req [.val (.u16 pid.val)] p (by omega) rfl hp hf
    (fun total => fieldsV3_of_body m _ _ hne ?_) ?_ (hpr _)
  · simp only [hl]; exact parseBody_u16 m pid.val
  · rw [hv]; simpa [Field.pidOk, validPid] using hpid

theorem spec_connack (m : Bool) (c : Connack) (hv : isVariant .connectReturnV3 c.code = true)
    (t : Bytes) :
    decodeV3With m (0b00100000 :: (writeVarInt 2 ++ [b2u8 c.sessionPresent, c.code]) ++ t) =
      some (.connack c, 1 + varIntSize 2 + 2) := by
  obtain ⟨sp, code⟩ := c
  have hc : connackCodesV3.contains code = true := by
    rw [← variants_connectReturnV3]; exact hv
  refine decodeV3With_of m _ 2 _ t .connack (some 0) [.val (.byte (b2u8 sp)), .val (.byte code)] _
    (by omega) rfl (by decide) (by decide) (fun total => fieldsV3_of_body m _ _ (by simp) rfl) ?_ ?_
  · have hc' : code ∈ connackCodesV3 := by simpa using hc
    cases sp <;> simp [validV3, Field.textOk, Scalar.textOk, b2u8, hc']
  · cases sp <;> simp [projectV3, b2u8] <;> decide

theorem spec_publish (m : Bool) (p : Publish) (t : Bytes)
    (hn : validTopicName p.topicName = true) (hq : QosPid.valid p.qosPid = true)
    (hlt : p.encodeLen < 268435456) :
    decodeV3With m (p.controlByte :: (writeVarInt p.encodeLen ++ p.encode) ++ t) =
      some (.publish p, 1 + varIntSize p.encodeLen + p.encodeLen) := by
  obtain ⟨hty, hqos, hdup, hret⟩ := Publish.controlByte_spec p
  have htext := (validText_iff _).mp (validTopicName_text hn)
  have hT := isText_of_valid htext.2
  have hN := isTopicName_of_valid hn
  obtain ⟨dup, retain, qp, topic, payload⟩ := p
  simp only at hn hq htext hT hN hqos hdup hret
  generalize hfl : UInt8.ofNat (bits (Publish.controlByte _) 0 4) = flags at hqos hdup hret
  cases qp with
  | level0 =>
    refine decodeV3With_of m _ _ _ t .publish none
      [.val (.str topic), .absent, .rest payload] _ hlt (Publish.encode_length _) hty rfl
      (fun total => fieldsV3_of_body m _ _ (by simp) ?_) ?_ ?_
    · rw [hfl]
      simp only [QosPid.qos] at hqos
      have : pubQos flags = 0 := hqos
      simp only [layoutV3, this, if_true, Publish.encode, QosPid.pidBytes, List.append_nil]
      apply parseBody_of_items
      exact parseItems_val m .str _ _ _ _ _ _ (parseWire_str m topic payload htext.1)
        (parseItems_absent m _ _ _ _ (parseItems_rest m payload))
    · rw [hfl]
      have : pubQos flags = 0 := hqos
      simp [validV3, Field.textOk, Scalar.textOk, hT, hN, pubFlagsOk, this, Lenient.dupWithQos0,
        Lenient.emptyTopicName, Field.pidOk]
    · rw [hfl]
      have : pubQos flags = 0 := hqos
      simp [projectV3, this, hdup, hret]
  | level1 pid =>
    have hpid : pid.val ≠ 0 := (validPid_iff pid).mp hq
    refine decodeV3With_of m _ _ _ t .publish none
      [.val (.str topic), .val (.u16 pid.val), .rest payload] _ hlt (Publish.encode_length _) hty rfl
      (fun total => fieldsV3_of_body m _ _ (by simp) ?_) ?_ ?_
    · rw [hfl]
      have : pubQos flags = 1 := hqos
      simp only [layoutV3, this, Publish.encode, QosPid.pidBytes, List.append_assoc]
      apply parseBody_of_items
      exact parseItems_val m .str _ _ _ _ _ _ (parseWire_str m topic _ htext.1)
        (parseItems_val m .u16 _ _ _ _ _ _ (parseWire_u16be m pid.val payload) (parseItems_rest m payload))
    · rw [hfl]
      have : pubQos flags = 1 := hqos
      simp [validV3, Field.textOk, Scalar.textOk, hT, hN, pubFlagsOk, this, Lenient.dupWithQos0,
        Lenient.emptyTopicName, Field.pidOk, hpid]
    · rw [hfl]
      have : pubQos flags = 1 := hqos
      simp [projectV3, this, hdup, hret, Field.u16?]
  | level2 pid =>
    have hpid : pid.val ≠ 0 := (validPid_iff pid).mp hq
    refine decodeV3With_of m _ _ _ t .publish none
      [.val (.str topic), .val (.u16 pid.val), .rest payload] _ hlt (Publish.encode_length _) hty rfl
      (fun total => fieldsV3_of_body m _ _ (by simp) ?_) ?_ ?_
    · rw [hfl]
      have : pubQos flags = 2 := hqos
      simp only [layoutV3, this, Publish.encode, QosPid.pidBytes, List.append_assoc]
      apply parseBody_of_items
      exact parseItems_val m .str _ _ _ _ _ _ (parseWire_str m topic _ htext.1)
        (parseItems_val m .u16 _ _ _ _ _ _ (parseWire_u16be m pid.val payload) (parseItems_rest m payload))
    · rw [hfl]
      have : pubQos flags = 2 := hqos
      simp [validV3, Field.textOk, Scalar.textOk, hT, hN, pubFlagsOk, this, Lenient.dupWithQos0,
        Lenient.emptyTopicName, Field.pidOk, hpid]
    · rw [hfl]
      have : pubQos flags = 2 := hqos
      simp [projectV3, this, hdup, hret, Field.u16?]

theorem filterMap_map_id {α β : Type} (g : β → Option α) (val : α → β) (xs : List α)
    (h : ∀ x ∈ xs, g (val x) = some x) : (xs.map val).filterMap g = xs := by
  induction xs with
  | nil => rfl
  | cons x xs ih =>
    simp only [List.map_cons, List.filterMap_cons, h x (by simp)]
    rw [ih (fun y hy => h y (by simp [hy]))]

theorem spec_subscribe (m : Bool) (s : Subscribe) (t : Bytes) (hp : validPid s.pid = true)
    (hne : s.topics.isEmpty = false)
    (hall : s.topics.all (fun (f, q) => validTopicFilter f && isVariant .qos q) = true)
    (hlt : s.encodeLen < 268435456) :
    decodeV3With m (0b10000010 :: (writeVarInt s.encodeLen ++ s.encode) ++ t) =
      some (.subscribe s, 1 + varIntSize s.encodeLen + s.encodeLen) := by
  obtain ⟨pid, ts⟩ := s
  simp only [List.all_eq_true, Bool.and_eq_true, Prod.forall] at hall hp hne
  have hpid : pid.val ≠ 0 := (validPid_iff pid).mp hp
  let val : Topic.TopicFilter × UInt8 → List Scalar := fun x => [.str x.1.text, .byte x.2]
  refine decodeV3With_of m _ _ _ t .subscribe (some 2)
    [.val (.u16 pid.val), .many (ts.map val)] _ hlt (Subscribe.encode_length _) (by decide) (by decide)
    (fun total => fieldsV3_of_body m _ _ (by simp) ?_) ?_ ?_
  · simp only [layoutV3, Subscribe.encode]
    refine parseBody_pid_many m pid.val _ _ val ts ?_ ?_
    · rintro ⟨f, q⟩ hx r
      have hl := length_of_validTopicFilter (hall f q hx).1
      simp only [List.append_assoc]
      exact parseRow_cons m .str _ _ _ _ _ _ (parseWire_str m f.text _ hl)
        (parseRow_cons m .byte _ _ _ _ _ _ (parseWire_byte m q r) (parseRow_nil m r))
    · rintro ⟨f, q⟩ _; simp
  · have hne' : ts ≠ [] := by intro h; simp [h] at hne
    simp only [validV3, List.all_cons, List.all_nil, Field.textOk, Scalar.textOk, Field.pidOk,
      List.all_map, Bool.and_true, Bool.true_and, Bool.and_eq_true, List.all_eq_true,
      Function.comp_apply, decide_eq_true_eq, Bool.not_eq_true', List.isEmpty_map, ne_eq]
    refine ⟨fun x hx => ?_, ⟨hpid, hne⟩, fun x hx => ?_⟩
    · obtain ⟨f, q⟩ := x
      simp [val, isText_of_validTopicFilter (hall f q hx).1]
    · obtain ⟨f, q⟩ := x
      have hq : q ≤ 2 := by rcases isVariant_qos (hall f q hx).2 with rfl | rfl | rfl <;> decide
      simp [val, isTopicFilter_of_valid (hall f q hx).1, hq]
  · simp only [projectV3]
    congr 3
    refine filterMap_map_id _ val ts ?_
    rintro ⟨f, q⟩ hx
    simp [val, topicFilterOf_of_valid (hall f q hx).1]

theorem spec_unsubscribe (m : Bool) (u : Unsubscribe) (t : Bytes) (hp : validPid u.pid = true)
    (hne : u.topics.isEmpty = false) (hall : u.topics.all validTopicFilter = true)
    (hlt : u.encodeLen < 268435456) :
    decodeV3With m (0b10100010 :: (writeVarInt u.encodeLen ++ u.encode) ++ t) =
      some (.unsubscribe u, 1 + varIntSize u.encodeLen + u.encodeLen) := by
  obtain ⟨pid, ts⟩ := u
  simp only [List.all_eq_true] at hall hp hne
  have hpid : pid.val ≠ 0 := (validPid_iff pid).mp hp
  let val : Topic.TopicFilter → List Scalar := fun f => [.str f.text]
  refine decodeV3With_of m _ _ _ t .unsubscribe (some 2)
    [.val (.u16 pid.val), .many (ts.map val)] _ hlt (Unsubscribe.encode_length _) (by decide) (by decide)
    (fun total => fieldsV3_of_body m _ _ (by simp) ?_) ?_ ?_
  · simp only [layoutV3, Unsubscribe.encode]
    refine parseBody_pid_many m pid.val _ _ val ts ?_ ?_
    · intro f hx r
      have hl := length_of_validTopicFilter (hall f hx)
      exact parseRow_cons m .str _ _ _ _ _ _ (parseWire_str m f.text _ hl) (parseRow_nil m r)
    · intro f _; simp [writeBytes, u16be]
  · have hne' : ts ≠ [] := by intro h; simp [h] at hne
    simp only [validV3, List.all_cons, List.all_nil, Field.textOk, Scalar.textOk, Field.pidOk,
      List.all_map, Bool.and_true, Bool.true_and, Bool.and_eq_true, List.all_eq_true,
      Function.comp_apply, decide_eq_true_eq, Bool.not_eq_true', List.isEmpty_map, ne_eq]
    refine ⟨fun f hx => ?_, ⟨hpid, hne⟩, fun f hx => ?_⟩
    · simp [val, isText_of_validTopicFilter (hall f hx)]
    · simp [val, isTopicFilter_of_valid (hall f hx)]
  · simp only [projectV3]
    congr 3
    refine filterMap_map_id _ val ts ?_
    intro f hx
    simp [val, topicFilterOf_of_valid (hall f hx)]

theorem spec_suback (m : Bool) (s : Suback) (t : Bytes) (hp : validPid s.pid = true)
    (hall : s.topics.all (isVariant .subscribeReturnV3) = true) (hlt : s.encodeLen < 268435456) :
    decodeV3With m (0b10010000 :: (writeVarInt s.encodeLen ++ s.encode) ++ t) =
      some (.suback s, 1 + varIntSize s.encodeLen + s.encodeLen) := by
  obtain ⟨pid, codes⟩ := s
  simp only [List.all_eq_true] at hall hp
  have hpid : pid.val ≠ 0 := (validPid_iff pid).mp hp
  let val : UInt8 → List Scalar := fun c => [.byte c]
  have hrb : rowBytes (codes.map val) = codes :=
    filterMap_map_id _ val codes (fun c _ => rfl)
  have hflat : codes.flatMap (fun c => [c]) = codes := by
    induction codes with
    | nil => rfl
    | cons c cs ih => simp
  refine decodeV3With_of m _ _ _ t .suback (some 0)
    [.val (.u16 pid.val), .many (codes.map val)] _ hlt (Suback.encode_length _) (by decide) (by decide)
    (fun total => fieldsV3_of_body m _ _ (by simp) ?_) ?_ ?_
  · simp only [layoutV3, Suback.encode]
    have := parseBody_pid_many m pid.val [.byte] (fun c => [c]) val codes
      (fun c _ r => parseRow_cons m .byte _ _ _ _ _ _ (parseWire_byte m c r) (parseRow_nil m r))
      (fun c _ => by simp)
    rwa [hflat] at this
  · simp only [validV3, hrb, List.all_cons, List.all_nil, Field.textOk, Scalar.textOk, Field.pidOk,
      List.all_map, Bool.and_true, Bool.true_and, Bool.and_eq_true, List.all_eq_true,
      Function.comp_apply, decide_eq_true_eq, Lenient.emptyCodeList, Bool.true_or, ne_eq]
    refine ⟨fun c _ => by simp [val], hpid, fun c hc => ?_⟩
    have := hall c hc
    rw [isVariant, variants_subscribeReturnV3] at this
    exact this
  · simp only [projectV3, hrb]

/-! ### CONNECT -/

theorem Connect.connectFlags_spec (c : Connect)
    (hq : ∀ w, c.lastWill = some w → isVariant .qos w.qos = true) :
    connectFlags? c.flags = some ⟨c.username.isSome, c.password.isSome, bit c.flags 5,
      bits c.flags 3 2, c.lastWill.isSome, c.cleanSession⟩ := by
  obtain ⟨h0, h1, h2, h6, h7, hnone, hsome⟩ := Connect.flags_bits c hq
  unfold connectFlags?
  simp only [h0, h1, h2, h6, h7]
  cases hl : c.lastWill with
  | none => simp [hnone hl, Lenient.willRetainWithoutWill]
  | some w => simp [(hsome w hl).2.1]

theorem fieldsV3_connect (m : Bool) (fr : Spec.Frame) (name : Bytes) (level cf : UInt8)
    (ka : UInt16) (payload : Bytes) (f : ConnectFlags) (ps : List Field)
    (hty : fr.ptype = .connect)
    (h1 : parseBody m (layoutV3 .connect fr.flags) fr.body = some [.val (.str name),
      .val (.byte level), .val (.byte cf), .val (.u16 ka), .rest payload])
    (h2 : connectFlags? cf = some f) (h3 : parseBody m (connectPayloadV3 f) payload = some ps) :
    fieldsV3 m fr = some ([.val (.str name), .val (.byte level), .val (.byte cf),
      .val (.u16 ka)] ++ ps) := by
  simp only [fieldsV3, hty, h1, bind, Option.bind, h2, h3]

theorem connect_stage1 (m : Bool) (flags : UInt8) (name : Bytes) (level cf : UInt8) (ka : UInt16)
    (payload : Bytes) (hname : name.length ≤ 65535) :
    parseBody m (layoutV3 .connect flags) (writeBytes name ++ (level :: cf :: (u16be ka ++ payload))) =
      some [.val (.str name), .val (.byte level), .val (.byte cf), .val (.u16 ka), .rest payload] := by
  apply parseBody_of_items
  exact parseItems_val m .str _ _ _ _ _ _ (parseWire_str m name _ hname)
    (parseItems_val m .byte _ _ _ _ _ _ (parseWire_byte m level _)
      (parseItems_val m .byte _ _ _ _ _ _ (parseWire_byte m cf _)
        (parseItems_val m .u16 _ _ _ _ _ _ (parseWire_u16be m ka payload) (parseItems_rest m payload))))

/-- Protocol Name and Level the encoder writes are a row of the standard's table. -/
theorem Protocol.encode_spec (p : Protocol) (hp : p ≠ .v500) :
    ∃ name level, p.encode = writeBytes name ++ [level] ∧ name.length ≤ 65535 ∧
      isText name = true ∧
      (protocols.any fun (n, l, q) => n == name && l == level && q != .v500) = true ∧
      (protocols.find? fun (n, l, _) => n == name && l == level) = some (name, level, p) := by
  have hQ : Utf8.valid MQISDP = true :=
    (Utf8.valid_iff _).mpr ⟨['M', 'Q', 'I', 's', 'd', 'p'], by decide⟩
  have hT : Utf8.valid MQTTN = true := (Utf8.valid_iff _).mpr ⟨['M', 'Q', 'T', 'T'], by decide⟩
  cases p with
  | v310 => exact ⟨MQISDP, 3, rfl, by decide, isText_of_valid hQ, by decide, by decide⟩
  | v311 => exact ⟨MQTTN, 4, rfl, by decide, isText_of_valid hT, by decide, by decide⟩
  | v500 => exact absurd rfl hp

/-- An optional length-prefixed field, as the encoder writes it and as the specification's
generic parser returns it. -/
def wbOpt (o : Option Bytes) : Bytes := match o with | some s => writeBytes s | none => []
def strField (o : Option Bytes) : Field := match o with | some s => .val (.str s) | none => .absent
def binField (o : Option Bytes) : Field := match o with | some s => .val (.bin s) | none => .absent

theorem strField_str? (o : Option Bytes) : (strField o).str? = o := by cases o <;> rfl
theorem binField_bin? (o : Option Bytes) : (binField o).bin? = o := by cases o <;> rfl
theorem binField_textOk (o : Option Bytes) : (binField o).textOk = true := by cases o <;> rfl
theorem strField_textOk (o : Option Bytes) (h : ∀ s, o = some s → isText s = true) :
    (strField o).textOk = true := by
  cases o with
  | none => rfl
  | some s => exact h s rfl

theorem parseItems_optStr (m : Bool) (o : Option Bytes) (b : Bool) (is : List Item) (r r' : Bytes)
    (fs : List Field) (hb : b = o.isSome) (ho : ∀ s, o = some s → s.length ≤ 65535)
    (h2 : parseItems m is r = some (fs, r')) :
    parseItems m ((if b then Item.val .str else .absent) :: is) (wbOpt o ++ r) =
      some (strField o :: fs, r') := by
  subst hb
  cases o with
  | none => exact parseItems_absent m is r r' fs h2
  | some s => exact parseItems_val m .str is _ r r' _ fs (parseWire_str m s r (ho s rfl)) h2

theorem parseItems_optBin (m : Bool) (o : Option Bytes) (b : Bool) (is : List Item) (r r' : Bytes)
    (fs : List Field) (hb : b = o.isSome) (ho : ∀ s, o = some s → s.length ≤ 65535)
    (h2 : parseItems m is r = some (fs, r')) :
    parseItems m ((if b then Item.val .bin else .absent) :: is) (wbOpt o ++ r) =
      some (binField o :: fs, r') := by
  subst hb
  cases o with
  | none => exact parseItems_absent m is r r' fs h2
  | some s => exact parseItems_val m .bin is _ r r' _ fs (parseWire_bin m s r (ho s rfl)) h2

theorem Connect.encode_eq (c : Connect) :
    c.encode = c.protocol.encode ++ (c.flags :: (u16be c.keepAlive ++ (writeBytes c.clientId ++
      (wbOpt (c.lastWill.map (·.topicName)) ++ (wbOpt (c.lastWill.map (·.message)) ++
      (wbOpt c.username ++ (wbOpt c.password ++ []))))))) := by
  obtain ⟨proto, cs, ka, cid, lw, un, pw⟩ := c
  cases lw <;> cases un <;> cases pw <;> simp [Connect.encode, wbOpt, LastWill.encode]

theorem spec_connect (m : Bool) (c : Connect) (t : Bytes) (hv : c.valid = true)
    (hlt : c.encodeLen < 268435456) :
    decodeV3With m (0b00010000 :: (writeVarInt c.encodeLen ++ c.encode) ++ t) =
      some (.connect c, 1 + varIntSize c.encodeLen + c.encodeLen) := by
  have hq : ∀ w, c.lastWill = some w → isVariant .qos w.qos = true := by
    intro w hw
    simp only [Connect.valid, hw, LastWill.valid, Bool.and_eq_true] at hv
    exact hv.1.1.2.1.1
  have hcf := Connect.connectFlags_spec c hq
  obtain ⟨-, b1, -, -, -, -, hsome⟩ := Connect.flags_bits c hq
  have hlen := Connect.encode_length c
  have henc := Connect.encode_eq c
  obtain ⟨proto, cs, ka, cid, lw, un, pw⟩ := c
  simp only [Connect.valid, Bool.and_eq_true, bne_iff_ne, ne_eq] at hv
  obtain ⟨⟨⟨⟨hp, hcid⟩, hlw⟩, hun⟩, hpw⟩ := hv
  obtain ⟨name, level, hpe, hnl, hnt, hany, hfind⟩ := Protocol.encode_spec proto hp
  have hcid' := (validText_iff _).mp hcid
  have hcidT := isText_of_valid hcid'.2
  simp only at hcf b1 hsome henc
  generalize Connect.flags _ = cf at hcf b1 hsome henc
  generalize Connect.encodeLen _ = n at hlen hlt
  rw [hpe, List.append_assoc, List.singleton_append] at henc
  generalize Connect.encode _ = body at hlen henc
  -- validity of the optional fields
  have hwt : ∀ s, lw.map (·.topicName) = some s → validTopicName s = true := by
    intro s hs
    cases lw with
    | none => cases hs
    | some w =>
      simp only [LastWill.valid, Bool.and_eq_true] at hlw
      cases hs; exact hlw.1.2
  have hwm : ∀ s, lw.map (·.message) = some s → s.length ≤ 65535 := by
    intro s hs
    cases lw with
    | none => cases hs
    | some w =>
      simp only [LastWill.valid, Bool.and_eq_true] at hlw
      cases hs; exact (validBin_iff _).mp hlw.2
  have hun' : ∀ s, un = some s → validText s = true := by
    intro s hs; subst hs; exact hun
  have hpw' : ∀ s, pw = some s → s.length ≤ 65535 := by
    intro s hs; subst hs; exact (validBin_iff _).mp hpw
  refine decodeV3With_of m _ n body t .connect (some 0)
    ([.val (.str name), .val (.byte level), .val (.byte cf), .val (.u16 ka)] ++
      [.val (.str cid), strField (lw.map (·.topicName)), binField (lw.map (·.message)),
       strField un, binField pw]) _ hlt hlen (by decide) (by decide)
    (fun total => fieldsV3_connect m _ name level cf ka (writeBytes cid ++
      (wbOpt (lw.map (·.topicName)) ++ (wbOpt (lw.map (·.message)) ++
      (wbOpt un ++ (wbOpt pw ++ []))))) _ _ rfl ?_ hcf ?_) ?_ ?_
  · simp only [henc]
    exact connect_stage1 m _ name level cf ka _ hnl
  · apply parseBody_of_items
    exact parseItems_val m .str _ _ _ _ _ _ (parseWire_str m cid _ hcid'.1)
      (parseItems_optStr m _ _ _ _ _ _ (by simp)
        (fun s hs => ((validText_iff _).mp (validTopicName_text (hwt s hs))).1)
        (parseItems_optBin m _ _ _ _ _ _ (by simp) hwm
          (parseItems_optStr m _ _ _ _ _ _ rfl (fun s hs => ((validText_iff _).mp (hun' s hs)).1)
            (parseItems_optBin m _ _ _ _ _ _ rfl hpw' (parseItems_nil m [])))))
  · have t1 := strField_textOk (lw.map (·.topicName))
      (fun s hs => isText_of_validText (validTopicName_text (hwt s hs)))
    have t2 := strField_textOk un (fun s hs => isText_of_validText (hun' s hs))
    have hwtn : (lw.map (·.topicName)).all isTopicName = true := by
      cases lw with
      | none => rfl
      | some w => exact isTopicName_of_valid (hwt _ rfl)
    have e1 : ∀ s, Field.textOk (.val (.str s)) = isText s := fun _ => rfl
    have e2 : ∀ b, Field.textOk (.val (.byte b)) = true := fun _ => rfl
    have e3 : ∀ v, Field.textOk (.val (.u16 v)) = true := fun _ => rfl
    simp only [List.cons_append, List.nil_append, validV3, List.all_cons, List.all_nil,
      e1, e2, e3, hnt, hcidT, t1, t2, binField_textOk, Bool.and_true, hany, strField_str?, hwtn, Lenient.passwordWithoutUsername,
      Lenient.anyClientId, Bool.true_or]
  · simp only [List.cons_append, List.nil_append, projectV3, hfind, bind, Option.bind,
      strField_str?, binField_bin?, b1]
    cases lw with
    | none => rfl
    | some w =>
      obtain ⟨hq1, -, hr⟩ := hsome w rfl
      obtain ⟨q, r, tn, msg⟩ := w
      simp only at hq1 hr
      simp [hq1, hr]

/-! ### every valid packet -/

/-- C10 (v3), for either setting of the `minimal` flag of the specification. -/
theorem spec_decodes_encoding (m debug : Bool) (p : Packet) (hv : p.valid = true) (t : Bytes) :
    ∃ vb, p.encode debug = .ok vb ∧ decodeV3With m (vb.asRef ++ t) = some (p, vb.asRef.length) := by
  have fixed0 : ∀ cb : UInt8, (VarBytes.fixed2 cb 0).asRef = cb :: (writeVarInt 0 ++ []) := by
    intro cb; rw [writeVarInt_zero]; rfl
  cases p with
  | pingreq =>
    exact spec_of_shape m debug _ _ _ 0 [] t rfl (fixed0 _)
      (spec_empty m _ .pingreq _ t (by decide) (by decide) (by decide) rfl rfl rfl) (by omega) rfl
  | pingresp =>
    exact spec_of_shape m debug _ _ _ 0 [] t rfl (fixed0 _)
      (spec_empty m _ .pingresp _ t (by decide) (by decide) (by decide) rfl rfl rfl) (by omega) rfl
  | disconnect =>
    exact spec_of_shape m debug _ _ _ 0 [] t rfl (fixed0 _)
      (spec_empty m _ .disconnect _ t (by decide) (by decide) (by decide) rfl rfl rfl) (by omega) rfl
  | connack c =>
    simp only [Packet.valid] at hv
    exact spec_of_shape m debug _ _ 0b00100000 2 [b2u8 c.sessionPresent, c.code] t rfl
      (by rw [writeVarInt_small 2 (by omega)]; rfl) (spec_connack m c hv t) (by omega) rfl
  | puback pid =>
    simp only [Packet.valid] at hv
    exact spec_of_shape m debug _ _ _ 2 (u16be pid.val) t rfl (encodeWithPid_asRef _ _)
      (spec_pid m _ .puback pid _ t (some 0) (by decide) (by decide) (by decide) (fun _ => rfl)
        (fun _ => by simp [validV3, Field.textOk, Scalar.textOk]) (fun _ => rfl) hv) (by omega) rfl
  | pubrec pid =>
    simp only [Packet.valid] at hv
    exact spec_of_shape m debug _ _ _ 2 (u16be pid.val) t rfl (encodeWithPid_asRef _ _)
      (spec_pid m _ .pubrec pid _ t (some 0) (by decide) (by decide) (by decide) (fun _ => rfl)
        (fun _ => by simp [validV3, Field.textOk, Scalar.textOk]) (fun _ => rfl) hv) (by omega) rfl
  | pubrel pid =>
    simp only [Packet.valid] at hv
    exact spec_of_shape m debug _ _ _ 2 (u16be pid.val) t rfl (encodeWithPid_asRef _ _)
      (spec_pid m _ .pubrel pid _ t (some 2) (by decide) (by decide) (by decide) (fun _ => rfl)
        (fun _ => by simp [validV3, Field.textOk, Scalar.textOk]) (fun _ => rfl) hv) (by omega) rfl
  | pubcomp pid =>
    simp only [Packet.valid] at hv
    exact spec_of_shape m debug _ _ _ 2 (u16be pid.val) t rfl (encodeWithPid_asRef _ _)
      (spec_pid m _ .pubcomp pid _ t (some 0) (by decide) (by decide) (by decide) (fun _ => rfl)
        (fun _ => by simp [validV3, Field.textOk, Scalar.textOk]) (fun _ => rfl) hv) (by omega) rfl
  | unsuback pid =>
    simp only [Packet.valid] at hv
    exact spec_of_shape m debug _ _ _ 2 (u16be pid.val) t rfl (encodeWithPid_asRef _ _)
      (spec_pid m _ .unsuback pid _ t (some 0) (by decide) (by decide) (by decide) (fun _ => rfl)
        (fun _ => by simp [validV3, Field.textOk, Scalar.textOk]) (fun _ => rfl) hv) (by omega) rfl
  | connect c =>
    simp only [Packet.valid, Bool.and_eq_true, decide_eq_true_eq] at hv
    obtain ⟨hc, hlt⟩ := hv
    have henc := encodePacket_ok debug 0b00010000 c.encodeLen c.encode c.encode_length hlt
    exact spec_of_shape m debug _ (.dynamic _) _ c.encodeLen c.encode t
      (by simp only [Packet.encode, henc, Packet.encode.dyn]) rfl (spec_connect m c t hc hlt) hlt
      c.encode_length
  | publish p =>
    simp only [Packet.valid, Bool.and_eq_true, decide_eq_true_eq] at hv
    obtain ⟨⟨hn, hq⟩, hlt⟩ := hv
    have henc := encodePacket_ok debug p.controlByte p.encodeLen p.encode p.encode_length hlt
    exact spec_of_shape m debug _ (.dynamic _) _ p.encodeLen p.encode t
      (by simp only [Packet.encode, henc, Packet.encode.dyn]) rfl (spec_publish m p t hn hq hlt) hlt
      p.encode_length
  | subscribe s =>
    simp only [Packet.valid, Bool.and_eq_true, decide_eq_true_eq, Bool.not_eq_true'] at hv
    obtain ⟨⟨⟨hp, hne⟩, hall⟩, hlt⟩ := hv
    have henc := encodePacket_ok debug 0b10000010 s.encodeLen s.encode s.encode_length hlt
    exact spec_of_shape m debug _ (.dynamic _) _ s.encodeLen s.encode t
      (by simp only [Packet.encode, henc, Packet.encode.dyn]) rfl
      (spec_subscribe m s t hp hne hall hlt) hlt s.encode_length
  | suback s =>
    simp only [Packet.valid, Bool.and_eq_true, decide_eq_true_eq] at hv
    obtain ⟨⟨hp, hall⟩, hlt⟩ := hv
    have henc := encodePacket_ok debug 0b10010000 s.encodeLen s.encode s.encode_length hlt
    exact spec_of_shape m debug _ (.dynamic _) _ s.encodeLen s.encode t
      (by simp only [Packet.encode, henc, Packet.encode.dyn]) rfl
      (spec_suback m s t hp hall hlt) hlt s.encode_length
  | unsubscribe u =>
    simp only [Packet.valid, Bool.and_eq_true, decide_eq_true_eq, Bool.not_eq_true'] at hv
    obtain ⟨⟨⟨hp, hne⟩, hall⟩, hlt⟩ := hv
    have henc := encodePacket_ok debug 0b10100010 u.encodeLen u.encode u.encode_length hlt
    exact spec_of_shape m debug _ (.dynamic _) _ u.encodeLen u.encode t
      (by simp only [Packet.encode, henc, Packet.encode.dyn]) rfl
      (spec_unsubscribe m u t hp hne hall hlt) hlt u.encode_length

end SpecEnc
end Mqtt.V3
