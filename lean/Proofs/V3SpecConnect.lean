/-
  C04 (v3): CONNECT — the model's field-by-field decoder against the specification's
  two-stage parse (variable header, then the payload described by the Connect Flags).
-/
import Proofs.V3SpecBody

set_option linter.unusedSimpArgs false

namespace Mqtt.V3
open Mqtt

/-! ## Connect Flags: the model's masks are the specification's bits -/

def cfAgree (cf : UInt8) : Bool :=
  ((cf &&& 1 != 0) == Spec.bit cf 0) && ((cf &&& 0b10 != 0) == Spec.bit cf 1) &&
  ((cf &&& 0b100 != 0) == Spec.bit cf 2) && ((cf &&& 0b00100000 != 0) == Spec.bit cf 5) &&
  ((cf &&& 0b01000000 != 0) == Spec.bit cf 6) && ((cf &&& 0b10000000 != 0) == Spec.bit cf 7) &&
  ((cf &&& 0b11000 != 0) == (Spec.bits cf 3 2 != 0)) &&
  (match qosFromU8 ((cf &&& 0b11000) >>> 3) with
   | .ok d => d == UInt8.ofNat (Spec.bits cf 3 2) && Spec.bits cf 3 2 != 3
   | .error _ => Spec.bits cf 3 2 == 3)

set_option maxRecDepth 100000 in
theorem cfAgree_all (cf : UInt8) : cfAgree cf = true := forall_uint8 cfAgree (by decide) cf


theorem cf_bit0 (cf : UInt8) : (cf &&& 1 != 0) = Spec.bit cf 0 := by
  have := cfAgree_all cf; simp only [cfAgree, Bool.and_eq_true, beq_iff_eq] at this; exact this.1.1.1.1.1.1.1
theorem cf_bit1 (cf : UInt8) : (cf &&& 0b10 != 0) = Spec.bit cf 1 := by
  have := cfAgree_all cf; simp only [cfAgree, Bool.and_eq_true, beq_iff_eq] at this; exact this.1.1.1.1.1.1.2
theorem cf_bit2 (cf : UInt8) : (cf &&& 0b100 != 0) = Spec.bit cf 2 := by
  have := cfAgree_all cf; simp only [cfAgree, Bool.and_eq_true, beq_iff_eq] at this; exact this.1.1.1.1.1.2
theorem cf_bit5 (cf : UInt8) : (cf &&& 0b00100000 != 0) = Spec.bit cf 5 := by
  have := cfAgree_all cf; simp only [cfAgree, Bool.and_eq_true, beq_iff_eq] at this; exact this.1.1.1.1.2
theorem cf_bit6 (cf : UInt8) : (cf &&& 0b01000000 != 0) = Spec.bit cf 6 := by
  have := cfAgree_all cf; simp only [cfAgree, Bool.and_eq_true, beq_iff_eq] at this; exact this.1.1.1.2
theorem cf_bit7 (cf : UInt8) : (cf &&& 0b10000000 != 0) = Spec.bit cf 7 := by
  have := cfAgree_all cf; simp only [cfAgree, Bool.and_eq_true, beq_iff_eq] at this; exact this.1.1.2
theorem cf_qosnz (cf : UInt8) : (cf &&& 0b11000 != 0) = (Spec.bits cf 3 2 != 0) := by
  have := cfAgree_all cf; simp only [cfAgree, Bool.and_eq_true, beq_iff_eq] at this; exact this.1.2
theorem cf_qos (cf : UInt8) (d : UInt8) :
    qosFromU8 ((cf &&& 0b11000) >>> 3) = .ok d ↔
      d = UInt8.ofNat (Spec.bits cf 3 2) ∧ Spec.bits cf 3 2 ≠ 3 := by
  have := (Bool.and_eq_true _ _).mp (cfAgree_all cf) |>.2
  cases hq : qosFromU8 ((cf &&& 0b11000) >>> 3) with
  | ok d' =>
    rw [hq] at this
    simp only [Bool.and_eq_true, beq_iff_eq, bne_iff_ne, ne_eq] at this
    constructor
    · intro h; cases h; exact this
    · rintro ⟨rfl, -⟩; rw [this.1]
  | error e =>
    rw [hq] at this
    simp only [beq_iff_eq] at this
    constructor
    · intro h; cases h
    · rintro ⟨-, h3⟩; exact absurd this h3

/-! ## the model's CONNECT decoder, cut where the specification cuts it -/

def willParser (flags : UInt8) : Parser Error (Option LastWill) :=
  if flags &&& 0b100 != 0 then do
    let topic ← readString
    let message ← readBytes
    let qos ← liftExcept (qosFromU8 ((flags &&& 0b11000) >>> 3))
    let retain := (flags &&& 0b00100000) != 0
    let tn ← liftExcept (topicNameTryFrom topic)
    pure (some { qos := qos, retain := retain, topicName := tn, message := message : LastWill })
  else if flags &&& 0b11000 != 0 then Parser.fail (.invalidConnectFlags flags)
  else pure none

def userParser (flags : UInt8) : Parser Error (Option Bytes) :=
  if flags &&& 0b10000000 != 0 then do let u ← readString; pure (some u)
  else pure none

def passParser (flags : UInt8) : Parser Error (Option Bytes) :=
  if flags &&& 0b01000000 != 0 then do let p ← readBytes (ε := Error); pure (some p)
  else pure none

/-- `Connect::decode_with_protocol` after the keep-alive. -/
def connectTail (protocol : Protocol) (flags : UInt8) (keepAlive : UInt16) : Parser Error Connect := do
  let clientId ← readString
  let lastWill ← willParser flags
  let username ← userParser flags
  let password ← passParser flags
  pure { protocol := protocol, cleanSession := (flags &&& 0b10) != 0, keepAlive := keepAlive,
         clientId := clientId, lastWill := lastWill, username := username, password := password }

theorem decodeWithProtocol_eq (protocol : Protocol) :
    Connect.decodeWithProtocol protocol =
      (if protocol.level > 4 then Parser.fail (.unexpectedProtocol protocol) else do
      let flags ← readU8
      if flags &&& 1 != 0 then Parser.fail (.invalidConnectFlags flags) else do
      let keepAlive ← readU16
      connectTail protocol flags keepAlive) := rfl

/-! ## inversion of the reader monad -/

theorem bind_ok_iff {α β : Type} (p : Parser Error α) (f : α → Parser Error β) (bs : Bytes)
    (b : β) (t : Bytes) :
    (p >>= f) bs = .ok b t ↔ ∃ a r, p bs = .ok a r ∧ f a r = .ok b t := by
  rw [Parser.bind_apply]
  cases p bs with
  | ok a r =>
    simp only [Res.bind_ok, Res.ok.injEq]
    constructor
    · intro h; exact ⟨a, r, ⟨rfl, rfl⟩, h⟩
    · rintro ⟨a', r', ⟨rfl, rfl⟩, h⟩; exact h
  | _ => simp

theorem pure_ok_iff {α : Type} (a b : α) (bs t : Bytes) :
    (pure a : Parser Error α) bs = .ok b t ↔ a = b ∧ bs = t := by
  simp

theorem readString_ok_iff (bs s r : Bytes) :
    readString bs = .ok s r ↔ Spec.lenPrefixed bs = some (s, r) ∧ Utf8.valid s = true := by
  rw [readString_eq]
  cases Spec.lenPrefixed bs with
  | none => simp
  | some x =>
    obtain ⟨d, r'⟩ := x
    by_cases hv : Utf8.valid d = true
    · simp only [hv, if_true, Res.ok.injEq, Option.some.injEq, Prod.mk.injEq]
      constructor
      · rintro ⟨rfl, rfl⟩; exact ⟨⟨rfl, rfl⟩, hv⟩
      · rintro ⟨⟨rfl, rfl⟩, -⟩; exact ⟨rfl, rfl⟩
    · simp only [hv, Bool.false_eq_true, if_false, Option.some.injEq, Prod.mk.injEq]
      constructor
      · intro h; cases h
      · rintro ⟨⟨rfl, rfl⟩, h⟩; exact absurd h hv

theorem readBytes_ok_iff (bs s r : Bytes) :
    readBytes (ε := Error) bs = .ok s r ↔ Spec.lenPrefixed bs = some (s, r) := by
  rw [readBytes_eq]
  cases Spec.lenPrefixed bs with
  | none => simp
  | some x => obtain ⟨d, r'⟩ := x; simp

/-- An optional length-prefixed field. -/
def optLP (c : Bool) (bs : Bytes) : Option (Option Bytes × Bytes) :=
  if c then (Spec.lenPrefixed bs).map (fun x => (some x.1, x.2)) else some (none, bs)

theorem optStr_ok_iff (c : Bool) (bs : Bytes) (o : Option Bytes) (r : Bytes) :
    (if c = true then do let u ← readString; pure (some u) else pure none :
      Parser Error (Option Bytes)) bs = .ok o r ↔
    optLP c bs = some (o, r) ∧ ∀ x ∈ o, Utf8.valid x = true := by
  cases c with
  | false =>
    simp only [Bool.false_eq_true, if_false, pure_ok_iff, optLP, Option.some.injEq, Prod.mk.injEq]
    constructor
    · rintro ⟨rfl, rfl⟩; exact ⟨⟨rfl, rfl⟩, by simp⟩
    · rintro ⟨⟨rfl, rfl⟩, -⟩; exact ⟨rfl, rfl⟩
  | true =>
    simp only [if_true, bind_ok_iff, pure_ok_iff, readString_ok_iff, optLP, Option.map_eq_some_iff,
      Prod.mk.injEq]
    constructor
    · rintro ⟨a, r', ⟨hl, hv⟩, rfl, rfl⟩
      exact ⟨⟨(a, r'), hl, rfl, rfl⟩, by simpa using hv⟩
    · rintro ⟨⟨⟨a, r'⟩, hl, rfl, rfl⟩, hv⟩
      exact ⟨a, r', ⟨hl, by simpa using hv⟩, rfl, rfl⟩

theorem optBin_ok_iff (c : Bool) (bs : Bytes) (o : Option Bytes) (r : Bytes) :
    (if c = true then do let u ← readBytes (ε := Error); pure (some u) else pure none :
      Parser Error (Option Bytes)) bs = .ok o r ↔
    optLP c bs = some (o, r) := by
  cases c with
  | false =>
    simp only [Bool.false_eq_true, if_false, pure_ok_iff, optLP, Option.some.injEq, Prod.mk.injEq]
  | true =>
    simp only [if_true, bind_ok_iff, pure_ok_iff, readBytes_ok_iff, optLP, Option.map_eq_some_iff,
      Prod.mk.injEq]
    constructor
    · rintro ⟨a, r', hl, rfl, rfl⟩
      exact ⟨(a, r'), hl, rfl, rfl⟩
    · rintro ⟨⟨a, r'⟩, hl, rfl, rfl⟩
      exact ⟨a, r', hl, rfl, rfl⟩


theorem liftExcept_ok_iff {α : Type} (x : Except Error α) (bs : Bytes) (a : α) (t : Bytes) :
    liftExcept x bs = .ok a t ↔ x = .ok a ∧ bs = t := by
  cases x with
  | ok b => simp
  | error e => simp

theorem topicNameTryFrom_ok_iff (s x : Bytes) :
    topicNameTryFrom s = .ok x ↔ Spec.isTopicName s = true ∧ s = x := by
  rw [topicNameTryFrom_eq]
  by_cases h : Spec.isTopicName s = true
  · simp [h]
  · simp [h]

/-- The will a CONNECT carries, from the optional will topic and will message. -/
def mkWill (cf : UInt8) (wt wm : Option Bytes) : Option LastWill :=
  wt.bind fun topic => wm.bind fun msg =>
    some { qos := UInt8.ofNat (Spec.bits cf 3 2), retain := Spec.bit cf 5, topicName := topic,
           message := msg }

theorem will_ok_iff (cf : UInt8) (bs : Bytes) (lw : Option LastWill) (r : Bytes) :
    willParser cf bs = .ok lw r ↔
      ∃ wt wm r', optLP (Spec.bit cf 2) bs = some (wt, r') ∧ optLP (Spec.bit cf 2) r' = some (wm, r) ∧
        (∀ x ∈ wt, Spec.isTopicName x = true) ∧ Spec.bits cf 3 2 ≠ 3 ∧
        (Spec.bit cf 2 = true ∨ Spec.bits cf 3 2 = 0) ∧ lw = mkWill cf wt wm := by
  unfold willParser
  rw [cf_bit2, cf_qosnz, cf_bit5]
  cases hw : Spec.bit cf 2 with
  | false =>
    simp only [Bool.false_eq_true, if_false, optLP, Option.some.injEq, Prod.mk.injEq, false_or]
    by_cases hq : Spec.bits cf 3 2 = 0
    · simp only [hq, bne_self_eq_false, Bool.false_eq_true, if_false, pure_ok_iff]
      constructor
      · rintro ⟨rfl, rfl⟩
        exact ⟨none, none, bs, ⟨rfl, rfl⟩, ⟨rfl, rfl⟩, by simp, by omega, trivial, rfl⟩
      · rintro ⟨wt, wm, r', ⟨rfl, rfl⟩, ⟨rfl, rfl⟩, -, -, -, rfl⟩
        exact ⟨rfl, rfl⟩
    · have : (Spec.bits cf 3 2 != 0) = true := by simpa using hq
      simp only [this, if_true, Parser.fail_apply]
      constructor
      · intro h; cases h
      · rintro ⟨wt, wm, r', -, -, -, -, h0, -⟩; exact absurd h0 hq
  | true =>
    simp only [if_true, bind_ok_iff, pure_ok_iff, readString_ok_iff, readBytes_ok_iff, liftExcept_ok_iff,
      cf_qos, topicNameTryFrom_ok_iff, optLP, Option.map_eq_some_iff, Prod.mk.injEq, true_or, true_and]
    constructor
    · rintro ⟨topic, r1, ⟨hl1, hv⟩, msg, r2, hl2, q, r3, ⟨⟨rfl, hq3⟩, rfl⟩, tn, r4, ⟨⟨htn, rfl⟩, rfl⟩, rfl, rfl⟩
      refine ⟨some topic, some msg, r1, ⟨(topic, r1), hl1, rfl, rfl⟩, ⟨(msg, r2), hl2, rfl, rfl⟩, ?_, hq3, rfl⟩
      intro x hx; cases hx; exact htn
    · rintro ⟨wt, wm, r', ⟨⟨topic, r1⟩, hl1, rfl, rfl⟩, ⟨⟨msg, r2⟩, hl2, rfl, rfl⟩, htn, hq3, rfl⟩
      have htn' := htn topic rfl
      exact ⟨topic, r1, ⟨hl1, isTopicName_valid htn'⟩, msg, r2, hl2, _, r2, ⟨⟨rfl, hq3⟩, rfl⟩, topic, r2,
        ⟨⟨htn', rfl⟩, rfl⟩, rfl, rfl⟩


/-- The CONNECT payload cut into its fields: client id, optional will topic and message,
optional user name, optional password, and what is left. -/
def ConnSplit (w u pw : Bool) (payload cid : Bytes) (wt wm us ps : Option Bytes) (t : Bytes) : Prop :=
  ∃ r1 r2 r3 r4, Spec.lenPrefixed payload = some (cid, r1) ∧ optLP w r1 = some (wt, r2) ∧
    optLP w r2 = some (wm, r3) ∧ optLP u r3 = some (us, r4) ∧ optLP pw r4 = some (ps, t)

theorem connectTail_ok_iff (proto : Protocol) (cf : UInt8) (ka : UInt16) (payload : Bytes)
    (c : Connect) (t : Bytes) :
    connectTail proto cf ka payload = .ok c t ↔
      ∃ cid wt wm us ps,
        ConnSplit (Spec.bit cf 2) (Spec.bit cf 7) (Spec.bit cf 6) payload cid wt wm us ps t ∧
        Utf8.valid cid = true ∧ (∀ x ∈ wt, Spec.isTopicName x = true) ∧
        (∀ x ∈ us, Utf8.valid x = true) ∧ Spec.bits cf 3 2 ≠ 3 ∧
        (Spec.bit cf 2 = true ∨ Spec.bits cf 3 2 = 0) ∧
        c = { protocol := proto, cleanSession := Spec.bit cf 1, keepAlive := ka, clientId := cid,
              lastWill := mkWill cf wt wm, username := us, password := ps } := by
  unfold connectTail userParser passParser ConnSplit
  rw [cf_bit7, cf_bit6, cf_bit1]
  simp only [bind_ok_iff, pure_ok_iff, readString_ok_iff, will_ok_iff, optStr_ok_iff, optBin_ok_iff]
  constructor
  · rintro ⟨cid, r1, ⟨hl, hv⟩, lw, r3, ⟨wt, wm, r2, h1, h2, htn, hq3, hq0, rfl⟩, us, r4, ⟨h3, hus⟩,
      ps, r5, h4, rfl, rfl⟩
    exact ⟨cid, wt, wm, us, ps, ⟨r1, r2, r3, r4, hl, h1, h2, h3, h4⟩, hv, htn, hus, hq3, hq0, rfl⟩
  · rintro ⟨cid, wt, wm, us, ps, ⟨r1, r2, r3, r4, hl, h1, h2, h3, h4⟩, hv, htn, hus, hq3, hq0, rfl⟩
    exact ⟨cid, r1, ⟨hl, hv⟩, _, r3, ⟨wt, wm, r2, h1, h2, htn, hq3, hq0, rfl⟩, us, r4, ⟨h3, hus⟩,
      ps, t, h4, rfl, rfl⟩


theorem pbind_ok_iff {α β : Type} (p : Parser Error α) (f : α → Parser Error β) (bs : Bytes)
    (b : β) (t : Bytes) :
    Parser.bind p f bs = .ok b t ↔ ∃ a r, p bs = .ok a r ∧ f a r = .ok b t :=
  bind_ok_iff p f bs b t

theorem readU8_ok_iff (bs : Bytes) (a : UInt8) (r : Bytes) :
    readU8 (ε := Error) bs = .ok a r ↔ bs = a :: r := by
  cases bs with
  | nil => simp [readU8]
  | cons x xs => simp [readU8]

theorem readU16_ok_iff (bs : Bytes) (v : UInt16) (r : Bytes) :
    readU16 (ε := Error) bs = .ok v r ↔ ∃ a c, bs = a :: c :: r ∧ v = be16 a c := by
  match bs with
  | [] => simp [readU16]
  | [x] => simp [readU16]
  | x :: y :: xs =>
    simp only [readU16, Res.ok.injEq, List.cons.injEq]
    constructor
    · rintro ⟨rfl, rfl⟩; exact ⟨x, y, ⟨rfl, rfl, rfl⟩, rfl⟩
    · rintro ⟨a, c, ⟨rfl, rfl, rfl⟩, rfl⟩; exact ⟨rfl, rfl⟩

theorem protocolDecode_ok_iff (bs : Bytes) (proto : Protocol) (t : Bytes) :
    Protocol.decode bs = .ok proto t ↔
      ∃ name level, Spec.lenPrefixed bs = some (name, level :: t) ∧
        Protocol.new name level = .ok proto := by
  rw [Protocol.decode_eq_bind]
  simp only [pbind_ok_iff, readBytes_ok_iff, readU8_ok_iff, liftExcept_ok_iff]
  constructor
  · rintro ⟨name, r, hl, level, r', rfl, hp, rfl⟩; exact ⟨name, level, hl, hp⟩
  · rintro ⟨name, level, hl, hp⟩; exact ⟨name, _, hl, level, t, rfl, hp, rfl⟩

theorem connectDecode_ok_iff (b : Bytes) (c : Connect) (t : Bytes) :
    Connect.decode b = .ok c t ↔
      ∃ name level cf k1 k2 payload proto,
        Spec.lenPrefixed b = some (name, level :: cf :: k1 :: k2 :: payload) ∧
        Protocol.new name level = .ok proto ∧ ¬ proto.level > 4 ∧ Spec.bit cf 0 = false ∧
        connectTail proto cf (be16 k1 k2) payload = .ok c t := by
  unfold Connect.decode
  simp only [bind_ok_iff, protocolDecode_ok_iff, decodeWithProtocol_eq]
  constructor
  · rintro ⟨proto, r, ⟨name, level, hl, hp⟩, h⟩
    by_cases hlv : proto.level > 4
    · simp [hlv] at h
    · simp only [hlv, if_false, bind_ok_iff, readU8_ok_iff] at h
      obtain ⟨cf, r1, rfl, h⟩ := h
      rw [cf_bit0] at h
      cases hb : Spec.bit cf 0 with
      | true => simp [hb] at h
      | false =>
        simp only [hb, Bool.false_eq_true, if_false, bind_ok_iff, readU16_ok_iff] at h
        obtain ⟨ka, r2, ⟨k1, k2, rfl, rfl⟩, h⟩ := h
        exact ⟨name, level, cf, k1, k2, r2, proto, hl, hp, hlv, hb, h⟩
  · rintro ⟨name, level, cf, k1, k2, payload, proto, hl, hp, hlv, hb, h⟩
    refine ⟨proto, _, ⟨name, level, hl, hp⟩, ?_⟩
    simp only [hlv, if_false, bind_ok_iff, readU8_ok_iff]
    refine ⟨cf, _, rfl, ?_⟩
    rw [cf_bit0]
    simp only [hb, Bool.false_eq_true, if_false, bind_ok_iff, readU16_ok_iff]
    exact ⟨_, payload, ⟨k1, k2, rfl, rfl⟩, h⟩


/-! ## the specification's CONNECT parse -/

def strField : Option Bytes → Spec.Field
  | some s => .val (.str s)
  | none => .absent

def binField : Option Bytes → Spec.Field
  | some s => .val (.bin s)
  | none => .absent

theorem parseItems_val (m : Bool) (w : Spec.WireType) (is : List Spec.Item) (bs : Bytes) :
    Spec.parseItems m (.val w :: is) bs =
      (Spec.parseWire m w bs).bind fun x =>
        (Spec.parseItems m is x.2).bind fun y => some (x.1.map .val ++ y.1, y.2) := by
  rw [Spec.parseItems]; rfl

theorem parseItems_absent (m : Bool) (is : List Spec.Item) (bs : Bytes) :
    Spec.parseItems m (.absent :: is) bs =
      (Spec.parseItems m is bs).bind fun y => some (.absent :: y.1, y.2) := by
  rw [Spec.parseItems]; rfl

theorem parseItems_nil (m : Bool) (bs : Bytes) : Spec.parseItems m [] bs = some ([], bs) := by
  rw [Spec.parseItems]

theorem parseItems_optStr (m c : Bool) (is : List Spec.Item) (bs : Bytes) (fs : List Spec.Field)
    (t : Bytes) :
    Spec.parseItems m ((if c = true then Spec.Item.val .str else .absent) :: is) bs = some (fs, t) ↔
      ∃ o r fs', optLP c bs = some (o, r) ∧ Spec.parseItems m is r = some (fs', t) ∧
        fs = strField o :: fs' := by
  cases c with
  | false =>
    simp only [Bool.false_eq_true, if_false, parseItems_absent, optLP, Option.some.injEq, Prod.mk.injEq,
      Option.bind_eq_some_iff]
    constructor
    · rintro ⟨⟨fs', t'⟩, h, rfl, rfl⟩; exact ⟨none, bs, fs', ⟨rfl, rfl⟩, h, rfl⟩
    · rintro ⟨o, r, fs', ⟨rfl, rfl⟩, h, rfl⟩; exact ⟨(fs', t), h, rfl, rfl⟩
  | true =>
    simp only [if_true, parseItems_val, parseWire_str, optLP, Option.some.injEq, Prod.mk.injEq,
      Option.bind_eq_some_iff, Option.map_eq_some_iff]
    constructor
    · rintro ⟨⟨vs, r⟩, ⟨⟨s, r'⟩, hl, h1⟩, ⟨fs', t'⟩, h, rfl, rfl⟩
      cases h1
      exact ⟨some s, r', fs', ⟨(s, r'), hl, rfl, rfl⟩, h, rfl⟩
    · rintro ⟨o, r, fs', ⟨⟨s, r'⟩, hl, rfl, rfl⟩, h, rfl⟩
      exact ⟨([.str s], r'), ⟨(s, r'), hl, rfl⟩, (fs', t), h, rfl, rfl⟩

theorem parseItems_optBin (m c : Bool) (is : List Spec.Item) (bs : Bytes) (fs : List Spec.Field)
    (t : Bytes) :
    Spec.parseItems m ((if c = true then Spec.Item.val .bin else .absent) :: is) bs = some (fs, t) ↔
      ∃ o r fs', optLP c bs = some (o, r) ∧ Spec.parseItems m is r = some (fs', t) ∧
        fs = binField o :: fs' := by
  cases c with
  | false =>
    simp only [Bool.false_eq_true, if_false, parseItems_absent, optLP, Option.some.injEq, Prod.mk.injEq,
      Option.bind_eq_some_iff]
    constructor
    · rintro ⟨⟨fs', t'⟩, h, rfl, rfl⟩; exact ⟨none, bs, fs', ⟨rfl, rfl⟩, h, rfl⟩
    · rintro ⟨o, r, fs', ⟨rfl, rfl⟩, h, rfl⟩; exact ⟨(fs', t), h, rfl, rfl⟩
  | true =>
    simp only [if_true, parseItems_val, parseWire_bin, optLP, Option.some.injEq, Prod.mk.injEq,
      Option.bind_eq_some_iff, Option.map_eq_some_iff]
    constructor
    · rintro ⟨⟨vs, r⟩, ⟨⟨s, r'⟩, hl, h1⟩, ⟨fs', t'⟩, h, rfl, rfl⟩
      cases h1
      exact ⟨some s, r', fs', ⟨(s, r'), hl, rfl, rfl⟩, h, rfl⟩
    · rintro ⟨o, r, fs', ⟨⟨s, r'⟩, hl, rfl, rfl⟩, h, rfl⟩
      exact ⟨([.bin s], r'), ⟨(s, r'), hl, rfl⟩, (fs', t), h, rfl, rfl⟩

theorem parseBody_connectPayload (m : Bool) (f : Spec.ConnectFlags) (payload : Bytes)
    (ps : List Spec.Field) :
    Spec.parseBody m (Spec.connectPayloadV3 f) payload = some ps ↔
      ∃ cid wt wm us pw, ConnSplit f.will f.username f.password payload cid wt wm us pw [] ∧
        ps = [.val (.str cid), strField wt, binField wm, strField us, binField pw] := by
  unfold Spec.parseBody Spec.connectPayloadV3 ConnSplit
  simp only [Option.bind_eq_some_iff]
  constructor
  · rintro ⟨⟨fs, left⟩, h, hleft⟩
    rw [parseItems_val] at h
    simp only [parseWire_str, Option.bind_eq_some_iff, Option.map_eq_some_iff] at h
    obtain ⟨⟨vs, r1⟩, ⟨⟨cid, r1'⟩, hl, h1⟩, ⟨fs1, t1⟩, h, h2⟩ := h
    cases h1; cases h2
    rw [parseItems_optStr] at h
    obtain ⟨wt, r2, fs2, h1, h, rfl⟩ := h
    rw [parseItems_optBin] at h
    obtain ⟨wm, r3, fs3, h2, h, rfl⟩ := h
    rw [parseItems_optStr] at h
    obtain ⟨us, r4, fs4, h3, h, rfl⟩ := h
    rw [parseItems_optBin] at h
    obtain ⟨pw, r5, fs5, h4, h, rfl⟩ := h
    simp only [parseItems_nil, Option.some.injEq, Prod.mk.injEq] at h
    obtain ⟨rfl, rfl⟩ := h
    by_cases hl' : r5.isEmpty = true
    · simp only [hl', if_true, Option.some.injEq] at hleft
      have : r5 = [] := by simpa using hl'
      subst this
      exact ⟨cid, wt, wm, us, pw, ⟨r1', r2, r3, r4, hl, h1, h2, h3, h4⟩, by rw [← hleft]; rfl⟩
    · simp [hl'] at hleft
  · rintro ⟨cid, wt, wm, us, pw, ⟨r1, r2, r3, r4, hl, h1, h2, h3, h4⟩, rfl⟩
    refine ⟨([.val (.str cid), strField wt, binField wm, strField us, binField pw], []), ?_, by simp⟩
    rw [parseItems_val]
    simp only [parseWire_str, Option.bind_eq_some_iff, Option.map_eq_some_iff]
    refine ⟨([.str cid], r1), ⟨(cid, r1), hl, rfl⟩, ([strField wt, binField wm, strField us, binField pw], []), ?_, rfl⟩
    rw [parseItems_optStr]
    refine ⟨wt, r2, _, h1, ?_, rfl⟩
    rw [parseItems_optBin]
    refine ⟨wm, r3, _, h2, ?_, rfl⟩
    rw [parseItems_optStr]
    refine ⟨us, r4, _, h3, ?_, rfl⟩
    rw [parseItems_optBin]
    exact ⟨pw, [], _, h4, parseItems_nil _ _, rfl⟩


theorem parseBody_connectHead (m : Bool) (flags : UInt8) (b : Bytes) :
    Spec.parseBody m (Spec.layoutV3 .connect flags) b =
      match Spec.lenPrefixed b with
      | some (name, level :: cf :: k1 :: k2 :: payload) =>
        some [.val (.str name), .val (.byte level), .val (.byte cf), .val (.u16 (be16 k1 k2)),
          .rest payload]
      | _ => none := by
  cases hl : Spec.lenPrefixed b with
  | none => simp [Spec.parseBody, Spec.parseItems, Spec.layoutV3, parseWire_str, hl]
  | some x =>
    obtain ⟨name, r⟩ := x
    match r with
    | [] => simp [Spec.parseBody, Spec.parseItems, Spec.layoutV3, parseWire_str, hl, parseWire_byte_nil]
    | [l] => simp [Spec.parseBody, Spec.parseItems, Spec.layoutV3, parseWire_str, hl, parseWire_byte, parseWire_byte_nil]
    | [l, cf] => simp [Spec.parseBody, Spec.parseItems, Spec.layoutV3, parseWire_str, hl, parseWire_byte, parseWire_u16_nil]
    | [l, cf, k1] => simp [Spec.parseBody, Spec.parseItems, Spec.layoutV3, parseWire_str, hl, parseWire_byte, parseWire_u16_one]
    | l :: cf :: k1 :: k2 :: payload =>
      simp [Spec.parseBody, Spec.parseItems, Spec.layoutV3, parseWire_str, hl, parseWire_byte, parseWire_u16]

theorem fieldsOf_connect_iff (m : Bool) (flags : UInt8) (b : Bytes) (fs : List Spec.Field) :
    fieldsOf m .connect flags b = some fs ↔
      ∃ name level cf k1 k2 payload f cid wt wm us pw,
        Spec.lenPrefixed b = some (name, level :: cf :: k1 :: k2 :: payload) ∧
        Spec.connectFlags? cf = some f ∧
        ConnSplit f.will f.username f.password payload cid wt wm us pw [] ∧
        fs = [.val (.str name), .val (.byte level), .val (.byte cf), .val (.u16 (be16 k1 k2)),
          .val (.str cid), strField wt, binField wm, strField us, binField pw] := by
  unfold fieldsOf Spec.fieldsV3
  simp only [parseBody_connectHead]
  cases hl : Spec.lenPrefixed b with
  | none => simp
  | some x =>
    obtain ⟨name, r⟩ := x
    match r with
    | [] => simp
    | [l] => simp
    | [l, cf] => simp
    | [l, cf, k1] => simp
    | l :: cf :: k1 :: k2 :: payload =>
      simp only [Option.bind_eq_bind, Option.bind_some, Option.bind_eq_some_iff, parseBody_connectPayload,
        Option.some.injEq, Prod.mk.injEq, List.cons.injEq]
      constructor
      · rintro ⟨f, hf, ps, ⟨cid, wt, wm, us, pw, hs, rfl⟩, rfl⟩
        exact ⟨name, l, cf, k1, k2, payload, f, cid, wt, wm, us, pw, ⟨rfl, rfl, rfl, rfl, rfl, rfl⟩, hf, hs, rfl⟩
      · rintro ⟨name', l', cf', k1', k2', payload', f, cid, wt, wm, us, pw, ⟨rfl, rfl, rfl, rfl, rfl, rfl⟩, hf, hs, rfl⟩
        exact ⟨f, hf, _, ⟨cid, wt, wm, us, pw, hs, rfl⟩, rfl⟩


theorem strField_textOk (o : Option Bytes) :
    (strField o).textOk = true ↔ ∀ x ∈ o, Utf8.valid x = true := by
  cases o with
  | none => simp [strField, Spec.Field.textOk]
  | some s => simp [strField, Spec.Field.textOk, Spec.Scalar.textOk, isText_eq_valid]

theorem binField_textOk (o : Option Bytes) : (binField o).textOk = true := by
  cases o <;> rfl

theorem strField_str (o : Option Bytes) : (strField o).str? = o := by cases o <;> rfl
theorem binField_bin (o : Option Bytes) : (binField o).bin? = o := by cases o <;> rfl

theorem connectFlags_iff (cf : UInt8) (f : Spec.ConnectFlags) :
    Spec.connectFlags? cf = some f ↔
      Spec.bit cf 0 = false ∧ Spec.bits cf 3 2 ≠ 3 ∧ (Spec.bit cf 2 = true ∨ Spec.bits cf 3 2 = 0) ∧
      f = ⟨Spec.bit cf 7, Spec.bit cf 6, Spec.bit cf 5, Spec.bits cf 3 2, Spec.bit cf 2, Spec.bit cf 1⟩ := by
  unfold Spec.connectFlags?
  simp only [Spec.Lenient.willRetainWithoutWill, Bool.true_or, Bool.and_true]
  split
  · rename_i h
    simp only [Bool.and_eq_true, Bool.not_eq_true', decide_eq_true_eq, Bool.or_eq_true] at h
    simp only [Option.some.injEq]
    constructor
    · intro hf; exact ⟨h.1.1, h.1.2, h.2, hf.symm⟩
    · intro hf; exact hf.2.2.2.symm
  · rename_i h
    simp only [Bool.and_eq_true, Bool.not_eq_true', decide_eq_true_eq, Bool.or_eq_true] at h
    constructor
    · intro hf; cases hf
    · intro hf; exact absurd ⟨⟨hf.1, hf.2.1⟩, hf.2.2.1⟩ h

theorem textOk_str (s : Bytes) : (Spec.Field.val (.str s)).textOk = Utf8.valid s := by
  simp [Spec.Field.textOk, Spec.Scalar.textOk, isText_eq_valid]
theorem textOk_byte (b : UInt8) : (Spec.Field.val (.byte b)).textOk = true := rfl
theorem textOk_u16 (v : UInt16) : (Spec.Field.val (.u16 v)).textOk = true := rfl

theorem validV3_connect (flags : UInt8) (name : Bytes) (level cf : UInt8) (ka : UInt16) (cid : Bytes)
    (wt wm us pw : Option Bytes) :
    Spec.validV3 .connect flags [.val (.str name), .val (.byte level), .val (.byte cf), .val (.u16 ka),
        .val (.str cid), strField wt, binField wm, strField us, binField pw] = true ↔
      Utf8.valid name = true ∧ Utf8.valid cid = true ∧ (∀ x ∈ wt, Utf8.valid x = true) ∧
      (∀ x ∈ us, Utf8.valid x = true) ∧
      ((name = MQISDP ∧ level = 3) ∨ (name = MQTTN ∧ level = 4)) ∧
      (∀ x ∈ wt, Spec.isTopicName x = true) := by
  simp [Spec.validV3, strField_textOk, binField_textOk, strField_str, textOk_str, textOk_byte, textOk_u16,
    Spec.Lenient.passwordWithoutUsername, Spec.Lenient.anyClientId, Spec.protocols, MQISDP, MQTTN]
  have hall : Option.all Spec.isTopicName wt = true ↔ ∀ x, wt = some x → Spec.isTopicName x = true := by
    cases wt <;> simp
  rw [hall]
  constructor
  · rintro ⟨⟨h1, h2, h3, h4⟩, h5, h6⟩
    refine ⟨h1, h2, h3, h4, ?_, h6⟩
    rcases h5 with ⟨a, b⟩ | ⟨a, b⟩
    · exact .inl ⟨a.symm, b.symm⟩
    · exact .inr ⟨a.symm, b.symm⟩
  · rintro ⟨h1, h2, h3, h4, h5, h6⟩
    refine ⟨⟨h1, h2, h3, h4⟩, ?_, h6⟩
    rcases h5 with ⟨a, b⟩ | ⟨a, b⟩
    · exact .inl ⟨a.symm, b.symm⟩
    · exact .inr ⟨a.symm, b.symm⟩

theorem projectV3_connect (flags : UInt8) (name : Bytes) (level cf : UInt8) (ka : UInt16) (cid : Bytes)
    (wt wm us pw : Option Bytes) :
    Spec.projectV3 .connect flags [.val (.str name), .val (.byte level), .val (.byte cf), .val (.u16 ka),
        .val (.str cid), strField wt, binField wm, strField us, binField pw] =
      (if name = MQISDP ∧ level = 3 then some Protocol.v310
       else if name = MQTTN ∧ level = 4 then some .v311
       else if name = MQTTN ∧ level = 5 then some .v500 else none).bind fun proto =>
        some (Packet.connect ⟨proto, Spec.bit cf 1, ka, cid, mkWill cf wt wm, us, pw⟩) := by
  have e : ∀ (a : Bytes) (l : UInt8), (a == name && l == level) = decide (name = a ∧ level = l) := by
    intro a l
    by_cases h : name = a ∧ level = l
    · obtain ⟨rfl, rfl⟩ := h; simp
    · simp only [h, decide_false, Bool.and_eq_false_iff, beq_eq_false_iff_ne, ne_eq]
      by_cases h1 : a = name
      · right; intro h2; exact h ⟨h1.symm, h2.symm⟩
      · left; exact h1
  simp only [Spec.projectV3, strField_str, binField_bin, Spec.protocols, MQISDP, MQTTN, mkWill,
    List.find?_cons, e]
  by_cases h1 : name = [77, 81, 73, 115, 100, 112] ∧ level = 3
  · simp [h1]
  · by_cases h2 : name = [77, 81, 84, 84] ∧ level = 4
    · simp [h1, h2]
    · by_cases h3 : name = [77, 81, 84, 84] ∧ level = 5
      · simp [h1, h2, h3]
      · simp [h1, h2, h3]


theorem protocolNew_iff (name : Bytes) (level : UInt8) (proto : Protocol) :
    (Protocol.new name level = .ok proto ∧ ¬ proto.level > 4) ↔
      ((name = MQISDP ∧ level = 3 ∧ proto = .v310) ∨ (name = MQTTN ∧ level = 4 ∧ proto = .v311)) := by
  unfold Protocol.new
  by_cases h1 : name = MQISDP ∧ level = 3
  · obtain ⟨rfl, rfl⟩ := h1
    rw [if_pos ⟨rfl, rfl⟩]
    simp only [Except.ok.injEq]
    constructor
    · rintro ⟨rfl, -⟩; exact .inl ⟨by trivial, by trivial, by trivial⟩
    · rintro (⟨-, -, rfl⟩ | ⟨-, h, -⟩)
      · exact ⟨rfl, by decide⟩
      · exact absurd h (by decide)
  · by_cases h2 : name = MQTTN ∧ level = 4
    · obtain ⟨rfl, rfl⟩ := h2
      rw [if_neg h1, if_pos ⟨rfl, rfl⟩]
      simp only [Except.ok.injEq]
      constructor
      · rintro ⟨rfl, -⟩; exact .inr ⟨by trivial, by trivial, by trivial⟩
      · rintro (⟨-, h, -⟩ | ⟨-, -, rfl⟩)
        · exact absurd h (by decide)
        · exact ⟨rfl, by decide⟩
    · simp only [h1, h2, if_false]
      constructor
      · rintro ⟨h, hl⟩
        exfalso
        by_cases h3 : name = MQTTN ∧ level = 5
        · simp only [h3, and_self, if_true, Except.ok.injEq] at h
          subst h; exact hl (by decide)
        · simp only [h3, if_false] at h
          split at h <;> cases h
      · rintro (⟨a, b, -⟩ | ⟨a, b, -⟩)
        · exact absurd ⟨a, b⟩ h1
        · exact absurd ⟨a, b⟩ h2

theorem specBody_eq_some_iff (m : Bool) (t : Spec.PType) (flags : UInt8) (b : Bytes) (p : Packet) :
    specBody m t flags b = some p ↔
      ∃ fs, fieldsOf m t flags b = some fs ∧ Spec.validV3 t flags fs = true ∧
        Spec.projectV3 t flags fs = some p := by
  unfold specBody
  simp only [Option.bind_eq_some_iff]
  constructor
  · rintro ⟨fs, hf, h⟩
    by_cases hv : Spec.validV3 t flags fs = true
    · rw [if_pos hv] at h; exact ⟨fs, hf, hv, h⟩
    · rw [if_neg hv] at h; cases h
  · rintro ⟨fs, hf, hv, h⟩
    exact ⟨fs, hf, by rw [if_pos hv]; exact h⟩

theorem connectBody (m : Bool) (flags : UInt8) (b : Bytes) (p : Packet) :
    (do let c ← Connect.decode; pure (.connect c) : Parser Error Packet) b = .ok p [] ↔
      specBody m .connect flags b = some p := by
  rw [specBody_eq_some_iff]
  simp only [bind_ok_iff, pure_ok_iff, connectDecode_ok_iff, connectTail_ok_iff, fieldsOf_connect_iff]
  constructor
  · rintro ⟨c, r, ⟨name, level, cf, k1, k2, payload, proto, hl, hnew, hlv, hb0,
      cid, wt, wm, us, ps, hsplit, hvcid, htn, hus, hq3, hq0, rfl⟩, rfl, rfl⟩
    have hproto := (protocolNew_iff name level proto).mp ⟨hnew, hlv⟩
    refine ⟨_, ⟨name, level, cf, k1, k2, payload, _, cid, wt, wm, us, ps, hl,
      (connectFlags_iff cf _).mpr ⟨hb0, hq3, hq0, rfl⟩, hsplit, rfl⟩, ?_, ?_⟩
    · rw [validV3_connect]
      refine ⟨?_, hvcid, fun x hx => isTopicName_valid (htn x hx), hus, ?_, htn⟩
      · rcases hproto with ⟨rfl, -, -⟩ | ⟨rfl, -, -⟩ <;> decide
      · rcases hproto with ⟨a, b, -⟩ | ⟨a, b, -⟩
        · exact .inl ⟨a, b⟩
        · exact .inr ⟨a, b⟩
    · rw [projectV3_connect]
      rcases hproto with ⟨rfl, rfl, rfl⟩ | ⟨rfl, rfl, rfl⟩
      · simp
      · have : ¬ (MQTTN = MQISDP ∧ (4 : UInt8) = 3) := by decide
        simp [this]
  · rintro ⟨fs, ⟨name, level, cf, k1, k2, payload, f, cid, wt, wm, us, ps, hl, hcf, hsplit, rfl⟩, hvalid, hproj⟩
    rw [validV3_connect] at hvalid
    obtain ⟨hvname, hvcid, hvwt, hus, hpr, htn⟩ := hvalid
    obtain ⟨hb0, hq3, hq0, rfl⟩ := (connectFlags_iff cf f).mp hcf
    rw [projectV3_connect] at hproj
    rcases hpr with ⟨rfl, rfl⟩ | ⟨rfl, rfl⟩
    · simp only [and_self, if_true, Option.bind_some, Option.some.injEq] at hproj
      have hp := (protocolNew_iff MQISDP 3 .v310).mpr (.inl ⟨rfl, rfl, rfl⟩)
      exact ⟨_, [], ⟨MQISDP, 3, cf, k1, k2, payload, .v310, hl, hp.1, hp.2, hb0,
        cid, wt, wm, us, ps, hsplit, hvcid, htn, hus, hq3, hq0, rfl⟩, hproj, rfl⟩
    · have : ¬ (MQTTN = MQISDP ∧ (4 : UInt8) = 3) := by decide
      simp only [this, if_false, and_self, if_true, Option.bind_some, Option.some.injEq] at hproj
      have hp := (protocolNew_iff MQTTN 4 .v311).mpr (.inr ⟨rfl, rfl, rfl⟩)
      exact ⟨_, [], ⟨MQTTN, 4, cf, k1, k2, payload, .v311, hl, hp.1, hp.2, hb0,
        cid, wt, wm, us, ps, hsplit, hvcid, htn, hus, hq3, hq0, rfl⟩, hproj, rfl⟩

end Mqtt.V3
