import Proofs.Parser
import Mqtt.V3.Decode
import Mqtt.V3.Poll

namespace Mqtt

/-- Closes `Extends _` goals for readers built from the primitives by `bind`, `pure`,
conditionals and matches on values already read. -/
syntax "extends_step" : tactic
macro_rules | `(tactic| extends_step) => `(tactic| assumption)
macro "extends_tac" : tactic => `(tactic| repeat' (first
  | extends_step
  | exact Extends.pure _ | exact Extends.pure' _ | exact Extends.fail _ | exact Extends.panic' _
  | exact Extends.take _ | exact Extends.readU8 | exact Extends.readU16 | exact Extends.readU32
  | exact Extends.readBytes | exact Extends.liftExcept _ | exact Extends.checkedSub _ _ _
  | apply Extends.bind' | apply Extends.bind | apply Extends.mapErr
  | intro _ | split))

/-- Same for `NoPanic _` goals (panic arms are left to the caller). -/
syntax "nopanic_step" : tactic
macro_rules | `(tactic| nopanic_step) => `(tactic| assumption)
macro "nopanic_tac" : tactic => `(tactic| repeat' (first
  | nopanic_step
  | exact NoPanic.pure _ | exact NoPanic.pure' _ | exact NoPanic.fail _
  | exact NoPanic.take _ | exact NoPanic.readU8 | exact NoPanic.readU16 | exact NoPanic.readU32
  | exact NoPanic.readBytes | exact NoPanic.liftExcept _ | exact NoPanic.checkedSub _ _ _
  | apply NoPanic.bind' | apply NoPanic.bind | apply NoPanic.mapErr
  | intro _ | split))

/-! ### shared readers as binds -/

theorem decodeVarIntAux_extends {ε : Type} (inv : ε) :
    ∀ (bs : Bytes) (i acc : Nat),
      (∀ a r t, decodeVarIntAux inv i acc bs = .ok a r →
          decodeVarIntAux inv i acc (bs ++ t) = .ok a (r ++ t)) ∧
      (∀ e t, decodeVarIntAux inv i acc bs = .err e → decodeVarIntAux inv i acc (bs ++ t) = .err e) ∧
      (∀ s, decodeVarIntAux inv i acc bs ≠ .panic s) ∧
      (∀ a r, decodeVarIntAux inv i acc bs = .ok a r → ∃ c, bs = c ++ r) := by
  intro bs
  induction bs with
  | nil =>
    intro i acc
    refine ⟨?_, ?_, ?_, ?_⟩ <;> intros <;> simp [decodeVarIntAux] at *
  | cons b rest ih =>
    intro i acc
    simp only [decodeVarIntAux, List.cons_append]
    by_cases hb : b.toNat < 128
    · simp only [hb, if_true]
      refine ⟨?_, ?_, ?_, ?_⟩
      · intro a r t h; cases h; rfl
      · intro e t h; cases h
      · intro s h; cases h
      · intro a r h; cases h; exact ⟨[b], rfl⟩
    · simp only [hb, if_false]
      by_cases hi : i < 3
      · simp only [hi, if_true]
        obtain ⟨h1, h2, h3, h4⟩ := ih (i + 1) (acc + b.toNat % 128 * 128 ^ i)
        refine ⟨h1, h2, h3, ?_⟩
        intro a r h
        obtain ⟨c, hc⟩ := h4 a r h
        exact ⟨b :: c, by rw [hc]; rfl⟩
      · simp only [hi, if_false]
        refine ⟨?_, ?_, ?_, ?_⟩
        · intro a r t h; cases h
        · intro e t h; exact h
        · intro s h; cases h
        · intro a r h; cases h

theorem Extends.decodeVarIntAux {ε : Type} (inv : ε) (i acc : Nat) :
    Extends (Mqtt.decodeVarIntAux inv i acc) where
  ok := fun bs a r t h => (decodeVarIntAux_extends inv bs i acc).1 a r t h
  err := fun bs e t h => (decodeVarIntAux_extends inv bs i acc).2.1 e t h
  panic := fun bs s _ h => absurd h ((decodeVarIntAux_extends inv bs i acc).2.2.1 s)
  suffix := fun bs a r h => (decodeVarIntAux_extends inv bs i acc).2.2.2 a r h

theorem NoPanic.decodeVarIntAux {ε : Type} (inv : ε) (i acc : Nat) :
    NoPanic (Mqtt.decodeVarIntAux inv i acc) :=
  ⟨fun bs s => (decodeVarIntAux_extends inv bs i acc).2.2.1 s⟩

theorem Extends.decodeVarInt : Extends decodeVarInt := Extends.decodeVarIntAux _ _ _
macro_rules | `(tactic| extends_step) => `(tactic| exact Extends.decodeVarInt)

theorem NoPanic.decodeVarInt : NoPanic decodeVarInt := NoPanic.decodeVarIntAux _ _ _

macro_rules | `(tactic| nopanic_step) => `(tactic| exact NoPanic.decodeVarInt)

theorem decodeRawHeader_eq_bind :
    decodeRawHeader =
      Parser.bind readU8 (fun t => Parser.bind decodeVarInt (fun x => Parser.pure (t, x.1))) := by
  funext bs
  cases bs with
  | nil => rfl
  | cons t rest =>
    simp only [decodeRawHeader, Parser.bind, readU8, Res.bind]
    cases decodeVarInt rest <;> rfl

theorem Extends.decodeRawHeader : Extends decodeRawHeader := by
  rw [decodeRawHeader_eq_bind]; extends_tac
macro_rules | `(tactic| extends_step) => `(tactic| exact Extends.decodeRawHeader)

theorem NoPanic.decodeRawHeader : NoPanic decodeRawHeader := by
  rw [decodeRawHeader_eq_bind]; nopanic_tac

macro_rules | `(tactic| nopanic_step) => `(tactic| exact NoPanic.decodeRawHeader)

theorem readString_eq_bind :
    readString = Parser.bind readBytes
      (fun data => if Utf8.valid data then Parser.pure data else Parser.fail .invalidString) := by
  funext bs
  simp only [readString, Parser.bind]
  cases readBytes (ε := Error) bs with
  | ok data rest => simp only [Res.bind]; split <;> rfl
  | _ => rfl

theorem Extends.readString : Extends readString := by
  rw [readString_eq_bind]; extends_tac
macro_rules | `(tactic| extends_step) => `(tactic| exact Extends.readString)

theorem NoPanic.readString : NoPanic readString := by
  rw [readString_eq_bind]; nopanic_tac

macro_rules | `(tactic| nopanic_step) => `(tactic| exact NoPanic.readString)

theorem readPid_eq_bind :
    readPid = Parser.bind readU16 (fun v => liftExcept (Pid.tryFrom v)) := by
  funext bs
  simp only [readPid, Parser.bind]
  cases readU16 (ε := Error) bs with
  | ok v rest => simp only [Res.bind]; cases Pid.tryFrom v <;> rfl
  | _ => rfl

theorem Extends.readPid : Extends readPid := by
  rw [readPid_eq_bind]; extends_tac
macro_rules | `(tactic| extends_step) => `(tactic| exact Extends.readPid)

theorem NoPanic.readPid : NoPanic readPid := by
  rw [readPid_eq_bind]; nopanic_tac

macro_rules | `(tactic| nopanic_step) => `(tactic| exact NoPanic.readPid)

theorem Protocol.decode_eq_bind :
    Protocol.decode = Parser.bind readBytes (fun name =>
      Parser.bind readU8 (fun level => liftExcept (Protocol.new name level))) := by
  funext bs
  simp only [Protocol.decode, Parser.bind]
  cases readBytes (ε := Error) bs with
  | ok name rest =>
    simp only [Res.bind]
    cases readU8 (ε := Error) rest with
    | ok level rest' => simp only []; cases Protocol.new name level <;> rfl
    | _ => rfl
  | _ => rfl

theorem Extends.protocolDecode : Extends Protocol.decode := by
  rw [Protocol.decode_eq_bind]; extends_tac
macro_rules | `(tactic| extends_step) => `(tactic| exact Extends.protocolDecode)

theorem NoPanic.protocolDecode : NoPanic Protocol.decode := by
  rw [Protocol.decode_eq_bind]; nopanic_tac

macro_rules | `(tactic| nopanic_step) => `(tactic| exact NoPanic.protocolDecode)

end Mqtt

namespace Mqtt.V3
open Mqtt

/-! ### `Extends` for the body decoders -/

theorem Extends.connectDecodeWithProtocol (p : Protocol) :
    Extends (Connect.decodeWithProtocol p) := by
  unfold Connect.decodeWithProtocol
  extends_tac

macro_rules | `(tactic| extends_step) => `(tactic| exact Extends.connectDecodeWithProtocol _)

theorem Extends.connectDecode : Extends Connect.decode := by
  unfold Connect.decode
  extends_tac

macro_rules | `(tactic| extends_step) => `(tactic| exact Extends.connectDecode)

theorem Extends.connackDecode : Extends Connack.decode := by
  unfold Connack.decode
  extends_tac

macro_rules | `(tactic| extends_step) => `(tactic| exact Extends.connackDecode)

theorem Extends.publishDecode (h : Header) : Extends (Publish.decode h) := by
  unfold Publish.decode
  extends_tac

macro_rules | `(tactic| extends_step) => `(tactic| exact Extends.publishDecode _)

/-- `TopicFilter::try_from` as a reader that consumes nothing. -/
def tfParser (debug : Bool) (s : Bytes) : Parser Error Topic.TopicFilter := fun bs =>
  match topicFilterTryFrom debug s with
  | .ok f _ => .ok f bs
  | .more => .more
  | .err e => .err e
  | .panic s => .panic s

theorem Extends.tfParser (debug : Bool) (s : Bytes) : Extends (tfParser debug s) := by
  unfold V3.tfParser
  cases topicFilterTryFrom debug s with
  | ok f r => exact Extends.pure f
  | more =>
    exact ⟨fun _ _ _ _ h => (by cases h), fun _ _ _ h => (by cases h),
      fun _ _ _ h => (by cases h), fun _ _ _ h => (by cases h)⟩
  | err e => exact Extends.fail e
  | panic s => exact Extends.panic' s

macro_rules | `(tactic| extends_step) => `(tactic| exact Extends.tfParser _ _)

theorem subscribeLoop_eq (debug : Bool) (rl : Nat) (acc : List (Topic.TopicFilter × UInt8)) :
    subscribeLoop debug rl acc =
      if rl > 0 then
        Parser.bind readString fun s =>
        Parser.bind (tfParser debug s) fun f =>
        Parser.bind readU8 fun qb =>
        Parser.bind (liftExcept (qosFromU8 qb)) fun q =>
          if 3 + f.text.length ≤ rl then
            subscribeLoop debug (rl - (3 + f.text.length)) (acc ++ [(f, q)])
          else Parser.fail .invalidRemainingLength
      else Parser.pure acc := by
  funext bs
  rw [subscribeLoop]
  split
  · simp only [Parser.bind, tfParser]
    cases readString bs with
    | ok s rest =>
      simp only [Res.bind]
      cases topicFilterTryFrom debug s with
      | ok f r =>
        simp only []
        cases readU8 (ε := Error) rest with
        | ok qb rest' =>
          simp only []
          cases qosFromU8 qb with
          | ok q => simp only [liftExcept]; split <;> rfl
          | error e => rfl
        | _ => rfl
      | _ => rfl
    | _ => rfl
  · rfl

theorem Extends.subscribeLoop (debug : Bool) :
    ∀ rl acc, Extends (subscribeLoop debug rl acc) := by
  intro rl
  induction rl using Nat.strongRecOn with
  | _ rl ih =>
    intro acc
    have := Extends.readString
    have := Extends.tfParser
    rw [subscribeLoop_eq]
    extends_tac
    apply ih
    omega

macro_rules | `(tactic| extends_step) => `(tactic| exact Extends.subscribeLoop _ _ _)

theorem unsubscribeLoop_eq (debug : Bool) (rl : Nat) (acc : List Topic.TopicFilter) :
    unsubscribeLoop debug rl acc =
      if rl > 0 then
        Parser.bind readString fun s =>
        Parser.bind (tfParser debug s) fun f =>
          if 2 + f.text.length ≤ rl then
            unsubscribeLoop debug (rl - (2 + f.text.length)) (acc ++ [f])
          else Parser.fail .invalidRemainingLength
      else Parser.pure acc := by
  funext bs
  rw [unsubscribeLoop]
  split
  · simp only [Parser.bind, tfParser]
    cases readString bs with
    | ok s rest =>
      simp only [Res.bind]
      cases topicFilterTryFrom debug s with
      | ok f r => simp only []; split <;> rfl
      | _ => rfl
    | _ => rfl
  · rfl

theorem Extends.unsubscribeLoop (debug : Bool) :
    ∀ rl acc, Extends (unsubscribeLoop debug rl acc) := by
  intro rl
  induction rl using Nat.strongRecOn with
  | _ rl ih =>
    intro acc
    have := Extends.readString
    have := Extends.tfParser
    rw [unsubscribeLoop_eq]
    extends_tac
    apply ih
    omega

macro_rules | `(tactic| extends_step) => `(tactic| exact Extends.unsubscribeLoop _ _ _)

theorem subackLoop_succ (rl : Nat) (acc : List UInt8) :
    subackLoop (rl + 1) acc =
      Parser.bind readU8 fun v =>
        match codeOfByte .subscribeReturnV3 v with
        | some d => subackLoop rl (acc ++ [d])
        | none => Parser.fail (.invalidQos v) := by
  funext bs
  simp only [subackLoop, Parser.bind]
  cases readU8 (ε := Error) bs with
  | ok v rest => simp only [Res.bind]; cases codeOfByte .subscribeReturnV3 v <;> rfl
  | _ => rfl

theorem subackLoop_zero (acc : List UInt8) : subackLoop 0 acc = Parser.pure acc := by
  funext bs; rfl

theorem Extends.subackLoop : ∀ rl acc, Extends (subackLoop rl acc) := by
  intro rl
  induction rl with
  | zero => intro acc; rw [subackLoop_zero]; exact Extends.pure _
  | succ rl ih =>
    intro acc
    rw [subackLoop_succ]
    extends_tac
    apply ih

macro_rules | `(tactic| extends_step) => `(tactic| exact Extends.subackLoop _ _)

theorem Extends.subscribeDecode (debug : Bool) (rl : Nat) : Extends (Subscribe.decode debug rl) := by
  unfold Subscribe.decode
  extends_tac

macro_rules | `(tactic| extends_step) => `(tactic| exact Extends.subscribeDecode _ _)

theorem Extends.subackDecode (rl : Nat) : Extends (Suback.decode rl) := by
  unfold Suback.decode
  extends_tac

macro_rules | `(tactic| extends_step) => `(tactic| exact Extends.subackDecode _)

theorem Extends.unsubscribeDecode (debug : Bool) (rl : Nat) :
    Extends (Unsubscribe.decode debug rl) := by
  unfold Unsubscribe.decode
  extends_tac

macro_rules | `(tactic| extends_step) => `(tactic| exact Extends.unsubscribeDecode _ _)

theorem Extends.headerDecode : Extends Header.decode := by
  unfold Header.decode
  extends_tac

macro_rules | `(tactic| extends_step) => `(tactic| exact Extends.headerDecode)

theorem Extends.decodeBody (debug : Bool) (h : Header) : Extends (decodeBody debug h) := by
  unfold V3.decodeBody
  extends_tac

macro_rules | `(tactic| extends_step) => `(tactic| exact Extends.decodeBody _ _)

theorem Extends.blockDecode (debug : Bool) (h : Header) : Extends (blockDecode debug h) := by
  unfold V3.blockDecode
  extends_tac

macro_rules | `(tactic| extends_step) => `(tactic| exact Extends.blockDecode _ _)

theorem Extends.decodeAsync (debug : Bool) : Extends (decodeAsync debug) := by
  unfold V3.decodeAsync
  extends_tac

macro_rules | `(tactic| extends_step) => `(tactic| exact Extends.decodeAsync _)

end Mqtt.V3

namespace Mqtt.V3
open Mqtt

/-! ### facts about the generated header table -/

/-- What every `Ok` row of the v3 header table satisfies. -/
def rowOk : Except Error Gen.HeaderRow → Bool
  | .ok r => decide (r.qos.toNat ≤ 2) && decide (1 ≤ r.typ.toNat) && decide (r.typ.toNat ≤ 14)
  | .error _ => true

set_option maxRecDepth 100000 in
theorem headerV3_rows_ok : Gen.headerV3.all rowOk = true := by decide

/-- Headers produced by `Header::new_with` have qos 0..2 and packet type 1..14. -/
theorem Header.newWith_facts {cb : UInt8} {rl : Nat} {h : Header}
    (hh : Header.newWith cb rl = .ok h) :
    h.qos.toNat ≤ 2 ∧ 1 ≤ h.typ.toNat ∧ h.typ.toNat ≤ 14 := by
  unfold Header.newWith at hh
  rw [List.getD_eq_getElem?_getD] at hh
  cases hrow : Gen.headerV3[cb.toNat]? with
  | none => rw [hrow] at hh; cases hh
  | some row =>
    rw [hrow] at hh
    have hmem : row ∈ Gen.headerV3 := List.mem_of_getElem? hrow
    have hok := List.all_eq_true.mp headerV3_rows_ok row hmem
    cases row with
    | error e => cases hh
    | ok r =>
      simp only [Option.getD] at hh
      cases hh
      simp [rowOk] at hok
      exact ⟨hok.1.1, hok.1.2, hok.2⟩

/-! ### no-panic lemmas for the body decoders -/

theorem NoPanic.connectDecodeWithProtocol (p : Protocol) :
    NoPanic (Connect.decodeWithProtocol p) := by
  unfold Connect.decodeWithProtocol
  nopanic_tac

macro_rules | `(tactic| nopanic_step) => `(tactic| exact NoPanic.connectDecodeWithProtocol _)

theorem NoPanic.connectDecode : NoPanic Connect.decode := by
  unfold Connect.decode
  nopanic_tac

macro_rules | `(tactic| nopanic_step) => `(tactic| exact NoPanic.connectDecode)

/-- The `expect` on the two-byte payload is unreachable: `take 2` returns two bytes. -/
theorem NoPanic.connackDecode : NoPanic Connack.decode := by
  unfold Connack.decode
  apply NoPanic.bind_of (NoPanic.take 2)
  intro payload bs r hp
  have hlen := take_ok_length hp
  match payload, hlen with
  | [f, c], _ => nopanic_tac

macro_rules | `(tactic| nopanic_step) => `(tactic| exact NoPanic.connackDecode)

/-- `Publish::decode_async` is safe on headers whose qos is 0, 1 or 2. -/
theorem NoPanic.publishDecode (h : Header) (hq : h.qos.toNat ≤ 2) : NoPanic (Publish.decode h) := by
  unfold Publish.decode
  nopanic_tac
  next h0 h1 h2 =>
    exfalso
    have e0 : h.qos.toNat ≠ 0 := fun e => h0 (UInt8.toNat_inj.mp e)
    have e1 : h.qos.toNat ≠ 1 := fun e => h1 (UInt8.toNat_inj.mp e)
    have e2 : h.qos.toNat ≠ 2 := fun e => h2 (UInt8.toNat_inj.mp e)
    omega

theorem NoPanic.tfParser (debug : Bool)
    (hdbg : ∀ cs site, Topic.filterIsInvalid debug cs ≠ .panic site) (s : Bytes) :
    NoPanic (tfParser debug s) := by
  constructor
  intro bs site h
  simp only [V3.tfParser, topicFilterTryFrom] at h
  cases hd : Utf8.decode s with
  | none => rw [hd] at h; cases h
  | some cs =>
    rw [hd] at h
    simp only [] at h
    cases hf : Topic.filterIsInvalid debug cs with
    | invalid => rw [hf] at h; cases h
    | valid sep => rw [hf] at h; cases h
    | panic s' => exact hdbg cs s' hf

theorem NoPanic.subscribeLoop (debug : Bool)
    (hdbg : ∀ cs site, Topic.filterIsInvalid debug cs ≠ .panic site) :
    ∀ rl acc, NoPanic (subscribeLoop debug rl acc) := by
  intro rl
  induction rl using Nat.strongRecOn with
  | _ rl ih =>
    intro acc
    have := NoPanic.tfParser debug hdbg
    rw [subscribeLoop_eq]
    nopanic_tac
    · apply this
    · apply ih; omega

theorem NoPanic.unsubscribeLoop (debug : Bool)
    (hdbg : ∀ cs site, Topic.filterIsInvalid debug cs ≠ .panic site) :
    ∀ rl acc, NoPanic (unsubscribeLoop debug rl acc) := by
  intro rl
  induction rl using Nat.strongRecOn with
  | _ rl ih =>
    intro acc
    have := NoPanic.tfParser debug hdbg
    rw [unsubscribeLoop_eq]
    nopanic_tac
    · apply this
    · apply ih; omega

theorem NoPanic.subackLoop : ∀ rl acc, NoPanic (subackLoop rl acc) := by
  intro rl
  induction rl with
  | zero => intro acc; rw [subackLoop_zero]; exact NoPanic.pure _
  | succ rl ih =>
    intro acc
    rw [subackLoop_succ]
    nopanic_tac
    apply ih

macro_rules | `(tactic| nopanic_step) => `(tactic| exact NoPanic.subackLoop _ _)

theorem NoPanic.subscribeDecode (debug : Bool)
    (hdbg : ∀ cs site, Topic.filterIsInvalid debug cs ≠ .panic site) (rl : Nat) :
    NoPanic (Subscribe.decode debug rl) := by
  have := NoPanic.subscribeLoop debug hdbg
  unfold Subscribe.decode
  nopanic_tac
  apply this

theorem NoPanic.subackDecode (rl : Nat) : NoPanic (Suback.decode rl) := by
  unfold Suback.decode
  nopanic_tac

macro_rules | `(tactic| nopanic_step) => `(tactic| exact NoPanic.subackDecode _)

theorem NoPanic.unsubscribeDecode (debug : Bool)
    (hdbg : ∀ cs site, Topic.filterIsInvalid debug cs ≠ .panic site) (rl : Nat) :
    NoPanic (Unsubscribe.decode debug rl) := by
  have := NoPanic.unsubscribeLoop debug hdbg
  unfold Unsubscribe.decode
  nopanic_tac
  apply this

theorem NoPanic.headerDecode : NoPanic Header.decode := by
  unfold Header.decode
  nopanic_tac

macro_rules | `(tactic| nopanic_step) => `(tactic| exact NoPanic.headerDecode)

/-- `Header::decode_async` only returns headers built by `Header::new_with`. -/
theorem Header.decode_ok_newWith {bs r : Bytes} {h : Header} (hd : Header.decode bs = .ok h r) :
    ∃ cb rl, Header.newWith cb rl = .ok h := by
  simp only [Header.decode, bind, Parser.bind] at hd
  cases hraw : decodeRawHeader bs with
  | ok x rest =>
    obtain ⟨typ, rl⟩ := x
    rw [hraw] at hd
    simp only [Res.bind] at hd
    cases hn : Header.newWith typ rl with
    | ok h' => rw [hn] at hd; simp only [liftExcept] at hd; cases hd; exact ⟨typ, rl, hn⟩
    | error e => rw [hn] at hd; cases hd
  | more => rw [hraw] at hd; cases hd
  | err e => rw [hraw] at hd; cases hd
  | panic s => rw [hraw] at hd; cases hd

/-- The lenient body dispatch is safe on headers with qos 0..2 and type 1..14. -/
theorem NoPanic.decodeBody (debug : Bool)
    (hdbg : ∀ cs site, Topic.filterIsInvalid debug cs ≠ .panic site) (h : Header)
    (hq : h.qos.toNat ≤ 2) (h1 : 1 ≤ h.typ.toNat) (h14 : h.typ.toNat ≤ 14) :
    NoPanic (decodeBody debug h) := by
  have := NoPanic.publishDecode h hq
  have := NoPanic.subscribeDecode debug hdbg h.remainingLen
  have := NoPanic.unsubscribeDecode debug hdbg h.remainingLen
  unfold V3.decodeBody
  nopanic_tac
  exfalso
  simp only [imp_false] at *; omega

/-- The strict body dispatch is safe on such headers when the packet is not an empty one. -/
theorem NoPanic.blockDecode (debug : Bool)
    (hdbg : ∀ cs site, Topic.filterIsInvalid debug cs ≠ .panic site) (h : Header)
    (hq : h.qos.toNat ≤ 2) (h1 : 1 ≤ h.typ.toNat) (h14 : h.typ.toNat ≤ 14)
    (he : buildEmptyPacket h = none) :
    NoPanic (blockDecode debug h) := by
  have := NoPanic.publishDecode h hq
  have := NoPanic.subscribeDecode debug hdbg h.remainingLen
  have := NoPanic.unsubscribeDecode debug hdbg h.remainingLen
  have h12 : h.typ.toNat ≠ 12 := by
    intro e; simp only [buildEmptyPacket, e] at he; cases he
  have h13 : h.typ.toNat ≠ 13 := by
    intro e; simp only [buildEmptyPacket, e] at he; cases he
  have h14' : h.typ.toNat ≠ 14 := by
    intro e; simp only [buildEmptyPacket, e] at he; cases he
  unfold V3.blockDecode
  nopanic_tac
  all_goals (exfalso; first | omega | (simp only [imp_false] at *; omega))

theorem NoPanic.decodeAsync (debug : Bool)
    (hdbg : ∀ cs site, Topic.filterIsInvalid debug cs ≠ .panic site) :
    NoPanic (decodeAsync debug) := by
  unfold V3.decodeAsync
  apply NoPanic.bind_of NoPanic.headerDecode
  intro h bs r hd
  obtain ⟨cb, rl, hn⟩ := Header.decode_ok_newWith hd
  obtain ⟨hq, h1, h14⟩ := Header.newWith_facts hn
  exact NoPanic.decodeBody debug hdbg h hq h1 h14

/-- `runAsync` passes panics through unchanged, so a safe reader gives a safe front-end. -/
theorem runAsync_ne_panic {α : Type} {p : Parser Error α} (hp : NoPanic p) (bs : Bytes)
    (term : Term) (site : String) : runAsync p bs term ≠ .panic site := by
  intro h
  simp only [runAsync] at h
  cases hpb : p bs with
  | ok a r => rw [hpb] at h; cases h
  | more => rw [hpb] at h; cases h
  | err e => rw [hpb] at h; cases h
  | panic s => exact hp.np bs s hpb

theorem decodeBlocking_ne_panic (debug : Bool)
    (hdbg : ∀ cs site, Topic.filterIsInvalid debug cs ≠ .panic site) (bs : Bytes) (site : String) :
    decodeBlocking debug bs ≠ .panic site := by
  intro h
  simp only [decodeBlocking] at h
  cases hr : runAsync (decodeAsync debug) bs .eof with
  | ok p n => rw [hr] at h; cases h
  | err e => rw [hr] at h; simp only [] at h; split at h <;> cases h
  | panic s => exact runAsync_ne_panic (NoPanic.decodeAsync debug hdbg) bs .eof s hr

/-! ### the two dispatch tables agree -/

theorem blockDecode_eq_decodeBody (debug : Bool) (h : Header)
    (he : buildEmptyPacket h = none) (ht : 1 ≤ h.typ.toNat ∧ h.typ.toNat ≤ 14) :
    blockDecode debug h = decodeBody debug h := by
  have h12 : h.typ.toNat ≠ 12 := by
    intro e; simp only [buildEmptyPacket, e] at he; cases he
  have h13 : h.typ.toNat ≠ 13 := by
    intro e; simp only [buildEmptyPacket, e] at he; cases he
  have h14 : h.typ.toNat ≠ 14 := by
    intro e; simp only [buildEmptyPacket, e] at he; cases he
  obtain ⟨hlo, hhi⟩ := ht
  have hcases : h.typ.toNat = 1 ∨ h.typ.toNat = 2 ∨ h.typ.toNat = 3 ∨ h.typ.toNat = 4 ∨
      h.typ.toNat = 5 ∨ h.typ.toNat = 6 ∨ h.typ.toNat = 7 ∨ h.typ.toNat = 8 ∨
      h.typ.toNat = 9 ∨ h.typ.toNat = 10 ∨ h.typ.toNat = 11 := by omega
  unfold V3.blockDecode V3.decodeBody
  rcases hcases with e | e | e | e | e | e | e | e | e | e | e <;> simp only [e]

end Mqtt.V3
