/-
  Composition lemmas for C06/C07/C08/C14 (v5).  The version-independent part is in
  Proofs/Compose.lean; here it is instantiated for the v5 family (the v5 copy of
  Proofs/V3Compose.lean):

  * `NoIo` / `NoIoErr`: no v5 reader ever *produces* `.common (.ioError _)` (those come
    from the transport only) — needed for "is_eof error ⇔ the input ran out" in C06.
    The readers shared with v3 are taken from Proofs/V3Compose.lean through `liftC`.
  * `lenient`: `decodeAsync = Header.decode >>= decodeBody` is a `Poll.Lenient`
    decoder for `pollFamily`.
  * the front-end facts used by C07/C08/C14 (strict prefixes, non-empty encodings).
-/
import Proofs.Compose
import Proofs.V3Compose
import Proofs.V5RoundTrip
import Proofs.V5Safety
import Proofs.NoDebugPanic
import Properties.C01V5
import Properties.C03V5
import Properties.C05

namespace Mqtt

/-- `errsat_tac` with the lemma rules matched up to reducible unfolding only (cf.
`ext5_tac`/`np5_tac` in Proofs/V5Safety.lean), and with its own rule sets. -/
syntax "errsat5_side" : tactic
macro_rules | `(tactic| errsat5_side) => `(tactic| assumption)

syntax "errsat5_step" : tactic
macro_rules | `(tactic| errsat5_step) => `(tactic| assumption)
macro "errsat5_tac" : tactic => `(tactic| repeat' (first
  | with_reducible errsat5_step
  | with_reducible exact ErrSat.pure _ | with_reducible exact ErrSat.pure' _
  | with_reducible exact ErrSat.panic' _
  | with_reducible apply ErrSat.fail
  | with_reducible exact ErrSat.take _ | with_reducible exact ErrSat.readU8
  | with_reducible exact ErrSat.readU16 | with_reducible exact ErrSat.readU32
  | with_reducible exact ErrSat.readBytes
  | with_reducible apply ErrSat.checkedSub
  | with_reducible apply ErrSat.bind' | with_reducible apply ErrSat.bind
  | errsat5_side
  | intro _ | split))

end Mqtt

namespace Mqtt.V5
open Mqtt

/-! ## no reader produces an `IoError` -/

/-- Not an `IoError`. -/
def NoIo (e : ErrorV5) : Prop := ∀ k, e ≠ .common (.ioError k)

/-- The reader never returns an `IoError` of its own. -/
abbrev NoIoErr {α : Type} (P : Parser ErrorV5 α) : Prop := ErrSat NoIo P

macro_rules | `(tactic| errsat5_side) => `(tactic| (unfold NoIo; intro k h; cases h))

theorem noIo_common {e : Error} (h : V3.NoIo e) : NoIo (.common e) := by
  intro k hk
  cases hk
  exact h k rfl

/-- A common reader that makes no `IoError`, lifted. -/
theorem NoIoErr.liftC {α : Type} {p : Parser Error α} (hp : V3.NoIoErr p) : NoIoErr (liftC p) := by
  apply ErrSat.mapErr
  exact ⟨fun bs e h => noIo_common (hp.sat bs e h)⟩

theorem noIo_mapError_common {α : Type} {x : Except Error α}
    (hx : ∀ e, x = .error e → V3.NoIo e) :
    ∀ e, x.mapError ErrorV5.common = .error e → NoIo e := by
  intro e h
  cases x with
  | ok a => cases h
  | error e' => cases h; exact noIo_common (hx e' rfl)

theorem noIo_decodeSubOpts (b : UInt8) (e : ErrorV5) (h : decodeSubOpts b = .error e) : NoIo e := by
  unfold decodeSubOpts at h
  repeat' split at h
  all_goals first | (cases h; errsat5_side) | cases h

/-- No row of the generated header table is an `IoError`. -/
def rowNoIo : Except Error Gen.HeaderRow → Bool
  | .error (.ioError _) => false
  | _ => true

set_option maxRecDepth 100000 in
theorem headerV5_rows_noIo : Gen.headerV5.all rowNoIo = true := by decide

theorem noIo_headerNewWith (cb : UInt8) (rl : Nat) (e : ErrorV5)
    (h : Header.newWith cb rl = .error e) : NoIo e := by
  unfold Header.newWith at h
  rw [List.getD_eq_getElem?_getD] at h
  cases hrow : Gen.headerV5[cb.toNat]? with
  | none =>
    rw [hrow] at h
    simp only [Option.getD] at h
    cases h; errsat5_side
  | some row =>
    rw [hrow] at h
    have hmem : row ∈ Gen.headerV5 := List.mem_of_getElem? hrow
    have hok := List.all_eq_true.mp headerV5_rows_noIo row hmem
    cases row with
    | ok r => cases h
    | error e' =>
      simp only [Option.getD] at h
      cases h
      intro k hk
      cases hk
      simp [rowNoIo] at hok

macro_rules | `(tactic| errsat5_step) => `(tactic| apply NoIoErr.liftC)
macro_rules | `(tactic| errsat5_step) => `(tactic| exact V3.NoIoErr.decodeVarInt)
macro_rules | `(tactic| errsat5_step) => `(tactic| exact V3.NoIoErr.decodeRawHeader)
macro_rules | `(tactic| errsat5_step) => `(tactic| exact V3.NoIoErr.readString)
macro_rules | `(tactic| errsat5_step) => `(tactic| exact V3.NoIoErr.readPid)
macro_rules | `(tactic| errsat5_step) => `(tactic| exact V3.NoIoErr.protocolDecode)
macro_rules
  | `(tactic| errsat5_step) =>
    `(tactic| exact ErrSat.liftExcept (noIo_mapError_common (V3.noIo_qosFromU8 _)))
macro_rules
  | `(tactic| errsat5_step) =>
    `(tactic| exact ErrSat.liftExcept (noIo_mapError_common (V3.noIo_topicNameTryFrom _)))
macro_rules | `(tactic| errsat5_step) => `(tactic| exact ErrSat.liftExcept (noIo_decodeSubOpts _))
macro_rules | `(tactic| errsat5_step) => `(tactic| exact ErrSat.liftExcept (noIo_headerNewWith _ _))

/-! ### the property layer -/

theorem NoIoErr.decodePropValue (id : UInt8) (k : PropKind) (ps : Props) :
    NoIoErr (decodePropValue id k ps) := by
  unfold V5.decodePropValue
  errsat5_tac
  next heq => exact V3.noIo_topicNameTryFrom _ _ heq _ rfl
macro_rules | `(tactic| errsat5_step) => `(tactic| exact NoIoErr.decodePropValue _ _ _)

theorem NoIoErr.decodePropsLoop (ctx : PropCtx) (allowed : List UInt8) (pl : Nat) :
    ∀ fuel len ps, NoIoErr (decodePropsLoop ctx allowed pl fuel len ps) := by
  intro fuel
  induction fuel with
  | zero => intro len ps; rw [decodePropsLoop_zero]; exact ErrSat.panic' _
  | succ fuel ih =>
    intro len ps
    rw [V5.decodePropsLoop]
    errsat5_tac
    all_goals first
      | apply ih
      | (rename_i h; cases ctx <;> cases h)
macro_rules | `(tactic| errsat5_step) => `(tactic| exact NoIoErr.decodePropsLoop _ _ _ _ _ _)

theorem NoIoErr.decodeProps (ctx : PropCtx) (allowed : List UInt8) :
    NoIoErr (decodeProps ctx allowed) := by
  unfold V5.decodeProps
  errsat5_tac
macro_rules | `(tactic| errsat5_step) => `(tactic| exact NoIoErr.decodeProps _ _)

/-! ### the body decoders -/

theorem NoIoErr.propsEncodeLenP (allowed : List UInt8) (ps : Props) :
    NoIoErr (propsEncodeLenP allowed ps) := by
  unfold V5.propsEncodeLenP
  errsat5_tac
macro_rules | `(tactic| errsat5_step) => `(tactic| exact NoIoErr.propsEncodeLenP _ _)

theorem NoIoErr.parseReason (k : Gen.CodeKind) (typ b : UInt8) :
    NoIoErr (parseReason k typ b) := by
  unfold V5.parseReason
  errsat5_tac
macro_rules | `(tactic| errsat5_step) => `(tactic| exact NoIoErr.parseReason _ _ _)

theorem NoIoErr.lastWillDecode (qos : UInt8) (retain : Bool) :
    NoIoErr (LastWill.decode qos retain) := by
  unfold LastWill.decode
  errsat5_tac
macro_rules | `(tactic| errsat5_step) => `(tactic| exact NoIoErr.lastWillDecode _ _)

theorem NoIoErr.connectDecodeWithProtocol (h : Header) (p : Protocol) :
    NoIoErr (Connect.decodeWithProtocol h p) := by
  unfold Connect.decodeWithProtocol
  errsat5_tac
macro_rules | `(tactic| errsat5_step) => `(tactic| exact NoIoErr.connectDecodeWithProtocol _ _)

theorem NoIoErr.connectDecode (h : Header) : NoIoErr (Connect.decode h) := by
  unfold Connect.decode
  errsat5_tac
macro_rules | `(tactic| errsat5_step) => `(tactic| exact NoIoErr.connectDecode _)

theorem NoIoErr.connackDecode (h : Header) : NoIoErr (Connack.decode h) := by
  unfold Connack.decode
  errsat5_tac
macro_rules | `(tactic| errsat5_step) => `(tactic| exact NoIoErr.connackDecode _)

theorem NoIoErr.disconnectDecode (h : Header) : NoIoErr (Disconnect.decode h) := by
  unfold Disconnect.decode
  errsat5_tac
macro_rules | `(tactic| errsat5_step) => `(tactic| exact NoIoErr.disconnectDecode _)

theorem NoIoErr.authDecode (h : Header) : NoIoErr (Auth.decode h) := by
  unfold Auth.decode
  errsat5_tac
macro_rules | `(tactic| errsat5_step) => `(tactic| exact NoIoErr.authDecode _)

theorem NoIoErr.publishDecode (h : Header) : NoIoErr (Publish.decode h) := by
  unfold Publish.decode
  errsat5_tac
macro_rules | `(tactic| errsat5_step) => `(tactic| exact NoIoErr.publishDecode _)

theorem NoIoErr.ackDecode (k : Gen.CodeKind) (h : Header) : NoIoErr (Ack.decode k h) := by
  unfold Ack.decode
  errsat5_tac
macro_rules | `(tactic| errsat5_step) => `(tactic| exact NoIoErr.ackDecode _ _)

theorem NoIoErr.tfParser (debug : Bool) (s : Bytes) : NoIoErr (tfParser debug s) :=
  NoIoErr.liftC (V3.NoIoErr.tfParser debug s)
macro_rules | `(tactic| errsat5_step) => `(tactic| exact NoIoErr.tfParser _ _)

theorem NoIoErr.subscribeLoop (debug : Bool) :
    ∀ rl acc, NoIoErr (subscribeLoop debug rl acc) := by
  intro rl
  induction rl using Nat.strongRecOn with
  | _ rl ih =>
    intro acc
    rw [subscribeLoop_eq]
    errsat5_tac
    apply ih
    omega
macro_rules | `(tactic| errsat5_step) => `(tactic| exact NoIoErr.subscribeLoop _ _ _)

theorem NoIoErr.unsubscribeLoop (debug : Bool) :
    ∀ rl acc, NoIoErr (unsubscribeLoop debug rl acc) := by
  intro rl
  induction rl using Nat.strongRecOn with
  | _ rl ih =>
    intro acc
    rw [unsubscribeLoop_eq]
    errsat5_tac
    apply ih
    omega
macro_rules | `(tactic| errsat5_step) => `(tactic| exact NoIoErr.unsubscribeLoop _ _ _)

theorem NoIoErr.codesLoop (k : Gen.CodeKind) (typ : UInt8) :
    ∀ rl acc, NoIoErr (codesLoop k typ rl acc) := by
  intro rl
  induction rl with
  | zero => intro acc; rw [codesLoop_zero]; exact ErrSat.pure _
  | succ rl ih =>
    intro acc
    rw [codesLoop_succ]
    errsat5_tac
    apply ih
macro_rules | `(tactic| errsat5_step) => `(tactic| exact NoIoErr.codesLoop _ _ _ _)

theorem NoIoErr.unsubPropsLoop (typ : UInt8) (pl : Nat) :
    ∀ fuel len ps, NoIoErr (unsubPropsLoop typ pl fuel len ps) := by
  intro fuel
  induction fuel with
  | zero => intro len ps; rw [unsubPropsLoop_zero]; exact ErrSat.panic' _
  | succ fuel ih =>
    intro len ps
    rw [V5.unsubPropsLoop]
    errsat5_tac
    all_goals apply ih
macro_rules | `(tactic| errsat5_step) => `(tactic| exact NoIoErr.unsubPropsLoop _ _ _ _ _)

theorem NoIoErr.subscribeDecode (debug : Bool) (h : Header) :
    NoIoErr (Subscribe.decode debug h) := by
  unfold Subscribe.decode
  errsat5_tac
macro_rules | `(tactic| errsat5_step) => `(tactic| exact NoIoErr.subscribeDecode _ _)

theorem NoIoErr.codesAckDecode (k : Gen.CodeKind) (h : Header) :
    NoIoErr (CodesAck.decode k h) := by
  unfold CodesAck.decode
  errsat5_tac
macro_rules | `(tactic| errsat5_step) => `(tactic| exact NoIoErr.codesAckDecode _ _)

theorem NoIoErr.unsubscribeDecode (debug : Bool) (h : Header) :
    NoIoErr (Unsubscribe.decode debug h) := by
  unfold Unsubscribe.decode
  errsat5_tac
macro_rules | `(tactic| errsat5_step) => `(tactic| exact NoIoErr.unsubscribeDecode _ _)

theorem NoIoErr.headerDecode : NoIoErr Header.decode := by
  unfold Header.decode
  errsat5_tac
macro_rules | `(tactic| errsat5_step) => `(tactic| exact NoIoErr.headerDecode)

theorem NoIoErr.decodeBody (debug : Bool) (h : Header) : NoIoErr (decodeBody debug h) := by
  unfold V5.decodeBody
  errsat5_tac
macro_rules | `(tactic| errsat5_step) => `(tactic| exact NoIoErr.decodeBody _ _)

theorem NoIoErr.decodeAsync (debug : Bool) : NoIoErr (decodeAsync debug) := by
  unfold V5.decodeAsync
  errsat5_tac

/-- The async decoder never returns an `IoError` of its own. -/
theorem decodeAsync_ne_ioError (debug : Bool) (bs : Bytes) (k : IoKind) :
    decodeAsync debug bs ≠ .err (.common (.ioError k)) :=
  fun h => (NoIoErr.decodeAsync debug).sat bs _ h k rfl

/-! ## the lenient front-ends in terms of the reader's outcome -/

theorem runAsync_of_more {α : Type} {P : Parser ErrorV5 α} {bs : Bytes} (h : P bs = .more)
    (term : Term) : runAsync P bs term = .err term.error := by
  simp only [runAsync, h]

theorem runAsync_of_ok {α : Type} {P : Parser ErrorV5 α} {bs r : Bytes} {a : α}
    (h : P bs = .ok a r) (term : Term) : runAsync P bs term = .ok a (bs.length - r.length) := by
  simp only [runAsync, h]

theorem runAsync_of_err {α : Type} {P : Parser ErrorV5 α} {bs : Bytes} {e : ErrorV5}
    (h : P bs = .err e) (term : Term) : runAsync P bs term = .err e := by
  simp only [runAsync, h]

theorem decodeBlocking_of_more {debug : Bool} {bs : Bytes} (h : decodeAsync debug bs = .more) :
    decodeBlocking debug bs = .ok none 0 := by
  simp only [decodeBlocking, runAsync_of_more h]
  rfl

theorem decodeBlocking_of_ok {debug : Bool} {bs r : Bytes} {p : Packet}
    (h : decodeAsync debug bs = .ok p r) :
    decodeBlocking debug bs = .ok (some p) (bs.length - r.length) := by
  simp only [decodeBlocking, runAsync_of_ok h]

theorem decodeBlocking_of_err {debug : Bool} {bs : Bytes} {e : ErrorV5}
    (h : decodeAsync debug bs = .err e) (hio : e ≠ .common (.ioError .unexpectedEof)) :
    decodeBlocking debug bs = .err e := by
  simp only [decodeBlocking, runAsync_of_err h]

theorem isEof_false_of_noIo {e : ErrorV5} (h : ∀ k, e ≠ .common (.ioError k)) :
    e.isEof = false := by
  cases e with
  | common e' =>
    cases e' with
    | ioError k => exact absurd rfl (h k)
    | _ => rfl
  | _ => rfl

theorem isEof_iff_eq (e : ErrorV5) :
    e.isEof = true ↔ e = .common (.ioError .unexpectedEof) := by
  constructor
  · intro h
    cases e with
    | common e' =>
      cases e' with
      | ioError k => cases k <;> first | rfl | cases h
      | _ => cases h
    | _ => cases h
  · intro h; subst h; rfl

theorem decodeAsync_nil (debug : Bool) : decodeAsync debug [] = .more := rfl

/-- The blocking decoder is the async front-end with exactly the EOF error mapped to
'incomplete' (the first part of C06 `blocking_is_async_with_eof_mapped`; the two `match`es
are different matcher constants, hence the case split). -/
theorem decodeBlocking_eq (debug : Bool) (bs : Bytes) :
    decodeBlocking debug bs =
      match runAsync (decodeAsync debug) bs .eof with
      | .ok p n => .ok (some p) n
      | .err (.common (.ioError .unexpectedEof)) => .ok none 0
      | .err e => .err e
      | .panic s => .panic s := by
  unfold decodeBlocking
  cases runAsync (decodeAsync debug) bs .eof with
  | ok p n => rfl
  | panic s => rfl
  | err e =>
    cases e with
    | common e' =>
      cases e' with
      | ioError k => cases k <;> rfl
      | _ => rfl
    | _ => rfl

/-- An async front-end error is recognised by `is_eof` exactly when the input ran out
(the third part of C06 `blocking_is_async_with_eof_mapped`). -/
theorem isEof_iff_more (debug : Bool) (bs : Bytes) (e : ErrorV5)
    (h : runAsync (decodeAsync debug) bs .eof = .err e) :
    e.isEof = true ↔ decodeAsync debug bs = .more := by
  unfold runAsync at h
  cases hd : decodeAsync debug bs with
  | ok p r => rw [hd] at h; cases h
  | more => rw [hd] at h; cases h; exact ⟨fun _ => rfl, fun _ => rfl⟩
  | err e' =>
    rw [hd] at h
    cases h
    constructor
    · intro he
      rw [isEof_iff_eq] at he
      subst he
      exact absurd hd (decodeAsync_ne_ioError debug bs _)
    · intro hm; cases hm
  | panic s => rw [hd] at h; cases h

/-! ## strict versus lenient (C06) -/

/-- The length reader with the v5 error is the common one, lifted. -/
theorem decodeVarIntAux_common (e : Error) : ∀ (bs : Bytes) (i acc : Nat),
    decodeVarIntAux (ErrorV5.common e) i acc bs =
      (decodeVarIntAux e i acc bs).mapErr ErrorV5.common := by
  intro bs
  induction bs with
  | nil => intro i acc; rfl
  | cons b rest ih =>
    intro i acc
    simp only [decodeVarIntAux]
    split
    · rfl
    · split
      · exact ih _ _
      · rfl

theorem headerDecode_cons (cb : UInt8) (rest : Bytes) :
    Header.decode (cb :: rest) =
      match decodeVarIntAux (ErrorV5.common .invalidVarByteInt) 0 0 rest with
      | .ok (v, _) rest' =>
        (match Header.newWith cb v with
         | .ok h => .ok h rest'
         | .error e => .err e)
      | .more => .more
      | .err e => .err e
      | .panic s => .panic s := by
  rw [decodeVarIntAux_common]
  simp only [Header.decode, bind, Parser.bind, liftC, Parser.mapErr, decodeRawHeader, decodeVarInt]
  cases decodeVarIntAux Error.invalidVarByteInt 0 0 rest with
  | ok a r =>
    obtain ⟨v, k⟩ := a
    simp only [Res.bind, Res.mapErr]
    cases Header.newWith cb v <;> rfl
  | _ => rfl

/-- `decodeAsync = Header.decode >>= decodeBody` is a lenient decoder for the v5 family. -/
theorem lenient (debug : Bool) :
    Poll.Lenient (pollFamily debug) Header.decode (decodeBody debug) where
  hdr_cons := by
    intro cb rest
    rw [headerDecode_cons]
    have e1 : (pollFamily debug).ofCommon Error.invalidVarByteInt =
        ErrorV5.common .invalidVarByteInt := rfl
    have e2 : (pollFamily debug).newWith = Header.newWith := rfl
    rw [e1, e2]
    cases decodeVarIntAux (ErrorV5.common .invalidVarByteInt) 0 0 rest with
    | ok a r =>
      obtain ⟨v, k⟩ := a
      simp only []
      cases Header.newWith cb v <;> rfl
    | _ => rfl
  ext := Extends.decodeBody debug
  empty := by
    intro cb v h p _ hbe hrl bs
    have hbe' : buildEmptyPacket h = some p := hbe
    have hrl' : h.remainingLen = 0 := hrl
    unfold buildEmptyPacket at hbe'
    unfold V5.decodeBody
    split at hbe'
    · rename_i ht; cases hbe'; simp only [ht]; rfl
    · rename_i ht; cases hbe'; simp only [ht]; rfl
    · rename_i ht
      rw [if_pos hrl'] at hbe'
      cases hbe'
      simp only [ht, Auth.decode, if_pos hrl']
      rfl
    · rename_i ht
      rw [if_pos hrl'] at hbe'
      cases hbe'
      simp only [ht, Disconnect.decode, if_pos hrl']
      rfl
    · cases hbe'
  block := by
    intro cb v h hnw hbe
    have hnw' : Header.newWith cb v = .ok h := hnw
    exact blockDecode_eq_decodeBody debug h hbe (Header.newWith_facts hnw').2

theorem decodeAsync_eq_bind (debug : Bool) :
    decodeAsync debug = Parser.bind Header.decode (decodeBody debug) := rfl

/-- C06, accepting direction. -/
theorem strict_accepts (debug : Bool) (bs : Bytes) (term : Poll.Term)
    (total : Nat) (body : Bytes) (p : Packet)
    (h : (Poll.spec (pollFamily debug) bs term).1 = .ok total body p) :
    decodeAsync debug bs = .ok p (bs.drop total) ∧ total ≤ bs.length ∧
    decodeBlocking debug bs = .ok (some p) total := by
  obtain ⟨h1, h2⟩ := (lenient debug).accepts bs term total body p h
  rw [← decodeAsync_eq_bind] at h1
  refine ⟨h1, h2, ?_⟩
  rw [decodeBlocking_of_ok h1, List.length_drop]
  congr 1; omega

/-- C06, rejecting direction. -/
theorem strict_rejects (debug : Bool) (bs : Bytes) (term : Poll.Term) (e : ErrorV5)
    (h : (Poll.spec (pollFamily debug) bs term).1 = .err e)
    (hne : e ≠ .common .invalidRemainingLength) (hio : ∀ k, e ≠ .common (.ioError k)) :
    decodeAsync debug bs = .err e ∧ decodeBlocking debug bs = .err e := by
  have h1 := (lenient debug).rejects bs term e h hne hio
  rw [← decodeAsync_eq_bind] at h1
  exact ⟨h1, decodeBlocking_of_err h1 (hio _)⟩

/-! ## the encoding of a valid packet on the three front-ends (C07/C08/C14) -/

/-- One-packet step of the async/blocking front-end: packet, bytes consumed, unread input. -/
def asyncStep (debug : Bool) (bs : Bytes) : Option (Packet × Nat × Bytes) :=
  match decodeAsync debug bs with
  | .ok p rest => some (p, bs.length - rest.length, rest)
  | _ => none

/-- One-packet step of the poll front-end, advancing by the total it reports. -/
def pollStep (debug : Bool) (term : Poll.Term) (bs : Bytes) : Option (Packet × Nat × Bytes) :=
  match (Poll.spec (pollFamily debug) bs term).1 with
  | .ok total _ p => some (p, total, bs.drop total)
  | _ => none

/-- Everything C07/C08/C14 use about the encoding of a valid packet, with one witness
(assembled from C01's three round trips). -/
theorem encoding_facts (debug : Bool) (p : Packet) (hv : p.valid = true) (hwf : p.wf)
    (hfit : C01.V5.Fits p) :
    ∃ vb, p.encode debug = .ok vb ∧ vb.asRef ≠ [] ∧
      (∀ t, decodeAsync debug (vb.asRef ++ t) = .ok p t) ∧
      (∀ t term, ∃ body, Poll.spec (pollFamily debug) (vb.asRef ++ t) term =
        (.ok vb.asRef.length body p, vb.asRef.length)) := by
  obtain ⟨vb, he, h0⟩ := C01.V5.roundtrip_async debug p hv hwf hfit []
  have hasync : ∀ t, decodeAsync debug (vb.asRef ++ t) = .ok p t := by
    intro t
    obtain ⟨vb', he', h⟩ := C01.V5.roundtrip_async debug p hv hwf hfit t
    rw [he] at he'
    injection he' with hvb
    subst hvb
    exact h
  refine ⟨vb, he, ?_, hasync, ?_⟩
  · intro hnil
    rw [hnil, List.append_nil, decodeAsync_nil] at h0
    cases h0
  · intro t term
    obtain ⟨vb', he', h⟩ := C01.V5.roundtrip_poll debug p hv hwf hfit t term
    rw [he] at he'
    injection he' with hvb
    subst hvb
    exact ⟨_, h⟩

/-- Strict prefixes of an encoding: the async reader asks for more input. -/
theorem prefix_is_more (debug : Bool) (enc : Bytes) (p : Packet)
    (h : ∀ t, decodeAsync debug (enc ++ t) = .ok p t) (k : Nat) (hk : k < enc.length) :
    decodeAsync debug (enc.take k) = .more := by
  have h0 := h []
  rw [List.append_nil] at h0
  exact (C03.V5.decoders_extend debug).1.strict_prefix_is_more enc p h0 k hk

/-- Strict prefixes of an encoding: the poll decoder reports the terminal event, under
every schedule. -/
theorem prefix_poll (debug : Bool) (enc : Bytes) (p : Packet)
    (h : ∀ t term, ∃ body, Poll.spec (pollFamily debug) (enc ++ t) term =
      (.ok enc.length body p, enc.length))
    (k : Nat) (hk : k < enc.length) (sched : List Poll.Sched) (term : Poll.Term) :
    (Poll.run (pollFamily debug) debug (enc.take k) sched term).result =
      .err (Poll.termErr (pollFamily debug) term) := by
  obtain ⟨body, h0⟩ := h [] term
  rw [List.append_nil] at h0
  rw [(C05.schedule_independent (pollFamily debug) debug (enc.take k) sched term).1]
  exact Poll.spec_strict_prefix_result (pollFamily debug) enc term enc.length body p
    (by rw [h0]) k hk term

/-- The whole encoding followed by anything: the poll decoder returns the packet and
the exact total, under every schedule and terminal event. -/
theorem whole_poll (debug : Bool) (enc : Bytes) (p : Packet)
    (h : ∀ t term, ∃ body, Poll.spec (pollFamily debug) (enc ++ t) term =
      (.ok enc.length body p, enc.length))
    (t : Bytes) (sched : List Poll.Sched) (term : Poll.Term) :
    ∃ body, (Poll.run (pollFamily debug) debug (enc ++ t) sched term).result
        = .ok enc.length body p ∧
      (Poll.run (pollFamily debug) debug (enc ++ t) sched term).consumed = enc.length := by
  obtain ⟨body, h0⟩ := h t term
  obtain ⟨h1, h2⟩ := C05.schedule_independent (pollFamily debug) debug (enc ++ t) sched term
  exact ⟨body, by rw [h1, h0], by rw [h2, h0]⟩

theorem asyncStep_enc (debug : Bool) (enc : Bytes) (p : Packet)
    (h : ∀ t, decodeAsync debug (enc ++ t) = .ok p t) (t : Bytes) :
    asyncStep debug (enc ++ t) = some (p, enc.length, t) := by
  simp only [asyncStep, h t, List.length_append, Nat.add_sub_cancel]

theorem pollStep_enc (debug : Bool) (term : Poll.Term) (enc : Bytes) (p : Packet)
    (h : ∀ t term, ∃ body, Poll.spec (pollFamily debug) (enc ++ t) term =
      (.ok enc.length body p, enc.length)) (t : Bytes) :
    pollStep debug term (enc ++ t) = some (p, enc.length, t) := by
  obtain ⟨body, h0⟩ := h t term
  simp only [pollStep, h0, List.drop_left]

end Mqtt.V5
