/-
  C04 (v5): SUBSCRIBE (options byte, canonical accounting of the properties) and
  UNSUBSCRIBE (hand-written property loop).
-/
import Proofs.V5SpecBody

set_option linter.unusedSimpArgs false
set_option linter.unusedVariables false

namespace Mqtt.V5
open Mqtt

/-! ## the subscription options byte -/

def subOptsOkB (ob : UInt8) : Bool :=
  decide (Spec.bits ob 0 2 ≠ 3) && decide (Spec.bits ob 4 2 ≠ 3) && decide (Spec.bits ob 6 2 = 0)

def subOptsAgree (ob : UInt8) : Bool :=
  match decodeSubOpts ob with
  | .ok o => o == Spec.subOpts ob && subOptsOkB ob
  | .error _ => !subOptsOkB ob

set_option maxRecDepth 100000 in
theorem subOptsAgree_all (ob : UInt8) : subOptsAgree ob = true :=
  V3.forall_uint8 subOptsAgree (by decide) ob

theorem subOptsOk_eq (f : Bytes) (ob : UInt8) : Spec.subOptsOk f ob = subOptsOkB ob := by
  simp [Spec.subOptsOk, subOptsOkB, Spec.Lenient.noLocalOnShared]

theorem decodeSubOpts_ok_iff (f : Bytes) (ob : UInt8) (o : SubOpts) :
    decodeSubOpts ob = .ok o ↔ Spec.subOptsOk f ob = true ∧ o = Spec.subOpts ob := by
  have := subOptsAgree_all ob
  unfold subOptsAgree at this
  rw [subOptsOk_eq]
  cases hd : decodeSubOpts ob with
  | ok o' =>
    rw [hd] at this
    simp only [Bool.and_eq_true, beq_iff_eq] at this
    constructor
    · intro h; cases h; exact ⟨this.2, this.1⟩
    · rintro ⟨-, rfl⟩; rw [this.1]
  | error e =>
    rw [hd] at this
    simp only [Bool.not_eq_true'] at this
    constructor
    · intro h; cases h
    · rintro ⟨h, -⟩; rw [this] at h; cases h

theorem tfParser_ok_iff (debug : Bool) (s : Bytes) (bs : Bytes) (f : Topic.TopicFilter) (r : Bytes) :
    tfParser debug s bs = .ok f r ↔ Spec.isTopicFilter s = true ∧ f = Spec.topicFilterOf s ∧ bs = r := by
  unfold tfParser
  rw [liftC_ok_iff]
  unfold V3.tfParser
  rw [V3.topicFilterTryFrom_eq]
  by_cases h : Spec.isTopicFilter s = true
  · simp only [h, if_true, Res.ok.injEq, true_and]
    constructor
    · rintro ⟨rfl, rfl⟩; exact ⟨rfl, rfl⟩
    · rintro ⟨rfl, rfl⟩; exact ⟨rfl, rfl⟩
  · simp [h]

/-! ## SUBSCRIBE -/

def subTopic (y : Bytes × UInt8) : Topic.TopicFilter × SubOpts :=
  (Spec.topicFilterOf y.1, Spec.subOpts y.2)

theorem subPairs_nil (fuel : Nat) : V3.subPairs fuel [] = some [] := by cases fuel <;> rfl

theorem subPairs_cons_iff (fuel : Nat) (x : UInt8) (bs : Bytes) (pairs : List (Bytes × UInt8)) :
    V3.subPairs (fuel + 1) (x :: bs) = some pairs ↔
      ∃ s q r ps, Spec.lenPrefixed (x :: bs) = some (s, q :: r) ∧ V3.subPairs fuel r = some ps ∧
        pairs = (s, q) :: ps := by
  simp only [V3.subPairs]
  cases hl : Spec.lenPrefixed (x :: bs) with
  | none => simp
  | some y =>
    obtain ⟨s, r⟩ := y
    cases r with
    | nil => simp
    | cons q r' =>
      simp only [Option.map_eq_some_iff, Option.some.injEq, Prod.mk.injEq, List.cons.injEq]
      constructor
      · rintro ⟨ps, hp, rfl⟩; exact ⟨s, q, r', ps, ⟨rfl, rfl, rfl⟩, hp, rfl⟩
      · rintro ⟨s', q', r'', ps, ⟨rfl, rfl, rfl⟩, hp, rfl⟩; exact ⟨ps, hp, rfl⟩

/-- The topic loop accepts exactly `rl` bytes of (filter, options) pairs the specification
accepts. -/
theorem subscribeLoop5_iff (debug : Bool) : ∀ (fuel rl : Nat) (bs : Bytes)
    (acc ts : List (Topic.TopicFilter × SubOpts)), rl ≤ fuel →
    (subscribeLoop debug rl acc bs = .ok ts [] ↔
      rl = bs.length ∧ ∃ pairs, V3.subPairs fuel bs = some pairs ∧
        (∀ y ∈ pairs, Spec.isTopicFilter y.1 = true ∧ Spec.subOptsOk y.1 y.2 = true) ∧
        ts = acc ++ pairs.map subTopic) := by
  intro fuel
  induction fuel with
  | zero =>
    intro rl bs acc ts hle
    have : rl = 0 := by omega
    subst this
    rw [subscribeLoop_eq]
    simp only [Nat.lt_irrefl, gt_iff_lt, if_false, ppure_ok_iff]
    constructor
    · rintro ⟨rfl, rfl⟩
      exact ⟨rfl, [], rfl, by simp, by simp⟩
    · rintro ⟨hl, pairs, hp, -, rfl⟩
      have : bs = [] := List.length_eq_zero_iff.mp hl.symm
      subst this
      cases hp
      simp
  | succ fuel ih =>
    intro rl bs acc ts hle
    rw [subscribeLoop_eq]
    by_cases hrl : rl > 0
    · rw [if_pos hrl]
      simp only [pbind_ok_iff, readString_ok_iff, tfParser_ok_iff, readU8_ok_iff, liftExcept_ok_iff]
      constructor
      · rintro ⟨s, r1, ⟨hl, hv⟩, f, r1', ⟨hf, rfl, rfl⟩, ob, r2, rfl, o, r2', ⟨ho, rfl⟩, h⟩
        have hlen := V3.lenPrefixed_length hl
        simp only [List.length_cons] at hlen
        obtain ⟨hok, rfl⟩ := (decodeSubOpts_ok_iff s ob o).mp ho
        by_cases h3 : 3 + (Spec.topicFilterOf s).text.length ≤ rl
        · rw [if_pos h3] at h
          have h3' : 3 + s.length ≤ rl := h3
          obtain ⟨hrl', pairs, hp, hall, rfl⟩ := (ih _ _ _ _ (by omega)).mp h
          have hrl'' : rl - (3 + s.length) = r2.length := hrl'
          refine ⟨by omega, (s, ob) :: pairs, ?_, ?_, by simp [subTopic]⟩
          · cases bs with
            | nil => simp [Spec.lenPrefixed] at hl
            | cons x bs' => exact (subPairs_cons_iff _ _ _ _).mpr ⟨s, ob, r2, pairs, hl, hp, rfl⟩
          · intro y hy
            rcases List.mem_cons.mp hy with rfl | hy
            · exact ⟨hf, hok⟩
            · exact hall y hy
        · rw [if_neg h3] at h; simp at h
      · rintro ⟨hl, pairs, hp, hall, rfl⟩
        cases bs with
        | nil => simp only [List.length_nil] at hl; omega
        | cons x bs' =>
          obtain ⟨s, q, r, ps, hlp, hps, rfl⟩ := (subPairs_cons_iff _ _ _ _).mp hp
          have hlen := V3.lenPrefixed_length hlp
          simp only [List.length_cons] at hlen hl
          obtain ⟨hf, hok⟩ := hall (s, q) (by simp)
          refine ⟨s, q :: r, ⟨hlp, V3.isTopicFilter_valid hf⟩, _, _, ⟨hf, rfl, rfl⟩, q, r, rfl,
            Spec.subOpts q, r, ⟨(decodeSubOpts_ok_iff s q _).mpr ⟨hok, rfl⟩, rfl⟩, ?_⟩
          have h3 : 3 + (Spec.topicFilterOf s).text.length ≤ rl := by
            show 3 + s.length ≤ rl; omega
          rw [if_pos h3]
          refine (ih _ _ _ _ (by omega)).mpr ⟨?_, ps, hps, fun y hy => hall y (by simp [hy]), ?_⟩
          · show rl - (3 + s.length) = r.length; omega
          · simp [subTopic]
    · have : rl = 0 := by omega
      subst this
      rw [if_neg hrl]
      simp only [ppure_ok_iff]
      constructor
      · rintro ⟨rfl, rfl⟩
        exact ⟨rfl, [], subPairs_nil _, by simp, by simp⟩
      · rintro ⟨hl, pairs, hp, -, rfl⟩
        have : bs = [] := List.length_eq_zero_iff.mp hl.symm
        subst this
        rw [subPairs_nil] at hp
        cases hp
        simp

def SubscribeShape (R : PRel) (b : Bytes) (x : Subscribe) : Prop :=
  ∃ a c r ps r2 pairs, b = a :: c :: r ∧ be16 a c ≠ 0 ∧ R r ps r2 ∧ r2 ≠ [] ∧
    V3.subPairs r2.length r2 = some pairs ∧
    (∀ y ∈ pairs, Spec.isTopicFilter y.1 = true ∧ Spec.subOptsOk y.1 y.2 = true) ∧
    x = ⟨⟨be16 a c⟩, ps, pairs.map subTopic⟩

theorem SubscribeShape.mono {R R' : PRel} (h : ∀ bs ps rest, R bs ps rest → R' bs ps rest)
    {b : Bytes} {x : Subscribe} (hs : SubscribeShape R b x) : SubscribeShape R' b x := by
  obtain ⟨a, c, r, ps, r2, pairs, hb, hz, hr, hne, hp, hall, hx⟩ := hs
  exact ⟨a, c, r, ps, r2, pairs, hb, hz, h _ _ _ hr, hne, hp, hall, hx⟩

theorem subscribeModel (debug : Bool) (h : Header) (b : Bytes) (hrl : h.remainingLen = b.length)
    (x : Subscribe) :
    Subscribe.decode debug h b = .ok x [] ↔
      SubscribeShape (ModelRA (.packet h.typ) subscribeProps) b x := by
  unfold Subscribe.decode SubscribeShape ModelRA
  simp only [bind_ok_iff, readPid_ok_iff, propsEncodeLenP_ok_iff, checkedSub_ok_iff]
  constructor
  · rintro ⟨pid, r, ⟨a, c, rfl, hz, rfl⟩, ps, r2, hdp, plen, r3, ⟨hel, rfl⟩, rl, r4, ⟨hle, rfl, rfl⟩, h2⟩
    simp only [List.length_cons] at hrl
    by_cases h0 : h.remainingLen - (2 + plen) = 0
    · rw [if_pos h0] at h2; simp at h2
    · rw [if_neg h0] at h2
      simp only [bind_ok_iff, pure_ok_iff] at h2
      obtain ⟨topics, r5, hloop, rfl, rfl⟩ := h2
      obtain ⟨hlen, pairs, hp, hall, rfl⟩ :=
        (subscribeLoop5_iff debug _ _ _ _ _ (Nat.le_refl _)).mp hloop
      have hne : r2 ≠ [] := by
        intro he; subst he; simp only [List.length_nil] at hlen; exact h0 hlen
      rw [hlen] at hp
      refine ⟨a, c, r, ps, r2, pairs, rfl, hz, ⟨hdp, ?_, by omega⟩, hne, hp, hall, by simp⟩
      rw [hel]; congr 1; omega
  · rintro ⟨a, c, r, ps, r2, pairs, rfl, hz, ⟨hdp, hel, hle⟩, hne, hp, hall, rfl⟩
    simp only [List.length_cons] at hrl
    have hpos : 0 < r2.length := List.length_pos_iff.mpr hne
    have hlen : h.remainingLen - (2 + (r.length - r2.length)) = r2.length := by omega
    refine ⟨⟨be16 a c⟩, r, ⟨a, c, rfl, hz, rfl⟩, ps, r2, hdp, r.length - r2.length, r2, ⟨hel, rfl⟩,
      _, r2, ⟨by omega, rfl, rfl⟩, ?_⟩
    have h0 : ¬ h.remainingLen - (2 + (r.length - r2.length)) = 0 := by omega
    rw [if_neg h0]
    simp only [bind_ok_iff, pure_ok_iff]
    refine ⟨pairs.map subTopic, [], ?_, rfl, rfl⟩
    rw [hlen]
    exact (subscribeLoop5_iff debug _ _ _ _ _ (Nat.le_refl _)).mpr ⟨rfl, pairs, hp, hall, by simp⟩

theorem subRows_all (pairs : List (Bytes × UInt8)) (g : List Spec.Scalar → Bool) (g' : Bytes × UInt8 → Bool)
    (hg : ∀ y, g (V3.subRow y) = g' y) :
    (pairs.map V3.subRow).all g = pairs.all g' := by
  induction pairs with
  | nil => rfl
  | cons y ys ih => simp only [List.map_cons, List.all_cons, hg, ih]

theorem subscribeSpec (m : Bool) (flags : UInt8) (b : Bytes) (sp : Spec.PacketV5) :
    specBody5 m .subscribe flags b = some sp ↔
      ∃ x, SubscribeShape (SpecR m (some .subscribe)) b x ∧ sp = ⟨.subscribe x, []⟩ := by
  rw [specBody5_eq_some_iff]
  simp only [fieldsOf5_eq m .subscribe flags b (by simp), Spec.layoutV5, parseBody_iff]
  unfold SubscribeShape
  match b with
  | [] => simp [V3.parseItems_val, V3.parseWire_u16_nil]
  | [a] => simp [V3.parseItems_val, V3.parseWire_u16_one]
  | a :: c :: r =>
    simp only [V3.parseItems_val, V3.parseWire_u16, Option.bind_some, List.map_cons, List.map_nil,
      List.cons_append, List.nil_append, parseItems_props, parseItems_many, V3.parseItems_nil,
      V3.parseRows_sub, Option.bind_eq_some_iff, Option.some.injEq, Prod.mk.injEq,
      Option.map_eq_some_iff]
    constructor
    · rintro ⟨fs, ⟨a1, ⟨⟨raw, r2⟩, hpp, a2, ⟨rows, ⟨pairs, hp, rfl⟩, rfl⟩, rfl⟩, rfl, -⟩, hv, hpj⟩
      simp only [] at hp hv hpj
      simp only [Spec.validV5, List.all_cons, List.all_nil, textOk_u16, Bool.and_true,
        Bool.true_and, pidOk_u16, Bool.and_eq_true, decide_eq_true_eq, Bool.not_eq_true',
        List.isEmpty_eq_false_iff] at hv
      obtain ⟨⟨htx, hrtx⟩, ⟨⟨hz, hpo⟩, hne⟩, hall⟩ := hv
      obtain ⟨hok, hnr⟩ := (specR_valid (some .subscribe) (by simp) raw).mp ⟨hpo, htx⟩
      rw [subRows_all pairs _ (fun y => Spec.isTopicFilter y.1 && Spec.subOptsOk y.1 y.2)
        (fun y => rfl)] at hall
      simp only [List.all_eq_true, Bool.and_eq_true] at hall
      have hne2 : r2 ≠ [] := by
        intro he; subst he
        rw [subPairs_nil] at hp
        cases hp
        exact hne rfl
      simp only [Spec.projectV5, Option.some.injEq] at hpj
      subst hpj
      refine ⟨_, ⟨a, c, r, _, r2, pairs, rfl, hz, ⟨raw, hpp, hok, hnr, rfl⟩, hne2, hp, hall, rfl⟩, ?_⟩
      have hfm : ∀ (g : List Spec.Scalar → Option (Topic.TopicFilter × SubOpts)),
          (∀ x, g (V3.subRow x) = some (subTopic x)) →
          List.filterMap (g ∘ V3.subRow) pairs = pairs.map subTopic :=
        fun g hg => V3.filterMap_comp_some g V3.subRow _ hg pairs
      rw [List.filterMap_map, hfm _ (fun x => rfl)]
      rfl
    · rintro ⟨x, ⟨a', c', r', ps, r2, pairs, hb, hz, ⟨raw, hpp, hok, hnr, rfl⟩, hne, hp, hall, rfl⟩, rfl⟩
      simp only [List.cons.injEq] at hb
      obtain ⟨rfl, rfl, rfl⟩ := hb
      obtain ⟨hpo, htx⟩ := (specR_valid (some .subscribe) (by simp) raw).mpr ⟨hok, hnr⟩
      refine ⟨_, ⟨_, ⟨(raw, r2), hpp, _, ⟨_, ⟨pairs, hp, rfl⟩, rfl⟩, rfl⟩, rfl, rfl⟩, ?_, ?_⟩
      · simp only [Spec.validV5, List.all_cons, List.all_nil, textOk_u16, Bool.and_true,
          Bool.true_and, pidOk_u16, Bool.and_eq_true, decide_eq_true_eq, Bool.not_eq_true',
          List.isEmpty_eq_false_iff]
        have hpne : pairs ≠ [] := V3.subPairs_ne_nil hp hne
        refine ⟨⟨htx, ?_⟩, ⟨⟨hz, hpo⟩, by simpa using hpne⟩, ?_⟩
        · simp only [Spec.Field.textOk]
          rw [subRows_all pairs _ (fun y => Spec.isText y.1) (fun y => by
            simp [V3.subRow, Spec.Scalar.textOk])]
          simp only [List.all_eq_true]
          intro y hy
          rw [V3.isText_eq_valid]
          exact V3.isTopicFilter_valid (hall y hy).1
        · rw [subRows_all pairs _ (fun y => Spec.isTopicFilter y.1 && Spec.subOptsOk y.1 y.2)
            (fun y => rfl)]
          simp only [List.all_eq_true, Bool.and_eq_true]
          exact hall
      · simp only [Spec.projectV5, Option.some.injEq]
        have hfm : ∀ (g : List Spec.Scalar → Option (Topic.TopicFilter × SubOpts)),
            (∀ x, g (V3.subRow x) = some (subTopic x)) →
            List.filterMap (g ∘ V3.subRow) pairs = pairs.map subTopic :=
          fun g hg => V3.filterMap_comp_some g V3.subRow _ hg pairs
        rw [List.filterMap_map, hfm _ (fun x => rfl)]
        rfl

/-! ## UNSUBSCRIBE -/

/-- The hand-written property loop of UNSUBSCRIBE is the generic loop with the empty identifier
list; on success the length it returns is the declared one. -/
theorem unsubPropsLoop_ok_iff (typ : UInt8) (N : Nat) :
    ∀ (fuel len : Nat) (ps : Props) (bs : Bytes) (ps' : Props) (l' : Nat) (r : Bytes),
      unsubPropsLoop typ N fuel len ps bs = .ok (ps', l') r ↔
        decodePropsLoop (.packet typ) unsubscribeProps N fuel len ps bs = .ok ps' r ∧ l' = N := by
  intro fuel
  induction fuel with
  | zero =>
    intro len ps bs ps' l' r
    rw [unsubPropsLoop_zero, decodePropsLoop_zero]
    simp [Parser.panic]
  | succ fuel ih =>
    intro len ps bs ps' l' r
    rw [loop_succ, unsubPropsLoop]
    by_cases hN : N > len
    · simp only [hN, if_true, readProp, Parser.bind_apply]
      cases h1 : liftC readU8 bs with
      | ok idb r1 =>
        simp only [Res.bind_ok]
        cases h2 : codeOfByte .propertyId idb with
        | none => simp
        | some id =>
          have hc : unsubscribeProps.contains id = false := rfl
          simp only [hc, Bool.false_eq_true, if_false]
          by_cases hu : id = USER_PROPERTY
          · simp only [hu, if_true, Parser.bind_apply]
            cases h6 : liftC readString r1 with
            | ok n r2 =>
              simp only [Res.bind_ok]
              cases h7 : liftC readString r2 with
              | ok v r3 =>
                simp only [Res.bind_ok, Parser.pure_apply']
                exact ih _ _ _ _ _ _
              | _ => simp [Res.bind]
            | _ => simp [Res.bind]
          · simp only [hu, if_false, PropCtx.reject]
            simp [Res.bind]
      | _ => simp [Res.bind]
    · simp only [hN, if_false]
      by_cases hne : N ≠ len
      · simp only [hne, if_true, ne_eq, not_false_eq_true]
        simp
      · have heq : N = len := Decidable.of_not_not hne
        simp only [hne, if_false, pure_ok_iff, Res.ok.injEq, Prod.mk.injEq]
        constructor
        · rintro ⟨⟨rfl, rfl⟩, rfl⟩; exact ⟨⟨rfl, rfl⟩, heq.symm⟩
        · rintro ⟨⟨rfl, rfl⟩, rfl⟩; exact ⟨⟨rfl, heq.symm⟩, rfl⟩

theorem unsubPairs_nil (fuel : Nat) : V3.unsubPairs fuel [] = some [] := by cases fuel <;> rfl

theorem unsubPairs_cons_iff (fuel : Nat) (x : UInt8) (bs : Bytes) (fs : List Bytes) :
    V3.unsubPairs (fuel + 1) (x :: bs) = some fs ↔
      ∃ s r ps, Spec.lenPrefixed (x :: bs) = some (s, r) ∧ V3.unsubPairs fuel r = some ps ∧
        fs = s :: ps := by
  simp only [V3.unsubPairs]
  cases hl : Spec.lenPrefixed (x :: bs) with
  | none => simp
  | some y =>
    obtain ⟨s, r⟩ := y
    simp only [Option.map_eq_some_iff, Option.some.injEq, Prod.mk.injEq]
    constructor
    · rintro ⟨ps, hp, rfl⟩; exact ⟨s, r, ps, ⟨rfl, rfl⟩, hp, rfl⟩
    · rintro ⟨s', r', ps, ⟨rfl, rfl⟩, hp, rfl⟩; exact ⟨ps, hp, rfl⟩

theorem unsubscribeLoop5_iff (debug : Bool) : ∀ (fuel rl : Nat) (bs : Bytes)
    (acc ts : List Topic.TopicFilter), rl ≤ fuel →
    (unsubscribeLoop debug rl acc bs = .ok ts [] ↔
      rl = bs.length ∧ ∃ fs, V3.unsubPairs fuel bs = some fs ∧
        (∀ y ∈ fs, Spec.isTopicFilter y = true) ∧ ts = acc ++ fs.map Spec.topicFilterOf) := by
  intro fuel
  induction fuel with
  | zero =>
    intro rl bs acc ts hle
    have : rl = 0 := by omega
    subst this
    rw [unsubscribeLoop_eq]
    simp only [Nat.lt_irrefl, gt_iff_lt, if_false, ppure_ok_iff]
    constructor
    · rintro ⟨rfl, rfl⟩
      exact ⟨rfl, [], rfl, by simp, by simp⟩
    · rintro ⟨hl, fs, hp, -, rfl⟩
      have : bs = [] := List.length_eq_zero_iff.mp hl.symm
      subst this
      cases hp
      simp
  | succ fuel ih =>
    intro rl bs acc ts hle
    rw [unsubscribeLoop_eq]
    by_cases hrl : rl > 0
    · rw [if_pos hrl]
      simp only [pbind_ok_iff, readString_ok_iff, tfParser_ok_iff]
      constructor
      · rintro ⟨s, r1, ⟨hl, hv⟩, f, r1', ⟨hf, rfl, rfl⟩, h⟩
        have hlen := V3.lenPrefixed_length hl
        by_cases h2 : 2 + (Spec.topicFilterOf s).text.length ≤ rl
        · rw [if_pos h2] at h
          have h2' : 2 + s.length ≤ rl := h2
          obtain ⟨hrl', fs, hp, hall, rfl⟩ := (ih _ _ _ _ (by omega)).mp h
          have hrl'' : rl - (2 + s.length) = r1.length := hrl'
          refine ⟨by omega, s :: fs, ?_, ?_, by simp⟩
          · cases bs with
            | nil => simp [Spec.lenPrefixed] at hl
            | cons x bs' => exact (unsubPairs_cons_iff _ _ _ _).mpr ⟨s, r1, fs, hl, hp, rfl⟩
          · intro y hy
            rcases List.mem_cons.mp hy with rfl | hy
            · exact hf
            · exact hall y hy
        · rw [if_neg h2] at h; simp at h
      · rintro ⟨hl, fs, hp, hall, rfl⟩
        cases bs with
        | nil => simp only [List.length_nil] at hl; omega
        | cons x bs' =>
          obtain ⟨s, r, ps, hlp, hps, rfl⟩ := (unsubPairs_cons_iff _ _ _ _).mp hp
          have hlen := V3.lenPrefixed_length hlp
          simp only [List.length_cons] at hlen hl
          have hf := hall s (by simp)
          refine ⟨s, r, ⟨hlp, V3.isTopicFilter_valid hf⟩, _, _, ⟨hf, rfl, rfl⟩, ?_⟩
          have h2 : 2 + (Spec.topicFilterOf s).text.length ≤ rl := by
            show 2 + s.length ≤ rl; omega
          rw [if_pos h2]
          refine (ih _ _ _ _ (by omega)).mpr ⟨?_, ps, hps, fun y hy => hall y (by simp [hy]), ?_⟩
          · show rl - (2 + s.length) = r.length; omega
          · simp
    · have : rl = 0 := by omega
      subst this
      rw [if_neg hrl]
      simp only [ppure_ok_iff]
      constructor
      · rintro ⟨rfl, rfl⟩
        exact ⟨rfl, [], unsubPairs_nil _, by simp, by simp⟩
      · rintro ⟨hl, fs, hp, -, rfl⟩
        have : bs = [] := List.length_eq_zero_iff.mp hl.symm
        subst this
        rw [unsubPairs_nil] at hp
        cases hp
        simp

def UnsubscribeShape (R : PRel) (b : Bytes) (x : Unsubscribe) : Prop :=
  ∃ a c r ps r2 fs, b = a :: c :: r ∧ be16 a c ≠ 0 ∧ R r ps r2 ∧ r2 ≠ [] ∧
    V3.unsubPairs r2.length r2 = some fs ∧ (∀ y ∈ fs, Spec.isTopicFilter y = true) ∧
    x = ⟨⟨be16 a c⟩, ps, fs.map Spec.topicFilterOf⟩

theorem UnsubscribeShape.mono {R R' : PRel} (h : ∀ bs ps rest, R bs ps rest → R' bs ps rest)
    {b : Bytes} {x : Unsubscribe} (hs : UnsubscribeShape R b x) : UnsubscribeShape R' b x := by
  obtain ⟨a, c, r, ps, r2, fs, hb, hz, hr, hne, hp, hall, hx⟩ := hs
  exact ⟨a, c, r, ps, r2, fs, hb, hz, h _ _ _ hr, hne, hp, hall, hx⟩

theorem unsubscribeModel (debug : Bool) (h : Header) (b : Bytes) (hrl : h.remainingLen = b.length)
    (x : Unsubscribe) :
    Unsubscribe.decode debug h b = .ok x [] ↔
      UnsubscribeShape (ModelR (.packet h.typ) unsubscribeProps) b x := by
  unfold Unsubscribe.decode UnsubscribeShape ModelR
  simp only [bind_ok_iff, readPid_ok_iff, checkedSub_ok_iff]
  constructor
  · rintro ⟨pid, r, ⟨a, c, rfl, hz, rfl⟩, ⟨N, k⟩, r1, hd, ⟨ps, len⟩, r2, hloop, rl, r3,
      ⟨hle, rfl, rfl⟩, h2⟩
    simp only [List.length_cons] at hrl
    simp only [] at hloop hle h2
    obtain ⟨hloop', rfl⟩ := (unsubPropsLoop_ok_iff _ _ _ _ _ _ _ _ _).mp hloop
    have hdp : decodeProps (.packet h.typ) unsubscribeProps r = .ok ps r2 := by
      unfold decodeProps
      rw [bind_ok_iff]
      exact ⟨(len, k), r1, hd, hloop'⟩
    by_cases h0 : h.remainingLen - (2 + k + len) = 0
    · rw [if_pos h0] at h2; simp at h2
    · rw [if_neg h0] at h2
      simp only [bind_ok_iff, pure_ok_iff] at h2
      obtain ⟨topics, r5, hl, rfl, rfl⟩ := h2
      obtain ⟨hlen, fs, hp, hall, rfl⟩ :=
        (unsubscribeLoop5_iff debug _ _ _ _ _ (Nat.le_refl _)).mp hl
      have hne : r2 ≠ [] := by
        intro he; subst he; simp only [List.length_nil] at hlen; exact h0 hlen
      rw [hlen] at hp
      exact ⟨a, c, r, ps, r2, fs, rfl, hz, hdp, hne, hp, hall, by simp⟩
  · rintro ⟨a, c, r, ps, r2, fs, rfl, hz, hdp, hne, hp, hall, rfl⟩
    simp only [List.length_cons] at hrl
    obtain ⟨N, k, r1, cs, raw, hd, rfl, -, hok, -, -, hle, heq, -⟩ :=
      decodeProps_backward pl_unsubscribe (.packet h.typ) r ps r2 hdp
    obtain ⟨-, hlen, -⟩ := varintDigits4_facts hd
    have hN : N = cs.length := by
      apply heq
      intro x hx hx0
      rcases tlvOk_allowed pl_unsubscribe (hok x hx) with hc | hc
      · rw [hx0] at hc; revert hc; decide
      · rw [hx0] at hc; revert hc; decide
    unfold decodeProps at hdp
    rw [bind_ok_iff] at hdp
    obtain ⟨⟨N', k'⟩, r1', hd', hloop⟩ := hdp
    have hd'' := (decodeVarInt_ok_iff _ _ _ _).mp hd'
    rw [hd] at hd''
    simp only [Option.some.injEq, Prod.mk.injEq] at hd''
    obtain ⟨rfl, rfl, rfl⟩ := hd''
    simp only [] at hloop
    have hpos : 0 < r2.length := List.length_pos_iff.mpr hne
    simp only [List.length_append] at hlen
    have hlen2 : h.remainingLen - (2 + k + N) = r2.length := by omega
    refine ⟨⟨be16 a c⟩, r, ⟨a, c, rfl, hz, rfl⟩, (N, k), _, hd', (ps, N), r2,
      (unsubPropsLoop_ok_iff _ _ _ _ _ _ _ _ _).mpr ⟨hloop, rfl⟩, _, r2, ⟨by omega, rfl, rfl⟩, ?_⟩
    simp only []
    have h0 : ¬ h.remainingLen - (2 + k + N) = 0 := by omega
    rw [if_neg h0]
    simp only [bind_ok_iff, pure_ok_iff]
    refine ⟨fs.map Spec.topicFilterOf, [], ?_, rfl, rfl⟩
    rw [hlen2]
    exact (unsubscribeLoop5_iff debug _ _ _ _ _ (Nat.le_refl _)).mpr ⟨rfl, fs, hp, hall, by simp⟩

theorem unsubRows_all (fs : List Bytes) (g : List Spec.Scalar → Bool) (g' : Bytes → Bool)
    (hg : ∀ y, g (V3.unsubRow y) = g' y) :
    (fs.map V3.unsubRow).all g = fs.all g' := by
  induction fs with
  | nil => rfl
  | cons y ys ih => simp only [List.map_cons, List.all_cons, hg, ih]

theorem unsubscribeSpec (m : Bool) (flags : UInt8) (b : Bytes) (sp : Spec.PacketV5) :
    specBody5 m .unsubscribe flags b = some sp ↔
      ∃ x, UnsubscribeShape (SpecR m (some .unsubscribe)) b x ∧ sp = ⟨.unsubscribe x, []⟩ := by
  rw [specBody5_eq_some_iff]
  simp only [fieldsOf5_eq m .unsubscribe flags b (by simp), Spec.layoutV5, parseBody_iff]
  unfold UnsubscribeShape
  match b with
  | [] => simp [V3.parseItems_val, V3.parseWire_u16_nil]
  | [a] => simp [V3.parseItems_val, V3.parseWire_u16_one]
  | a :: c :: r =>
    simp only [V3.parseItems_val, V3.parseWire_u16, Option.bind_some, List.map_cons, List.map_nil,
      List.cons_append, List.nil_append, parseItems_props, parseItems_many, V3.parseItems_nil,
      V3.parseRows_unsub, Option.bind_eq_some_iff, Option.some.injEq, Prod.mk.injEq,
      Option.map_eq_some_iff]
    constructor
    · rintro ⟨fs, ⟨a1, ⟨⟨raw, r2⟩, hpp, a2, ⟨rows, ⟨fl, hp, rfl⟩, rfl⟩, rfl⟩, rfl, -⟩, hv, hpj⟩
      simp only [] at hp hv hpj
      simp only [Spec.validV5, List.all_cons, List.all_nil, textOk_u16, Bool.and_true,
        Bool.true_and, pidOk_u16, Bool.and_eq_true, decide_eq_true_eq, Bool.not_eq_true',
        List.isEmpty_eq_false_iff] at hv
      obtain ⟨⟨htx, hrtx⟩, ⟨⟨hz, hpo⟩, hne⟩, hall⟩ := hv
      obtain ⟨hok, hnr⟩ := (specR_valid (some .unsubscribe) (by simp) raw).mp ⟨hpo, htx⟩
      rw [unsubRows_all fl _ (fun y => Spec.isTopicFilter y) (fun y => rfl)] at hall
      simp only [List.all_eq_true] at hall
      have hne2 : r2 ≠ [] := by
        intro he; subst he
        rw [unsubPairs_nil] at hp
        cases hp
        exact hne rfl
      simp only [Spec.projectV5, Option.some.injEq] at hpj
      subst hpj
      refine ⟨_, ⟨a, c, r, _, r2, fl, rfl, hz, ⟨raw, hpp, hok, hnr, rfl⟩, hne2, hp, hall, rfl⟩, ?_⟩
      have hfm : ∀ (g : List Spec.Scalar → Option Topic.TopicFilter),
          (∀ x, g (V3.unsubRow x) = some (Spec.topicFilterOf x)) →
          List.filterMap (g ∘ V3.unsubRow) fl = fl.map Spec.topicFilterOf :=
        fun g hg => V3.filterMap_comp_some g V3.unsubRow _ hg fl
      rw [List.filterMap_map, hfm _ (fun x => rfl)]
      rfl
    · rintro ⟨x, ⟨a', c', r', ps, r2, fl, hb, hz, ⟨raw, hpp, hok, hnr, rfl⟩, hne, hp, hall, rfl⟩, rfl⟩
      simp only [List.cons.injEq] at hb
      obtain ⟨rfl, rfl, rfl⟩ := hb
      obtain ⟨hpo, htx⟩ := (specR_valid (some .unsubscribe) (by simp) raw).mpr ⟨hok, hnr⟩
      refine ⟨_, ⟨_, ⟨(raw, r2), hpp, _, ⟨_, ⟨fl, hp, rfl⟩, rfl⟩, rfl⟩, rfl, rfl⟩, ?_, ?_⟩
      · simp only [Spec.validV5, List.all_cons, List.all_nil, textOk_u16, Bool.and_true,
          Bool.true_and, pidOk_u16, Bool.and_eq_true, decide_eq_true_eq, Bool.not_eq_true',
          List.isEmpty_eq_false_iff]
        have hpne : fl ≠ [] := V3.unsubPairs_ne_nil hp hne
        refine ⟨⟨htx, ?_⟩, ⟨⟨hz, hpo⟩, by simpa using hpne⟩, ?_⟩
        · simp only [Spec.Field.textOk]
          rw [unsubRows_all fl _ (fun y => Spec.isText y) (fun y => by
            simp [V3.unsubRow, Spec.Scalar.textOk])]
          simp only [List.all_eq_true]
          intro y hy
          rw [V3.isText_eq_valid]
          exact V3.isTopicFilter_valid (hall y hy)
        · rw [unsubRows_all fl _ (fun y => Spec.isTopicFilter y) (fun y => rfl)]
          simp only [List.all_eq_true]
          exact hall
      · simp only [Spec.projectV5, Option.some.injEq]
        have hfm : ∀ (g : List Spec.Scalar → Option Topic.TopicFilter),
            (∀ x, g (V3.unsubRow x) = some (Spec.topicFilterOf x)) →
            List.filterMap (g ∘ V3.unsubRow) fl = fl.map Spec.topicFilterOf :=
          fun g hg => V3.filterMap_comp_some g V3.unsubRow _ hg fl
        rw [List.filterMap_map, hfm _ (fun x => rfl)]
        rfl

end Mqtt.V5
