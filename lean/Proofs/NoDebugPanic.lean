import Properties.C16
import Properties.C03V3

namespace Mqtt

/-- The `debug_assert!` inside `TopicFilter::is_invalid` is unreachable in either profile
(C16), which discharges the `hdbg` hypothesis of the safety theorems. -/
theorem noDebugPanic (debug : Bool) : C03.V3.NoDebugPanic debug := by
  intro cs site
  cases debug
  · rw [← C16.profile_independent]; exact C16.debug_assert_unreachable cs site
  · exact C16.debug_assert_unreachable cs site

end Mqtt
