/-
  Basic bridges between the model of the v5 codec and the independent specification
  decoder (C04, v5): inversion of the reader monad over any error type, fixed-header
  agreement over the 256-row table, the frame splitter, reason-code tables.
-/
import Spec.DecodeV5
import Proofs.V3Spec
import Proofs.V3Accept
import Proofs.V5Compose
import Proofs.V5RoundTrip

set_option linter.unusedSimpArgs false

namespace Mqtt.V5
open Mqtt

/-! ## inversion of the reader monad -/

theorem bind_ok_iff {ε α β : Type} (p : Parser ε α) (f : α → Parser ε β) (bs : Bytes)
    (b : β) (t : Bytes) :
    (p >>= f) bs = .ok b t ↔ ∃ a r, p bs = .ok a r ∧ f a r = .ok b t := by
  rw [Parser.bind_apply]
  cases p bs with
  | ok a r =>
    simp only [Res.bind_ok, Res.ok.injEq]
    constructor
    · intro h; exact ⟨a, r, ⟨rfl, rfl⟩, h⟩
    · rintro ⟨a', r', ⟨rfl, rfl⟩, h⟩; exact h
  | _ => simp

theorem pbind_ok_iff {ε α β : Type} (p : Parser ε α) (f : α → Parser ε β) (bs : Bytes)
    (b : β) (t : Bytes) :
    Parser.bind p f bs = .ok b t ↔ ∃ a r, p bs = .ok a r ∧ f a r = .ok b t :=
  bind_ok_iff p f bs b t

theorem pure_ok_iff {ε α : Type} (a b : α) (bs t : Bytes) :
    (pure a : Parser ε α) bs = .ok b t ↔ a = b ∧ bs = t := by
  simp

theorem ppure_ok_iff {ε α : Type} (a b : α) (bs t : Bytes) :
    (Parser.pure a : Parser ε α) bs = .ok b t ↔ a = b ∧ bs = t := by
  simp [Parser.pure]

theorem fail_ok_iff {ε α : Type} (e : ε) (b : α) (bs t : Bytes) :
    (Parser.fail e : Parser ε α) bs = .ok b t ↔ False := by
  simp

theorem panic_ok_iff {ε α : Type} (s : String) (b : α) (bs t : Bytes) :
    (Parser.panic s : Parser ε α) bs = .ok b t ↔ False := by
  simp [Parser.panic]

theorem liftC_ok_iff {α : Type} (p : Parser Error α) (bs : Bytes) (a : α) (r : Bytes) :
    liftC p bs = .ok a r ↔ p bs = .ok a r := by
  rw [liftC_apply]
  cases p bs <;> simp [Res.mapErr]

theorem liftExcept_ok_iff {ε α : Type} (x : Except ε α) (bs : Bytes) (a : α) (t : Bytes) :
    liftExcept x bs = .ok a t ↔ x = .ok a ∧ bs = t := by
  cases x with
  | ok b => simp
  | error e => simp [liftExcept]

theorem checkedSub_ok_iff {ε : Type} (x y : Nat) (e : ε) (bs : Bytes) (z : Nat) (t : Bytes) :
    checkedSub x y e bs = .ok z t ↔ y ≤ x ∧ z = x - y ∧ bs = t := by
  rw [V3.checkedSub_apply]
  by_cases h : y ≤ x
  · simp only [h, if_true, Res.ok.injEq, true_and]
    constructor
    · rintro ⟨rfl, rfl⟩; exact ⟨rfl, rfl⟩
    · rintro ⟨rfl, rfl⟩; exact ⟨rfl, rfl⟩
  · simp [h]

theorem take_ok_iff {ε : Type} (n : Nat) (bs d r : Bytes) :
    take (ε := ε) n bs = .ok d r ↔ n ≤ bs.length ∧ d = bs.take n ∧ r = bs.drop n := by
  unfold take
  by_cases h : n ≤ bs.length
  · simp only [h, if_true, Res.ok.injEq, true_and]
    constructor
    · rintro ⟨rfl, rfl⟩; exact ⟨rfl, rfl⟩
    · rintro ⟨rfl, rfl⟩; exact ⟨rfl, rfl⟩
  · simp [h]

theorem readU8_ok_iff (bs : Bytes) (a : UInt8) (r : Bytes) :
    liftC readU8 bs = .ok a r ↔ bs = a :: r := by
  rw [liftC_ok_iff, V3.readU8_ok_iff]

theorem readU16_ok_iff (bs : Bytes) (v : UInt16) (r : Bytes) :
    liftC readU16 bs = .ok v r ↔ ∃ a c, bs = a :: c :: r ∧ v = be16 a c := by
  rw [liftC_ok_iff, V3.readU16_ok_iff]

theorem readU32_ok_iff (bs : Bytes) (v : UInt32) (r : Bytes) :
    liftC readU32 bs = .ok v r ↔ ∃ a b c d, bs = a :: b :: c :: d :: r ∧ v = be32 a b c d := by
  rw [liftC_ok_iff]
  match bs with
  | [] => simp [readU32]
  | [_] => simp [readU32]
  | [_, _] => simp [readU32]
  | [_, _, _] => simp [readU32]
  | x :: y :: z :: w :: xs =>
    simp only [readU32, Res.ok.injEq, List.cons.injEq]
    constructor
    · rintro ⟨rfl, rfl⟩; exact ⟨x, y, z, w, ⟨rfl, rfl, rfl, rfl, rfl⟩, rfl⟩
    · rintro ⟨a, b, c, d, ⟨rfl, rfl, rfl, rfl, rfl⟩, rfl⟩; exact ⟨rfl, rfl⟩

theorem readString_ok_iff (bs s r : Bytes) :
    liftC readString bs = .ok s r ↔ Spec.lenPrefixed bs = some (s, r) ∧ Utf8.valid s = true := by
  rw [liftC_ok_iff, V3.readString_ok_iff]

theorem readBytes_ok_iff (bs s r : Bytes) :
    liftC readBytes bs = .ok s r ↔ Spec.lenPrefixed bs = some (s, r) := by
  rw [liftC_ok_iff, V3.readBytes_ok_iff]

theorem readPid_ok_iff (bs : Bytes) (pid : Pid) (r : Bytes) :
    liftC readPid bs = .ok pid r ↔ ∃ a c, bs = a :: c :: r ∧ be16 a c ≠ 0 ∧ pid = ⟨be16 a c⟩ := by
  rw [liftC_ok_iff]
  match bs with
  | [] => simp [V3.readPid_nil]
  | [a] => simp [V3.readPid_one]
  | a :: c :: r' =>
    rw [V3.readPid_cons2]
    by_cases hz : be16 a c = 0
    · simp only [hz, if_true, reduceCtorEq, false_iff]
      rintro ⟨a', c', h, hne, -⟩
      simp only [List.cons.injEq] at h
      obtain ⟨rfl, rfl, rfl⟩ := h
      exact hne hz
    · simp only [hz, if_false, Res.ok.injEq, List.cons.injEq]
      constructor
      · rintro ⟨rfl, rfl⟩; exact ⟨a, c, ⟨rfl, rfl, rfl⟩, hz, rfl⟩
      · rintro ⟨a', c', ⟨rfl, rfl, rfl⟩, _, rfl⟩; exact ⟨rfl, rfl⟩

theorem decodeVarInt_ok_iff (bs : Bytes) (v k : Nat) (r : Bytes) :
    liftC decodeVarInt bs = .ok (v, k) r ↔ Spec.varintDigits 4 bs = some (v, k, r) := by
  rw [liftC_ok_iff]
  exact V3.decodeVarInt_iff_digits _ bs v k r

theorem topicNameTryFrom_ok_iff (s x : Bytes) :
    (topicNameTryFrom s).mapError ErrorV5.common = .ok x ↔ Spec.isTopicName s = true ∧ s = x := by
  rw [V3.topicNameTryFrom_eq]
  by_cases h : Spec.isTopicName s = true
  · simp [h, Except.mapError]
  · simp [h, Except.mapError]

/-! ## fixed header, first byte -/

/-- The specification's reading of byte 1: type (of MQTT 5.0) and flag nibble, flags as required. -/
def specHdr5 (cb : UInt8) : Option (Spec.PType × UInt8) :=
  (Spec.ptypeOfNibble true (UInt8.ofNat (Spec.bits cb 4 4))).bind fun (t, required) =>
    if required.all (· == UInt8.ofNat (Spec.bits cb 0 4)) then
      some (t, UInt8.ofNat (Spec.bits cb 0 4)) else none

/-- Row `n` of the generated header table against the specification's tables. -/
def hdrAgree5 (n : Nat) : Bool :=
  match Gen.headerV5.getD n (.error .invalidHeader), specHdr5 (UInt8.ofNat n) with
  | .ok r, some (t, flags) =>
    r.typ == V3.ptypeNum t &&
      (t != .publish || (Spec.pubFlagsOk flags && r.dup == Spec.pubDup flags &&
        r.qos.toNat == Spec.pubQos flags && r.retain == Spec.pubRetain flags))
  | .error _, some (t, flags) => t == .publish && !Spec.pubFlagsOk flags
  | .error _, none => true
  | .ok _, none => false

set_option maxRecDepth 100000 in
theorem hdrAgree5_all : (List.range 256).all hdrAgree5 = true := by decide

theorem hdrAgree5_byte (cb : UInt8) : hdrAgree5 cb.toNat = true :=
  List.all_eq_true.mp hdrAgree5_all cb.toNat (List.mem_range.mpr cb.toNat_lt)

/-- What relates a model header to the specification's type and flags. -/
def HdrRel5 (h : Header) (n : Nat) (t : Spec.PType) (flags : UInt8) : Prop :=
  (t = .publish → Spec.pubFlagsOk flags = true) ∧
    h.typ = V3.ptypeNum t ∧ h.remainingLen = n ∧
    (t = .publish → h.dup = Spec.pubDup flags ∧ h.qos.toNat = Spec.pubQos flags ∧
      h.retain = Spec.pubRetain flags)

theorem newWith_ok_spec5 {cb : UInt8} {n : Nat} {h : Header} (hh : Header.newWith cb n = .ok h) :
    ∃ t flags, specHdr5 cb = some (t, flags) ∧ HdrRel5 h n t flags := by
  have ha := hdrAgree5_byte cb
  unfold hdrAgree5 at ha
  have e : UInt8.ofNat cb.toNat = cb := by simp
  rw [e] at ha
  unfold Header.newWith at hh
  cases hrow : Gen.headerV5.getD cb.toNat (.error .invalidHeader) with
  | error er => rw [hrow] at hh; cases hh
  | ok r =>
    rw [hrow] at ha hh
    simp only [] at hh
    cases hs : specHdr5 cb with
    | none => rw [hs] at ha; simp at ha
    | some x =>
      obtain ⟨t, flags⟩ := x
      rw [hs] at ha
      simp only [Bool.and_eq_true, beq_iff_eq, Bool.or_eq_true, bne_iff_ne, ne_eq] at ha
      obtain ⟨h1, h3⟩ := ha
      cases hh
      refine ⟨t, flags, rfl, ?_, h1, rfl, ?_⟩
      · intro ht; rcases h3 with h3 | h3
        · exact absurd ht h3
        · exact h3.1.1.1
      · intro ht; rcases h3 with h3 | h3
        · exact absurd ht h3
        · exact ⟨h3.1.1.2, h3.1.2, h3.2⟩

theorem spec_ok_newWith5 {cb : UInt8} {t : Spec.PType} {flags : UInt8} (n : Nat)
    (hs : specHdr5 cb = some (t, flags)) (hp : t = .publish → Spec.pubFlagsOk flags = true) :
    ∃ h, Header.newWith cb n = .ok h ∧ HdrRel5 h n t flags := by
  have ha := hdrAgree5_byte cb
  unfold hdrAgree5 at ha
  have e : UInt8.ofNat cb.toNat = cb := by simp
  rw [e, hs] at ha
  cases hrow : Header.newWith cb n with
  | ok h =>
    obtain ⟨t', flags', hs', hrel⟩ := newWith_ok_spec5 hrow
    rw [hs] at hs'
    cases hs'
    exact ⟨h, rfl, hrel⟩
  | error er =>
    exfalso
    unfold Header.newWith at hrow
    cases hrow' : Gen.headerV5.getD cb.toNat (.error .invalidHeader) with
    | ok r => rw [hrow'] at hrow; cases hrow
    | error er' =>
      rw [hrow'] at ha
      simp only [Bool.and_eq_true, beq_iff_eq, Bool.not_eq_true'] at ha
      rw [hp ha.1] at ha
      exact absurd ha.2 (by simp)

theorem newWith_remainingLen5 {cb : UInt8} {n : Nat} {h : Header} (hh : Header.newWith cb n = .ok h) :
    h.remainingLen = n := by
  obtain ⟨t, flags, -, hrel⟩ := newWith_ok_spec5 hh
  exact hrel.2.2.1

/-! ## the specification's frame splitter -/

theorem splitFrame5_cons_iff (m : Bool) (cb : UInt8) (rest : Bytes) (fr : Spec.Frame) :
    Spec.splitFrame m true (cb :: rest) = some fr ↔
      ∃ t flags v k rest', specHdr5 cb = some (t, flags) ∧
        Spec.varintDigits 4 rest = some (v, k, rest') ∧ (m = true → k = Spec.varIntSize v) ∧
        v ≤ rest'.length ∧ fr = ⟨t, flags, rest'.take v, 1 + k + v⟩ := by
  cases hp : Spec.ptypeOfNibble true (UInt8.ofNat (Spec.bits cb 4 4)) with
  | none => simp [Spec.splitFrame, specHdr5, hp]
  | some x =>
    obtain ⟨t, req⟩ := x
    by_cases hreq : Option.all (fun x => x == UInt8.ofNat (Spec.bits cb 0 4)) req = true
    · have hs : specHdr5 cb = some (t, UInt8.ofNat (Spec.bits cb 0 4)) := by
        simp [specHdr5, hp, hreq]
      rw [hs]
      cases hd : Spec.varintDigits 4 rest with
      | none => simp [Spec.splitFrame, hp, hreq, Spec.varintN, hd, V3.optGuard]
      | some y =>
        obtain ⟨v, k, rest'⟩ := y
        by_cases hmin : m = false ∨ k = Spec.varIntSize v
        · have hmin' : m = true → k = Spec.varIntSize v := by
            intro hm; rcases hmin with h | h
            · rw [hm] at h; cases h
            · exact h
          by_cases hle : v ≤ rest'.length
          · simp only [Spec.splitFrame, hp, hreq, Spec.varintN, hd, hmin, hle, V3.optGuard, Option.bind_eq_bind,
              Option.bind_some, if_true, Bool.not_eq_true', Bool.or_eq_true, decide_eq_true_eq,
              Option.some.injEq, Prod.mk.injEq]
            constructor
            · intro h; exact ⟨t, _, v, k, rest', ⟨rfl, rfl⟩, ⟨rfl, rfl, rfl⟩, hmin', hle, h.symm⟩
            · rintro ⟨t', flags', v', k', rest'', ⟨rfl, rfl⟩, ⟨rfl, rfl, rfl⟩, -, -, rfl⟩; rfl
          · simp only [Spec.splitFrame, hp, hreq, Spec.varintN, hd, hmin, hle, V3.optGuard, Option.bind_eq_bind,
              Option.bind_some, if_true, if_false, Option.bind_none, Bool.not_eq_true', Bool.or_eq_true, decide_eq_true_eq,
              Option.some.injEq, Prod.mk.injEq]
            constructor
            · intro h; cases h
            · rintro ⟨t', flags', v', k', rest'', -, ⟨rfl, rfl, rfl⟩, -, h, -⟩; exact absurd h hle
        · simp only [Spec.splitFrame, hp, hreq, Spec.varintN, hd, hmin, V3.optGuard, Option.bind_eq_bind,
              Option.bind_some, if_true, if_false, Option.bind_none, Bool.not_eq_true', Bool.or_eq_true, decide_eq_true_eq,
              Option.some.injEq, Prod.mk.injEq]
          constructor
          · intro h; cases h
          · rintro ⟨t', flags', v', k', rest'', -, ⟨rfl, rfl, rfl⟩, h, -, -⟩
            exfalso; apply hmin
            cases m with
            | false => exact .inl rfl
            | true => exact .inr (h rfl)
    · have hs : specHdr5 cb = none := by simp [specHdr5, hp, hreq]
      simp [Spec.splitFrame, hp, hreq, hs, V3.optGuard]

/-! ## reason codes -/

/-- The reason-code enum of the code for each packet type of the specification. -/
def reasonAgree (k : Gen.CodeKind) (t : Spec.PType) (c : UInt8) : Bool :=
  codeOfByte k c == if Spec.reasonCodeOk t c then some c else none

set_option maxRecDepth 100000 in
theorem reason_connack (c : UInt8) : reasonAgree .connectReason .connack c = true :=
  V3.forall_uint8 _ (by decide) c
set_option maxRecDepth 100000 in
theorem reason_puback (c : UInt8) : reasonAgree .pubackReason .puback c = true :=
  V3.forall_uint8 _ (by decide) c
set_option maxRecDepth 100000 in
theorem reason_pubrec (c : UInt8) : reasonAgree .pubrecReason .pubrec c = true :=
  V3.forall_uint8 _ (by decide) c
set_option maxRecDepth 100000 in
theorem reason_pubrel (c : UInt8) : reasonAgree .pubrelReason .pubrel c = true :=
  V3.forall_uint8 _ (by decide) c
set_option maxRecDepth 100000 in
theorem reason_pubcomp (c : UInt8) : reasonAgree .pubcompReason .pubcomp c = true :=
  V3.forall_uint8 _ (by decide) c
set_option maxRecDepth 100000 in
theorem reason_suback (c : UInt8) : reasonAgree .subscribeReason .suback c = true :=
  V3.forall_uint8 _ (by decide) c
set_option maxRecDepth 100000 in
theorem reason_unsuback (c : UInt8) : reasonAgree .unsubscribeReason .unsuback c = true :=
  V3.forall_uint8 _ (by decide) c
set_option maxRecDepth 100000 in
theorem reason_disconnect (c : UInt8) : reasonAgree .disconnectReason .disconnect c = true :=
  V3.forall_uint8 _ (by decide) c
set_option maxRecDepth 100000 in
theorem reason_auth (c : UInt8) : reasonAgree .authReason .auth c = true :=
  V3.forall_uint8 _ (by decide) c

/-- The pairs (enum of the code, packet type of the specification) whose tables agree. -/
def ReasonPair (k : Gen.CodeKind) (t : Spec.PType) : Prop := ∀ c, reasonAgree k t c = true

theorem parseReason_ok_iff {k : Gen.CodeKind} {t : Spec.PType} (hp : ReasonPair k t)
    (typ c d : UInt8) (bs r : Bytes) :
    parseReason k typ c bs = .ok d r ↔ Spec.reasonCodeOk t c = true ∧ c = d ∧ bs = r := by
  have := hp c
  simp only [reasonAgree, beq_iff_eq] at this
  unfold parseReason
  rw [this]
  by_cases h : Spec.reasonCodeOk t c = true
  · simp only [h, if_true, pure_ok_iff, true_and]
  · simp [h]

end Mqtt.V5
