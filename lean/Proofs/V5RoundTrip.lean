import Proofs.V5Props
import Proofs.V3RoundTrip
import Mqtt.V5.Poll

namespace Mqtt.V5
-- per-packet-type round trips and length lemmas for v5

/-! ### the property layer, packaged for the packet proofs -/

/-- The bytes `encode_properties!` writes when the section length is `n`. -/
def Props.wire (allowed : List UInt8) (ps : Props) (n : Nat) : Bytes :=
  writeVarInt n ++ allowed.flatMap ps.emit ++ encodeUser ps.user

theorem varIntSize_pos (n : Nat) : 1 ≤ Spec.varIntSize n := by
  unfold Spec.varIntSize
  repeat' split
  all_goals omega

theorem varIntSize_le (n : Nat) : Spec.varIntSize n ≤ 4 := by
  unfold Spec.varIntSize
  repeat' split
  all_goals omega

/-- `encode_len` and `encode` of a property set fail together (same panic site), or both
succeed; when the reported size fits a remaining length it is the number of bytes written. -/
theorem Props.encode_cases (allowed : List UInt8) (ps : Props) :
    (∃ s, ps.encodeLen allowed = .error s ∧ ps.encode allowed = .error s) ∨
    (∃ m n, ps.encodeLen allowed = .ok m ∧ ps.bodyLen allowed = .ok n ∧
      ps.encode allowed = .ok (ps.wire allowed n) ∧ 1 ≤ m ∧ n ≤ m ∧
      (m < 268435456 → n < 268435456 ∧ m = n + Spec.varIntSize n ∧
        (ps.wire allowed n).length = m)) := by
  cases hb : ps.bodyLen allowed with
  | error s =>
    refine .inl ⟨s, ?_, ?_⟩
    · simp only [Props.encodeLen, hb, bind, Except.bind]
    · simp only [Props.encode_eq, hb, Except.map]
  | ok n =>
    have he : ps.encode allowed = .ok (ps.wire allowed n) := by
      simp only [Props.encode_eq, hb, Except.map, Props.wire]
    by_cases hn : n < 268435456
    · have hw := Props.write_what_they_report allowed ps _ n he hb hn
      have := varIntSize_pos n
      exact .inr ⟨_, n, hw.1, rfl, he, by omega, by omega, fun _ => ⟨hn, hw.2, rfl⟩⟩
    · refine .inr ⟨n + 4, n, ?_, rfl, he, by omega, by omega, fun h => by omega⟩
      simp only [Props.encodeLen, hb, varIntLen_closed, hn, if_false, bind, Except.bind, pure,
        Except.pure]

theorem propSize_ok_of_valid (i : UInt8) (v : PropVal) (h : propValValid i v = true) :
    ∃ sz, propSize v = .ok sz := by
  cases v with
  | varint n =>
    unfold propValValid at h
    split at h <;> simp_all [propSize, varIntLen_closed]
  | _ => exact ⟨_, rfl⟩

theorem bodyLen_fold_ok (ps : Props) (allowed : List UInt8)
    (hv : ∀ i ∈ allowed, ∀ v, ps.get i = some v → ∃ sz, propSize v = .ok sz) (init : Nat) :
    ∃ n, allowed.foldlM (fun acc i =>
      match ps.get i with
      | none => (.ok acc : Except String Nat)
      | some v => (propSize v).map (acc + ·)) init = .ok n := by
  induction allowed generalizing init with
  | nil => exact ⟨init, rfl⟩
  | cons i rest ih =>
    rw [List.foldlM_cons]
    have ih' := ih (fun j hj => hv j (by simp [hj]))
    cases hg : ps.get i with
    | none => simpa only [bind, Except.bind] using ih' init
    | some v =>
      obtain ⟨sz, hs⟩ := hv i (by simp) v hg
      simpa only [hs, Except.map, bind, Except.bind] using ih' (init + sz)

theorem Props.encodeLen_ok_of_valid {allowed : List UInt8} {ps : Props}
    (hv : Props.valid allowed ps = true) : ∃ m, ps.encodeLen allowed = .ok m := by
  simp only [Props.valid, Bool.and_eq_true, List.all_eq_true] at hv
  have : ∃ n, ps.bodyLen allowed = .ok n := by
    apply bodyLen_fold_ok
    intro i hi v hg
    have := hv.1 i hi
    simp only [hg] at this
    exact propSize_ok_of_valid i v this
  obtain ⟨n, hn⟩ := this
  rcases Props.encode_cases allowed ps with ⟨s, h1, _⟩ | ⟨m, _, h1, _⟩
  · simp only [Props.encodeLen, hn, bind, Except.bind] at h1
    split at h1 <;> cases h1
  · exact ⟨m, h1⟩

/-- Everything a packet proof needs about a valid property set whose reported size fits. -/
theorem Props.roundtrip_small {allowed : List UInt8} (hgood : GoodList allowed)
    {ps : Props} (hv : Props.valid allowed ps = true) (hwf : Props.wf allowed ps) {m : Nat}
    (h : ps.encodeLen allowed = .ok m) (hm : m < 268435456) :
    ∃ enc, ps.encode allowed = .ok enc ∧ enc.length = m ∧ 1 ≤ m ∧
      ∀ ctx t, decodeProps ctx allowed (enc ++ t) = .ok ps t := by
  rcases Props.encode_cases allowed ps with ⟨s, h1, _⟩ | ⟨m', n, h1, hb, he, hpos, _, hsmall⟩
  · rw [h1] at h; cases h
  · rw [h1] at h; cases h
    obtain ⟨hn, _, hl⟩ := hsmall hm
    refine ⟨_, he, hl, hpos, fun ctx t => ?_⟩
    exact Props.decode_encode ctx allowed hgood ps hv hwf n hb hn t

theorem Props.eq_empty_of_isDefault {allowed : List UInt8} {ps : Props}
    (hd : ps.isDefault allowed = true) (hwf : Props.wf allowed ps) : ps = Props.empty := by
  simp only [Props.isDefault, Bool.and_eq_true, List.all_eq_true, Option.isNone_iff_eq_none,
    List.isEmpty_iff] at hd
  apply Props.ext'
  · intro i
    by_cases hi : i ∈ allowed
    · exact hd.1 i hi
    · exact hwf i hi
  · exact hd.2

theorem Props.isDefault_empty (allowed : List UInt8) : Props.empty.isDefault allowed = true := by
  simp [Props.isDefault, Props.empty]

/-! ### C02: every body writes as many bytes as it reports -/

/-- `encode_len()` / `encode()` of a body: if the former returns `n`, the latter returns bytes,
and `n` of them whenever `n` fits a remaining length. -/
def PartsOk (len : PanicOr Nat) (body : PanicOr Bytes) : Prop :=
  ∀ n, len = .ok n → ∃ b, body = .ok b ∧ (n < 268435456 → b.length = n)

theorem LastWill.partsOk (w : LastWill) : PartsOk w.encodeLen w.encode := by
  intro n hn
  unfold LastWill.encodeLen at hn; unfold LastWill.encode
  rcases Props.encode_cases willProps w.properties with ⟨s, h1, h2⟩ | ⟨m, k, h1, _, h2, _, _, h3⟩
  · simp [h1, bind, Except.bind] at hn
  · simp only [h1, h2, bind, Except.bind, pure, Except.pure, Except.ok.injEq] at hn ⊢
    subst hn
    refine ⟨_, rfl, fun hlt => ?_⟩
    have := (h3 (by omega)).2.2
    simp only [List.length_append, writeBytes_length, this]; omega

theorem Connect.partsOk (c : Connect) : PartsOk c.encodeLen c.encode := by
  intro n hn
  unfold Connect.encodeLen at hn; unfold Connect.encode
  rcases Props.encode_cases connectProps c.properties with ⟨s, h1, h2⟩ | ⟨m, k, h1, _, h2, _, _, h3⟩
  · simp [h1, bind, Except.bind] at hn
  · obtain ⟨proto, cs, ka, props, cid, lw, un, pw⟩ := c
    simp only at h1 h2 hn ⊢
    have hpl := proto.encode_length
    cases lw with
    | none =>
      simp only [h1, h2, bind, Except.bind, pure, Except.pure, Except.ok.injEq] at hn ⊢
      subst hn
      refine ⟨_, rfl, fun hlt => ?_⟩
      have := (h3 (by omega)).2.2
      cases un <;> cases pw <;>
        simp only [List.length_append, writeBytes_length, this, hpl, u16be_length,
          List.length_cons, List.length_nil] <;> omega
    | some w =>
      simp only [h1, h2, bind, Except.bind, pure, Except.pure] at hn ⊢
      cases hw : w.encodeLen with
      | error s => simp [hw] at hn
      | ok mw =>
        obtain ⟨bw, hbw, hlw⟩ := LastWill.partsOk w mw hw
        simp only [hw, hbw, Except.ok.injEq] at hn ⊢
        subst hn
        refine ⟨_, rfl, fun hlt => ?_⟩
        have := (h3 (by omega)).2.2
        have := hlw (by omega)
        cases un <;> cases pw <;>
          simp only [List.length_append, writeBytes_length, *, u16be_length,
            List.length_cons, List.length_nil] <;> omega

theorem Connack.partsOk (c : Connack) : PartsOk c.encodeLen c.encode := by
  intro n hn
  unfold Connack.encodeLen at hn; unfold Connack.encode
  rcases Props.encode_cases connackProps c.properties with ⟨s, h1, h2⟩ | ⟨m, k, h1, _, h2, _, _, h3⟩
  · simp [h1, bind, Except.bind] at hn
  · simp only [h1, h2, bind, Except.bind, pure, Except.pure, Except.ok.injEq] at hn ⊢
    subst hn
    refine ⟨_, rfl, fun hlt => ?_⟩
    have := (h3 (by omega)).2.2
    simp only [List.length_append, List.length_cons, List.length_nil, this] <;> omega

theorem Disconnect.partsOk (d : Disconnect) : PartsOk d.encodeLen d.encode := by
  intro n hn
  unfold Disconnect.encodeLen at hn; unfold Disconnect.encode
  by_cases hd : d.properties.isDefault disconnectProps = true
  · simp only [hd, if_true, pure, Except.pure, Except.ok.injEq] at hn ⊢
    subst hn
    refine ⟨_, rfl, fun _ => ?_⟩
    by_cases hr : d.reasonCode = Gen.defaultCode .disconnectReason <;> simp [hr]
  · rcases Props.encode_cases disconnectProps d.properties with
      ⟨s, h1, h2⟩ | ⟨m, k, h1, _, h2, _, _, h3⟩
    · simp [hd, h1, bind, Except.bind] at hn
    · simp only [hd, h1, h2, bind, Except.bind, pure, Except.pure, Except.ok.injEq,
        Bool.false_eq_true, if_false] at hn ⊢
      subst hn
      refine ⟨_, rfl, fun hlt => ?_⟩
      have := (h3 (by omega)).2.2
      simp only [List.length_cons, this]; omega

theorem Auth.partsOk (a : Auth) : PartsOk a.encodeLen a.encode := by
  intro n hn
  unfold Auth.encodeLen at hn; unfold Auth.encode
  by_cases hc : (a.reasonCode == Gen.defaultCode .authReason && a.properties.isDefault authProps) = true
  · have hc' : (a.reasonCode != Gen.defaultCode .authReason || !(a.properties.isDefault authProps)) = false := by
      simp only [Bool.and_eq_true, beq_iff_eq] at hc
      simp [hc.1, hc.2]
    simp only [hc, hc', if_true, pure, Except.pure, Except.ok.injEq, Bool.false_eq_true, if_false] at hn ⊢
    subst hn
    exact ⟨_, rfl, fun _ => rfl⟩
  · have hc' : (a.reasonCode != Gen.defaultCode .authReason || !(a.properties.isDefault authProps)) = true := by
      simp only [Bool.and_eq_true, beq_iff_eq, not_and, Bool.not_eq_true] at hc
      by_cases hr : a.reasonCode = Gen.defaultCode .authReason
      · simp [hc hr]
      · simp [hr]
    rcases Props.encode_cases authProps a.properties with ⟨s, h1, h2⟩ | ⟨m, k, h1, _, h2, _, _, h3⟩
    · simp [hc, h1, bind, Except.bind] at hn
    · simp only [hc, hc', h1, h2, bind, Except.bind, pure, Except.pure, Except.ok.injEq,
        if_true, Bool.false_eq_true, if_false] at hn ⊢
      subst hn
      refine ⟨_, rfl, fun hlt => ?_⟩
      have := (h3 (by omega)).2.2
      simp only [List.length_cons, this]; omega

theorem Publish.partsOk (p : Publish) : PartsOk p.encodeLen p.encode := by
  intro n hn
  unfold Publish.encodeLen at hn; unfold Publish.encode
  rcases Props.encode_cases publishProps p.properties with ⟨s, h1, h2⟩ | ⟨m, k, h1, _, h2, _, _, h3⟩
  · simp [h1, bind, Except.bind] at hn
  · simp only [h1, h2, bind, Except.bind, pure, Except.pure, Except.ok.injEq] at hn ⊢
    subst hn
    refine ⟨_, rfl, fun hlt => ?_⟩
    have := (h3 (by omega)).2.2
    cases p.qosPid <;>
      simp only [List.length_append, writeBytes_length, pidBytes, u16be_length, List.length_nil,
        this] <;> omega

theorem Ack.partsOk (k : Gen.CodeKind) (a : Ack) : PartsOk (a.encodeLen k) (a.encode k) := by
  intro n hn
  unfold Ack.encodeLen at hn; unfold Ack.encode
  by_cases hd : a.properties.isDefault ackProps = true
  · simp only [hd, if_true, pure, Except.pure, Except.ok.injEq] at hn ⊢
    subst hn
    by_cases hr : a.reasonCode = Gen.defaultCode k
    · exact ⟨u16be a.pid.val, by simp [hr], fun _ => by simp [hr]⟩
    · exact ⟨u16be a.pid.val ++ [a.reasonCode], by simp [hr], fun _ => by simp [hr]⟩
  · rcases Props.encode_cases ackProps a.properties with ⟨s, h1, h2⟩ | ⟨m, k', h1, _, h2, _, _, h3⟩
    · simp [hd, h1, bind, Except.bind] at hn
    · simp only [hd, h1, h2, bind, Except.bind, pure, Except.pure, Except.ok.injEq,
        Bool.false_eq_true, if_false, Bool.not_false, Bool.or_true, if_true] at hn ⊢
      subst hn
      refine ⟨_, rfl, fun hlt => ?_⟩
      have := (h3 (by omega)).2.2
      simp only [List.length_append, u16be_length, List.length_cons, List.length_nil, this] <;> omega

theorem subscribeTopics_length (ts : List (Topic.TopicFilter × SubOpts)) :
    (ts.flatMap (fun (f, o) => writeBytes f.text ++ [o.toU8])).length =
      (ts.map (fun (f, _) => 3 + f.text.length)).sum := by
  induction ts with
  | nil => rfl
  | cons x xs ih =>
    obtain ⟨f, q⟩ := x
    simp only [List.flatMap_cons, List.length_append, List.map_cons, List.sum_cons, ih,
      writeBytes_length, List.length_singleton]
    omega

theorem Subscribe.partsOk (s : Subscribe) : PartsOk s.encodeLen s.encode := by
  intro n hn
  unfold Subscribe.encodeLen at hn; unfold Subscribe.encode
  rcases Props.encode_cases subscribeProps s.properties with ⟨e, h1, h2⟩ | ⟨m, k, h1, _, h2, _, _, h3⟩
  · simp [h1, bind, Except.bind] at hn
  · simp only [h1, h2, bind, Except.bind, pure, Except.pure, Except.ok.injEq] at hn ⊢
    subst hn
    refine ⟨_, rfl, fun hlt => ?_⟩
    have := (h3 (by omega)).2.2
    simp only [List.length_append, u16be_length, subscribeTopics_length, this]

theorem CodesAck.partsOk (s : CodesAck) : PartsOk s.encodeLen s.encode := by
  intro n hn
  unfold CodesAck.encodeLen at hn; unfold CodesAck.encode
  rcases Props.encode_cases ackProps s.properties with ⟨e, h1, h2⟩ | ⟨m, k, h1, _, h2, _, _, h3⟩
  · simp [h1, bind, Except.bind] at hn
  · simp only [h1, h2, bind, Except.bind, pure, Except.pure, Except.ok.injEq] at hn ⊢
    subst hn
    refine ⟨_, rfl, fun hlt => ?_⟩
    have := (h3 (by omega)).2.2
    simp only [List.length_append, u16be_length, this]

theorem Unsubscribe.partsOk (u : Unsubscribe) : PartsOk u.encodeLen u.encode := by
  intro n hn
  unfold Unsubscribe.encodeLen at hn; unfold Unsubscribe.encode
  rcases Props.encode_cases unsubscribeProps u.properties with ⟨e, h1, h2⟩ | ⟨m, k, h1, _, h2, _, _, h3⟩
  · simp [h1, bind, Except.bind] at hn
  · simp only [h1, h2, bind, Except.bind, pure, Except.pure, Except.ok.injEq] at hn ⊢
    subst hn
    refine ⟨_, rfl, fun hlt => ?_⟩
    have := (h3 (by omega)).2.2
    simp only [List.length_append, u16be_length, V3.unsubscribeTopics_length, this]

/-! ### C02: the encoder on arbitrary packets -/

/-- The common tail of `Packet::encode` once the three parts are known. -/
def encodeParts (debug : Bool) (cb : UInt8) (len : PanicOr Nat) (body : PanicOr Bytes) :
    EncRes VarBytes :=
  match len with
  | .error s => .panic s
  | .ok n =>
    match totalLen n with
    | .error e => .err e
    | .ok total =>
      match body with
      | .error s => .panic s
      | .ok b =>
        let buf := cb :: (writeVarInt n ++ b)
        if debug && buf.length != total then .panic "utils.rs:181 debug_assert_eq"
        else .ok (.dynamic buf)

def encodeLenParts (len : PanicOr Nat) : EncRes Nat :=
  match len with
  | .error s => .panic s
  | .ok n =>
    match totalLen n with
    | .error e => .err e
    | .ok t => .ok t

theorem Packet.encode_eq_parts (debug : Bool) (p : Packet) (cb : UInt8) (len : PanicOr Nat)
    (body : PanicOr Bytes) (h : p.parts = some (cb, len, body)) :
    p.encode debug = encodeParts debug cb len body ∧ p.encodeLen = encodeLenParts len := by
  cases p <;> simp only [Packet.parts, Option.some.injEq, Prod.mk.injEq, reduceCtorEq] at h <;>
    (obtain ⟨rfl, rfl, rfl⟩ := h; exact ⟨rfl, rfl⟩)

theorem Packet.parts_partsOk (p : Packet) (cb : UInt8) (len : PanicOr Nat) (body : PanicOr Bytes)
    (h : p.parts = some (cb, len, body)) : PartsOk len body := by
  cases p <;> simp only [Packet.parts, Option.some.injEq, Prod.mk.injEq, reduceCtorEq] at h <;>
    obtain ⟨rfl, rfl, rfl⟩ := h
  · exact Connect.partsOk _
  · exact Connack.partsOk _
  · exact Publish.partsOk _
  · exact Ack.partsOk _ _
  · exact Ack.partsOk _ _
  · exact Ack.partsOk _ _
  · exact Ack.partsOk _ _
  · exact Subscribe.partsOk _
  · exact CodesAck.partsOk _
  · exact Unsubscribe.partsOk _
  · exact CodesAck.partsOk _
  · exact Disconnect.partsOk _
  · exact Auth.partsOk _

theorem encodeParts_total (cb : UInt8) (len : PanicOr Nat) (body : PanicOr Bytes)
    (hp : PartsOk len body) :
    (∃ s, (∀ d, encodeParts d cb len body = .panic s) ∧ encodeLenParts len = .panic s ∧
        len = .error s) ∨
    (∃ vb n b, (∀ d, encodeParts d cb len body = .ok vb) ∧ encodeLenParts len = .ok vb.asRef.length ∧
        vb.asRef = cb :: (writeVarInt n ++ b) ∧ b.length = n ∧ n < 268435456 ∧
        len = .ok n ∧ body = .ok b) ∨
    ((∀ d, encodeParts d cb len body = .err .invalidVarByteInt) ∧
        encodeLenParts len = .err .invalidVarByteInt) := by
  cases len with
  | error s => exact .inl ⟨s, fun _ => rfl, rfl, rfl⟩
  | ok n =>
    by_cases hn : n < 268435456
    · obtain ⟨b, rfl, hl⟩ := hp n rfl
      have hl := hl hn
      have htl : totalLen n = .ok (n + 1 + Spec.varIntSize n) := by rw [totalLen_closed, if_pos hn]
      have hlen : (cb :: (writeVarInt n ++ b)).length = n + 1 + Spec.varIntSize n := by
        simp only [List.length_cons, List.length_append, writeVarInt_length n hn, hl]; omega
      refine .inr (.inl ⟨.dynamic (cb :: (writeVarInt n ++ b)), n, b, fun d => ?_, ?_, rfl, hl, hn,
        rfl, rfl⟩)
      · simp only [encodeParts, htl, hlen, bne_self_eq_false, Bool.and_false, Bool.false_eq_true,
          if_false]
      · simp only [encodeLenParts, htl, VarBytes.asRef, hlen]
    · have htl : totalLen n = .error .invalidVarByteInt := by rw [totalLen_closed, if_neg hn]
      exact .inr (.inr ⟨fun d => by simp only [encodeParts, htl], by simp only [encodeLenParts, htl]⟩)

/-- The encoder, on any packet at all: it panics (in `encode_len`, same site in both entry
points and both build profiles) only through a property-size `expect`; otherwise either it
succeeds, identically in both build profiles, with a well-formed frame of the size
`encode_len` reports; or both it and `encode_len` refuse with `InvalidVarByteInt`. -/
theorem Packet.encode_total (p : Packet) :
    (∃ s, (∀ d, p.encode d = .panic s) ∧ p.encodeLen = .panic s ∧
        ∃ cb body, p.parts = some (cb, .error s, body)) ∨
    (∃ vb cb n body, (∀ d, p.encode d = .ok vb) ∧ p.encodeLen = .ok vb.asRef.length ∧
        vb.asRef = cb :: (writeVarInt n ++ body) ∧ body.length = n ∧ n < 268435456) ∨
    ((∀ d, p.encode d = .err .invalidVarByteInt) ∧ p.encodeLen = .err .invalidVarByteInt) := by
  have fixed0 : ∀ cb : UInt8, (VarBytes.fixed2 cb 0).asRef = cb :: (writeVarInt 0 ++ []) := by
    intro cb; rw [V3.writeVarInt_zero]; rfl
  cases hparts : p.parts with
  | none =>
    cases p <;> simp only [Packet.parts, reduceCtorEq] at hparts
    · exact .inr (.inl ⟨_, _, 0, [], fun _ => rfl, rfl, fixed0 _, rfl, by omega⟩)
    · exact .inr (.inl ⟨_, _, 0, [], fun _ => rfl, rfl, fixed0 _, rfl, by omega⟩)
  | some x =>
    obtain ⟨cb, len, body⟩ := x
    have he := fun d => (Packet.encode_eq_parts d p cb len body hparts).1
    have hl := (Packet.encode_eq_parts true p cb len body hparts).2
    rcases encodeParts_total cb len body (Packet.parts_partsOk p cb len body hparts) with
      ⟨s, h1, h2, h3⟩ | ⟨vb, n, b, h1, h2, h3, h4, h5, _, _⟩ | ⟨h1, h2⟩
    · exact .inl ⟨s, fun d => by rw [he, h1], by rw [hl, h2], cb, body, by rw [h3]⟩
    · exact .inr (.inl ⟨vb, cb, n, b, fun d => by rw [he, h1], by rw [hl, h2], h3, h4, h5⟩)
    · exact .inr (.inr ⟨fun d => by rw [he, h1], by rw [hl, h2]⟩)

/-- The body size of a valid packet is computed without hitting an `expect`. -/
theorem Packet.len_ok_of_valid (p : Packet) (hv : p.valid = true) (cb : UInt8) (len : PanicOr Nat)
    (body : PanicOr Bytes) (h : p.parts = some (cb, len, body)) : ∃ n, len = .ok n := by
  cases p <;> simp only [Packet.parts, Option.some.injEq, Prod.mk.injEq, reduceCtorEq] at h <;>
    obtain ⟨rfl, rfl, rfl⟩ := h <;> simp only [Packet.valid, Bool.and_eq_true] at hv
  case connect c =>
    obtain ⟨⟨⟨⟨⟨_, _⟩, hp⟩, hw⟩, _⟩, _⟩ := hv
    obtain ⟨m, hm⟩ := Props.encodeLen_ok_of_valid hp
    unfold Connect.encodeLen
    cases hlw : c.lastWill with
    | none => simp only [hm, bind, Except.bind, pure, Except.pure]; exact ⟨_, rfl⟩
    | some w =>
      simp only [hlw, LastWill.valid, Bool.and_eq_true] at hw
      obtain ⟨mw, hmw⟩ := Props.encodeLen_ok_of_valid hw.1.2
      simp only [hm, LastWill.encodeLen, hmw, bind, Except.bind, pure, Except.pure]; exact ⟨_, rfl⟩
  case connack c =>
    obtain ⟨m, hm⟩ := Props.encodeLen_ok_of_valid hv.2
    simp only [Connack.encodeLen, hm, bind, Except.bind, pure, Except.pure]; exact ⟨_, rfl⟩
  case publish c =>
    obtain ⟨m, hm⟩ := Props.encodeLen_ok_of_valid hv.1.2
    simp only [Publish.encodeLen, hm, bind, Except.bind, pure, Except.pure]; exact ⟨_, rfl⟩
  case puback c =>
    obtain ⟨m, hm⟩ := Props.encodeLen_ok_of_valid hv.2
    simp only [Ack.encodeLen, hm, bind, Except.bind, pure, Except.pure]; split <;> exact ⟨_, rfl⟩
  case pubrec c =>
    obtain ⟨m, hm⟩ := Props.encodeLen_ok_of_valid hv.2
    simp only [Ack.encodeLen, hm, bind, Except.bind, pure, Except.pure]; split <;> exact ⟨_, rfl⟩
  case pubrel c =>
    obtain ⟨m, hm⟩ := Props.encodeLen_ok_of_valid hv.2
    simp only [Ack.encodeLen, hm, bind, Except.bind, pure, Except.pure]; split <;> exact ⟨_, rfl⟩
  case pubcomp c =>
    obtain ⟨m, hm⟩ := Props.encodeLen_ok_of_valid hv.2
    simp only [Ack.encodeLen, hm, bind, Except.bind, pure, Except.pure]; split <;> exact ⟨_, rfl⟩
  case subscribe c =>
    obtain ⟨m, hm⟩ := Props.encodeLen_ok_of_valid hv.1.1.2
    simp only [Subscribe.encodeLen, hm, bind, Except.bind, pure, Except.pure]; exact ⟨_, rfl⟩
  case suback c =>
    obtain ⟨m, hm⟩ := Props.encodeLen_ok_of_valid hv.1.2
    simp only [CodesAck.encodeLen, hm, bind, Except.bind, pure, Except.pure]; exact ⟨_, rfl⟩
  case unsubscribe c =>
    obtain ⟨m, hm⟩ := Props.encodeLen_ok_of_valid hv.1.1.2
    simp only [Unsubscribe.encodeLen, hm, bind, Except.bind, pure, Except.pure]; exact ⟨_, rfl⟩
  case unsuback c =>
    obtain ⟨m, hm⟩ := Props.encodeLen_ok_of_valid hv.1.2
    simp only [CodesAck.encodeLen, hm, bind, Except.bind, pure, Except.pure]; exact ⟨_, rfl⟩
  case disconnect c =>
    obtain ⟨m, hm⟩ := Props.encodeLen_ok_of_valid hv.2
    simp only [Disconnect.encodeLen, hm, bind, Except.bind, pure, Except.pure]; split <;> exact ⟨_, rfl⟩
  case auth c =>
    obtain ⟨m, hm⟩ := Props.encodeLen_ok_of_valid hv.2
    simp only [Auth.encodeLen, hm, bind, Except.bind, pure, Except.pure]; split <;> exact ⟨_, rfl⟩

/-! ### the fixed header -/

/-- QoS number written in the PUBLISH control byte. -/
def qosNum : QosPid → UInt8
  | .level0 => 0 | .level1 _ => 1 | .level2 _ => 2

theorem Header.newWith_of_row {cb : UInt8} {r : Gen.HeaderRow}
    (h : Gen.headerV5.getD cb.toNat (.error .invalidHeader) = .ok r) (n : Nat) :
    Header.newWith cb n = .ok ⟨r.typ, r.dup, r.qos, r.retain, n⟩ := by
  simp only [Header.newWith, h]

theorem Header.newWith_publish (p : Publish) (n : Nat) :
    Header.newWith p.controlByte n = .ok ⟨3, p.dup, qosNum p.qosPid, p.retain, n⟩ := by
  obtain ⟨dup, retain, qp, topic, payload, props⟩ := p
  cases dup <;> cases retain <;> cases qp <;>
    (refine Header.newWith_of_row (r := ⟨3, _, _, _⟩) ?_ n; simp [Publish.controlByte]; rfl)

theorem Header.decode_frame (cb : UInt8) (n : Nat) (hn : n < 268435456) (rest : Bytes) (h : Header)
    (hh : Header.newWith cb n = .ok h) :
    Header.decode (cb :: (writeVarInt n ++ rest)) = .ok h rest := by
  simp [Header.decode, V3.decodeRawHeader_frame cb n hn, hh]

theorem decodeAsync_frame (debug : Bool) (cb : UInt8) (n : Nat) (hn : n < 268435456) (rest : Bytes)
    (h : Header) (hh : Header.newWith cb n = .ok h) :
    decodeAsync debug (cb :: (writeVarInt n ++ rest)) = decodeBody debug h rest := by
  simp [decodeAsync, Header.decode_frame cb n hn rest h hh]

/-! ### body round trips -/

@[simp] theorem parseReason_valid {k : Gen.CodeKind} {c : UInt8} (h : isVariant k c = true)
    (typ : UInt8) (bs : Bytes) : parseReason k typ c bs = .ok c bs := by
  simp [parseReason, codeOfByte_of_isVariant h]

theorem propsEncodeLenP_ok {allowed : List UInt8} {ps : Props} {m : Nat}
    (h : ps.encodeLen allowed = .ok m) (bs : Bytes) : propsEncodeLenP allowed ps bs = .ok m bs := by
  simp [propsEncodeLenP, h]

theorem Connack.roundtrip (c : Connack) (hr : isVariant .connectReason c.reasonCode = true)
    (hp : Props.valid connackProps c.properties = true) (hwf : Props.wf connackProps c.properties)
    {n : Nat} (hlen : c.encodeLen = .ok n) (hn : n < 268435456) :
    ∃ b, c.encode = .ok b ∧ b.length = n ∧ n ≠ 0 ∧ ∀ h t, Connack.decode h (b ++ t) = .ok c t := by
  obtain ⟨sp, rc, ps⟩ := c
  simp only at hr hp hwf
  unfold Connack.encodeLen at hlen; unfold Connack.encode
  cases hm : ps.encodeLen connackProps with
  | error s => simp [hm, bind, Except.bind] at hlen
  | ok m =>
    simp only [hm, bind, Except.bind, pure, Except.pure, Except.ok.injEq] at hlen
    subst hlen
    have hgood : GoodList connackProps := goodList_of_mem (by simp)
    obtain ⟨enc, he, hl, hpos, hdec⟩ := Props.roundtrip_small hgood hp hwf hm (by omega)
    simp only [he, bind, Except.bind, pure, Except.pure]
    refine ⟨_, rfl, by simp [hl]; omega, by omega, fun h t => ?_⟩
    cases sp <;> simp [Connack.decode, take, b2u8, hr, hdec]

theorem Ack.roundtrip (k : Gen.CodeKind) (a : Ack) (hpid : validPid a.pid = true)
    (hr : isVariant k a.reasonCode = true)
    (hp : Props.valid ackProps a.properties = true) (hwf : Props.wf ackProps a.properties)
    {n : Nat} (hlen : a.encodeLen k = .ok n) (hn : n < 268435456) :
    ∃ b, a.encode k = .ok b ∧ b.length = n ∧ n ≠ 0 ∧
      ∀ typ d q r t, Ack.decode k ⟨typ, d, q, r, n⟩ (b ++ t) = .ok a t := by
  obtain ⟨pid, rc, ps⟩ := a
  simp only at hpid hr hp hwf
  unfold Ack.encodeLen at hlen; unfold Ack.encode
  by_cases hd : ps.isDefault ackProps = true
  · have hps := Props.eq_empty_of_isDefault hd hwf
    subst hps
    simp only [hd, if_true, pure, Except.pure, Except.ok.injEq] at hlen
    by_cases hrc : rc = Gen.defaultCode k
    · subst hrc
      simp only [beq_self_eq_true, if_true] at hlen
      subst hlen
      refine ⟨u16be pid.val, by simp [hd, pure, Except.pure], rfl, by omega, fun typ d q r t => ?_⟩
      simp [Ack.decode, hpid]
    · simp only [beq_iff_eq, hrc, if_false] at hlen
      subst hlen
      refine ⟨u16be pid.val ++ [rc], by simp [hd, hrc, pure, Except.pure], rfl, by omega, fun typ d q r t => ?_⟩
      simp [Ack.decode, hpid, hr]
  · cases hm : ps.encodeLen ackProps with
    | error s => simp [hd, hm, bind, Except.bind] at hlen
    | ok m =>
      simp only [hd, hm, bind, Except.bind, pure, Except.pure, Except.ok.injEq,
        Bool.false_eq_true, if_false] at hlen
      subst hlen
      have hgood : GoodList ackProps := goodList_of_mem (by simp)
      obtain ⟨enc, he, hl, hpos, hdec⟩ := Props.roundtrip_small hgood hp hwf hm (by omega)
      refine ⟨u16be pid.val ++ [rc] ++ enc, by simp [hd, he, bind, Except.bind, pure, Except.pure],
        by simp [hl]; omega, by omega, fun typ d q r t => ?_⟩
      have h2 : ¬ (3 + m = 2) := by omega
      have h3 : m ≠ 0 := by omega
      simp [Ack.decode, hpid, hr, h2, h3, hdec]

theorem Disconnect.roundtrip (a : Disconnect)
    (hr : isVariant .disconnectReason a.reasonCode = true)
    (hp : Props.valid disconnectProps a.properties = true)
    (hwf : Props.wf disconnectProps a.properties)
    {n : Nat} (hlen : a.encodeLen = .ok n) (hn : n < 268435456) :
    ∃ b, a.encode = .ok b ∧ b.length = n ∧
      (n = 0 → a = ⟨Gen.defaultCode .disconnectReason, Props.empty⟩) ∧
      ∀ typ d q r t, Disconnect.decode ⟨typ, d, q, r, n⟩ (b ++ t) = .ok a t := by
  obtain ⟨rc, ps⟩ := a
  simp only at hr hp hwf
  unfold Disconnect.encodeLen at hlen; unfold Disconnect.encode
  by_cases hd : ps.isDefault disconnectProps = true
  · have hps := Props.eq_empty_of_isDefault hd hwf
    subst hps
    simp only [hd, if_true, pure, Except.pure, Except.ok.injEq] at hlen
    by_cases hrc : rc = Gen.defaultCode .disconnectReason
    · subst hrc
      simp only [beq_self_eq_true, if_true] at hlen
      subst hlen
      refine ⟨[], by simp [hd, pure, Except.pure], rfl, fun _ => rfl, fun typ d q r t => ?_⟩
      simp [Disconnect.decode]
    · simp only [beq_iff_eq, hrc, if_false] at hlen
      subst hlen
      refine ⟨[rc], by simp [hd, hrc, pure, Except.pure], rfl, by omega, fun typ d q r t => ?_⟩
      simp [Disconnect.decode, hr]
  · cases hm : ps.encodeLen disconnectProps with
    | error s => simp [hd, hm, bind, Except.bind] at hlen
    | ok m =>
      simp only [hd, hm, bind, Except.bind, pure, Except.pure, Except.ok.injEq,
        Bool.false_eq_true, if_false] at hlen
      subst hlen
      have hgood : GoodList disconnectProps := goodList_of_mem (by simp)
      obtain ⟨enc, he, hl, hpos, hdec⟩ := Props.roundtrip_small hgood hp hwf hm (by omega)
      refine ⟨rc :: enc, by simp [hd, he, bind, Except.bind, pure, Except.pure],
        by simp [hl]; omega, by omega, fun typ d q r t => ?_⟩
      have h3 : m ≠ 0 := by omega
      simp [Disconnect.decode, hr, h3, hdec]

theorem Auth.roundtrip (a : Auth)
    (hr : isVariant .authReason a.reasonCode = true)
    (hp : Props.valid authProps a.properties = true)
    (hwf : Props.wf authProps a.properties)
    {n : Nat} (hlen : a.encodeLen = .ok n) (hn : n < 268435456) :
    ∃ b, a.encode = .ok b ∧ b.length = n ∧
      (n = 0 → a = ⟨Gen.defaultCode .authReason, Props.empty⟩) ∧
      ∀ typ d q r t, Auth.decode ⟨typ, d, q, r, n⟩ (b ++ t) = .ok a t := by
  obtain ⟨rc, ps⟩ := a
  simp only at hr hp hwf
  unfold Auth.encodeLen at hlen; unfold Auth.encode
  by_cases hc : rc = Gen.defaultCode .authReason ∧ ps.isDefault authProps = true
  · obtain ⟨hrc, hd⟩ := hc
    have hps := Props.eq_empty_of_isDefault hd hwf
    subst hps hrc
    simp only [hd, beq_self_eq_true, Bool.and_self, if_true, pure, Except.pure,
      Except.ok.injEq] at hlen
    subst hlen
    refine ⟨[], by simp [hd, pure, Except.pure], rfl, fun _ => rfl, fun typ d q r t => ?_⟩
    simp [Auth.decode]
  · have hc1 : (rc == Gen.defaultCode .authReason && ps.isDefault authProps) = false := by
      simpa using hc
    have hc2 : (rc != Gen.defaultCode .authReason || !(ps.isDefault authProps)) = true := by
      by_cases hrc : rc = Gen.defaultCode .authReason
      · simp [hrc] at hc ⊢; exact hc
      · simp [hrc]
    cases hm : ps.encodeLen authProps with
    | error s => simp [hc1, hm, bind, Except.bind] at hlen
    | ok m =>
      simp only [hc1, hm, bind, Except.bind, pure, Except.pure, Except.ok.injEq,
        Bool.false_eq_true, if_false] at hlen
      subst hlen
      have hgood : GoodList authProps := goodList_of_mem (by simp)
      obtain ⟨enc, he, hl, hpos, hdec⟩ := Props.roundtrip_small hgood hp hwf hm (by omega)
      refine ⟨rc :: enc, by simp only [hc2, if_true, he, bind, Except.bind, pure, Except.pure],
        by simp [hl]; omega, by omega, fun typ d q r t => ?_⟩
      simp [Auth.decode, hr, hdec]

theorem payloadOk_iff {ps : Props} {payload : Bytes} (h : payloadOk ps payload = true) :
    (ps.get 0x01 == some (.byte 1) && !Utf8.valid payload) = false := by
  revert h; unfold payloadOk
  cases (ps.get 0x01 == some (PropVal.byte 1)) <;> cases (Utf8.valid payload) <;> simp

/-- The "rest of the packet is the payload" read, with the payload-format check. -/
theorem readPayload (ps : Props) (payload t : Bytes) (hok : payloadOk ps payload = true) :
    (if payload.length > 0 then (do
        let data ← take payload.length
        if ps.get 0x01 == some (.byte 1) && !Utf8.valid data then
          Parser.fail .invalidPayloadFormat
        else pure data)
      else pure [] : Parser ErrorV5 Bytes) (payload ++ t) = .ok payload t := by
  have hb := payloadOk_iff hok
  by_cases h : payload.length > 0
  · simp only [h, if_true, Parser.bind_apply, take_length_append, Res.bind_ok, hb,
      Bool.false_eq_true, if_false, Parser.pure_apply]
  · have : payload = [] := List.eq_nil_of_length_eq_zero (by omega)
    subst this; simp

theorem Publish.roundtrip (p : Publish) (hn : validTopicName p.topicName = true)
    (hq : QosPid.valid p.qosPid = true) (hp : Props.valid publishProps p.properties = true)
    (hpay : payloadOk p.properties p.payload = true) (hwf : Props.wf publishProps p.properties)
    {n : Nat} (hlen : p.encodeLen = .ok n) (hlt : n < 268435456) :
    ∃ b, p.encode = .ok b ∧ b.length = n ∧ n ≠ 0 ∧
      ∀ typ t, Publish.decode ⟨typ, p.dup, qosNum p.qosPid, p.retain, n⟩ (b ++ t) = .ok p t := by
  obtain ⟨dup, retain, qp, topic, payload, ps⟩ := p
  simp only at hn hq hp hpay hwf
  have htext := validTopicName_text hn
  unfold Publish.encodeLen at hlen; unfold Publish.encode
  cases hm : ps.encodeLen publishProps with
  | error s => simp [hm, bind, Except.bind] at hlen
  | ok m =>
    simp only [hm, bind, Except.bind, pure, Except.pure, Except.ok.injEq] at hlen
    subst hlen
    have hgood : GoodList publishProps := goodList_of_mem (by simp)
    obtain ⟨enc, he, hl, hpos, hdec⟩ := Props.roundtrip_small hgood hp hwf hm (by omega)
    simp only [he, bind, Except.bind, pure, Except.pure]
    have hplen := propsEncodeLenP_ok hm
    have hrp := readPayload ps payload
    cases qp with
    | level0 =>
      refine ⟨_, rfl, by simp [hl, pidBytes]; omega, by omega, fun typ t => ?_⟩
      have e1 : ∀ bs, checkedSub (2 + topic.length + 0 + m + payload.length) (2 + topic.length)
          (ErrorV5.common .invalidRemainingLength) bs = .ok (m + payload.length) bs :=
        fun bs => checkedSub_eq _ (by omega) bs
      simp only [Publish.decode, pidBytes, List.append_assoc, List.nil_append, Parser.bind_apply,
        liftC_apply, readString_writeBytes_valid _ _ htext, Res.mapErr_ok, Res.bind_ok, e1, qosNum,
        if_true, Parser.pure_apply, hdec, hplen, checkedSub_add_left, hrp _ hpay,
        topicNameTryFrom_valid hn, Except.mapError, liftExcept_ok]
    | level1 pid =>
      simp only [QosPid.valid] at hq
      refine ⟨_, rfl, by simp [hl, pidBytes]; omega, by omega, fun typ t => ?_⟩
      have e1 : ∀ bs, checkedSub (2 + topic.length + 2 + m + payload.length) (2 + topic.length)
          (ErrorV5.common .invalidRemainingLength) bs = .ok (2 + (m + payload.length)) bs :=
        fun bs => checkedSub_eq _ (by omega) bs
      have q1 : ¬ ((1 : UInt8) = 0) := by decide
      simp only [Publish.decode, pidBytes, List.append_assoc, Parser.bind_apply,
        liftC_apply, readString_writeBytes_valid _ _ htext, Res.mapErr_ok, Res.bind_ok, e1, qosNum,
        q1, if_false, if_true, Parser.pure_apply, hdec, hplen, checkedSub_add_left, hrp _ hpay,
        readPid_u16be_valid _ _ hq,
        topicNameTryFrom_valid hn, Except.mapError, liftExcept_ok]
    | level2 pid =>
      simp only [QosPid.valid] at hq
      refine ⟨_, rfl, by simp [hl, pidBytes]; omega, by omega, fun typ t => ?_⟩
      have e1 : ∀ bs, checkedSub (2 + topic.length + 2 + m + payload.length) (2 + topic.length)
          (ErrorV5.common .invalidRemainingLength) bs = .ok (2 + (m + payload.length)) bs :=
        fun bs => checkedSub_eq _ (by omega) bs
      have q1 : ¬ ((2 : UInt8) = 0) := by decide
      have q2 : ¬ ((2 : UInt8) = 1) := by decide
      simp only [Publish.decode, pidBytes, List.append_assoc, Parser.bind_apply,
        liftC_apply, readString_writeBytes_valid _ _ htext, Res.mapErr_ok, Res.bind_ok, e1, qosNum,
        q1, q2, if_false, if_true, Parser.pure_apply, hdec, hplen, checkedSub_add_left, hrp _ hpay,
        readPid_u16be_valid _ _ hq,
        topicNameTryFrom_valid hn, Except.mapError, liftExcept_ok]

theorem codesLoop_encode (k : Gen.CodeKind) (typ : UInt8) (codes : List UInt8)
    (hv : ∀ c ∈ codes, isVariant k c = true) (acc : List UInt8) (t : Bytes) :
    codesLoop k typ codes.length acc (codes ++ t) = .ok (acc ++ codes) t := by
  induction codes generalizing acc with
  | nil => simp [codesLoop]
  | cons c cs ih =>
    have hc := codeOfByte_of_isVariant (hv c (by simp))
    simp only [List.length_cons, List.cons_append, codesLoop, liftC_apply, readU8_cons,
      Res.mapErr_ok, hc]
    rw [ih (fun c' h' => hv c' (by simp [h']))]
    simp

theorem CodesAck.roundtrip (k : Gen.CodeKind) (s : CodesAck) (hpid : validPid s.pid = true)
    (hp : Props.valid ackProps s.properties = true) (hwf : Props.wf ackProps s.properties)
    (hall : s.topics.all (isVariant k) = true)
    {n : Nat} (hlen : s.encodeLen = .ok n) (hlt : n < 268435456) :
    ∃ b, s.encode = .ok b ∧ b.length = n ∧ n ≠ 0 ∧
      ∀ typ d q r t, CodesAck.decode k ⟨typ, d, q, r, n⟩ (b ++ t) = .ok s t := by
  obtain ⟨pid, ps, codes⟩ := s
  simp only [List.all_eq_true] at hpid hp hwf hall
  unfold CodesAck.encodeLen at hlen; unfold CodesAck.encode
  cases hm : ps.encodeLen ackProps with
  | error s => simp [hm, bind, Except.bind] at hlen
  | ok m =>
    simp only [hm, bind, Except.bind, pure, Except.pure, Except.ok.injEq] at hlen
    subst hlen
    have hgood : GoodList ackProps := goodList_of_mem (by simp)
    obtain ⟨enc, he, hl, hpos, hdec⟩ := Props.roundtrip_small hgood hp hwf hm (by omega)
    simp only [he, bind, Except.bind, pure, Except.pure]
    refine ⟨_, rfl, by simp [hl]; omega, by omega, fun typ d q r t => ?_⟩
    simp only [CodesAck.decode, List.append_assoc, Parser.bind_apply, liftC_apply,
      readPid_u16be_valid _ _ hpid, Res.mapErr_ok, Res.bind_ok, hdec, propsEncodeLenP_ok hm,
      checkedSub_add_left, codesLoop_encode k typ codes hall [] t, List.nil_append,
      Parser.pure_apply]

/-! #### SUBSCRIBE -/

theorem isVariant_retainHandling {q : UInt8} (h : isVariant .retainHandling q = true) :
    q = 0 ∨ q = 1 ∨ q = 2 := by
  simpa [isVariant, Gen.variants] using h

theorem decodeSubOpts_toU8 (o : SubOpts) (hv : o.valid = true) : decodeSubOpts o.toU8 = .ok o := by
  obtain ⟨q, nl, rap, rh⟩ := o
  simp only [SubOpts.valid, Bool.and_eq_true] at hv
  rcases isVariant_qos hv.1 with rfl | rfl | rfl <;>
    rcases isVariant_retainHandling hv.2 with rfl | rfl | rfl <;>
    cases nl <;> cases rap <;> rfl

theorem subscribeLoop_encode (debug : Bool) (ts : List (Topic.TopicFilter × SubOpts))
    (hv : ∀ x ∈ ts, validTopicFilter x.1 = true ∧ x.2.valid = true)
    (acc : List (Topic.TopicFilter × SubOpts)) (t : Bytes) :
    subscribeLoop debug (ts.map (fun (f, _) => 3 + f.text.length)).sum acc
      (ts.flatMap (fun (f, o) => writeBytes f.text ++ [o.toU8]) ++ t) = .ok (acc ++ ts) t := by
  induction ts generalizing acc with
  | nil => rw [subscribeLoop]; simp
  | cons x xs ih =>
    obtain ⟨f, o⟩ := x
    obtain ⟨hf, ho⟩ := hv (f, o) (by simp)
    have hpos : 3 + f.text.length + (xs.map (fun (f, _) => 3 + f.text.length)).sum > 0 := by omega
    rw [subscribeLoop]
    simp only [List.map_cons, List.sum_cons, hpos, dite_true, List.flatMap_cons, List.append_assoc,
      liftC_apply, readString_writeBytes_valid _ _ (validTopicFilter_text hf), Res.mapErr_ok,
      topicFilterTryFrom_valid hf debug,
      List.cons_append, List.nil_append, readU8_cons, decodeSubOpts_toU8 o ho]
    have hle : 3 + f.text.length ≤ 3 + f.text.length + (xs.map (fun (f, _) => 3 + f.text.length)).sum := by
      omega
    rw [dif_pos hle, Nat.add_sub_cancel_left, ih (fun x hx => hv x (by simp [hx]))]
    simp

theorem Subscribe.roundtrip (debug : Bool) (s : Subscribe) (hpid : validPid s.pid = true)
    (hp : Props.valid subscribeProps s.properties = true)
    (hwf : Props.wf subscribeProps s.properties)
    (hne : s.topics.isEmpty = false)
    (hall : s.topics.all (fun (f, o) => validTopicFilter f && o.valid) = true)
    {n : Nat} (hlen : s.encodeLen = .ok n) (hlt : n < 268435456) :
    ∃ b, s.encode = .ok b ∧ b.length = n ∧ n ≠ 0 ∧
      ∀ typ d q r t, Subscribe.decode debug ⟨typ, d, q, r, n⟩ (b ++ t) = .ok s t := by
  obtain ⟨pid, ps, ts⟩ := s
  simp only [List.all_eq_true, Bool.and_eq_true, Prod.forall] at hpid hp hwf hall hne
  have hv' : ∀ x ∈ ts, validTopicFilter x.1 = true ∧ x.2.valid = true :=
    fun x hx => hall x.1 x.2 hx
  have hsum : (ts.map (fun (f, _) => 3 + f.text.length)).sum ≠ 0 := by
    cases ts with
    | nil => simp at hne
    | cons x xs => simp only [List.map_cons, List.sum_cons]; omega
  unfold Subscribe.encodeLen at hlen; unfold Subscribe.encode
  cases hm : ps.encodeLen subscribeProps with
  | error s => simp [hm, bind, Except.bind] at hlen
  | ok m =>
    simp only [hm, bind, Except.bind, pure, Except.pure, Except.ok.injEq] at hlen
    subst hlen
    have hgood : GoodList subscribeProps := goodList_of_mem (by simp)
    obtain ⟨enc, he, hl, hpos, hdec⟩ := Props.roundtrip_small hgood hp hwf hm (by omega)
    simp only [he, bind, Except.bind, pure, Except.pure]
    refine ⟨_, rfl, by simp only [List.length_append, u16be_length, hl, subscribeTopics_length],
      by omega, fun typ d q r t => ?_⟩
    simp only [Subscribe.decode, List.append_assoc, Parser.bind_apply, liftC_apply,
      readPid_u16be_valid _ _ hpid, Res.mapErr_ok, Res.bind_ok, hdec, propsEncodeLenP_ok hm,
      checkedSub_add_left, hsum, if_false, subscribeLoop_encode debug ts hv' [] t, List.nil_append,
      Parser.pure_apply]

/-! #### UNSUBSCRIBE (its own property loop) -/

theorem unsubPropsLoop_user (typ : UInt8) (N : Nat) (g : UInt8 → Option PropVal) (t : Bytes) :
    ∀ (todo done : List (Bytes × Bytes)) (fuel len : Nat),
      (∀ x ∈ todo, validText x.1 = true ∧ validText x.2 = true) →
      len + userSize todo = N → N + 1 ≤ fuel + len →
      unsubPropsLoop typ N fuel len ⟨g, done⟩ (encodeUser todo ++ t) =
        .ok (⟨g, done ++ todo⟩, N) t := by
  intro todo
  induction todo with
  | nil =>
    intro done fuel len _ hlen hfuel
    obtain ⟨f, rfl⟩ : ∃ f, fuel = f + 1 := ⟨fuel - 1, by simp only [userSize] at hlen; omega⟩
    have hlen' : len = N := by simpa [userSize] using hlen
    subst hlen'
    simp [unsubPropsLoop, encodeUser]
  | cons x xs ih =>
    intro done fuel len hv hlen hfuel
    obtain ⟨n, v⟩ := x
    rw [userSize_cons] at hlen
    obtain ⟨f, rfl⟩ : ∃ f, fuel = f + 1 := ⟨fuel - 1, by omega⟩
    have h1 : N > len := by omega
    obtain ⟨hn, hvv⟩ := hv (n, v) (by simp)
    have hrec := ih (done ++ [(n, v)]) f (len + (1 + 4 + n.length + v.length))
      (fun x hx => hv x (by simp [hx])) (by omega) (by omega)
    simp only [encodeUser, List.flatMap_cons, List.cons_append, List.append_assoc] at hrec ⊢
    rw [unsubPropsLoop]
    simp only [h1, if_true, Parser.bind_apply, liftC_apply, readU8_cons, Res.mapErr_ok, Res.bind_ok,
      codeOfByte_user,
      readString_writeBytes_valid _ _ hn, readString_writeBytes_valid _ _ hvv, Props.pushUser]
    rw [hrec]
    simp

theorem unsubscribeLoop_encode (debug : Bool) (ts : List Topic.TopicFilter)
    (hv : ∀ f ∈ ts, validTopicFilter f = true) (acc : List Topic.TopicFilter) (t : Bytes) :
    unsubscribeLoop debug (ts.map (fun f => 2 + f.text.length)).sum acc
      (ts.flatMap (fun f => writeBytes f.text) ++ t) = .ok (acc ++ ts) t := by
  induction ts generalizing acc with
  | nil => rw [unsubscribeLoop]; simp
  | cons f xs ih =>
    have hf := hv f (by simp)
    have hpos : 2 + f.text.length + (xs.map (fun f => 2 + f.text.length)).sum > 0 := by omega
    rw [unsubscribeLoop]
    simp only [List.map_cons, List.sum_cons, hpos, dite_true, List.flatMap_cons, List.append_assoc,
      liftC_apply, readString_writeBytes_valid _ _ (validTopicFilter_text hf), Res.mapErr_ok,
      topicFilterTryFrom_valid hf debug]
    have hle : 2 + f.text.length ≤ 2 + f.text.length + (xs.map (fun f => 2 + f.text.length)).sum := by
      omega
    rw [dif_pos hle, Nat.add_sub_cancel_left, ih (fun x hx => hv x (by simp [hx]))]
    simp

theorem Unsubscribe.roundtrip (debug : Bool) (u : Unsubscribe) (hpid : validPid u.pid = true)
    (hp : Props.valid unsubscribeProps u.properties = true)
    (hwf : Props.wf unsubscribeProps u.properties)
    (hne : u.topics.isEmpty = false)
    (hall : u.topics.all validTopicFilter = true)
    {n : Nat} (hlen : u.encodeLen = .ok n) (hlt : n < 268435456) :
    ∃ b, u.encode = .ok b ∧ b.length = n ∧ n ≠ 0 ∧
      ∀ typ d q r t, Unsubscribe.decode debug ⟨typ, d, q, r, n⟩ (b ++ t) = .ok u t := by
  obtain ⟨pid, ps, ts⟩ := u
  simp only [List.all_eq_true] at hpid hp hwf hall hne
  have hsum : (ts.map (fun f => 2 + f.text.length)).sum ≠ 0 := by
    cases ts with
    | nil => simp at hne
    | cons x xs => simp only [List.map_cons, List.sum_cons]; omega
  have huser : ∀ x ∈ ps.user, validText x.1 = true ∧ validText x.2 = true := by
    simp only [Props.valid, Bool.and_eq_true, List.all_eq_true] at hp
    intro x hx
    simpa using hp.2 x hx
  have hps : ps = ⟨fun _ => none, ps.user⟩ :=
    Props.ext' (fun i => hwf i (by simp [unsubscribeProps])) rfl
  unfold Unsubscribe.encodeLen at hlen; unfold Unsubscribe.encode
  rcases Props.encode_cases unsubscribeProps ps with ⟨e, h1, _⟩ | ⟨m, k, h1, hb, he, hpos, _, hsmall⟩
  · simp [h1, bind, Except.bind] at hlen
  · simp only [h1, bind, Except.bind, pure, Except.pure, Except.ok.injEq] at hlen
    subst hlen
    obtain ⟨hk, hmk, hwl⟩ := hsmall (by omega)
    have hku : k = userSize ps.user := by
      have := Props.bodyLen_eq hb
      simpa [unsubscribeProps] using this
    simp only [he, bind, Except.bind, pure, Except.pure]
    refine ⟨_, rfl, by simp only [List.length_append, u16be_length, hwl,
      V3.unsubscribeTopics_length], by omega, fun typ d q r t => ?_⟩
    have hloop := unsubPropsLoop_user typ k (fun _ => none)
      (ts.flatMap (fun f => writeBytes f.text) ++ t) ps.user [] (k + 1) 0 huser (by omega) (by omega)
    have e1 : ∀ bs, checkedSub (2 + m + (ts.map (fun f => 2 + f.text.length)).sum)
        (2 + Spec.varIntSize k + k) (ErrorV5.common .invalidRemainingLength) bs =
        .ok ((ts.map (fun f => 2 + f.text.length)).sum) bs :=
      fun bs => checkedSub_eq _ (by omega) bs
    simp only [Unsubscribe.decode, Props.wire, unsubscribeProps, List.flatMap_nil, List.append_nil,
      List.append_assoc, Parser.bind_apply, liftC_apply,
      readPid_u16be_valid _ _ hpid, Res.mapErr_ok, Res.bind_ok, decodeVarInt_write k hk,
      Props.empty, hloop, e1, hsum, if_false, unsubscribeLoop_encode debug ts hall [] t,
      List.nil_append, Parser.pure_apply]
    rw [← hps]

/-! #### CONNECT -/

theorem LastWill.roundtrip (w : LastWill) (hv : w.valid = true)
    (hwf : Props.wf willProps w.properties) {m : Nat} (hlen : w.encodeLen = .ok m)
    (hm : m < 268435456) :
    ∃ b, w.encode = .ok b ∧ b.length = m ∧
      ∀ t, LastWill.decode w.qos w.retain (b ++ t) = .ok w t := by
  obtain ⟨q, r, tn, payload, ps⟩ := w
  simp only [LastWill.valid, Bool.and_eq_true] at hv hwf
  obtain ⟨⟨⟨⟨_, htn⟩, hpl⟩, hp⟩, hpay⟩ := hv
  have htext := validTopicName_text htn
  unfold LastWill.encodeLen at hlen; unfold LastWill.encode
  cases hm' : ps.encodeLen willProps with
  | error s => simp [hm', bind, Except.bind] at hlen
  | ok k =>
    simp only [hm', bind, Except.bind, pure, Except.pure, Except.ok.injEq] at hlen
    subst hlen
    have hgood : GoodList willProps := goodList_of_mem (by simp)
    obtain ⟨enc, he, hl, hpos, hdec⟩ := Props.roundtrip_small hgood hp hwf hm' (by omega)
    simp only [he, bind, Except.bind, pure, Except.pure]
    refine ⟨_, rfl, by simp [hl]; omega, fun t => ?_⟩
    simp only [LastWill.decode, List.append_assoc, Parser.bind_apply, hdec, Res.bind_ok,
      liftC_apply, readString_writeBytes_valid _ _ htext, Res.mapErr_ok,
      topicNameTryFrom_valid htn, Except.mapError, liftExcept_ok,
      readBytes_writeBytes_valid _ _ hpl, payloadOk_iff hpay, Bool.false_eq_true, if_false,
      Parser.pure_apply]

/-- What the decoder's tests on the CONNECT flags byte see. -/
theorem Connect.flags_facts (c : Connect)
    (hq : ∀ w, c.lastWill = some w → isVariant .qos w.qos = true) :
    (c.flags &&& 1 != 0) = false ∧
    (c.flags &&& 0b100 != 0) = c.lastWill.isSome ∧
    (c.flags &&& 0b10000000 != 0) = c.username.isSome ∧
    (c.flags &&& 0b01000000 != 0) = c.password.isSome ∧
    (c.flags &&& 0b10 != 0) = c.cleanStart ∧
    (∀ w, c.lastWill = some w →
      (c.flags &&& 0b11000) >>> 3 = w.qos ∧ (c.flags &&& 0b00100000 != 0) = w.retain) ∧
    (c.lastWill = none → (c.flags &&& 0b11000 != 0) = false) := by
  obtain ⟨proto, cs, ka, props, cid, lw, un, pw⟩ := c
  cases lw with
  | none =>
    cases cs <;> cases un <;> cases pw <;> (simp [Connect.flags]; try decide)
  | some w =>
    obtain ⟨q, r, tn, m, wp⟩ := w
    have hq' := isVariant_qos (hq _ rfl)
    simp only at hq'
    rcases hq' with rfl | rfl | rfl <;>
    cases cs <;> cases un <;> cases pw <;> cases r <;> (simp [Connect.flags]; try decide)

theorem Connect.roundtrip (c : Connect) (hv : (Packet.connect c).valid = true)
    (hwf : (Packet.connect c).wf) {n : Nat} (hlen : c.encodeLen = .ok n) (hlt : n < 268435456) :
    ∃ b, c.encode = .ok b ∧ b.length = n ∧ n ≠ 0 ∧ ∀ h t, Connect.decode h (b ++ t) = .ok c t := by
  have hq : ∀ w, c.lastWill = some w → isVariant .qos w.qos = true := by
    intro w hw
    simp only [Packet.valid, hw, LastWill.valid, Bool.and_eq_true] at hv
    exact hv.1.1.2.1.1.1.1
  obtain ⟨f0, fw, fu, fp, fc, fq, fn⟩ := Connect.flags_facts c hq
  obtain ⟨proto, cs, ka, ps, cid, lw, un, pw⟩ := c
  simp only [Packet.valid, Packet.wf, Bool.and_eq_true, beq_iff_eq] at hv hwf
  obtain ⟨⟨⟨⟨⟨hproto, hcid⟩, hp⟩, hlw⟩, hun⟩, hpw⟩ := hv
  obtain ⟨hwf1, hwf2⟩ := hwf
  subst hproto
  unfold Connect.encodeLen at hlen; unfold Connect.encode
  have hgood : GoodList connectProps := goodList_of_mem (by simp)
  have hne : (Protocol.v500 != Protocol.v500) = false := by decide
  cases hm : ps.encodeLen connectProps with
  | error s => simp [hm, bind, Except.bind] at hlen
  | ok m =>
    cases lw with
    | none =>
      simp only [hm, bind, Except.bind, pure, Except.pure, Except.ok.injEq] at hlen
      subst hlen
      have hml : m < 268435456 := by omega
      obtain ⟨enc, he, hl, hpos, hdec⟩ := Props.roundtrip_small hgood hp hwf1 hm hml
      simp only [he, bind, Except.bind, pure, Except.pure]
      refine ⟨_, rfl, ?_, by omega, fun h t => ?_⟩
      · cases un <;> cases pw <;>
          simp only [List.length_append, writeBytes_length, hl, Protocol.encode_length,
            u16be_length, List.length_cons, List.length_nil] <;> omega
      · have fn' := fn rfl
        simp only [Connect.decode, List.append_assoc, Parser.bind_apply, liftC_apply,
          Protocol.decode_encode, Res.mapErr_ok, Res.bind_ok, Connect.decodeWithProtocol, hne,
          Bool.false_eq_true, if_false, List.cons_append, List.nil_append, readU8_cons]
        generalize Connect.flags _ = flags at *
        simp only [f0, fw, fu, fp, fc, fn', Bool.false_eq_true, if_false, Option.isSome_none]
        cases un <;> cases pw <;> simp_all
    | some w =>
      simp only at hlw hwf2
      cases hw : w.encodeLen with
      | error s => simp [hm, hw, bind, Except.bind] at hlen
      | ok mw =>
        simp only [hm, hw, bind, Except.bind, pure, Except.pure, Except.ok.injEq] at hlen
        subst hlen
        have hml : m < 268435456 := by omega
        have hmwl : mw < 268435456 := by omega
        obtain ⟨enc, he, hl, hpos, hdec⟩ := Props.roundtrip_small hgood hp hwf1 hm hml
        obtain ⟨bw, hbw, hlbw, hdw⟩ := LastWill.roundtrip w hlw hwf2 hw hmwl
        simp only [he, hbw, bind, Except.bind, pure, Except.pure]
        refine ⟨_, rfl, ?_, by omega, fun h t => ?_⟩
        · cases un <;> cases pw <;>
            simp only [List.length_append, writeBytes_length, hl, hlbw, Protocol.encode_length,
              u16be_length, List.length_cons, List.length_nil] <;> omega
        · obtain ⟨fq1, fq2⟩ := fq _ rfl
          have hqq := qosFromU8_valid (hq w rfl)
          simp only [Connect.decode, List.append_assoc, Parser.bind_apply, liftC_apply,
            Protocol.decode_encode, Res.mapErr_ok, Res.bind_ok, Connect.decodeWithProtocol, hne,
            Bool.false_eq_true, if_false, List.cons_append, List.nil_append, readU8_cons]
          generalize Connect.flags _ = flags at *
          simp only [f0, fw, fu, fp, fc, fq1, fq2, hqq, Except.mapError,
            Bool.false_eq_true, if_false, if_true, Option.isSome_some]
          cases un <;> cases pw <;> simp_all

/-! ### the frame of a valid packet -/

/-- Everything the three front ends need to know about the encoding `vb` of a valid packet `p`:
control byte `cb`, remaining length `n`, body bytes, and the header `h` read back. -/
structure Frame (debug : Bool) (p : Packet) (vb : VarBytes) (cb : UInt8) (n : Nat) (body : Bytes)
    (h : Header) : Prop where
  enc : p.encode debug = .ok vb
  bytes : vb.asRef = cb :: (writeVarInt n ++ body)
  len : body.length = n
  lt : n < 268435456
  hdr : Header.newWith cb n = .ok h
  rl : h.remainingLen = n
  dec : ∀ t, decodeBody debug h (body ++ t) = .ok p t
  poll : (n = 0 ∧ buildEmptyPacket h = some p) ∨
         (n ≠ 0 ∧ buildEmptyPacket h = none ∧ blockDecode debug h = decodeBody debug h)

/-- Assemble the frame of a packet with a body from its parts. -/
theorem Frame.of_parts (debug : Bool) (p : Packet) (cb : UInt8) (len : PanicOr Nat)
    (body : PanicOr Bytes) (hparts : p.parts = some (cb, len, body))
    (n : Nat) (b : Bytes) (h : Header) (hlen : len = .ok n) (hn : n < 268435456)
    (hbody : body = .ok b) (hbl : b.length = n) (hhdr : Header.newWith cb n = .ok h)
    (hrl : h.remainingLen = n) (hdec : ∀ t, decodeBody debug h (b ++ t) = .ok p t)
    (hpoll : (n = 0 ∧ buildEmptyPacket h = some p) ∨
      (n ≠ 0 ∧ buildEmptyPacket h = none ∧ blockDecode debug h = decodeBody debug h)) :
    Frame debug p (.dynamic (cb :: (writeVarInt n ++ b))) cb n b h := by
  refine ⟨?_, rfl, hbl, hn, hhdr, hrl, hdec, hpoll⟩
  rw [(Packet.encode_eq_parts debug p cb len body hparts).1]
  subst hlen hbody
  have htl : totalLen n = .ok (n + 1 + Spec.varIntSize n) := by rw [totalLen_closed, if_pos hn]
  have hlen : (cb :: (writeVarInt n ++ b)).length = n + 1 + Spec.varIntSize n := by
    simp only [List.length_cons, List.length_append, writeVarInt_length n hn, hbl]; omega
  simp only [encodeParts, htl, hlen, bne_self_eq_false, Bool.and_false, Bool.false_eq_true,
    if_false]

/-- `Fits` gives the body size and that it fits a remaining length. -/
theorem Packet.len_of_fits (p : Packet) (cb : UInt8) (len : PanicOr Nat) (body : PanicOr Bytes)
    (hparts : p.parts = some (cb, len, body)) (hfit : ∃ n, p.encodeLen = .ok n) :
    ∃ n, len = .ok n ∧ n < 268435456 := by
  obtain ⟨t, ht⟩ := hfit
  rw [(Packet.encode_eq_parts true p cb len body hparts).2] at ht
  cases len with
  | error s => simp [encodeLenParts] at ht
  | ok n =>
    refine ⟨n, rfl, ?_⟩
    simp only [encodeLenParts, totalLen_closed] at ht
    by_cases hn : n < 268435456
    · exact hn
    · simp [hn] at ht

theorem blockDecode_eq_decodeBody_rt (debug : Bool) (typ : UInt8) (d : Bool) (q : UInt8) (r : Bool)
    (n : Nat) (h : typ ∈ [1, 2, 3, 4, 5, 6, 7, 8, 9, 10, 11, 14, 15]) :
    blockDecode debug ⟨typ, d, q, r, n⟩ = decodeBody debug ⟨typ, d, q, r, n⟩ := by
  simp only [List.mem_cons, List.not_mem_nil, or_false] at h
  rcases h with rfl | rfl | rfl | rfl | rfl | rfl | rfl | rfl | rfl | rfl | rfl | rfl | rfl <;> rfl

theorem frame_exists (debug : Bool) (p : Packet) (hv : p.valid = true) (hwf : p.wf)
    (hfit : ∃ n, p.encodeLen = .ok n) : ∃ vb cb n body h, Frame debug p vb cb n body h := by
  cases p with
  | pingreq =>
    exact ⟨_, 0b11000000, 0, [], _, rfl, by rw [V3.writeVarInt_zero]; rfl, rfl, by omega, rfl, rfl,
      fun t => rfl, .inl ⟨rfl, rfl⟩⟩
  | pingresp =>
    exact ⟨_, 0b11010000, 0, [], _, rfl, by rw [V3.writeVarInt_zero]; rfl, rfl, by omega, rfl, rfl,
      fun t => rfl, .inl ⟨rfl, rfl⟩⟩
  | connect c =>
    obtain ⟨n, hlen, hn⟩ := Packet.len_of_fits _ _ _ _ rfl hfit
    obtain ⟨b, hb, hbl, hn0, hdec⟩ := Connect.roundtrip c hv hwf hlen hn
    refine ⟨_, _, n, b, _, Frame.of_parts debug _ _ _ _ rfl n b ⟨1, false, 0, false, n⟩ hlen hn hb hbl
      rfl rfl (fun t => ?_) (.inr ⟨hn0, rfl, rfl⟩)⟩
    show (Connect.decode _ >>= fun c => pure (Packet.connect c)) _ = _
    simp [hdec]
  | connack c =>
    obtain ⟨n, hlen, hn⟩ := Packet.len_of_fits _ _ _ _ rfl hfit
    simp only [Packet.valid, Bool.and_eq_true] at hv
    obtain ⟨b, hb, hbl, hn0, hdec⟩ := Connack.roundtrip c hv.1 hv.2 hwf hlen hn
    refine ⟨_, _, n, b, _, Frame.of_parts debug _ _ _ _ rfl n b ⟨2, false, 0, false, n⟩ hlen hn hb hbl
      rfl rfl (fun t => ?_) (.inr ⟨hn0, rfl, rfl⟩)⟩
    show (Connack.decode _ >>= fun c => pure (Packet.connack c)) _ = _
    simp [hdec]
  | publish c =>
    obtain ⟨n, hlen, hn⟩ := Packet.len_of_fits _ _ _ _ rfl hfit
    simp only [Packet.valid, Bool.and_eq_true] at hv
    obtain ⟨b, hb, hbl, hn0, hdec⟩ := Publish.roundtrip c hv.1.1.1 hv.1.1.2 hv.1.2 hv.2 hwf hlen hn
    refine ⟨_, _, n, b, _, Frame.of_parts debug _ _ _ _ rfl n b _ hlen hn hb hbl
      (Header.newWith_publish c n) rfl (fun t => ?_) (.inr ⟨hn0, rfl, rfl⟩)⟩
    show (Publish.decode _ >>= fun c => pure (Packet.publish c)) _ = _
    simp [hdec]
  | puback a =>
    obtain ⟨n, hlen, hn⟩ := Packet.len_of_fits _ _ _ _ rfl hfit
    simp only [Packet.valid, Bool.and_eq_true] at hv
    obtain ⟨b, hb, hbl, hn0, hdec⟩ := Ack.roundtrip .pubackReason a hv.1.1 hv.1.2 hv.2 hwf hlen hn
    refine ⟨_, _, n, b, _, Frame.of_parts debug _ _ _ _ rfl n b ⟨4, false, 0, false, n⟩ hlen hn hb hbl
      rfl rfl (fun t => ?_) (.inr ⟨hn0, rfl, rfl⟩)⟩
    show (Ack.decode _ _ >>= fun c => pure (Packet.puback c)) _ = _
    simp [hdec]
  | pubrec a =>
    obtain ⟨n, hlen, hn⟩ := Packet.len_of_fits _ _ _ _ rfl hfit
    simp only [Packet.valid, Bool.and_eq_true] at hv
    obtain ⟨b, hb, hbl, hn0, hdec⟩ := Ack.roundtrip .pubrecReason a hv.1.1 hv.1.2 hv.2 hwf hlen hn
    refine ⟨_, _, n, b, _, Frame.of_parts debug _ _ _ _ rfl n b ⟨5, false, 0, false, n⟩ hlen hn hb hbl
      rfl rfl (fun t => ?_) (.inr ⟨hn0, rfl, rfl⟩)⟩
    show (Ack.decode _ _ >>= fun c => pure (Packet.pubrec c)) _ = _
    simp [hdec]
  | pubrel a =>
    obtain ⟨n, hlen, hn⟩ := Packet.len_of_fits _ _ _ _ rfl hfit
    simp only [Packet.valid, Bool.and_eq_true] at hv
    obtain ⟨b, hb, hbl, hn0, hdec⟩ := Ack.roundtrip .pubrelReason a hv.1.1 hv.1.2 hv.2 hwf hlen hn
    refine ⟨_, _, n, b, _, Frame.of_parts debug _ _ _ _ rfl n b ⟨6, false, 0, false, n⟩ hlen hn hb hbl
      rfl rfl (fun t => ?_) (.inr ⟨hn0, rfl, rfl⟩)⟩
    show (Ack.decode _ _ >>= fun c => pure (Packet.pubrel c)) _ = _
    simp [hdec]
  | pubcomp a =>
    obtain ⟨n, hlen, hn⟩ := Packet.len_of_fits _ _ _ _ rfl hfit
    simp only [Packet.valid, Bool.and_eq_true] at hv
    obtain ⟨b, hb, hbl, hn0, hdec⟩ := Ack.roundtrip .pubcompReason a hv.1.1 hv.1.2 hv.2 hwf hlen hn
    refine ⟨_, _, n, b, _, Frame.of_parts debug _ _ _ _ rfl n b ⟨7, false, 0, false, n⟩ hlen hn hb hbl
      rfl rfl (fun t => ?_) (.inr ⟨hn0, rfl, rfl⟩)⟩
    show (Ack.decode _ _ >>= fun c => pure (Packet.pubcomp c)) _ = _
    simp [hdec]
  | subscribe c =>
    obtain ⟨n, hlen, hn⟩ := Packet.len_of_fits _ _ _ _ rfl hfit
    simp only [Packet.valid, Bool.and_eq_true, Bool.not_eq_true'] at hv
    obtain ⟨b, hb, hbl, hn0, hdec⟩ :=
      Subscribe.roundtrip debug c hv.1.1.1 hv.1.1.2 hwf hv.1.2 hv.2 hlen hn
    refine ⟨_, _, n, b, _, Frame.of_parts debug _ _ _ _ rfl n b ⟨8, false, 0, false, n⟩ hlen hn hb hbl
      rfl rfl (fun t => ?_) (.inr ⟨hn0, rfl, rfl⟩)⟩
    show (Subscribe.decode _ _ >>= fun c => pure (Packet.subscribe c)) _ = _
    simp [hdec]
  | suback c =>
    obtain ⟨n, hlen, hn⟩ := Packet.len_of_fits _ _ _ _ rfl hfit
    simp only [Packet.valid, Bool.and_eq_true] at hv
    obtain ⟨b, hb, hbl, hn0, hdec⟩ :=
      CodesAck.roundtrip .subscribeReason c hv.1.1 hv.1.2 hwf hv.2 hlen hn
    refine ⟨_, _, n, b, _, Frame.of_parts debug _ _ _ _ rfl n b ⟨9, false, 0, false, n⟩ hlen hn hb hbl
      rfl rfl (fun t => ?_) (.inr ⟨hn0, rfl, rfl⟩)⟩
    show (CodesAck.decode _ _ >>= fun c => pure (Packet.suback c)) _ = _
    simp [hdec]
  | unsubscribe c =>
    obtain ⟨n, hlen, hn⟩ := Packet.len_of_fits _ _ _ _ rfl hfit
    simp only [Packet.valid, Bool.and_eq_true, Bool.not_eq_true'] at hv
    obtain ⟨b, hb, hbl, hn0, hdec⟩ :=
      Unsubscribe.roundtrip debug c hv.1.1.1 hv.1.1.2 hwf hv.1.2 hv.2 hlen hn
    refine ⟨_, _, n, b, _, Frame.of_parts debug _ _ _ _ rfl n b ⟨10, false, 0, false, n⟩ hlen hn hb hbl
      rfl rfl (fun t => ?_) (.inr ⟨hn0, rfl, rfl⟩)⟩
    show (Unsubscribe.decode _ _ >>= fun c => pure (Packet.unsubscribe c)) _ = _
    simp [hdec]
  | unsuback c =>
    obtain ⟨n, hlen, hn⟩ := Packet.len_of_fits _ _ _ _ rfl hfit
    simp only [Packet.valid, Bool.and_eq_true] at hv
    obtain ⟨b, hb, hbl, hn0, hdec⟩ :=
      CodesAck.roundtrip .unsubscribeReason c hv.1.1 hv.1.2 hwf hv.2 hlen hn
    refine ⟨_, _, n, b, _, Frame.of_parts debug _ _ _ _ rfl n b ⟨11, false, 0, false, n⟩ hlen hn hb hbl
      rfl rfl (fun t => ?_) (.inr ⟨hn0, rfl, rfl⟩)⟩
    show (CodesAck.decode _ _ >>= fun c => pure (Packet.unsuback c)) _ = _
    simp [hdec]
  | disconnect c =>
    obtain ⟨n, hlen, hn⟩ := Packet.len_of_fits _ _ _ _ rfl hfit
    simp only [Packet.valid, Bool.and_eq_true] at hv
    obtain ⟨b, hb, hbl, hz, hdec⟩ := Disconnect.roundtrip c hv.1 hv.2 hwf hlen hn
    refine ⟨_, _, n, b, _, Frame.of_parts debug _ _ _ _ rfl n b ⟨14, false, 0, false, n⟩ hlen hn hb hbl
      rfl rfl (fun t => ?_) ?_⟩
    · show (Disconnect.decode _ >>= fun c => pure (Packet.disconnect c)) _ = _
      simp [hdec]
    · by_cases h0 : n = 0
      · refine .inl ⟨h0, ?_⟩
        rw [hz h0]; subst h0; rfl
      · refine .inr ⟨h0, ?_, rfl⟩
        show (if n = 0 then _ else none) = none
        rw [if_neg h0]
  | auth c =>
    obtain ⟨n, hlen, hn⟩ := Packet.len_of_fits _ _ _ _ rfl hfit
    simp only [Packet.valid, Bool.and_eq_true] at hv
    obtain ⟨b, hb, hbl, hz, hdec⟩ := Auth.roundtrip c hv.1 hv.2 hwf hlen hn
    refine ⟨_, _, n, b, _, Frame.of_parts debug _ _ _ _ rfl n b ⟨15, false, 0, false, n⟩ hlen hn hb hbl
      rfl rfl (fun t => ?_) ?_⟩
    · show (Auth.decode _ >>= fun c => pure (Packet.auth c)) _ = _
      simp [hdec]
    · by_cases h0 : n = 0
      · refine .inl ⟨h0, ?_⟩
        rw [hz h0]; subst h0; rfl
      · refine .inr ⟨h0, ?_, rfl⟩
        show (if n = 0 then _ else none) = none
        rw [if_neg h0]

/-! ### the three front ends, from the frame -/

theorem Frame.roundtrip_async {debug p vb cb n body h} (F : Frame debug p vb cb n body h) (t : Bytes) :
    decodeAsync debug (vb.asRef ++ t) = .ok p t := by
  rw [F.bytes, List.cons_append, List.append_assoc, decodeAsync_frame debug cb n F.lt _ h F.hdr, F.dec]

theorem Frame.length {debug p vb cb n body h} (F : Frame debug p vb cb n body h) :
    vb.asRef.length = n + 1 + Spec.varIntSize n := by
  rw [F.bytes, List.length_cons, List.length_append, writeVarInt_length n F.lt, F.len]; omega

theorem Frame.roundtrip_blocking {debug p vb cb n body h} (F : Frame debug p vb cb n body h) (t : Bytes) :
    decodeBlocking debug (vb.asRef ++ t) = .ok (some p) vb.asRef.length := by
  simp only [decodeBlocking, runAsync, F.roundtrip_async t, List.length_append]
  congr 1; omega

theorem Frame.roundtrip_poll {debug p vb cb n body h} (F : Frame debug p vb cb n body h) (t : Bytes)
    (term : Poll.Term) :
    Poll.spec (pollFamily debug) (vb.asRef ++ t) term =
      (.ok vb.asRef.length (vb.asRef.drop (headerLen vb.asRef.length)) p, vb.asRef.length) := by
  have hdrop : vb.asRef.drop (headerLen vb.asRef.length) = body := by
    rw [F.length, V3.headerLen_total n F.lt, F.bytes, Nat.add_comm 1, List.drop_succ_cons,
      ← writeVarInt_length n F.lt, List.drop_left]
  have hsz := varIntSize_pos n
  have hvi : decodeVarIntAux ((pollFamily debug).ofCommon .invalidVarByteInt) 0 0
      (writeVarInt n ++ (body ++ t)) = .ok (n, Spec.varIntSize n) (body ++ t) := by
    have hl := writeVarInt_length n F.lt
    have hle := varIntSize_le n
    rw [decodeAux_write _ n 0 0 (body ++ t) (by rw [hl]; omega)]
    simp [hl]
  rw [hdrop, F.length]
  rw [F.bytes, List.cons_append, List.append_assoc]
  have e1 : (pollFamily debug).newWith = Header.newWith := rfl
  have e2 : (pollFamily debug).buildEmpty = buildEmptyPacket := rfl
  have e3 : (pollFamily debug).remainingLen = fun h => h.remainingLen := rfl
  have e4 : (pollFamily debug).blockDecode = blockDecode debug := rfl
  simp only [Poll.spec, hvi, Poll.finishHeader, e1, e2, e3, F.hdr, F.rl]
  rcases F.poll with ⟨hn0, hbe⟩ | ⟨hn0, hbe, hbd⟩
  · have hb : body = [] := List.eq_nil_of_length_eq_zero (by rw [F.len, hn0])
    subst hn0
    simp [hbe, hb, Spec.varIntSize]
  · have hle : n ≤ (body ++ t).length := by rw [List.length_append, F.len]; omega
    have htake : (body ++ t).take n = body := by rw [← F.len, List.take_left]
    have hdec := F.dec []
    rw [List.append_nil] at hdec
    simp only [hbe, hn0, if_false, hle, if_true, htake, Poll.finishBody, e4, hbd, hdec, List.isEmpty_nil]
    have a1 : 1 + 1 + (Spec.varIntSize n - 1) + n = n + 1 + Spec.varIntSize n := by omega
    have a2 : 1 + Spec.varIntSize n + n = n + 1 + Spec.varIntSize n := by omega
    rw [a1, a2]

end Mqtt.V5
