/-
  Composition lemmas for C06/C07/C08/C14 (v3).  The version-independent part is in
  Proofs/Compose.lean; here it is instantiated for the v3 family:

  * `NoIo` / `NoIoErr`: no v3 reader ever *produces* an `IoError` (those come from the
    transport only) — needed for "is_eof error ⇔ the input ran out" in C06.
  * `lenient`: `decodeAsync = Header.decode >>= decodeBody` is a `Poll.Lenient`
    decoder for `pollFamily`.
  * the front-end facts used by C07/C08/C14 (strict prefixes, non-empty encodings).
-/
import Proofs.Compose
import Proofs.V3RoundTrip
import Proofs.V3Safety
import Proofs.NoDebugPanic
import Proofs.Poll
import Properties.C01V3
import Properties.C03V3
import Properties.C05

namespace Mqtt.V3
open Mqtt

/-! ## no reader produces an `IoError` -/

/-- Not an `IoError`. -/
def NoIo (e : Error) : Prop := ∀ k, e ≠ .ioError k

/-- The reader never returns an `IoError` of its own. -/
abbrev NoIoErr {α : Type} (P : Parser Error α) : Prop := ErrSat NoIo P

macro_rules | `(tactic| errsat_side) => `(tactic| (unfold NoIo; intro k h; cases h))

theorem noIo_pidTryFrom (v : UInt16) (e : Error) (h : Pid.tryFrom v = .error e) : NoIo e := by
  unfold Pid.tryFrom at h
  split at h
  · cases h; errsat_side
  · cases h

theorem noIo_protocolNew (name : Bytes) (level : UInt8) (e : Error)
    (h : Protocol.new name level = .error e) : NoIo e := by
  unfold Protocol.new at h
  repeat' split at h
  all_goals first | (cases h; errsat_side) | cases h

theorem noIo_qosFromU8 (b : UInt8) (e : Error) (h : qosFromU8 b = .error e) : NoIo e := by
  unfold qosFromU8 at h
  split at h
  · cases h
  · cases h; errsat_side

theorem noIo_topicNameTryFrom (bs : Bytes) (e : Error) (h : topicNameTryFrom bs = .error e) :
    NoIo e := by
  unfold topicNameTryFrom at h
  split at h
  · cases h; errsat_side
  · split at h
    · cases h; errsat_side
    · cases h

/-- No row of the generated header table is an `IoError`. -/
def rowNoIo : Except Error Gen.HeaderRow → Bool
  | .error (.ioError _) => false
  | _ => true

set_option maxRecDepth 100000 in
theorem headerV3_rows_noIo : Gen.headerV3.all rowNoIo = true := by decide

theorem noIo_headerNewWith (cb : UInt8) (rl : Nat) (e : Error)
    (h : Header.newWith cb rl = .error e) : NoIo e := by
  unfold Header.newWith at h
  rw [List.getD_eq_getElem?_getD] at h
  cases hrow : Gen.headerV3[cb.toNat]? with
  | none =>
    rw [hrow] at h
    simp only [Option.getD] at h
    cases h; errsat_side
  | some row =>
    rw [hrow] at h
    have hmem : row ∈ Gen.headerV3 := List.mem_of_getElem? hrow
    have hok := List.all_eq_true.mp headerV3_rows_noIo row hmem
    cases row with
    | ok r => cases h
    | error e' =>
      simp only [Option.getD] at h
      cases h
      intro k hk
      subst hk
      simp [rowNoIo] at hok

macro_rules | `(tactic| errsat_step) => `(tactic| exact ErrSat.liftExcept (noIo_pidTryFrom _))
macro_rules | `(tactic| errsat_step) => `(tactic| exact ErrSat.liftExcept (noIo_protocolNew _ _))
macro_rules | `(tactic| errsat_step) => `(tactic| exact ErrSat.liftExcept (noIo_qosFromU8 _))
macro_rules | `(tactic| errsat_step) => `(tactic| exact ErrSat.liftExcept (noIo_topicNameTryFrom _))
macro_rules | `(tactic| errsat_step) => `(tactic| exact ErrSat.liftExcept (noIo_headerNewWith _ _))

theorem NoIoErr.decodeVarInt : NoIoErr decodeVarInt :=
  ErrSat.decodeVarIntAux (by errsat_side) 0 0
macro_rules | `(tactic| errsat_step) => `(tactic| exact NoIoErr.decodeVarInt)

theorem NoIoErr.decodeRawHeader : NoIoErr decodeRawHeader := by
  rw [decodeRawHeader_eq_bind]; errsat_tac
macro_rules | `(tactic| errsat_step) => `(tactic| exact NoIoErr.decodeRawHeader)

theorem NoIoErr.readString : NoIoErr readString := by
  rw [readString_eq_bind]; errsat_tac
macro_rules | `(tactic| errsat_step) => `(tactic| exact NoIoErr.readString)

theorem NoIoErr.readPid : NoIoErr readPid := by
  rw [readPid_eq_bind]; errsat_tac
macro_rules | `(tactic| errsat_step) => `(tactic| exact NoIoErr.readPid)

theorem NoIoErr.protocolDecode : NoIoErr Protocol.decode := by
  rw [Protocol.decode_eq_bind]; errsat_tac
macro_rules | `(tactic| errsat_step) => `(tactic| exact NoIoErr.protocolDecode)

theorem NoIoErr.connectDecodeWithProtocol (p : Protocol) :
    NoIoErr (Connect.decodeWithProtocol p) := by
  unfold Connect.decodeWithProtocol
  errsat_tac
macro_rules | `(tactic| errsat_step) => `(tactic| exact NoIoErr.connectDecodeWithProtocol _)

theorem NoIoErr.connectDecode : NoIoErr Connect.decode := by
  unfold Connect.decode
  errsat_tac
macro_rules | `(tactic| errsat_step) => `(tactic| exact NoIoErr.connectDecode)

theorem NoIoErr.connackDecode : NoIoErr Connack.decode := by
  unfold Connack.decode
  errsat_tac
macro_rules | `(tactic| errsat_step) => `(tactic| exact NoIoErr.connackDecode)

theorem NoIoErr.publishDecode (h : Header) : NoIoErr (Publish.decode h) := by
  unfold Publish.decode
  errsat_tac
macro_rules | `(tactic| errsat_step) => `(tactic| exact NoIoErr.publishDecode _)

theorem NoIoErr.tfParser (debug : Bool) (s : Bytes) : NoIoErr (tfParser debug s) := by
  constructor
  intro bs e h
  simp only [V3.tfParser, topicFilterTryFrom] at h
  cases hd : Utf8.decode s with
  | none => rw [hd] at h; cases h; errsat_side
  | some cs =>
    rw [hd] at h
    simp only [] at h
    cases hf : Topic.filterIsInvalid debug cs with
    | invalid => rw [hf] at h; cases h; errsat_side
    | valid sep => rw [hf] at h; cases h
    | panic s' => rw [hf] at h; cases h
macro_rules | `(tactic| errsat_step) => `(tactic| exact NoIoErr.tfParser _ _)

theorem NoIoErr.subscribeLoop (debug : Bool) :
    ∀ rl acc, NoIoErr (subscribeLoop debug rl acc) := by
  intro rl
  induction rl using Nat.strongRecOn with
  | _ rl ih =>
    intro acc
    rw [subscribeLoop_eq]
    errsat_tac
    apply ih
    omega
macro_rules | `(tactic| errsat_step) => `(tactic| exact NoIoErr.subscribeLoop _ _ _)

theorem NoIoErr.unsubscribeLoop (debug : Bool) :
    ∀ rl acc, NoIoErr (unsubscribeLoop debug rl acc) := by
  intro rl
  induction rl using Nat.strongRecOn with
  | _ rl ih =>
    intro acc
    rw [unsubscribeLoop_eq]
    errsat_tac
    apply ih
    omega
macro_rules | `(tactic| errsat_step) => `(tactic| exact NoIoErr.unsubscribeLoop _ _ _)

theorem NoIoErr.subackLoop : ∀ rl acc, NoIoErr (subackLoop rl acc) := by
  intro rl
  induction rl with
  | zero => intro acc; rw [subackLoop_zero]; exact ErrSat.pure _
  | succ rl ih =>
    intro acc
    rw [subackLoop_succ]
    errsat_tac
    apply ih
macro_rules | `(tactic| errsat_step) => `(tactic| exact NoIoErr.subackLoop _ _)

theorem NoIoErr.subscribeDecode (debug : Bool) (rl : Nat) : NoIoErr (Subscribe.decode debug rl) := by
  unfold Subscribe.decode
  errsat_tac
macro_rules | `(tactic| errsat_step) => `(tactic| exact NoIoErr.subscribeDecode _ _)

theorem NoIoErr.subackDecode (rl : Nat) : NoIoErr (Suback.decode rl) := by
  unfold Suback.decode
  errsat_tac
macro_rules | `(tactic| errsat_step) => `(tactic| exact NoIoErr.subackDecode _)

theorem NoIoErr.unsubscribeDecode (debug : Bool) (rl : Nat) :
    NoIoErr (Unsubscribe.decode debug rl) := by
  unfold Unsubscribe.decode
  errsat_tac
macro_rules | `(tactic| errsat_step) => `(tactic| exact NoIoErr.unsubscribeDecode _ _)

theorem NoIoErr.headerDecode : NoIoErr Header.decode := by
  unfold Header.decode
  errsat_tac
macro_rules | `(tactic| errsat_step) => `(tactic| exact NoIoErr.headerDecode)

theorem NoIoErr.decodeBody (debug : Bool) (h : Header) : NoIoErr (decodeBody debug h) := by
  unfold V3.decodeBody
  errsat_tac
macro_rules | `(tactic| errsat_step) => `(tactic| exact NoIoErr.decodeBody _ _)

theorem NoIoErr.decodeAsync (debug : Bool) : NoIoErr (decodeAsync debug) := by
  unfold V3.decodeAsync
  errsat_tac

/-- The async decoder never returns an `IoError` of its own. -/
theorem decodeAsync_ne_ioError (debug : Bool) (bs : Bytes) (k : IoKind) :
    decodeAsync debug bs ≠ .err (.ioError k) :=
  fun h => (NoIoErr.decodeAsync debug).sat bs _ h k rfl

/-! ## the lenient front-ends in terms of the reader's outcome -/

theorem runAsync_of_more {α : Type} {P : Parser Error α} {bs : Bytes} (h : P bs = .more)
    (term : Term) : runAsync P bs term = .err term.error := by
  simp only [runAsync, h]

theorem runAsync_of_ok {α : Type} {P : Parser Error α} {bs r : Bytes} {a : α}
    (h : P bs = .ok a r) (term : Term) : runAsync P bs term = .ok a (bs.length - r.length) := by
  simp only [runAsync, h]

theorem runAsync_of_err {α : Type} {P : Parser Error α} {bs : Bytes} {e : Error}
    (h : P bs = .err e) (term : Term) : runAsync P bs term = .err e := by
  simp only [runAsync, h]

theorem decodeBlocking_of_more {debug : Bool} {bs : Bytes} (h : decodeAsync debug bs = .more) :
    decodeBlocking debug bs = .ok none 0 := by
  simp only [decodeBlocking, runAsync_of_more h]
  rfl

theorem decodeBlocking_of_ok {debug : Bool} {bs r : Bytes} {p : Packet}
    (h : decodeAsync debug bs = .ok p r) :
    decodeBlocking debug bs = .ok (some p) (bs.length - r.length) := by
  simp only [decodeBlocking, runAsync_of_ok h]

theorem isEof_false_of_noIo {e : Error} (h : ∀ k, e ≠ .ioError k) : e.isEof = false := by
  cases e with
  | ioError k => exact absurd rfl (h k)
  | _ => rfl

theorem decodeBlocking_of_err {debug : Bool} {bs : Bytes} {e : Error}
    (h : decodeAsync debug bs = .err e) (hio : ∀ k, e ≠ .ioError k) :
    decodeBlocking debug bs = .err e := by
  simp only [decodeBlocking, runAsync_of_err h, isEof_false_of_noIo hio]
  rfl

theorem decodeAsync_nil (debug : Bool) : decodeAsync debug [] = .more := rfl

/-- An async front-end error is recognised by `is_eof` exactly when the input ran out
(the third part of C06 `blocking_is_async_with_eof_mapped`). -/
theorem isEof_iff_more (debug : Bool) (bs : Bytes) (e : Error)
    (h : runAsync (decodeAsync debug) bs .eof = .err e) :
    e.isEof = true ↔ decodeAsync debug bs = .more := by
  unfold runAsync at h
  cases hd : decodeAsync debug bs with
  | ok p r => rw [hd] at h; cases h
  | more => rw [hd] at h; cases h; exact ⟨fun _ => rfl, fun _ => rfl⟩
  | err e' =>
    rw [hd] at h
    cases h
    constructor
    · intro he
      cases e with
      | ioError k => exact absurd hd (decodeAsync_ne_ioError debug bs k)
      | _ => cases he
    · intro hm; cases hm
  | panic s => rw [hd] at h; cases h

/-! ## strict versus lenient (C06) -/

theorem headerDecode_cons (cb : UInt8) (rest : Bytes) :
    Header.decode (cb :: rest) =
      match decodeVarIntAux Error.invalidVarByteInt 0 0 rest with
      | .ok (v, _) rest' =>
        (match Header.newWith cb v with
         | .ok h => .ok h rest'
         | .error e => .err e)
      | .more => .more
      | .err e => .err e
      | .panic s => .panic s := by
  simp only [Header.decode, bind, Parser.bind, decodeRawHeader, decodeVarInt]
  cases decodeVarIntAux Error.invalidVarByteInt 0 0 rest with
  | ok a r =>
    obtain ⟨v, k⟩ := a
    simp only [Res.bind]
    cases Header.newWith cb v <;> rfl
  | _ => rfl

/-- `decodeAsync = Header.decode >>= decodeBody` is a lenient decoder for the v3 family. -/
theorem lenient (debug : Bool) :
    Poll.Lenient (pollFamily debug) Header.decode (decodeBody debug) where
  hdr_cons := by
    intro cb rest
    rw [headerDecode_cons]
    have e1 : (pollFamily debug).ofCommon Error.invalidVarByteInt = Error.invalidVarByteInt := rfl
    have e2 : (pollFamily debug).newWith = Header.newWith := rfl
    rw [e1, e2]
    cases decodeVarIntAux Error.invalidVarByteInt 0 0 rest with
    | ok a r =>
      obtain ⟨v, k⟩ := a
      simp only []
      cases Header.newWith cb v <;> rfl
    | _ => rfl
  ext := Extends.decodeBody debug
  empty := by
    intro cb v h p _ hbe _ bs
    have hbe' : buildEmptyPacket h = some p := hbe
    unfold buildEmptyPacket at hbe'
    unfold V3.decodeBody
    split at hbe'
    · rename_i ht; cases hbe'; simp only [ht]; rfl
    · rename_i ht; cases hbe'; simp only [ht]; rfl
    · rename_i ht; cases hbe'; simp only [ht]; rfl
    · cases hbe'
  block := by
    intro cb v h hnw hbe
    have hnw' : Header.newWith cb v = .ok h := hnw
    exact blockDecode_eq_decodeBody debug h hbe (Header.newWith_facts hnw').2

theorem decodeAsync_eq_bind (debug : Bool) :
    decodeAsync debug = Parser.bind Header.decode (decodeBody debug) := rfl

/-- C06, accepting direction. -/
theorem strict_accepts (debug : Bool) (bs : Bytes) (term : Poll.Term)
    (total : Nat) (body : Bytes) (p : Packet)
    (h : (Poll.spec (pollFamily debug) bs term).1 = .ok total body p) :
    decodeAsync debug bs = .ok p (bs.drop total) ∧ total ≤ bs.length ∧
    decodeBlocking debug bs = .ok (some p) total := by
  obtain ⟨h1, h2⟩ := (lenient debug).accepts bs term total body p h
  rw [← decodeAsync_eq_bind] at h1
  refine ⟨h1, h2, ?_⟩
  rw [decodeBlocking_of_ok h1, List.length_drop]
  congr 1; omega

/-- C06, rejecting direction. -/
theorem strict_rejects (debug : Bool) (bs : Bytes) (term : Poll.Term) (e : Error)
    (h : (Poll.spec (pollFamily debug) bs term).1 = .err e)
    (hne : e ≠ .invalidRemainingLength) (hio : ∀ k, e ≠ .ioError k) :
    decodeAsync debug bs = .err e ∧ decodeBlocking debug bs = .err e := by
  have h1 := (lenient debug).rejects bs term e h hne hio
  rw [← decodeAsync_eq_bind] at h1
  exact ⟨h1, decodeBlocking_of_err h1 hio⟩

/-! ## the encoding of a valid packet on the three front-ends (C07/C08/C14) -/

/-- One-packet step of the async/blocking front-end: packet, bytes consumed, unread input. -/
def asyncStep (debug : Bool) (bs : Bytes) : Option (Packet × Nat × Bytes) :=
  match decodeAsync debug bs with
  | .ok p rest => some (p, bs.length - rest.length, rest)
  | _ => none

/-- One-packet step of the poll front-end, advancing by the total it reports. -/
def pollStep (debug : Bool) (term : Poll.Term) (bs : Bytes) : Option (Packet × Nat × Bytes) :=
  match (Poll.spec (pollFamily debug) bs term).1 with
  | .ok total _ p => some (p, total, bs.drop total)
  | _ => none

/-- Everything C07/C08/C14 use about the encoding of a valid packet, with one witness
(assembled from C01's three round trips). -/
theorem encoding_facts (debug : Bool) (p : Packet) (hv : p.valid = true) :
    ∃ vb, p.encode debug = .ok vb ∧ vb.asRef ≠ [] ∧
      (∀ t, decodeAsync debug (vb.asRef ++ t) = .ok p t) ∧
      (∀ t term, ∃ body, Poll.spec (pollFamily debug) (vb.asRef ++ t) term =
        (.ok vb.asRef.length body p, vb.asRef.length)) := by
  obtain ⟨vb, he, h0⟩ := C01.V3.roundtrip_async debug p hv []
  have hasync : ∀ t, decodeAsync debug (vb.asRef ++ t) = .ok p t := by
    intro t
    obtain ⟨vb', he', h⟩ := C01.V3.roundtrip_async debug p hv t
    rw [he] at he'
    injection he' with hvb
    subst hvb
    exact h
  refine ⟨vb, he, ?_, hasync, ?_⟩
  · intro hnil
    rw [hnil, List.append_nil, decodeAsync_nil] at h0
    cases h0
  · intro t term
    obtain ⟨vb', he', h⟩ := C01.V3.roundtrip_poll debug p hv t term
    rw [he] at he'
    injection he' with hvb
    subst hvb
    exact ⟨_, h⟩

/-- Strict prefixes of an encoding: the async reader asks for more input. -/
theorem prefix_is_more (debug : Bool) (enc : Bytes) (p : Packet)
    (h : ∀ t, decodeAsync debug (enc ++ t) = .ok p t) (k : Nat) (hk : k < enc.length) :
    decodeAsync debug (enc.take k) = .more := by
  have h0 := h []
  rw [List.append_nil] at h0
  exact C03.V3.strict_prefix_is_more _ (C03.V3.decoders_extend debug).1 enc p h0 k hk

/-- Strict prefixes of an encoding: the poll decoder reports the terminal event, under
every schedule. -/
theorem prefix_poll (debug : Bool) (enc : Bytes) (p : Packet)
    (h : ∀ t term, ∃ body, Poll.spec (pollFamily debug) (enc ++ t) term =
      (.ok enc.length body p, enc.length))
    (k : Nat) (hk : k < enc.length) (sched : List Poll.Sched) (term : Poll.Term) :
    (Poll.run (pollFamily debug) debug (enc.take k) sched term).result =
      .err (Poll.termErr (pollFamily debug) term) := by
  obtain ⟨body, h0⟩ := h [] term
  rw [List.append_nil] at h0
  rw [(C05.schedule_independent (pollFamily debug) debug (enc.take k) sched term).1]
  exact Poll.spec_strict_prefix_result (pollFamily debug) enc term enc.length body p
    (by rw [h0]) k hk term

/-- The whole encoding followed by anything: the poll decoder returns the packet and
the exact total, under every schedule and terminal event. -/
theorem whole_poll (debug : Bool) (enc : Bytes) (p : Packet)
    (h : ∀ t term, ∃ body, Poll.spec (pollFamily debug) (enc ++ t) term =
      (.ok enc.length body p, enc.length))
    (t : Bytes) (sched : List Poll.Sched) (term : Poll.Term) :
    ∃ body, (Poll.run (pollFamily debug) debug (enc ++ t) sched term).result
        = .ok enc.length body p ∧
      (Poll.run (pollFamily debug) debug (enc ++ t) sched term).consumed = enc.length := by
  obtain ⟨body, h0⟩ := h t term
  obtain ⟨h1, h2⟩ := C05.schedule_independent (pollFamily debug) debug (enc ++ t) sched term
  exact ⟨body, by rw [h1, h0], by rw [h2, h0]⟩

theorem asyncStep_enc (debug : Bool) (enc : Bytes) (p : Packet)
    (h : ∀ t, decodeAsync debug (enc ++ t) = .ok p t) (t : Bytes) :
    asyncStep debug (enc ++ t) = some (p, enc.length, t) := by
  simp only [asyncStep, h t, List.length_append, Nat.add_sub_cancel]

theorem pollStep_enc (debug : Bool) (term : Poll.Term) (enc : Bytes) (p : Packet)
    (h : ∀ t term, ∃ body, Poll.spec (pollFamily debug) (enc ++ t) term =
      (.ok enc.length body p, enc.length)) (t : Bytes) :
    pollStep debug term (enc ++ t) = some (p, enc.length, t) := by
  obtain ⟨body, h0⟩ := h t term
  simp only [pollStep, h0, List.drop_left]

end Mqtt.V3
