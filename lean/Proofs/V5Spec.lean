/-
  C04 (v5): the strict (poll) decoder of the model against the independent specification
  decoder `Spec.decodeV5` — assembly of the header, remaining-length and body bridges
  (Proofs/V5SpecBasics, V5SpecTables, V5SpecProps, V5SpecBody, V5SpecPublish, V5SpecSub,
  V5SpecConnect).
-/
import Spec.DecodeV5
import Proofs.V3Spec
import Proofs.V5Compose
import Proofs.V5RoundTrip
import Properties.C01V5
import Properties.C06V5
import Proofs.V5SpecConnect
import Proofs.V5SpecSub

set_option linter.unusedSimpArgs false
set_option linter.unusedVariables false

namespace Mqtt.V5
open Mqtt

/-! ## the specification decoder, frame by frame -/

theorem parseV5With_iff (m : Bool) (bs : Bytes) (sp : Spec.PacketV5) (total : Nat) :
    Spec.parseV5With m bs = some (sp, total) ↔
      ∃ cb rest t flags v k rest', bs = cb :: rest ∧ specHdr5 cb = some (t, flags) ∧
        Spec.varintDigits 4 rest = some (v, k, rest') ∧ (m = true → k = Spec.varIntSize v) ∧
        v ≤ rest'.length ∧ total = 1 + k + v ∧ specBody5 m t flags (rest'.take v) = some sp := by
  cases bs with
  | nil => simp [Spec.parseV5With, Spec.splitFrame]
  | cons cb rest =>
    unfold Spec.parseV5With
    simp only [Option.bind_eq_bind, Option.bind_eq_some_iff, splitFrame5_cons_iff, fieldsV5_eq,
      V3.optGuard, specBody5_eq_some_iff]
    constructor
    · rintro ⟨fr, ⟨t, flags, v, k, rest', hs, hd, hm, hle, rfl⟩, fs, hf, u, hg, q, hq, hres⟩
      simp only [Option.some.injEq, Prod.mk.injEq] at hres
      obtain ⟨rfl, rfl⟩ := hres
      have hv : Spec.validV5 t flags fs = true := by
        by_cases hv : Spec.validV5 t flags fs = true
        · exact hv
        · simp [hv] at hg
      exact ⟨cb, rest, t, flags, v, k, rest', rfl, hs, hd, hm, hle, rfl, fs, hf, hv, hq⟩
    · rintro ⟨cb', rest0, t, flags, v, k, rest', heq, hs, hd, hm, hle, rfl, fs, hf, hv, hq⟩
      cases heq
      exact ⟨⟨t, flags, rest'.take v, 1 + k + v⟩, ⟨t, flags, v, k, rest', hs, hd, hm, hle, rfl⟩,
        fs, hf, (), by simp [hv], sp, hq, rfl⟩

theorem decodeV5_iff (bs : Bytes) (p : Packet) (total : Nat) :
    Spec.decodeV5 bs = some (p, total) ↔
      ∃ sp, Spec.parseV5With true bs = some (sp, total) ∧ Spec.toModelV5 sp = some p := by
  unfold Spec.decodeV5 Spec.parseV5
  simp only [Option.bind_eq_some_iff, Option.map_eq_some_iff, Prod.mk.injEq]
  constructor
  · rintro ⟨⟨sp, n⟩, hp, q, hq, rfl, rfl⟩; exact ⟨sp, hp, hq⟩
  · rintro ⟨sp, hp, hq⟩; exact ⟨(sp, total), hp, p, hq, rfl, rfl⟩

theorem decodeV5Loose_iff (bs : Bytes) (p : Packet) (total : Nat) :
    Spec.decodeV5Loose bs = some (p, total) ↔
      ∃ sp, Spec.parseV5With false bs = some (sp, total) ∧ Spec.toModelV5 sp = some p := by
  unfold Spec.decodeV5Loose
  simp only [Option.bind_eq_some_iff, Option.map_eq_some_iff, Prod.mk.injEq]
  constructor
  · rintro ⟨⟨sp, n⟩, hp, q, hq, rfl, rfl⟩; exact ⟨sp, hp, hq⟩
  · rintro ⟨sp, hp, hq⟩; exact ⟨(sp, total), hp, p, hq, rfl, rfl⟩

theorem toModel_nil (pk : Packet) : Spec.toModelV5 ⟨pk, []⟩ = some pk := by
  simp [Spec.toModelV5]

/-! ## the strict decoder, frame by frame -/

theorem take_eq_nil_iff_of_le {v : Nat} {l : Bytes} (h : v ≤ l.length) : l.take v = [] ↔ v = 0 :=
  V3.take_eq_nil_iff_of_le h

theorem model_accepts_iff5 (debug : Bool) (bs : Bytes) (term : Poll.Term) (total : Nat) (body : Bytes)
    (p : Packet) :
    (Poll.spec (pollFamily debug) bs term).1 = .ok total body p ↔
      ∃ cb rest v k rest' h, bs = cb :: rest ∧ Spec.varintDigits 4 rest = some (v, k, rest') ∧
        v ≤ rest'.length ∧ body = rest'.take v ∧ total = 1 + k + v ∧
        Header.newWith cb v = .ok h ∧ ModelBody5 debug h (rest'.take v) p := by
  cases bs with
  | nil => rw [Poll.spec_nil]; simp
  | cons cb rest =>
    rw [Poll.spec_cons]
    constructor
    · intro h
      cases hd : decodeVarIntAux ((pollFamily debug).ofCommon .invalidVarByteInt) 0 0 rest with
      | more => rw [hd] at h; cases h
      | err e => rw [hd] at h; cases h
      | panic q => rw [hd] at h; cases h
      | ok a rest' =>
        obtain ⟨v, k⟩ := a
        obtain ⟨hk, -, -⟩ := Poll.decodeVarIntAux_ok _ _ _ _ _ _ _ hd
        have hdig := (V3.decodeVarInt_iff_digits _ rest v k rest').mp hd
        rw [hd] at h
        simp only [] at h
        cases hf : Poll.finishHeader (pollFamily debug) cb (k - 1) v with
        | inr r =>
          rw [hf] at h
          simp only [] at h
          subst h
          obtain ⟨hdr, hnw, hbe, hrl, rfl, rfl⟩ := Poll.finishHeader_inr_ok_full _ _ _ _ _ _ _ hf
          have hnw' : Header.newWith cb v = .ok hdr := hnw
          have hv : v = 0 := by
            rw [← newWith_remainingLen5 hnw']; exact hrl
          subst hv
          exact ⟨cb, rest, 0, k, rest', hdr, rfl, hdig, Nat.zero_le _, rfl, by omega, hnw',
            .inl ⟨hbe, rfl⟩⟩
        | inl st =>
          obtain ⟨hdr, hnw, hbe, hne, rfl⟩ := Poll.finishHeader_inl _ _ _ _ _ hf
          have hnw' : Header.newWith cb v = .ok hdr := hnw
          have hv : (pollFamily debug).remainingLen hdr = v := newWith_remainingLen5 hnw'
          rw [hf] at h
          simp only [] at h
          split at h
          · rename_i hle
            obtain ⟨hbd, rfl, rfl⟩ := Poll.finishBody_ok_full _ _ _ _ _ _ _ h
            rw [hv] at hle hbd hne ⊢
            refine ⟨cb, rest, v, k, rest', hdr, rfl, hdig, hle, rfl, by omega, hnw', .inr ⟨hbe, ?_, hbd⟩⟩
            intro hnil
            exact hne ((take_eq_nil_iff_of_le hle).mp hnil)
          · cases h
    · rintro ⟨cb', rest0, v, k, rest', hdr, heq, hdig, hle, rfl, rfl, hnw, hmb⟩
      cases heq
      have hd := (V3.decodeVarInt_iff_digits ((pollFamily debug).ofCommon .invalidVarByteInt)
        rest v k rest').mpr hdig
      obtain ⟨hk, -, -⟩ := Poll.decodeVarIntAux_ok _ _ _ _ _ _ _ hd
      have hrl : hdr.remainingLen = v := newWith_remainingLen5 hnw
      rw [hd]
      simp only []
      have hnw' : (pollFamily debug).newWith cb v = .ok hdr := hnw
      rcases hmb with ⟨hbe, hnil⟩ | ⟨hbe, hnn, hbd⟩
      · have hv : v = 0 := (take_eq_nil_iff_of_le hle).mp hnil
        subst hv
        have hbe' : (pollFamily debug).buildEmpty hdr = some p := hbe
        have hrl' : (pollFamily debug).remainingLen hdr = 0 := hrl
        have hf : Poll.finishHeader (pollFamily debug) cb (k - 1) 0 =
            .inr (.ok (1 + 1 + (k - 1)) [] p) := by
          unfold Poll.finishHeader
          rw [hnw']; simp only [hbe', hrl']; rfl
        rw [hf]
        simp only [List.take_zero]
        congr 1; omega
      · have hv : v ≠ 0 := fun hv => hnn ((take_eq_nil_iff_of_le hle).mpr hv)
        have hbe' : (pollFamily debug).buildEmpty hdr = none := hbe
        have hrl' : (pollFamily debug).remainingLen hdr = v := hrl
        have hf : Poll.finishHeader (pollFamily debug) cb (k - 1) v =
            .inl (.body hdr (1 + 1 + (k - 1) + v) v []) := by
          unfold Poll.finishHeader
          rw [hnw']; simp only [hbe', hrl', hv, if_false]
        rw [hf]
        simp only [hle, if_true]
        have hbd' : (pollFamily debug).blockDecode hdr (rest'.take v) = .ok p [] := hbd
        unfold Poll.finishBody
        rw [hbd']
        simp only [List.isEmpty_nil, if_true]
        congr 1; omega

/-- The strict decoder's answer when the body decoder refuses the (non-empty) body with an
error other than end of input. -/
theorem model_rejects_of (debug : Bool) (cb : UInt8) (rest : Bytes) (term : Poll.Term)
    (v k : Nat) (rest' : Bytes) (hdr : Header) (e : ErrorV5)
    (hdig : Spec.varintDigits 4 rest = some (v, k, rest')) (hle : v ≤ rest'.length)
    (hnw : Header.newWith cb v = .ok hdr) (hbe : buildEmptyPacket hdr = none) (hv : v ≠ 0)
    (hbd : blockDecode debug hdr (rest'.take v) = .err e) (heof : e.isEof = false) :
    (Poll.spec (pollFamily debug) (cb :: rest) term).1 = .err e := by
  rw [Poll.spec_cons]
  have hd := (V3.decodeVarInt_iff_digits ((pollFamily debug).ofCommon .invalidVarByteInt)
    rest v k rest').mpr hdig
  have hrl : hdr.remainingLen = v := newWith_remainingLen5 hnw
  rw [hd]
  simp only []
  have hnw' : (pollFamily debug).newWith cb v = .ok hdr := hnw
  have hbe' : (pollFamily debug).buildEmpty hdr = none := hbe
  have hrl' : (pollFamily debug).remainingLen hdr = v := hrl
  have hf : Poll.finishHeader (pollFamily debug) cb (k - 1) v =
      .inl (.body hdr (1 + 1 + (k - 1) + v) v []) := by
    unfold Poll.finishHeader
    rw [hnw']; simp only [hbe', hrl', hv, if_false]
  rw [hf]
  simp only [hle, if_true]
  have hbd' : (pollFamily debug).blockDecode hdr (rest'.take v) = .err e := hbd
  have heof' : (pollFamily debug).isEof e = false := heof
  unfold Poll.finishBody
  rw [hbd']
  simp only [heof', Bool.false_eq_true, if_false]

/-! ## bodies -/

theorem wrap_modelBody (debug : Bool) (h : Header) (b : Bytes) (p : Packet)
    (hbe : buildEmptyPacket h = none) {α : Type} (D : Parser ErrorV5 α) (mk : α → Packet)
    (hbd : blockDecode debug h = (do let x ← D; pure (mk x) : Parser ErrorV5 Packet))
    (hnil : D [] = .more) :
    ModelBody5 debug h b p ↔ ∃ x, D b = .ok x [] ∧ p = mk x := by
  rw [modelBody_nonempty _ _ _ _ hbe, hbd, wrap_ok_iff]
  constructor
  · rintro ⟨-, h⟩; exact h
  · rintro ⟨x, hd, hp⟩
    refine ⟨?_, x, hd, hp⟩
    rintro rfl
    rw [hnil] at hd; cases hd

theorem ackGlue (debug : Bool) (h : Header) (t : Spec.PType) (flags : UInt8) (b : Bytes) (n : Nat)
    (k : Gen.CodeKind) (ht : IsAck t) (hp : ReasonPair k t) (hl : PropList (some t) ackProps)
    (hty : h.typ.toNat = n) (hrl : h.remainingLen = b.length)
    (hbe : buildEmptyPacket h = none)
    (hbd : blockDecode debug h = (do let x ← Ack.decode k h; pure (mkAck t x) : Parser ErrorV5 Packet)) :
    (∀ sp p, specBody5 true t flags b = some sp → Spec.toModelV5 sp = some p → ModelBody5 debug h b p) ∧
    (∀ p, ModelBody5 debug h b p →
      ∃ sp, specBody5 false t flags b = some sp ∧ Spec.toModelV5 sp = some p) := by
  have hw := fun p => wrap_modelBody debug h b p hbe (Ack.decode k h) (mkAck t) hbd rfl
  constructor
  · intro sp p hs hm
    obtain ⟨x, hsh, rfl⟩ := (ackSpec true ht flags b sp).mp hs
    rw [toModel_nil] at hm
    cases hm
    exact (hw _).mpr ⟨x, (ackModel hp h b hrl x).mpr
      (hsh.mono fun _ _ _ hr => specR_modelR hl _ hr), rfl⟩
  · intro p hm
    obtain ⟨x, hd, rfl⟩ := (hw p).mp hm
    have hsh := (ackModel hp h b hrl x).mp hd
    exact ⟨_, (ackSpec false ht flags b _).mpr
      ⟨x, hsh.mono fun _ _ _ hr => modelR_specR hl (by decide) _ hr, rfl⟩, toModel_nil _⟩

theorem codesGlue (debug : Bool) (h : Header) (t : Spec.PType) (flags : UInt8) (b : Bytes)
    (k : Gen.CodeKind) (ht : IsCodes t) (hp : ReasonPair k t) (hl : PropList (some t) ackProps)
    (hrl : h.remainingLen = b.length) (hbe : buildEmptyPacket h = none)
    (hbd : blockDecode debug h =
      (do let x ← CodesAck.decode k h; pure (mkCodes t x) : Parser ErrorV5 Packet)) :
    (∀ sp p, specBody5 true t flags b = some sp → Spec.toModelV5 sp = some p → ModelBody5 debug h b p) ∧
    (∀ p, ModelBody5 debug h b p →
      ∃ sp, specBody5 false t flags b = some sp ∧ Spec.toModelV5 sp = some p) := by
  have hw := fun p => wrap_modelBody debug h b p hbe (CodesAck.decode k h) (mkCodes t) hbd rfl
  constructor
  · intro sp p hs hm
    obtain ⟨x, hsh, rfl⟩ := (codesSpec true ht flags b sp).mp hs
    rw [toModel_nil] at hm
    cases hm
    exact (hw _).mpr ⟨x, (codesModel hp h b hrl x).mpr
      (hsh.mono fun _ _ _ hr => specR_modelRA hl _ hr), rfl⟩
  · intro p hm
    obtain ⟨x, hd, rfl⟩ := (hw p).mp hm
    have hsh := (codesModel hp h b hrl x).mp hd
    exact ⟨_, (codesSpec false ht flags b _).mpr
      ⟨x, hsh.mono fun _ _ _ hr => modelRA_specR hl _ hr, rfl⟩, toModel_nil _⟩

theorem specBody5_publish_flags {m : Bool} {flags : UInt8} {b : Bytes} {sp : Spec.PacketV5}
    (h : specBody5 m .publish flags b = some sp) : Spec.pubFlagsOk flags = true := by
  obtain ⟨fs, hf, hv, -⟩ := (specBody5_eq_some_iff m .publish flags b sp).mp h
  rw [fieldsOf5_publish] at hf
  simp only [Option.bind_eq_some_iff, Option.some.injEq] at hf
  obtain ⟨x, -, y, -, z, -, rfl⟩ := hf
  simp only [Spec.validV5, Bool.and_eq_true] at hv
  exact hv.2.1.1.1.1.1

theorem publishGlue (debug : Bool) (h : Header) (flags : UInt8) (b : Bytes)
    (hrel : HdrRel5 h b.length .publish flags) :
    (∀ sp p, specBody5 true .publish flags b = some sp → Spec.toModelV5 sp = some p →
      ModelBody5 debug h b p) ∧
    (∀ p, ModelBody5 debug h b p →
      ∃ sp, specBody5 false .publish flags b = some sp ∧ Spec.toModelV5 sp = some p) := by
  obtain ⟨hok, hty, hrl, hpub⟩ := hrel
  obtain ⟨hd, hq, hr⟩ := hpub rfl
  have hok' := hok rfl
  have hty' : h.typ.toNat = 3 := by rw [hty]; rfl
  have hbe : buildEmptyPacket h = none := by simp [buildEmptyPacket, hty']
  have hbd : blockDecode debug h =
      (do let x ← Publish.decode h; pure (.publish x) : Parser ErrorV5 Packet) := by
    simp [blockDecode, hty']
  have hw := fun p => wrap_modelBody debug h b p hbe (Publish.decode h) .publish hbd rfl
  constructor
  · intro sp p hs hm
    obtain ⟨topic, r1, qp, r2, raw, payload, hl, htn, hpp', hpp, hokr, hnr, hpay, rfl⟩ :=
      (publishSpec true flags b sp hok').mp hs
    obtain ⟨N, k, r, -, -, -, ht, -⟩ := (parseProps_iff _ _ _ _).mp hpp
    have hcnt : (raw.map (·.1)).count 0x0B ≤ 1 := by
      rw [← subIdsOf_length ht]
      simp only [Spec.toModelV5] at hm
      split at hm
      · cases hm
      · omega
    have hp : p = .publish (mkPublish flags qp topic payload (Spec.toProps raw)) := by
      simp only [Spec.toModelV5] at hm
      split at hm
      · cases hm
      · exact (Option.some.inj hm).symm
    subst hp
    have hnrS := strict_of_nr _ _ hnr (fun _ => hcnt)
    have hR : ModelRA (.packet h.typ) publishProps r2 (Spec.toProps raw) payload :=
      specR_modelRA pl_publish _ ⟨raw, hpp, hokr, hnrS, rfl⟩
    exact (hw _).mpr ⟨_, (publishModel h flags b hrl hd hq hr hok' _).mpr
      ⟨topic, r1, qp, r2, _, payload, hl, htn, hpp', hR,
        fun hg => hpay ((toProps_get_pfi ht hnrS).mp hg), rfl⟩, rfl⟩
  · intro p hm
    obtain ⟨x, hdec, rfl⟩ := (hw p).mp hm
    obtain ⟨topic, r1, qp, r2, ps, payload, hl, htn, hpp', hR, hutf, rfl⟩ :=
      (publishModel h flags b hrl hd hq hr hok' x).mp hdec
    obtain ⟨raw, hpp, hokr, hnrS, rfl⟩ := modelRA_specR pl_publish _ hR
    obtain ⟨N, k, r, -, -, -, ht, -⟩ := (parseProps_iff _ _ _ _).mp hpp
    refine ⟨_, (publishSpec false flags b _ hok').mpr ⟨topic, r1, qp, r2, raw, payload, hl, htn, hpp',
      hpp, hokr, nr_of_strict _ _ hnrS, fun hmem => hutf ((toProps_get_pfi ht hnrS).mpr hmem), rfl⟩, ?_⟩
    have hcnt := strict_count _ hnrS
    rw [← subIdsOf_length ht] at hcnt
    simp only [Spec.toModelV5]
    rw [if_neg (by omega)]

/-- Completeness and soundness of the body decoders on an exact body. -/
theorem body_glue (debug : Bool) (h : Header) (t : Spec.PType) (flags : UInt8) (b : Bytes)
    (hrel : HdrRel5 h b.length t flags) :
    (∀ sp p, specBody5 true t flags b = some sp → Spec.toModelV5 sp = some p → ModelBody5 debug h b p) ∧
    (∀ p, ModelBody5 debug h b p →
      ∃ sp, specBody5 false t flags b = some sp ∧ Spec.toModelV5 sp = some p) := by
  have hrel' := hrel
  obtain ⟨-, hty, hrl, -⟩ := hrel
  cases t with
  | publish => exact publishGlue debug h flags b hrel'
  | connect =>
    have hty' : h.typ.toNat = 1 := by rw [hty]; rfl
    have hbe : buildEmptyPacket h = none := by simp [buildEmptyPacket, hty']
    have hbd : blockDecode debug h =
        (do let x ← Connect.decode h; pure (.connect x) : Parser ErrorV5 Packet) := by
      simp [blockDecode, hty']
    have hw := fun p => wrap_modelBody debug h b p hbe (Connect.decode h) .connect hbd rfl
    constructor
    · intro sp p hs hm
      obtain ⟨x, hsh, rfl⟩ := (connectSpec true flags b sp).mp hs
      rw [toModel_nil] at hm
      cases hm
      exact (hw _).mpr ⟨x, (connectModel h b x).mpr
        (hsh.mono (fun _ _ _ hr => specR_modelR pl_connect _ hr)
          (fun _ _ _ hr => specR_modelR pl_will _ hr)), rfl⟩
    · intro p hm
      obtain ⟨x, hd, rfl⟩ := (hw p).mp hm
      have hsh := (connectModel h b x).mp hd
      exact ⟨_, (connectSpec false flags b _).mpr
        ⟨x, hsh.mono (fun _ _ _ hr => modelR_specR pl_connect (by decide) _ hr)
          (fun _ _ _ hr => modelR_specR pl_will (by decide) _ hr), rfl⟩, toModel_nil _⟩
  | connack =>
    have hty' : h.typ.toNat = 2 := by rw [hty]; rfl
    have hbe : buildEmptyPacket h = none := by simp [buildEmptyPacket, hty']
    have hbd : blockDecode debug h =
        (do let x ← Connack.decode h; pure (.connack x) : Parser ErrorV5 Packet) := by
      simp [blockDecode, hty']
    have hw := fun p => wrap_modelBody debug h b p hbe (Connack.decode h) .connack hbd rfl
    constructor
    · intro sp p hs hm
      obtain ⟨x, hsh, rfl⟩ := (connackSpec true flags b sp).mp hs
      rw [toModel_nil] at hm
      cases hm
      exact (hw _).mpr ⟨x, (connackModel h b x).mpr
        (hsh.mono fun _ _ _ hr => specR_modelR pl_connack _ hr), rfl⟩
    · intro p hm
      obtain ⟨x, hd, rfl⟩ := (hw p).mp hm
      have hsh := (connackModel h b x).mp hd
      exact ⟨_, (connackSpec false flags b _).mpr
        ⟨x, hsh.mono fun _ _ _ hr => modelR_specR pl_connack (by decide) _ hr, rfl⟩, toModel_nil _⟩
  | puback =>
    have hty' : h.typ.toNat = 4 := by rw [hty]; rfl
    exact ackGlue debug h .puback flags b 4 .pubackReason (.inl rfl) reason_puback pl_puback hty' hrl
      (by simp [buildEmptyPacket, hty']) (by simp [blockDecode, hty', mkAck])
  | pubrec =>
    have hty' : h.typ.toNat = 5 := by rw [hty]; rfl
    exact ackGlue debug h .pubrec flags b 5 .pubrecReason (.inr (.inl rfl)) reason_pubrec pl_pubrec
      hty' hrl (by simp [buildEmptyPacket, hty']) (by simp [blockDecode, hty', mkAck])
  | pubrel =>
    have hty' : h.typ.toNat = 6 := by rw [hty]; rfl
    exact ackGlue debug h .pubrel flags b 6 .pubrelReason (.inr (.inr (.inl rfl))) reason_pubrel
      pl_pubrel hty' hrl (by simp [buildEmptyPacket, hty']) (by simp [blockDecode, hty', mkAck])
  | pubcomp =>
    have hty' : h.typ.toNat = 7 := by rw [hty]; rfl
    exact ackGlue debug h .pubcomp flags b 7 .pubcompReason (.inr (.inr (.inr rfl))) reason_pubcomp
      pl_pubcomp hty' hrl (by simp [buildEmptyPacket, hty']) (by simp [blockDecode, hty', mkAck])
  | subscribe =>
    have hty' : h.typ.toNat = 8 := by rw [hty]; rfl
    have hbe : buildEmptyPacket h = none := by simp [buildEmptyPacket, hty']
    have hbd : blockDecode debug h =
        (do let x ← Subscribe.decode debug h; pure (.subscribe x) : Parser ErrorV5 Packet) := by
      simp [blockDecode, hty']
    have hw := fun p => wrap_modelBody debug h b p hbe (Subscribe.decode debug h) .subscribe hbd rfl
    constructor
    · intro sp p hs hm
      obtain ⟨x, hsh, rfl⟩ := (subscribeSpec true flags b sp).mp hs
      rw [toModel_nil] at hm
      cases hm
      exact (hw _).mpr ⟨x, (subscribeModel debug h b hrl x).mpr
        (hsh.mono fun _ _ _ hr => specR_modelRA pl_subscribe _ hr), rfl⟩
    · intro p hm
      obtain ⟨x, hd, rfl⟩ := (hw p).mp hm
      have hsh := (subscribeModel debug h b hrl x).mp hd
      exact ⟨_, (subscribeSpec false flags b _).mpr
        ⟨x, hsh.mono fun _ _ _ hr => modelRA_specR pl_subscribe _ hr, rfl⟩, toModel_nil _⟩
  | suback =>
    have hty' : h.typ.toNat = 9 := by rw [hty]; rfl
    exact codesGlue debug h .suback flags b .subscribeReason (.inl rfl) reason_suback pl_suback hrl
      (by simp [buildEmptyPacket, hty']) (by simp [blockDecode, hty', mkCodes])
  | unsubscribe =>
    have hty' : h.typ.toNat = 10 := by rw [hty]; rfl
    have hbe : buildEmptyPacket h = none := by simp [buildEmptyPacket, hty']
    have hbd : blockDecode debug h =
        (do let x ← Unsubscribe.decode debug h; pure (.unsubscribe x) : Parser ErrorV5 Packet) := by
      simp [blockDecode, hty']
    have hw := fun p => wrap_modelBody debug h b p hbe (Unsubscribe.decode debug h) .unsubscribe hbd rfl
    constructor
    · intro sp p hs hm
      obtain ⟨x, hsh, rfl⟩ := (unsubscribeSpec true flags b sp).mp hs
      rw [toModel_nil] at hm
      cases hm
      exact (hw _).mpr ⟨x, (unsubscribeModel debug h b hrl x).mpr
        (hsh.mono fun _ _ _ hr => specR_modelR pl_unsubscribe _ hr), rfl⟩
    · intro p hm
      obtain ⟨x, hd, rfl⟩ := (hw p).mp hm
      have hsh := (unsubscribeModel debug h b hrl x).mp hd
      exact ⟨_, (unsubscribeSpec false flags b _).mpr
        ⟨x, hsh.mono fun _ _ _ hr => modelR_specR pl_unsubscribe (by decide) _ hr, rfl⟩, toModel_nil _⟩
  | unsuback =>
    have hty' : h.typ.toNat = 11 := by rw [hty]; rfl
    exact codesGlue debug h .unsuback flags b .unsubscribeReason (.inr rfl) reason_unsuback pl_unsuback
      hrl (by simp [buildEmptyPacket, hty']) (by simp [blockDecode, hty', mkCodes])
  | pingreq =>
    have hty' : h.typ.toNat = 12 := by rw [hty]; rfl
    constructor
    · intro sp p hs hm
      obtain ⟨rfl, rfl⟩ := (pingSpec true .pingreq .pingreq (.inl ⟨rfl, rfl⟩) flags b sp).mp hs
      rw [toModel_nil] at hm
      cases hm
      exact (pingModel debug h [] _ .pingreq (.inl ⟨hty', rfl⟩)).mpr ⟨rfl, rfl⟩
    · intro p hm
      obtain ⟨rfl, rfl⟩ := (pingModel debug h b p .pingreq (.inl ⟨hty', rfl⟩)).mp hm
      exact ⟨_, (pingSpec false .pingreq .pingreq (.inl ⟨rfl, rfl⟩) flags [] _).mpr ⟨rfl, rfl⟩,
        toModel_nil _⟩
  | pingresp =>
    have hty' : h.typ.toNat = 13 := by rw [hty]; rfl
    constructor
    · intro sp p hs hm
      obtain ⟨rfl, rfl⟩ := (pingSpec true .pingresp .pingresp (.inr ⟨rfl, rfl⟩) flags b sp).mp hs
      rw [toModel_nil] at hm
      cases hm
      exact (pingModel debug h [] _ .pingresp (.inr ⟨hty', rfl⟩)).mpr ⟨rfl, rfl⟩
    · intro p hm
      obtain ⟨rfl, rfl⟩ := (pingModel debug h b p .pingresp (.inr ⟨hty', rfl⟩)).mp hm
      exact ⟨_, (pingSpec false .pingresp .pingresp (.inr ⟨rfl, rfl⟩) flags [] _).mpr ⟨rfl, rfl⟩,
        toModel_nil _⟩
  | disconnect =>
    have hty' : h.typ.toNat = 14 := by rw [hty]; rfl
    constructor
    · intro sp p hs hm
      obtain ⟨x, hsh, rfl⟩ := (disconnectSpec true flags b sp).mp hs
      rw [toModel_nil] at hm
      cases hm
      exact (disconnectModel debug h b _ hty' hrl).mpr
        ⟨x, hsh.mono fun _ _ _ hr => specR_modelR pl_disconnect _ hr, rfl⟩
    · intro p hm
      obtain ⟨x, hsh, rfl⟩ := (disconnectModel debug h b p hty' hrl).mp hm
      exact ⟨_, (disconnectSpec false flags b _).mpr
        ⟨x, hsh.mono fun _ _ _ hr => modelR_specR pl_disconnect (by decide) _ hr, rfl⟩, toModel_nil _⟩
  | auth =>
    have hty' : h.typ.toNat = 15 := by rw [hty]; rfl
    constructor
    · intro sp p hs hm
      obtain ⟨x, hsh, rfl⟩ := (authSpec true flags b sp).mp hs
      rw [toModel_nil] at hm
      cases hm
      exact (authModel debug h b _ hty' hrl).mpr
        ⟨x, hsh.mono fun _ _ _ hr => specR_modelR pl_auth _ hr, rfl⟩
    · intro p hm
      obtain ⟨x, hsh, rfl⟩ := (authModel debug h b p hty' hrl).mp hm
      exact ⟨_, (authSpec false flags b _).mpr
        ⟨x, hsh.mono fun _ _ _ hr => modelR_specR pl_auth (by decide) _ hr, rfl⟩, toModel_nil _⟩

/-! ## K1 -/

/-- `Publish::decode_async` stops with the error of `decode_properties!`. -/
theorem publishDecode_err (h : Header) (flags : UInt8) (b : Bytes) (hrl : h.remainingLen = b.length)
    (hq : h.qos.toNat = Spec.pubQos flags) (hq3 : Spec.pubQos flags ≠ 3)
    (topic r1 : Bytes) (qp : QosPid) (r2 : Bytes) (e : ErrorV5)
    (hl : Spec.lenPrefixed b = some (topic, r1)) (hv : Utf8.valid topic = true)
    (hpp : PidPart flags r1 qp r2)
    (hdp : decodeProps (.packet h.typ) publishProps r2 = .err e) :
    Publish.decode h b = .err e := by
  have hlen := V3.lenPrefixed_length hl
  have hl21 := hpp.length
  have h1 : liftC readString b = .ok topic r1 := (readString_ok_iff _ _ _).mpr ⟨hl, hv⟩
  have h2 : checkedSub h.remainingLen (2 + topic.length) (ErrorV5.common .invalidRemainingLength) r1 =
      .ok r1.length r1 := (checkedSub_ok_iff _ _ _ _ _ _).mpr ⟨by omega, by omega, rfl⟩
  have h3 : pubPidBlock h r1.length r1 = .ok (qp, r2.length) r2 :=
    (pubPidBlock_ok_iff h flags hq hq3 _ _ _ _ _).mpr ⟨hpp, by omega, by omega⟩
  rw [publishDecode_eq]
  simp only [Parser.bind_apply, h1, Res.bind_ok, h2, h3, hdp]
  rfl

theorem body_k1 (debug : Bool) (h : Header) (t : Spec.PType) (flags : UInt8) (b : Bytes)
    (hrel : HdrRel5 h b.length t flags) (sp : Spec.PacketV5)
    (hs : specBody5 true t flags b = some sp) (hm : Spec.toModelV5 sp = none) :
    buildEmptyPacket h = none ∧ b ≠ [] ∧
      blockDecode debug h b = .err (.duplicatedProperty 0x0B) := by
  obtain ⟨hok, hty, hrl, hpub⟩ := hrel
  cases t with
  | publish =>
    obtain ⟨hd, hq, hr⟩ := hpub rfl
    have hok' := hok rfl
    have hq3 : Spec.pubQos flags ≠ 3 := by
      simp [Spec.pubFlagsOk] at hok'; exact hok'.1
    have hty' : h.typ.toNat = 3 := by rw [hty]; rfl
    have hbe : buildEmptyPacket h = none := by simp [buildEmptyPacket, hty']
    have hbd : blockDecode debug h =
        (do let x ← Publish.decode h; pure (.publish x) : Parser ErrorV5 Packet) := by
      simp [blockDecode, hty']
    obtain ⟨topic, r1, qp, r2, raw, payload, hl, htn, hpp', hpp, hokr, hnr, hpay, rfl⟩ :=
      (publishSpec true flags b sp hok').mp hs
    obtain ⟨N, k, r, -, -, -, ht, -⟩ := (parseProps_iff _ _ _ _).mp hpp
    have hcnt : 2 ≤ (raw.map (·.1)).count 0x0B := by
      rw [← subIdsOf_length ht]
      simp only [Spec.toModelV5] at hm
      split at hm
      · omega
      · cases hm
    have hdp := decodeProps_k1 pl_publish (.packet h.typ) r2 raw payload hpp hokr hnr hcnt
    have hdec := publishDecode_err h flags b hrl hq hq3 topic r1 qp r2 _ hl
      (V3.isTopicName_valid htn) hpp' hdp
    refine ⟨hbe, ?_, ?_⟩
    · rintro rfl
      simp [Spec.lenPrefixed] at hl
    · rw [hbd, Parser.bind_apply, hdec]; rfl
  | connect =>
    obtain ⟨x, -, rfl⟩ := (connectSpec true flags b sp).mp hs
    rw [toModel_nil] at hm; cases hm
  | connack =>
    obtain ⟨x, -, rfl⟩ := (connackSpec true flags b sp).mp hs
    rw [toModel_nil] at hm; cases hm
  | puback =>
    obtain ⟨x, -, rfl⟩ := (ackSpec true (.inl rfl) flags b sp).mp hs
    rw [toModel_nil] at hm; cases hm
  | pubrec =>
    obtain ⟨x, -, rfl⟩ := (ackSpec true (.inr (.inl rfl)) flags b sp).mp hs
    rw [toModel_nil] at hm; cases hm
  | pubrel =>
    obtain ⟨x, -, rfl⟩ := (ackSpec true (.inr (.inr (.inl rfl))) flags b sp).mp hs
    rw [toModel_nil] at hm; cases hm
  | pubcomp =>
    obtain ⟨x, -, rfl⟩ := (ackSpec true (.inr (.inr (.inr rfl))) flags b sp).mp hs
    rw [toModel_nil] at hm; cases hm
  | subscribe =>
    obtain ⟨x, -, rfl⟩ := (subscribeSpec true flags b sp).mp hs
    rw [toModel_nil] at hm; cases hm
  | suback =>
    obtain ⟨x, -, rfl⟩ := (codesSpec true (.inl rfl) flags b sp).mp hs
    rw [toModel_nil] at hm; cases hm
  | unsubscribe =>
    obtain ⟨x, -, rfl⟩ := (unsubscribeSpec true flags b sp).mp hs
    rw [toModel_nil] at hm; cases hm
  | unsuback =>
    obtain ⟨x, -, rfl⟩ := (codesSpec true (.inr rfl) flags b sp).mp hs
    rw [toModel_nil] at hm; cases hm
  | pingreq =>
    obtain ⟨-, rfl⟩ := (pingSpec true .pingreq .pingreq (.inl ⟨rfl, rfl⟩) flags b sp).mp hs
    rw [toModel_nil] at hm; cases hm
  | pingresp =>
    obtain ⟨-, rfl⟩ := (pingSpec true .pingresp .pingresp (.inr ⟨rfl, rfl⟩) flags b sp).mp hs
    rw [toModel_nil] at hm; cases hm
  | disconnect =>
    obtain ⟨x, -, rfl⟩ := (disconnectSpec true flags b sp).mp hs
    rw [toModel_nil] at hm; cases hm
  | auth =>
    obtain ⟨x, -, rfl⟩ := (authSpec true flags b sp).mp hs
    rw [toModel_nil] at hm; cases hm

/-! ## acceptance and values -/

/-- Completeness: every frame of the grammar that the packet type can represent is accepted by
the strict decoder, with the same values and size. -/
theorem spec_to_model5 (debug : Bool) (bs : Bytes) (term : Poll.Term) (total : Nat)
    (p : Packet) (h : Spec.decodeV5 bs = some (p, total)) :
    ∃ body, (Poll.spec (pollFamily debug) bs term).1 = .ok total body p := by
  obtain ⟨sp, hp, hm⟩ := (decodeV5_iff bs p total).mp h
  obtain ⟨cb, rest, t, flags, v, k, rest', rfl, hs, hdig, hmin, hle, rfl, hsb⟩ :=
    (parseV5With_iff true bs sp total).mp hp
  have hlen : (rest'.take v).length = v := by rw [List.length_take, Nat.min_eq_left hle]
  obtain ⟨hdr, hnw, hrel⟩ := spec_ok_newWith5 v hs
    (fun ht => by subst ht; exact specBody5_publish_flags hsb)
  have hrel' : HdrRel5 hdr (rest'.take v).length t flags := by rw [hlen]; exact hrel
  have hmb := (body_glue debug hdr t flags (rest'.take v) hrel').1 sp p hsb hm
  exact ⟨rest'.take v, (model_accepts_iff5 debug _ term _ _ p).mpr
    ⟨cb, rest, v, k, rest', hdr, rfl, hdig, hle, rfl, rfl, hnw, hmb⟩⟩

/-- Soundness: what the strict decoder accepts is a frame of the grammar that tolerates
non-minimal variable byte integers, with the same values and size. -/
theorem model_to_spec5 (debug : Bool) (bs : Bytes) (term : Poll.Term) (total : Nat) (body : Bytes)
    (p : Packet) (h : (Poll.spec (pollFamily debug) bs term).1 = .ok total body p) :
    Spec.decodeV5Loose bs = some (p, total) := by
  obtain ⟨cb, rest, v, k, rest', hdr, rfl, hdig, hle, rfl, rfl, hnw, hmb⟩ :=
    (model_accepts_iff5 debug bs term total body p).mp h
  obtain ⟨t, flags, hs, hrel⟩ := newWith_ok_spec5 hnw
  have hlen : (rest'.take v).length = v := by rw [List.length_take, Nat.min_eq_left hle]
  rw [← hlen] at hrel
  obtain ⟨sp, hsb, hm⟩ := (body_glue debug hdr t flags (rest'.take v) hrel).2 p hmb
  exact (decodeV5Loose_iff _ p _).mpr ⟨sp, (parseV5With_iff false _ sp _).mpr
    ⟨cb, rest, t, flags, v, k, rest', rfl, hs, hdig, (fun hm => by cases hm), hle, rfl, hsb⟩, hm⟩

/-- K1: a frame of the grammar that the packet type cannot represent (a PUBLISH with several
Subscription Identifiers) is refused with `DuplicatedProperty(SubscriptionIdentifier)`. -/
theorem spec_k1 (debug : Bool) (bs : Bytes) (sp : Spec.PacketV5) (total : Nat) (term : Poll.Term)
    (h : Spec.parseV5 bs = some (sp, total)) (hm : Spec.toModelV5 sp = none) :
    (Poll.spec (pollFamily debug) bs term).1 = .err (.duplicatedProperty 0x0B) := by
  obtain ⟨cb, rest, t, flags, v, k, rest', rfl, hs, hdig, hmin, hle, rfl, hsb⟩ :=
    (parseV5With_iff true bs sp total).mp h
  have hlen : (rest'.take v).length = v := by rw [List.length_take, Nat.min_eq_left hle]
  obtain ⟨hdr, hnw, hrel⟩ := spec_ok_newWith5 v hs
    (fun ht => by subst ht; exact specBody5_publish_flags hsb)
  have hrel' : HdrRel5 hdr (rest'.take v).length t flags := by rw [hlen]; exact hrel
  obtain ⟨hbe, hne, hbd⟩ := body_k1 debug hdr t flags (rest'.take v) hrel' sp hsb hm
  have hv : v ≠ 0 := fun hv => hne ((take_eq_nil_iff_of_le hle).mpr hv)
  exact model_rejects_of debug cb rest term v k rest' hdr _ hdig hle hnw hbe hv hbd rfl

end Mqtt.V5
