import Mqtt.IO
import Properties.C02V3
import Properties.C02V5

namespace Mqtt.IO
open Mqtt
-- lemmas about writeAll / writePieces

/-- Fuel-free version of `writeAllAux`: structural on the script. -/
def run : Bytes → List SinkItem → Bytes → Nat → WriteOut
  | buf, [], acc, p => ⟨acc ++ buf, .ok (), p, []⟩
  | buf, it :: s, acc, p =>
    if buf.isEmpty then ⟨acc, .ok (), p, it :: s⟩ else
    match it with
    | .accept n =>
      let k := min (max n 1) buf.length
      run (buf.drop k) s (acc ++ buf.take k) p
    | .pending => run buf s acc (p + 1)
    | .zero => ⟨acc, .error .writeZero, p, s⟩
    | .err k => ⟨acc, .error k, p, s⟩

/-- Fuel sufficiency: with more fuel than script items the "out of fuel" branch is
unreachable and `writeAllAux` is the fuel-free `run`. -/
theorem writeAllAux_eq_run (script : List SinkItem) :
    ∀ (fuel : Nat) (buf acc : Bytes) (p : Nat), script.length + 1 ≤ fuel →
      writeAllAux fuel buf script acc p = run buf script acc p := by
  induction script with
  | nil =>
    intro fuel buf acc p hf
    obtain ⟨f, rfl⟩ : ∃ f, fuel = f + 1 := ⟨fuel - 1, by omega⟩
    by_cases hb : buf.isEmpty = true
    · have : buf = [] := List.isEmpty_iff.mp hb
      subst this
      simp only [writeAllAux, run, List.isEmpty_nil, if_true, List.append_nil]
    · simp only [writeAllAux, run, hb, Bool.false_eq_true, if_false]
  | cons it s ih =>
    intro fuel buf acc p hf
    obtain ⟨f, rfl⟩ : ∃ f, fuel = f + 1 := ⟨fuel - 1, by omega⟩
    have hf' : s.length + 1 ≤ f := by simp only [List.length_cons] at hf; omega
    by_cases hb : buf.isEmpty = true
    · simp only [writeAllAux, run, hb, if_true]
    · cases it with
      | accept n => simp only [writeAllAux, run, hb, Bool.false_eq_true, if_false]; exact ih _ _ _ _ hf'
      | pending => simp only [writeAllAux, run, hb, Bool.false_eq_true, if_false]; exact ih _ _ _ _ hf'
      | zero => simp only [writeAllAux, run, hb, Bool.false_eq_true, if_false]
      | err k => simp only [writeAllAux, run, hb, Bool.false_eq_true, if_false]

theorem writeAll_eq_run (buf : Bytes) (script : List SinkItem) :
    writeAll buf script = run buf script [] 0 :=
  writeAllAux_eq_run script _ buf [] 0 (by omega)

theorem faultFree_cons (it : SinkItem) (s : List SinkItem) :
    faultFree (it :: s) = ((match it with | .accept _ => true | .pending => true | _ => false) &&
      faultFree s) := by
  cases it <;> rfl

/-- Invariant: what was written extends the accumulator by a prefix of the buffer. -/
theorem run_prefix (script : List SinkItem) :
    ∀ (buf acc : Bytes) (p : Nat),
      ∃ w r, (run buf script acc p).written = acc ++ w ∧ buf = w ++ r := by
  induction script with
  | nil => intro buf acc p; exact ⟨buf, [], rfl, (List.append_nil _).symm⟩
  | cons it s ih =>
    intro buf acc p
    by_cases hb : buf.isEmpty = true
    · exact ⟨[], buf, by simp only [run, hb, if_true, List.append_nil], rfl⟩
    · cases it with
      | accept n =>
        simp only [run, hb, Bool.false_eq_true, if_false]
        obtain ⟨w, r, hw, hr⟩ := ih (buf.drop (min (max n 1) buf.length))
          (acc ++ buf.take (min (max n 1) buf.length)) p
        refine ⟨buf.take (min (max n 1) buf.length) ++ w, r, ?_, ?_⟩
        · rw [hw, List.append_assoc]
        · rw [List.append_assoc, ← hr, List.take_append_drop]
      | pending =>
        simp only [run, hb, Bool.false_eq_true, if_false]
        exact ih buf acc (p + 1)
      | zero =>
        exact ⟨[], buf, by simp only [run, hb, Bool.false_eq_true, if_false, List.append_nil], rfl⟩
      | err k =>
        exact ⟨[], buf, by simp only [run, hb, Bool.false_eq_true, if_false, List.append_nil], rfl⟩

/-- A succeeding `write_all` delivered everything. -/
theorem run_ok_complete (script : List SinkItem) :
    ∀ (buf acc : Bytes) (p : Nat), (run buf script acc p).result = .ok () →
      (run buf script acc p).written = acc ++ buf := by
  induction script with
  | nil => intro buf acc p _; rfl
  | cons it s ih =>
    intro buf acc p
    by_cases hb : buf.isEmpty = true
    · have : buf = [] := List.isEmpty_iff.mp hb
      subst this
      intro _
      simp only [run, List.isEmpty_nil, if_true, List.append_nil]
    · cases it with
      | accept n =>
        simp only [run, hb, Bool.false_eq_true, if_false]
        intro h
        rw [ih _ _ _ h, List.append_assoc, List.take_append_drop]
      | pending =>
        simp only [run, hb, Bool.false_eq_true, if_false]
        exact ih buf acc (p + 1)
      | zero => simp only [run, hb, Bool.false_eq_true, if_false, reduceCtorEq, false_imp_iff]
      | err k => simp only [run, hb, Bool.false_eq_true, if_false, reduceCtorEq, false_imp_iff]

/-- Over a fault-free script `write_all` delivers everything, succeeds, counts at most
the Pendings of the script, and leaves a fault-free script. -/
theorem run_faultFree (script : List SinkItem) :
    ∀ (buf acc : Bytes) (p : Nat), faultFree script = true →
      (run buf script acc p).written = acc ++ buf ∧ (run buf script acc p).result = .ok () ∧
      (run buf script acc p).pendings ≤ p + (script.filter (· == .pending)).length ∧
      faultFree (run buf script acc p).rest = true := by
  induction script with
  | nil => intro buf acc p _; exact ⟨rfl, rfl, Nat.le_refl _, rfl⟩
  | cons it s ih =>
    intro buf acc p hff
    rw [faultFree_cons, Bool.and_eq_true] at hff
    by_cases hb : buf.isEmpty = true
    · have : buf = [] := List.isEmpty_iff.mp hb
      subst this
      simp only [run, List.isEmpty_nil, if_true, List.append_nil, true_and]
      refine ⟨Nat.le_add_right _ _, ?_⟩
      rw [faultFree_cons, Bool.and_eq_true]; exact hff
    · cases it with
      | accept n =>
        simp only [run, hb, Bool.false_eq_true, if_false]
        obtain ⟨h1, h2, h3, h4⟩ := ih (buf.drop (min (max n 1) buf.length))
          (acc ++ buf.take (min (max n 1) buf.length)) p hff.2
        refine ⟨?_, h2, ?_, h4⟩
        · rw [h1, List.append_assoc, List.take_append_drop]
        · have : (List.filter (· == SinkItem.pending) (SinkItem.accept n :: s)) =
              List.filter (· == SinkItem.pending) s := by
            rw [List.filter_cons_of_neg (by simp only [beq_iff_eq, reduceCtorEq, not_false_eq_true])]
          rw [this]; exact h3
      | pending =>
        simp only [run, hb, Bool.false_eq_true, if_false]
        obtain ⟨h1, h2, h3, h4⟩ := ih buf acc (p + 1) hff.2
        refine ⟨h1, h2, ?_, h4⟩
        have : (List.filter (· == SinkItem.pending) (SinkItem.pending :: s)) =
            SinkItem.pending :: List.filter (· == SinkItem.pending) s := by
          rw [List.filter_cons_of_pos (by decide)]
        rw [this, List.length_cons]; omega
      | zero => exact absurd hff.1 (by decide)
      | err k => exact absurd hff.1 (by simp only [Bool.false_eq_true, not_false_eq_true])

/-- Bytes a fault-free script prefix accepts out of `rem` remaining bytes (same
equations as `C14.W.accepted`). -/
def acceptedN : Nat → List SinkItem → Nat
  | _, [] => 0
  | rem, .accept n :: s => min (max n 1) rem + acceptedN (rem - min (max n 1) rem) s
  | rem, _ :: s => acceptedN rem s

theorem run_fault (pre : List SinkItem) (fault : SinkItem) (post : List SinkItem)
    (hfault : fault = .zero ∨ ∃ k, fault = .err k) :
    ∀ (buf acc : Bytes) (p : Nat), faultFree pre = true → acceptedN buf.length pre < buf.length →
      (run buf (pre ++ fault :: post) acc p).result =
          .error (match fault with | .err k => k | _ => .writeZero) ∧
      (run buf (pre ++ fault :: post) acc p).written = acc ++ buf.take (acceptedN buf.length pre) := by
  induction pre with
  | nil =>
    intro buf acc p _ hs
    have hb : ¬ buf.isEmpty = true := by
      intro h; rw [List.isEmpty_iff.mp h] at hs; exact absurd hs (Nat.not_lt_zero _)
    rcases hfault with rfl | ⟨k, rfl⟩ <;>
      simp only [List.nil_append, run, hb, Bool.false_eq_true, if_false, acceptedN, List.take_zero,
        List.append_nil, and_self]
  | cons it s ih =>
    intro buf acc p hff hs
    rw [faultFree_cons, Bool.and_eq_true] at hff
    have hb : ¬ buf.isEmpty = true := by
      intro h; rw [List.isEmpty_iff.mp h] at hs; exact absurd hs (Nat.not_lt_zero _)
    cases it with
    | accept n =>
      simp only [acceptedN] at hs ⊢
      simp only [List.cons_append, run, hb, Bool.false_eq_true, if_false]
      have hl : (buf.drop (min (max n 1) buf.length)).length = buf.length - min (max n 1) buf.length :=
        List.length_drop
      obtain ⟨h1, h2⟩ := ih (buf.drop (min (max n 1) buf.length))
        (acc ++ buf.take (min (max n 1) buf.length)) p hff.2 (by rw [hl]; omega)
      refine ⟨h1, ?_⟩
      rw [h2, hl, List.append_assoc, List.take_add]
    | pending =>
      simp only [acceptedN] at hs ⊢
      simp only [List.cons_append, run, hb, Bool.false_eq_true, if_false]
      exact ih buf acc (p + 1) hff.2 hs
    | zero => exact absurd hff.1 (by decide)
    | err k => exact absurd hff.1 (by simp only [Bool.false_eq_true, not_false_eq_true])

/-! ### `writeAll` -/

theorem writeAll_prefix (buf : Bytes) (script : List SinkItem) :
    ∃ rest, buf = (writeAll buf script).written ++ rest := by
  obtain ⟨w, r, hw, hr⟩ := run_prefix script buf [] 0
  rw [writeAll_eq_run, hw, List.nil_append]
  exact ⟨r, hr⟩

theorem writeAll_ok_complete (buf : Bytes) (script : List SinkItem)
    (h : (writeAll buf script).result = .ok ()) : (writeAll buf script).written = buf := by
  rw [writeAll_eq_run] at h ⊢
  rw [run_ok_complete script buf [] 0 h, List.nil_append]

theorem writeAll_faultFree (buf : Bytes) (script : List SinkItem) (h : faultFree script = true) :
    (writeAll buf script).written = buf ∧ (writeAll buf script).result = .ok () ∧
    (writeAll buf script).pendings ≤ (script.filter (· == .pending)).length ∧
    faultFree (writeAll buf script).rest = true := by
  obtain ⟨h1, h2, h3, h4⟩ := run_faultFree script buf [] 0 h
  rw [writeAll_eq_run]
  refine ⟨by rw [h1, List.nil_append], h2, by omega, h4⟩

/-! ### `writePieces` -/

theorem writePieces_prefix (pieces : List Bytes) :
    ∀ (script : List SinkItem) (acc : Bytes) (p : Nat),
      ∃ w rest, (writePieces pieces script acc p).written = acc ++ w ∧ pieces.flatten = w ++ rest := by
  induction pieces with
  | nil => intro script acc p; exact ⟨[], [], by simp only [writePieces, List.append_nil], rfl⟩
  | cons piece rest ih =>
    intro script acc p
    cases hres : (writeAll piece script).result with
    | ok u =>
      cases u
      have hw := writeAll_ok_complete piece script hres
      obtain ⟨w, r, h1, h2⟩ := ih (writeAll piece script).rest (acc ++ (writeAll piece script).written)
        (p + (writeAll piece script).pendings)
      refine ⟨piece ++ w, r, ?_, ?_⟩
      · simp only [writePieces, hres]
        rw [h1, hw, List.append_assoc]
      · rw [List.flatten_cons, h2, List.append_assoc]
    | error k =>
      obtain ⟨r, hr⟩ := writeAll_prefix piece script
      refine ⟨(writeAll piece script).written, r ++ rest.flatten, ?_, ?_⟩
      · simp only [writePieces, hres]
      · rw [List.flatten_cons, ← List.append_assoc, ← hr]

theorem writePieces_faultFree (pieces : List Bytes) :
    ∀ (script : List SinkItem) (acc : Bytes) (p : Nat), faultFree script = true →
      (writePieces pieces script acc p).written = acc ++ pieces.flatten ∧
      (writePieces pieces script acc p).result = .ok () := by
  induction pieces with
  | nil =>
    intro script acc p _
    exact ⟨by simp only [writePieces, List.flatten_nil, List.append_nil], rfl⟩
  | cons piece rest ih =>
    intro script acc p hff
    obtain ⟨h1, h2, _, h4⟩ := writeAll_faultFree piece script hff
    obtain ⟨i1, i2⟩ := ih (writeAll piece script).rest (acc ++ (writeAll piece script).written)
      (p + (writeAll piece script).pendings) h4
    simp only [writePieces, h2]
    refine ⟨?_, i2⟩
    rw [i1, h1, List.flatten_cons, List.append_assoc]

end Mqtt.IO
