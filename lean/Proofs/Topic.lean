import Mqtt.Topic
import Spec.Topic
import Proofs.Utf8

set_option linter.unusedSimpArgs false

namespace Mqtt.Topic
open Spec

/-! ## Spec side: structure of `levels` -/

theorem levels_ne_nil (cs : List Char) : levels cs ≠ [] := by
  induction cs with
  | nil => simp [levels]
  | cons c cs ih =>
    unfold levels
    split
    · simp
    · split <;> simp

theorem levels_cons_slash (cs : List Char) : levels ('/' :: cs) = [] :: levels cs := by
  rw [levels]; simp

theorem levels_cons_ne (c : Char) (cs l : List Char) (ls) (hc : c ≠ '/') (h : levels cs = l :: ls) :
    levels (c :: cs) = (c :: l) :: ls := by
  rw [levels, if_neg hc, h]

theorem levels_of_noSlash (l : List Char) (h : '/' ∉ l) : levels l = [l] := by
  induction l with
  | nil => rfl
  | cons c l ih =>
    simp only [List.mem_cons, not_or] at h
    rw [levels_cons_ne c l l [] (fun e => h.1 e.symm) (ih h.2)]

theorem levels_append_slash (l cs : List Char) (h : '/' ∉ l) :
    levels (l ++ '/' :: cs) = l :: levels cs := by
  induction l with
  | nil => simp [levels]
  | cons c l ih =>
    simp only [List.mem_cons, not_or] at h
    simp only [List.cons_append]
    rw [levels_cons_ne c _ l (levels cs) (fun e => h.1 e.symm) (ih h.2)]

theorem split_slash (cs : List Char) :
    '/' ∉ cs ∨ ∃ l cs', cs = l ++ '/' :: cs' ∧ '/' ∉ l := by
  induction cs with
  | nil => simp
  | cons c cs ih =>
    by_cases hc : c = '/'
    · right; exact ⟨[], cs, by simp [hc], by simp⟩
    · rcases ih with h | ⟨l, cs', rfl, hl⟩
      · left; simp [h, Ne.symm hc]
      · right; exact ⟨c :: l, cs', by simp, by simp [hl, Ne.symm hc]⟩

theorem levels_eq_nil_singleton (cs : List Char) : levels cs = [[]] ↔ cs = [] := by
  constructor
  · intro h
    cases cs with
    | nil => rfl
    | cons c cs =>
      rw [levels] at h
      split at h
      · have := levels_ne_nil cs; simp_all
      · split at h <;> simp at h
  · rintro rfl; rfl

/-! ## Reference automaton for the wildcard rules -/

inductive WMode | start | mid | one | all
  deriving DecidableEq, Repr

def wStep (w : WMode) (c : Char) : Option WMode :=
  if w = .all then none
  else if c = '/' then some .start
  else if c = '#' then (if w = .start then some .all else none)
  else if c = '+' then (if w = .start then some .one else none)
  else if w = .one then none else some .mid

def wRun : WMode → List Char → Bool
  | _, [] => true
  | w, c :: cs => match wStep w c with
    | none => false
    | some w' => wRun w' cs

def tailOk (ls : List (List Char)) : Bool := ls.isEmpty || wildcardsOk ls

theorem wildcardsOk_cons (l : List Char) (ls) :
    wildcardsOk (l :: ls) = (levelOk ls.isEmpty l && tailOk ls) := by
  cases ls <;> simp [wildcardsOk, tailOk]

def wSem (w : WMode) (l : List Char) (ls : List (List Char)) : Bool :=
  match w with
  | .start => wildcardsOk (l :: ls)
  | .mid => !l.contains '#' && !l.contains '+' && tailOk ls
  | .one => l.isEmpty && tailOk ls
  | .all => l.isEmpty && ls.isEmpty

theorem wRun_eq_wSem (w : WMode) (cs : List Char) (l ls) (h : levels cs = l :: ls) :
    wRun w cs = wSem w l ls := by
  induction cs generalizing w l ls with
  | nil =>
    simp [levels] at h
    obtain ⟨rfl, rfl⟩ := h
    cases w <;> simp [wRun, wSem, tailOk, wildcardsOk, levelOk]
  | cons c cs ih =>
    obtain ⟨l', ls', h'⟩ : ∃ l' ls', levels cs = l' :: ls' := by
      cases hl : levels cs with
      | nil => exact absurd hl (levels_ne_nil cs)
      | cons a b => exact ⟨a, b, rfl⟩
    by_cases hc : c = '/'
    · subst hc
      rw [levels_cons_slash, h'] at h
      simp at h
      obtain ⟨rfl, rfl⟩ := h
      cases w <;> simp [wRun, wStep, wSem, ih _ _ _ h', tailOk, wildcardsOk, levelOk]
    · rw [levels_cons_ne c cs l' ls' hc h'] at h
      simp at h
      obtain ⟨rfl, rfl⟩ := h
      by_cases h1 : c = '#'
      · subst h1
        cases w <;> simp [wRun, wStep, wSem, ih _ _ _ h', tailOk, wildcardsOk_cons, levelOk]
        cases l' <;> cases ls' <;> simp
      · by_cases h2 : c = '+'
        · subst h2
          cases w <;> simp [wRun, wStep, wSem, ih _ _ _ h', tailOk, wildcardsOk_cons, levelOk]
          cases l' <;> simp
        · cases w <;> simp [wRun, wStep, wSem, ih _ _ _ h', tailOk, wildcardsOk_cons, levelOk, hc, h1, h2, Ne.symm h1, Ne.symm h2]
          have e1 : (c == '#') = false := by simpa using h1
          have e2 : (c == '+') = false := by simpa using h2
          simp [e1, e2]

/-! ## Model side: one loop iteration, split in a share part and a wildcard part -/

def WRel (w : WMode) (i : Nat) (st : FState) : Prop :=
  match w with
  | .start => st.hasOne = false ∧ st.hasAll = false ∧
      ((i = 0 ∧ st.lastSep = none) ∨ (∃ j, st.lastSep = some j ∧ j + 1 = i))
  | .mid => st.hasOne = false ∧ st.hasAll = false ∧ i ≠ 0 ∧ (∀ j, st.lastSep = some j → j + 1 < i)
  | .one => st.hasOne = true ∧ st.hasAll = false ∧ (i = 1 ∨ ∃ j, st.lastSep = some j ∧ j + 2 = i)
  | .all => st.hasAll = true

/-- the share-related part of one loop iteration -/
def shareUpd (st : FState) (i : Nat) (c : Char) : FState :=
  let isShared :=
    if st.isShared && decide (i < 7) && (c != SHARED_PREFIX.getD i ' ') then false
    else st.isShared
  let st := { st with isShared := isShared }
  if c = LEVEL_SEP then
    if st.isShared then
      if st.groupSep = 0 then { st with groupSep := st.byteIdx }
      else if st.filterSep = 0 then { st with filterSep := st.byteIdx }
      else st
    else st
  else st

/-- the wildcard-related part of one loop iteration -/
def wildUpd (st : FState) (i : Nat) (c : Char) : Option FState :=
  if c = LEVEL_SEP then
    if st.hasOne && (some i != st.lastSep.map (· + 2)) && (i != 1) then none
    else some { st with lastSep := some i, hasOne := false }
  else if c = MATCH_ALL then
    if decide (st.groupSep > 0) && decide (st.filterSep = 0) then none
    else if st.hasOne then none
    else if (some i == st.lastSep.map (· + 1)) || i == 0 then some { st with hasAll := true }
    else none
  else if c = MATCH_ONE then
    if decide (st.groupSep > 0) && decide (st.filterSep = 0) then none
    else if st.hasOne then none
    else if (some i == st.lastSep.map (· + 1)) || i == 0 then some { st with hasOne := true }
    else none
  else if st.hasOne then none
  else some st

theorem fstep_eq (st : FState) (i : Nat) (c : Char) :
    fstep st i c =
      if c = '\x00' then none else if st.hasAll then none
      else (wildUpd (shareUpd st i c) i c).map fun s => { s with byteIdx := s.byteIdx + c.utf8Size } := by
  unfold fstep wildUpd shareUpd
  by_cases h0 : c = '\x00'
  · rw [if_pos h0, if_pos h0]
  · rw [if_neg h0, if_neg h0]
    by_cases hA : st.hasAll = true
    · rw [if_pos hA, if_pos hA]
    · rw [if_neg hA, if_neg hA]
      by_cases hc : c = LEVEL_SEP
      · simp only [if_pos hc]
      · simp only [if_neg hc]

theorem WRel_congr (w : WMode) (i : Nat) (s t : FState) (h1 : t.lastSep = s.lastSep)
    (h2 : t.hasOne = s.hasOne) (h3 : t.hasAll = s.hasAll) : WRel w i t ↔ WRel w i s := by
  cases w <;> simp [WRel, h1, h2, h3]

@[simp] theorem shareUpd_lastSep (st i c) : (shareUpd st i c).lastSep = st.lastSep := by
  unfold shareUpd; simp only []; repeat' split
  all_goals rfl
@[simp] theorem shareUpd_hasOne (st i c) : (shareUpd st i c).hasOne = st.hasOne := by
  unfold shareUpd; simp only []; repeat' split
  all_goals rfl
@[simp] theorem shareUpd_hasAll (st i c) : (shareUpd st i c).hasAll = st.hasAll := by
  unfold shareUpd; simp only []; repeat' split
  all_goals rfl
@[simp] theorem shareUpd_byteIdx (st i c) : (shareUpd st i c).byteIdx = st.byteIdx := by
  unfold shareUpd; simp only []; repeat' split
  all_goals rfl
theorem shareUpd_groupSep_of_ne (st i c) (hc : c ≠ '/') : (shareUpd st i c).groupSep = st.groupSep := by
  unfold shareUpd; simp only [LEVEL_SEP, if_neg hc]
theorem shareUpd_filterSep_of_ne (st i c) (hc : c ≠ '/') : (shareUpd st i c).filterSep = st.filterSep := by
  unfold shareUpd; simp only [LEVEL_SEP, if_neg hc]

theorem wildUpd_spec (w : WMode) (st : FState) (i : Nat) (c : Char)
    (hw : WRel w i st) (hA : st.hasAll = false) (hg : c ≠ '/' → st.groupSep = 0 ∨ st.filterSep ≠ 0) :
    (wStep w c = none → wildUpd st i c = none) ∧
    (∀ w', wStep w c = some w' → (wildUpd st i c).isSome = true) ∧
    (∀ st' w', wildUpd st i c = some st' → wStep w c = some w' → WRel w' (i + 1) st' ∧
        st'.groupSep = st.groupSep ∧ st'.filterSep = st.filterSep ∧ st'.byteIdx = st.byteIdx ∧
        st'.isShared = st.isShared) := by
  cases hl : st.lastSep <;>
  ( by_cases hs : c = '/'
    · subst hs
      cases w <;> simp [wStep, WRel, wildUpd, LEVEL_SEP, hl, hA] at hw ⊢
      all_goals grind
    · have hg := hg hs
      by_cases h1 : c = '#'
      · subst h1
        cases w <;> simp [wStep, WRel, wildUpd, LEVEL_SEP, hl, MATCH_ALL, hA] at hw ⊢
        all_goals grind
      · by_cases h2 : c = '+'
        · subst h2
          cases w <;> simp [wStep, WRel, wildUpd, LEVEL_SEP, hl, MATCH_ALL, MATCH_ONE, hA] at hw ⊢
          all_goals grind
        · cases w <;> simp [wStep, WRel, wildUpd, LEVEL_SEP, hl, MATCH_ALL, MATCH_ONE, hA, hs, h1, h2] at hw ⊢
          all_goals grind )

/-- The share bookkeeping is frozen: never shared, or cannot become shared, or fully determined. -/
def Q (i : Nat) (st : FState) (cs : List Char) : Prop :=
  (st.isShared = false ∧ st.groupSep = 0 ∧ st.filterSep = 0) ∨
  (st.isShared = true ∧ i ≤ 6 ∧ st.groupSep = 0 ∧ st.filterSep = 0 ∧
    (SHARED_PREFIX.drop i).isPrefixOf cs = false) ∨
  (st.isShared = true ∧ 7 ≤ i ∧ st.groupSep ≠ 0 ∧ st.filterSep ≠ 0)

theorem shareUpd_Q (i : Nat) (st : FState) (c : Char) (cs : List Char) (h : Q i st (c :: cs)) :
    Q (i + 1) (shareUpd st i c) cs ∧ (shareUpd st i c).groupSep = st.groupSep ∧
      (shareUpd st i c).filterSep = st.filterSep := by
  rcases h with ⟨h1, h2, h3⟩ | ⟨h1, hi, h2, h3, h4⟩ | ⟨h1, hi, h2, h3⟩
  · simp [Q, shareUpd, h1, h2, h3]
  · have : i = 0 ∨ i = 1 ∨ i = 2 ∨ i = 3 ∨ i = 4 ∨ i = 5 ∨ i = 6 := by omega
    by_cases hm : c = SHARED_PREFIX.getD i ' '
    · rcases this with rfl | rfl | rfl | rfl | rfl | rfl | rfl
      all_goals
        simp [SHARED_PREFIX] at hm
        subst hm
        simp [SHARED_PREFIX] at h4
        try simp [Q, shareUpd, h1, h2, h3, SHARED_PREFIX, LEVEL_SEP, h4]
    · rcases this with rfl | rfl | rfl | rfl | rfl | rfl | rfl
      all_goals
        simp [SHARED_PREFIX] at hm
        simp [Q, shareUpd, h1, h2, h3, SHARED_PREFIX, LEVEL_SEP, hm]
        try (split <;> simp [*])
  · have : ¬ i < 7 := by omega
    simp [Q, shareUpd, h1, h2, h3, this]
    omega

theorem Q_congr (i : Nat) (s t : FState) (cs : List Char) (h1 : t.isShared = s.isShared)
    (h2 : t.groupSep = s.groupSep) (h3 : t.filterSep = s.filterSep) : Q i t cs ↔ Q i s cs := by
  simp [Q, h1, h2, h3]

theorem Q_free (i : Nat) (st : FState) (cs : List Char) (h : Q i st cs) :
    st.groupSep = 0 ∨ st.filterSep ≠ 0 := by
  rcases h with ⟨_, h2, _⟩ | ⟨_, _, h2, _, _⟩ | ⟨_, _, _, h3⟩
  · exact Or.inl h2
  · exact Or.inl h2
  · exact Or.inr h3

theorem WRel_hasAll (w : WMode) (i : Nat) (st : FState) (h : WRel w i st) :
    st.hasAll = decide (w = .all) := by
  cases w <;> simp_all [WRel]

theorem floop_cons (c : Char) (cs : List Char) (i : Nat) (st : FState) :
    floop (c :: cs) i st = (fstep st i c).bind (floop cs (i + 1)) := by
  rw [floop]; cases fstep st i c <;> rfl

theorem utf8Len_cons (c : Char) (cs : List Char) : utf8Len (c :: cs) = c.utf8Size + utf8Len cs := by
  simp [utf8Len]

theorem floop_frozen (w : WMode) (i : Nat) (st : FState) (cs : List Char)
    (hw : WRel w i st) (hq : Q i st cs) :
    (floop cs i st).isSome = (!cs.contains '\x00' && wRun w cs) ∧
    ∀ st', floop cs i st = some st' →
      st'.groupSep = st.groupSep ∧ st'.filterSep = st.filterSep ∧
      st'.byteIdx = st.byteIdx + utf8Len cs := by
  induction cs generalizing w i st with
  | nil => simp [floop, wRun, utf8Len]
  | cons c cs ih =>
    rw [floop_cons, fstep_eq]
    by_cases h0 : c = '\x00'
    · simp [h0]
    · have hA := WRel_hasAll w i st hw
      by_cases hall : w = .all
      · subst hall
        simp at hA
        simp [hA, h0, wRun, wStep]
      · simp [hall] at hA
        rw [if_neg h0, hA]
        simp only [Bool.false_eq_true, if_false]
        obtain ⟨hq2, hg2, hf2⟩ := shareUpd_Q i st c cs hq
        have hfree := Q_free _ _ _ hq2
        have hw2 : WRel w i (shareUpd st i c) := (WRel_congr w i st _ (by simp) (by simp) (by simp)).2 hw
        obtain ⟨hn, hs, hr⟩ := wildUpd_spec w (shareUpd st i c) i c hw2 (by simp [hA]) (fun _ => hfree)
        cases hws : wStep w c with
        | none =>
          have h0' : ('\x00' == c) = false := by simpa using Ne.symm h0
          simp [hn hws, wRun, hws]
        | some w' =>
          have := hs w' hws
          obtain ⟨st3, hst3⟩ := Option.isSome_iff_exists.1 this
          obtain ⟨hw3, hg3, hf3, hb3, hi3⟩ := hr st3 w' hst3 hws
          have hw4 : WRel w' (i + 1) { st3 with byteIdx := st3.byteIdx + c.utf8Size } :=
            (WRel_congr w' (i + 1) st3 _ rfl rfl rfl).2 hw3
          have hq4 : Q (i + 1) { st3 with byteIdx := st3.byteIdx + c.utf8Size } cs :=
            (Q_congr (i + 1) (shareUpd st i c) _ cs hi3 hg3 hf3).2 hq2
          obtain ⟨ih1, ih2⟩ := ih w' (i + 1) _ hw4 hq4
          have h0' : ('\x00' == c) = false := by simpa using Ne.symm h0
          simp only [hst3, Option.map_some, Option.bind_some, ih1, wRun, hws, List.contains_cons, h0',
            Bool.false_or, true_and]
          intro st' hst'
          obtain ⟨a, b, d⟩ := ih2 st' hst'
          simp only [a, b, d, hg3, hf3, hg2, hf2, hb3, shareUpd_byteIdx, utf8Len_cons, true_and]
          omega

/-! ## Model side: the `$share/` prefix and the share name -/

theorem floop_append (a b : List Char) (i : Nat) (st : FState) :
    floop (a ++ b) i st = (floop a i st).bind (floop b (i + a.length)) := by
  induction a generalizing i st with
  | nil => simp [floop]
  | cons c a ih =>
    simp only [List.cons_append, floop_cons, List.length_cons]
    cases fstep st i c with
    | none => rfl
    | some s =>
      simp only [Option.bind_some, ih]
      rw [show i + 1 + a.length = i + (a.length + 1) by omega]

def S1 : FState := { lastSep := some 6, byteIdx := 7, groupSep := 6 }

theorem floop_prefix (rest : List Char) :
    floop (SHARED_PREFIX ++ rest) 0 {} = floop rest 7 S1 := by
  simp [SHARED_PREFIX, floop, fstep, S1, LEVEL_SEP, MATCH_ALL, MATCH_ONE]
  rfl

/-- Inside the share name: `$share/` has been read, the second '/' not yet. -/
def InName (i : Nat) (st : FState) : Prop :=
  st.isShared = true ∧ 7 ≤ i ∧ st.groupSep ≠ 0 ∧ st.filterSep = 0 ∧ st.hasOne = false ∧
    st.hasAll = false

def badName (c : Char) : Bool := c == '\x00' || c == '#' || c == '+'

theorem fstep_name (i : Nat) (st : FState) (c : Char) (h : InName i st) (hc : c ≠ '/') :
    fstep st i c = if badName c then none
      else some { st with byteIdx := st.byteIdx + c.utf8Size } := by
  obtain ⟨h1, h2, h3, h4, h5, h6⟩ := h
  have h2' : ¬ i < 7 := by omega
  have h3' : 0 < st.groupSep := by omega
  by_cases c0 : c = '\x00'
  · simp [fstep, badName, c0]
  · by_cases c1 : c = '#'
    · simp [fstep, badName, c1, h1, h2', h3', h4, h5, h6, LEVEL_SEP, MATCH_ALL]
    · by_cases c2 : c = '+'
      · simp [fstep, badName, c2, h1, h2', h3', h4, h5, h6, LEVEL_SEP, MATCH_ALL, MATCH_ONE]
      · simp [fstep, badName, c0, c1, c2, hc, h1, h2', h3', h4, h5, h6, LEVEL_SEP, MATCH_ALL, MATCH_ONE]

theorem fstep_name_sep (i : Nat) (st : FState) (h : InName i st) :
    fstep st i '/' = some { st with filterSep := st.byteIdx, lastSep := some i,
                                    byteIdx := st.byteIdx + 1 } := by
  obtain ⟨h1, h2, h3, h4, h5, h6⟩ := h
  have h2' : ¬ i < 7 := by omega
  simp [fstep, h1, h2', h3, h4, h5, h6, LEVEL_SEP]
  rfl

theorem floop_name (n suf : List Char) (i : Nat) (st : FState) (h : InName i st) (hn : '/' ∉ n) :
    floop (n ++ suf) i st = if n.any badName then none
      else floop suf (i + n.length) { st with byteIdx := st.byteIdx + utf8Len n } := by
  induction n generalizing i st with
  | nil => simp [utf8Len]
  | cons c n ih =>
    simp only [List.mem_cons, not_or] at hn
    rw [List.cons_append, floop_cons, fstep_name i st c h (Ne.symm hn.1)]
    by_cases hb : badName c = true
    · simp [hb]
    · have h' : InName (i + 1) { st with byteIdx := st.byteIdx + c.utf8Size } := by
        obtain ⟨h1, h2, h3, h4, h5, h6⟩ := h
        exact ⟨h1, by omega, h3, h4, h5, h6⟩
      simp only [hb, if_false, Option.bind_some, ih (i + 1) _ h' hn.2, List.any_cons,
        Bool.false_or, Bool.false_eq_true, utf8Len_cons, List.length_cons]
      rw [show i + 1 + n.length = i + (n.length + 1) by omega, Nat.add_assoc]

/-! ## Spec side: shared and non-shared shapes -/

theorem levels_exists (cs : List Char) : ∃ l ls, levels cs = l :: ls := by
  cases hl : levels cs with
  | nil => exact absurd hl (levels_ne_nil cs)
  | cons a b => exact ⟨a, b, rfl⟩

theorem wildcardsOk_levels (cs : List Char) : wildcardsOk (levels cs) = wRun .start cs := by
  obtain ⟨l, ls, h⟩ := levels_exists cs
  rw [wRun_eq_wSem .start cs l ls h, h]; rfl

theorem spec_nonshared (cs : List Char) (h : SHARED_PREFIX.isPrefixOf cs = false) :
    sharedOk (levels cs) = true ∧ sharedSep cs = 0 := by
  rcases split_slash cs with hns | ⟨l, cs', rfl, hl⟩
  · simp [sharedSep, levels_of_noSlash cs hns, sharedOk]
  · obtain ⟨l1, ls, h1⟩ := levels_exists cs'
    by_cases hl0 : l = sharePrefix
    · subst hl0
      simp [SHARED_PREFIX, sharePrefix] at h
    · simp [sharedSep, levels_append_slash l cs' hl, h1, sharedOk, hl0]

theorem SHARED_PREFIX_eq : SHARED_PREFIX = sharePrefix ++ ['/'] := rfl

theorem sharePrefix_noSlash : '/' ∉ sharePrefix := by decide

theorem levels_shared (rest : List Char) :
    levels (SHARED_PREFIX ++ rest) = sharePrefix :: levels rest := by
  rw [SHARED_PREFIX_eq, List.append_assoc]
  exact levels_append_slash _ _ sharePrefix_noSlash

theorem spec_shared_noSlash (rest : List Char) (h : '/' ∉ rest) :
    validFilter (SHARED_PREFIX ++ rest) = false := by
  simp [validFilter, levels_shared, levels_of_noSlash rest h, sharedOk]

theorem utf8Len_append (a b : List Char) : utf8Len (a ++ b) = utf8Len a + utf8Len b := by
  simp [utf8Len]

theorem utf8Len_eq_zero (cs : List Char) : utf8Len cs = 0 ↔ cs = [] := by
  cases cs with
  | nil => simp [utf8Len]
  | cons c cs => 
    have := Char.utf8Size_pos c
    simp [utf8Len_cons]; omega

theorem any_badName (n : List Char) :
    n.any badName = (decide ('\x00' ∈ n) || decide ('#' ∈ n) || decide ('+' ∈ n)) := by
  induction n with
  | nil => simp
  | cons c n ih =>
    simp only [List.any_cons, ih, badName, List.mem_cons]
    have e0 : (c == '\x00') = decide ('\x00' = c) := by
      by_cases h : c = '\x00'
      · simp [h]
      · have := Ne.symm h; simp [h, this]
    have e1 : (c == '#') = decide ('#' = c) := by
      by_cases h : c = '#'
      · simp [h]
      · have := Ne.symm h; simp [h, this]
    have e2 : (c == '+') = decide ('+' = c) := by
      by_cases h : c = '+'
      · simp [h]
      · have := Ne.symm h; simp [h, this]
    rw [e0, e1, e2]
    simp only [Bool.decide_or]
    generalize decide ('\x00' = c) = a0, decide ('#' = c) = a1, decide ('+' = c) = a2,
      decide ('\x00' ∈ n) = b0, decide ('#' ∈ n) = b1, decide ('+' ∈ n) = b2
    revert a0 a1 a2 b0 b1 b2; decide

theorem spec_shared (n filt : List Char) (hn : '/' ∉ n) :
    validFilter (SHARED_PREFIX ++ (n ++ '/' :: filt)) =
      (decide (utf8Len (SHARED_PREFIX ++ (n ++ '/' :: filt)) ≤ 65535) && !n.any badName &&
        !filt.contains '\x00' && !n.isEmpty && !filt.isEmpty && wRun .start filt) ∧
    sharedSep (SHARED_PREFIX ++ (n ++ '/' :: filt)) = 7 + utf8Len n := by
  obtain ⟨l, ls, h⟩ := levels_exists filt
  have hw := wildcardsOk_levels filt
  have he := levels_eq_nil_singleton filt
  rw [h] at hw he
  constructor
  · have e1 : (l :: ls != [[]]) = !filt.isEmpty := by
      cases filt with
      | nil => simp at he; simp [he]
      | cons c f => simp at he; simpa using he
    have e2 : (SHARED_PREFIX ++ (n ++ '/' :: filt)).isEmpty = false := by simp [SHARED_PREFIX]
    have e3 : decide ('\x00' ∈ SHARED_PREFIX) = false := by decide
    have e4 : levelOk false sharePrefix = true := by decide
    simp only [validFilter, levels_shared, levels_append_slash n filt hn, h, sharedOk, wildcardsOk, hw,
      e1, e2, any_badName, levelOk, List.contains_eq_mem, List.mem_append, List.mem_cons, Bool.decide_or,
      e3, List.isEmpty_cons, if_true]
    have e5 : decide ('\x00' = '/') = false := by decide
    simp only [e5]
    generalize decide (utf8Len (SHARED_PREFIX ++ (n ++ '/' :: filt)) ≤ 65535) = a,
      decide ('\x00' ∈ n) = b0, decide ('#' ∈ n) = b1, decide ('+' ∈ n) = b2,
      decide ('\x00' ∈ filt) = c, n.isEmpty = d, filt.isEmpty = e, wRun WMode.start filt = f,
      (n == ['+']) = g, (n == ['#']) = g'
    revert a b0 b1 b2 c d e f g g'; decide
  · simp [sharedSep, levels_shared, levels_append_slash n filt hn, h]


/-! ## C16: the validator is the spec -/

def post (debug : Bool) (len : Nat) (o : Option FState) : FRes :=
  match o with
  | none => .invalid
  | some st =>
    if st.filterSep > 0 && st.filterSep == len - 1 then .invalid
    else if st.groupSep > 0 && st.filterSep == 0 then .invalid
    else if st.groupSep + 1 == st.filterSep then .invalid
    else if debug && !(st.groupSep == 0 || st.groupSep == 6) then .panic "types.rs:397 debug_assert"
    else .valid st.filterSep

theorem filterIsInvalid_eq (debug : Bool) (cs : List Char) :
    filterIsInvalid debug cs =
      if utf8Len cs > 65535 then .invalid else if cs.isEmpty then .invalid
      else post debug (utf8Len cs) (floop cs 0 {}) := rfl

theorem WRel_init : WRel .start 0 {} := by simp [WRel]

theorem filter_nonshared (debug : Bool) (cs : List Char) (hp : SHARED_PREFIX.isPrefixOf cs = false) :
    filterIsInvalid debug cs = if validFilter cs then .valid (sharedSep cs) else .invalid := by
  obtain ⟨hso, hss⟩ := spec_nonshared cs hp
  have hq : Q 0 {} cs := Or.inr (Or.inl ⟨rfl, by omega, rfl, rfl, by simpa using hp⟩)
  obtain ⟨h1, h2⟩ := floop_frozen .start 0 {} cs WRel_init hq
  rw [filterIsInvalid_eq, validFilter, hso, hss, wildcardsOk_levels]
  by_cases hlen : utf8Len cs > 65535
  · have : ¬ utf8Len cs ≤ 65535 := by omega
    simp [hlen, this]
  · have : utf8Len cs ≤ 65535 := by omega
    rw [if_neg hlen]
    by_cases he : cs.isEmpty = true
    · simp [he]
    · rw [if_neg he]
      cases hf : floop cs 0 {} with
      | none =>
        rw [hf] at h1
        simp at h1
        simp [post]
        intro _ _ h3
        exact h1 h3
      | some st =>
        rw [hf] at h1
        obtain ⟨hg, hfs, _⟩ := h2 st hf
        simp at hg hfs h1
        simp [post, hg, hfs, he, this, h1]

def S2 (n : List Char) : FState :=
  { lastSep := some (7 + n.length), byteIdx := 7 + utf8Len n + 1, groupSep := 6,
    filterSep := 7 + utf8Len n }

theorem InName_S1 (b : Nat) (i : Nat) (hi : 7 ≤ i) : InName i { S1 with byteIdx := b } :=
  ⟨rfl, hi, by simp [S1], rfl, rfl, rfl⟩

theorem utf8Len_SHARED_PREFIX : utf8Len SHARED_PREFIX = 7 := by decide

theorem filter_shared_noSlash (debug : Bool) (rest : List Char) (h : '/' ∉ rest) :
    filterIsInvalid debug (SHARED_PREFIX ++ rest) = .invalid := by
  rw [filterIsInvalid_eq, floop_prefix]
  have := floop_name rest [] 7 S1 (InName_S1 7 7 (Nat.le_refl _)) h
  rw [List.append_nil] at this
  rw [this]
  split
  · rfl
  · split
    · rfl
    · split
      · rfl
      · simp [floop, post, S1]

theorem filter_shared (debug : Bool) (n filt : List Char) (hn : '/' ∉ n) :
    filterIsInvalid debug (SHARED_PREFIX ++ (n ++ '/' :: filt)) =
      if validFilter (SHARED_PREFIX ++ (n ++ '/' :: filt)) then
        .valid (sharedSep (SHARED_PREFIX ++ (n ++ '/' :: filt))) else .invalid := by
  obtain ⟨hv, hs⟩ := spec_shared n filt hn
  rw [hv, hs, filterIsInvalid_eq, floop_prefix,
    floop_name n ('/' :: filt) 7 S1 (InName_S1 7 7 (Nat.le_refl _)) hn]
  have hlen : utf8Len (SHARED_PREFIX ++ (n ++ '/' :: filt)) = 7 + utf8Len n + 1 + utf8Len filt := by
    simp [utf8Len_append, utf8Len_cons, utf8Len_SHARED_PREFIX]
    have : Char.utf8Size '/' = 1 := by decide
    omega
  by_cases hl : utf8Len (SHARED_PREFIX ++ (n ++ '/' :: filt)) > 65535
  · have : ¬ utf8Len (SHARED_PREFIX ++ (n ++ '/' :: filt)) ≤ 65535 := by omega
    simp [hl, this]
  · have hl' : utf8Len (SHARED_PREFIX ++ (n ++ '/' :: filt)) ≤ 65535 := by omega
    rw [if_neg hl]
    have e2 : (SHARED_PREFIX ++ (n ++ '/' :: filt)).isEmpty = false := by simp [SHARED_PREFIX]
    rw [e2]
    simp only [Bool.false_eq_true, if_false]
    by_cases hb : n.any badName = true
    · simp [hb, post]
    · simp only [hb, if_false]
      have hin := InName_S1 (S1.byteIdx + utf8Len n) (7 + n.length) (by omega)
      rw [floop_cons, fstep_name_sep _ _ hin]
      simp only [Option.bind_some]
      have hS : ({ S1 with byteIdx := S1.byteIdx + utf8Len n } : FState) =
          { S1 with byteIdx := 7 + utf8Len n } := rfl
      have hS2 : ({ ({ S1 with byteIdx := S1.byteIdx + utf8Len n } : FState) with
            filterSep := S1.byteIdx + utf8Len n, lastSep := some (7 + n.length),
            byteIdx := S1.byteIdx + utf8Len n + 1 } : FState) = S2 n := rfl
      rw [hS2]
      have hw : WRel .start (7 + n.length + 1) (S2 n) := by simp [WRel, S2]
      have hq : Q (7 + n.length + 1) (S2 n) filt := by
        refine Or.inr (Or.inr ⟨rfl, by omega, ?_, ?_⟩) <;> simp [S2]
      obtain ⟨h1, h2⟩ := floop_frozen _ _ _ filt hw hq
      cases hf : floop filt (7 + n.length + 1) (S2 n) with
      | none =>
        rw [hf] at h1
        simp at h1
        simp [post]
        intro _ h3 _ _
        exact h1 h3
      | some st =>
        rw [hf] at h1
        obtain ⟨hg, hfs, _⟩ := h2 st hf
        simp [S2] at hg hfs h1
        have e3 : filt.isEmpty = decide (utf8Len filt = 0) := by
          cases filt with
          | nil => simp [utf8Len]
          | cons c f => have := Char.utf8Size_pos c; simp [utf8Len_cons]; omega
        have e4 : n.isEmpty = decide (utf8Len n = 0) := by
          cases n with
          | nil => simp [utf8Len]
          | cons c f => have := Char.utf8Size_pos c; simp [utf8Len_cons]; omega
        simp [post, hg, hfs, hl', h1, hlen, e3, e4]
        rw [hlen] at hl'
        by_cases hn0 : utf8Len n = 0 <;> by_cases hf0 : utf8Len filt = 0 <;> simp [hn0, hf0, hl'] <;> omega

theorem filterIsInvalid_spec (debug : Bool) (cs : List Char) :
    filterIsInvalid debug cs =
      if validFilter cs then .valid (sharedSep cs) else .invalid := by
  by_cases hp : SHARED_PREFIX.isPrefixOf cs = true
  · obtain ⟨rest, rfl⟩ := List.isPrefixOf_iff_prefix.1 hp
    rcases split_slash rest with h | ⟨n, filt, rfl, hn⟩
    · rw [filter_shared_noSlash debug rest h, spec_shared_noSlash rest h]; rfl
    · exact filter_shared debug n filt hn
  · exact filter_nonshared debug cs (Bool.eq_false_iff.2 hp)

/-! ## C17: char boundaries, slices and the shape of accepted shared filters -/

set_option maxRecDepth 100000 in
theorem firstByte_not_cont_aux : ∀ n, n < 256 → (UInt8.ofNat n).IsUTF8FirstByte →
    ¬(128 ≤ n ∧ n < 192) := by
  decide

theorem firstByte_not_cont (x : UInt8) (h : x.IsUTF8FirstByte) :
    (128 ≤ x.toNat && x.toNat < 192) = false := by
  have := firstByte_not_cont_aux x.toNat x.toNat_lt (by simpa using h)
  simpa using this

theorem utf8EncodeChar_head (c : Char) :
    ∃ x xs, String.utf8EncodeChar c = x :: xs ∧ (128 ≤ x.toNat && x.toNat < 192) = false := by
  have hl : 0 < (String.utf8EncodeChar c).length := by
    rw [String.length_utf8EncodeChar]; exact Char.utf8Size_pos c
  have := (UInt8.isUTF8FirstByte_getElem_utf8EncodeChar (c := c) (i := 0) (hi := hl)).2 rfl
  cases he : String.utf8EncodeChar c with
  | nil => simp [he] at hl
  | cons x xs =>
    refine ⟨x, xs, rfl, firstByte_not_cont x ?_⟩
    simpa [he] using this

open Mqtt.Utf8 in
theorem encode_append (a b : List Char) : encode (a ++ b) = encode a ++ encode b := by
  simp [encode]

def isBdry (text : Bytes) (i : Nat) : Bool :=
  i == text.length || (match text[i]? with
    | some x => !(128 ≤ x.toNat && x.toNat < 192)
    | none => false)

theorem strSlice_eq (text : Bytes) (a b : Nat) :
    strSlice text a b =
      if a ≤ b ∧ b ≤ text.length then
        if isBdry text a && isBdry text b then .ok ((text.drop a).take (b - a))
        else .error "str slice: not a char boundary"
      else .error "str slice: out of range" := rfl

open Mqtt.Utf8 in
theorem isBdry_encode (a b : List Char) : isBdry (encode (a ++ b)) (byteLen a) = true := by
  rw [encode_append, ← encode_length]
  cases b with
  | nil => simp [isBdry, encode]
  | cons c b =>
    obtain ⟨x, xs, hx, hb⟩ := utf8EncodeChar_head c
    have : encode (c :: b) = x :: (xs ++ encode b) := by
      simp [encode, hx]
    rw [this]
    simp [isBdry, hb]

open Mqtt.Utf8 in
theorem strSlice_encode (a m b : List Char) :
    strSlice (encode (a ++ m ++ b)) (byteLen a) (byteLen a + byteLen m) = .ok (encode m) := by
  have h1 : isBdry (encode (a ++ m ++ b)) (byteLen a) = true := by
    rw [List.append_assoc]; exact isBdry_encode a (m ++ b)
  have h2 : isBdry (encode (a ++ m ++ b)) (byteLen a + byteLen m) = true := by
    have := isBdry_encode (a ++ m) b
    simpa [byteLen] using this
  have hlen : (encode (a ++ m ++ b)).length = byteLen a + byteLen m + byteLen b := by
    simp [encode_length, byteLen, Nat.add_assoc]
  rw [strSlice_eq, h1, h2, hlen]
  simp [encode_append, ← encode_length]

theorem valid_spec (debug : Bool) (cs : List Char) (i : Nat)
    (h : filterIsInvalid debug cs = .valid i) : validFilter cs = true ∧ i = sharedSep cs := by
  rw [filterIsInvalid_spec] at h
  split at h
  · rename_i hv
    injection h with h
    exact ⟨hv, h.symm⟩
  · cases h

theorem shared_shape (cs : List Char) (hv : validFilter cs = true)
    (hp : SHARED_PREFIX.isPrefixOf cs = true) :
    ∃ n filt, cs = SHARED_PREFIX ++ (n ++ '/' :: filt) ∧ '/' ∉ n ∧ n ≠ [] ∧ filt ≠ [] ∧
      sharedSep cs = 7 + utf8Len n := by
  obtain ⟨rest, rfl⟩ := List.isPrefixOf_iff_prefix.1 hp
  rcases split_slash rest with h | ⟨n, filt, rfl, hn⟩
  · rw [spec_shared_noSlash rest h] at hv; cases hv
  · obtain ⟨h1, h2⟩ := spec_shared n filt hn
    rw [h1] at hv
    simp at hv
    exact ⟨n, filt, rfl, hn, hv.1.1.2, hv.1.2, h2⟩

theorem sharedSep_pos_iff (cs : List Char) (hv : validFilter cs = true) :
    0 < sharedSep cs ↔ SHARED_PREFIX.isPrefixOf cs = true := by
  constructor
  · intro h
    by_cases hp : SHARED_PREFIX.isPrefixOf cs = true
    · exact hp
    · have := (spec_nonshared cs (Bool.eq_false_iff.2 hp)).2
      omega
  · intro hp
    obtain ⟨n, filt, _, _, _, _, h⟩ := shared_shape cs hv hp
    omega

open Mqtt.Utf8 in
theorem encode_injective (a b : List Char) (h : encode a = encode b) : a = b := by
  have := decode_encode a
  rw [h, decode_encode] at this
  injection this with this
  exact this.symm

theorem split_unique_aux (n1 f1 n2 f2 : List Char)
    (h : n1 ++ '/' :: f1 = n2 ++ '/' :: f2) (h1 : '/' ∉ n1) (h2 : '/' ∉ n2) : n1 = n2 ∧ f1 = f2 := by
  have e := congrArg levels h
  rw [levels_append_slash n1 f1 h1, levels_append_slash n2 f2 h2] at e
  injection e with e1 e2
  subst e1
  exact ⟨rfl, by simpa using h⟩

end Mqtt.Topic
